(* WinInputMutationClaimKey.v -- C14, keys, an armed mutation and ARBITRARY claimers, where
   the claimer may be reached after the mutation ran (then the order of the remaining
   deliveries may legitimately differ from key_order, so no "rest" statement is made here):
   C14_mutation_key_claim -- the log consists of key deliveries D, nothing is delivered after
   a claimer (at most the LAST delivered window claims), and _handle_key returns true iff some
   delivered window claims.  No hypothesis on the claimers.  Proof: the induction of
   WinInputMutKey.v redone with the invariant [stop] in place of the no-claimer clause. *)
From Coq Require Import ZArith List Bool Lia ZifyBool Permutation.
From Tickit Require Import RectDefs WinRectSet WinDefs WinInput WinInputSpec WinInputProofs
  WinInputMutBase WinInputMutKey WinInputMutation.
Import ListNotations.
Local Open Scope Z_scope.


Section KeyClaim.
  Variable claims : Z -> Z.
  Variable R0 : root.
  Variables h cls act tgt : Z.
  Variable n0 : wtree.
  Hypothesis Hu0 : ids_unique R0.
  Hypothesis Hf0 : t_find tgt (r_tree R0) = Some n0.
  Hypothesis Hnr0 : tgt <> t_id (r_tree R0).

  Local Notation ST := (St R0 h cls act tgt).
  Local Notation EM := (emode act tgt).
  Local Notation XM := (exit_mode tgt).
  Local Notation RM := (rootm R0 tgt).
  Local Notation CL := (Cl n0).
  Local Notation HK f := (handle_key f no_defects claims).

  Definition noclaim : Prop := forall x, kP claims x = false.

  (* what a piece of routing did: the state it leaves (mode m', references H, log extended by
     the deliveries D in order), and -- when nobody claims -- nobody claimed and the
     deliveries outside the closed subtree are those to the windows X *)
  (* the result is "some delivered window claimed", and nothing is delivered after a claimer *)
  Definition stop (D : list Z) (r : bool) : Prop :=
    r = existsb (kP claims) D /\ fst (until_claim (kP claims) D) = D.

  Lemma stop_cont D1 D2 r : stop D1 false -> stop D2 r -> stop (D1 ++ D2) r.
  Proof.
    intros [A1 B1] [A2 B2]. unfold stop. rewrite existsb_app, uc_fst_app, <- A1, B2. cbn [orb].
    split; [exact A2|reflexivity].
  Qed.

  Lemma stop_exact l : stop (fst (until_claim (kP claims) l)) (existsb (kP claims) l).
  Proof.
    induction l as [|a l [IH1 IH2]]; [split; reflexivity|]. rewrite uc_cons. cbn [existsb].
    destruct (kP claims a) eqn:Ea; cbn [fst orb].
    - split; [cbn [existsb]; rewrite Ea; reflexivity|]. rewrite uc_cons, Ea. reflexivity.
    - split; [cbn [existsb]; rewrite Ea; exact IH1|]. rewrite uc_cons, Ea. cbn [fst]. rewrite IH2. reflexivity.
  Qed.

  Lemma stop_one w : stop [w] (kP claims w).
  Proof.
    split; [cbn [existsb]; rewrite orb_false_r; reflexivity|]. rewrite uc_cons.
    destruct (kP claims w); reflexivity.
  Qed.

  Definition kres (m' : mode) (H : list Z) (L : list iev) (X : list Z) (res : istate * bool) : Prop :=
    exists D r, res = (ST m' H (LOG D L), r) /\ stop D r.

  Lemma kres_nil m H L : kres m H L [] (ST m H L, false).
  Proof. exists [], false. split; [reflexivity|]. split; reflexivity. Qed.

  Lemma kres_perm m H L X X' res :
    Permutation (rest CL X) (rest CL X') -> kres m H L X res -> kres m H L X' res.
  Proof.
    intros Hp (D & r & He & Hn). exists D, r. split; [exact He|exact Hn].
  Qed.

  (* e1; if it claimed stop, else e2 *)
  Lemma kres_seq m H L X1 X2 (e1 : istate * bool) (e2 : istate -> istate * bool) :
    kres m H L X1 e1 -> (forall L', kres m H L' X2 (e2 (ST m H L'))) ->
    kres m H L (X1 ++ X2) (let '(s', r) := e1 in if r then (s', true) else e2 s').
  Proof.
    intros (D1 & r1 & -> & Hn1) H2. destruct r1.
    - exists D1, true. split; [reflexivity|exact Hn1].
    - destruct (H2 (LOG D1 L)) as (D2 & r2 & -> & Hn2). exists (D1 ++ D2), r2. rewrite LOG_app.
      split; [reflexivity|]. exact (stop_cont _ _ _ Hn1 Hn2).
  Qed.

  (* the same at the level of a frame: a claim ends the frame *)
  Lemma kres_seq_rel m w H L X1 X2 (e1 : istate * bool) (e2 : istate -> istate * bool) :
    kres m (w :: H) L X1 e1 ->
    (forall L', kres (XM m w H) H L' X2 (e2 (ST m (w :: H) L'))) ->
    kres (XM m w H) H L (X1 ++ X2) (let '(s', r) := e1 in if r then (release s' w, true) else e2 s').
  Proof.
    intros (D1 & r1 & -> & Hn1) H2. destruct r1.
    - exists D1, true. rewrite release_St. split; [reflexivity|exact Hn1].
    - destruct (H2 (LOG D1 L)) as (D2 & r2 & -> & Hn2). exists (D1 ++ D2), r2. rewrite LOG_app.
      split; [reflexivity|]. exact (stop_cont _ _ _ Hn1 Hn2).
  Qed.

  Lemma noclaim_ex l : noclaim -> existsb (kP claims) l = false.
  Proof. intros Hn. apply no_claim_existsb. exact Hn. Qed.

  (* an exact result (as the theorems without mutation give it) is a kres *)
  Lemma kres_exact m H L l X :
    (noclaim -> Permutation (rest CL l) (rest CL X)) ->
    kres m H L X (ST m H (klog claims l L), existsb (kP claims) l).
  Proof.
    intros Hp. exists (fst (until_claim (kP claims) l)), (existsb (kP claims) l). split; [reflexivity|].
    apply stop_exact.
  Qed.

  (* ---- a frame that goes on after the mutation: window P = Node i ch of the old forest ---- *)
  Section After.
    Variable f : nat.
    Variable m : mode.
    Variable i : winfo.
    Variable ch : list wtree.
    Local Notation P := (Node i ch).
    Hypothesis Hm : m <> M0.
    Hypothesis HP : subl P (forest R0).
    Hypothesis Hmd : m = Md -> t_id P <> tgt.
    Hypothesis Hfo : focus_okb P = true.
    Hypothesis Hh : (height P < S f)%nat.

    Lemma after_look H L : look (ST m H L) (t_id P) = Some (cut tgt P).
    Proof.
      rewrite look_St.
      assert (Hfr : mem (t_id P) (freedm tgt m) = false).
      { destruct m; try reflexivity. cbn [freedm mem existsb]. specialize (Hmd eq_refl).
        destruct (tgt =? t_id P) eqn:E; [lia|reflexivity]. }
      rewrite Hfr. rewrite <- (cut_id_eq tgt P). apply f_find_unique.
      - apply (after_unique R0 tgt n0 Hu0 Hf0 Hnr0 m Hm).
      - apply (after_image R0 tgt n0 Hu0 Hf0 Hnr0 m P Hm HP Hmd).
    Qed.

    Lemma after_fchild H L :
      fchild_of (ST m H L) (t_id P) =
      if existsb (fun c => t_id c =? tgt) ch && opt_eqb (w_fchild i) tgt then None else w_fchild i.
    Proof.
      unfold fchild_of. rewrite after_look. cbn [cut t_info].
      destruct (existsb (fun c => t_id c =? tgt) ch && opt_eqb (w_fchild i) tgt); reflexivity.
    Qed.

    Lemma after_kid_ids H L : kid_ids (ST m H L) (t_id P) = map t_id (kids_remove tgt ch).
    Proof.
      unfold kid_ids. rewrite after_look. rewrite cut_kids, map_map.
      apply map_ext. intros c. apply cut_id_eq.
    Qed.

    Lemma after_parent c : In c ch -> t_id c <> tgt -> f_parent (RM m) (t_id c) = Some (t_id P).
    Proof.
      intros Hc Hne. rewrite <- (cut_id_eq tgt c), <- (cut_id_eq tgt P). apply f_parent_unique.
      - apply (after_unique R0 tgt n0 Hu0 Hf0 Hnr0 m Hm).
      - apply (after_image R0 tgt n0 Hu0 Hf0 Hnr0 m P Hm HP Hmd).
      - apply cut_kid_in; assumption.
    Qed.

    Lemma kid_facts c : In c ch -> focus_okb c = true /\ (height c < f)%nat /\ subl c (forest R0).
    Proof.
      intros Hc. split; [eapply focus_ok_kid; [exact Hfo|exact Hc]|]. split.
      - pose proof (height_kid c P Hc). lia.
      - eapply subl_kid; [exact HP|exact Hc].
    Qed.

    (* a child that is still there is visited afresh, in its new shape *)
    Lemma visit_after c H L :
      In c ch -> t_id c <> tgt ->
      HK f (ST m H L) (t_id c) =
      (ST m H (klog claims (key_order (cut tgt c)) L), existsb (kP claims) (key_order (cut tgt c))).
    Proof.
      intros Hc Hne. destruct (kid_facts c Hc) as (Hfc & Hhc & Hsc).
      rewrite !(St_Gs R0 h cls act tgt m _ _ Hm). rewrite <- (cut_id_eq tgt c).
      apply handle_key_Gs.
      - apply (after_unique R0 tgt n0 Hu0 Hf0 Hnr0 m Hm).
      - eapply subl_kid; [apply (after_image R0 tgt n0 Hu0 Hf0 Hnr0 m P Hm HP Hmd)|].
        apply cut_kid_in; assumption.
      - apply focus_ok_cut. exact Hfc.
      - pose proof (height_cut tgt c). lia.
      - apply after_clean. exact Hne.
    Qed.

    Lemma cut_rest c : In c ch -> Permutation (rest CL (key_order (cut tgt c))) (rest CL (vis_ids c)).
    Proof.
      intros Hc. destruct (kid_facts c Hc) as (_ & _ & Hsc).
      eapply Permutation_trans; [apply perm_rest, key_order_perm|].
      rewrite (vis_cut tgt CL c); [apply Permutation_refl|].
      intros k Hk Hid. apply (closed_kid R0 tgt n0 Hu0 Hf0 c k Hsc Hk Hid).
    Qed.

    Lemma visit_after_res c H L :
      In c ch -> t_id c <> tgt -> kres m H L (vis_ids c) (HK f (ST m H L) (t_id c)).
    Proof.
      intros Hc Hne. rewrite (visit_after c H L Hc Hne). apply kres_exact. intros _. apply cut_rest. exact Hc.
    Qed.

    Lemma closed_child c : In c ch -> t_id c = tgt -> rest CL (vis_ids c) = [].
    Proof.
      intros Hc Hid. apply rest_nil. intros x Hx. destruct (kid_facts c Hc) as (_ & _ & Hsc).
      apply (closed_kid R0 tgt n0 Hu0 Hf0 c c Hsc (sub_refl c) Hid). apply vis_ids_incl. exact Hx.
    Qed.

    (* the test "is c the focused child" reads the same before and after, for a child that is
       still there *)
    Lemma after_focus_eq c :
      t_id c <> tgt ->
      opt_eqb (if existsb (fun c => t_id c =? tgt) ch && opt_eqb (w_fchild i) tgt then None else w_fchild i) (t_id c)
      = opt_eqb (w_fchild i) (t_id c).
    Proof.
      intros Hne. destruct (existsb (fun c0 => t_id c0 =? tgt) ch && opt_eqb (w_fchild i) tgt) eqn:E; [|reflexivity].
      destruct (w_fchild i) as [k|]; [|reflexivity]. cbn [opt_eqb] in *.
      destruct (k =? t_id c) eqn:Ek; [lia|reflexivity].
    Qed.

    Definition C' (stolen : option Z) (c : wtree) : list Z :=
      if skipb (w_fchild i) stolen c then [] else vis_ids c.

    (* the loop over a copy of (part of) the old child list *)
    Lemma kloop_after stolen : forall cs, incl cs ch -> forall H L,
      kres m H L (flat_map (C' stolen) cs)
           (key_loop (HK f) (t_id P) stolen (ST m H L) (map t_id cs)).
    Proof.
      induction cs as [|a cs IH]; intros Hincl H L.
      { cbn [map flat_map]. rewrite key_loop_nil. apply kres_nil. }
      assert (Ha : In a ch) by (apply Hincl; left; reflexivity).
      assert (Hincl' : incl cs ch) by (intros x Hx; apply Hincl; right; exact Hx).
      cbn [map flat_map]. rewrite key_loop_cons. change (i_root (ST m H L)) with (RM m).
      destruct (Z.eq_dec (t_id a) tgt) as [He|Hne].
      - (* the closed window itself: no longer a child, skipped unread *)
        rewrite He, (after_tgt_orphan R0 tgt n0 Hu0 Hf0 Hnr0 m Hm). cbn [opt_is negb].
        apply (kres_perm m H L (flat_map (C' stolen) cs)); [|apply IH; exact Hincl'].
        rewrite rest_app. unfold C' at 2. destruct (skipb (w_fchild i) stolen a).
        + apply Permutation_refl.
        + rewrite (closed_child a Ha He). apply Permutation_refl.
      - rewrite (after_parent a Ha Hne). cbn [opt_is]. rewrite Z.eqb_refl. cbn [negb].
        unfold key_skip. rewrite after_fchild, !opt_is_eqb, (after_focus_eq a Hne).
        fold (skipb (w_fchild i) stolen a). unfold C' at 1.
        destruct (skipb (w_fchild i) stolen a) eqn:Esk.
        + cbn [app]. apply IH. exact Hincl'.
        + apply (kres_seq m H L (vis_ids a) (flat_map (C' stolen) cs)
                          (HK f (ST m H L) (t_id a))
                          (fun s' => key_loop (HK f) (t_id P) stolen s' (map t_id cs))).
          * apply visit_after_res; assumption.
          * intros L'. apply IH. exact Hincl'.
    Qed.

    Lemma Hndk_P : NoDup (map t_id ch).
    Proof.
      apply NoDup_kid_ids. apply (NoDup_kids P). apply (subl_nodup R0 P Hu0 HP).
    Qed.

    Lemma C'_removed stolen :
      rest CL (flat_map (C' stolen) (kids_remove tgt ch)) = rest CL (flat_map (C' stolen) ch).
    Proof.
      assert (Hx : forall l, incl l ch ->
                rest CL (flat_map (C' stolen) (kids_remove tgt l)) = rest CL (flat_map (C' stolen) l)).
      { induction l as [|a r IH]; intros Hi; [reflexivity|]. unfold kids_remove. cbn [filter flat_map].
        fold (kids_remove tgt r). specialize (IH (fun x Hx => Hi x (or_intror Hx))).
        rewrite (rest_app CL (C' stolen a)).
        destruct (t_id a =? tgt) eqn:E; cbn [negb].
        - rewrite IH. assert (Hr : rest CL (C' stolen a) = []).
          { unfold C'. destruct (skipb (w_fchild i) stolen a); [reflexivity|].
            apply closed_child; [apply Hi; left; reflexivity|lia]. }
          rewrite Hr. reflexivity.
        - cbn [flat_map]. rewrite rest_app, IH. reflexivity. }
      apply Hx. apply incl_refl.
    Qed.

    Lemma ktail4_after stolen H L :
      kres (XM m (t_id P) H) H L (flat_map (C' stolen) ch)
           (ktail4 (HK f) (t_id P) stolen (ST m (t_id P :: H) L)).
    Proof.
      unfold ktail4. rewrite after_kid_ids.
      assert (Hinc : incl (kids_remove tgt ch) ch) by (intros x Hx; apply filter_In in Hx; apply Hx).
      destruct (kloop_after stolen (kids_remove tgt ch) Hinc (t_id P :: H) L) as (D & r & -> & Hn).
      exists D, r. rewrite release_St. split; [reflexivity|].
      exact Hn.
    Qed.

    Lemma fire_after w e H : fire_mode h cls act tgt m w e H = m.
    Proof. destruct m; [contradiction| | |]; reflexivity. Qed.

    Lemma ktail3_after stolen H L :
      kres (XM m (t_id P) H) H L ([t_id P] ++ flat_map (C' stolen) ch)
           (ktail3 (HK f) claims (t_id P) stolen (ST m (t_id P :: H) L)).
    Proof.
      unfold ktail3. rewrite (run_handler_St claims R0 h cls act tgt n0 Hf0 Hnr0), fire_after.
      cbn [ev_bit]. change (Z.testbit (claims (t_id P)) 0) with (kP claims (t_id P)).
      apply (kres_seq_rel m (t_id P) H L [t_id P] (flat_map (C' stolen) ch)
               (ST m (t_id P :: H) (IKey (t_id P) :: L), kP claims (t_id P))
               (fun s3 => ktail4 (HK f) (t_id P) stolen s3)).
      - exists [t_id P], (kP claims (t_id P)). split; [reflexivity|]. apply stop_one.
      - intros L'. apply ktail4_after.
    Qed.

    Definition B' (stolen : option Z) (c : wtree) : list Z :=
      if opt_eqb (w_fchild i) (t_id c) && negb (opt_eqb stolen (t_id c)) then vis_ids c else [].

    Lemma kstep2_after stolen H L :
      kres m H L (flat_map (B' stolen) ch) (kstep2 (HK f) (t_id P) stolen (ST m H L)).
    Proof.
      unfold kstep2. rewrite after_fchild.
      destruct (existsb (fun c => t_id c =? tgt) ch && opt_eqb (w_fchild i) tgt) eqn:Ec.
      - (* the focused child was the closed window: the link is cleared *)
        apply (kres_perm m H L []); [|apply kres_nil].
        rewrite rest_flat_map. rewrite flat_map_nil; [apply Permutation_refl|].
        intros c Hc. unfold B'. apply andb_true_iff in Ec. destruct Ec as (_ & Efc).
        destruct (w_fchild i) as [k|]; [|reflexivity]. cbn [opt_eqb] in *.
        destruct (k =? t_id c) eqn:Ek; [|reflexivity]. cbn [andb].
        destruct (negb (opt_eqb stolen (t_id c))); [|reflexivity].
        apply closed_child; [exact Hc|lia].
      - destruct (w_fchild i) as [k|] eqn:Efc.
        + pose proof Hfo as Hfo'. cbn [focus_okb] in Hfo'. rewrite Efc in Hfo'.
          apply andb_true_iff in Hfo'. destruct Hfo' as (Hex & _).
          assert (Hex' := Hex). apply existsb_exists in Hex'. destruct Hex' as (ck & Hck & Hid).
          assert (k = t_id ck) by (clear - Hid; lia). subst k. clear Hid.
          assert (Hne : t_id ck <> tgt).
          { intro He. assert (Hx : existsb (fun c => t_id c =? tgt) ch = true).
            { apply existsb_exists. exists ck. split; [exact Hck|clear - He; lia]. }
            rewrite Hx in Ec. cbn [andb opt_eqb] in Ec. clear - Ec He. lia. }
          assert (HB : flat_map (B' stolen) ch = B' stolen ck).
          { apply (flat_map_single _ ch ck Hndk_P Hck). intros c _ Hn. unfold B'. rewrite Efc. cbn [opt_eqb].
            destruct (t_id ck =? t_id c) eqn:E; [clear - E Hn; lia|reflexivity]. }
          rewrite HB. unfold B'. rewrite Efc. rewrite opt_is_eqb. cbn [opt_eqb]. rewrite Z.eqb_refl. cbn [andb].
          destruct (opt_eqb stolen (t_id ck)); cbn [negb]; [apply kres_nil|].
          apply visit_after_res; assumption.
        + apply (kres_perm m H L []); [|apply kres_nil].
          rewrite flat_map_nil; [apply Permutation_refl|]. intros c _. unfold B'. rewrite Efc. reflexivity.
    Qed.

    Lemma ktail2_after stolen H L :
      kres (XM m (t_id P) H) H L (flat_map (B' stolen) ch ++ [t_id P] ++ flat_map (C' stolen) ch)
           (ktail2 (HK f) claims (t_id P) stolen (ST m (t_id P :: H) L)).
    Proof.
      unfold ktail2.
      apply (kres_seq_rel m (t_id P) H L (flat_map (B' stolen) ch) ([t_id P] ++ flat_map (C' stolen) ch)
               (kstep2 (HK f) (t_id P) stolen (ST m (t_id P :: H) L))
               (fun s2 => ktail3 (HK f) claims (t_id P) stolen s2)).
      - apply kstep2_after.
      - intros L'. apply ktail3_after.
    Qed.
  End After.

  (* ---- before the mutation ---- *)
  (* will the handler of h run, with the mutation armed for keys, while l is offered the key? *)
  Definition kfires (l : list Z) : bool := (0 =? cls) && fires claims h l.

  Lemma kfires_nil : kfires [] = false.
  Proof. unfold kfires. rewrite fires_nil. apply andb_false_r. Qed.

  Lemma kfires_app_t l1 l2 : existsb (kP claims) l1 = true -> kfires (l1 ++ l2) = kfires l1.
  Proof. intros He. unfold kfires. rewrite fires_app_t by exact He. reflexivity. Qed.

  Lemma kfires_app_f l1 l2 : existsb (kP claims) l1 = false -> kfires (l1 ++ l2) = kfires l1 || kfires l2.
  Proof. intros He. unfold kfires. rewrite fires_app_f by exact He. destruct (0 =? cls); reflexivity. Qed.

  Lemma kfires_prefix l1 l2 : kfires l1 = true -> kfires (l1 ++ l2) = true.
  Proof.
    intros Hf. destruct (existsb (kP claims) l1) eqn:E.
    - rewrite kfires_app_t by exact E. exact Hf.
    - rewrite kfires_app_f by exact E. rewrite Hf. reflexivity.
  Qed.

  Lemma kfires_one w : kfires [w] = (w =? h) && (0 =? cls).
  Proof. unfold kfires. rewrite fires_one. apply andb_comm. Qed.

  (* a piece that ran before the mutation, exactly as the order says, in front of a kres *)
  Lemma kres_shift m H L l X0 X res :
    existsb (kP claims) l = false ->
    (noclaim -> Permutation (rest CL l) (rest CL X0)) ->
    kres m H (klog claims l L) X res -> kres m H L (X0 ++ X) res.
  Proof.
    intros El Hp (D & r & -> & Hn). exists (fst (until_claim (kP claims) l) ++ D), r.
    rewrite LOG_app, <- klog_LOG. split; [reflexivity|].
    apply stop_cont; [|exact Hn]. rewrite <- El. apply stop_exact.
  Qed.

  Definition key_res (f : nat) (n : wtree) : Prop :=
    forall H L,
      if kfires (key_order n)
      then kres (EM H) H L (vis_ids n) (HK f (ST M0 H L) (t_id n))
      else HK f (ST M0 H L) (t_id n) =
           (ST M0 H (klog claims (key_order n) L), existsb (kP claims) (key_order n)).

  Lemma rest_key_vis c : Permutation (rest CL (key_order c)) (rest CL (vis_ids c)).
  Proof. apply perm_rest, key_order_perm. Qed.

  Lemma skip_C' i stolen c : F3 (w_fchild i) stolen c = if skipb (w_fchild i) stolen c then [] else key_order c.
  Proof. apply F3_skip. Qed.

  Lemma rest_F3_C' i stolen cs :
    Permutation (rest CL (flat_map (F3 (w_fchild i) stolen) cs)) (rest CL (flat_map (C' i stolen) cs)).
  Proof.
    apply perm_rest. apply perm_flat_map. intros c _. rewrite F3_skip. unfold C'.
    destruct (skipb (w_fchild i) stolen c); [apply Permutation_refl|apply key_order_perm].
  Qed.

  (* the snapshot loop, started before the mutation *)
  Lemma kloop_M0 f i ch stolen w H :
    w = t_id (Node i ch) ->
    subl (Node i ch) (forest R0) -> focus_okb (Node i ch) = true -> (height (Node i ch) < S f)%nat ->
    (forall c, In c ch -> key_res f c) ->
    forall cs, incl cs ch -> forall L,
    if kfires (flat_map (F3 (w_fchild i) stolen) cs)
    then kres (EM (w :: H)) (w :: H) L (flat_map (C' i stolen) cs)
              (key_loop (HK f) w stolen (ST M0 (w :: H) L) (map t_id cs))
    else key_loop (HK f) w stolen (ST M0 (w :: H) L) (map t_id cs) =
         (ST M0 (w :: H) (klog claims (flat_map (F3 (w_fchild i) stolen) cs) L),
          existsb (kP claims) (flat_map (F3 (w_fchild i) stolen) cs)).
  Proof.
    intros Hw HP Hfo Hh Hok. subst w. set (w := t_id (Node i ch)) in *.
    assert (Hm1 : EM (w :: H) <> M0) by apply emode_not_M0.
    assert (Hmd : EM (w :: H) = Md -> t_id (Node i ch) <> tgt).
    { intros He Ht. subst w. rewrite Ht in He. exact (emode_Md_self act tgt H He). }
    assert (Hfind : f_find R0 w = Some (Node i ch)) by (apply (f_find_unique R0 (Node i ch) Hu0 HP)).
    induction cs as [|a cs IH]; intros Hincl L.
    { cbn [map flat_map]. rewrite kfires_nil, key_loop_nil. reflexivity. }
    assert (Ha : In a ch) by (apply Hincl; left; reflexivity).
    assert (Hincl' : incl cs ch) by (intros x Hx; apply Hincl; right; exact Hx).
    specialize (IH Hincl').
    cbn [map flat_map]. rewrite key_loop_cons. change (i_root (ST M0 (w :: H) L)) with R0.
    rewrite (f_parent_unique R0 (Node i ch) a Hu0 HP Ha). cbn [opt_is]. fold w. rewrite Z.eqb_refl. cbn [negb].
    unfold key_skip. unfold fchild_of. rewrite look_St. cbn [freedm mem existsb rootm].
    rewrite Hfind. cbn [t_info]. rewrite !opt_is_eqb.
    fold (skipb (w_fchild i) stolen a). rewrite F3_skip. unfold C' at 1.
    destruct (skipb (w_fchild i) stolen a) eqn:Esk; cbn [app]; [apply IH|].
    specialize (Hok a Ha (w :: H) L).
    destruct (kfires (key_order a)) eqn:Efa.
    - (* the mutation happens inside a: the rest of the loop runs on the new tree *)
      rewrite kfires_prefix by exact Efa.
      apply (kres_seq (EM (w :: H)) (w :: H) L (vis_ids a) (flat_map (C' i stolen) cs)
               (HK f (ST M0 (w :: H) L) (t_id a))
               (fun s' => key_loop (HK f) w stolen s' (map t_id cs))); [exact Hok|].
      intros L'.
      apply (kloop_after f (EM (w :: H)) i ch Hm1 HP Hmd Hfo Hh stolen cs Hincl' (t_id (Node i ch) :: H) L').
    - rewrite Hok. destruct (existsb (kP claims) (key_order a)) eqn:Ea.
      + rewrite kfires_app_t by exact Ea. rewrite Efa.
        rewrite klog_app_t by exact Ea. rewrite existsb_app, Ea. reflexivity.
      + rewrite kfires_app_f by exact Ea. rewrite Efa. cbn [orb].
        specialize (IH (klog claims (key_order a) L)).
        destruct (kfires (flat_map (F3 (w_fchild i) stolen) cs)).
        * apply (kres_shift _ _ L (key_order a) (vis_ids a)); [exact Ea|intros _; apply rest_key_vis|exact IH].
        * rewrite IH. rewrite klog_app_f by exact Ea. rewrite existsb_app, Ea. reflexivity.
  Qed.

  Definition A' (stolen : option Z) (c : wtree) : list Z :=
    if opt_eqb stolen (t_id c) then vis_ids c else [].

  Lemma frame_perm i ch stolen XA XB XC :
    w_vis i = true ->
    Permutation (rest CL XA) (rest CL (flat_map (A' stolen) ch)) ->
    Permutation (rest CL XB) (rest CL (flat_map (B' i stolen) ch)) ->
    Permutation (rest CL XC) (rest CL (flat_map (C' i stolen) ch)) ->
    Permutation (rest CL (XA ++ XB ++ [w_id i] ++ XC)) (rest CL (vis_ids (Node i ch))).
  Proof.
    intros Hv HA HB HC.
    apply (Permutation_trans (l' := rest CL (flat_map (A' stolen) ch ++ flat_map (B' i stolen) ch ++ [w_id i] ++
                                             flat_map (C' i stolen) ch))).
    { rewrite !rest_app. apply Permutation_app; [exact HA|]. apply Permutation_app; [exact HB|].
      apply Permutation_app; [apply Permutation_refl|exact HC]. }
    apply perm_rest. rewrite vis_ids_eq, Hv.
    rewrite app_assoc. eapply Permutation_trans; [apply Permutation_sym, Permutation_middle|].
    apply perm_skip. rewrite <- app_assoc.
    eapply Permutation_trans; [|apply (three_way vis_ids (fun c => opt_eqb stolen (t_id c))
                                        (fun c => opt_eqb (w_fchild i) (t_id c)) ch)].
    apply Permutation_app; [apply Permutation_refl|]. apply Permutation_app; [apply Permutation_refl|].
    apply perm_flat_map. intros c _. unfold C', skipb. rewrite <- negb_orb.
    destruct (opt_eqb (w_fchild i) (t_id c) || opt_eqb stolen (t_id c)); apply Permutation_refl.
  Qed.

  Lemma rest_A stolen ch :
    Permutation (rest CL (flat_map (fun c => if opt_eqb stolen (t_id c) then key_order c else []) ch))
                (rest CL (flat_map (A' stolen) ch)).
  Proof.
    apply perm_rest, perm_flat_map. intros c _. unfold A'.
    destruct (opt_eqb stolen (t_id c)); [apply key_order_perm|apply Permutation_refl].
  Qed.

  Lemma rest_B i stolen ch :
    Permutation (rest CL (flat_map (fun c => if opt_eqb (w_fchild i) (t_id c) && negb (opt_eqb stolen (t_id c))
                                             then key_order c else []) ch))
                (rest CL (flat_map (B' i stolen) ch)).
  Proof.
    apply perm_rest, perm_flat_map. intros c _. unfold B'.
    destruct (opt_eqb (w_fchild i) (t_id c) && negb (opt_eqb stolen (t_id c))); [apply key_order_perm|apply Permutation_refl].
  Qed.

  Theorem mut_key_gen : forall fuel n,
    subl n (forest R0) -> focus_okb n = true -> (height n < fuel)%nat -> key_res fuel n.
  Proof.
    induction fuel as [|f IHf]; intros n HP Hfo Hh H L; [lia|].
    assert (Hfind : f_find R0 (t_id n) = Some n) by (apply f_find_unique; assumption).
    assert (Hkids : forall c, In c (t_kids n) -> key_res f c).
    { intros c Hc. apply IHf.
      - eapply subl_kid; eassumption.
      - eapply focus_ok_kid; eassumption.
      - apply height_kid in Hc. lia. }
    assert (Hndk : NoDup (map t_id (t_kids n))).
    { apply NoDup_kid_ids. apply (NoDup_kids n). apply (subl_nodup R0 n Hu0 HP). }
    destruct n as [i ch]. cbn [t_kids] in Hkids, Hndk.
    set (w := t_id (Node i ch)) in *.
    assert (Hm1 : EM (w :: H) <> M0) by apply emode_not_M0.
    assert (Hmd : EM (w :: H) = Md -> t_id (Node i ch) <> tgt).
    { intros He Ht. fold w in Ht. rewrite Ht in He. exact (emode_Md_self act tgt H He). }
    assert (Hex : XM (EM (w :: H)) w H = EM H) by apply exit_emode.
    pose proof (kloop_M0 f i ch) as Hloop.
    rewrite handle_key_S, key_step_tails. rewrite look_St. cbn [freedm mem existsb rootm]. rewrite Hfind.
    cbn [t_info t_kids]. rewrite key_order_eq. change (w_id i) with w.
    destruct (w_vis i) eqn:Ev; cbn [negb].
    2:{ rewrite kfires_nil. reflexivity. }
    rewrite hold_St. cbv zeta.
    set (stolen := match ch with c :: _ => if w_steal (t_info c) then Some (t_id c) else None | [] => None end).
    set (A := flat_map (fun c => if opt_eqb stolen (t_id c) then key_order c else []) ch).
    set (B := flat_map (fun c => if opt_eqb (w_fchild i) (t_id c) && negb (opt_eqb stolen (t_id c)) then key_order c else []) ch).
    fold (F3 (w_fchild i) stolen).
    set (C := flat_map (F3 (w_fchild i) stolen) ch).
    (* the three groups of children, as sets *)
    assert (HpA : Permutation (rest CL A) (rest CL (flat_map (A' stolen) ch))) by apply rest_A.
    assert (HpB : Permutation (rest CL B) (rest CL (flat_map (B' i stolen) ch))) by apply rest_B.
    assert (HpC : Permutation (rest CL C) (rest CL (flat_map (C' i stolen) ch))) by apply rest_F3_C'.
    assert (Hrel0 : forall L', release (ST M0 (w :: H) L') w = ST M0 H L').
    { intros L'. rewrite release_St. reflexivity. }
    (* step 1: a stealing first child *)
    assert (H1 :
      if kfires A
      then exists D1 r1,
             match ch with
             | [] => (ST M0 (w :: H) L, false, None)
             | c :: _ =>
                 if w_steal (t_info c)
                 then let '(s', r) := HK f (ST M0 (w :: H) L) (t_id c) in (s', r, Some (t_id c))
                 else (ST M0 (w :: H) L, false, None)
             end = (ST (EM (w :: H)) (w :: H) (LOG D1 L), r1, stolen) /\
             stop D1 r1
      else match ch with
           | [] => (ST M0 (w :: H) L, false, None)
           | c :: _ =>
               if w_steal (t_info c)
               then let '(s', r) := HK f (ST M0 (w :: H) L) (t_id c) in (s', r, Some (t_id c))
               else (ST M0 (w :: H) L, false, None)
           end = (ST M0 (w :: H) (klog claims A L), existsb (kP claims) A, stolen)).
    { subst A stolen. destruct ch as [|c0 r].
      { cbn [flat_map]. rewrite kfires_nil. reflexivity. }
      destruct (w_steal (t_info c0)) eqn:Est.
      - assert (HA : flat_map (fun c => if opt_eqb (Some (t_id c0)) (t_id c) then key_order c else []) (c0 :: r)
                     = key_order c0).
        { cbn [flat_map opt_eqb]. rewrite Z.eqb_refl. rewrite flat_map_nil; [apply app_nil_r|].
          intros c Hc. cbn [map] in Hndk. inversion Hndk as [|? ? Hn Hd]; subst.
          destruct (t_id c0 =? t_id c) eqn:E; [|reflexivity].
          exfalso. apply Hn. replace (t_id c0) with (t_id c) by (clear - E; lia). apply in_map. exact Hc. }
        assert (HA' : flat_map (A' (Some (t_id c0))) (c0 :: r) = vis_ids c0).
        { cbn [flat_map]. unfold A' at 1. cbn [opt_eqb]. rewrite Z.eqb_refl. rewrite flat_map_nil; [apply app_nil_r|].
          intros c Hc. unfold A'. cbn [map opt_eqb] in *. inversion Hndk as [|? ? Hn Hd]; subst.
          destruct (t_id c0 =? t_id c) eqn:E; [|reflexivity].
          exfalso. apply Hn. replace (t_id c0) with (t_id c) by (clear - E; lia). apply in_map. exact Hc. }
        rewrite HA. specialize (Hkids c0 (or_introl eq_refl) (w :: H) L).
        destruct (kfires (key_order c0)).
        + destruct Hkids as (D1 & r1 & -> & Hn1). exists D1, r1. split; [reflexivity|exact Hn1].
        + rewrite Hkids. reflexivity.
      - rewrite flat_map_nil; [|intros c _; reflexivity]. rewrite kfires_nil. reflexivity. }
    destruct (kfires A) eqn:EfA.
    { (* the mutation happened inside the stealing child *)
      rewrite kfires_prefix by exact EfA.
      destruct H1 as (D1 & r1 & -> & Hn1).
      apply (kres_perm (EM H) H L (flat_map (A' stolen) ch ++ flat_map (B' i stolen) ch ++ [w] ++ flat_map (C' i stolen) ch)).
      { apply (frame_perm i ch stolen _ _ _ Ev); apply Permutation_refl. }
      rewrite <- Hex.
      apply (kres_seq_rel (EM (w :: H)) w H L _ _ (ST (EM (w :: H)) (w :: H) (LOG D1 L), r1)
               (fun s1 => ktail2 (HK f) claims w stolen s1)).
      - exists D1, r1. split; [reflexivity|exact Hn1].
      - intros L'. apply (ktail2_after f (EM (w :: H)) i ch Hm1 HP Hmd Hfo Hh stolen H L'). }
    rewrite H1. clear H1.
    destruct (existsb (kP claims) A) eqn:EA.
    { rewrite kfires_app_t by exact EA. rewrite EfA. rewrite Hrel0.
      rewrite klog_app_t by exact EA. rewrite existsb_app, EA. reflexivity. }
    rewrite kfires_app_f by exact EA. rewrite EfA. cbn [orb].
    rewrite klog_app_f by exact EA. rewrite existsb_app, EA. cbn [orb].
    (* everything from here on is in front of the log L1 *)
    set (L1 := klog claims A L).
    assert (Hshift : forall X res, kres (EM H) H L1 X res -> kres (EM H) H L (flat_map (A' stolen) ch ++ X) res).
    { intros X res. apply kres_shift; [exact EA|intros _; exact HpA]. }
    (* step 2: the focused child *)
    assert (H2 :
      if kfires B
      then kres (EM (w :: H)) (w :: H) L1 (flat_map (B' i stolen) ch) (kstep2 (HK f) w stolen (ST M0 (w :: H) L1))
      else kstep2 (HK f) w stolen (ST M0 (w :: H) L1) =
           (ST M0 (w :: H) (klog claims B L1), existsb (kP claims) B)).
    { unfold kstep2, fchild_of. rewrite look_St. cbn [freedm mem existsb rootm]. rewrite Hfind. cbn [t_info].
      subst B. destruct (w_fchild i) as [k|] eqn:Efc.
      - pose proof Hfo as Hfo'. cbn [focus_okb] in Hfo'. rewrite Efc in Hfo'.
        apply andb_true_iff in Hfo'. destruct Hfo' as (Hexk & _).
        apply existsb_exists in Hexk. destruct Hexk as (ck & Hck & Hid).
        assert (k = t_id ck) by (clear - Hid; lia). subst k. clear Hid.
        rewrite (flat_map_single _ ch ck Hndk Hck).
        2:{ intros c _ Hne. cbn [opt_eqb]. destruct (t_id ck =? t_id c) eqn:E; [clear - E Hne; lia|reflexivity]. }
        rewrite (flat_map_single (B' i stolen) ch ck Hndk Hck).
        2:{ intros c _ Hne. unfold B'. rewrite Efc. cbn [opt_eqb]. destruct (t_id ck =? t_id c) eqn:E; [clear - E Hne; lia|reflexivity]. }
        unfold B'. rewrite Efc. rewrite opt_is_eqb. cbn [opt_eqb]. rewrite Z.eqb_refl. cbn [andb].
        destruct (opt_eqb stolen (t_id ck)); cbn [negb].
        + rewrite kfires_nil. reflexivity.
        + exact (Hkids ck Hck (w :: H) L1).
      - rewrite flat_map_nil; [|intros c _; reflexivity]. rewrite kfires_nil. reflexivity. }
    destruct (kfires B) eqn:EfB.
    { rewrite kfires_prefix by exact EfB.
      apply (kres_perm (EM H) H L (flat_map (A' stolen) ch ++ flat_map (B' i stolen) ch ++ [w] ++ flat_map (C' i stolen) ch)).
      { apply (frame_perm i ch stolen _ _ _ Ev); apply Permutation_refl. }
      apply Hshift. rewrite <- Hex. unfold ktail2.
      apply (kres_seq_rel (EM (w :: H)) w H L1 _ _ (kstep2 (HK f) w stolen (ST M0 (w :: H) L1))
               (fun s2 => ktail3 (HK f) claims w stolen s2)); [exact H2|].
      intros L'. apply (ktail3_after f (EM (w :: H)) i ch Hm1 HP Hmd Hfo Hh stolen H L'). }
    unfold ktail2. rewrite H2. clear H2.
    destruct (existsb (kP claims) B) eqn:EB.
    { rewrite kfires_app_t by exact EB. rewrite EfB. rewrite Hrel0.
      rewrite klog_app_t by exact EB. rewrite existsb_app, EB. reflexivity. }
    rewrite kfires_app_f by exact EB. rewrite EfB. cbn [orb].
    rewrite klog_app_f by exact EB. rewrite existsb_app, EB. cbn [orb].
    set (L2 := klog claims B L1).
    assert (Hshift2 : forall X res, kres (EM H) H L2 X res ->
              kres (EM H) H L (flat_map (A' stolen) ch ++ flat_map (B' i stolen) ch ++ X) res).
    { intros X res Hr. apply Hshift. revert Hr. apply kres_shift; [exact EB|intros _; exact HpB]. }
    (* step 3: the window's own handler *)
    unfold ktail3. rewrite (run_handler_St claims R0 h cls act tgt n0 Hf0 Hnr0).
    cbn [fire_mode ev_class ev_bit]. change (Z.testbit (claims w) 0) with (kP claims w).
    assert (Hw : forall L', klog claims [w] L' = IKey w :: L').
    { intros L'. unfold klog. cbn [until_claim]. destruct (kP claims w); reflexivity. }
    destruct ((w =? h) && (0 =? cls)) eqn:Eown.
    { rewrite kfires_prefix by (rewrite kfires_one; exact Eown).
      apply (kres_perm (EM H) H L (flat_map (A' stolen) ch ++ flat_map (B' i stolen) ch ++ [w] ++ flat_map (C' i stolen) ch)).
      { apply (frame_perm i ch stolen _ _ _ Ev); apply Permutation_refl. }
      apply Hshift2. rewrite <- Hex.
      apply (kres_seq_rel (EM (w :: H)) w H L2 [w] _ (ST (EM (w :: H)) (w :: H) (IKey w :: L2), kP claims w)
               (fun s3 => ktail4 (HK f) w stolen s3)).
      - exists [w], (kP claims w). split; [reflexivity|]. apply stop_one.
      - intros L'. apply (ktail4_after f (EM (w :: H)) i ch Hm1 HP Hmd Hfo Hh stolen H L'). }
    assert (Ef1 : kfires [w] = false) by (rewrite kfires_one; exact Eown).
    destruct (kP claims w) eqn:Ew.
    { rewrite kfires_app_t by (cbn [existsb]; rewrite Ew; reflexivity). rewrite Ef1. rewrite Hrel0.
      rewrite klog_app_t by (cbn [existsb]; rewrite Ew; reflexivity). rewrite Hw.
      rewrite existsb_app. cbn [existsb]. rewrite Ew. reflexivity. }
    rewrite kfires_app_f by (cbn [existsb]; rewrite Ew; reflexivity). rewrite Ef1. cbn [orb].
    rewrite klog_app_f by (cbn [existsb]; rewrite Ew; reflexivity). rewrite Hw.
    rewrite existsb_app. cbn [existsb]. rewrite Ew. cbn [orb].
    (* step 4: the other children *)
    unfold ktail4, kid_ids. rewrite look_St. cbn [freedm mem existsb rootm]. rewrite Hfind. cbn [t_kids].
    specialize (Hloop stolen w H eq_refl HP Hfo Hh Hkids ch (incl_refl ch) (IKey w :: L2)). fold C in Hloop.
    destruct (kfires C) eqn:EfC.
    - apply (kres_perm (EM H) H L (flat_map (A' stolen) ch ++ flat_map (B' i stolen) ch ++ [w] ++ flat_map (C' i stolen) ch)).
      { apply (frame_perm i ch stolen _ _ _ Ev); apply Permutation_refl. }
      apply Hshift2. destruct Hloop as (D & r & -> & Hn).
      exists ([w] ++ D), r. rewrite release_St, Hex, LOG_app. split; [reflexivity|].
      apply stop_cont; [|exact Hn]. rewrite <- Ew. apply stop_one.
    - rewrite Hloop. rewrite Hrel0. reflexivity.
  Qed.
End KeyClaim.

(* ==================================================================================== *)

(* keys, one armed mutation of ANY non-root window by ANY handler, ARBITRARY claimers (also
   reached after the mutation ran, also inside the closed subtree): the log is a list of key
   deliveries D in which nothing follows a claimer, and the routing returns true iff some
   delivered window claims *)
Theorem C14_mutation_key_claim fuel claims s w wn h cls act tgt n0 s' r :
  armed_start s h cls act tgt n0 -> i_log s = [] ->
  look s w = Some wn -> focus_okb wn = true -> (height wn < fuel)%nat ->
  handle_key fuel no_defects claims s w = (s', r) ->
  exists D, rev (i_log s') = map IKey D /\
            r = existsb (fun x => Z.testbit (claims x) 0) D /\
            fst (until_claim (fun x => Z.testbit (claims x) 0) D) = D /\
            (forall D1 x D2, D = D1 ++ x :: D2 -> Z.testbit (claims x) 0 = true -> D2 = []).
Proof.
  intros (Ha & Hfr & Hpe & Hfa & Hho & Hu & Hf & Hnr) HL Hl Hfo Hh Hrun.
  destruct s as [R0 fr H pe ar L fa]. cbn [i_armed i_freed i_pending i_fault i_root i_log i_holds] in *. subst fr pe fa ar L.
  change (mkI R0 [] H [] [(h, (cls, act, tgt))] [] false) with (St R0 h cls act tgt M0 H []) in Hrun, Hl.
  rewrite look_St in Hl. cbn [freedm mem existsb rootm] in Hl.
  apply f_find_sub in Hl. destruct Hl as (Hs & Hid). subst w.
  pose proof (mut_key_gen claims R0 h cls act tgt n0 Hu Hf Hnr fuel wn Hs Hfo Hh H []) as Hres.
  assert (Hlast : forall D, fst (until_claim (kP claims) D) = D ->
            forall D1 x D2, D = D1 ++ x :: D2 -> kP claims x = true -> D2 = []).
  { intros D HD D1 x D2 -> Hx. rewrite uc_fst_app in HD.
    destruct (existsb (kP claims) D1) eqn:E.
    - pose proof (f_equal (@length Z) HD) as Hlen. rewrite app_length in Hlen. cbn [length] in Hlen.
      assert (Hle : (length (fst (until_claim (kP claims) D1)) <= length D1)%nat).
      { clear. induction D1 as [|a l IH]; [apply le_n|]. rewrite uc_cons. destruct (kP claims a); cbn [fst length]; lia. }
      lia.
    - apply app_inv_head in HD. rewrite uc_cons, Hx in HD. cbn [fst] in HD. injection HD as HD. symmetry. exact HD. }
  assert (Hfin : forall m D r0, s' = St R0 h cls act tgt m H (LOG D []) -> stop claims D r0 -> r = r0 ->
            exists D, rev (i_log s') = map IKey D /\
            r = existsb (fun x => Z.testbit (claims x) 0) D /\
            fst (until_claim (fun x => Z.testbit (claims x) 0) D) = D /\
            (forall D1 x D2, D = D1 ++ x :: D2 -> Z.testbit (claims x) 0 = true -> D2 = [])).
  { intros m D r0 -> [A B] ->. exists D. split.
    - cbn [St i_log]. unfold LOG. rewrite app_nil_r. apply rev_involutive.
    - split; [exact A|]. split; [exact B|]. exact (Hlast D B). }
  destruct (kfires claims h cls (key_order wn)) eqn:Ef.
  - destruct Hres as (D & r0 & He & Hn). rewrite Hrun in He. inversion He; subst.
    eapply Hfin; [reflexivity|exact Hn|reflexivity].
  - rewrite Hrun in Hres. inversion Hres; subst.
    eapply (Hfin M0 (fst (until_claim (kP claims) (key_order wn)))); [reflexivity|apply stop_exact|reflexivity].
Qed.

Print Assumptions C14_mutation_key_claim.

(* T1, key order 1 5 9 6 8 2 10 7 0 11 3 13 12 4: the handler of 1 destroys the focused child
   2, window 11 -- reached after the mutation -- claims keys *)
Example C14_key_claim_example :
  let s' := term_key no_defects (fun x => if x =? 11 then 1 else 0) (mk_state T1 [(1, (0, 2, 2))]) in
  map iev_win (rev (i_log s')) = [1; 5; 9; 6; 0; 11] /\ i_freed s' = [2] /\ i_fault s' = false /\
  snd (handle_key ifuel no_defects (fun x => if x =? 11 then 1 else 0) (mk_state T1 [(1, (0, 2, 2))]) 0) = true.
Proof. vm_compute. repeat split; reflexivity. Qed.
