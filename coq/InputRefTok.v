(* InputRefTok.v -- a small reference tokenizer for the byte syntax libtermkey decodes -- C0
   controls and ASCII, UTF-8 (2 to 4 bytes, malformed input answered with U+FFFD), ESC-prefixed
   Alt keys, SS3 (ESC O x), CSI (ESC [ params final) including SGR mouse reports
   (ESC [ < b ; x ; y M|m) -- and the proof that it meets every hypothesis the C20 theorems make
   of the tokenizer:
     ref_tok_stable      a key found in a buffer is found, same key, same length, in every extension
     ref_tok_len         a key consumes at least one and at most the buffered bytes
     ref_tok_again_short an unfinished sequence is shorter than CSI_LIMIT + 3 bytes (< any cap > 34)
     ref_tok_none_empty  "none" only for the empty buffer.
   So C20_chunking / C20_timed_chunking hold, unconditionally, for this concrete tokenizer
   (ref_chunking, ref_timed_chunking).  It is NOT claimed to be libtermkey. *)
From Coq Require Import ZArith List Bool Lia.
From Tickit Require Import InputDefs InputSpec InputProofs.
Import ListNotations.
Local Open Scope Z_scope.

Definition is_final (c : Z) : bool := (64 <=? c) && (c <=? 126).
Definition is_param (c : Z) : bool := (32 <=? c) && (c <=? 63).
Definition is_cont (c : Z) : bool := (128 <=? c) && (c <=? 191).

Inductive scan := SFound (n : nat) (c : Z) | SAgain | SAbort.

(* the end of a CSI sequence: at most [fuel] parameter / intermediate bytes, then a final byte *)
Fixpoint csi_end (fuel : nat) (l : list Z) : scan :=
  match l with
  | [] => SAgain
  | c :: t =>
      if is_final c then SFound 0 c
      else if is_param c then
        match fuel with
        | O => SAbort
        | S f => match csi_end f t with SFound n c' => SFound (S n) c' | r => r end
        end
      else SAbort
  end.

(* k continuation bytes *)
Fixpoint cont_scan (k : nat) (l : list Z) : scan :=
  match k with
  | O => SFound 0 0
  | S k' => match l with [] => SAgain | c :: t => if is_cont c then cont_scan k' t else SAbort end
  end.

Definition ukey (bytes : list Z) : key := mkKey TUnicode 0 bytes bytes 0 0 0 0.
Definition ckey (c : Z) : key := mkKey TKeysym 0 [] [c] 0 0 0 0.
Definition altkey (c : Z) : key := mkKey TUnicode 2 [c] [77; 45; c] 0 0 0 0.     (* "M-c" *)
Definition ss3key (c : Z) : key := mkKey TKeysym 0 [] [79; c] 0 0 0 0.
Definition REPLACEMENT : list Z := [239; 191; 189].                              (* U+FFFD *)

Fixpoint num (acc : Z) (l : list Z) : Z * list Z :=
  match l with
  | c :: t => if (48 <=? c) && (c <=? 57) then num (acc * 10 + (c - 48)) t else (acc, l)
  | [] => (acc, [])
  end.

Definition parse3 (l : list Z) : option (Z * Z * Z) :=
  let (b, r1) := num 0 l in
  match r1 with
  | 59 :: r1' =>
      let (x, r2) := num 0 r1' in
      match r2 with
      | 59 :: r2' => let (y, r3) := num 0 r2' in match r3 with [] => Some (b, x, y) | _ => None end
      | _ => None
      end
  | _ => None
  end.

(* CSI: SGR mouse reports become mouse keys (termkey_interpret_mouse), the rest function keys
   named by their bytes *)
Definition csikey (params : list Z) (final : Z) : key :=
  match params with
  | 60 :: p =>
      if (final =? 77) || (final =? 109) then
        match parse3 p with
        | Some (b, x, y) =>
            let ev := if final =? 109 then TK_MOUSE_RELEASE else if Z.testbit b 5 then TK_MOUSE_DRAG else TK_MOUSE_PRESS in
            let btn := if Z.testbit b 6 then 4 + Z.land b 3 else if Z.land b 3 =? 3 then 0 else Z.land b 3 + 1 in
            let md := (if Z.testbit b 2 then 1 else 0) + (if Z.testbit b 3 then 2 else 0) + (if Z.testbit b 4 then 4 else 0) in
            mkKey TMouse md [] [] ev btn y x
        | None => mkKey TFunction 0 [] (params ++ [final]) 0 0 0 0
        end
      else mkKey TFunction 0 [] (params ++ [final]) 0 0 0 0
  | _ => mkKey TFunction 0 [] (params ++ [final]) 0 0 0 0
  end.

Definition CSI_LIMIT : nat := 32.

Definition utf8_need (c0 : Z) : nat :=
  if (194 <=? c0) && (c0 <=? 223) then 1%nat
  else if (224 <=? c0) && (c0 <=? 239) then 2%nat
  else if (240 <=? c0) && (c0 <=? 244) then 3%nat else 0%nat.

Definition ref_tok (b : list Z) : tokres :=
  match b with
  | [] => TNone
  | c0 :: r0 =>
      if c0 =? 27 then
        match r0 with
        | [] => TAgain
        | c1 :: r1 =>
            if c1 =? 91 then
              match csi_end CSI_LIMIT r1 with
              | SFound n c => TKey (csikey (firstn n r1) c) (n + 3)
              | SAgain => TAgain
              | SAbort => TKey (ckey 27) 1
              end
            else if c1 =? 79 then
              match r1 with [] => TAgain | c2 :: _ => TKey (ss3key c2) 3 end
            else if (32 <=? c1) && (c1 <=? 126) then TKey (altkey c1) 2
            else TKey (ckey 27) 1
        end
      else if c0 <? 128 then
        (if (c0 <? 32) || (c0 =? 127) then TKey (ckey c0) 1 else TKey (ukey [c0]) 1)
      else
        match utf8_need c0 with
        | O => TKey (ukey REPLACEMENT) 1          (* stray continuation byte or invalid lead *)
        | S k' => match cont_scan (S k') r0 with
                  | SFound _ _ => TKey (ukey (c0 :: firstn (S k') r0)) (S (S k'))
                  | SAgain => TAgain
                  | SAbort => TKey (ukey REPLACEMENT) 1
                  end
        end
  end.

(* ------------------------------------------------------------------ the scans *)

Lemma csi_end_found : forall f l n c, csi_end f l = SFound n c ->
  (n < length l)%nat /\ forall m, csi_end f (l ++ m) = SFound n c /\ firstn n (l ++ m) = firstn n l.
Proof.
  induction f as [|f IH]; intros l n c H; destruct l as [|x t]; cbn [csi_end] in H; try discriminate.
  - destruct (is_final x) eqn:Ef.
    + inversion H; subst. split; [cbn; lia|]. intros m. cbn [app csi_end]. rewrite Ef. split; reflexivity.
    + destruct (is_param x); discriminate.
  - destruct (is_final x) eqn:Ef.
    + inversion H; subst. split; [cbn; lia|]. intros m. cbn [app csi_end]. rewrite Ef. split; reflexivity.
    + destruct (is_param x) eqn:Ep; [|discriminate].
      destruct (csi_end f t) as [n' c'| |] eqn:Et; try discriminate. inversion H; subst.
      destruct (IH t n' c Et) as [Hl Hm]. split; [cbn; lia|]. intros m. destruct (Hm m) as [A B].
      cbn [app csi_end]. rewrite Ef, Ep, A. cbn [firstn]. rewrite B. split; reflexivity.
Qed.

Lemma csi_end_abort : forall f l m, csi_end f l = SAbort -> csi_end f (l ++ m) = SAbort.
Proof.
  induction f as [|f IH]; intros l m H; destruct l as [|x t]; cbn [csi_end] in H; try discriminate; cbn [app csi_end].
  - destruct (is_final x); [discriminate|]. destruct (is_param x); reflexivity.
  - destruct (is_final x); [discriminate|]. destruct (is_param x); [|reflexivity].
    destruct (csi_end f t) eqn:Et; try discriminate. rewrite (IH t m Et). reflexivity.
Qed.

Lemma csi_end_again : forall f l, csi_end f l = SAgain -> (length l <= f)%nat.
Proof.
  induction f as [|f IH]; intros l H; destruct l as [|x t]; cbn [csi_end] in H; cbn [length]; try lia.
  - destruct (is_final x); [discriminate|]. destruct (is_param x); discriminate.
  - destruct (is_final x); [discriminate|]. destruct (is_param x); [|discriminate].
    destruct (csi_end f t) eqn:Et; try discriminate. specialize (IH t Et). lia.
Qed.

Lemma cont_scan_found : forall k l n c, cont_scan k l = SFound n c ->
  (k <= length l)%nat /\ forall m, cont_scan k (l ++ m) = SFound n c /\ firstn k (l ++ m) = firstn k l.
Proof.
  induction k as [|k IH]; intros l n c H.
  - split; [lia|]. intros m. split; [exact H|reflexivity].
  - destruct l as [|x t]; cbn [cont_scan] in H; [discriminate|]. destruct (is_cont x) eqn:Ec; [|discriminate].
    destruct (IH t n c H) as [Hl Hm]. split; [cbn; lia|]. intros m. destruct (Hm m) as [A B].
    cbn [app cont_scan firstn]. rewrite Ec, A, B. split; reflexivity.
Qed.

Lemma cont_scan_abort : forall k l m, cont_scan k l = SAbort -> cont_scan k (l ++ m) = SAbort.
Proof.
  induction k as [|k IH]; intros l m H; [discriminate|]. destruct l as [|x t]; cbn [cont_scan] in H; [discriminate|].
  cbn [app cont_scan]. destruct (is_cont x); [apply IH; exact H|reflexivity].
Qed.

Lemma cont_scan_again : forall k l, cont_scan k l = SAgain -> (length l < k)%nat.
Proof.
  induction k as [|k IH]; intros l H; [discriminate|]. destruct l as [|x t]; cbn [cont_scan] in H; [cbn; lia|].
  destruct (is_cont x); [|discriminate]. specialize (IH t H). cbn. lia.
Qed.

(* ------------------------------------------------------------------ the hypotheses of C20, for ref_tok *)

Theorem ref_tok_stable : forall b m k n, ref_tok b = TKey k n -> ref_tok (b ++ m) = TKey k n.
Proof.
  intros b m k n H. destruct b as [|c0 r0]; [discriminate|]. cbn [app]. unfold ref_tok in *.
  destruct (c0 =? 27).
  - destruct r0 as [|c1 r1]; [discriminate|]. cbn [app]. destruct (c1 =? 91).
    + destruct (csi_end CSI_LIMIT r1) as [n' c'| |] eqn:Ec; [| discriminate |].
      * destruct (csi_end_found _ _ _ _ Ec) as [_ Hm]. destruct (Hm m) as [A B]. rewrite A, B. exact H.
      * rewrite (csi_end_abort _ _ m Ec). exact H.
    + destruct (c1 =? 79).
      * destruct r1 as [|c2 r2]; [discriminate|]. exact H.
      * exact H.
  - destruct (c0 <? 128); [exact H|]. destruct (utf8_need c0) as [|k']; [exact H|].
    destruct (cont_scan (S k') r0) as [n' c'| |] eqn:Ec; [| discriminate |].
    + destruct (cont_scan_found _ _ _ _ Ec) as [_ Hm]. destruct (Hm m) as [A B]. rewrite A, B. exact H.
    + rewrite (cont_scan_abort _ _ m Ec). exact H.
Qed.

Theorem ref_tok_len : forall b k n, ref_tok b = TKey k n -> (0 < n <= length b)%nat.
Proof.
  intros b k n H. destruct b as [|c0 r0]; [discriminate|]. unfold ref_tok in H. cbn [length].
  destruct (c0 =? 27).
  - destruct r0 as [|c1 r1]; [discriminate|]. cbn [length]. destruct (c1 =? 91).
    + destruct (csi_end CSI_LIMIT r1) as [n' c'| |] eqn:Ec; [| discriminate |]; inversion H; subst.
      * destruct (csi_end_found _ _ _ _ Ec) as [Hl _]. lia.
      * lia.
    + destruct (c1 =? 79).
      * destruct r1 as [|c2 r2]; [discriminate|]. inversion H; subst. cbn. lia.
      * destruct ((32 <=? c1) && (c1 <=? 126)); inversion H; subst; lia.
  - destruct (c0 <? 128).
    + destruct ((c0 <? 32) || (c0 =? 127)); inversion H; subst; lia.
    + destruct (utf8_need c0) as [|k']; [inversion H; subst; lia|].
      destruct (cont_scan (S k') r0) as [n' c'| |] eqn:Ec; [| discriminate |]; inversion H; subst; [|lia].
      destruct (cont_scan_found _ _ _ _ Ec) as [Hl _]. lia.
Qed.

Theorem ref_tok_again_short : forall b, ref_tok b = TAgain -> (length b < CSI_LIMIT + 3)%nat.
Proof.
  intros b H. destruct b as [|c0 r0]; [discriminate|]. unfold ref_tok in H. cbn [length].
  destruct (c0 =? 27).
  - destruct r0 as [|c1 r1]; [cbn; unfold CSI_LIMIT; lia|]. cbn [length]. destruct (c1 =? 91).
    + destruct (csi_end CSI_LIMIT r1) as [n' c'| |] eqn:Ec; try discriminate. pose proof (csi_end_again _ _ Ec). lia.
    + destruct (c1 =? 79).
      * destruct r1 as [|c2 r2]; [cbn; unfold CSI_LIMIT; lia|discriminate].
      * destruct ((32 <=? c1) && (c1 <=? 126)); discriminate.
  - destruct (c0 <? 128).
    + destruct ((c0 <? 32) || (c0 =? 127)); discriminate.
    + unfold utf8_need in H.
      destruct ((194 <=? c0) && (c0 <=? 223));
        [|destruct ((224 <=? c0) && (c0 <=? 239)); [|destruct ((240 <=? c0) && (c0 <=? 244)); [|discriminate]]];
        match type of H with
        | match cont_scan ?k r0 with _ => _ end = _ =>
            destruct (cont_scan k r0) eqn:Ec; try discriminate; pose proof (cont_scan_again _ _ Ec); unfold CSI_LIMIT; lia
        end.
Qed.

Theorem ref_tok_none_empty : forall b, ref_tok b = TNone -> b = [].
Proof.
  intros b H. destruct b as [|c0 r0]; [reflexivity|]. exfalso. unfold ref_tok in H.
  destruct (c0 =? 27).
  - destruct r0 as [|c1 r1]; [discriminate|]. destruct (c1 =? 91).
    + destruct (csi_end CSI_LIMIT r1); discriminate.
    + destruct (c1 =? 79); [destruct r1; discriminate|]. destruct ((32 <=? c1) && (c1 <=? 126)); discriminate.
  - destruct (c0 <? 128); [destruct ((c0 <? 32) || (c0 =? 127)); discriminate|].
    destruct (utf8_need c0); [discriminate|]. destruct (cont_scan _ r0); discriminate.
Qed.

(* ------------------------------------------------------------------ C20 for the reference tokenizer *)

Definition REF_CAP : nat := 256.

Lemma ref_again_cap : forall b, ref_tok b = TAgain -> (length b < REF_CAP)%nat.
Proof. intros b H. pose proof (ref_tok_again_short b H). unfold REF_CAP, CSI_LIMIT in *. lia. Qed.

Theorem ref_chunking : forall chunks c s, (length (i_buf s) < REF_CAP)%nat ->
  push_chunks ref_tok REF_CAP s (c :: chunks) = push_bytes ref_tok REF_CAP s (concat (c :: chunks)).
Proof.
  apply (chunking_bounded ref_tok ref_tok_stable ref_tok_len REF_CAP); [unfold REF_CAP; lia|exact ref_again_cap|exact ref_tok_none_empty].
Qed.

Theorem ref_timed_chunking : forall wait ht steps c g now ts,
  (forall c0 gap, In (c0, gap) ((c, g) :: steps) -> 0 <= gap < wait) ->
  (length (i_buf (t_in ts)) < REF_CAP)%nat ->
  match push_bytes ref_tok REF_CAP (t_in ts) (concat (map fst ((c, g) :: steps))) with
  | Some (evs, s') => exists ms d, timed_run ref_tok REF_CAP wait false false ht now ts ((c, g) :: steps) = Some (evs, ms, mkT s' d)
  | None => timed_run ref_tok REF_CAP wait false false ht now ts ((c, g) :: steps) = None
  end.
Proof.
  intros wait ht. apply (timed_chunking ref_tok ref_tok_stable ref_tok_len REF_CAP); [unfold REF_CAP; lia|exact ref_again_cap|exact ref_tok_none_empty].
Qed.

(* a stream with every kind of token: 'a', e-acute (2 bytes), the euro sign (3 bytes), ESC [ A, ESC O P,
   Alt-x, an SGR press of button 1 at column 10 line 5 and the matching release, a stray
   continuation byte, Ctrl-C *)
Definition ref_stream : list Z :=
  [97; 195; 169; 226; 130; 172; 27; 91; 65; 27; 79; 80; 27; 120;
   27; 91; 60; 48; 59; 49; 48; 59; 53; 77;  27; 91; 60; 48; 59; 49; 48; 59; 53; 109;  128; 3].

Definition ref_events : list event :=
  [EvKey KEYEV_TEXT 0 [97]; EvKey KEYEV_TEXT 0 [195; 169]; EvKey KEYEV_TEXT 0 [226; 130; 172];
   EvKey KEYEV_KEY 0 [65]; EvKey KEYEV_KEY 0 [79; 80]; EvKey KEYEV_KEY 2 [77; 45; 120];
   EvMouse MOUSEEV_PRESS 1 4 9 0; EvMouse MOUSEEV_RELEASE 1 4 9 0;
   EvKey KEYEV_TEXT 0 [239; 191; 189]; EvKey KEYEV_KEY 0 [3]].

(* every way of cutting the stream in two gives these events (checked by evaluation for all 37 cuts;
   ref_chunking says so for every fragmentation) *)
Lemma ref_stream_cuts :
  push_bytes ref_tok REF_CAP ist0 ref_stream = Some (ref_events, mkI [] 0 false) /\
  forallb (fun i => match push_chunks ref_tok REF_CAP ist0 [firstn i ref_stream; skipn i ref_stream] with
                    | Some (e, s) => events_eqb e ref_events && Nat.eqb (length (i_buf s)) 0
                    | None => false end) (seq 0 37) = true.
Proof. split; vm_compute; reflexivity. Qed.
