(* LoopSigSlots.v -- evloop_signal / evloop_cancel_signal of /repo/src/evloop-default.c: the
   table signums[] (0 = free slot, the first free slot is reused, else the table grows) and the
   set watched_signals, and which signal numbers dispatch_signals looks at.

   watched_spec: after any history of registrations and cancellations the set watched_signals
   is exactly the set of signals that have a live watch -- slot reuse included -- so the walk
   for(signum = 1; signum < NSIG; signum++) of dispatch_signals finds every recorded signal
   that still has a watcher (dispatch_covers).
   The seeded variant walks only up to max_signum, which it raises where a slot is appended
   but not where one is reused: refuted by cancel-then-watch with a higher signal number
   (max_signum_refuted). *)
From Coq Require Import ZArith List Bool Lia.
From Tickit Require Import LoopDefs LoopSigDefs LoopSigProofs LoopSigIO.
Import ListNotations.
Local Open Scope Z_scope.

Record swatch := mkSw { sw_id : Z; sw_sig : Z; sw_slot : nat }.

Record gst := mkG {
  g_slots : list Z;        (* signums[] *)
  g_watched : list Z;      (* watched_signals *)
  g_max : Z;               (* the seeded max_signum *)
  g_live : list swatch; g_next : Z }.

Definition gst0 : gst := mkG [] [] 0 [] 0.

Fixpoint find0 (l : list Z) (i : nat) : option nat :=
  match l with [] => None | h :: t => if h =? 0 then Some i else find0 t (S i) end.

(* tickit_watch_signal -> evloop_signal *)
Definition g_reg (s : gst) (sig : Z) : gst :=
  let w idx := mkSw (g_next s) sig idx in
  let watched := addz sig (g_watched s) in
  match find0 (g_slots s) 0 with
  | Some i => mkG (set_nth (g_slots s) i sig) watched (g_max s) (g_live s ++ [w i]) (g_next s + 1)
  | None => mkG (g_slots s ++ [sig]) watched (Z.max (g_max s) sig) (g_live s ++ [w (length (g_slots s))]) (g_next s + 1)
  end.

Definition remw (id : Z) (l : list swatch) : list swatch := filter (fun w => negb (sw_id w =? id)) l.

(* tickit_watch_cancel -> evloop_cancel_signal *)
Definition g_cancel (s : gst) (id : Z) : gst :=
  match find (fun w => sw_id w =? id) (g_live s) with
  | None => s
  | Some w =>
      let slots := set_nth (g_slots s) (sw_slot w) 0 in
      let watched := if memz (sw_sig w) slots then g_watched s
                     else filter (fun x => negb (x =? sw_sig w)) (g_watched s) in
      mkG slots watched (g_max s) (remw id (g_live s)) (g_next s)
  end.

(* GRun: tickit_run -- it watches SIGINT (2) for its duration and cancels that watch when the loop
   has returned: a signums[] slot is taken and freed again, which is how slot reuse comes about in
   every program that uses tickit_run *)
Inductive gop := GReg (sig : Z) | GCancel (id : Z) | GRun.
Definition g_op (s : gst) (o : gop) : gst :=
  match o with
  | GReg sg => g_reg s sg
  | GCancel id => g_cancel s id
  | GRun => g_cancel (g_reg s 2) (g_next s)
  end.
Definition g_run (ops : list gop) : gst := fold_left g_op ops gst0.

Definition NSIG : Z := 65.
Definition range (hi : Z) : list Z := map Z.of_nat (seq 1 (Z.to_nat hi - 1)).     (* 1 .. hi-1 *)

(* the signals dispatch_signals hands to tickit_evloop_invoke_sigwatches, given the pending set *)
Definition dispatched (seeded : bool) (s : gst) (pending : list Z) : list Z :=
  filter (fun sg => memz sg pending && memz sg (g_watched s)) (range (if seeded then g_max s + 1 else NSIG)).

(* ------------------------------------------------------------------ invariant *)

Record GI (s : gst) : Prop := mkGI {
  gi_slot : forall w, In w (g_live s) -> nth_error (g_slots s) (sw_slot w) = Some (sw_sig w) /\ sw_sig w <> 0 /\ sw_id w < g_next s;
  gi_occ : forall i sg, nth_error (g_slots s) i = Some sg -> sg <> 0 -> exists w, In w (g_live s) /\ sw_slot w = i;
  gi_nd : NoDup (map sw_slot (g_live s));
  gi_ids : NoDup (map sw_id (g_live s));
  gi_w : forall sg, In sg (g_watched s) <-> (sg <> 0 /\ In sg (g_slots s)) }.

Lemma find0_spec : forall l k i, find0 l k = Some i -> (k <= i)%nat /\ nth_error l (i - k) = Some 0.
Proof.
  induction l as [|h t IH]; intros k i H; [discriminate|]. cbn [find0] in H. destruct (h =? 0) eqn:E.
  - inversion H; subst. apply Z.eqb_eq in E. subst h. rewrite Nat.sub_diag. split; [lia|reflexivity].
  - destruct (IH (S k) i H) as [A B]. split; [lia|]. replace (i - k)%nat with (S (i - S k)) by lia. exact B.
Qed.
Lemma find0_none : forall l k, find0 l k = None -> ~ In 0 l.
Proof.
  induction l as [|h t IH]; intros k H; [intros []|]. cbn [find0] in H. destruct (h =? 0) eqn:E; [discriminate|].
  intros [A|A]; [apply Z.eqb_neq in E; contradiction|exact (IH (S k) H A)].
Qed.

Lemma in_set_nth : forall (l : list Z) i v x, In x (set_nth l i v) -> x = v \/ In x l.
Proof.
  induction l as [|h t IH]; intros i v x H; [destruct H|]. destruct i; cbn [set_nth] in H.
  - destruct H as [H|H]; [left; symmetry; exact H|right; right; exact H].
  - destruct H as [H|H]; [right; left; exact H|]. destruct (IH i v x H) as [A|A]; [left; exact A|right; right; exact A].
Qed.

Lemma in_nth_error : forall (l : list Z) x, In x l <-> exists i, nth_error l i = Some x.
Proof. intros l x. split; [apply In_nth_error|intros [i H]; eapply nth_error_In; exact H]. Qed.

Lemma memz_iff : forall x l, memz x l = true <-> In x l.
Proof.
  intros x l. unfold memz. rewrite existsb_exists. split.
  - intros [y [Hy E]]. apply Z.eqb_eq in E. subst. exact Hy.
  - intros H. exists x. split; [exact H|apply Z.eqb_refl].
Qed.

Lemma addz_in_iff : forall x l y, In y (addz x l) <-> In y l \/ y = x.
Proof.
  intros x l y. unfold addz. destruct (memz x l) eqn:E.
  - apply memz_iff in E. split; [intros H; left; exact H|intros [H|H]; [exact H|subst; exact E]].
  - rewrite in_app_iff. cbn. intuition.
Qed.

Lemma NoDup_app_intro_single_nat : forall (l : list nat) x, NoDup l -> ~ In x l -> NoDup (l ++ [x]).
Proof.
  induction l as [|h t IH]; intros x Hnd Hx; [constructor; [intros []|constructor]|].
  inversion Hnd as [|? ? Hh Ht]; subst. cbn [app]. constructor.
  - intros Hin. apply in_app_or in Hin. destruct Hin as [Hin|[Hin|[]]]; [contradiction|]. subst. apply Hx. left. reflexivity.
  - apply IH; [exact Ht|]. intros Hin. apply Hx. right. exact Hin.
Qed.

Lemma GI_reg : forall s sig, GI s -> sig <> 0 -> GI (g_reg s sig).
Proof.
  intros s sig [A B C D E] Hs. unfold g_reg. destruct (find0 (g_slots s) 0) as [i|] eqn:Ef.
  - destruct (find0_spec _ _ _ Ef) as [_ Hi]. rewrite Nat.sub_0_r in Hi.
    assert (Hlt : Nat.ltb i (length (g_slots s)) = true) by (apply Nat.ltb_lt; apply nth_error_Some; rewrite Hi; discriminate).
    assert (Hfree : forall w, In w (g_live s) -> sw_slot w <> i).
    { intros w Hw Ei. destruct (A w Hw) as [A1 [A2 _]]. rewrite Ei, Hi in A1. inversion A1. congruence. }
    apply mkGI; cbn [g_slots g_live g_next g_watched].
    + intros w Hw. apply in_app_or in Hw. destruct Hw as [Hw|[Hw|[]]].
      * destruct (A w Hw) as [A1 [A2 A3]]. rewrite nth_error_set_nth.
        assert (En : Nat.eqb i (sw_slot w) = false) by (apply Nat.eqb_neq; intros Ei; exact (Hfree w Hw (eq_sym Ei))).
        rewrite En. repeat split; [exact A1|exact A2|lia].
      * subst w. cbn. rewrite nth_error_set_nth, Nat.eqb_refl, Hlt. repeat split; [exact Hs|lia].
    + intros j sg Hj Hsg. rewrite nth_error_set_nth in Hj. destruct (Nat.eqb i j) eqn:Eij.
      * apply Nat.eqb_eq in Eij. subst j. eexists. split; [apply in_or_app; right; left; reflexivity|reflexivity].
      * destruct (B j sg Hj Hsg) as [w [Hw Ew]]. exists w. split; [apply in_or_app; left; exact Hw|exact Ew].
    + rewrite map_app. cbn [map sw_slot]. apply NoDup_app_intro_single_nat; [exact C|].
      intros Hin. apply in_map_iff in Hin. destruct Hin as [w [Ew Hw]]. exact (Hfree w Hw Ew).
    + rewrite map_app. cbn [map sw_id]. apply NoDup_app_intro_single; [exact D|].
      intros Hin. apply in_map_iff in Hin. destruct Hin as [w [Ew Hw]]. destruct (A w Hw) as [_ [_ A3]]. lia.
    + intros sg. rewrite addz_in_iff, E. split.
      * intros [[H1 H2]|H]; [split; [exact H1|]|subst; split; [exact Hs|]].
        -- apply in_nth_error in H2. destruct H2 as [j Hj]. apply in_nth_error. exists j. rewrite nth_error_set_nth.
           destruct (Nat.eqb i j) eqn:Eij; [|exact Hj]. apply Nat.eqb_eq in Eij. subst j. rewrite Hi in Hj. inversion Hj. congruence.
        -- apply in_nth_error. exists i. rewrite nth_error_set_nth, Nat.eqb_refl, Hlt. reflexivity.
      * intros [H1 H2]. apply in_set_nth in H2. destruct H2 as [H2|H2]; [right; exact H2|left; split; assumption].
  - pose proof (find0_none _ _ Ef) as Hno.
    apply mkGI; cbn [g_slots g_live g_next g_watched].
    + intros w Hw. apply in_app_or in Hw. destruct Hw as [Hw|[Hw|[]]].
      * destruct (A w Hw) as [A1 [A2 A3]]. rewrite nth_error_app1 by (apply nth_error_Some; rewrite A1; discriminate).
        repeat split; [exact A1|exact A2|lia].
      * subst w. cbn. rewrite nth_error_app2 by lia. rewrite Nat.sub_diag. repeat split; [exact Hs|lia].
    + intros j sg Hj Hsg. destruct (Nat.lt_ge_cases j (length (g_slots s))) as [Hlt|Hge].
      * rewrite nth_error_app1 in Hj by exact Hlt. destruct (B j sg Hj Hsg) as [w [Hw Ew]]. exists w. split; [apply in_or_app; left; exact Hw|exact Ew].
      * rewrite nth_error_app2 in Hj by exact Hge. destruct (j - length (g_slots s))%nat as [|q] eqn:Eq; [|destruct q; discriminate].
        eexists. split; [apply in_or_app; right; left; reflexivity|]. cbn. lia.
    + rewrite map_app. cbn [map sw_slot]. apply NoDup_app_intro_single_nat; [exact C|].
      intros Hin. apply in_map_iff in Hin. destruct Hin as [w [Ew Hw]]. destruct (A w Hw) as [A1 _].
      assert (sw_slot w < length (g_slots s))%nat by (apply nth_error_Some; rewrite A1; discriminate). lia.
    + rewrite map_app. cbn [map sw_id]. apply NoDup_app_intro_single; [exact D|].
      intros Hin. apply in_map_iff in Hin. destruct Hin as [w [Ew Hw]]. destruct (A w Hw) as [_ [_ A3]]. lia.
    + intros sg. rewrite addz_in_iff, E, in_app_iff. cbn [In]. split.
      * intros [[H1 H2]|H]; [split; [exact H1|left; exact H2]|subst; split; [exact Hs|right; left; reflexivity]].
      * intros [H1 [H2|[H2|[]]]]; [left; split; assumption|right; symmetry; exact H2].
Qed.

Lemma nodup_map_inj : forall {A B} (f : A -> B) (l : list A) a b, NoDup (map f l) -> In a l -> In b l -> f a = f b -> a = b.
Proof.
  induction l as [|h t IH]; intros a b Hnd Ha Hb E; [destruct Ha|]. cbn [map] in Hnd. inversion Hnd as [|? ? Hh Ht]; subst.
  destruct Ha as [Ha|Ha]; destruct Hb as [Hb|Hb]; subst.
  - reflexivity.
  - exfalso. apply Hh. rewrite E. apply in_map. exact Hb.
  - exfalso. apply Hh. rewrite <- E. apply in_map. exact Ha.
  - apply IH; assumption.
Qed.

Lemma nodup_map_filter : forall {A B} (f : A -> B) (p : A -> bool) (l : list A), NoDup (map f l) -> NoDup (map f (filter p l)).
Proof.
  induction l as [|h t IH]; intros Hnd; [constructor|]. cbn [map] in Hnd. inversion Hnd as [|? ? Hh Ht]; subst.
  cbn [filter]. destruct (p h); [|apply IH; exact Ht]. cbn [map]. constructor; [|apply IH; exact Ht].
  intros Hin. apply Hh. apply in_map_iff in Hin. destruct Hin as [x [Ex Hx]]. apply filter_In in Hx. rewrite <- Ex. apply in_map. apply Hx.
Qed.

Lemma GI_cancel : forall s id, GI s -> GI (g_cancel s id).
Proof.
  intros s id HG. pose proof HG as [A B C D E]. unfold g_cancel.
  destruct (find (fun w => sw_id w =? id) (g_live s)) as [w|] eqn:Ef; [|exact HG].
  apply find_some in Ef. destruct Ef as [Hw Eid]. apply Z.eqb_eq in Eid.
  destruct (A w Hw) as [Hn [Hsig Hlt]].
  assert (Hlen : Nat.ltb (sw_slot w) (length (g_slots s)) = true) by (apply Nat.ltb_lt; apply nth_error_Some; rewrite Hn; discriminate).
  assert (Hrem : forall v, In v (remw id (g_live s)) <-> In v (g_live s) /\ sw_id v <> id).
  { intros v. unfold remw. rewrite filter_In. split; intros [X Y]; (split; [exact X|]).
    - apply negb_true_iff in Y. apply Z.eqb_neq. exact Y.
    - apply negb_true_iff. apply Z.eqb_neq. exact Y. }
  assert (Hoth : forall v, In v (g_live s) -> sw_id v <> id -> sw_slot v <> sw_slot w).
  { intros v Hv Hne Es. apply Hne. rewrite <- Eid. f_equal. eapply (nodup_map_inj sw_slot); eassumption. }
  apply mkGI; cbn [g_slots g_live g_next g_watched].
  - intros v Hv. apply Hrem in Hv. destruct Hv as [Hv Hne]. destruct (A v Hv) as [A1 [A2 A3]].
    rewrite nth_error_set_nth. assert (En : Nat.eqb (sw_slot w) (sw_slot v) = false) by (apply Nat.eqb_neq; intros X; exact (Hoth v Hv Hne (eq_sym X))).
    rewrite En. repeat split; assumption.
  - intros j sg Hj Hsg. rewrite nth_error_set_nth in Hj. destruct (Nat.eqb (sw_slot w) j) eqn:Ej.
    + rewrite Hlen in Hj. inversion Hj. congruence.
    + destruct (B j sg Hj Hsg) as [v [Hv Ev]]. exists v. split; [|exact Ev]. apply Hrem. split; [exact Hv|].
      intros X. assert (v = w) by (eapply (nodup_map_inj sw_id); [exact D|exact Hv|exact Hw|congruence]). subst v.
      rewrite Ev, Nat.eqb_refl in Ej. discriminate.
  - apply nodup_map_filter. exact C.
  - apply nodup_map_filter. exact D.
  - intros sg. set (slots' := set_nth (g_slots s) (sw_slot w) 0).
    assert (Hin' : forall x, x <> 0 -> (In x slots' <-> exists j, j <> sw_slot w /\ nth_error (g_slots s) j = Some x)).
    { intros x Hx. unfold slots'. rewrite in_nth_error. split.
      - intros [j Hj]. rewrite nth_error_set_nth in Hj. destruct (Nat.eqb (sw_slot w) j) eqn:Ej.
        + rewrite Hlen in Hj. inversion Hj. congruence.
        + exists j. split; [apply Nat.eqb_neq in Ej; congruence|exact Hj].
      - intros [j [Hne Hj]]. exists j. rewrite nth_error_set_nth. assert (En : Nat.eqb (sw_slot w) j = false) by (apply Nat.eqb_neq; congruence).
        rewrite En. exact Hj. }
    destruct (memz (sw_sig w) slots') eqn:Em.
    + apply memz_iff in Em. rewrite E. split; intros [H1 H2]; (split; [exact H1|]).
      * apply in_nth_error in H2. destruct H2 as [j Hj]. destruct (Nat.eq_dec j (sw_slot w)) as [Ej|Ej].
        -- subst j. rewrite Hn in Hj. inversion Hj; subst sg. exact Em.
        -- apply Hin'; [exact H1|]. exists j. split; assumption.
      * apply Hin' in H2; [|exact H1]. destruct H2 as [j [_ Hj]]. apply in_nth_error. exists j. exact Hj.
    + rewrite filter_In, E. split.
      * intros [[H1 H2] H3]. apply negb_true_iff in H3. apply Z.eqb_neq in H3. split; [exact H1|].
        apply in_nth_error in H2. destruct H2 as [j Hj]. apply Hin'; [exact H1|]. exists j. split; [|exact Hj].
        intros Ej. subst j. rewrite Hn in Hj. inversion Hj. congruence.
      * intros [H1 H2]. split; [split; [exact H1|]|].
        -- apply Hin' in H2; [|exact H1]. destruct H2 as [j [_ Hj]]. apply in_nth_error. exists j. exact Hj.
        -- apply negb_true_iff. apply Z.eqb_neq. intros X. subst sg. apply memz_iff in H2. congruence.
Qed.

Definition gop_ok (o : gop) : Prop := match o with GReg sg => sg <> 0 | _ => True end.

Lemma GI_run : forall ops, Forall gop_ok ops -> GI (g_run ops).
Proof.
  intros ops. unfold g_run.
  assert (G : forall ops s, Forall gop_ok ops -> GI s -> GI (fold_left g_op ops s)).
  { induction ops0 as [|o r IH]; intros s Ho H; [exact H|]. inversion Ho as [|? ? Ho1 Hor]; subst. cbn [fold_left].
    apply IH; [exact Hor|]. destruct o as [sg|id|]; [apply GI_reg; assumption|apply GI_cancel; exact H|].
    apply GI_cancel. apply GI_reg; [exact H|discriminate]. }
  intros Ho. apply G; [exact Ho|]. apply mkGI; cbn.
  - intros w [].
  - intros i sg H. destruct i; discriminate.
  - constructor.
  - constructor.
  - intros sg. split; [intros []|intros [_ []]].
Qed.

(* watched_signals = the signals that have a live watch, after any history *)
Theorem watched_spec : forall ops sg, Forall gop_ok ops ->
  (In sg (g_watched (g_run ops)) <-> exists w, In w (g_live (g_run ops)) /\ sw_sig w = sg).
Proof.
  intros ops sg Ho. pose proof (GI_run ops Ho) as [A B C D E]. rewrite E. split.
  - intros [H1 H2]. apply in_nth_error in H2. destruct H2 as [j Hj]. destruct (B j sg Hj H1) as [w [Hw Ew]].
    exists w. split; [exact Hw|]. destruct (A w Hw) as [A1 _]. rewrite Ew, Hj in A1. inversion A1. reflexivity.
  - intros [w [Hw Es]]. destruct (A w Hw) as [A1 [A2 _]]. subst sg. split; [exact A2|]. eapply nth_error_In. exact A1.
Qed.

Lemma in_range : forall hi x, 1 <= x < hi -> In x (range hi).
Proof.
  intros hi x H. unfold range. apply in_map_iff. exists (Z.to_nat x). split; [lia|]. apply in_seq. lia.
Qed.

(* dispatch_signals reaches every recorded signal that still has a watcher *)
Theorem dispatch_covers : forall ops pending sg, Forall gop_ok ops -> 1 <= sg < NSIG -> In sg pending ->
  (exists w, In w (g_live (g_run ops)) /\ sw_sig w = sg) -> In sg (dispatched false (g_run ops) pending).
Proof.
  intros ops pending sg Ho Hr Hp Hw. unfold dispatched. apply filter_In. split; [apply in_range; exact Hr|].
  apply andb_true_iff. split; apply memz_iff; [exact Hp|]. apply watched_spec; assumption.
Qed.

(* the seeded bound: SIGWINCH (28) in a fresh slot (tickit_build), one tickit_run, then SIGSYS (31)
   into the slot tickit_run's SIGINT watch has freed: watched, recorded, and outside the walk *)
Definition wmax_ops : list gop := [GReg 28; GRun; GReg 31].

Theorem max_signum_refuted :
  In 31 (g_watched (g_run wmax_ops)) /\ g_max (g_run wmax_ops) = 28 /\
  dispatched true (g_run wmax_ops) [31] = [] /\ dispatched false (g_run wmax_ops) [31] = [31].
Proof. vm_compute. repeat split; auto. Qed.
