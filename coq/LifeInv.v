(* LifeInv.v -- the heap invariant of the window tree and the restack queue, and the facts
   that follow from it directly. *)
From Coq Require Import ZArith List Bool PArith FMapPositive Lia.
From Tickit Require Import LifeDefs LifeLemmas.
Import ListNotations.
Local Open Scope Z_scope.

Definition root : positive := 1%positive.

(* [D]: the windows whose destruction is in progress (reference count already 0) *)
Record hinv (D : list positive) (h : heap) : Prop := mk_hinv {
  (* the children of a live window: its chain is finite and lists exactly the live windows
     whose parent pointer names it *)
  hi_kids : forall a c, findw h a = Some c ->
    exists l, chain h (w_first c) l /\
              forall k, In k l <-> (exists ck, findw h k = Some ck /\ w_parent ck = Some a);
  (* a parent pointer names a live window *)
  hi_parent : forall k ck p, findw h k = Some ck -> w_parent ck = Some p -> findw h p <> None;
  (* windows are older than their children: parent chains are acyclic *)
  hi_parent_lt : forall k ck p, findw h k = Some ck -> w_parent ck = Some p -> (p < k)%positive;
  (* a window that is in nobody's chain has no sibling pointer *)
  hi_orphan_next : forall a c, findw h a = Some c -> w_parent c = None -> w_next c = None;
  (* the focused child is a child *)
  hi_focus : forall a c f, findw h a = Some c -> ~ In a D -> w_focus c = Some f ->
    exists cf, findw h f = Some cf /\ w_parent cf = Some a;
  (* every window that is not being destroyed is referenced *)
  hi_ref : forall a c, findw h a = Some c -> ~ In a D -> 1 <= w_ref c;
  hi_closed : forall a c, findw h a = Some c -> w_closed c = true -> w_parent c = None;
  hi_isroot : forall a c, findw h a = Some c -> w_isroot c = Pos.eqb a root;
  hi_root_parent : forall c, findw h root = Some c -> w_parent c = None;
  (* the queue: a finite chain of all the request cells there are; each names a live window,
     the parent it is attached to, and that window is attached (through live windows) to the root *)
  hi_queue : exists ql, qchain h (r_queue (rx h)) ql /\
    (forall q, In q ql <-> findq h q <> None) /\
    (forall q cq, findq h q = Some cq ->
       exists x p cx, q_win cq = Some x /\ q_parent cq = Some p /\
                      findw h x = Some cx /\ w_parent cx = Some p /\ anc h x root);
  (* only restacking requests are queued *)
  hi_qkind : forall q cq, findq h q = Some cq -> is_restack (q_change cq) = true;
  (* the drag source, if there is one, is attached to the root (while the root is there and is not being destroyed) *)
  hi_drag : exists od, r_drag (rx h) = Some od /\
                       forall d, od = Some d -> ~ In root D -> findw h root <> None -> anc h d root;
  hi_nextw : forall a, findw h a <> None -> (a < nextw h)%positive;
  hi_nextw_root : (root < nextw h)%positive;
  hi_nextq : forall q, findq h q <> None -> (q < nextq h)%positive
}.

(* the windows being destroyed have already left their parents *)
Definition detached (h : heap) (D : list positive) : Prop :=
  forall a, In a D -> exists c, findw h a = Some c /\ w_parent c = None.

(* ---- closure: every pointer field of a live window names a live window -------------------- *)
Lemma hinv_first_live : forall D h a c k, hinv D h -> findw h a = Some c -> w_first c = Some k ->
  exists ck, findw h k = Some ck /\ w_parent ck = Some a.
Proof.
  intros D h a c k HI Hf Hk. destruct (hi_kids D h HI a c Hf) as [l [Hc Hl]].
  rewrite Hk in Hc. inversion Hc; subst. apply Hl. left. reflexivity.
Qed.

Lemma hinv_parent_live : forall D h k ck p, hinv D h -> findw h k = Some ck -> w_parent ck = Some p ->
  exists cp, findw h p = Some cp.
Proof.
  intros D h k ck p HI Hf Hp. pose proof (hi_parent D h HI k ck p Hf Hp) as H.
  destruct (findw h p) as [cp|]; [eauto | congruence].
Qed.

(* an attached window sits in its parent's chain *)
Lemma hinv_in_parent_chain : forall D h k ck p, hinv D h -> findw h k = Some ck -> w_parent ck = Some p ->
  exists cp l, findw h p = Some cp /\ chain h (w_first cp) l /\ In k l /\
               forall x, In x l <-> (exists cx, findw h x = Some cx /\ w_parent cx = Some p).
Proof.
  intros D h k ck p HI Hf Hp. destruct (hinv_parent_live D h k ck p HI Hf Hp) as [cp Hcp].
  destruct (hi_kids D h HI p cp Hcp) as [l [Hc Hl]].
  exists cp, l. repeat split; auto; try apply Hl; eauto.
Qed.

Lemma hinv_next_live : forall D h a c n, hinv D h -> findw h a = Some c -> w_next c = Some n ->
  exists cn, findw h n = Some cn /\ w_parent cn = w_parent c /\ w_parent c <> None.
Proof.
  intros D h a c n HI Hf Hn.
  destruct (w_parent c) as [p|] eqn:Hp.
  - destruct (hinv_in_parent_chain D h a c p HI Hf Hp) as [cp [l [Hcp [Hc [Hin Hl]]]]].
    apply in_split in Hin. destruct Hin as [l1 [l2 Heq]]. subst l.
    destruct (chain_app h _ l1 a l2 Hc) as [c' [Hf' Hc']].
    rewrite Hf in Hf'. inversion Hf'; subst c'. rewrite Hn in Hc'.
    inversion Hc' as [|n' cn l' Hfn Hcn]; subst.
    assert (Hin : In n (l1 ++ a :: n :: l')) by (apply in_or_app; right; right; left; reflexivity).
    apply Hl in Hin. destruct Hin as [cx [Hfx Hpx]].
    rewrite Hfn in Hfx. inversion Hfx; subst cx.
    exists cn. repeat split; auto. congruence.
  - rewrite (hi_orphan_next D h HI a c Hf Hp) in Hn. discriminate.
Qed.

Lemma hinv_focus_live : forall D h a c f, hinv D h -> findw h a = Some c -> ~ In a D -> w_focus c = Some f ->
  exists cf, findw h f = Some cf /\ w_parent cf = Some a.
Proof. intros D h a c f HI. apply (hi_focus D h HI). Qed.

(* the invariant does not look at the log fields *)
Lemma hinv_same : forall D h h', hinv D h -> wins h' = wins h -> reqs h' = reqs h -> rx h' = rx h ->
  nextw h' = nextw h -> nextq h' = nextq h -> hinv D h'.
Proof.
  intros D h h' HI Hw Hq Hr Hnw Hnq.
  assert (Fw : forall a, findw h' a = findw h a) by (intro; unfold findw; rewrite Hw; reflexivity).
  assert (Fq : forall a, findq h' a = findq h a) by (intro; unfold findq; rewrite Hq; reflexivity).
  assert (Ch : forall p l, chain h p l -> chain h' p l).
  { intros p l Hc. induction Hc; econstructor; eauto. rewrite Fw. eassumption. }
  assert (An : forall a b, anc h a b -> anc h' a b).
  { intros a b Ha. induction Ha.
    - eapply anc_refl. rewrite Fw. eassumption.
    - eapply anc_step; eauto. rewrite Fw. eassumption. }
  assert (Qc : forall p l, qchain h p l -> qchain h' p l).
  { intros p l Hc. induction Hc; econstructor; eauto. rewrite Fq. eassumption. }
  destruct HI as [K P PL O F R C I RP Q QK Dg NW NWR NQ].
  constructor.
  - intros a c Hf. rewrite Fw in Hf. destruct (K a c Hf) as [l [Hc Hl]]. exists l. split; auto.
    intro k. rewrite (Hl k). split; intros [ck [H1 H2]]; exists ck; split; auto; [rewrite Fw|rewrite <- Fw]; auto.
  - intros k ck p Hf Hp. rewrite Fw in *. eauto.
  - intros k ck p Hf Hp. rewrite Fw in *. eauto.
  - intros a c Hf. rewrite Fw in Hf. eauto.
  - intros a c f Hf Hd Hfo. rewrite Fw in Hf. destruct (F a c f Hf Hd Hfo) as [cf [H1 H2]]. exists cf. rewrite Fw. auto.
  - intros a c Hf. rewrite Fw in Hf. eauto.
  - intros a c Hf. rewrite Fw in Hf. eauto.
  - intros a c Hf. rewrite Fw in Hf. eauto.
  - intros c Hf. rewrite Fw in Hf. eauto.
  - destruct Q as [ql [Hq1 [Hq2 Hq3]]]. exists ql. rewrite Hr. split; [auto|]. split.
    + intro q. rewrite Fq. apply Hq2.
    + intros q cq Hfq. rewrite Fq in Hfq. destruct (Hq3 q cq Hfq) as [x [p [cx [H1 [H2 [H3 [H4 H5]]]]]]].
      exists x, p, cx. rewrite Fw. auto 10.
  - intros q cq Hfq. rewrite Fq in Hfq. eauto.
  - rewrite Hr. destruct Dg as [od [E Hd]]. exists od. split; [exact E|]. intros d Ed Hn Hl. apply An. apply Hd; auto.
    rewrite <- Fw. exact Hl.
  - intros a Ha. rewrite Fw in Ha. rewrite Hnw. auto.
  - rewrite Hnw. exact NWR.
  - intros q Hq'. rewrite Fq in Hq'. rewrite Hnq. auto.
Qed.
