(* WinScrollDesc.v -- the descent of owner_rel towards a given window, as a function.
   [desc pid t q]: following owner_rel from the root of t at position q -- into the FIRST
   visible child containing the position, at every level -- arrives at window pid at relative
   position p (Some p), or leaves the path to pid / stops above it (None).
   Unlike [reach] of WinLocA.v it takes the higher siblings into account, so it is exact:
   desc = Some p  ->  owner_rel t q = owner_rel (the node pid) p          (desc_owner)
   desc = None    ->  the owner is not pid, and replacing the child list of pid does not
                      change the owner                                    (desc_none_owner, kc_desc_none) *)
From Coq Require Import ZArith List Bool Lia ZifyBool.
From Tickit Require Import RectDefs RectProofs WinRectSet WinRectSetProofs WinDefs WinSpec
  WinExposeProofs WinFlushProofs WinLogDisjoint WinScreenInv WinLocality WinPreserve.
Import ListNotations.
Local Open Scope Z_scope.

Definition has_id (pid : Z) (t : wtree) : bool := existsb (Z.eqb pid) (t_ids t).

Lemma has_id_iff pid t : has_id pid t = true <-> In pid (t_ids t).
Proof.
  unfold has_id. rewrite existsb_exists. split.
  - intros (x & Hx & E). replace pid with x by lia. exact Hx.
  - intros H. exists pid. split; [exact H|lia].
Qed.

Lemma has_id_false pid t : ~ In pid (t_ids t) -> has_id pid t = false.
Proof.
  intros H. destruct (has_id pid t) eqn:E; [|reflexivity]. apply has_id_iff in E. contradiction.
Qed.

Fixpoint desc (pid : Z) (t : wtree) (q : cell) : option cell :=
  match t with
  | Node i ch =>
    if w_id i =? pid then Some q else
    (fix go (l : list wtree) : option cell :=
       match l with
       | [] => None
       | c :: r =>
         if w_vis (t_info c) && cell_inb (w_rect (t_info c)) q
         then (if has_id pid c
               then desc pid c (fst q - top (w_rect (t_info c)), snd q - left (w_rect (t_info c)))
               else None)
         else (if has_id pid c then None else go r)
       end) ch
  end.

Definition desc_kids (pid : Z) (q : cell) : list wtree -> option cell :=
  fix go (l : list wtree) : option cell :=
    match l with
    | [] => None
    | c :: r =>
      if w_vis (t_info c) && cell_inb (w_rect (t_info c)) q
      then (if has_id pid c
            then desc pid c (fst q - top (w_rect (t_info c)), snd q - left (w_rect (t_info c)))
            else None)
      else (if has_id pid c then None else go r)
    end.

Lemma desc_unfold pid i ch q :
  desc pid (Node i ch) q = if w_id i =? pid then Some q else desc_kids pid q ch.
Proof. reflexivity. Qed.

Lemma desc_kids_cons pid q c r :
  desc_kids pid q (c :: r) =
  if w_vis (t_info c) && cell_inb (w_rect (t_info c)) q
  then (if has_id pid c
        then desc pid c (fst q - top (w_rect (t_info c)), snd q - left (w_rect (t_info c)))
        else None)
  else (if has_id pid c then None else desc_kids pid q r).
Proof. reflexivity. Qed.

Lemma desc_kids_skip pid q l1 l2 :
  ~ In pid (flat_map t_ids l1) ->
  desc_kids pid q (l1 ++ l2) = if vis_cover l1 q then None else desc_kids pid q l2.
Proof.
  induction l1 as [|a r IH]; intros Hn; [reflexivity|].
  cbn [app]. rewrite desc_kids_cons. cbn [flat_map] in Hn.
  rewrite has_id_false by (intros H; apply Hn; apply in_or_app; left; exact H).
  cbn [vis_cover existsb].
  destruct (w_vis (t_info a) && cell_inb (w_rect (t_info a)) q); cbn [orb]; [reflexivity|].
  apply IH. intros H; apply Hn; apply in_or_app; right; exact H.
Qed.

(* the node is on the way to pid, which lies in the child c *)
Lemma desc_node pid i l1 c l2 q :
  w_id i <> pid -> ~ In pid (flat_map t_ids l1) -> In pid (t_ids c) ->
  desc pid (Node i (l1 ++ c :: l2)) q =
  if vis_cover l1 q then None
  else if w_vis (t_info c) && cell_inb (w_rect (t_info c)) q
       then desc pid c (fst q - top (w_rect (t_info c)), snd q - left (w_rect (t_info c)))
       else None.
Proof.
  intros Hi Hl1 Hc. rewrite desc_unfold. replace (w_id i =? pid) with false by lia.
  rewrite (desc_kids_skip pid q l1 (c :: l2) Hl1), desc_kids_cons.
  rewrite (proj2 (has_id_iff pid c) Hc). reflexivity.
Qed.

Lemma node_decomp pid ch :
  NoDup (flat_map t_ids ch) -> In pid (flat_map t_ids ch) ->
  exists l1 c l2, ch = l1 ++ c :: l2 /\ In pid (t_ids c) /\
                  ~ In pid (flat_map t_ids l1) /\ ~ In pid (flat_map t_ids l2) /\ NoDup (t_ids c).
Proof.
  intros Hnd Hin. apply in_flat_map in Hin. destruct Hin as (c & Hc & Hpc).
  apply in_split in Hc. destruct Hc as (l1 & l2 & ->).
  apply nodup_split in Hnd. destruct Hnd as (_ & Nc & _ & Xc & _).
  exists l1, c, l2. destruct (Xc _ Hpc) as [X1 X2]. tauto.
Qed.

(* ------------------------------------------------------------------------------------ *)
(* owners lie in the tree                                                                *)

Lemma owner_rel_id : forall t q, In (fst (owner_rel t q)) (t_ids t).
Proof.
  apply (wtree_ind2 (fun t => forall q, In (fst (owner_rel t q)) (t_ids t))).
  intros i ch IH q. rewrite owner_rel_unfold. cbn [t_ids].
  assert (H : forall x, first_owner ch q = Some x -> In (fst x) (flat_map t_ids ch)).
  { induction IH as [|c r Hc _ IHr]; intros x Hx; [discriminate|]. cbn [first_owner] in Hx.
    cbn [flat_map]. apply in_or_app.
    destruct (w_vis (t_info c) && cell_inb (w_rect (t_info c)) q).
    - injection Hx as <-. left. apply Hc.
    - right. apply IHr. exact Hx. }
  destruct (first_owner ch q) as [x|]; [right; apply H; reflexivity|left; reflexivity].
Qed.

Lemma first_owner_id l q x : first_owner l q = Some x -> In (fst x) (flat_map t_ids l).
Proof.
  induction l as [|c r IH]; intros Hx; [discriminate|]. cbn [first_owner] in Hx.
  cbn [flat_map]. apply in_or_app.
  destruct (w_vis (t_info c) && cell_inb (w_rect (t_info c)) q).
  - injection Hx as <-. left. apply owner_rel_id.
  - right. apply IH. exact Hx.
Qed.

Lemma first_owner_mid l1 c l2 q :
  first_owner (l1 ++ c :: l2) q =
  match first_owner l1 q with
  | Some x => Some x
  | None =>
    if w_vis (t_info c) && cell_inb (w_rect (t_info c)) q
    then Some (owner_rel c (fst q - top (w_rect (t_info c)), snd q - left (w_rect (t_info c))))
    else first_owner l2 q
  end.
Proof. rewrite first_owner_app. reflexivity. Qed.

Lemma first_owner_none_cover l q : first_owner l q = None -> vis_cover l q = false.
Proof. apply first_owner_none. Qed.

Lemma first_owner_some_cover l q x : first_owner l q = Some x -> vis_cover l q = true.
Proof.
  intros H. destruct (vis_cover l q) eqn:E; [reflexivity|].
  apply first_owner_none in E. congruence.
Qed.

(* ------------------------------------------------------------------------------------ *)
(* desc = Some: the owner is the owner inside window pid                                 *)

Theorem desc_owner pid : forall t, NoDup (t_ids t) -> forall q p n,
  desc pid t q = Some p -> t_find pid t = Some n -> owner_rel t q = owner_rel n p.
Proof.
  apply (wtree_ind2 (fun t => NoDup (t_ids t) -> forall q p n,
    desc pid t q = Some p -> t_find pid t = Some n -> owner_rel t q = owner_rel n p)).
  intros i ch IH Hnd q p n Hd Hf. rewrite desc_unfold in Hd. rewrite t_find_unfold in Hf.
  destruct (w_id i =? pid) eqn:E.
  - injection Hd as <-. injection Hf as <-. reflexivity.
  - pose proof (nodup_node _ _ Hnd) as [Hni Hndk].
    destruct (find_go_in _ _ _ Hf) as (c0 & Hin0 & Hc0).
    destruct (t_find_sub _ _ _ Hc0) as [Hs0 Hid0].
    assert (Hpk : In pid (flat_map t_ids ch)).
    { eapply in_kid_ids; [exact Hin0|]. rewrite <- Hid0. eapply subtree_ids; [exact Hs0|apply t_id_in]. }
    destruct (node_decomp pid ch Hndk Hpk) as (l1 & c & l2 & -> & Hpc & X1 & X2 & Nc).
    fold (desc pid (Node i (l1 ++ c :: l2)) q) in Hd.
    assert (Hd' : desc pid (Node i (l1 ++ c :: l2)) q = Some p).
    { rewrite desc_unfold, E. exact Hd. }
    rewrite desc_node in Hd' by (try lia; assumption).
    destruct (vis_cover l1 q) eqn:Ev; [discriminate|].
    destruct (w_vis (t_info c) && cell_inb (w_rect (t_info c)) q) eqn:Ec; [|discriminate].
    rewrite (find_go_skip pid l1 (c :: l2) X1), find_go_cons in Hf.
    destruct (t_find_some pid c Nc Hpc) as [n' Hn']. rewrite Hn' in Hf. injection Hf as <-.
    rewrite owner_rel_unfold, first_owner_mid.
    apply first_owner_none in Ev. rewrite Ev, Ec.
    rewrite Forall_forall in IH. apply (IH c (in_elt c l1 l2) Nc _ _ _ Hd' Hn').
Qed.

(* desc = None: the owner is another window *)
Theorem desc_none_owner pid : forall t, NoDup (t_ids t) -> forall q,
  desc pid t q = None -> fst (owner_rel t q) <> pid.
Proof.
  apply (wtree_ind2 (fun t => NoDup (t_ids t) -> forall q,
    desc pid t q = None -> fst (owner_rel t q) <> pid)).
  intros i ch IH Hnd q Hd.
  pose proof (nodup_node _ _ Hnd) as [Hni Hndk].
  assert (Hi : w_id i <> pid).
  { rewrite desc_unfold in Hd. destruct (w_id i =? pid) eqn:E; [discriminate|lia]. }
  destruct (in_dec Z.eq_dec pid (flat_map t_ids ch)) as [Hpk|Hnk].
  2:{ intros Heq. pose proof (owner_rel_id (Node i ch) q) as H. rewrite Heq in H.
      cbn [t_ids] in H. destruct H as [H|H]; [exact (Hi H)|exact (Hnk H)]. }
  destruct (node_decomp pid ch Hndk Hpk) as (l1 & c & l2 & -> & Hpc & X1 & X2 & Nc).
  rewrite desc_node in Hd by assumption.
  rewrite owner_rel_unfold, first_owner_mid.
  destruct (first_owner l1 q) as [x|] eqn:E1.
  - intros Heq. apply X1. rewrite <- Heq. eapply first_owner_id. exact E1.
  - apply first_owner_none in E1. rewrite E1 in Hd.
    destruct (w_vis (t_info c) && cell_inb (w_rect (t_info c)) q) eqn:Ec.
    + rewrite Forall_forall in IH. apply (IH c (in_elt c l1 l2) Nc _ Hd).
    + destruct (first_owner l2 q) as [x|] eqn:E2.
      * intros Heq. apply X2. rewrite <- Heq. eapply first_owner_id. exact E2.
      * exact Hi.
Qed.

(* ------------------------------------------------------------------------------------ *)
(* along kids_changed                                                                    *)

Lemma kc_in pid ch ch' t t' D : kids_changed pid ch ch' t t' D -> In pid (t_ids t).
Proof.
  induction 1 as [i Hi|i l1 c c' l2 D Hi Hl1 Hkc IH]; cbn [t_ids].
  - left. exact Hi.
  - right. apply in_fm_split. tauto.
Qed.

Theorem kc_desc pid ch ch' t t' D :
  kids_changed pid ch ch' t t' D -> forall q, desc pid t' q = desc pid t q.
Proof.
  induction 1 as [i Hi|i l1 c c' l2 D Hi Hl1 Hkc IH]; intros q.
  - rewrite !desc_unfold. replace (w_id i =? pid) with true by lia. reflexivity.
  - rewrite !desc_node; try assumption.
    + rewrite (kc_info _ _ _ _ _ _ Hkc), IH. reflexivity.
    + apply (kc_in _ _ _ _ _ _ Hkc).
    + apply (kc_in _ _ _ _ _ _ (kc_sym _ _ _ _ _ _ Hkc)).
Qed.

Theorem kc_desc_none pid ch ch' t t' D :
  kids_changed pid ch ch' t t' D -> forall q, desc pid t q = None ->
  owner_rel t' q = owner_rel t q.
Proof.
  induction 1 as [i Hi|i l1 c c' l2 D Hi Hl1 Hkc IH]; intros q Hd.
  - rewrite desc_unfold in Hd. replace (w_id i =? pid) with true in Hd by lia. discriminate.
  - rewrite desc_node in Hd; [|assumption|assumption|apply (kc_in _ _ _ _ _ _ Hkc)].
    rewrite !owner_rel_unfold, !first_owner_mid, (kc_info _ _ _ _ _ _ Hkc).
    destruct (first_owner l1 q) as [x|] eqn:E1; [reflexivity|].
    apply first_owner_none in E1. rewrite E1 in Hd.
    destruct (w_vis (t_info c) && cell_inb (w_rect (t_info c)) q); [|reflexivity].
    rewrite (IH _ Hd). reflexivity.
Qed.

(* desc refines reach *)
Theorem kc_desc_reach pid ch ch' t t' D :
  kids_changed pid ch ch' t t' D -> forall q p, desc pid t q = Some p ->
  reach (map geo D) q = Some p.
Proof.
  induction 1 as [i Hi|i l1 c c' l2 D Hi Hl1 Hkc IH]; intros q p Hd.
  - rewrite desc_unfold in Hd. replace (w_id i =? pid) with true in Hd by lia. exact Hd.
  - rewrite desc_node in Hd; [|assumption|assumption|apply (kc_in _ _ _ _ _ _ Hkc)].
    destruct (vis_cover l1 q); [discriminate|].
    cbn [map reach]. unfold geo at 1 2 3 4. cbn [fst snd].
    destruct (w_vis (t_info c) && cell_inb (w_rect (t_info c)) q); [|discriminate].
    apply IH. exact Hd.
Qed.

(* the origin of window pid in the coordinates of the root of t *)
Fixpoint off_t (D : list winfo) : Z := match D with [] => 0 | i :: r => top (w_rect i) + off_t r end.
Fixpoint off_l (D : list winfo) : Z := match D with [] => 0 | i :: r => left (w_rect i) + off_l r end.

Theorem kc_desc_offset pid ch ch' t t' D :
  kids_changed pid ch ch' t t' D -> forall q p, desc pid t q = Some p ->
  p = (fst q - off_t D, snd q - off_l D).
Proof.
  induction 1 as [i Hi|i l1 c c' l2 D Hi Hl1 Hkc IH]; intros q p Hd.
  - rewrite desc_unfold in Hd. replace (w_id i =? pid) with true in Hd by lia.
    injection Hd as <-. cbn [off_t off_l]. destruct q as [y x]; cbn [fst snd]. f_equal; lia.
  - rewrite desc_node in Hd; [|assumption|assumption|apply (kc_in _ _ _ _ _ _ Hkc)].
    destruct (vis_cover l1 q); [discriminate|].
    destruct (w_vis (t_info c) && cell_inb (w_rect (t_info c)) q); [|discriminate].
    rewrite (IH _ _ Hd). cbn [off_t off_l fst snd]. f_equal; lia.
Qed.

(* the position arrived at lies inside window pid *)
Theorem kc_desc_self pid ch ch' t t' D :
  kids_changed pid ch ch' t t' D -> forall q p, desc pid t q = Some p ->
  cell_in (selfrect (t_info t)) q ->
  exists i, w_id i = pid /\ subtree (Node i ch) t /\ cell_in (selfrect i) p.
Proof.
  induction 1 as [i Hi|i l1 c c' l2 D Hi Hl1 Hkc IH]; intros q p Hd Hq.
  - rewrite desc_unfold in Hd. replace (w_id i =? pid) with true in Hd by lia.
    injection Hd as <-. exists i. split; [exact Hi|]. split; [constructor|exact Hq].
  - rewrite desc_node in Hd; [|assumption|assumption|apply (kc_in _ _ _ _ _ _ Hkc)].
    destruct (vis_cover l1 q); [discriminate|].
    destruct (w_vis (t_info c) && cell_inb (w_rect (t_info c)) q) eqn:Ec; [|discriminate].
    apply andb_true_iff in Ec. destruct Ec as [_ Ec]. apply cell_inb_iff in Ec.
    destruct (IH _ _ Hd) as (j & Hj & Hs & Hp).
    + unfold cell_in, selfrect, bottom, right in *; cbn [top left lines cols fst snd] in *. lia.
    + exists j. split; [exact Hj|]. split; [|exact Hp].
      eapply sub_kid; [apply in_elt|exact Hs].
Qed.

(* ------------------------------------------------------------------------------------ *)
(* the unchanged tree as a kids_changed                                                  *)

Lemma upd_kids_id pid : forall t, t_upd_kids (fun x => x) pid t = t.
Proof.
  apply (wtree_ind2 (fun t => t_upd_kids (fun x => x) pid t = t)).
  intros i ch IH. cbn [t_upd_kids].
  assert (Hm : map (t_upd_kids (fun x => x) pid) ch = ch).
  { apply map_id_on. intros c Hc. rewrite Forall_forall in IH. apply IH. exact Hc. }
  rewrite Hm. destruct (w_id i =? pid); reflexivity.
Qed.

Lemma kc_refl pid t n :
  NoDup (t_ids t) -> t_find pid t = Some n ->
  exists D, kids_changed pid (t_kids n) (t_kids n) t t D.
Proof.
  intros Hnd Hf. destruct (upd_kids_kc (fun x => x) pid t n Hnd Hf) as [D H].
  rewrite upd_kids_id in H. exists D. exact H.
Qed.

(* the owner is window pid itself exactly when the descent arrives and no visible child of
   pid covers the position *)
Theorem owner_is_pid pid t n q pw :
  NoDup (t_ids t) -> t_find pid t = Some n -> owner_rel t q = (pid, pw) ->
  desc pid t q = Some pw /\ vis_cover (t_kids n) pw = false.
Proof.
  intros Hnd Hf Ho.
  destruct (desc pid t q) as [p|] eqn:Ed.
  - rewrite (desc_owner pid t Hnd q p n Ed Hf) in Ho.
    destruct (t_find_sub _ _ _ Hf) as [Hs Hid].
    destruct n as [j kids]. rewrite owner_rel_unfold in Ho. cbn [t_kids].
    destruct (first_owner kids p) as [x|] eqn:E1.
    + exfalso. subst x. pose proof (first_owner_id _ _ _ E1) as Hin. cbn [fst] in Hin.
      pose proof (subtree_nodup _ _ Hs Hnd) as Nn. apply nodup_node in Nn. destruct Nn as [Nn _].
      apply Nn. unfold t_id in Hid; cbn [t_info] in Hid. rewrite Hid. exact Hin.
    + injection Ho as _ <-. split; [reflexivity|]. apply first_owner_none. exact E1.
  - exfalso. apply (desc_none_owner pid t Hnd q Ed). rewrite Ho. reflexivity.
Qed.

Theorem desc_owner_self pid t n q p :
  NoDup (t_ids t) -> t_find pid t = Some n -> desc pid t q = Some p ->
  vis_cover (t_kids n) p = false -> owner_rel t q = (pid, p).
Proof.
  intros Hnd Hf Hd Hv. rewrite (desc_owner pid t Hnd q p n Hd Hf).
  destruct (t_find_sub _ _ _ Hf) as [_ Hid]. destruct n as [j kids]. cbn [t_kids] in Hv.
  rewrite owner_rel_unfold. apply first_owner_none in Hv. rewrite Hv.
  unfold t_id in Hid; cbn [t_info] in Hid. rewrite Hid. reflexivity.
Qed.
