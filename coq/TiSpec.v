(* TiSpec.v -- BEYOND THE GIVEN PROPERTIES.  What the terminfo capabilities the driver's chpen uses are
   taken to MEAN for the terminal's rendition (assumption about the abstract terminfo entry, in the usual
   reading of terminfo(5)): sgr sets the nine attributes absolutely and resets everything else, colours
   and italics included (real entries start it with CSI 0); sgr0 resets; sitm / ritm switch italics;
   setaf / setab select a palette colour. *)
From Coq Require Import ZArith List Bool Lia.
From Tickit Require Import Csi VT TermPenDefs TermPenSpec XtermDefs TiDefs.
Import ListNotations.
Local Open Scope Z_scope.

Definition ti_sgr_step (a : attrs) (t : titok) : attrs :=
  match t with
  | TiCap Ksgr [so; u; r; bl; dim; b; inv; prot; alt] =>
      mkAttrs CDefault CDefault (negb (b =? 0)) (negb (dim =? 0)) (if u =? 0 then 0 else 1) false
              (negb (r =? 0) || negb (so =? 0)) false 0 (negb (bl =? 0)) 0
  | TiCap Ksgr0 [] => default_attrs
  | TiCap Ksitm [] => set_italic a true
  | TiCap Kritm [] => set_italic a false
  | TiCap Ksetaf [c] => set_fg a (CIdx c)
  | TiCap Ksetab [c] => set_bg a (CIdx c)
  | _ => a
  end.
Definition ti_sgr_run (ts : list titok) (a : attrs) : attrs := fold_left ti_sgr_step ts a.

(* what a terminfo terminal of [colours] colours shows of a (cached) pen: palette colours below the colour
   count, bold, underline as on/off, reverse, blink; strike, altfont, sizepos and RGB are not expressible *)
Definition ti_colour (colours : Z) (p : pen) (a : attr) : colour :=
  let c := get_colour_attr p a in if (-1 <? c) && (c <? colours) then CIdx c else CDefault.
Definition ti_shows (colours : Z) (p : pen) (s : attrs) : Prop :=
  a_fg s = ti_colour colours p AFg /\ a_bg s = ti_colour colours p ABg /\
  a_bold s = get_bool_attr p ABold /\ a_under s = (if get_bool_attr p AUnder then 1 else 0) /\
  a_reverse s = get_bool_attr p AReverse /\ a_blink s = get_bool_attr p ABlink /\
  a_faint s = false /\ a_strike s = false /\ a_font s = 0 /\ a_sizepos s = 0.
