(* LoopDefs.v -- executable model of the watch lists of /repo/src/tickit.c and of the
   timer / deferred-callback part of one event-loop iteration, written function by
   function after the C (definitions only).

   What is modelled (C17):
     struct Tickit's queues  iowatches, timers (sorted by deadline), laters, signals,
       processes, and the two queues running_timers / running_laters that
       tickit_evloop_invoke_timers detaches before it calls anything
       (fixes/C17-invoke-timers-detach.patch; the pinned code walked the live timer list
       from a stale head -- modelled separately in LoopAsIs.v);
     insert_watch, tickit_watch_timer_at_tv (sorted insert AFTER equal deadlines),
     tickit_watch_later, tickit_watch_io (flag mask: [io_mask_bug] = the pinned
       UNBIND|UNBIND mask, fixes/C17-io-destroy-flag.patch), tickit_watch_signal,
     tickit_watch_process, tickit_watch_cancel, tickit_evloop_next_timer_msec,
     tickit_evloop_invoke_timers, destroy_watchlist / tickit_destroy.
   A watch is identified by its registration number (the C pointer).  Application
   callbacks are not modelled but quantified over: [env cb] is the list of API calls the
   callback with number [cb] makes when it is invoked with TICKIT_EV_FIRE.  Time is an
   integer (microseconds) supplied by the script; C int/time_t are unbounded Z. *)
From Coq Require Import ZArith List Bool.
Import ListNotations.
Local Open Scope Z_scope.

Inductive kind := KTimer | KLater | KIo | KSig | KProc.

Definition kind_code (k : kind) : Z :=
  match k with KTimer => 0 | KLater => 1 | KIo => 2 | KSig => 3 | KProc => 4 end.

(* TICKIT_BIND_FIRST / _UNBIND / _DESTROY *)
Record bflags := mkF { f_first : bool; f_unbind : bool; f_destroy : bool }.

(* struct TickitWatch: w_unbind/w_destroy are the bits kept in watch->flags;
   w_x is timer.at for timers, signal.signum for signal watches, 0 otherwise *)
Record watch := mkW { w_id : Z; w_kind : kind; w_unbind : bool; w_destroy : bool;
                      w_cb : Z; w_x : Z }.

(* what a callback (or the program, between iterations) may do *)
Inductive action :=
| ATimer (delta : Z) (fl : bflags) (cb : Z)      (* tickit_watch_timer_at_tv(now + delta) *)
| ALater (fl : bflags) (cb : Z)                  (* tickit_watch_later *)
| AWatch (k : kind) (x : Z) (fl : bflags) (cb : Z) (* tickit_watch_io / _signal / _process *)
| ACancel (id : Z)                               (* tickit_watch_cancel, if still live *)
| ANop
| ADrop.                                         (* tickit_unref: the application drops its reference *)

Inductive op :=
| OAct (a : action)
| ORun (dt : Z)      (* clock += dt; tickit_tick(NOHANG) *)
| OOnce.             (* tickit_tick(ONCE): ppoll sleeps for the time-out it is given *)

Definition EV_FIRE : Z := 1.
Definition EV_UNBIND : Z := 2.
Definition EV_DESTROY : Z := 4.

Record event := mkE { e_id : Z; e_kind : kind; e_flags : Z; e_iter : Z; e_now : Z; e_x : Z }.
Inductive obs := OPoll (msec : Z) | OEv (e : event).

Record st := mkSt {
  timers : list watch; laters : list watch; ios : list watch; sigs : list watch;
  procs : list watch; run_timers : list watch; run_laters : list watch;
  next_id : Z; now : Z; iter : Z; log : list obs (* newest first *);
  dropped : bool (* the application's reference is gone: the instance dies when the running tickit_tick returns *) }.

Definition st0 : st := mkSt [] [] [] [] [] [] [] 0 0 0 [] false.

Definition set_timers (s : st) (l : list watch) : st :=
  mkSt l (laters s) (ios s) (sigs s) (procs s) (run_timers s) (run_laters s) (next_id s) (now s) (iter s) (log s) (dropped s).
Definition set_laters (s : st) (l : list watch) : st :=
  mkSt (timers s) l (ios s) (sigs s) (procs s) (run_timers s) (run_laters s) (next_id s) (now s) (iter s) (log s) (dropped s).
Definition set_ios (s : st) (l : list watch) : st :=
  mkSt (timers s) (laters s) l (sigs s) (procs s) (run_timers s) (run_laters s) (next_id s) (now s) (iter s) (log s) (dropped s).
Definition set_sigs (s : st) (l : list watch) : st :=
  mkSt (timers s) (laters s) (ios s) l (procs s) (run_timers s) (run_laters s) (next_id s) (now s) (iter s) (log s) (dropped s).
Definition set_procs (s : st) (l : list watch) : st :=
  mkSt (timers s) (laters s) (ios s) (sigs s) l (run_timers s) (run_laters s) (next_id s) (now s) (iter s) (log s) (dropped s).
Definition set_run_timers (s : st) (l : list watch) : st :=
  mkSt (timers s) (laters s) (ios s) (sigs s) (procs s) l (run_laters s) (next_id s) (now s) (iter s) (log s) (dropped s).
Definition set_run_laters (s : st) (l : list watch) : st :=
  mkSt (timers s) (laters s) (ios s) (sigs s) (procs s) (run_timers s) l (next_id s) (now s) (iter s) (log s) (dropped s).
Definition set_next (s : st) (n : Z) : st :=
  mkSt (timers s) (laters s) (ios s) (sigs s) (procs s) (run_timers s) (run_laters s) n (now s) (iter s) (log s) (dropped s).
Definition set_now (s : st) (n : Z) : st :=
  mkSt (timers s) (laters s) (ios s) (sigs s) (procs s) (run_timers s) (run_laters s) (next_id s) n (iter s) (log s) (dropped s).
Definition set_iter (s : st) (n : Z) : st :=
  mkSt (timers s) (laters s) (ios s) (sigs s) (procs s) (run_timers s) (run_laters s) (next_id s) (now s) n (log s) (dropped s).
Definition set_log (s : st) (l : list obs) : st :=
  mkSt (timers s) (laters s) (ios s) (sigs s) (procs s) (run_timers s) (run_laters s) (next_id s) (now s) (iter s) l (dropped s).

Definition set_dropped (s : st) (b : bool) : st :=
  mkSt (timers s) (laters s) (ios s) (sigs s) (procs s) (run_timers s) (run_laters s) (next_id s) (now s) (iter s) (log s) b.

(* a callback invocation as the harness sees it *)
Definition emit (s : st) (w : watch) (flags : Z) : st :=
  set_log s (OEv (mkE (w_id w) (w_kind w) flags (iter s) (now s) (w_x w)) :: log s).

(* insert_watch: at the end unless TICKIT_BIND_FIRST *)
Definition insert_watch (first : bool) (l : list watch) (w : watch) : list watch :=
  if first then w :: l else l ++ [w].

(* the loop of tickit_watch_timer_at_tv:
     while( *prevp && !timercmp(&( *prevp)->timer.at, at, >)) prevp = &( *prevp)->next; *)
Fixpoint timer_insert (l : list watch) (w : watch) : list watch :=
  match l with
  | [] => [w]
  | h :: t => if w_x h <=? w_x w then h :: timer_insert t w else w :: l
  end.

(* unlink the watch with the given identity from a list *)
Fixpoint find_remove (id : Z) (l : list watch) : option (watch * list watch) :=
  match l with
  | [] => None
  | h :: t =>
      if w_id h =? id then Some (h, t)
      else match find_remove id t with
           | Some (w, t') => Some (w, h :: t')
           | None => None
           end
  end.

(* the time-out the loop asks ppoll for; msec truncated as the C does *)
Definition next_timer_msec (s : st) : Z :=
  match laters s with
  | _ :: _ => 0
  | [] => match timers s with
          | [] => -1
          | h :: _ => Z.max 0 ((w_x h - now s) / 1000)
          end
  end.

(* split the sorted queue at the first timer that is not yet due:
     while( *endp && !timercmp(&( *endp)->timer.at, &now, >)) endp = &( *endp)->next; *)
Fixpoint split_due (nw : Z) (l : list watch) : list watch * list watch :=
  match l with
  | [] => ([], [])
  | h :: t => if w_x h <=? nw then let (d, r) := split_due nw t in (h :: d, r)
              else ([], l)
  end.

Section WithEnv.
(* [io_mask_bug] = true models the pinned tickit_watch_io, which masks the bind flags with
   UNBIND|UNBIND and so forgets TICKIT_BIND_DESTROY *)
Variable io_mask_bug : bool.
(* [env cb]: what callback cb does when invoked with FIRE; [uenv cb]: what it does when it is
   invoked with the bare UNBIND notification of tickit_watch_cancel -- registrations only
   (a cancel inside an unbind notification is not part of the script language) *)
Variable env : Z -> list action.
Variable uenv : Z -> list action.

(* the registering API calls *)
Definition do_reg (s : st) (a : action) : st :=
  match a with
  | ATimer d fl cb =>
      let w := mkW (next_id s) KTimer (f_unbind fl) (f_destroy fl) cb (now s + d) in
      set_next (set_timers s (timer_insert (timers s) w)) (next_id s + 1)
  | ALater fl cb =>
      let w := mkW (next_id s) KLater (f_unbind fl) (f_destroy fl) cb 0 in
      set_next (set_laters s (insert_watch (f_first fl) (laters s) w)) (next_id s + 1)
  | AWatch KIo _ fl cb =>
      let w := mkW (next_id s) KIo (f_unbind fl) (if io_mask_bug then false else f_destroy fl) cb 0 in
      set_next (set_ios s (insert_watch (f_first fl) (ios s) w)) (next_id s + 1)
  | AWatch KSig x fl cb =>
      let w := mkW (next_id s) KSig (f_unbind fl) (f_destroy fl) cb x in
      set_next (set_sigs s (insert_watch (f_first fl) (sigs s) w)) (next_id s + 1)
  | AWatch KProc _ fl cb =>
      let w := mkW (next_id s) KProc (f_unbind fl) (f_destroy fl) cb 0 in
      set_next (set_procs s (insert_watch (f_first fl) (procs s) w)) (next_id s + 1)
  | AWatch _ _ _ _ => s
  | ACancel _ => s
  | ANop => s
  | ADrop => set_dropped s true
  end.

Definition do_regs (s : st) (l : list action) : st := fold_left do_reg l s.

(* the UNBIND notification of a cancel: the callback is invoked (the watch is already
   unlinked) and may register new watches *)
Definition notify_unbind (s : st) (w : watch) : st :=
  if w_unbind w then do_regs (emit s w EV_UNBIND) (uenv (w_cb w)) else s.

(* tickit_watch_cancel: the watch's type selects the queue; timers and laters may also sit
   in the running queues.  Unlink, notify if asked, (free). *)
Definition watch_cancel (s : st) (id : Z) : st :=
  match find_remove id (ios s) with Some (w, l) => notify_unbind (set_ios s l) w | None =>
  match find_remove id (timers s) with Some (w, l) => notify_unbind (set_timers s l) w | None =>
  match find_remove id (run_timers s) with Some (w, l) => notify_unbind (set_run_timers s l) w | None =>
  match find_remove id (laters s) with Some (w, l) => notify_unbind (set_laters s l) w | None =>
  match find_remove id (run_laters s) with Some (w, l) => notify_unbind (set_run_laters s l) w | None =>
  match find_remove id (sigs s) with Some (w, l) => notify_unbind (set_sigs s l) w | None =>
  match find_remove id (procs s) with Some (w, l) => notify_unbind (set_procs s l) w | None =>
  s end end end end end end end.

Definition do_action (s : st) (a : action) : st :=
  match a with
  | ACancel id => watch_cancel s id
  | _ => do_reg s a
  end.

Definition do_actions (s : st) (l : list action) : st := fold_left do_action l s.

(* while(t->running_timers) { this = head; t->running_timers = this->next;
     ( *this->fn)(FIRE|UNBIND); free(this); }
   [n] bounds the number of rounds; the queue only shrinks while the loop runs, so its
   length on entry is enough (LoopProofs.run_timers_loop_done) *)
Fixpoint run_timers_loop (n : nat) (s : st) : st :=
  match n with
  | O => s
  | S n' =>
      match run_timers s with
      | [] => s
      | w :: r =>
          let s1 := set_run_timers s r in
          let s2 := emit s1 w (EV_FIRE + EV_UNBIND) in
          run_timers_loop n' (do_actions s2 (env (w_cb w)))
      end
  end.

Fixpoint run_laters_loop (n : nat) (s : st) : st :=
  match n with
  | O => s
  | S n' =>
      match run_laters s with
      | [] => s
      | w :: r =>
          let s1 := set_run_laters s r in
          let s2 := emit s1 w (EV_FIRE + EV_UNBIND) in
          run_laters_loop n' (do_actions s2 (env (w_cb w)))
      end
  end.

(* tickit_evloop_invoke_timers *)
Definition invoke_timers (s : st) : st :=
  let s1 := set_laters (set_run_laters s (run_laters s ++ laters s)) [] in
  let s2 := match timers s1 with
            | [] => s1
            | _ => let (due, rest) := split_due (now s1) (timers s1) in
                   set_timers (set_run_timers s1 (run_timers s1 ++ due)) rest
            end in
  let s3 := run_timers_loop (length (run_timers s2)) s2 in
  run_laters_loop (length (run_laters s3)) s3.

(* one tickit_tick: evloop_run asks next_timer_msec, calls ppoll (nothing ready, no signal:
   it returns 0 at once with NOHANG, after the time-out otherwise), then invoke_timers *)
Definition tick (sleep : bool) (dt : Z) (s : st) : st :=
  let s1 := set_iter (set_now s (now s + dt)) (iter s + 1) in
  let msec := if sleep then next_timer_msec s1 else 0 in
  let s2 := set_log s1 (OPoll msec :: log s1) in
  let s3 := if sleep && (0 <? msec) then set_now s2 (now s2 + msec * 1000) else s2 in
  invoke_timers s3.

(* destroy_watchlist: every watch that asked for UNBIND or DESTROY gets UNBIND|DESTROY *)
Definition asked (w : watch) : bool := w_unbind w || w_destroy w.
Definition destroy_list (s : st) (l : list watch) : st :=
  fold_left (fun s w => if asked w then emit s w (EV_UNBIND + EV_DESTROY) else s) l s.

(* tickit_destroy: iowatches, timers, laters, signals, processes *)
Definition destroy (s : st) : st :=
  let s0 := set_iter s (-1) in
  let s1 := destroy_list s0 (ios s0) in
  let s2 := destroy_list s1 (timers s0) in
  let s3 := destroy_list s2 (laters s0) in
  let s4 := destroy_list s3 (sigs s0) in
  let s5 := destroy_list s4 (procs s0) in
  set_procs (set_sigs (set_laters (set_timers (set_ios s5 []) []) []) []) [].

Definition do_op (s : st) (o : op) : st :=
  match o with
  | OAct a => do_action s a
  | ORun dt => tick false dt s
  | OOnce => tick true 0 s
  end.

Definition run_ops (ops : list op) : st := fold_left do_op ops st0.

(* the observation of a whole case: the script, then destruction *)
Definition run (ops : list op) : list obs := rev (log (destroy (run_ops ops))).

(* ... with tickit_unref from callbacks taken seriously: tickit_tick holds a reference while it
   runs (fixes/C18-tick-holds-reference.patch), so the instance a callback has dropped is
   destroyed when the tick returns -- with everything that tick owed done -- and the script
   ends there; dropped between ticks it is destroyed at once.  The harness's iteration counter
   is then not reset: [destroy_now] *)
Definition destroy_now (s : st) : st :=
  let s1 := destroy_list s (ios s) in
  let s2 := destroy_list s1 (timers s) in
  let s3 := destroy_list s2 (laters s) in
  let s4 := destroy_list s3 (sigs s) in
  let s5 := destroy_list s4 (procs s) in
  set_procs (set_sigs (set_laters (set_timers (set_ios s5 []) []) []) []) [].

Fixpoint run_opsx (ops : list op) (s : st) : st * bool :=
  match ops with
  | [] => (s, false)
  | o :: r => let s' := do_op s o in if dropped s' then (s', true) else run_opsx r s'
  end.

Definition runx (ops : list op) : list obs :=
  let (s, early) := run_opsx ops st0 in
  rev (log (if early then destroy_now s else destroy s)).

End WithEnv.
