(* RectDefs.v -- executable model of /repo/src/rect.c, written function by function
   after the C.  C `int` is modelled as unbounded Z (assumption: no overflow).
   Nothing but definitions here, so that extraction still works when a proof breaks. *)
From Coq Require Import ZArith List Bool.
Import ListNotations.
Local Open Scope Z_scope.

Record rect := mkRect { top : Z; left : Z; lines : Z; cols : Z }.

Definition bottom (r : rect) : Z := top r + lines r.
Definition right (r : rect) : Z := left r + cols r.

(* tickit_rect_init_bounded *)
Definition init_bounded (t l b r : Z) : rect := mkRect t l (b - t) (r - l).

(* tickit_rect_translate *)
Definition r_translate (r : rect) (down rightw : Z) : rect :=
  mkRect (top r + down) (left r + rightw) (lines r) (cols r).

(* tickit_rect_intersect: None = `return false` (dst untouched) *)
Definition r_intersect (a b : rect) : option rect :=
  let t := Z.max (top a) (top b) in
  let bo := Z.min (bottom a) (bottom b) in
  if t >=? bo then None else
  let l := Z.max (left a) (left b) in
  let r := Z.min (right a) (right b) in
  if l >=? r then None else
  Some (init_bounded t l bo r).

(* tickit_rect_intersects *)
Definition r_intersects (a b : rect) : bool :=
  (top a <? bottom b) && (top b <? bottom a) &&
  (left a <? right b) && (left b <? right a).

(* tickit_rect_contains large small *)
Definition r_contains (large small : rect) : bool :=
  (top small >=? top large) && (bottom small <=? bottom large) &&
  (left small >=? left large) && (right small <=? right large).

(* One iteration of the band loop of tickit_rect_add.  The accumulator is the
   output array in REVERSE order (head = ret[rects-1]). *)
Definition add_band (a b : rect) (acc : list rect) (this_top this_bottom : Z) : list rect :=
  if this_top =? this_bottom then acc else
  let has_a := (this_top >=? top a) && (this_bottom <=? bottom a) in
  let has_b := (this_top >=? top b) && (this_bottom <=? bottom b) in
  let this_left := if has_a && has_b then Z.min (left a) (left b)
                   else if has_a then left a else left b in
  let this_right := if has_a && has_b then Z.max (right a) (right b)
                    else if has_a then right a else right b in
  match acc with
  | prev :: rest =>
      if (left prev =? this_left) && (cols prev =? this_right - this_left)
      then mkRect (top prev) (left prev) (this_bottom - top prev) (cols prev) :: rest
      else init_bounded this_top this_left this_bottom this_right :: acc
  | [] => [init_bounded this_top this_left this_bottom this_right]
  end.

(* the three conditional swaps *)
Definition sort_rows (a b : rect) : Z * Z * Z * Z :=
  let r0 := top a in let r1 := top b in
  let r2 := bottom a in let r3 := bottom b in
  let '(r0, r1) := if r0 >? r1 then (r1, r0) else (r0, r1) in
  let '(r2, r3) := if r2 >? r3 then (r3, r2) else (r2, r3) in
  let '(r1, r2) := if r1 >? r2 then (r2, r1) else (r1, r2) in
  (r0, r1, r2, r3).

(* tickit_rect_add: the returned list is ret[0..n-1] in order *)
Definition r_add (a b : rect) : list rect :=
  if (left a >? right b) || (left b >? right a) ||
     (top a >? bottom b) || (top b >? bottom a)
  then [a; b]
  else
    let '(r0, r1, r2, r3) := sort_rows a b in
    let acc := add_band a b [] r0 r1 in
    let acc := add_band a b acc r1 r2 in
    let acc := add_band a b acc r2 r3 in
    rev acc.

(* tickit_rect_subtract orig hole *)
Definition r_subtract (orig hole : rect) : list rect :=
  if r_contains hole orig then [] else
  if negb (r_intersects hole orig) then [orig] else
  let mid_top := Z.max (top orig) (top hole) in
  let mid_bottom := Z.min (bottom orig) (bottom hole) in
  (if top orig <? top hole
   then [init_bounded (top orig) (left orig) (top hole) (right orig)] else []) ++
  (if left orig <? left hole
   then [init_bounded mid_top (left orig) mid_bottom (left hole)] else []) ++
  (if right orig >? right hole
   then [init_bounded mid_top (right hole) mid_bottom (right orig)] else []) ++
  (if bottom orig >? bottom hole
   then [init_bounded (bottom hole) (left orig) (bottom orig) (right orig)] else []).

(* ---------------------------------------------------------------- *)
(* Specification vocabulary: the plane of cells.                     *)

Definition cell := (Z * Z)%type.   (* (line, col) *)

Definition cell_in (r : rect) (p : cell) : Prop :=
  top r <= fst p < bottom r /\ left r <= snd p < right r.

Definition cell_inb (r : rect) (p : cell) : bool :=
  (top r <=? fst p) && (fst p <? bottom r) && (left r <=? snd p) && (snd p <? right r).

Definition nonempty (r : rect) : Prop := 0 < lines r /\ 0 < cols r.
Definition nonemptyb (r : rect) : bool := (0 <? lines r) && (0 <? cols r).

Definition covered (s : list rect) (p : cell) : Prop := exists r, In r s /\ cell_in r p.
Definition coveredb (s : list rect) (p : cell) : bool := existsb (fun r => cell_inb r p) s.

Definition disjoint2 (a b : rect) : Prop := forall p, ~ (cell_in a p /\ cell_in b p).

Fixpoint pairwise_disjoint (s : list rect) : Prop :=
  match s with
  | [] => True
  | r :: rest => Forall (disjoint2 r) rest /\ pairwise_disjoint rest
  end.

Definition all_nonempty (s : list rect) : Prop := Forall nonempty s.
