(* InputSpec.v -- what C20 demands of the event sequence, given the sequence of keys the
   tokenizer finds in the WHOLE stream: no buffer, no chunks, no drain loop.
   Text and keys map one to one; positions are zero-based; a press of button >= 4 is a wheel
   event; the held buttons are a finite set; a release naming no button is reported once for
   each held button, in increasing order, and empties the set. *)
From Coq Require Import ZArith List Bool.
From Tickit Require Import InputDefs.
Import ListNotations.
Local Open Scope Z_scope.

Fixpoint insert_button (b : Z) (l : list Z) : list Z :=
  match l with
  | [] => [b]
  | h :: t => if b <? h then b :: l else if b =? h then l else h :: insert_button b t
  end.
Definition remove_button (b : Z) (l : list Z) : list Z := filter (fun x => negb (x =? b)) l.

(* events for one key; the held set is a sorted list of button numbers *)
Definition spec_key (held : list Z) (k : key) : list event * list Z :=
  match k_type k with
  | TMouse =>
      let line := k_line k - 1 in
      let col := k_col k - 1 in
      if k_ev k =? TK_MOUSE_PRESS then
        if 4 <=? k_button k
        then ([EvMouse MOUSEEV_WHEEL (k_button k - 3) line col (k_mod k)], held)
        else ([EvMouse MOUSEEV_PRESS (k_button k) line col (k_mod k)], insert_button (k_button k) held)
      else if k_ev k =? TK_MOUSE_DRAG then
        ([EvMouse MOUSEEV_DRAG (k_button k) line col (k_mod k)], insert_button (k_button k) held)
      else if k_ev k =? TK_MOUSE_RELEASE then
        if k_button k =? 0
        then (map (fun b => EvMouse MOUSEEV_RELEASE b line col (k_mod k)) held, [])
        else ([EvMouse MOUSEEV_RELEASE (k_button k) line col (k_mod k)], remove_button (k_button k) held)
      else ([EvMouse (-1) (k_button k) line col (k_mod k)], held)
  | TUnicode =>
      if k_mod k =? 0 then ([EvKey KEYEV_TEXT 0 (k_utf8 k)], held)
      else ([EvKey KEYEV_KEY (k_mod k) (k_name k)], held)
  | TFunction | TKeysym => ([EvKey KEYEV_KEY (k_mod k) (k_name k)], held)
  | _ => ([], held)
  end.

Fixpoint spec_keys (held : list Z) (ks : list key) : list event * list Z :=
  match ks with
  | [] => ([], held)
  | k :: r =>
      let (e1, h1) := spec_key held k in
      let (e2, h2) := spec_keys h1 r in
      (e1 ++ e2, h2)
  end.

Definition mask_of (held : list Z) : Z := fold_right (fun b m => Z.setbit m b) 0 held.

(* ---- the oracle: the implementation's events and final held mask against the spec *)
Definition event_eqb (a b : event) : bool :=
  match a, b with
  | EvKey t1 m1 s1, EvKey t2 m2 s2 =>
      (t1 =? t2) && (m1 =? m2) && (Nat.eqb (length s1) (length s2)) &&
      forallb (fun p => fst p =? snd p) (combine s1 s2)
  | EvMouse t1 b1 l1 c1 m1, EvMouse t2 b2 l2 c2 m2 =>
      (t1 =? t2) && (b1 =? b2) && (l1 =? l2) && (c1 =? c2) && (m1 =? m2)
  | _, _ => false
  end.

Fixpoint events_eqb (l1 l2 : list event) : bool :=
  match l1, l2 with
  | [], [] => true
  | a :: r1, b :: r2 => event_eqb a b && events_eqb r1 r2
  | _, _ => false
  end.

(* [leftover] = the tokenizer still holds an unfinished sequence at the end *)
Definition input_checkb (ks : list key) (leftover : bool) (evs : list event) (held : Z) (armed : bool) : bool :=
  let (e, h) := spec_keys [] ks in
  events_eqb e evs && (mask_of h =? held) && Bool.eqb leftover armed.
