(* LifeBindDefs.v -- property C08, the heap-level twin of /repo/src/bindings.c: the binding list as
   cells with addresses and [next] pointers, malloc/free, and every read or write of an address that
   is not allocated a [Fault].  Written function by function after the C as it is now (tombstones,
   the saved iteration guard, the deferred sweep, the detach-then-notify loop of
   tickit_bindings_unbind_and_destroy).  The interpreter [hexec] has the shape of [exec] of the
   logical model BindDefs.v (property C16; the file is copied verbatim from the /verif checkout),
   with the same handler environments [env_t], the same traces and the same fuel discipline; where
   BindDefs.v follows a node by its name, this model follows the pointer.
   The pointer walks inside one call (the sweep, the walks of bind / unbind / destroy) have their
   own fuel, [walk_fuel]: one more than the number of cells ever allocated.
   Definitions only. *)
From Coq Require Import ZArith List Bool PArith FMapPositive.
From Tickit Require Import BindDefs.
Import ListNotations.
Local Open Scope Z_scope.

Module BM := PositiveMap.

Record bcell := mkC {
  c_next : option positive; c_id : Z; c_ev : Z; c_flags : Z; c_fn : option Z; c_data : Z }.
(* struct TickitBindings + the allocator *)
Record bheap := mkH {
  cells : BM.t bcell; hfirst : option positive; hiter : bool; hdel : bool; hfresh : positive }.
Record hworld := mkHW { hs : bheap; hn : Z; ht : list tev }.

Definition empty_heap : bheap := mkH (BM.empty bcell) None false false 1%positive.
Definition init_hworld : hworld := mkHW empty_heap 1 [].

Definition with_cells (h : bheap) (m : BM.t bcell) : bheap := mkH m (hfirst h) (hiter h) (hdel h) (hfresh h).
Definition set_first (h : bheap) (v : option positive) : bheap := mkH (cells h) v (hiter h) (hdel h) (hfresh h).
Definition set_iter (h : bheap) (b : bool) : bheap := mkH (cells h) (hfirst h) b (hdel h) (hfresh h).
Definition set_del (h : bheap) (b : bool) : bheap := mkH (cells h) (hfirst h) (hiter h) b (hfresh h).
Definition set_next (c : bcell) (v : option positive) : bcell := mkC v (c_id c) (c_ev c) (c_flags c) (c_fn c) (c_data c).
(* bind->id = TOMBSTONE; bind->evindex = -1; bind->flags = 0; bind->fn = NULL *)
Definition ctomb (c : bcell) : bcell := mkC (c_next c) TOMBSTONE_ID (-1) 0 None (c_data c).

(* ---- memory ---- *)
Definition rd (h : bheap) (a : positive) : res bcell :=
  match BM.find a (cells h) with Some c => Ok c | None => Fault end.
Definition wr (h : bheap) (a : positive) (c : bcell) : res bheap :=
  match BM.find a (cells h) with Some _ => Ok (with_cells h (BM.add a c (cells h))) | None => Fault end.
Definition hfree (h : bheap) (a : positive) : res bheap :=
  match BM.find a (cells h) with Some _ => Ok (with_cells h (BM.remove a (cells h))) | None => Fault end.
Definition halloc (h : bheap) (c : bcell) : bheap * positive :=
  (mkH (BM.add (hfresh h) c (cells h)) (hfirst h) (hiter h) (hdel h) (Pos.succ (hfresh h)), hfresh h).

(* struct TickitBinding **: &bindings->first or &b->next *)
Inductive bslot := BFirst | BNext (a : positive).
Definition read_slot (h : bheap) (s : bslot) : res (option positive) :=
  match s with
  | BFirst => Ok (hfirst h)
  | BNext a => rbind (rd h a) (fun c => Ok (c_next c))
  end.
Definition write_slot (h : bheap) (s : bslot) (v : option positive) : res bheap :=
  match s with
  | BFirst => Ok (set_first h v)
  | BNext a => rbind (rd h a) (fun c => wr h a (set_next c v))
  end.

Definition walk_fuel (h : bheap) : nat := S (Pos.to_nat (hfresh h)).

(* ---- cleanup(): for(bindp = &bindings->first; *bindp; ) { bind = *bindp;
        if(bind->id != TOMBSTONE) { bindp = &( *bindp)->next; continue; }
        *bindp = bind->next; bind->next = NULL; free(bind); }  bindings->needs_delete = false ---- *)
Fixpoint h_sweep (n : nat) (s : bslot) (h : bheap) : res bheap :=
  match n with
  | O => OutOfFuel
  | S n' =>
    rbind (read_slot h s) (fun v =>
    match v with
    | None => Ok h
    | Some b =>
      rbind (rd h b) (fun cb =>
      if negb (c_id cb =? TOMBSTONE_ID) then h_sweep n' (BNext b) h
      else
        rbind (write_slot h s (c_next cb)) (fun h1 =>
        rbind (rd h1 b) (fun cb1 =>
        rbind (wr h1 b (set_next cb1 None)) (fun h2 =>
        rbind (hfree h2 b) (fun h3 => h_sweep n' s h3)))))
    end)
  end.
Definition h_cleanup (h : bheap) : res bheap :=
  rbind (h_sweep (walk_fuel h) BFirst h) (fun h' => Ok (set_del h' false)).

(* bindings->is_iterating = was_iterating; if(!was_iterating && bindings->needs_delete) cleanup(bindings) *)
Definition h_end_iteration (was : bool) (h : bheap) : res bheap :=
  let h1 := set_iter h was in
  if negb was && hdel h1 then h_cleanup h1 else Ok h1.
Definition h_begin_iteration (h : bheap) : bheap := set_iter h true.

(* ---- tickit_bindings_bind_event ---- *)
(* for(bind = *newp; bind; bind = bind->next) if(bind->id > max_id) max_id = bind->id *)
Fixpoint h_max_from (n : nat) (k : option positive) (m : Z) (h : bheap) : res Z :=
  match n with
  | O => OutOfFuel
  | S n' =>
    match k with
    | None => Ok m
    | Some a => rbind (rd h a) (fun c => h_max_from n' (c_next c) (if c_id c >? m then c_id c else m) h)
    end
  end.
(* for(; *newp; newp = &( *newp)->next) if(( *newp)->id > max_id) max_id = ( *newp)->id *)
Fixpoint h_end_from (n : nat) (s : bslot) (m : Z) (h : bheap) : res (bslot * Z) :=
  match n with
  | O => OutOfFuel
  | S n' =>
    rbind (read_slot h s) (fun v =>
    match v with
    | None => Ok (s, m)
    | Some a => rbind (rd h a) (fun c => h_end_from n' (BNext a) (if c_id c >? m then c_id c else m) h)
    end)
  end.
Definition h_bind_event (h : bheap) (ev flags : Z) (fn : option Z) (data : Z) : res (bheap * Z) :=
  rbind (if has flags BIND_FIRST
         then rbind (h_max_from (walk_fuel h) (hfirst h) 0 h) (fun m => Ok (BFirst, hfirst h, m))
         else rbind (h_end_from (walk_fuel h) BFirst 0 h) (fun '(s, m) => Ok (s, None, m)))
        (fun '(newp, next, m) =>
           let id := m + 1 in
           let '(h1, a) := halloc h (mkC next id ev (Z.land flags (BIND_UNBIND + BIND_DESTROY + BIND_ONESHOT)) fn data) in
           rbind (write_slot h1 newp (Some a)) (fun h2 => Ok (h2, id))).

(* for(bind = bindings->first; bind; bind = bind->next) if(bind->id == id) break *)
Fixpoint h_find_id (n : nat) (k : option positive) (id : Z) (h : bheap) : res (option positive) :=
  match n with
  | O => OutOfFuel
  | S n' =>
    match k with
    | None => Ok None
    | Some a => rbind (rd h a) (fun c => if c_id c =? id then Ok (Some a) else h_find_id n' (c_next c) id h)
    end
  end.

(* bindp = &bindings->first; while(( *bindp)->next) bindp = &( *bindp)->next *)
Fixpoint h_last_slot (n : nat) (s : bslot) (h : bheap) : res bslot :=
  match n with
  | O => OutOfFuel
  | S n' =>
    rbind (read_slot h s) (fun v =>
    match v with
    | None => Fault                       (* ( *bindp)->next with *bindp == NULL *)
    | Some a => rbind (rd h a) (fun c => match c_next c with None => Ok s | Some _ => h_last_slot n' (BNext a) h end)
    end)
  end.

(* ---- histories ---- *)
Definition hlog (e : tev) (w : hworld) : hworld := mkHW (hs w) (hn w) (e :: ht w).
Definition hset (h : bheap) (w : hworld) : hworld := mkHW h (hn w) (ht w).

Inductive htask :=
| HCall (fn : option Z) (name flags : Z)
| HActs (acts : list action)
| HAct (a : action)
| HLoop (wf : bool) (ev : Z) (cur : option positive)     (* bind, the loop variable *)
| HDestroy.

Section Interp.
Variable env : env_t.

Fixpoint hexec (fuel : nat) (t : htask) (w : hworld) : res (hworld * Z) :=
  match fuel with
  | O => OutOfFuel
  | S f =>
    match t with
    | HCall fn name flags =>
        match fn with
        | None => Fault
        | Some hid =>
            let '(acts, ret) := env (ht w) hid name flags in
            rbind (hexec f (HActs acts) w)
                  (fun '(w1, _) => Ok (hlog (TCallE ret) w1, ret))
        end
    | HActs acts =>
        match acts with
        | [] => Ok (w, 0)
        | a :: rest => rbind (hexec f (HAct a) w) (fun '(w1, _) => hexec f (HActs rest) w1)
        end
    | HAct (ABind ev flags hid) =>
        let name := if has flags BIND_FIRST then - hn w else hn w in
        rbind (h_bind_event (hs w) ev flags (Some hid) name)
              (fun '(h1, id) => Ok (mkHW h1 (hn w + 1) (TBind name ev flags hid id :: ht w), id))
    | HAct (AUnbind id) =>
        let w0 := hlog (TUnbindB id) w in
        rbind (h_find_id (walk_fuel (hs w0)) (hfirst (hs w0)) id (hs w0)) (fun found =>
        match found with
        | None => Ok (hlog TUnbindE w0, 0)
        | Some a =>
            rbind (rd (hs w0) a) (fun c =>
            let fn := c_fn c in
            let data := c_data c in
            let notify := has (c_flags c) BIND_UNBIND in
            rbind (wr (hs w0) a (ctomb c)) (fun h1 =>
            let h2 := set_del h1 true in
            let was := hiter h2 in
            let w1 := hset (h_begin_iteration h2) w0 in
            rbind (if notify
                   then hexec f (HCall fn data EV_UNBIND) (hlog (TCallB data EV_UNBIND) w1)
                   else Ok (w1, 0))
                  (fun '(w2, _) =>
                     rbind (h_end_iteration was (hs w2)) (fun h3 => Ok (hlog TUnbindE (hset h3 w2), 0)))))
        end)
    | HAct (AEmit ev) =>
        let was := hiter (hs w) in
        let w1 := hlog (TEmitB false ev) (hset (h_begin_iteration (hs w)) w) in
        rbind (hexec f (HLoop false ev (hfirst (hs w1))) w1)
              (fun '(w2, _) =>
                 rbind (h_end_iteration was (hs w2)) (fun h3 => Ok (hlog (TEmitE 0) (hset h3 w2), 0)))
    | HAct (AEmitWF ev) =>
        let was := hiter (hs w) in
        let w1 := hlog (TEmitB true ev) (hset (h_begin_iteration (hs w)) w) in
        rbind (hexec f (HLoop true ev (hfirst (hs w1))) w1)
              (fun '(w2, ret) =>
                 rbind (h_end_iteration was (hs w2)) (fun h3 => Ok (hlog (TEmitE ret) (hset h3 w2), ret)))
    | HAct ADestroy =>
        rbind (hexec f HDestroy (hlog TDestroyB w))
              (fun '(w1, _) => Ok (hlog TDestroyE w1, 0))
    | HLoop wf ev cur =>
        match cur with
        | None => Ok (w, 0)
        | Some a =>
            rbind (rd (hs w) a) (fun c =>                         (* bind->evindex *)
            if c_ev c =? ev then
              let fn := c_fn c in
              let data := c_data c in
              rbind (if has (c_flags c) BIND_ONESHOT
                     then rbind (wr (hs w) a (ctomb c)) (fun h1 => Ok (set_del h1 true, EV_FIRE + EV_UNBIND))
                     else Ok (hs w, EV_FIRE))
                    (fun '(h1, flags) =>
              rbind (hexec f (HCall fn data flags) (hlog (TCallB data flags) (hset h1 w)))
                    (fun '(w1, ret) =>
                       if wf && negb (ret =? 0) then Ok (w1, ret)
                       else rbind (rd (hs w1) a) (fun c1 => hexec f (HLoop wf ev (c_next c1)) w1)))   (* bind = bind->next *)
            else hexec f (HLoop wf ev (c_next c)) w)
        end
    | HDestroy =>
        match hfirst (hs w) with
        | None => Ok (w, 0)
        | Some _ =>
            rbind (h_last_slot (walk_fuel (hs w)) BFirst (hs w)) (fun s =>
            rbind (read_slot (hs w) s) (fun v =>
            match v with
            | None => Fault
            | Some a =>
                rbind (write_slot (hs w) s None) (fun h1 =>          (* *bindp = NULL *)
                rbind (rd h1 a) (fun c =>
                let fn := c_fn c in
                let data := c_data c in
                let notify := (c_ev c =? 0) || has (c_flags c) (BIND_UNBIND + BIND_DESTROY) in
                rbind (hfree h1 a) (fun h2 =>
                let w0 := hset h2 w in
                rbind (if notify
                       then hexec f (HCall fn data (EV_UNBIND + EV_DESTROY))
                                    (hlog (TCallB data (EV_UNBIND + EV_DESTROY)) w0)
                       else Ok (w0, 0))
                      (fun '(w1, _) => hexec f HDestroy w1))))
            end))
        end
    end
  end.

Definition hrun (fuel : nat) (ops : list action) : res (hworld * Z) :=
  hexec fuel (HActs ops) init_hworld.

End Interp.

(* nothing is allocated *)
Definition bheap_empty (h : bheap) : bool := BM.is_empty (cells h).
