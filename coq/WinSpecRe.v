(* WinSpecRe.v -- C02 oracle clauses for flushes whose handlers re-enter the window layer. *)
From Coq Require Import ZArith List Bool.
From Tickit Require Import RectDefs WinRectSet WinDefs WinSpec WinInputSpec.
Import ListNotations.
Local Open Scope Z_scope.

(* the rectangles handed to handlers lie inside their windows (with a nested flush one window may
   be handed overlapping rectangles: once by the nested, once by the outer flush) *)
Definition c02_rects_in_checkb (t : wtree) (log : list (Z * rect)) : bool :=
  forallb (fun e => match t_find (fst e) t with
                    | Some w => nonemptyb (snd e) && r_contains (selfrect (t_info w)) (snd e)
                    | None => false
                    end) log.

(* A window that moves ITSELF from inside its expose handler (the only change of the tree during
   this flush, one damage rectangle): it drew where it was; from then on it is masked where it
   is NOW, so no lower layer may draw into the cells it (or a window inside it) owns now.  Hence
   every cell owned by its subtree in the tree after the flush, outside the area it had before,
   is untouched by this flush. *)
Definition c02_selfmove_checkb (before_t after_t : wtree) (w : Z) (nl nc : Z)
  (before after : cell -> Z) : bool :=
  match t_find w before_t, tree_origin before_t w, t_find w after_t with
  | Some wb, Some ob, Some wa =>
    let oldabs := mkRect (fst ob) (snd ob) (lines (w_rect (t_info wb))) (cols (w_rect (t_info wb))) in
    let ids := sub_ids wa in
    forallb (fun p => match owner after_t p with
                      | Some (id, _) =>
                        if id_in id ids && negb (cell_inb oldabs p) then before p =? after p else true
                      | None => true
                      end) (grid_cells nl nc)
  | _, _, _ => true
  end.

(* A window hidden by ANOTHER window's expose handler (and never shown by a handler) is handed
   nothing from then on in that flush: in the log of expose events no entry of the hider [h] is
   followed by an entry of the hidden window [w].  ([w] not above [h]: a window whose own expose
   is under way still gets its event.) *)
Fixpoint occurs_after (h w : Z) (l : list Z) : bool :=
  match l with
  | [] => false
  | x :: r => if x =? h then existsb (fun y => y =? w) r || occurs_after h w r else occurs_after h w r
  end.

Definition c02_hide_order_checkb (hides : list (Z * Z)) (log : list (Z * rect)) : bool :=
  forallb (fun hw => negb (occurs_after (fst hw) (snd hw) (map fst log))) hides.
