From Coq Require Extraction.
From Coq Require Import ExtrOcamlBasic.
From Tickit Require Import OutBufDefs OutBufSpec.
Extraction "mC11.ml" init run check stream_to.
