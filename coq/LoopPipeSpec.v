(* LoopPipeSpec.v -- what C18 demands of signal delivery, as a checker over an observed log (the
   oracle for the self-pipe fallback cases).  No pipe, no pending set, no wakeup bytes:
     - every raise of a watched signal creates one obligation per live watcher of that signal;
     - an obligation is discharged by an invocation (FIRE) of that watcher in a dispatch whose
       snapshot was taken after the raise: a raise made by a signal callback of the running
       dispatch counts for the NEXT dispatch;
     - it must be discharged by the end of the iteration after the one in which the signal was
       raised (a raise between iterations belongs to the previous one) -- WITHOUT any further
       signal;
     - a watcher is never invoked without an obligation; the watchers of one dispatch are
       invoked in registration order; a cancelled watcher has no obligations.
   Signals scripted to arrive between the wakeup read and the snapshot carry no deadline (when
   the read happens is not observable) but create the obligation. *)
From Coq Require Import ZArith List Bool.
From Tickit Require Import LoopDefs LoopSpec LoopSigDefs LoopPipeDefs.
Import ListNotations.
Local Open Scope Z_scope.

Record ob := mkOb { o_id : Z; o_dl : Z }.      (* watcher, iteration by whose end it must have run *)

Record cst := mkC {
  c_ws : list sgw; c_ls : list ltr;
  c_now : list ob;       (* raised before the snapshot of the (next) dispatch *)
  c_nxt : list ob;       (* raised by signal callbacks of the running dispatch *)
  c_betw : list Z;
  c_sn : list Z;         (* signals raised and not yet dispatched (before the next snapshot) *)
  c_sx : list Z;         (* ... raised by signal callbacks of the running dispatch *)
  c_fired : bool;        (* a signal watcher has been invoked in the running iteration *)
  c_next : Z; c_tick : Z; c_last : Z; c_ok : bool }.

Definition cst0 : cst := mkC [] [] [] [] [] [] [] false 0 0 (-1) true.

Definition has_ob (id : Z) (l : list ob) : bool := existsb (fun o => o_id o =? id) l.
Definition drop_ob (id : Z) (l : list ob) : list ob := filter (fun o => negb (o_id o =? id)) l.

Definition add_obs (ids : list Z) (dl : Z) (l : list ob) : list ob :=
  fold_left (fun acc i => if has_ob i acc then acc else acc ++ [mkOb i dl]) ids l.

Definition NODL : Z := 1000000.

Section WithEnv.
Variable env : Z -> list saction.

Definition c_raise (indisp : bool) (dl : Z) (s : cst) (sig : Z) : cst :=
  let ids := map g_id (filter (fun w => g_sig w =? sig) (c_ws s)) in
  if indisp
  then mkC (c_ws s) (c_ls s) (c_now s) (add_obs ids dl (c_nxt s)) (c_betw s) (c_sn s) (addz sig (c_sx s)) (c_fired s) (c_next s) (c_tick s) (c_last s) (c_ok s)
  else mkC (c_ws s) (c_ls s) (add_obs ids dl (c_now s)) (c_nxt s) (c_betw s) (addz sig (c_sn s)) (c_sx s) (c_fired s) (c_next s) (c_tick s) (c_last s) (c_ok s).

Definition c_action (indisp : bool) (s : cst) (a : saction) : cst :=
  match a with
  | SLater ub cb => mkC (c_ws s) (c_ls s ++ [mkLt (c_next s) ub cb]) (c_now s) (c_nxt s) (c_betw s) (c_sn s) (c_sx s) (c_fired s) (c_next s + 1) (c_tick s) (c_last s) (c_ok s)
  | SSig sig ub cb => mkC (c_ws s ++ [mkSg (c_next s) sig ub cb]) (c_ls s) (c_now s) (c_nxt s) (c_betw s) (c_sn s) (c_sx s) (c_fired s) (c_next s + 1) (c_tick s) (c_last s) (c_ok s)
  | SCancel id =>
      mkC (remove_sgw id (c_ws s)) (remove_ltr id (c_ls s)) (drop_ob id (c_now s)) (drop_ob id (c_nxt s)) (c_betw s)
          (c_sn s) (c_sx s) (c_fired s) (c_next s) (c_tick s) (c_last s) (c_ok s)
  | SRaise sig => c_raise indisp (c_tick s + 1) s sig
  | _ => s
  end.

Definition c_actions (indisp : bool) (s : cst) (l : list saction) : cst := fold_left (c_action indisp) l s.

Definition c_fail (s : cst) : cst :=
  mkC (c_ws s) (c_ls s) (c_now s) (c_nxt s) (c_betw s) (c_sn s) (c_sx s) (c_fired s) (c_next s) (c_tick s) (c_last s) false.

(* one observed event of an iteration *)
Definition c_event (s : cst) (e : event) : cst :=
  if (kind_code (e_kind e) =? 1) && (e_flags e =? EV_FIRE + EV_UNBIND) then
    match find_ltr (e_id e) (c_ls s) with
    | Some w =>
        c_actions false (mkC (c_ws s) (remove_ltr (e_id e) (c_ls s)) (c_now s) (c_nxt s) (c_betw s) (c_sn s) (c_sx s) (c_fired s) (c_next s) (c_tick s) (c_last s) (c_ok s))
                  (env (l_cb w))
    | None => c_fail s
    end
  else if (kind_code (e_kind e) =? 3) && (e_flags e =? EV_FIRE) then
    match find_sgw (e_id e) (c_ws s) with
    | Some w =>
        (* legitimate if its signal was raised before this dispatch's snapshot: either it
           watched then (obligation) or it was registered between the raise and the dispatch *)
        if (has_ob (e_id e) (c_now s) || memz (g_sig w) (c_sn s)) && (c_last s <? e_id e) && (e_x e =? g_sig w)
        then c_actions true (mkC (c_ws s) (c_ls s) (drop_ob (e_id e) (c_now s)) (c_nxt s) (c_betw s) (c_sn s) (c_sx s) true (c_next s) (c_tick s) (e_id e) (c_ok s))
                       (env (g_cb w))
        else c_fail s
    | None => c_fail s
    end
  else s.

Fixpoint take_tick (l : list obs) : list event * list obs :=
  match l with
  | [] => ([], [])
  | OPoll _ :: _ => ([], l)
  | OEv e :: r => let (es, rest) := take_tick r in (e :: es, rest)
  end.

Fixpoint skip_to_poll (l : list obs) : option (list obs) :=
  match l with
  | [] => None
  | OPoll _ :: r => Some r
  | OEv _ :: r => skip_to_poll r
  end.

Definition c_tick_end (s : cst) : cst :=
  let overdue := existsb (fun o => o_dl o <=? c_tick s) (c_now s ++ c_nxt s) in
  mkC (c_ws s) (c_ls s) (c_now s ++ filter (fun o => negb (has_ob (o_id o) (c_now s))) (c_nxt s)) [] (c_betw s)
      (if c_fired s then c_sx s else c_sn s ++ c_sx s) [] false
      (c_next s) (c_tick s) (-1) (c_ok s && negb overdue).

Fixpoint c_ops (ops : list fop) (s : cst) (l : list obs) : cst :=
  match ops with
  | [] => s
  | FAct a :: r => c_ops r (c_action false s a) l
  | FBetween sg :: r =>
      c_ops r (mkC (c_ws s) (c_ls s) (c_now s) (c_nxt s) (c_betw s ++ [sg]) (c_sn s) (c_sx s) (c_fired s) (c_next s) (c_tick s) (c_last s) (c_ok s)) l
  | FTick :: r =>
      match skip_to_poll l with
      | None => c_fail s
      | Some l1 =>
          let (es, rest) := take_tick l1 in
          let s0 := mkC (c_ws s) (c_ls s) (c_now s) (c_nxt s) [] (c_sn s) (c_sx s) false (c_next s) (c_tick s + 1) (-1) (c_ok s) in
          (* the scripted in-between arrivals: obligation without a deadline *)
          (* (when the wakeup read happens relative to the dispatch is not observable: the
             arrival may also count for the following dispatch) *)
          let s1a := fold_left (c_raise false NODL) (c_betw s) s0 in
          let s1 := mkC (c_ws s1a) (c_ls s1a) (c_now s1a) (c_nxt s1a) (c_betw s1a) (c_sn s1a)
                        (fold_left (fun acc x => addz x acc) (c_betw s) (c_sx s1a)) (c_fired s1a)
                        (c_next s1a) (c_tick s1a) (c_last s1a) (c_ok s1a) in
          c_ops r (c_tick_end (fold_left c_event es s1)) rest
      end
  end.

Definition fb_checkb (ops : list fop) (o : list obs) : bool := c_ok (c_ops ops cst0 o).

End WithEnv.
