(* Property C17: timers and deferred callbacks run once, on time, in order, unless cancelled.
   This file contains nothing but the property theorems, each closed by [exact <lemma>] and
   followed by Print Assumptions.

   The model (LoopDefs) is that of the REPAIRED library (fixes/C17-*.patch); the pinned
   behaviour (LoopAsIs, and io_mask_bug = true) is refuted by the five witnesses below, each
   of which was replayed on the unchanged C (corpus/C17).  All theorems quantify over every
   callback environment ([env]: what a callback does when fired; [uenv]: what it registers when
   it is notified of its cancellation) and every script (registrations, cancellations, clock advances,
   NOHANG and sleeping iterations). *)
From Coq Require Import ZArith List.
From Tickit Require Import LoopDefs LoopSpec LoopAsIs LoopProofs LoopRefine LoopOrder LoopSpecEq LoopHeap LoopHeapProofs LoopChain LoopChainProofs LoopIo LoopIoProofs LoopNest.
Import ListNotations.
Local Open Scope Z_scope.

(* THE specification (LoopSpec.spec_run, ~60 lines): pending timers are a priority queue keyed
   by (deadline, registration number), deferred callbacks a queue; nothing is ever detached.
   An iteration at time now takes the SNAPSHOT of the identities of the timers with deadline <=
   now, in key order, followed by those of the deferred callbacks, and invokes with FIRE|UNBIND
   each identity that is still pending when its turn comes; registrations get fresh identities
   (so they wait for a later iteration, whatever their deadline); cancel removes the watch
   wherever it is and delivers UNBIND iff asked (the notification may register replacements);
   destruction notifies every remaining asker once.
   The model of the repaired code produces exactly the log of this specification -- every
   callback invocation with flags, iteration, clock and deadline, every ppoll time-out, the
   destroy notifications -- for every callback environment, every script, every clock sequence. *)
Theorem C17_refines : forall env uenv ops, run false env uenv ops = spec_run env uenv ops.
Proof. exact refines_spec. Qed.
Print Assumptions C17_refines.

(* the proof goes through a second formulation of the same specification, in which the
   iteration keeps its snapshot as a queue (LoopSpec.qspec_run); the two formulations give the
   same log for every environment and script *)
Theorem C17_spec_formulations_agree : forall env uenv ops, spec_run env uenv ops = qspec_run env uenv ops.
Proof. exact spec_formulations_agree. Qed.
Print Assumptions C17_spec_formulations_agree.

Theorem C17_refines_queue : forall env uenv ops, run false env uenv ops = qspec_run env uenv ops.
Proof. exact refines. Qed.
Print Assumptions C17_refines_queue.

(* in a whole history no watch is invoked (FIRE) more than once *)
Theorem C17_at_most_once : forall env uenv ops id, (fires id (run false env uenv ops) <= 1)%nat.
Proof. exact at_most_once. Qed.
Print Assumptions C17_at_most_once.

(* the timer callbacks an iteration invokes are, oldest first, the (deadline, registration
   number) keys of a list that is strictly increasing in that key: deadline order, equal
   deadlines in registration order *)
Theorem C17_order : forall env uenv ops sleep dt,
  exists fired nw,
    log (tick false env uenv sleep dt (run_ops false env uenv ops)) = nw ++ log (run_ops false env uenv ops) /\
    map okey (filter is_tfire nw) = rev (map wkey fired) /\ ksorted fired.
Proof. exact iteration_order. Qed.
Print Assumptions C17_order.

(* a timer callback is never invoked before its deadline *)
Theorem C17_never_early : forall bug env uenv ops e,
  In (OEv e) (run bug env uenv ops) -> e_kind e = KTimer -> Z.testbit (e_flags e) 0 = true -> e_x e <= e_now e.
Proof. exact never_early. Qed.
Print Assumptions C17_never_early.

(* whatever an iteration invokes was registered before the iteration began: a watch registered
   from inside a callback -- whatever its deadline -- waits for a later iteration *)
Theorem C17_later_iteration : forall bug env uenv ops sleep dt,
  exists nw, log (tick bug env uenv sleep dt (run_ops bug env uenv ops)) = nw ++ log (run_ops bug env uenv ops) /\
             forall e, In (OEv e) nw -> Z.testbit (e_flags e) 0 = true -> e_id e < next_id (run_ops bug env uenv ops).
Proof. exact later_iteration. Qed.
Print Assumptions C17_later_iteration.

(* between iterations nothing is left in the running queues (every due timer and every deferred
   callback of the snapshot has run or has been cancelled) and the structural invariant holds *)
Theorem C17_iteration_completes : forall bug env uenv ops,
  Quiet (run_ops bug env uenv ops) /\ Below (run_ops bug env uenv ops).
Proof. exact reach. Qed.
Print Assumptions C17_iteration_completes.

(* when the instance is destroyed every remaining watch of every kind that asked for UNBIND or
   DESTROY gets exactly one UNBIND|DESTROY notification, and nothing else happens *)
Theorem C17_destroy_notifies : forall s,
  log (destroy s) =
  rev (map (destroy_event s) (filter asked (ios s ++ timers s ++ laters s ++ sigs s ++ procs s))) ++ log s.
Proof. exact destroy_notifies. Qed.
Print Assumptions C17_destroy_notifies.

(* ---- the heap-level twin (LoopHeap.v): the same functions over a heap of TickitWatch nodes
   with addresses, malloc (never the same address twice) and free; every access the C makes to
   a node -- next, flags, type, fn, timer.at, watch->type in tickit_watch_cancel, free itself --
   is a checked read that Faults (None) on a freed or unallocated node; the harness's own table
   of live watches is part of the state.  For EVERY script (registrations and cancellations
   from outside and from inside callbacks and UNBIND notifications, a watch cancelling itself
   included, clock advances, iterations) and every pair of callback environments the heap
   model does not fault, logs exactly what the list model logs, and after tickit_destroy no
   allocated node is left (the boolean).  Proved through the representation invariant
   LoopHeapProofs.Rep, not by testing; the driver prints this verdict (FAULT / LEAK) as part
   of the model's observation, the harness prints LEAK when the heap grew over a case and
   crashes under AddressSanitizer on a bad access. *)
Theorem C17_heap_safe : forall env uenv ops, h_run false env uenv ops = Some (run false env uenv ops, true).
Proof. exact heap_safe. Qed.
Print Assumptions C17_heap_safe.

(* tickit_unref from a callback.  The documentation lets the application manage the instance by
   reference count and says nothing against dropping the last reference from a callback; the
   library used to destroy the instance on the spot -- under the running tickit_evloop_invoke_timers,
   which went on to read the freed instance (finding, corpus/C17/drop.case).  With
   fixes/C18-tick-holds-reference.patch tickit_tick / tickit_run hold a reference of their own:
   the instance dies when the tick returns, after everything the tick owed has run (runx, h_runx:
   the script ends there).  The running queues are empty at that point, so for EVERY script, with
   drops from any callback, from UNBIND notifications or between ticks, the heap model reads no
   freed node, leaks none, and logs what the list model logs *)
Theorem C17_heap_safe_drop : forall env uenv ops, h_runx false env uenv ops = Some (runx false env uenv ops, true).
Proof. exact heap_safe_x. Qed.
Print Assumptions C17_heap_safe_drop.

(* for scripts in which nobody drops the instance runx is run (so C17_refines and the rest apply) *)
Theorem C17_runx_is_run : forall bug env uenv,
  (forall cb, Forall nodrop (env cb)) -> (forall cb, Forall nodrop (uenv cb)) ->
  forall ops, Forall op_nodrop ops -> runx bug env uenv ops = run bug env uenv ops.
Proof. exact runx_nodrop. Qed.
Print Assumptions C17_runx_is_run.

(* the heap model is not blind: with the seeded order of cancel_watch_in (unlink after the
   UNBIND notification, seeded-ports/C17-3.diff) it leaks on the script on which the seeded
   library leaks, with the log the seeded library prints *)
Theorem C17_heap_seeded_leaks :
  h_run true hw_env hw_uenv hw_ops = Some ([OEv (mkE 0 KLater EV_UNBIND 0 0 0); OPoll 0], false) /\
  h_run false hw_env hw_uenv hw_ops =
    Some ([OEv (mkE 0 KLater EV_UNBIND 0 0 0); OPoll 0; OEv (mkE 1 KLater (EV_FIRE + EV_UNBIND) 1 0 0)], true).
Proof. exact heap_seeded_leaks. Qed.
Print Assumptions C17_heap_seeded_leaks.

(* ---- the watch chains that are walked while callbacks cancel and register (signal watches,
   process watches): the heap level -- nodes at addresses, a cursor that cancellation moves on, the
   "registered before this walk" test -- reads no freed node, frees every node, and logs what the
   snapshot specification (identities only) logs; for every script, every callback table *)
Theorem C17_chain_safe : forall proc env ops,
  exists f0, forall fuel, (f0 <= fuel)%nat -> h_crun proc env fuel ops = Some (l_run proc env ops, true).
Proof. exact chain_safe. Qed.
Print Assumptions C17_chain_safe.

(* a process watch is invoked at most once, and every invocation reports a status that the
   script (the waitpid oracle) supplied for that very child *)
Theorem C17_process_once_status : forall env ops,
  (forall id, (pfires id (l_run true env ops) <= 1)%nat) /\
  (forall e, In (OEv e) (l_run true env ops) -> e_flags e = EV_FIRE -> In (e_id e, e_x e) (supplied ops)).
Proof. exact process_once_status. Qed.
Print Assumptions C17_process_once_status.

(* and none is left waiting: after the walk of a SIGCHLD dispatch, a watch registered before it
   that is still in the chain and has not been told of an exit has no status waiting for it *)
Theorem C17_process_not_left_waiting : forall env ops arg,
  let s := fold_left (l_op true env) ops lst0 in
  let s' := l_op true env s (KWalk arg) in
  forall w, In w (l_chain s') -> c_id w < l_next s -> c_ex w = false -> forall st, ~ In (c_key w, st) (l_exits s').
Proof. exact process_not_left_waiting. Qed.
Print Assumptions C17_process_not_left_waiting.

Theorem C17_process_witness :
  l_run true pw_env pw_ops = pw_log /\ h_crun true pw_env 50 pw_ops = Some (pw_log, true).
Proof. exact process_witness. Qed.
Print Assumptions C17_process_witness.

(* ---- IO watches of the BUILT instance at the heap level: the chain t->iowatches and the default
   event loop's slot arrays, with the terminal watch that tickit_build registers in cell 0 / slot 0;
   dispatch of ready descriptors while callbacks cancel and register, destruction: no read of a
   freed node, every node freed, the specification's log -- for every callback table and script *)
Theorem C17_io_safe : forall env ops, hi_run env ops = Some (j_run env ops, true).
Proof. exact io_safe. Qed.
Print Assumptions C17_io_safe.

Theorem C17_built_alone : forall env, hi_run env [] = Some ([], true).
Proof. exact built_alone. Qed.
Print Assumptions C17_built_alone.

Theorem C17_io_witness : j_run iw_env iw_ops = iw_log /\ hi_run iw_env iw_ops = Some (iw_log, true).
Proof. exact io_witness. Qed.
Print Assumptions C17_io_witness.

(* ---- nested iterations (a callback that calls tickit_tick) and DESTROY handlers that register /
   cancel watches of kinds destroyed later: an executable model of their own (LoopNest.v), tied to
   the C by the correspondence check; here its behaviour on the witness scripts, the two seeded
   variants (due prefix assigned instead of appended; lists detached before destruction)
   refuted, and agreement with the main model on a script without either *)
Theorem C17_nested_iteration_witness :
  n_run false false nw_env (fun _ => []) 100 nw_ops =
    Some ([OPoll 0; E 0 KTimer 3 1 0 0; OPoll 0; E 1 KTimer 3 2 0 0; OPoll 0; E 2 KTimer 3 3 10000 5000], true) /\
  n_run true false nw_env (fun _ => []) 100 nw_ops =
    Some ([OPoll 0; E 0 KTimer 3 1 0 0; OPoll 0; OPoll 0; E 2 KTimer 3 3 10000 5000], true).
Proof. exact nest_witness. Qed.
Print Assumptions C17_nested_iteration_witness.

Theorem C17_destroy_handler_witness :
  n_run false false (fun _ => []) nd_denv 100 nd_ops =
    Some ([E 0 KIo 6 (-1) 0 0; E 1 KTimer 2 (-1) 0 5000; E 2 KLater 6 (-1) 0 0], true) /\
  n_run false true (fun _ => []) nd_denv 100 nd_ops =
    Some ([E 0 KIo 6 (-1) 0 0; E 1 KTimer 6 (-1) 0 5000], false).
Proof. exact destroy_handler_witness. Qed.
Print Assumptions C17_destroy_handler_witness.

Theorem C17_nested_model_agrees_on_witness :
  n_run false false (fun cb => map NA (na_env cb)) (fun _ => []) 200
        (map (fun o => match o with OAct a => NAct (NA a) | ORun dt => NRun dt | OOnce => NRun 0 end) na_ops) =
    Some (run false na_env nuenv na_ops, true).
Proof. exact nest_agrees_on_witness. Qed.
Print Assumptions C17_nested_model_agrees_on_witness.

(* ---- the pinned code *)
Theorem C17_refuted_use_after_free : a_run true w22a_env 100 w22a_ops = None.
Proof. exact pinned_use_after_free. Qed.
Print Assumptions C17_refuted_use_after_free.

Theorem C17_refuted_dropped_timer :
  a_run true w22b_env 100 w22b_ops = Some [OPoll 0; OEv (mkE 0 KTimer 3 1 0 0); OPoll 0] /\
  spec_run w22b_env no_uenv w22b_ops = [OPoll 0; OEv (mkE 0 KTimer 3 1 0 0); OPoll 0; OEv (mkE 1 KTimer 3 2 0 (-10))].
Proof. exact pinned_drops_timer. Qed.
Print Assumptions C17_refuted_dropped_timer.

Theorem C17_refuted_same_iteration :
  a_run true w22c_env 100 w22b_ops = Some [OPoll 0; OEv (mkE 0 KTimer 3 1 0 0); OEv (mkE 1 KTimer 3 1 0 0); OPoll 0] /\
  spec_run w22c_env no_uenv w22b_ops = [OPoll 0; OEv (mkE 0 KTimer 3 1 0 0); OPoll 0; OEv (mkE 1 KTimer 3 2 0 0)].
Proof. exact pinned_same_iteration. Qed.
Print Assumptions C17_refuted_same_iteration.

Theorem C17_refuted_uncancellable_later :
  a_run true w22d_env 100 w22d_ops = Some [OPoll 0; OEv (mkE 0 KTimer 3 1 0 0); OEv (mkE 1 KLater 3 1 0 0); OPoll 0] /\
  spec_run w22d_env no_uenv w22d_ops = [OPoll 0; OEv (mkE 0 KTimer 3 1 0 0); OEv (mkE 1 KLater 2 1 0 0); OPoll 0].
Proof. exact pinned_uncancellable_later. Qed.
Print Assumptions C17_refuted_uncancellable_later.

Theorem C17_refuted_io_destroy_flag :
  run true (fun _ => []) no_uenv w23_ops = [] /\
  spec_run (fun _ => []) no_uenv w23_ops = [OEv (mkE 0 KIo 6 (-1) 0 0)] /\
  run false (fun _ => []) no_uenv w23_ops = [OEv (mkE 0 KIo 6 (-1) 0 0)].
Proof. exact pinned_io_no_destroy. Qed.
Print Assumptions C17_refuted_io_destroy_flag.

(* non-vacuity: on the five witness scripts the repaired model does what the specification says *)
Example C17_nonvacuous :
  run false (fun _ => []) wub_uenv wub_ops =
    [OEv (mkE 0 KTimer 2 0 0 2000); OPoll 0; OEv (mkE 1 KTimer 3 1 0 (-500))] /\
  run false w22a_env no_uenv w22a_ops = spec_run w22a_env no_uenv w22a_ops /\
  run false w22b_env no_uenv w22b_ops = spec_run w22b_env no_uenv w22b_ops /\
  run false w22c_env no_uenv w22b_ops = spec_run w22c_env no_uenv w22b_ops /\
  run false w22d_env no_uenv w22d_ops = spec_run w22d_env no_uenv w22d_ops.
Proof. exact fixed_on_witnesses. Qed.
