(* Property C17 (stub while the proofs are being built). *)
From Coq Require Import ZArith List.
From Tickit Require Import LoopDefs LoopSpec.
Import ListNotations.
Local Open Scope Z_scope.

Example C17_nonvacuous :
  run false (fun _ => []) [OAct (ATimer 0 (mkF false false false) 0); ORun 0] <> [].
Proof. vm_compute. discriminate. Qed.
