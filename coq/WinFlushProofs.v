(* WinFlushProofs.v -- tickit_window_flush on the abstract render buffer and terminal:
   the rectangles handed to handlers lie within their windows; the cells a flush changes
   (for ARBITRARY drawing handlers) lie in the damage and belong to the window that drew
   them (C02); with repainting handlers every damaged cell ends up showing the composition
   and no other cell changes (C01). *)
From Coq Require Import ZArith List Bool Lia ZifyBool.
From Tickit Require Import RectDefs RectProofs WinRectSet WinDefs WinSpec WinExposeProofs.
Import ListNotations.
Local Open Scope Z_scope.

(* ------------------------------------------------------------------------------------ *)
(* the rectangles handed to handlers                                                     *)

Inductive subtree (n : wtree) : wtree -> Prop :=
| sub_here : subtree n n
| sub_kid i ch c : In c ch -> subtree n c -> subtree n (Node i ch).

Definition within (small large : rect) : Prop := forall p, cell_in small p -> cell_in large p.

Fixpoint log_kids (r : rect) (l : list wtree) : list (Z * rect) :=
  match l with
  | [] => []
  | c :: rest =>
    let ci := t_info c in
    if negb (w_vis ci) then log_kids r rest else
    match r_intersect r (w_rect ci) with
    | Some ex => expose_log c (r_translate ex (- top (w_rect ci)) (- left (w_rect ci))) ++ log_kids r rest
    | None => log_kids r rest
    end
  end.

Lemma expose_log_unfold i ch r : expose_log (Node i ch) r = log_kids r ch ++ [(w_id i, r)].
Proof.
  cbn [expose_log]. f_equal.
  induction ch as [|c rest IH]; [reflexivity|]. cbn [log_kids].
  destruct (negb (w_vis (t_info c))); [exact IH|].
  destruct (r_intersect r (w_rect (t_info c))); [rewrite IH; reflexivity|exact IH].
Qed.

(* an entry of the log is fine for tree t: it names a window of t and lies within it *)
Definition entry_ok (t : wtree) (e : Z * rect) : Prop :=
  exists n, subtree n t /\ t_id n = fst e /\ nonempty (snd e) /\ within (snd e) (selfrect (t_info n)).

Lemma entry_ok_kid i ch c e : In c ch -> entry_ok c e -> entry_ok (Node i ch) e.
Proof. intros Hin (n & Hs & H). exists n. split; [eapply sub_kid; eassumption|exact H]. Qed.

Theorem expose_log_in_bounds : forall t r,
  nonempty r -> within r (selfrect (t_info t)) -> Forall (entry_ok t) (expose_log t r).
Proof.
  apply (wtree_ind2 (fun t => forall r, nonempty r -> within r (selfrect (t_info t)) ->
                                         Forall (entry_ok t) (expose_log t r))).
  intros i ch Hch r Hne Hw. rewrite expose_log_unfold. apply Forall_app. split.
  - assert (H : forall l, incl l ch -> Forall (fun c => forall r, nonempty r -> within r (selfrect (t_info c)) ->
                                                     Forall (entry_ok c) (expose_log c r)) l ->
                Forall (entry_ok (Node i ch)) (log_kids r l)).
    { induction l as [|c rest IH]; intros Hincl Hall; [constructor|].
      inversion Hall as [|? ? Hc Hrest]; subst. cbn [log_kids].
      assert (Hin : In c ch) by (apply Hincl; left; reflexivity).
      assert (Hincl' : incl rest ch) by (intros x Hx; apply Hincl; right; exact Hx).
      destruct (negb (w_vis (t_info c))); [apply IH; assumption|].
      destruct (r_intersect r (w_rect (t_info c))) as [ex|] eqn:Hex; [|apply IH; assumption].
      apply Forall_app. split; [|apply IH; assumption].
      apply intersect_some in Hex. destruct Hex as [Hne' Hex].
      eapply Forall_impl; [intros e He; apply (entry_ok_kid i ch c e Hin He)|].
      apply Hc.
      - unfold nonempty, r_translate in *; cbn [lines cols]. exact Hne'.
      - intros p Hp. assert (Hq : cell_in ex (fst p + top (w_rect (t_info c)), snd p + left (w_rect (t_info c)))).
        { unfold cell_in, r_translate, bottom, right in *; cbn [top left lines cols fst snd] in *. lia. }
        apply Hex in Hq. destruct Hq as [_ Hq].
        unfold cell_in, selfrect, bottom, right in *; cbn [top left lines cols fst snd] in *. lia. }
    apply H; [apply incl_refl|exact Hch].
  - constructor; [|constructor]. exists (Node i ch). split; [constructor|]. cbn [fst snd t_id t_info]. tauto.
Qed.

(* the root's own entry is in the log *)
Lemma expose_log_root t r : In (t_id t, r) (expose_log t r).
Proof. destruct t as [i ch]. rewrite expose_log_unfold. apply in_or_app. right. left. reflexivity. Qed.

(* ------------------------------------------------------------------------------------ *)
(* the buffer between two damage rectangles                                              *)

Definition flush_state (L C : Z) (b : rbuf) : Prop :=
  rb_lines b = L /\ rb_cols b = C /\ rb_clip b = rb_clip (rb_new L C) /\
  rb_xl b = 0 /\ rb_xc b = 0 /\ rb_depth b = 0 /\ rb_stack b = [] /\ forall q, rb_mask b q = None.

Lemma flush_state_new L C : flush_state L C (rb_new L C).
Proof. unfold flush_state, rb_new; cbn. tauto. Qed.

Definition rb_full (L C : Z) (q : cell) : bool :=
  (0 <? L) && (0 <? C) && (0 <=? fst q) && (fst q <? L) && (0 <=? snd q) && (snd q <? C).

Lemma new_in_clip L C b q : flush_state L C b -> in_clip b q = rb_full L C q.
Proof.
  intros (_ & _ & Hk & _). unfold in_clip, rb_full. rewrite Hk. unfold rb_new; cbn [rb_clip].
  destruct ((0 <? L) && (0 <? C)) eqn:E; cbn [andb].
  - unfold cell_inb, bottom, right; cbn [top left lines cols]. rewrite !Z.add_0_l. reflexivity.
  - reflexivity.
Qed.

(* the frame a damage rectangle is exposed in *)
Definition rect_frame (b : rbuf) (r : rect) : rbuf := rb_clip_to (rb_save b) r.

Lemma rect_frame_pre L C b r :
  flush_state L C b ->
  pre (rect_frame b r) r /\
  (forall q, rb_drawable (rect_frame b r) q = rb_full L C q && cell_inb r q) /\
  (forall q, rel (rect_frame b r) q = q) /\
  rb_cells (rect_frame b r) = rb_cells b.
Proof.
  intros Hfs. pose proof Hfs as (Hl & Hc & Hk & Hxl & Hxc & Hd & Hs & Hm).
  assert (Hic : forall q, in_clip (rect_frame b r) q = rb_full L C q && cell_inb r q).
  { intros q. rewrite <- (new_in_clip L C b q Hfs).
    unfold in_clip, rect_frame, rb_clip_to, rb_save; cbn [rb_clip rb_xl rb_xc].
    rewrite Hxl, Hxc. destruct (rb_clip b) as [k|]; [|reflexivity].
    assert (Et : r_translate r 0 0 = r) by (destruct r; unfold r_translate; cbn; f_equal; lia).
    rewrite Et. destruct (r_intersect k r) as [k'|] eqn:E.
    - apply intersect_some in E. destruct E as [_ E].
      apply eq_true_iff_eq. rewrite andb_true_iff, !cell_inb_iff. apply E.
    - pose proof (intersect_none _ _ E q) as H.
      destruct (cell_inb k q) eqn:E1; [|reflexivity]. destruct (cell_inb r q) eqn:E2; [|reflexivity].
      exfalso. apply H. rewrite <- !cell_inb_iff. tauto. }
  assert (Hdr : forall q, rb_drawable (rect_frame b r) q = rb_full L C q && cell_inb r q).
  { intros q. rewrite drawable_spec, Hic. unfold rect_frame, rb_clip_to, rb_save; cbn [rb_mask].
    rewrite Hm. apply andb_true_r. }
  assert (Hrel : forall q, rel (rect_frame b r) q = q).
  { intros [y x]. unfold rel, rect_frame, rb_clip_to, rb_save; cbn [rb_xl rb_xc fst snd].
    rewrite Hxl, Hxc. f_equal; lia. }
  split; [|split; [exact Hdr|split; [exact Hrel|reflexivity]]].
  split; [|split].
  - intros q k Hq. unfold rect_frame, rb_clip_to, rb_save in Hq; cbn [rb_mask] in Hq. rewrite Hm in Hq. discriminate.
  - intros q Hq. rewrite Hic in Hq. apply andb_true_iff in Hq. destruct Hq as [Hq _].
    unfold rb_inb, rect_frame, rb_clip_to, rb_save; cbn [rb_lines rb_cols]. rewrite Hl, Hc.
    unfold rb_full in Hq. lia.
  - intros q Hq. rewrite Hrel. rewrite Hdr in Hq. apply andb_true_iff in Hq. apply cell_inb_iff. tauto.
Qed.

(* after the restore the buffer is between rectangles again *)
Lemma rect_restore L C b r b2 :
  flush_state L C b -> same_frame (rect_frame b r) b2 -> mask_grows (rect_frame b r) b2 ->
  flush_state L C (rb_restore b2) /\ rb_cells (rb_restore b2) = rb_cells b2.
Proof.
  intros (Hl & Hc & Hk & Hxl & Hxc & Hd & Hs & Hm) (Fl & Fc & Fk & Fxl & Fxc & Fd & Fs) Hg.
  unfold rect_frame, rb_clip_to, rb_save in *; cbn [rb_lines rb_cols rb_clip rb_xl rb_xc rb_depth rb_stack rb_mask] in *.
  unfold rb_restore. rewrite Fs. cbn.
  split; [|reflexivity]. unfold flush_state; cbn.
  do 7 (split; [first [exact Hk | congruence | lia | (rewrite Fd, Hd; lia)]|]).
  intros q. rewrite Fd, Hd. cbn.
  destruct (Hg q) as [E|[_ E]]; cbn [rb_mask rb_depth] in E.
  - rewrite E, Hm. reflexivity.
  - rewrite E, Hd. reflexivity.
Qed.

(* ------------------------------------------------------------------------------------ *)
(* C02: arbitrary drawing handlers                                                       *)

Section flush_confined.
  Variable hnd : handler.
  Hypothesis Hhnd : hnd_ok hnd.
  Variable tree : wtree.

  Lemma flush_rb_confined L C rects :
    forall b, flush_state L C b ->
      let b' := flush_rb hnd tree rects b in
      flush_state L C b' /\
      forall q, rb_cells b' q = rb_cells b q \/
                (rb_full L C q = true /\ (exists R, In R rects /\ cell_in R q) /\
                 stamped (Some (owner_rel tree q)) (rb_cells b' q)).
  Proof.
    induction rects as [|R rest IH]; intros b Hfs; cbn [flush_rb fold_left].
    - split; [exact Hfs|]. intros q; left; reflexivity.
    - destruct (rect_frame_pre L C b R Hfs) as (Hpre & Hdr & Hrel & Hcells).
      destruct (do_expose_confined_at hnd Hhnd tree R (rect_frame b R) Hpre) as (Hf & Hg & Hc).
      fold (rect_frame b R).
      destruct (rect_restore L C b R _ Hfs Hf Hg) as (Hfs' & Hc').
      destruct (IH _ Hfs') as (Hfs'' & Hc'').
      split; [exact Hfs''|]. intros q.
      destruct (Hc'' q) as [E|(Hfull & (R' & HinR & HR') & Hst)].
      + fold (flush_rb hnd tree rest) in E. unfold flush_rb in E |- *. rewrite E, Hc'.
        destruct (Hc q) as [E2|[Hd Hst]].
        * left. rewrite E2, Hcells. reflexivity.
        * right. rewrite Hdr in Hd. apply andb_true_iff in Hd. destruct Hd as [Hfull HinR].
          rewrite Hrel in Hst.
          split; [exact Hfull|]. split; [|exact Hst].
          exists R. split; [left; reflexivity|apply cell_inb_iff; exact HinR].
      + right. split; [exact Hfull|]. split; [|exact Hst].
        exists R'. split; [right; exact HinR|exact HR'].
  Qed.
End flush_confined.

(* ------------------------------------------------------------------------------------ *)
(* C01: handlers that repaint what they are asked                                        *)

Section flush_paints.
  Variable app : Z -> Z -> Z -> Z.
  Variable tree : wtree.

  Lemma flush_rb_paints L C rects :
    forall b, flush_state L C b ->
      let b' := flush_rb (paint_handler app) tree rects b in
      flush_state L C b' /\
      forall q, rb_cells b' q =
                if rb_full L C q && in_any rects q then paint_val app (owner_rel tree q) else rb_cells b q.
  Proof.
    induction rects as [|R rest IH]; intros b Hfs; cbn [flush_rb fold_left].
    - split; [exact Hfs|]. intros q. unfold in_any; cbn [existsb]. rewrite andb_false_r. reflexivity.
    - destruct (rect_frame_pre L C b R Hfs) as (Hpre & Hdr & Hrel & Hcells).
      destruct (do_expose_paints_at app tree R (rect_frame b R) Hpre) as (Hf & Hg & Hc).
      fold (rect_frame b R).
      destruct (rect_restore L C b R _ Hfs Hf Hg) as (Hfs' & Hc').
      destruct (IH _ Hfs') as (Hfs'' & Hc'').
      split; [exact Hfs''|]. intros q.
      unfold flush_rb in Hc'' |- *. rewrite Hc'', Hc', Hc, Hdr, Hrel, Hcells.
      unfold in_any; cbn [existsb]. fold (in_any rest q).
      destruct (rb_full L C q); cbn [andb]; [|reflexivity].
      destruct (in_any rest q); [rewrite orb_true_r; reflexivity|]. rewrite orb_false_r.
      destruct (cell_inb R q); reflexivity.
  Qed.
End flush_paints.

(* ------------------------------------------------------------------------------------ *)
(* win_flush                                                                             *)

(* the root state once the queued restacks have been applied *)
Definition after_queue (st : root) : root :=
  let st1 := set_flags st (r_nexp st) (r_nrest st) false in
  fold_left (fun s e => match e with (k, p, w) => do_hchange s k p w end) (r_queue st1) (set_queue st1 []).

(* the render buffer the flush hands to the terminal *)
Definition flush_buffer (cfg : defects) (hnd : handler) (st2 : root) : rbuf :=
  let rs := root_selfrect st2 in
  flush_rb hnd (r_tree st2) (flush_rects cfg st2) (rb_new (lines rs) (cols rs)).

Lemma do_restore_grid tree tm : t_grid (do_restore tree tm) = t_grid tm.
Proof.
  unfold do_restore. destruct (rev (focus_walk tree)) as [|w up]; [reflexivity|].
  destruct (w_focused (t_info w) && w_cvis (t_info w) && cell_visible (w :: up) None (w_cline (t_info w)) (w_ccol (t_info w)));
    reflexivity.
Qed.

(* what win_flush does, in terms of the two definitions above *)
Lemma win_flush_unfold cfg hnd st tm :
  r_later st = true ->
  let st2 := after_queue st in
  win_flush cfg hnd st tm =
  if r_nexp st2 then
    (set_flags (set_flags (set_damage st2 []) false true (r_later st2)) false false (r_later st2),
     do_restore (r_tree st2) (term_flush_rb (term_set_cvis tm false) (flush_buffer cfg hnd st2)),
     flush_log (r_tree st2) (flush_rects cfg st2))
  else if r_nrest st2 then
    (set_flags st2 (r_nexp st2) false (r_later st2), do_restore (r_tree st2) tm, [])
  else (st2, tm, []).
Proof.
  intros Hl. unfold win_flush. rewrite Hl. cbn [negb]. fold (after_queue st). cbn zeta.
  destruct (r_nexp (after_queue st)) eqn:E; [reflexivity|].
  destruct (r_nrest (after_queue st)) eqn:E2; rewrite ?E; reflexivity.
Qed.

Lemma flush_rects_ok cfg st :
  d_flush_noclip cfg = false ->
  Forall (fun R => nonempty R /\ within R (root_selfrect st)) (flush_rects cfg st).
Proof.
  intros Hc. unfold flush_rects. rewrite Hc. induction (r_damage st) as [|x rest IH]; cbn [flat_map]; [constructor|].
  destruct (r_intersect x (root_selfrect st)) as [k|] eqn:E; cbn [app]; [|exact IH].
  constructor; [|exact IH]. apply intersect_some in E. destruct E as [Hne E].
  split; [exact Hne|]. intros p Hp. apply E in Hp. tauto.
Qed.

Lemma flush_log_in_bounds tree rects :
  Forall (fun R => nonempty R /\ within R (selfrect (t_info tree))) rects ->
  Forall (entry_ok tree) (flush_log tree rects).
Proof.
  unfold flush_log. induction 1 as [|R rest [Hne Hw] _ IH]; cbn [flat_map]; [constructor|].
  apply Forall_app. split; [apply expose_log_in_bounds; assumption|exact IH].
Qed.

Lemma flush_log_root tree rects R : In R rects -> In (t_id tree, R) (flush_log tree rects).
Proof.
  unfold flush_log. intros Hin. apply in_flat_map. exists R. split; [exact Hin|apply expose_log_root].
Qed.

(* C02, second half: every rectangle handed to a handler during a flush lies within the
   handler's window and is non-empty *)
Theorem flush_rects_in_bounds cfg hnd st tm st' tm' lg :
  d_flush_noclip cfg = false ->
  win_flush cfg hnd st tm = (st', tm', lg) ->
  Forall (entry_ok (r_tree st')) lg.
Proof.
  intros Hcfg Hfl. destruct (r_later st) eqn:Hl.
  2:{ unfold win_flush in Hfl. rewrite Hl in Hfl. cbn [negb] in Hfl. injection Hfl as <- <- <-. constructor. }
  rewrite (win_flush_unfold cfg hnd st tm Hl) in Hfl. cbn zeta in Hfl.
  destruct (r_nexp (after_queue st)).
  - injection Hfl as <- <- <-. cbn [r_tree set_flags set_damage].
    apply flush_log_in_bounds. apply flush_rects_ok. exact Hcfg.
  - destruct (r_nrest (after_queue st)); injection Hfl as <- <- <-; constructor.
Qed.

(* C02, first half: whatever the handlers draw, a terminal cell that a flush changes lies in
   a rectangle of the damage handed to the root, and its new content was drawn by the window
   that owns the cell in the composition, at the cell's position relative to that window *)
Theorem flush_confined cfg hnd st tm st' tm' lg :
  hnd_ok hnd ->
  win_flush cfg hnd st tm = (st', tm', lg) ->
  forall q, t_grid tm' q <> t_grid tm q ->
    exists R c w pw,
      In (t_id (r_tree st'), R) lg /\ cell_in R q /\
      cell_inb (root_selfrect st') q = true /\
      rb_cells (flush_buffer cfg hnd (after_queue st)) q = Some (c, w, pw) /\
      t_grid tm' q = c /\
      owner_rel (r_tree st') q = (w, pw).
Proof.
  intros Hh Hfl q Hq. destruct (r_later st) eqn:Hl.
  2:{ unfold win_flush in Hfl. rewrite Hl in Hfl. cbn [negb] in Hfl. injection Hfl as <- <- <-. congruence. }
  rewrite (win_flush_unfold cfg hnd st tm Hl) in Hfl. cbn zeta in Hfl.
  destruct (r_nexp (after_queue st)).
  2:{ destruct (r_nrest (after_queue st)); injection Hfl as <- <- <-.
      - rewrite do_restore_grid in Hq. congruence.
      - congruence. }
  injection Hfl as <- <- <-. cbn [r_tree set_flags set_damage].
  rewrite do_restore_grid in Hq |- *. unfold term_flush_rb, term_set_grid, term_set_cvis in Hq |- *; cbn [t_grid] in Hq |- *.
  set (st2 := after_queue st) in *.
  pose (L := lines (root_selfrect st2)). pose (C := cols (root_selfrect st2)).
  destruct (flush_rb_confined hnd Hh (r_tree st2) L C (flush_rects cfg st2) _ (flush_state_new L C)) as (_ & Hc).
  change (flush_rb hnd (r_tree st2) (flush_rects cfg st2) (rb_new L C)) with (flush_buffer cfg hnd st2) in Hc.
  specialize (Hc q).
  destruct Hc as [E|(Hfull & (R & HinR & HR) & Hst)].
  - rewrite E in Hq. unfold rb_new in Hq; cbn [rb_cells] in Hq. congruence.
  - destruct Hst as [Hn|(c & w & pw & Hv & Ho)]; [rewrite Hn in Hq; congruence|].
    exists R, c, w, pw. rewrite Hv. injection Ho as Ho.
    split; [apply flush_log_root; exact HinR|]. split; [exact HR|]. split; [|tauto].
    unfold root_selfrect, set_flags, set_damage; cbn [r_tree]. fold (root_selfrect st2).
    unfold rb_full in Hfull. unfold cell_inb, root_selfrect, selfrect, bottom, right; cbn [top left lines cols].
    subst L C. unfold root_selfrect, selfrect in Hfull; cbn [lines cols] in Hfull. lia.
Qed.

(* C01: with handlers that repaint what they are asked, after the flush every screen cell
   inside the damage shows the composition and every other cell is unchanged *)
Theorem flush_paints cfg app progs st tm st' tm' lg :
  (forall id, progs id = [DPaint]) ->
  win_flush cfg (prog_handler app progs) st tm = (st', tm', lg) ->
  r_later st = true -> r_nexp (after_queue st) = true ->
  forall q,
    t_grid tm' q =
    if cell_inb (root_selfrect st') q && in_any (flush_rects cfg (after_queue st)) q
    then (let '(w, pw) := owner_rel (r_tree st') q in app w (fst pw) (snd pw))
    else t_grid tm q.
Proof.
  intros Hprogs Hfl Hl Hne q.
  revert Hfl. rewrite (win_flush_unfold cfg _ st tm Hl). cbn zeta. rewrite Hne.
  intros Hfl. injection Hfl as <- <- <-. cbn [r_tree set_flags set_damage].
  rewrite do_restore_grid. unfold term_flush_rb, term_set_grid, term_set_cvis; cbn [t_grid].
  set (st2 := after_queue st) in *.
  pose (L := lines (root_selfrect st2)). pose (C := cols (root_selfrect st2)).
  assert (Hfb : forall q, rb_cells (flush_buffer cfg (prog_handler app progs) st2) q =
                          rb_cells (flush_buffer cfg (paint_handler app) st2) q).
  { intros q'. unfold flush_buffer, flush_rb.
    assert (He : forall rects b, fold_left (fun b r => rb_restore (do_expose (prog_handler app progs) (r_tree st2) r (rb_clip_to (rb_save b) r))) rects b =
                                 fold_left (fun b r => rb_restore (do_expose (paint_handler app) (r_tree st2) r (rb_clip_to (rb_save b) r))) rects b).
    { assert (Hd : forall t r b, do_expose (prog_handler app progs) t r b = do_expose (paint_handler app) t r b).
      { apply (wtree_ind2 (fun t => forall r b, do_expose (prog_handler app progs) t r b = do_expose (paint_handler app) t r b)).
        intros i ch Hch r b. rewrite !do_expose_unfold.
        assert (Hk : forall l, Forall (fun t => forall r b, do_expose (prog_handler app progs) t r b = do_expose (paint_handler app) t r b) l ->
                      forall b, expose_kids (prog_handler app progs) r l b = expose_kids (paint_handler app) r l b).
        { induction 1 as [|c rest Hc _ IH]; intros b0; [reflexivity|]. cbn [expose_kids].
          destruct (negb (w_vis (t_info c))); [apply IH|].
          destruct (r_intersect r (w_rect (t_info c))); [rewrite Hc|]; apply IH. }
        rewrite (Hk ch Hch). unfold prog_handler, paint_handler, prog_handler. rewrite Hprogs. reflexivity. }
      induction rects as [|R rest IH]; intros b; [reflexivity|]. cbn [fold_left]. rewrite Hd. apply IH. }
    rewrite He. reflexivity. }
  rewrite Hfb.
  destruct (flush_rb_paints app (r_tree st2) L C (flush_rects cfg st2) _ (flush_state_new L C)) as (_ & Hc).
  change (flush_rb (paint_handler app) (r_tree st2) (flush_rects cfg st2) (rb_new L C)) with (flush_buffer cfg (paint_handler app) st2) in Hc.
  rewrite (Hc q).
  assert (Efull : rb_full L C q = cell_inb (root_selfrect st2) q).
  { unfold rb_full, cell_inb, root_selfrect, selfrect, bottom, right; cbn [top left lines cols].
    subst L C. unfold root_selfrect, selfrect; cbn [lines cols]. apply eq_true_iff_eq. lia. }
  rewrite Efull.
  change (root_selfrect (set_flags (set_flags (set_damage st2 []) false true (r_later st2)) false false (r_later st2)))
    with (root_selfrect st2).
  destruct (cell_inb (root_selfrect st2) q && in_any (flush_rects cfg st2) q).
  - unfold paint_val. destruct (owner_rel (r_tree st2) q) as [w pw]. reflexivity.
  - unfold rb_new; cbn [rb_cells]. reflexivity.
Qed.

Lemma do_restore_size tree tm :
  t_lines (do_restore tree tm) = t_lines tm /\ t_cols (do_restore tree tm) = t_cols tm.
Proof.
  unfold do_restore. destruct (rev (focus_walk tree)) as [|w up]; [split; reflexivity|].
  destruct (w_focused (t_info w) && w_cvis (t_info w) && cell_visible (w :: up) None (w_cline (t_info w)) (w_ccol (t_info w)));
    split; reflexivity.
Qed.
