(* LoopPipeDefs.v -- executable model of the self-pipe fallback of /repo/src/tickit.c, which
   handles signals for every event loop that has no ->signal hook (custom loops through
   tickit-evloop.h): watch_signal / unwatch_signal, sighandler (record the signal in
   signal.pending, write one wakeup byte), on_sigpipe_readable (read ONE wakeup byte, take and
   clear the pending set, invoke the watchers), driven by a minimal poll loop: poll, then
   tickit_evloop_invoke_timers (here: the deferred callbacks), then the ready IO watches.
   Signals are not blocked on this path: the handler runs the moment the signal is raised --
   before an iteration, from a deferred callback, from inside a signal callback while
   on_sigpipe_readable is dispatching, or between the wakeup read and the snapshot ([between]).
   The pipe is a byte counter.  [drain_late] = true is the seeded variant: no read before the
   snapshot, up to 32 bytes drained after the dispatch.
   The walk over t->signals keeps its cursor in the instance
   (fixes/C18-sigwatch-self-cancel-sigpipe.patch); loops with no visible bound take fuel. *)
From Coq Require Import ZArith List Bool.
From Tickit Require Import LoopDefs LoopSigDefs.
Import ListNotations.
Local Open Scope Z_scope.

Inductive fop :=
| FAct (a : saction)
| FTick
| FBetween (sig : Z).     (* sig arrives right after the next read of the wakeup byte *)

Record fst := mkFst {
  f_sgws : list sgw; f_dl : list ltr; f_dr : list ltr;
  f_pend : list Z;          (* Tickit.signal.pending *)
  f_pipe : nat;             (* unread wakeup bytes *)
  f_between : list Z;
  f_cursor : option Z;
  f_next : Z; f_iter : Z; f_log : list obs }.

Definition fst0 : fst := mkFst [] [] [] [] O [] None 0 0 [].

Definition fu_sgws (s : fst) v := mkFst v (f_dl s) (f_dr s) (f_pend s) (f_pipe s) (f_between s) (f_cursor s) (f_next s) (f_iter s) (f_log s).
Definition fu_dl (s : fst) v := mkFst (f_sgws s) v (f_dr s) (f_pend s) (f_pipe s) (f_between s) (f_cursor s) (f_next s) (f_iter s) (f_log s).
Definition fu_dr (s : fst) v := mkFst (f_sgws s) (f_dl s) v (f_pend s) (f_pipe s) (f_between s) (f_cursor s) (f_next s) (f_iter s) (f_log s).
Definition fu_pend (s : fst) v := mkFst (f_sgws s) (f_dl s) (f_dr s) v (f_pipe s) (f_between s) (f_cursor s) (f_next s) (f_iter s) (f_log s).
Definition fu_pipe (s : fst) v := mkFst (f_sgws s) (f_dl s) (f_dr s) (f_pend s) v (f_between s) (f_cursor s) (f_next s) (f_iter s) (f_log s).
Definition fu_between (s : fst) v := mkFst (f_sgws s) (f_dl s) (f_dr s) (f_pend s) (f_pipe s) v (f_cursor s) (f_next s) (f_iter s) (f_log s).
Definition fu_cursor (s : fst) v := mkFst (f_sgws s) (f_dl s) (f_dr s) (f_pend s) (f_pipe s) (f_between s) v (f_next s) (f_iter s) (f_log s).
Definition fu_next (s : fst) v := mkFst (f_sgws s) (f_dl s) (f_dr s) (f_pend s) (f_pipe s) (f_between s) (f_cursor s) v (f_iter s) (f_log s).
Definition fu_iter (s : fst) v := mkFst (f_sgws s) (f_dl s) (f_dr s) (f_pend s) (f_pipe s) (f_between s) (f_cursor s) (f_next s) v (f_log s).
Definition fu_log (s : fst) v := mkFst (f_sgws s) (f_dl s) (f_dr s) (f_pend s) (f_pipe s) (f_between s) (f_cursor s) (f_next s) (f_iter s) v.

Definition femit (s : fst) (id : Z) (k : kind) (flags x : Z) : fst :=
  fu_log s (OEv (mkE id k flags (f_iter s) 0 x) :: f_log s).

Definition f_watched (s : fst) (sig : Z) : bool := existsb (fun w => g_sig w =? sig) (f_sgws s).

(* sighandler: sigaddset(&pending, signum); write(pipefds[1], "\0", 1) *)
Definition f_arrive (s : fst) (sig : Z) : fst :=
  if f_watched s sig then fu_pipe (fu_pend s (addz sig (f_pend s))) (S (f_pipe s)) else s.

Section WithEnv.
Variable drain_late : bool.
Variable env : Z -> list saction.

Definition f_cancel (s : fst) (id : Z) : fst :=
  match find_sgw id (f_sgws s) with
  | Some w =>
      let nxt := sgw_after id (f_sgws s) in
      let s1 := fu_sgws s (remove_sgw id (f_sgws s)) in
      let s2 := match f_cursor s1 with
                | Some cu => if cu =? id then fu_cursor s1 nxt else s1
                | None => s1
                end in
      if g_unbind w then femit s2 id KSig EV_UNBIND (g_sig w) else s2
  | None =>
  match find_ltr id (f_dl s) with
  | Some w =>
      let s1 := fu_dl s (remove_ltr id (f_dl s)) in
      if l_unbind w then femit s1 id KLater EV_UNBIND 0 else s1
  | None =>
  match find_ltr id (f_dr s) with
  | Some w =>
      let s1 := fu_dr s (remove_ltr id (f_dr s)) in
      if l_unbind w then femit s1 id KLater EV_UNBIND 0 else s1
  | None => s
  end end end.

Definition f_action (s : fst) (a : saction) : fst :=
  match a with
  | SLater ub cb => fu_next (fu_dl s (f_dl s ++ [mkLt (f_next s) ub cb])) (f_next s + 1)
  | SSig sig ub cb => fu_next (fu_sgws s (f_sgws s ++ [mkSg (f_next s) sig ub cb])) (f_next s + 1)
  | SCancel id => f_cancel s id
  | SRaise sig => f_arrive s sig
  | SIo _ _ _ _ => s       (* not part of the fallback scripts *)
  | SErrno _ => s
  | SNop => s
  | SStop => s             (* not part of the fallback scripts *)
  end.

Definition f_actions (s : fst) (l : list saction) : fst := fold_left f_action l s.

Fixpoint f_drun_loop (n : nat) (s : fst) : fst :=
  match n with
  | O => s
  | S n' =>
      match f_dr s with
      | [] => s
      | w :: r =>
          let s1 := femit (fu_dr s r) (l_id w) KLater (EV_FIRE + EV_UNBIND) 0 in
          f_drun_loop n' (f_actions s1 (env (l_cb w)))
      end
  end.

Definition f_invoke_laters (s : fst) : fst :=
  let s1 := fu_dl (fu_dr s (f_dr s ++ f_dl s)) [] in
  f_drun_loop (length (f_dr s1)) s1.

(* seq = ++t->sigwalk_seq;
   for(this = t->signals; this; this = t->next_sigwatch) { t->next_sigwatch = this->next;
     if(sigismember(&pending, this->signum) && this->born < seq) call }
   [bound]: the registration counter when the walk began (a watch with a number >= bound was
   registered during the walk, fixes/C18-sigwatch-walk-snapshot.patch) *)
Fixpoint f_walk (fuel : nat) (bound : Z) (this : option Z) (snap : list Z) (s : fst) : option fst :=
  match fuel with
  | O => None
  | S f =>
      match this with
      | None => Some s
      | Some id =>
          match find_sgw id (f_sgws s) with
          | None => None
          | Some w =>
              let s1 := fu_cursor s (sgw_after id (f_sgws s)) in
              let s2 := if memz (g_sig w) snap && (g_id w <? bound)
                        then f_actions (femit s1 id KSig EV_FIRE (g_sig w)) (env (g_cb w))
                        else s1 in
              f_walk f bound (f_cursor s2) snap s2
          end
      end
  end.

Definition f_arrivals (s : fst) : fst := fu_between (fold_left f_arrive (f_between s) s) [].

(* on_sigpipe_readable *)
Definition f_sigpipe (fuel : nat) (s : fst) : option fst :=
  if drain_late then
    let snap := f_pend s in
    let s1 := fu_pend s [] in
    match f_walk fuel (f_next s1) (match f_sgws s1 with [] => None | h :: _ => Some (g_id h) end) snap s1 with
    | None => None
    | Some s2 => Some (f_arrivals (fu_pipe s2 (f_pipe s2 - Nat.min 32 (f_pipe s2))%nat))
    end
  else
    let s0 := f_arrivals (fu_pipe s (f_pipe s - 1)%nat) in
    let snap := f_pend s0 in
    let s1 := fu_pend s0 [] in
    f_walk fuel (f_next s1) (match f_sgws s1 with [] => None | h :: _ => Some (g_id h) end) snap s1.

(* one pass of the poll loop: poll (is the self-pipe readable?), deferred callbacks, then the
   ready IO watch *)
Definition f_tick (fuel : nat) (s : fst) : option fst :=
  let s0 := fu_iter s (f_iter s + 1) in
  let s1 := fu_log s0 (OPoll 0 :: f_log s0) in
  let readable := Nat.ltb 0 (f_pipe s1) in
  let s2 := f_invoke_laters s1 in
  if readable then f_sigpipe fuel s2 else Some s2.

Definition f_destroy (s : fst) : fst :=
  let s0 := fu_iter s (-1) in
  let s1 := fold_left (fun s w => if l_unbind w then femit s (l_id w) KLater (EV_UNBIND + EV_DESTROY) 0 else s) (f_dl s0) s0 in
  fold_left (fun s w => if g_unbind w then femit s (g_id w) KSig (EV_UNBIND + EV_DESTROY) (g_sig w) else s) (f_sgws s0) s1.

Definition f_op (fuel : nat) (os : option fst) (o : fop) : option fst :=
  match os with
  | None => None
  | Some s =>
      match o with
      | FAct a => Some (f_action s a)
      | FTick => f_tick fuel s
      | FBetween sg => Some (fu_between s (f_between s ++ [sg]))
      end
  end.

Definition f_run_ops (fuel : nat) (ops : list fop) : option fst := fold_left (f_op fuel) ops (Some fst0).

Definition f_run (fuel : nat) (ops : list fop) : option (list obs) :=
  match f_run_ops fuel ops with
  | Some s => Some (rev (f_log (f_destroy s)))
  | None => None
  end.

End WithEnv.
