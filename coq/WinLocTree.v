(* WinLocTree.v -- part C of the locality argument for property C01: window trees with
   unique ids.  The search functions of WinDefs.v (t_find, t_path) and the two tree editors
   (t_update, t_upd_kids) along the unique path to a window; the relation [kids_changed]
   ("t' is t with the child list of window pid replaced"); and the locality theorem
   kc_local: owner_rel changes only at cells whose descent reaches pid at a position where
   the old and the new child list have different first owners. *)
From Coq Require Import ZArith List Bool Lia ZifyBool.
From Tickit Require Import RectDefs RectProofs WinRectSet WinDefs WinSpec WinExposeProofs
  WinFlushProofs WinLogDisjoint WinLocA.
Import ListNotations.
Local Open Scope Z_scope.

(* ------------------------------------------------------------------------------------ *)
(* lists of ids                                                                          *)

Lemma t_id_in t : In (t_id t) (t_ids t).
Proof. destruct t as [i ch]. left. reflexivity. Qed.

Lemma in_kid_ids c ch x : In c ch -> In x (t_ids c) -> In x (flat_map t_ids ch).
Proof. intros Hc Hx. apply in_flat_map. exists c. split; assumption. Qed.

Lemma nodup_node i ch :
  NoDup (t_ids (Node i ch)) -> ~ In (w_id i) (flat_map t_ids ch) /\ NoDup (flat_map t_ids ch).
Proof. cbn [t_ids]. intros H. inversion H; subst. split; assumption. Qed.

Lemma fm_split (l1 : list wtree) c l2 :
  flat_map t_ids (l1 ++ c :: l2) = flat_map t_ids l1 ++ t_ids c ++ flat_map t_ids l2.
Proof. rewrite flat_map_app. reflexivity. Qed.

Lemma nodup_split l1 c l2 :
  NoDup (flat_map t_ids (l1 ++ c :: l2)) ->
  NoDup (flat_map t_ids l1) /\ NoDup (t_ids c) /\ NoDup (flat_map t_ids l2) /\
  (forall x, In x (t_ids c) -> ~ In x (flat_map t_ids l1) /\ ~ In x (flat_map t_ids l2)) /\
  (forall x, In x (flat_map t_ids l1) -> ~ In x (flat_map t_ids l2)).
Proof.
  rewrite fm_split. intros H.
  apply nodup_app_inv in H. destruct H as (H1 & H23 & Hx1).
  apply nodup_app_inv in H23. destruct H23 as (H2 & H3 & Hx2).
  split; [exact H1|]. split; [exact H2|]. split; [exact H3|]. split.
  - intros x Hx. split.
    + intros Hl. apply (Hx1 x Hl). apply in_or_app. left; exact Hx.
    + intros Hl. exact (Hx2 x Hx Hl).
  - intros x Hl1 Hl2. apply (Hx1 x Hl1). apply in_or_app. right; exact Hl2.
Qed.

Lemma nodup_kid ch c : NoDup (flat_map t_ids ch) -> In c ch -> NoDup (t_ids c).
Proof.
  intros Hnd Hin. apply in_split in Hin. destruct Hin as (l1 & l2 & ->).
  apply nodup_split in Hnd. tauto.
Qed.

(* two children sharing an id are the same child *)
Lemma kids_share ch a b x :
  NoDup (flat_map t_ids ch) -> In a ch -> In b ch -> In x (t_ids a) -> In x (t_ids b) -> a = b.
Proof.
  induction ch as [|c r IH]; intros Hnd Ha Hb Hxa Hxb; [contradiction|].
  cbn [flat_map] in Hnd. apply nodup_app_inv in Hnd. destruct Hnd as (_ & Hr & Hx).
  destruct Ha as [<-|Ha]; destruct Hb as [<-|Hb].
  - reflexivity.
  - exfalso. apply (Hx x Hxa). eapply in_kid_ids; eassumption.
  - exfalso. apply (Hx x Hxb). eapply in_kid_ids; eassumption.
  - apply IH; assumption.
Qed.

Lemma kids_same_id ch a b :
  NoDup (flat_map t_ids ch) -> In a ch -> In b ch -> t_id a = t_id b -> a = b.
Proof.
  intros Hnd Ha Hb E. apply (kids_share ch a b (t_id a) Hnd Ha Hb); [apply t_id_in|].
  rewrite E. apply t_id_in.
Qed.

Lemma map_id_on {A} (f : A -> A) l : (forall x, In x l -> f x = x) -> map f l = l.
Proof.
  induction l as [|a l IH]; intros H; [reflexivity|]. cbn [map].
  rewrite (H a (or_introl eq_refl)), IH; [reflexivity|].
  intros x Hx. apply H. right; exact Hx.
Qed.

(* ------------------------------------------------------------------------------------ *)
(* subtrees                                                                              *)

Lemma subtree_ids s t : subtree s t -> forall x, In x (t_ids s) -> In x (t_ids t).
Proof.
  induction 1 as [|i ch c Hin Hs IH]; intros x Hx; [exact Hx|].
  cbn [t_ids]. right. eapply in_kid_ids; [exact Hin|]. apply IH. exact Hx.
Qed.

Lemma subtree_nodup s t : subtree s t -> NoDup (t_ids t) -> NoDup (t_ids s).
Proof.
  induction 1 as [|i ch c Hin Hs IH]; intros Hnd; [exact Hnd|].
  apply nodup_node in Hnd. destruct Hnd as [_ Hnd]. apply IH. eapply nodup_kid; eassumption.
Qed.

Lemma subtree_trans a b c : subtree a b -> subtree b c -> subtree a c.
Proof.
  intros Hab Hbc. induction Hbc as [|i ch k Hin Hs IH]; [exact Hab|].
  eapply sub_kid; [exact Hin|exact IH].
Qed.

Lemma subtree_kid c t : In c (t_kids t) -> subtree c t.
Proof. destruct t as [i ch]. cbn [t_kids]. intros H. eapply sub_kid; [exact H|constructor]. Qed.

(* ------------------------------------------------------------------------------------ *)
(* the loops of t_find and t_path as top-level functions                                 *)

Definition find_go (id : Z) : list wtree -> option wtree :=
  fix go (l : list wtree) : option wtree :=
    match l with
    | [] => None
    | c :: r => match t_find id c with Some x => Some x | None => go r end
    end.

Lemma t_find_unfold id i ch :
  t_find id (Node i ch) = if w_id i =? id then Some (Node i ch) else find_go id ch.
Proof. reflexivity. Qed.

Lemma find_go_cons id c r :
  find_go id (c :: r) = match t_find id c with Some x => Some x | None => find_go id r end.
Proof. reflexivity. Qed.

Definition path_go (id : Z) : list wtree -> option (list wtree) :=
  fix go (l : list wtree) : option (list wtree) :=
    match l with
    | [] => None
    | c :: r => match t_path id c with Some p => Some p | None => go r end
    end.

Lemma t_path_unfold id i ch :
  t_path id (Node i ch) =
  if w_id i =? id then Some [Node i ch] else
  match path_go id ch with Some p => Some (Node i ch :: p) | None => None end.
Proof. reflexivity. Qed.

Lemma path_go_cons id c r :
  path_go id (c :: r) = match t_path id c with Some p => Some p | None => path_go id r end.
Proof. reflexivity. Qed.

(* ------------------------------------------------------------------------------------ *)
(* a window id that does not occur                                                       *)

Lemma t_find_notin id : forall t, ~ In id (t_ids t) -> t_find id t = None.
Proof.
  apply (wtree_ind2 (fun t => ~ In id (t_ids t) -> t_find id t = None)).
  intros i ch IH Hn. rewrite t_find_unfold. cbn [t_ids] in Hn.
  destruct (w_id i =? id) eqn:E; [exfalso; apply Hn; left; lia|].
  assert (Hn' : ~ In id (flat_map t_ids ch)) by (intros H; apply Hn; right; exact H).
  clear Hn E. induction IH as [|c r Hc _ IHr]; [reflexivity|].
  rewrite find_go_cons. cbn [flat_map] in Hn'.
  rewrite Hc by (intros H; apply Hn'; apply in_or_app; left; exact H).
  apply IHr. intros H; apply Hn'; apply in_or_app; right; exact H.
Qed.

Lemma t_path_notin id : forall t, ~ In id (t_ids t) -> t_path id t = None.
Proof.
  apply (wtree_ind2 (fun t => ~ In id (t_ids t) -> t_path id t = None)).
  intros i ch IH Hn. rewrite t_path_unfold. cbn [t_ids] in Hn.
  destruct (w_id i =? id) eqn:E; [exfalso; apply Hn; left; lia|].
  assert (Hn' : ~ In id (flat_map t_ids ch)) by (intros H; apply Hn; right; exact H).
  assert (Hg : path_go id ch = None).
  { clear Hn E. induction IH as [|c r Hc _ IHr]; [reflexivity|].
    rewrite path_go_cons. cbn [flat_map] in Hn'.
    rewrite Hc by (intros H; apply Hn'; apply in_or_app; left; exact H).
    apply IHr. intros H; apply Hn'; apply in_or_app; right; exact H. }
  rewrite Hg. reflexivity.
Qed.

Lemma path_go_notin id l : ~ In id (flat_map t_ids l) -> path_go id l = None.
Proof.
  induction l as [|c r IH]; intros Hn; [reflexivity|].
  rewrite path_go_cons. cbn [flat_map] in Hn.
  rewrite t_path_notin by (intros H; apply Hn; apply in_or_app; left; exact H).
  apply IH. intros H; apply Hn; apply in_or_app; right; exact H.
Qed.

Lemma path_go_skip id l1 l2 :
  ~ In id (flat_map t_ids l1) -> path_go id (l1 ++ l2) = path_go id l2.
Proof.
  induction l1 as [|c r IH]; intros Hn; [reflexivity|].
  cbn [app]. rewrite path_go_cons. cbn [flat_map] in Hn.
  rewrite t_path_notin by (intros H; apply Hn; apply in_or_app; left; exact H).
  apply IH. intros H; apply Hn; apply in_or_app; right; exact H.
Qed.

Lemma find_go_skip id l1 l2 :
  ~ In id (flat_map t_ids l1) -> find_go id (l1 ++ l2) = find_go id l2.
Proof.
  induction l1 as [|c r IH]; intros Hn; [reflexivity|].
  cbn [app]. rewrite find_go_cons. cbn [flat_map] in Hn.
  rewrite t_find_notin by (intros H; apply Hn; apply in_or_app; left; exact H).
  apply IH. intros H; apply Hn; apply in_or_app; right; exact H.
Qed.

Lemma update_notin f id : forall t, ~ In id (t_ids t) -> t_update f id t = t.
Proof.
  apply (wtree_ind2 (fun t => ~ In id (t_ids t) -> t_update f id t = t)).
  intros i ch IH Hn. cbn [t_update]. cbn [t_ids] in Hn.
  destruct (w_id i =? id) eqn:E; [exfalso; apply Hn; left; lia|].
  f_equal. apply map_id_on. intros c Hc. rewrite Forall_forall in IH. apply (IH c Hc).
  intros H. apply Hn. right. eapply in_kid_ids; eassumption.
Qed.

Lemma upd_kids_notin F id : forall t, ~ In id (t_ids t) -> t_upd_kids F id t = t.
Proof.
  apply (wtree_ind2 (fun t => ~ In id (t_ids t) -> t_upd_kids F id t = t)).
  intros i ch IH Hn. cbn [t_upd_kids]. cbn [t_ids] in Hn.
  destruct (w_id i =? id) eqn:E; [exfalso; apply Hn; left; lia|].
  f_equal. apply map_id_on. intros c Hc. rewrite Forall_forall in IH. apply (IH c Hc).
  intros H. apply Hn. right. eapply in_kid_ids; eassumption.
Qed.

Lemma map_update_notin f id l : ~ In id (flat_map t_ids l) -> map (t_update f id) l = l.
Proof.
  intros Hn. apply map_id_on. intros c Hc. apply update_notin.
  intros H. apply Hn. eapply in_kid_ids; eassumption.
Qed.

Lemma map_upd_kids_notin F id l : ~ In id (flat_map t_ids l) -> map (t_upd_kids F id) l = l.
Proof.
  intros Hn. apply map_id_on. intros c Hc. apply upd_kids_notin.
  intros H. apply Hn. eapply in_kid_ids; eassumption.
Qed.

(* ------------------------------------------------------------------------------------ *)
(* t_find                                                                                *)

Lemma find_go_in id l n : find_go id l = Some n -> exists c, In c l /\ t_find id c = Some n.
Proof.
  induction l as [|c r IH]; intros H; [discriminate|].
  rewrite find_go_cons in H. destruct (t_find id c) as [x|] eqn:E.
  - injection H as ->. exists c. split; [left; reflexivity|exact E].
  - destruct (IH H) as (c0 & Hin & Hc0). exists c0. split; [right; exact Hin|exact Hc0].
Qed.

Lemma t_find_sub id : forall t n, t_find id t = Some n -> subtree n t /\ t_id n = id.
Proof.
  apply (wtree_ind2 (fun t => forall n, t_find id t = Some n -> subtree n t /\ t_id n = id)).
  intros i ch IH n H. rewrite t_find_unfold in H.
  destruct (w_id i =? id) eqn:E.
  - injection H as <-. split; [constructor|]. unfold t_id; cbn [t_info]. lia.
  - apply find_go_in in H. destruct H as (c & Hin & Hc).
    rewrite Forall_forall in IH. destruct (IH c Hin n Hc) as [Hs Hid].
    split; [eapply sub_kid; eassumption|exact Hid].
Qed.

Lemma t_find_subtree : forall s t, subtree s t -> NoDup (t_ids t) -> t_find (t_id s) t = Some s.
Proof.
  intros s t Hs. induction Hs as [|i ch c Hin Hs IH]; intros Hnd.
  - destruct s as [i ch]. rewrite t_find_unfold. unfold t_id; cbn [t_info].
    rewrite Z.eqb_refl. reflexivity.
  - rewrite t_find_unfold. apply nodup_node in Hnd. destruct Hnd as [Hni Hnd].
    assert (Hsc : In (t_id s) (t_ids c)) by (eapply subtree_ids; [exact Hs|apply t_id_in]).
    destruct (w_id i =? t_id s) eqn:E.
    { exfalso. apply Hni. replace (w_id i) with (t_id s) by lia. eapply in_kid_ids; eassumption. }
    apply in_split in Hin. destruct Hin as (l1 & l2 & ->).
    apply nodup_split in Hnd. destruct Hnd as (_ & Hc & _ & Hx & _).
    rewrite find_go_skip by (apply (Hx _ Hsc)).
    rewrite find_go_cons, (IH Hc). reflexivity.
Qed.

(* ------------------------------------------------------------------------------------ *)
(* t_path                                                                                *)

Lemma path_go_in id l p : path_go id l = Some p -> exists c, In c l /\ t_path id c = Some p.
Proof.
  induction l as [|c r IH]; intros H; [discriminate|].
  rewrite path_go_cons in H. destruct (t_path id c) as [x|] eqn:E.
  - injection H as ->. exists c. split; [left; reflexivity|exact E].
  - destruct (IH H) as (c0 & Hin & Hc0). exists c0. split; [right; exact Hin|exact Hc0].
Qed.

Lemma path_head id t p : t_path id t = Some p -> exists tl, p = t :: tl.
Proof.
  destruct t as [i ch]. rewrite t_path_unfold.
  destruct (w_id i =? id).
  - intros [= <-]. exists []. reflexivity.
  - destruct (path_go id ch) as [pc|]; [|discriminate]. intros [= <-]. exists pc. reflexivity.
Qed.

(* consecutive elements are parent and child *)
Fixpoint linked (l : list wtree) : Prop :=
  match l with
  | a :: (b :: _) as r => In b (t_kids a) /\ linked r
  | _ => True
  end.

Lemma path_spec id : forall t p, t_path id t = Some p ->
  linked p /\ Forall (fun x => subtree x t) p /\
  (forall pre n, p = pre ++ [n] -> t_id n = id /\ Forall (fun x => t_id x <> id) pre).
Proof.
  apply (wtree_ind2 (fun t => forall p, t_path id t = Some p ->
    linked p /\ Forall (fun x => subtree x t) p /\
    (forall pre n, p = pre ++ [n] -> t_id n = id /\ Forall (fun x => t_id x <> id) pre))).
  intros i ch IH p H. rewrite t_path_unfold in H.
  destruct (w_id i =? id) eqn:E.
  - injection H as <-. split; [exact I|]. split; [constructor; constructor|].
    intros pre n Hp. destruct pre as [|a pre].
    + cbn [app] in Hp. injection Hp as <-. split; [unfold t_id; cbn [t_info]; lia|constructor].
    + cbn [app] in Hp. injection Hp as _ Hp. destruct pre; discriminate.
  - destruct (path_go id ch) as [pc|] eqn:Eg; [|discriminate]. injection H as <-.
    apply path_go_in in Eg. destruct Eg as (c & Hin & Hc).
    rewrite Forall_forall in IH. destruct (IH c Hin pc Hc) as (Hl & Hs & Hlast).
    destruct (path_head _ _ _ Hc) as [tlc ->].
    split; [|split].
    + cbn [linked t_kids]. split; [exact Hin|exact Hl].
    + constructor; [constructor|]. eapply Forall_impl; [|exact Hs].
      intros x Hx. eapply sub_kid; eassumption.
    + intros pre n Hp. destruct pre as [|a pre].
      * cbn [app] in Hp. discriminate.
      * cbn [app] in Hp. injection Hp as <- Hp. destruct (Hlast pre n Hp) as [H1 H2].
        split; [exact H1|]. constructor; [unfold t_id; cbn [t_info]; lia|exact H2].
Qed.

Lemma linked_last2 pre p w : linked (pre ++ [p; w]) -> In w (t_kids p).
Proof.
  induction pre as [|a pre IH]; cbn [app].
  - cbn [linked]. tauto.
  - intros H. apply IH. destruct pre as [|b pre]; cbn [app linked] in H |- *; tauto.
Qed.

Lemma path_in id t p : t_path id t = Some p -> In id (t_ids t).
Proof.
  intros H. destruct (path_spec id t p H) as (_ & Hs & Hlast).
  destruct (path_head _ _ _ H) as [tl ->].
  destruct (exists_last (l := t :: tl)) as (pre & n & E); [discriminate|].
  destruct (Hlast pre n E) as [Hid _].
  rewrite Forall_forall in Hs. assert (Hn : subtree n t).
  { apply Hs. rewrite E. apply in_or_app. right. left. reflexivity. }
  rewrite <- Hid. eapply subtree_ids; [exact Hn|apply t_id_in].
Qed.

Lemma path_some id : forall t, In id (t_ids t) -> exists p, t_path id t = Some p.
Proof.
  apply (wtree_ind2 (fun t => In id (t_ids t) -> exists p, t_path id t = Some p)).
  intros i ch IH Hin. rewrite t_path_unfold. cbn [t_ids] in Hin.
  destruct (w_id i =? id) eqn:E; [eexists; reflexivity|].
  destruct Hin as [Hin|Hin]; [lia|].
  assert (Hg : exists pc, path_go id ch = Some pc).
  { clear E. induction IH as [|c r Hc _ IHr]; [contradiction|].
    rewrite path_go_cons. cbn [flat_map] in Hin.
    destruct (t_path id c) as [pc|] eqn:Ec; [exists pc; reflexivity|].
    apply in_app_or in Hin. destruct Hin as [Hin|Hin].
    - destruct (Hc Hin) as [pc Hpc]. congruence.
    - apply IHr. exact Hin. }
  destruct Hg as [pc ->]. eexists; reflexivity.
Qed.

Lemma path_none_notin id t : t_path id t = None -> ~ In id (t_ids t).
Proof. intros H Hin. destruct (path_some id t Hin) as [p Hp]. congruence. Qed.

Lemma path_self t : t_path (t_id t) t = Some [t].
Proof.
  destruct t as [i ch]. rewrite t_path_unfold. unfold t_id; cbn [t_info].
  rewrite Z.eqb_refl. reflexivity.
Qed.

(* what the operations learn from  t_chain id t = Some (w :: p :: rest) *)
Lemma chain_parent id t w p rest :
  NoDup (t_ids t) -> t_chain id t = Some (w :: p :: rest) ->
  t_id w = id /\ In w (t_kids p) /\ t_find (t_id p) t = Some p /\ t_find id t = Some w /\
  t_id p <> id /\ In (t_id p) (t_ids t).
Proof.
  intros Hnd H. unfold t_chain in H. destruct (t_path id t) as [path|] eqn:Ep; [|discriminate].
  injection H as H.
  assert (Hpath : path = rev rest ++ [p; w]).
  { rewrite <- (rev_involutive path), H. cbn [rev]. rewrite <- !app_assoc. reflexivity. }
  destruct (path_spec id t path Ep) as (Hl & Hs & Hlast).
  assert (E2 : path = (rev rest ++ [p]) ++ [w]) by (rewrite Hpath, <- app_assoc; reflexivity).
  destruct (Hlast _ _ E2) as [Hid Hpre].
  rewrite Forall_forall in Hs, Hpre.
  assert (Hsp : subtree p t).
  { apply Hs. rewrite Hpath. apply in_or_app. right. left. reflexivity. }
  assert (Hsw : subtree w t).
  { apply Hs. rewrite Hpath. apply in_or_app. right. right. left. reflexivity. }
  split; [exact Hid|]. split; [apply (linked_last2 (rev rest)); rewrite <- Hpath; exact Hl|].
  split; [apply t_find_subtree; assumption|].
  split; [rewrite <- Hid; apply t_find_subtree; assumption|].
  split; [apply Hpre; apply in_or_app; right; left; reflexivity|].
  eapply subtree_ids; [exact Hsp|apply t_id_in].
Qed.

Lemma chain_nonempty id t : t_chain id t <> Some [].
Proof.
  unfold t_chain. destruct (t_path id t) as [p|] eqn:E; [|discriminate].
  destruct (path_head _ _ _ E) as [tl ->]. intros H. injection H as H.
  cbn [rev] in H. destruct (rev tl); discriminate.
Qed.

Lemma chain_single id t w : t_chain id t = Some [w] -> w = t /\ t_id t = id.
Proof.
  unfold t_chain. destruct (t_path id t) as [p|] eqn:E; [|discriminate].
  intros H. injection H as H. destruct (path_head _ _ _ E) as [tl ->].
  assert (Hp : t :: tl = [w]).
  { rewrite <- (rev_involutive (t :: tl)), H. reflexivity. }
  injection Hp as -> ->. split; [reflexivity|].
  destruct (path_spec id w [w] E) as (_ & _ & Hlast). apply (Hlast [] w eq_refl).
Qed.

Lemma chain_none_notin id t : t_chain id t = None -> ~ In id (t_ids t).
Proof.
  unfold t_chain. destruct (t_path id t) eqn:E; [discriminate|]. intros _.
  apply path_none_notin. exact E.
Qed.

(* ------------------------------------------------------------------------------------ *)
(* t_update with an info change that keeps ids (and rectangle and visibility)            *)

Definition keeps_id (f : winfo -> winfo) : Prop := forall i, w_id (f i) = w_id i.
Definition keeps_geo (f : winfo -> winfo) : Prop :=
  (forall i, w_id (f i) = w_id i) /\ (forall i, w_rect (f i) = w_rect i) /\
  (forall i, w_vis (f i) = w_vis i).

Lemma keeps_geo_id f : keeps_geo f -> keeps_id f.
Proof. intros H. exact (proj1 H). Qed.

Lemma update_info f id t :
  t_info (t_update f id t) = if t_id t =? id then f (t_info t) else t_info t.
Proof. destruct t as [i ch]. reflexivity. Qed.

Lemma update_ids f id : keeps_id f -> forall t, t_ids (t_update f id t) = t_ids t.
Proof.
  intros Hf. apply (wtree_ind2 (fun t => t_ids (t_update f id t) = t_ids t)).
  intros i ch IH. cbn [t_update t_ids]. f_equal.
  - destruct (w_id i =? id); [apply Hf|reflexivity].
  - induction IH as [|c r Hc _ IHr]; [reflexivity|]. cbn [map flat_map]. rewrite Hc, IHr. reflexivity.
Qed.

Lemma update_owner f id : keeps_geo f -> forall t q, owner_rel (t_update f id t) q = owner_rel t q.
Proof.
  intros (Hid & Hrect & Hvis).
  apply (wtree_ind2 (fun t => forall q, owner_rel (t_update f id t) q = owner_rel t q)).
  intros i ch IH q. cbn [t_update]. rewrite !owner_rel_unfold.
  assert (Hfo : forall q, first_owner (map (t_update f id) ch) q = first_owner ch q).
  { clear q. induction IH as [|c r Hc _ IHr]; intros q; [reflexivity|]. cbn [map first_owner].
    assert (Hr : w_rect (t_info (t_update f id c)) = w_rect (t_info c)).
    { rewrite update_info. destruct (t_id c =? id); [apply Hrect|reflexivity]. }
    assert (Hv : w_vis (t_info (t_update f id c)) = w_vis (t_info c)).
    { rewrite update_info. destruct (t_id c =? id); [apply Hvis|reflexivity]. }
    rewrite Hr, Hv, Hc, IHr. reflexivity. }
  rewrite Hfo. destruct (first_owner ch q); [reflexivity|].
  destruct (w_id i =? id); [rewrite Hid|]; reflexivity.
Qed.

Lemma update_path f id y : keeps_id f -> forall t,
  t_path y (t_update f id t) = option_map (map (t_update f id)) (t_path y t).
Proof.
  intros Hf.
  apply (wtree_ind2 (fun t => t_path y (t_update f id t) = option_map (map (t_update f id)) (t_path y t))).
  intros i ch IH.
  assert (Hg : path_go y (map (t_update f id) ch) = option_map (map (t_update f id)) (path_go y ch)).
  { induction IH as [|c r Hc _ IHr]; [reflexivity|]. cbn [map]. rewrite !path_go_cons, Hc.
    destruct (t_path y c); cbn [option_map]; [reflexivity|exact IHr]. }
  rewrite (t_path_unfold y i ch).
  change (t_update f id (Node i ch))
    with (Node (if w_id i =? id then f i else i) (map (t_update f id) ch)).
  rewrite t_path_unfold.
  assert (Hid : w_id (if w_id i =? id then f i else i) = w_id i).
  { destruct (w_id i =? id); [apply Hf|reflexivity]. }
  rewrite Hid, Hg. destruct (w_id i =? y); [reflexivity|].
  destruct (path_go y ch); reflexivity.
Qed.

Definition chain_geo (y : Z) (t : wtree) : option (list ginfo) :=
  option_map (map (fun w => geo (t_info w))) (t_chain y t).

Lemma update_chain_geo f id y t : keeps_geo f -> chain_geo y (t_update f id t) = chain_geo y t.
Proof.
  intros Hf. pose proof Hf as (Hid & Hrect & Hvis). unfold chain_geo, t_chain.
  rewrite (update_path f id y Hid).
  destruct (t_path y t) as [p|]; cbn [option_map]; [|reflexivity]. f_equal.
  rewrite <- map_rev, map_map. apply map_ext. intros w. unfold geo.
  rewrite update_info. destruct (t_id w =? id); [rewrite Hrect, Hvis|]; reflexivity.
Qed.

(* two trees the composition and the expose walk cannot tell apart *)
Record geq_tree (t1 t2 : wtree) : Prop := mkGeq {
  gq_ids : t_ids t2 = t_ids t1;
  gq_root : geo (t_info t2) = geo (t_info t1);
  gq_owner : forall q, owner_rel t2 q = owner_rel t1 q;
  gq_chain : forall y, chain_geo y t2 = chain_geo y t1 }.

Lemma geq_refl t : geq_tree t t.
Proof. constructor; reflexivity. Qed.

Lemma geq_trans t1 t2 t3 : geq_tree t1 t2 -> geq_tree t2 t3 -> geq_tree t1 t3.
Proof.
  intros [A1 B1 C1 D1] [A2 B2 C2 D2]. constructor.
  - congruence.
  - congruence.
  - intros q. rewrite C2. apply C1.
  - intros y. rewrite D2. apply D1.
Qed.

Lemma geq_update f id t : keeps_geo f -> geq_tree t (t_update f id t).
Proof.
  intros Hf. pose proof Hf as (Hid & Hrect & Hvis). constructor.
  - apply update_ids. exact Hid.
  - unfold geo. rewrite update_info. destruct (t_id t =? id); [rewrite Hrect, Hvis|]; reflexivity.
  - apply update_owner. exact Hf.
  - intros y. apply update_chain_geo. exact Hf.
Qed.

(* ------------------------------------------------------------------------------------ *)
(* t' is t with the child list of window pid replaced; D = the infos of the windows below *)
(* the root of t on the way down to pid                                                   *)

Inductive kids_changed (pid : Z) (ch ch' : list wtree) : wtree -> wtree -> list winfo -> Prop :=
| kc_here i : w_id i = pid -> kids_changed pid ch ch' (Node i ch) (Node i ch') []
| kc_down i l1 c c' l2 D :
    w_id i <> pid -> ~ In pid (flat_map t_ids l1) ->
    kids_changed pid ch ch' c c' D ->
    kids_changed pid ch ch' (Node i (l1 ++ c :: l2)) (Node i (l1 ++ c' :: l2)) (t_info c :: D).

Lemma kc_info pid ch ch' t t' D : kids_changed pid ch ch' t t' D -> t_info t' = t_info t.
Proof. induction 1; reflexivity. Qed.

Lemma kc_sym pid ch ch' t t' D : kids_changed pid ch ch' t t' D -> kids_changed pid ch' ch t' t D.
Proof.
  induction 1 as [i Hi|i l1 c c' l2 D Hi Hl1 Hkc IH]; [constructor; exact Hi|].
  rewrite <- (kc_info _ _ _ _ _ _ Hkc). apply kc_down; assumption.
Qed.

(* C. locality of owner_rel *)
Theorem kc_local pid ch ch' t t' D :
  kids_changed pid ch ch' t t' D ->
  forall q, (forall p, reach (map geo D) q = Some p -> first_owner ch' p = first_owner ch p) ->
  owner_rel t' q = owner_rel t q.
Proof.
  induction 1 as [i Hi|i l1 c c' l2 D Hi Hl1 Hkc IH]; intros q Hq.
  - rewrite !owner_rel_unfold. rewrite (Hq q eq_refl). reflexivity.
  - rewrite !owner_rel_unfold.
    assert (Hfo : first_owner (l1 ++ c' :: l2) q = first_owner (l1 ++ c :: l2) q).
    { clear Hl1. induction l1 as [|a l1 IHl]; cbn [app first_owner].
      - rewrite (kc_info _ _ _ _ _ _ Hkc).
        destruct (w_vis (t_info c) && cell_inb (w_rect (t_info c)) q) eqn:E; [|reflexivity].
        f_equal. apply IH. intros p Hp. apply Hq. cbn [map reach]. unfold geo at 1 2 3 4.
        cbn [fst snd]. rewrite E. exact Hp.
      - destruct (w_vis (t_info a) && cell_inb (w_rect (t_info a)) q); [reflexivity|exact IHl]. }
    rewrite Hfo. reflexivity.
Qed.

Lemma kc_path pid ch ch' t t' D : kids_changed pid ch ch' t t' D ->
  exists pth, t_path pid t' = Some (t' :: pth) /\ map t_info pth = D.
Proof.
  induction 1 as [i Hi|i l1 c c' l2 D Hi Hl1 Hkc IH].
  - exists []. rewrite t_path_unfold. replace (w_id i =? pid) with true by lia. split; reflexivity.
  - destruct IH as (pth & Hp & Hm). exists (c' :: pth). rewrite t_path_unfold.
    replace (w_id i =? pid) with false by lia.
    rewrite (path_go_skip _ _ _ Hl1), path_go_cons, Hp. split; [reflexivity|].
    cbn [map]. rewrite Hm, (kc_info _ _ _ _ _ _ Hkc). reflexivity.
Qed.

Lemma kc_nodes pid ch ch' t t' D : kids_changed pid ch ch' t t' D ->
  exists i, w_id i = pid /\ subtree (Node i ch) t /\ subtree (Node i ch') t'.
Proof.
  induction 1 as [i Hi|i l1 c c' l2 D Hi Hl1 Hkc IH].
  - exists i. split; [exact Hi|]. split; constructor.
  - destruct IH as (j & Hj & H1 & H2). exists j. split; [exact Hj|].
    split; (eapply sub_kid; [apply in_elt|eassumption]).
Qed.

Lemma in_fm_split x l1 c l2 :
  In x (flat_map t_ids (l1 ++ c :: l2)) <->
  In x (flat_map t_ids l1) \/ In x (t_ids c) \/ In x (flat_map t_ids l2).
Proof. rewrite fm_split, !in_app_iff. tauto. Qed.

(* the ids of the new tree: those of the old one, with the ids of ch replaced by those of ch' *)
Lemma kc_ids (Fresh : Z -> Prop) pid ch ch' t t' D :
  kids_changed pid ch ch' t t' D ->
  NoDup (t_ids t) -> (forall x, Fresh x -> ~ In x (t_ids t)) ->
  NoDup (flat_map t_ids ch') ->
  (forall x, In x (flat_map t_ids ch') -> In x (flat_map t_ids ch) \/ Fresh x) ->
  NoDup (t_ids t') /\ (forall x, In x (t_ids t') -> In x (t_ids t) \/ Fresh x).
Proof.
  induction 1 as [i Hi|i l1 c c' l2 D Hi Hl1 Hkc IH]; intros Hnd Hfr Hnd' Hin'.
  - pose proof (nodup_node _ _ Hnd) as [Hni Hndk]. split.
    + cbn [t_ids]. constructor; [|exact Hnd']. intros Hx. destruct (Hin' _ Hx) as [H|H].
      * exact (Hni H).
      * apply (Hfr _ H). left. reflexivity.
    + cbn [t_ids]. intros x [Hx|Hx]; [left; left; exact Hx|].
      destruct (Hin' _ Hx) as [H|H]; [left; right; exact H|right; exact H].
  - pose proof (nodup_node _ _ Hnd) as [Hni Hndk].
    pose proof (nodup_split _ _ _ Hndk) as (N1 & Nc & N2 & Xc & X12).
    assert (Hfrc : forall x, Fresh x -> ~ In x (t_ids c)).
    { intros x Hx Hc. apply (Hfr x Hx). cbn [t_ids]. right. apply in_fm_split. tauto. }
    destruct (IH Nc Hfrc Hnd' Hin') as [Nc' Hc'].
    assert (Hfr1 : forall x, Fresh x -> ~ In x (flat_map t_ids l1)).
    { intros x Hx Hc. apply (Hfr x Hx). cbn [t_ids]. right. apply in_fm_split. tauto. }
    assert (Hfr2 : forall x, Fresh x -> ~ In x (flat_map t_ids l2)).
    { intros x Hx Hc. apply (Hfr x Hx). cbn [t_ids]. right. apply in_fm_split. tauto. }
    rewrite in_fm_split in Hni.
    split.
    + cbn [t_ids]. constructor.
      * rewrite in_fm_split. intros [Hx|[Hx|Hx]]; [tauto| |tauto].
        destruct (Hc' _ Hx) as [H|H]; [tauto|]. apply (Hfr _ H). left. reflexivity.
      * rewrite fm_split. apply nodup_app_intro; [exact N1| |].
        -- apply nodup_app_intro; [exact Nc'|exact N2|].
           intros x Hx1 Hx2. destruct (Hc' _ Hx1) as [H|H].
           ++ exact (proj2 (Xc x H) Hx2).
           ++ exact (Hfr2 x H Hx2).
        -- intros x Hx1 Hx2. apply in_app_or in Hx2. destruct Hx2 as [Hx2|Hx2].
           ++ destruct (Hc' _ Hx2) as [H|H].
              ** exact (proj1 (Xc x H) Hx1).
              ** exact (Hfr1 x H Hx1).
           ++ exact (X12 x Hx1 Hx2).
    + intros x Hx. cbn [t_ids] in Hx |- *. destruct Hx as [Hx|Hx]; [left; left; exact Hx|].
      rewrite in_fm_split in Hx. cbn [In]. rewrite in_fm_split.
      destruct Hx as [Hx|[Hx|Hx]]; [tauto| |tauto].
      destruct (Hc' _ Hx) as [H|H]; tauto.
Qed.

(* the path to a child of pid in the new tree *)
Lemma kc_child_path pid ch ch' t t' D c' :
  kids_changed pid ch ch' t t' D -> NoDup (t_ids t') -> In c' ch' ->
  exists pth, t_path (t_id c') t' = Some (t' :: pth ++ [c']) /\ map t_info pth = D.
Proof.
  induction 1 as [i Hi|i l1 c0 c0' l2 D Hi Hl1 Hkc IH]; intros Hnd Hin.
  - exists []. apply nodup_node in Hnd. destruct Hnd as [Hni Hndk]. rewrite t_path_unfold.
    assert (E : (w_id i =? t_id c') = false).
    { destruct (w_id i =? t_id c') eqn:E; [|reflexivity]. exfalso. apply Hni.
      replace (w_id i) with (t_id c') by lia. eapply in_kid_ids; [exact Hin|apply t_id_in]. }
    rewrite E. apply in_split in Hin. destruct Hin as (k1 & k2 & ->).
    apply nodup_split in Hndk. destruct Hndk as (_ & _ & _ & Hx & _).
    rewrite path_go_skip by (apply (Hx _ (t_id_in c'))).
    rewrite path_go_cons, path_self. split; reflexivity.
  - apply nodup_node in Hnd. destruct Hnd as [Hni Hndk].
    pose proof (nodup_split _ _ _ Hndk) as (_ & Nc & _ & Xc & _).
    destruct (IH Nc Hin) as (pth & Hp & Hm).
    assert (Hc : In (t_id c') (t_ids c0')) by (eapply path_in; exact Hp).
    exists (c0' :: pth). rewrite t_path_unfold.
    assert (E : (w_id i =? t_id c') = false).
    { destruct (w_id i =? t_id c') eqn:E; [|reflexivity]. exfalso. apply Hni.
      replace (w_id i) with (t_id c') by lia. apply in_fm_split. tauto. }
    rewrite E. rewrite path_go_skip by (apply (Xc _ Hc)).
    rewrite path_go_cons, Hp. split; [reflexivity|].
    cbn [map]. rewrite Hm, (kc_info _ _ _ _ _ _ Hkc). reflexivity.
Qed.

(* ------------------------------------------------------------------------------------ *)
(* the two tree editors produce kids_changed                                             *)

Lemma upd_kids_kc F pid : forall t n, NoDup (t_ids t) -> t_find pid t = Some n ->
  exists D, kids_changed pid (t_kids n) (F (t_kids n)) t (t_upd_kids F pid t) D.
Proof.
  apply (wtree_ind2 (fun t => forall n, NoDup (t_ids t) -> t_find pid t = Some n ->
    exists D, kids_changed pid (t_kids n) (F (t_kids n)) t (t_upd_kids F pid t) D)).
  intros i ch IH n Hnd Hf. rewrite t_find_unfold in Hf. cbn [t_upd_kids].
  pose proof (nodup_node _ _ Hnd) as [Hni Hndk].
  destruct (w_id i =? pid) eqn:E.
  - injection Hf as <-. cbn [t_kids]. exists [].
    rewrite map_upd_kids_notin by (replace pid with (w_id i) by lia; exact Hni).
    constructor. lia.
  - destruct (find_go_in _ _ _ Hf) as (c & Hin & Hc).
    destruct (t_find_sub _ _ _ Hc) as [Hs Hid].
    assert (Hpc : In pid (t_ids c)) by (rewrite <- Hid; eapply subtree_ids; [exact Hs|apply t_id_in]).
    apply in_split in Hin. destruct Hin as (l1 & l2 & ->).
    pose proof (nodup_split _ _ _ Hndk) as (_ & Nc & _ & Xc & _). destruct (Xc _ Hpc) as [X1 X2].
    rewrite Forall_forall in IH. destruct (IH c (in_elt c l1 l2) n Nc Hc) as [D HD].
    exists (t_info c :: D). rewrite map_app. cbn [map].
    rewrite (map_upd_kids_notin F pid l1 X1), (map_upd_kids_notin F pid l2 X2).
    apply kc_down; [lia|exact X1|exact HD].
Qed.

(* the child with the given id gets a new info *)
Definition upd_child (f : winfo -> winfo) (id : Z) (c : wtree) : wtree :=
  if t_id c =? id then Node (f (t_info c)) (t_kids c) else c.

Lemma update_kc f id pid : keeps_id f -> forall t p w,
  NoDup (t_ids t) -> t_find pid t = Some p -> In w (t_kids p) -> t_id w = id ->
  exists D, kids_changed pid (t_kids p) (map (upd_child f id) (t_kids p)) t (t_update f id t) D.
Proof.
  intros Hkf.
  apply (wtree_ind2 (fun t => forall p w,
    NoDup (t_ids t) -> t_find pid t = Some p -> In w (t_kids p) -> t_id w = id ->
    exists D, kids_changed pid (t_kids p) (map (upd_child f id) (t_kids p)) t (t_update f id t) D)).
  intros i ch IH p w Hnd Hf Hw Hid. rewrite t_find_unfold in Hf. cbn [t_update].
  pose proof (nodup_node _ _ Hnd) as [Hni Hndk].
  destruct (w_id i =? pid) eqn:E.
  - injection Hf as <-. cbn [t_kids] in *. exists [].
    assert (Hidk : In id (flat_map t_ids ch)).
    { rewrite <- Hid. eapply in_kid_ids; [exact Hw|apply t_id_in]. }
    assert (E2 : (w_id i =? id) = false).
    { destruct (w_id i =? id) eqn:E2; [|reflexivity]. exfalso. apply Hni.
      replace (w_id i) with id by lia. exact Hidk. }
    rewrite E2.
    assert (Hm : map (t_update f id) ch = map (upd_child f id) ch).
    { apply map_ext_in. intros c Hc. unfold upd_child. destruct (t_id c =? id) eqn:Ec.
      - pose proof (nodup_kid _ _ Hndk Hc) as Nc. destruct c as [ic kc].
        apply nodup_node in Nc. destruct Nc as [Nci _].
        unfold t_id in Ec; cbn [t_info] in Ec. cbn [t_update t_info t_kids]. rewrite Ec. f_equal.
        apply map_update_notin. replace id with (w_id ic) by lia. exact Nci.
      - apply update_notin. intros Hin.
        assert (Hcw : c = w).
        { apply (kids_share ch c w id Hndk Hc Hw Hin). rewrite <- Hid. apply t_id_in. }
        subst c. lia. }
    rewrite Hm. constructor. lia.
  - destruct (find_go_in _ _ _ Hf) as (c & Hin & Hc).
    destruct (t_find_sub _ _ _ Hc) as [Hs Hidp].
    assert (Hpc : In pid (t_ids c)) by (rewrite <- Hidp; eapply subtree_ids; [exact Hs|apply t_id_in]).
    assert (Hic : In id (t_ids c)).
    { rewrite <- Hid. eapply subtree_ids; [|apply t_id_in].
      eapply subtree_trans; [apply subtree_kid; exact Hw|exact Hs]. }
    apply in_split in Hin. destruct Hin as (l1 & l2 & ->).
    pose proof (nodup_split _ _ _ Hndk) as (_ & Nc & _ & Xc & _).
    destruct (Xc _ Hpc) as [X1 X2]. destruct (Xc _ Hic) as [Y1 Y2].
    assert (E2 : (w_id i =? id) = false).
    { destruct (w_id i =? id) eqn:E2; [|reflexivity]. exfalso. apply Hni.
      replace (w_id i) with id by lia. apply in_fm_split. tauto. }
    rewrite E2.
    rewrite Forall_forall in IH. destruct (IH c (in_elt c l1 l2) p w Nc Hc Hw Hid) as [D HD].
    exists (t_info c :: D). rewrite map_app. cbn [map].
    rewrite (map_update_notin f id l1 Y1), (map_update_notin f id l2 Y2).
    apply kc_down; [lia|exact X1|exact HD].
Qed.

Lemma upd_child_ids f id : keeps_id f -> forall l,
  flat_map t_ids (map (upd_child f id) l) = flat_map t_ids l.
Proof.
  intros Hf. induction l as [|c r IH]; [reflexivity|]. cbn [map flat_map]. rewrite IH. f_equal.
  unfold upd_child. destruct (t_id c =? id); [|reflexivity].
  destruct c as [ic kc]. cbn [t_ids t_info t_kids]. rewrite Hf. reflexivity.
Qed.

Lemma upd_child_in f id l c' :
  In c' (map (upd_child f id) l) ->
  exists c, In c l /\ ((t_id c = id /\ c' = Node (f (t_info c)) (t_kids c)) \/ (t_id c <> id /\ c' = c)).
Proof.
  intros H. apply in_map_iff in H. destruct H as (c & <- & Hin). exists c. split; [exact Hin|].
  unfold upd_child. destruct (t_id c =? id) eqn:E; [left|right]; (split; [lia|reflexivity]).
Qed.

Lemma upd_child_in_fwd f id l c :
  In c l -> t_id c = id -> In (Node (f (t_info c)) (t_kids c)) (map (upd_child f id) l).
Proof.
  intros Hin Hid. apply in_map_iff. exists c. split; [|exact Hin].
  unfold upd_child. replace (t_id c =? id) with true by lia. reflexivity.
Qed.

Lemma t_find_some id t : NoDup (t_ids t) -> In id (t_ids t) -> exists n, t_find id t = Some n.
Proof.
  intros Hnd Hin. destruct (path_some id t Hin) as [p Hp].
  destruct (path_spec id t p Hp) as (_ & Hs & Hlast).
  destruct (path_head _ _ _ Hp) as [tl ->].
  destruct (exists_last (l := t :: tl)) as (pre & n & E); [discriminate|].
  destruct (Hlast pre n E) as [Hid _]. exists n. rewrite <- Hid. apply t_find_subtree; [|exact Hnd].
  rewrite Forall_forall in Hs. apply Hs. rewrite E. apply in_or_app. right. left. reflexivity.
Qed.
