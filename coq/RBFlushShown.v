(* RBFlushShown.v -- the terminal grid after a flush, cell by cell, for EVERY reachable buffer:
   each terminal cell under a pending span of the buffer shows what [shown] computes from that
   span (for a text span: the layout, by the terminal's own grapheme rule, of the visible slice
   of the string, with a blank for an orphaned half of a double-width character), every other
   cell of the terminal is untouched.  Composition of t_run_paint (RBTermSim.v) and
   flush_line_paint (here). *)
From Coq Require Import ZArith List Bool Lia.
From Tickit Require Import RectDefs RBDefs RBSpec RBLemmas RBSpanProofs RBAbsLemmas RBInv RBOpProofs RBProofs RBProps
                           RBTheorems Gen_Linechars RBGlyphs RBFlushDefs RBFlushSpec RBFlushProofs RBWidth RBFlushCols
                           RBFlushReach RBTermSim RBPenLemmas.
Import ListNotations.
Local Open Scope Z_scope.

(* the cells a list of prints fills, in the pen [pn] *)
Definition ops_cells (pn : pen) (ops : list termop) : list tcell :=
  flat_map (fun o => match o with TPrint u => map (fun txt => mkT txt pn) (lay u) | _ => [] end) ops.

(* what the cells of a span show after the flush *)
Definition span_out (c : content) (n : Z) : list tcell :=
  match c with
  | CSkip => []
  | CText p s offs => ops_cells (canon_pen p) (text_emit p s offs n)
  | CErase p => repeat (mkT [32] (canon_pen p)) (Z.to_nat n)
  | CLine p m => [mkT [linechar m] (canon_pen p)]
  | CChar p cp => [mkT [cp] (canon_pen p)]
  end.

(* ... and a cell of a row, over the terminal cell [d] *)
Definition shown (r : row) (x : Z) (d : tcell) : tcell :=
  match ck (get r x) with
  | Start c n => nth 0 (span_out c n) d
  | Cont sc =>
      match ck (get r sc) with
      | Start c n => nth (Z.to_nat (x - sc)) (span_out c n) d
      | Cont _ => d
      end
  end.

Lemma shown_span : forall r i c n x d,
  WF r -> 0 <= i < len r -> ck (get r i) = Start c n -> i <= x < i + n ->
  shown r x d = nth (Z.to_nat (x - i)) (span_out c n) d.
Proof.
  intros r i c n x d W Hi Ei Hx. assert (Wi := W i Hi). unfold wf_cellf in Wi. rewrite Ei in Wi.
  destruct Wi as (K1 & K2 & K3 & K4). unfold shown.
  destruct (Z.eq_dec x i) as [->|Hne]; [rewrite Ei, Z.sub_diag; reflexivity|].
  rewrite (K4 x ltac:(lia)). rewrite Ei. reflexivity.
Qed.

(* ---------------------------------------------------------------------------------- *)
(* pens *)

Lemma pen_equiv_canon : forall a b, pen_equiv a b = true -> canon_pen a = canon_pen b.
Proof.
  intros a b H. unfold canon_pen, pen_build. pose proof (pen_equiv_reads a b H) as R. now rewrite !R.
Qed.

(* ---------------------------------------------------------------------------------- *)
(* narrow strings (every character of width one) *)

Lemma tw_narrow : forall u, narrow u -> tw u = zlen u.
Proof.
  induction u as [|c u IH]; intros N; [reflexivity|]. cbn [tw]. unfold zlen. cbn [length]. rewrite Nat2Z.inj_succ.
  rewrite (N c (or_introl eq_refl)). unfold zlen in IH. rewrite IH; [lia|]. intros x Hx. apply N. right. exact Hx.
Qed.

Lemma narrow_valid : forall u, narrow u -> valid u.
Proof. intros u N c Hc. rewrite (N c Hc). lia. Qed.

Lemma narrow_text_valid : forall u, narrow u -> text_valid u = true.
Proof. intros u N. unfold text_valid. apply forallb_forall. intros c Hc. rewrite (N c Hc). reflexivity. Qed.

Lemma narrow_starts_base : forall u, narrow u -> starts_base u.
Proof. intros [|c u] N; [exact Logic.I|]. cbn. rewrite (N c (or_introl eq_refl)). lia. Qed.

Lemma lay_narrow : forall u, narrow u -> lay u = map (fun ch => [ch]) u.
Proof.
  induction u as [|c u IH]; intros N; [reflexivity|].
  assert (Nu : narrow u) by (intros x Hx; apply N; right; exact Hx).
  change (c :: u) with (c :: [] ++ u). rewrite lay_grapheme.
  - rewrite (N c (or_introl eq_refl)). cbn [Z.sub Z.to_nat repeat app map]. cbn. now rewrite IH.
  - rewrite (N c (or_introl eq_refl)). lia.
  - intros x [].
  - apply narrow_starts_base. exact Nu.
Qed.

(* ---------------------------------------------------------------------------------- *)
(* a block of prints, as writes *)

Lemma rw_app : forall a b l c, rw l c (a ++ b) = rw l c a ++ rw l (c + zlen a) b.
Proof.
  induction a as [|x a IH]; intros b l c; cbn [app rw].
  - unfold zlen. cbn [length Z.of_nat]. now rewrite Z.add_0_r.
  - rewrite IH. unfold zlen. cbn [length]. rewrite Nat2Z.inj_succ. do 3 f_equal. lia.
Qed.

Definition print_ok (o : termop) : Prop :=
  match o with TPrint u => text_valid u = true /\ starts_base u | _ => False end.

Lemma cells_length : forall u pn, text_valid u = true -> starts_base u ->
  zlen (map (fun txt => mkT txt pn) (lay u)) = text_width u.
Proof.
  intros u pn V S. unfold zlen. rewrite map_length. rewrite text_width_tw.
  apply (lay_length u (text_valid_valid u V) S).
Qed.

Lemma ops_cells_length : forall pn prints, (forall o, In o prints -> print_ok o) ->
  zlen (ops_cells pn prints) = log_cols prints.
Proof.
  induction prints as [|o prints IH]; intros H; [reflexivity|].
  change (o :: prints) with ([o] ++ prints). rewrite log_cols_app. unfold ops_cells in *. cbn [flat_map app].
  unfold zlen in *. rewrite app_length, Nat2Z.inj_add. rewrite IH by (intros o' Ho'; apply H; right; exact Ho').
  assert (Ho := H o (or_introl eq_refl)). destruct o; cbn [print_ok] in Ho; try contradiction. destruct Ho as (V & S).
  pose proof (cells_length s pn V S) as E. unfold zlen in E. rewrite E. unfold log_cols. cbn [fold_left op_cols]. lia.
Qed.

Lemma paint_prints : forall prints l c pn rest L C,
  (forall o, In o prints -> print_ok o) -> c + log_cols prints <= C ->
  paint L C (Some (l, c)) pn (prints ++ rest) =
  match paint L C (Some (l, c + log_cols prints)) pn rest with
  | None => None
  | Some (w, e, q) => Some (rw l c (ops_cells pn prints) ++ w, e, q)
  end.
Proof.
  induction prints as [|o prints IH]; intros l c pn rest L C H Hc.
  - cbn [app ops_cells flat_map rw]. unfold log_cols. cbn [fold_left]. rewrite Z.add_0_r.
    destruct (paint L C (Some (l, c)) pn rest) as [[[w e] q]|]; reflexivity.
  - assert (Ho := H o (or_introl eq_refl)). destruct o as [| |u|]; cbn [print_ok] in Ho; try contradiction.
    destruct Ho as (V & S).
    assert (H' : forall o', In o' prints -> print_ok o') by (intros o' Ho'; apply H; right; exact Ho').
    assert (Hn : 0 <= log_cols prints).
    { apply log_cols_nonneg. intros o' Ho'. specialize (H' o' Ho'). destruct o'; cbn [print_ok] in H'; try contradiction.
      cbn [op_cols]. rewrite text_width_tw. apply tw_nonneg, text_valid_valid, H'. }
    change ((TPrint u :: prints) ++ rest) with (TPrint u :: prints ++ rest).
    change (TPrint u :: prints) with ([TPrint u] ++ prints) in Hc |- *. rewrite log_cols_app in Hc |- *.
    assert (E1 : log_cols [TPrint u] = text_width u) by (unfold log_cols; cbn [fold_left op_cols]; lia).
    rewrite E1 in *. cbn [app paint]. rewrite V, (proj2 (starts_baseb_iff u) S). cbn [andb].
    destruct (Z.leb_spec (c + text_width u) C); [|lia].
    rewrite IH by (assumption || lia). rewrite Z.add_assoc.
    destruct (paint L C (Some (l, c + text_width u + log_cols prints)) pn rest) as [[[w e] q]|]; [|reflexivity].
    unfold ops_cells. cbn [flat_map]. rewrite rw_app, (cells_length u pn V S), app_assoc. reflexivity.
Qed.

(* the prints of a text span *)
Lemma text_emit_prints_ok : forall p s offs n,
  text_valid s = true -> 0 <= offs -> 1 <= n -> offs + n <= text_width s ->
  exists prints, text_emit p s offs n = TSetPen p :: prints /\ (forall o, In o prints -> print_ok o) /\
                 log_cols prints = n.
Proof.
  intros p s offs n Hv Ho Hn Hw.
  destruct (text_emit_shape p s offs n Hv Ho Hn Hw) as (k1 & k2 & Hk & C1 & C2 & E & NB1 & NB2).
  assert (Hc := text_emit_cols p s offs n Hv Ho Hn Hw).
  rewrite E in Hc |- *. eexists. split; [reflexivity|]. split.
  - intros o Hi.
    assert (B : forall k, In o (repeat (TPrint [32]) k) -> print_ok o).
    { intros k Hk'. apply repeat_spec in Hk'. subst o. cbn. split; [reflexivity|]. vm_compute. reflexivity. }
    apply in_app_or in Hi. destruct Hi as [Hi|Hi]; [eapply B; eassumption|].
    apply in_app_or in Hi. destruct Hi as [Hi|Hi]; [|eapply B; eassumption].
    destruct (Nat.ltb_spec k1 k2); [|contradiction]. destruct Hi as [<-|[]]. cbn [print_ok].
    assert (V := text_valid_valid s Hv). split.
    + unfold text_valid. apply forallb_forall. intros c Hc'. apply Z.leb_le.
      apply (valid_firstn (k2 - k1) (skipn k1 s) (valid_skipn k1 s V)). exact Hc'.
    + destruct NB1 as [->|(c & Hc1 & Hc2)]; [lia|].
      assert (Es : exists tl, skipn k1 s = c :: tl).
      { clear - Hc1. revert s Hc1. induction k1 as [|k IH]; intros s Hc1; destruct s as [|x s]; cbn in Hc1; try discriminate.
        - inversion Hc1; subst. eexists; reflexivity.
        - cbn [skipn]. apply IH. exact Hc1. }
      destruct Es as (tl & ->). destruct (k2 - k1)%nat eqn:Ed; [lia|]. cbn [firstn starts_base]. exact Hc2.
  - change (TSetPen p :: ?l) with ([TSetPen p] ++ l) in Hc. rewrite log_cols_app in Hc.
    unfold log_cols at 1 in Hc. cbn [fold_left op_cols] in Hc. lia.
Qed.

(* ---------------------------------------------------------------------------------- *)
(* the writes of one line, pointwise *)

Definition row_look (w : writes) (r : row) (line col : Z) : Prop :=
  forall y x d, look w (y, x) d = if (y =? line) && (col <=? x) && (x <? len r) then shown r x d else d.

Lemma row_look_span : forall r line col n cells w,
  0 <= col -> 1 <= n -> col + n <= len r -> zlen cells = n ->
  (forall x d, col <= x < col + n -> nth (Z.to_nat (x - col)) cells d = shown r x d) ->
  row_look w r line (col + n) -> row_look (rw line col cells ++ w) r line col.
Proof.
  intros r line col n cells w Hc Hn Hl Hz Hcells Hw y x d.
  rewrite look_app, look_rw, Hw, Hz.
  destruct (Z.eqb_spec y line) as [->|Hy]; cbn [andb]; [|reflexivity].
  destruct (Z.leb_spec col x); destruct (Z.ltb_spec x (col + n)); destruct (Z.leb_spec (col + n) x);
    destruct (Z.ltb_spec x (len r)); cbn [andb]; try lia; try reflexivity.
  apply Hcells. lia.
Qed.

Lemma row_look_skip : forall r line col n w,
  0 <= col -> 1 <= n -> col + n <= len r ->
  (forall x d, col <= x < col + n -> shown r x d = d) ->
  row_look w r line (col + n) -> row_look w r line col.
Proof.
  intros r line col n w Hc Hn Hl Hs Hw y x d. rewrite Hw.
  destruct (Z.eqb_spec y line) as [->|Hy]; cbn [andb]; [|reflexivity].
  destruct (Z.leb_spec col x); destruct (Z.leb_spec (col + n) x);
    destruct (Z.ltb_spec x (len r)); cbn [andb]; try lia; try reflexivity.
  rewrite Hs by lia. reflexivity.
Qed.

Lemma nth_map_cell : forall (u : list Z) (pn : pen) j d, (j < length u)%nat ->
  nth j (map (fun ch => mkT [ch] pn) u) d = mkT [nth j u 0] pn.
Proof.
  intros u pn j d Hj. rewrite (nth_indep _ d (mkT [0] pn)) by (rewrite map_length; exact Hj).
  apply (map_nth (fun ch => mkT [ch] pn) u 0).
Qed.

(* the run of LINE cells merged into one print *)
Lemma line_run_cells : forall fuel r col p,
  WF r -> row_content_ok r -> at_boundary r col ->
  let '(g, c') := line_run fuel r col p in
  col <= c' /\ at_boundary r c' /\ zlen g = c' - col /\ narrow g /\
  forall x, col <= x < c' ->
    exists q m, ck (get r x) = Start (CLine q m) 1 /\ canon_pen q = canon_pen p /\ nth (Z.to_nat (x - col)) g 0 = linechar m.
Proof.
  induction fuel as [|f IH]; intros r col p W RC Hb; cbn [line_run].
  - split; [lia|]. split; [assumption|]. split; [unfold zlen; cbn; lia|]. split; [intros c []|]. intros x Hx. lia.
  - assert (Triv : col <= col /\ at_boundary r col /\ zlen (@nil Z) = col - col /\ narrow [] /\
                   forall x, col <= x < col ->
                     exists q m, ck (get r x) = Start (CLine q m) 1 /\ canon_pen q = canon_pen p /\ nth (Z.to_nat (x - col)) [] 0 = linechar m).
    { split; [lia|]. split; [assumption|]. split; [unfold zlen; cbn; lia|]. split; [intros c []|]. intros x Hx. lia. }
    destruct (Z.ltb_spec col (len r)) as [Hlt|Hge]; [|exact Triv].
    destruct Hb as [Hb|(Hc & c & n & Ec)]; [lia|]. rewrite Ec.
    destruct c as [|? ? ?|?|q m|? ?]; try exact Triv.
    destruct (pen_equiv q p) eqn:Eq; [|exact Triv].
    assert (n = 1).
    { assert (Wc := W col Hc). unfold wf_cellf in Wc. rewrite Ec in Wc. destruct Wc as (_ & _ & K3 & _). now apply K3. }
    subst n.
    assert (Hn := next_boundary r col _ _ W Hc Ec).
    assert (Gw := RC col Hc). unfold span_ok in Gw. rewrite Ec in Gw.
    specialize (IH r (col + 1) p W RC Hn). destruct (line_run f r (col + 1) p) as [g c'].
    destruct IH as (I1 & I2 & I3 & I4 & I5). split; [lia|]. split; [assumption|].
    split; [unfold zlen in *; cbn [length]; lia|].
    split; [intros c [<-|Hc']; [exact Gw|apply I4; exact Hc']|].
    intros x Hx. destruct (Z.eq_dec x col) as [->|Hne].
    + exists q, m. rewrite Z.sub_diag. cbn [Z.to_nat nth]. split; [exact Ec|]. split; [apply pen_equiv_canon; exact Eq|reflexivity].
    + destruct (I5 x ltac:(lia)) as (q' & m' & A1 & A2 & A3). exists q', m'. split; [exact A1|]. split; [exact A2|].
      replace (Z.to_nat (x - col)) with (S (Z.to_nat (x - (col + 1)))) by lia. cbn [nth]. exact A3.
Qed.

(* a print of a narrow string *)
Lemma paint_narrow : forall u l c pn rest L C,
  narrow u -> c + zlen u <= C ->
  paint L C (Some (l, c)) pn (TPrint u :: rest) =
  match paint L C (Some (l, c + zlen u)) pn rest with
  | None => None
  | Some (w, e, q) => Some (rw l c (map (fun ch => mkT [ch] pn) u) ++ w, e, q)
  end.
Proof.
  intros u l c pn rest L C N Hc. cbn [paint].
  rewrite (narrow_text_valid u N), (proj2 (starts_baseb_iff u) (narrow_starts_base u N)). cbn [andb].
  rewrite text_width_tw, (tw_narrow u N). destruct (Z.leb_spec (c + zlen u) C); [|lia].
  rewrite (lay_narrow u N), map_map. reflexivity.
Qed.

Lemma paint_setpen : forall L C cur pn p r, paint L C cur pn (TSetPen p :: r) = paint L C cur (canon_pen p) r.
Proof. reflexivity. Qed.

(* one line of the flush, as writes *)
Theorem flush_line_paint : forall fuel r line col phycol cur pn ops L C,
  WF r -> row_content_ok r -> at_boundary r col -> cur_ok line phycol col cur ->
  0 <= line < L -> len r <= C ->
  flush_line fuel r line col phycol = Ok ops ->
  exists w cur' pn', paint L C cur pn ops = Some (w, cur', pn') /\ row_look w r line col.
Proof.
  induction fuel as [|f IH]; intros r line col phycol cur pn ops L C W RC Hb Hcur HL HC E.
  - cbn [flush_line] in E. destruct (Z.leb_spec (len r) col) as [Hge|Hlt]; [|discriminate].
    inversion E; subst. cbn [paint]. do 3 eexists. split; [reflexivity|].
    intros y x d. unfold look. cbn [fold_left].
    destruct (Z.leb_spec col x); destruct (Z.ltb_spec x (len r)); try lia; rewrite ?andb_false_r; reflexivity.
  - cbn [flush_line] in E. destruct (Z.leb_spec (len r) col) as [Hge|Hlt].
    { inversion E; subst. cbn [paint]. do 3 eexists. split; [reflexivity|].
      intros y x d. unfold look. cbn [fold_left].
      destruct (Z.leb_spec col x); destruct (Z.ltb_spec x (len r)); try lia; rewrite ?andb_false_r; reflexivity. }
    destruct Hb as [Hb|(Hc & c & n & Ec)]; [lia|].
    rewrite getr_ok in E by assumption. cbn [bind] in E. rewrite Ec in E.
    assert (Wc := W col Hc). unfold wf_cellf in Wc. rewrite Ec in Wc. destruct Wc as (K1 & K2 & K3 & K4).
    assert (Hn := next_boundary r col c n W Hc Ec).
    assert (Gw := RC col Hc). unfold span_ok in Gw. rewrite Ec in Gw.
    assert (Cells := fun x d => shown_span r col c n x d W Hc Ec).
    destruct Hcur as (C1 & C2).
    assert (Goto : forall q tail, paint L C cur q ((if phycol <? col then [TGoto line col] else []) ++ tail) =
                                  paint L C (Some (line, col)) q tail).
    { intros q tail. destruct (Z.ltb_spec phycol col); cbn [app paint]; [|rewrite C2 by lia; reflexivity].
      destruct (Z.leb_spec 0 line); [|lia]. destruct (Z.ltb_spec line L); [|lia].
      destruct (Z.leb_spec 0 col); [|lia]. destruct (Z.ltb_spec col C); [|lia]. reflexivity. }
    destruct c as [|p s offs|p|p m|p cp].
    + (* skip *)
      destruct (IH r line (col + n) phycol cur pn ops L C W RC Hn) as (w & cur' & pn' & P & Lk); try assumption.
      { split; [lia|intros; lia]. }
      exists w, cur', pn'. split; [exact P|].
      apply (row_look_skip r line col n w); try lia; [|exact Lk].
      intros x d Hx. rewrite Cells by lia. cbn [span_out]. destruct (Z.to_nat (x - col)); reflexivity.
    + (* text *)
      destruct (flush_line f r line (col + n) (col + n)) as [rest| |] eqn:Er; cbn [bind] in E; try discriminate.
      assert (Eo : ops = (if phycol <? col then [TGoto line col] else []) ++ text_emit p s offs n ++ rest)
        by (inversion E; reflexivity).
      subst ops. clear E.
      destruct Gw as (G1 & G2 & G3).
      destruct (text_emit_prints_ok p s offs n G1 G2 K1 G3) as (prints & Ep & Hp & Hlc).
      assert (Eout : span_out (CText p s offs) n = ops_cells (canon_pen p) prints).
      { cbn [span_out]. rewrite Ep. reflexivity. }
      rewrite Goto, Ep. cbn [app paint]. rewrite paint_prints by (assumption || lia). rewrite Hlc.
      destruct (IH r line (col + n) (col + n) (Some (line, col + n)) (canon_pen p) rest L C W RC Hn)
        as (w & cur' & pn' & P & Lk); try assumption.
      { split; [lia|reflexivity]. }
      rewrite P. do 3 eexists. split; [reflexivity|].
      apply (row_look_span r line col n); try lia; [rewrite ops_cells_length by assumption; exact Hlc| |exact Lk].
      intros x d Hx. rewrite Cells by lia. rewrite Eout. reflexivity.
    + (* erase *)
      destruct (if col + n <? len r then getr r (col + n) else Ok dcell) as [nx| |]; cbn [bind] in E; try discriminate.
      cbv zeta in E.
      set (mv0 := (col + n <? len r) && match ck nx with Start CSkip _ => false | _ => true end) in E.
      destruct (flush_line f r line (col + n) (if mv0 then col + n else -1)) as [rest| |] eqn:Er; cbn [bind] in E; try discriminate.
      assert (Eo : ops = (if phycol <? col then [TGoto line col] else []) ++ [TSetPen p; TErase n mv0] ++ rest)
        by (inversion E; reflexivity).
      subst ops. clear E.
      rewrite Goto. cbn [app paint].
      destruct (Z.leb_spec 0 n); [|lia]. destruct (Z.leb_spec (col + n) C); [|lia]. cbn [andb].
      destruct (IH r line (col + n) (if mv0 then col + n else -1) (if mv0 then Some (line, col + n) else None) (canon_pen p) rest L C W RC Hn)
        as (w & cur' & pn' & P & Lk); try assumption.
      { destruct mv0; split; try lia; try reflexivity. }
      rewrite P. do 3 eexists. split; [reflexivity|].
      apply (row_look_span r line col n); try lia; [rewrite zlen_repeat; lia| |exact Lk].
      intros x d Hx. rewrite Cells by lia. reflexivity.
    + (* line run *)
      specialize (K3 eq_refl). subst n.
      assert (R := line_run_cells (S (Z.to_nat (len r))) r (col + 1) p W RC Hn).
      destruct (line_run (S (Z.to_nat (len r))) r (col + 1) p) as [gl c'].
      destruct R as (R1 & R2 & R3 & R4 & R5).
      match type of E with context [flush_line f r line c' ?ph] =>
        destruct (flush_line f r line c' ph) as [rest| |] eqn:Er end; cbn [bind] in E; try discriminate.
      inversion E; subst ops. clear E.
      assert (Nu : narrow (linechar m :: gl)) by (intros c [<-|Hc']; [exact Gw|apply R4; exact Hc']).
      assert (Zu : zlen (linechar m :: gl) = c' - col) by (unfold zlen in *; cbn [length]; lia).
      assert (Bc : c' <= len r) by (destruct R2 as [->|(? & _)]; lia).
      rewrite Goto. cbn [app]. rewrite paint_setpen.
      rewrite (paint_narrow (linechar m :: gl) line col (canon_pen p) rest L C Nu) by lia.
      rewrite Zu.
      destruct (IH r line c' (col + 1 + (c' - (col + 1))) (Some (line, col + (c' - col))) (canon_pen p) rest L C W RC R2)
        as (w & cur' & pn' & P & Lk); try assumption.
      { split; [lia|]. intros _. do 2 f_equal. lia. }
      rewrite P. do 3 eexists. split; [reflexivity|].
      replace c' with (col + (c' - col)) in Lk by lia.
      apply (row_look_span r line col (c' - col)); try lia; [unfold zlen in *; rewrite map_length; exact Zu| |exact Lk].
      intros x d Hx. rewrite nth_map_cell by (unfold zlen in Zu; lia).
      destruct (Z.eq_dec x col) as [->|Hne].
      * rewrite Z.sub_diag. cbn [Z.to_nat nth]. rewrite Cells by lia. rewrite Z.sub_diag. reflexivity.
      * destruct (R5 x ltac:(lia)) as (q' & m' & A1 & A2 & A3).
        assert (Hx' : 0 <= x < len r) by lia.
        rewrite (shown_span r x _ 1 x d W Hx' A1) by lia. rewrite Z.sub_diag. cbn [Z.to_nat span_out nth].
        replace (Z.to_nat (x - col)) with (S (Z.to_nat (x - (col + 1)))) by lia. cbn [nth]. rewrite A3, A2. reflexivity.
    + (* char *)
      destruct (flush_line f r line (col + n) (col + n)) as [rest| |] eqn:Er; cbn [bind] in E; try discriminate.
      inversion E; subst ops. clear E.
      specialize (K3 eq_refl). subst n.
      assert (Nu : narrow [cp]) by (intros c [<-|[]]; exact Gw).
      rewrite Goto. cbn [app]. rewrite paint_setpen.
      rewrite (paint_narrow [cp] line col (canon_pen p) rest L C Nu) by (change (zlen [cp]) with 1; lia).
      change (zlen [cp]) with 1.
      destruct (IH r line (col + 1) (col + 1) (Some (line, col + 1)) (canon_pen p) rest L C W RC Hn)
        as (w & cur' & pn' & P & Lk); try assumption.
      { split; [lia|reflexivity]. }
      rewrite P. do 3 eexists. split; [reflexivity|].
      apply (row_look_span r line col 1); try lia; [reflexivity| |exact Lk].
      intros x d Hx. assert (x = col) by lia. subst x. rewrite Z.sub_diag. cbn [Z.to_nat map nth].
      rewrite Cells by lia. rewrite Z.sub_diag. reflexivity.
Qed.

(* all lines *)
Theorem flush_rows_paint : forall rows line cur pn ops L C,
  (forall r, In r rows -> WF r /\ row_content_ok r /\ len r <= C) ->
  0 <= line -> line + zlen rows <= L ->
  flush_rows rows line = Ok ops ->
  exists w cur' pn', paint L C cur pn ops = Some (w, cur', pn') /\
    forall y x d, look w (y, x) d =
      if (line <=? y) && (y <? line + zlen rows) && (0 <=? x) && (x <? len (zn rows (y - line) []))
      then shown (zn rows (y - line) []) x d else d.
Proof.
  induction rows as [|r rows IH]; intros line cur pn ops L C H Hl HL E; cbn [flush_rows] in E.
  - inversion E; subst. cbn [paint]. do 3 eexists. split; [reflexivity|]. intros y x d. unfold look, zlen. cbn [fold_left length Z.of_nat].
    destruct (Z.leb_spec line y); destruct (Z.ltb_spec y (line + 0)); cbn [andb]; try lia; reflexivity.
  - destruct (flush_line (S (length r)) r line 0 (-1)) as [a| |] eqn:Ea; cbn [bind] in E; try discriminate.
    destruct (flush_rows rows (line + 1)) as [b| |] eqn:Eb; cbn [bind] in E; try discriminate.
    inversion E; subst ops. clear E.
    destruct (H r (or_introl eq_refl)) as (W & RC & HC).
    unfold zlen in HL. cbn [length] in HL. rewrite Nat2Z.inj_succ in HL.
    destruct (flush_line_paint (S (length r)) r line 0 (-1) cur pn a L C W RC (row_start_boundary r W))
      as (wa & c1 & p1 & Pa & La); try assumption; try lia.
    { split; [lia|intros; lia]. }
    destruct (IH (line + 1) c1 p1 b L C (fun r' Hr' => H r' (or_intror Hr'))) as (wb & c2 & p2 & Pb & Lb); try (unfold zlen; lia); [exact Eb|].
    rewrite paint_app, Pa, Pb. do 3 eexists. split; [reflexivity|].
    intros y x d. rewrite look_app, Lb, La. unfold zlen. cbn [length]. rewrite Nat2Z.inj_succ.
    destruct (Z.eq_dec y line) as [->|Hne].
    + rewrite Z.eqb_refl, Z.sub_diag. unfold zn at 3 4. cbn [Z.to_nat nth].
      destruct (Z.leb_spec (line + 1) line); [lia|]. cbn [andb].
      destruct (Z.leb_spec line line); [|lia]. destruct (Z.ltb_spec line (line + Z.succ (Z.of_nat (length rows)))); [|lia].
      cbn [andb]. reflexivity.
    + rewrite (proj2 (Z.eqb_neq y line)) by lia. cbn [andb].
      assert (Ez : zn (r :: rows) (y - line) [] = zn rows (y - (line + 1)) [] \/ y < line).
      { destruct (Z_lt_le_dec y line); [right; assumption|left].
        unfold zn. replace (Z.to_nat (y - line)) with (S (Z.to_nat (y - (line + 1)))) by lia. reflexivity. }
      destruct Ez as [Ez|Hlt].
      * rewrite Ez.
        destruct (Z.leb_spec (line + 1) y); destruct (Z.leb_spec line y); try lia; cbn [andb]; try reflexivity.
        destruct (Z.ltb_spec y (line + 1 + Z.of_nat (length rows))); destruct (Z.ltb_spec y (line + Z.succ (Z.of_nat (length rows))));
          try lia; reflexivity.
      * destruct (Z.leb_spec (line + 1) y); [lia|]. destruct (Z.leb_spec line y); [lia|]. reflexivity.
Qed.

(* ---------------------------------------------------------------------------------- *)
(* the theorem, against the concrete buffer *)

(* Flushing onto a terminal at least as large as the buffer: the terminal executes the emitted
   operations without fault; afterwards every cell of the terminal that lies under the buffer
   is what [shown] says for its span, and every other cell is what it was. *)
Theorem flush_grid_shown : forall s t0 ops s',
  Inv s -> acells_ok (abs_rb s) ->
  term_ok t0 -> rb_lines s <= t_lines t0 -> rb_cols s <= t_cols t0 ->
  flush s = Ok (ops, s') ->
  exists t1, t_run t0 ops = Ok t1 /\ term_ok t1 /\ same_frame t0 t1 /\
    forall y x, 0 <= y < t_lines t0 -> 0 <= x < t_cols t0 ->
      tcellat t1 y x =
      if (y <? rb_lines s) && (x <? rb_cols s)
      then shown (zn (cells s) y []) x (tcellat t0 y x)
      else tcellat t0 y x.
Proof.
  intros s t0 ops s' I Hc T HL HC E. unfold flush in E.
  destruct (flush_rows (cells s) 0) as [o| |] eqn:Er; cbn [bind] in E; try discriminate.
  inversion E; subst o s'. clear E.
  destruct (flush_rows_paint (cells s) 0 None (t_cur t0) ops (t_lines t0) (t_cols t0)) as (w & cur' & pn' & P & Lk); try lia.
  { intros r Hr. apply In_nth with (d := []) in Hr. destruct Hr as (k & Hk & <-).
    assert (Hy : 0 <= Z.of_nat k < rb_lines s) by (rewrite <- (inv_lines s I); unfold zlen; lia).
    destruct (inv_rows s I (Z.of_nat k) Hy) as (Hl & W & _).
    assert (RC := rows_content_ok s (Z.of_nat k) I Hc Hy).
    unfold zn in W, RC, Hl. rewrite Nat2Z.id in W, RC, Hl. repeat split; try assumption. lia. }
  { rewrite (inv_lines s I). lia. }
  { exact Er. }
  destruct (t_run_paint ops t0 None w cur' pn' T Logic.I P) as (t1 & Et & T1 & F1 & _ & _ & G).
  exists t1. split; [exact Et|]. split; [exact T1|]. split; [exact F1|].
  intros y x Hy Hx. rewrite G by assumption. rewrite Lk. rewrite Z.add_0_l, Z.sub_0_r, (inv_lines s I).
  destruct (Z.leb_spec 0 y); [|lia]. cbn [andb].
  destruct (Z.ltb_spec y (rb_lines s)); cbn [andb]; [|reflexivity].
  destruct (inv_rows s I y ltac:(lia)) as (Hl & _). rewrite Hl.
  destruct (Z.leb_spec 0 x); [|lia]. cbn [andb]. reflexivity.
Qed.

(* ---------------------------------------------------------------------------------- *)
(* [shown] against the specification's cells *)

(* what a terminal cell must show under buffer cell [c], relative to what it was *)
Definition shows (c : cellc) (old new : tcell) : Prop :=
  match c with
  | ASkip => new = old
  | AErase p => new = mkT [32] (canon_pen p)
  | ALine p m => new = mkT [linechar m] (canon_pen p)
  | AChar p cp => new = mkT [cp] (canon_pen p)
  | AText p u k => t_pen new = canon_pen p /\ (narrow u -> t_text new = [nth (Z.to_nat k) u 0])
  end.

Lemma ops_cells_pen : forall pn prints c, In c (ops_cells pn prints) -> t_pen c = pn.
Proof.
  intros pn prints c H. unfold ops_cells in H. apply in_flat_map in H. destruct H as (o & _ & Hc).
  destruct o; try contradiction. apply in_map_iff in Hc. destruct Hc as (txt & <- & _). reflexivity.
Qed.

Lemma narrow_firstn : forall k u, narrow u -> narrow (firstn k u).
Proof.
  induction k as [|k IH]; intros u N; [intros c []|]. destruct u as [|x r]; [intros c []|]. cbn [firstn].
  intros c [<-|Hc]; [apply N; left; reflexivity|]. apply (IH r); [intros y Hy; apply N; right; exact Hy|exact Hc].
Qed.

Lemma narrow_skipn : forall k u, narrow u -> narrow (skipn k u).
Proof.
  induction k as [|k IH]; intros u N; [exact N|]. destruct u as [|x u]; [exact N|]. cbn [skipn]. apply IH.
  intros c Hc. apply N. right. exact Hc.
Qed.

Lemma tw_firstn_narrow : forall k u, narrow u -> (k <= length u)%nat -> tw (firstn k u) = Z.of_nat k.
Proof.
  intros k u N Hk. rewrite tw_narrow by (apply narrow_firstn; exact N). unfold zlen. rewrite firstn_length. lia.
Qed.

(* the flush of a text span of a narrow string is one print of the visible slice *)
Lemma text_emit_narrow : forall p s offs n,
  narrow s -> 0 <= offs -> 1 <= n -> offs + n <= zlen s ->
  text_emit p s offs n = [TSetPen p; TPrint (firstn (Z.to_nat n) (skipn (Z.to_nat offs) s))].
Proof.
  intros p s offs n N Ho Hn Hw. unfold zlen in Hw.
  assert (V := narrow_valid s N).
  unfold text_emit.
  (* the start of the slice *)
  unfold slice_start.
  destruct (count_from0_stop s offs V Ho) as (k & g & Hk & E0 & Hb & Hnx). rewrite E0.
  rewrite tw_firstn_narrow in * by assumption.
  assert (Ek : Z.of_nat k = offs).
  { destruct Hnx as [->|(c & Hc & Hc1 & Hc2)]; [lia|].
    rewrite (N c (nth_error_In _ _ Hc)) in Hc2. lia. }
  cbn [sp_col sp_cp]. rewrite Ek. rewrite Z.ltb_irrefl. cbn [sp_col sp_cp].
  replace (offs - offs) with 0 by lia. cbn [Z.to_nat repeat app].
  (* its end *)
  assert (Ep : mkPos offs g offs = mkPos (Z.of_nat k) g (tw (firstn k s))).
  { rewrite tw_firstn_narrow by assumption. now rewrite Ek. }
  rewrite Ep.
  destruct (count_on_stop s k g (offs + n) V Hk) as (k2 & g2 & Hk2 & E2 & Hb2 & Hnx2).
  { rewrite tw_firstn_narrow by assumption. lia. }
  rewrite E2. assert (Tk2 := tw_firstn_narrow k2 s N ltac:(lia)). rewrite Tk2 in Hb2, Hnx2 |- *.
  assert (Ek2 : Z.of_nat k2 = offs + n).
  { destruct Hnx2 as [->|(c & Hc & Hc1 & Hc2)]; [lia|].
    rewrite (N c (nth_error_In _ _ Hc)) in Hc2. lia. }
  cbn [sp_col sp_cp]. rewrite Ek2, Ek.
  replace (offs + n - (offs + n)) with 0 by lia. cbn [Z.to_nat repeat].
  destruct (Z.ltb_spec offs (offs + n)); [|lia]. rewrite app_nil_r. cbn [app].
  unfold slice, firstz, skipz. cbn [sp_cp].
  replace (offs + n - offs) with n by lia. reflexivity.
Qed.

Lemma nth_firstn_skipn : forall (s : list Z) a n j, (j < n)%nat -> (a + n <= length s)%nat ->
  nth j (firstn n (skipn a s)) 0 = nth (a + j) s 0.
Proof.
  intros s a n j Hj Hl.
  assert (E : nth (a + j) s 0 = nth j (skipn a s) 0).
  { clear. revert s. induction a as [|a IH]; intros s; [reflexivity|]. destruct s as [|x s]; [destruct j; reflexivity|]. apply IH. }
  rewrite E. rewrite <- (firstn_skipn n (skipn a s)) at 2. rewrite app_nth1; [reflexivity|].
  rewrite firstn_length, skipn_length. lia.
Qed.


Lemma span_of : forall r x, WF r -> 0 <= x < len r ->
  exists i c n, 0 <= i < len r /\ ck (get r i) = Start c n /\ i <= x < i + n.
Proof.
  intros r x W Hx. assert (Wx := W x Hx). unfold wf_cellf in Wx.
  destruct (ck (get r x)) as [c n|sc] eqn:Ex.
  - exists x, c, n. destruct Wx as (K1 & _). split; [assumption|]. split; [exact Ex|lia].
  - destruct Wx as (S1 & c & n & Es & S2). exists sc, c, n. split; [lia|]. split; [exact Es|lia].
Qed.

Theorem shown_shows : forall r x d, WF r -> row_content_ok r -> 0 <= x < len r ->
  shows (abs_cell r x) d (shown r x d).
Proof.
  intros r x d W RC Hx.
  destruct (span_of r x W Hx) as (i & c & n & Hi & Ei & Hin).
  rewrite (span_cells r i c n x W Hi Ei Hin), (shown_span r i c n x d W Hi Ei Hin).
  assert (Wi := W i Hi). unfold wf_cellf in Wi. rewrite Ei in Wi. destruct Wi as (K1 & K2 & K3 & _).
  assert (Gw := RC i Hi). unfold span_ok in Gw. rewrite Ei in Gw.
  destruct c as [|p s offs|p|p m|p cp]; cbn [content_at shows span_out].
  - destruct (Z.to_nat (x - i)); reflexivity.
  - destruct Gw as (G1 & G2 & G3).
    destruct (text_emit_prints_ok p s offs n G1 G2 K1 G3) as (prints & Ep & Hp & Hlc).
    assert (Ll : zlen (ops_cells (canon_pen p) (text_emit p s offs n)) = n).
    { rewrite Ep. change (ops_cells (canon_pen p) (TSetPen p :: prints)) with (ops_cells (canon_pen p) prints).
      rewrite ops_cells_length by assumption. exact Hlc. }
    split.
    + apply (ops_cells_pen (canon_pen p) (text_emit p s offs n)). apply nth_In. unfold zlen in Ll. lia.
    + intros Ns. rewrite text_width_tw, (tw_narrow s Ns) in G3.
      rewrite text_emit_narrow by (assumption || lia).
      set (u := firstn (Z.to_nat n) (skipn (Z.to_nat offs) s)).
      assert (Nu : narrow u) by (unfold u; apply narrow_firstn, narrow_skipn; exact Ns).
      assert (Lu : length u = Z.to_nat n).
      { unfold u. rewrite firstn_length, skipn_length. unfold zlen in G3. lia. }
      unfold ops_cells. cbn [flat_map]. rewrite app_nil_r, (lay_narrow u Nu), map_map. cbv beta. cbn [app].
      rewrite nth_map_cell by lia. cbn [t_text]. f_equal. unfold u.
      rewrite nth_firstn_skipn by (unfold zlen in G3; lia). f_equal. lia.
  - assert (Hin' : In (nth (Z.to_nat (x - i)) (repeat (mkT [32] (canon_pen p)) (Z.to_nat n)) d)
                      (repeat (mkT [32] (canon_pen p)) (Z.to_nat n))).
    { apply nth_In. rewrite repeat_length. lia. }
    apply repeat_spec in Hin'. exact Hin'.
  - specialize (K3 eq_refl). subst n. replace (x - i) with 0 by lia. reflexivity.
  - specialize (K3 eq_refl). subst n. replace (x - i) with 0 by lia. reflexivity.
Qed.

(* The terminal after a flush against the specification's grid, for every reachable buffer:
   under a Skip cell and outside the buffer the terminal is untouched; under an Erase / Line /
   Char cell it shows a blank / the table's glyph / the code point, in that cell's pen; under a
   Text cell it carries the text's pen, and -- if the text consists of width-one characters --
   shows the text's own character for that column. *)
Theorem flush_grid_shows : forall s t0 ops s',
  Inv s -> acells_ok (abs_rb s) ->
  term_ok t0 -> rb_lines s <= t_lines t0 -> rb_cols s <= t_cols t0 ->
  flush s = Ok (ops, s') ->
  exists t1, t_run t0 ops = Ok t1 /\ term_ok t1 /\ same_frame t0 t1 /\
    forall y x, 0 <= y < t_lines t0 -> 0 <= x < t_cols t0 ->
      if (y <? rb_lines s) && (x <? rb_cols s)
      then shows (ac (gcell (ag (abs_rb s)) y x)) (tcellat t0 y x) (tcellat t1 y x)
      else tcellat t1 y x = tcellat t0 y x.
Proof.
  intros s t0 ops s' I Hc T HL HC E.
  destruct (flush_grid_shown s t0 ops s' I Hc T HL HC E) as (t1 & Et & T1 & F1 & G).
  exists t1. split; [exact Et|]. split; [exact T1|]. split; [exact F1|].
  intros y x Hy Hx. rewrite (G y x Hy Hx).
  destruct (Z.ltb_spec y (rb_lines s)); cbn [andb]; [|reflexivity].
  destruct (Z.ltb_spec x (rb_cols s)); [|reflexivity].
  destruct (inv_rows s I y ltac:(lia)) as (Hl & W & _).
  rewrite gcell_abs by (assumption || lia).
  apply shown_shows; [exact W|apply rows_content_ok; assumption || lia|lia].
Qed.

(* ... for every buffer a drawing program reaches *)
Lemma arun_dims : forall ops A, ashape A ->
  a_lines (fst (arun A ops)) = a_lines A /\ a_cols (fst (arun A ops)) = a_cols A.
Proof.
  induction ops as [|o ops IH]; intros A Hs; cbn [arun]; [split; reflexivity|].
  destruct (astep_shape A o Hs) as (H2 & H3 & H4). destruct (astep A o) as [A1 v1]. cbn [fst] in *.
  specialize (IH A1 H2). destruct (arun A1 ops) as [A2 v2]. cbn [fst] in *. destruct IH. split; congruence.
Qed.

Theorem flush_grid_reachable : forall L C prog s v t0,
  0 <= L -> 0 <= C -> Forall op_ok prog -> run (rb_new L C) prog = Ok (s, v) ->
  term_ok t0 -> L <= t_lines t0 -> C <= t_cols t0 ->
  exists ops t1, flush s = Ok (ops, reset s) /\ t_run t0 ops = Ok t1 /\ term_ok t1 /\ same_frame t0 t1 /\
    forall y x, 0 <= y < t_lines t0 -> 0 <= x < t_cols t0 ->
      if (y <? L) && (x <? C)
      then shows (ac (gcell (ag (fst (arun (a_new L C) prog))) y x)) (tcellat t0 y x) (tcellat t1 y x)
      else tcellat t1 y x = tcellat t0 y x.
Proof.
  intros L C prog s v t0 HL HC Ho E T TL TC.
  destruct (program_refines L C prog HL HC) as (t & w & F & I & Ab & _). rewrite E in F. inversion F; subst t w.
  assert (Hc : acells_ok (abs_rb s)).
  { rewrite Ab. apply arun_aok; [exact Ho|apply ashape_new; assumption|apply aok_new; assumption]. }
  assert (SL : rb_lines s = L /\ rb_cols s = C).
  { destruct (arun_dims prog (a_new L C) (ashape_new L C HL HC)) as (D1 & D2).
    rewrite <- Ab in D1, D2. cbn [abs_rb a_lines a_cols a_new] in D1, D2. split; assumption. }
  destruct SL as (SL1 & SL2).
  destruct (flush_total_and_resets s I) as (ops & Ef & _).
  destruct (flush_grid_shows s t0 ops (reset s) I Hc T) as (t1 & Et & T1 & F1 & G); try lia; [exact Ef|].
  exists ops, t1. split; [exact Ef|]. split; [exact Et|]. split; [exact T1|]. split; [exact F1|].
  intros y x Hy Hx. specialize (G y x Hy Hx). rewrite SL1, SL2, Ab in G. exact G.
Qed.
