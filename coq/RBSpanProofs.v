(* RBSpanProofs.v -- make_span on lists refines the cell function ms_fun of RBLemmas.v; hence
   it preserves well-formedness and changes the abstraction exactly on [col, col+n).  Then the
   run-splitting loop shared by put_string / skip / erase. *)
From Coq Require Import ZArith List Bool Lia.
From Tickit Require Import RectDefs RBDefs RBSpec RBLemmas.
Import ListNotations.
Local Open Scope Z_scope.

(* the three stages of make_span, named *)
Definition ms_stage1 (r : row) (e : Z) : res row :=
  if e <? len r then
    do ec <- getr r e;
    match ck ec with
    | Cont spanstart =>
        do sc <- getr r spanstart;
        match ck sc with
        | Start c spanlen =>
            let spanend := spanstart + spanlen in
            match split_content c (e - spanstart) with
            | Some c' =>
                if spanend <=? len r then
                  Ok (mapi (fun i cell =>
                              if i =? e then mkCell (Start c' (spanend - e)) (cmask cell)
                              else if (e <? i) && (i <? spanend) then set_cols cell e
                              else cell) r)
                else Fault
            | None => Fault
            end
        | Cont _ => Fault
        end
    | Start _ _ => Ok r
    end
  else Ok r.

Definition ms_stage2 (r1 : row) (col : Z) : res row :=
  do cc <- getr r1 col;
  match ck cc with
  | Cont beforestart =>
      do sc <- getr r1 beforestart;
      match ck sc with
      | Start c _ =>
          match split_content c 0 with
          | Some _ => Ok (upd r1 beforestart (mkCell (Start c (col - beforestart)) (cmask sc)))
          | None => Fault
          end
      | Cont _ => Fault
      end
  | Start _ _ => Ok r1
  end.

Lemma make_span_stages : forall r col n X,
  make_span r col n X =
  (do r1 <- ms_stage1 r (col + n);
   do r2 <- ms_stage2 r1 col;
   if col + n <=? len r then
     Ok (mapi (fun i cell =>
                 if i =? col then mkCell (Start X n) (-1)
                 else if (col <? i) && (i <? col + n) then mkCell (Cont col) (-1)
                 else cell) r2)
   else Fault).
Proof.
  intros. unfold make_span. cbv zeta. change (if col + n <? len r then _ else Ok r) with (ms_stage1 r (col + n)).
  destruct (ms_stage1 r (col + n)) as [r1| |]; cbn [bind]; try reflexivity.
  unfold ms_stage2. destruct (getr r1 col) as [cc| |]; cbn [bind]; reflexivity.
Qed.

Lemma stage1_spec : forall r e,
  WF r -> 0 <= e <= len r ->
  exists r1 A, ms_stage1 r e = Ok r1 /\ len r1 = len r /\ A_ok (get r) (len r) e A /\
    forall i, 0 <= i < len r -> get r1 i = ms_tail (get r) e A i.
Proof.
  intros r e W He. unfold ms_stage1.
  destruct (Z.ltb_spec e (len r)) as [Hlt|Hge].
  - rewrite getr_ok by lia. cbn [bind].
    destruct (ck (get r e)) as [c0 k0|ss] eqn:Ee.
    + exists r, None. repeat split; auto. right. eauto.
    + assert (We := W e ltac:(lia)). unfold wf_cellf in We. rewrite Ee in We.
      destruct We as (Hss0 & c & sl & Hss & Hin).
      rewrite getr_ok by lia. cbn [bind]. rewrite Hss.
      assert (Ws := W ss ltac:(lia)). unfold wf_cellf in Ws. rewrite Hss in Ws.
      destruct Ws as (K1 & K2 & K3 & K4).
      assert (Hns : single_cell c = false).
      { destruct (single_cell c) eqn:E; [|reflexivity]. specialize (K3 eq_refl). lia. }
      destruct (split_content_some c (e - ss) Hns) as (c' & Hsp). rewrite Hsp.
      destruct (Z.leb_spec (ss + sl) (len r)) as [_|]; [|lia].
      eexists. exists (Some (ss, sl, c')). split; [reflexivity|].
      split; [apply len_mapi|]. split.
      * cbn. repeat split; auto. exists c. auto.
      * intros i Hi. rewrite get_mapi by assumption. cbn [ms_tail].
        destruct (Z.eqb_spec i e); [reflexivity|].
        destruct (Z.ltb_spec e i); destruct (Z.ltb_spec i (ss + sl)); cbn [andb]; try reflexivity.
        unfold set_cols. rewrite (K4 i ltac:(lia)). reflexivity.
  - exists r, None. repeat split; auto. left. lia.
Qed.

Lemma stage2_spec : forall r r1 col e A,
  WF r -> 0 <= col < e -> e <= len r -> len r1 = len r ->
  A_ok (get r) (len r) e A ->
  (forall i, 0 <= i < len r -> get r1 i = ms_tail (get r) e A i) ->
  exists r2 B, ms_stage2 r1 col = Ok r2 /\ len r2 = len r /\ B_ok (get r) col B /\
    forall i, 0 <= i < len r ->
      get r2 i = match B with
                 | Some (bs, cb) => if i =? bs then mkCell (Start cb (col - bs)) (cmask (get r i)) else get r1 i
                 | None => get r1 i
                 end.
Proof.
  intros r r1 col e A W Hc He HL HA H1. unfold ms_stage2.
  assert (Hleft : forall i, 0 <= i < e -> get r1 i = get r i).
  { intros i Hi. rewrite H1 by lia. unfold ms_tail. destruct A as [[[ss sl] c']|]; [|reflexivity].
    destruct (Z.eqb_spec i e); [lia|]. destruct (Z.ltb_spec e i); cbn [andb]; [lia|reflexivity]. }
  rewrite getr_ok by lia. cbn [bind]. rewrite (Hleft col) by lia.
  destruct (ck (get r col)) as [c0 k0|bs] eqn:Ec.
  - exists r1, None. repeat split; auto. cbn. eauto.
  - assert (Wc := W col ltac:(lia)). unfold wf_cellf in Wc. rewrite Ec in Wc.
    destruct Wc as (Hb0 & cb & nb & Hbs & Hin).
    rewrite getr_ok by lia. cbn [bind]. rewrite (Hleft bs) by lia. rewrite Hbs.
    assert (Wb := W bs ltac:(lia)). unfold wf_cellf in Wb. rewrite Hbs in Wb.
    destruct Wb as (K1 & K2 & K3 & K4).
    assert (Hns : single_cell cb = false).
    { destruct (single_cell cb) eqn:E; [|reflexivity]. specialize (K3 eq_refl). lia. }
    destruct (split_content_some cb 0 Hns) as (c' & Hsp). rewrite Hsp.
    eexists. exists (Some (bs, cb)). split; [reflexivity|].
    split; [rewrite len_upd; assumption|]. split.
    + cbn. split; [assumption|eauto].
    + intros i Hi. rewrite get_upd by lia.
      destruct (Z.eqb_spec i bs); [subst; reflexivity|reflexivity].
Qed.

(* make_span on a well-formed row, inside the row, with a content that fits its length *)
Theorem make_span_ok : forall r col n X,
  WF r -> 0 <= col -> 1 <= n -> col + n <= len r -> (single_cell X = true -> n = 1) ->
  exists r', make_span r col n X = Ok r' /\ len r' = len r /\ WF r' /\
    (forall i, 0 <= i < len r ->
       abs_cell r' i = if (col <=? i) && (i <? col + n) then content_at X (i - col) else abs_cell r i) /\
    (forall i, 0 <= i < len r ->
       cmask (get r' i) = if (col <=? i) && (i <? col + n) then -1 else cmask (get r i)).
Proof.
  intros r col n X W Hcol Hn Hend HX.
  rewrite make_span_stages.
  destruct (stage1_spec r (col + n) W ltac:(lia)) as (r1 & A & E1 & L1 & HA & G1).
  rewrite E1. cbn [bind].
  destruct (stage2_spec r r1 col (col + n) A W ltac:(lia) Hend L1 HA G1) as (r2 & B & E2 & L2 & HB & G2).
  rewrite E2. cbn [bind].
  destruct (Z.leb_spec (col + n) (len r)) as [_|]; [|lia].
  eexists. split; [reflexivity|].
  set (r' := mapi _ r2).
  assert (L' : len r' = len r) by (unfold r'; rewrite len_mapi; assumption).
  assert (G' : forall i, 0 <= i < len r -> get r' i = ms_fun (get r) col n X A B i).
  { intros i Hi. unfold r'. rewrite get_mapi by lia. unfold ms_fun.
    destruct (Z.eqb_spec i col); [reflexivity|].
    destruct ((col <? i) && (i <? col + n)); [reflexivity|].
    rewrite G2 by assumption. destruct B as [[bs cb]|].
    - destruct (Z.eqb_spec i bs); [reflexivity|]. apply G1; assumption.
    - apply G1; assumption. }
  split; [assumption|].
  assert (Wf : WFf (ms_fun (get r) col n X A B) (len r)) by (apply (ms_wf (get r) (len r) col n X A B); assumption).
  split.
  - unfold WF. rewrite L'. intros i Hi. specialize (Wf i Hi).
    (* wf_cellf only looks at cells inside the row *)
    unfold wf_cellf in *. rewrite G' by assumption.
    destruct (ck (ms_fun (get r) col n X A B i)) as [c k|sc] eqn:Ei.
    + destruct Wf as (K1 & K2 & K3 & K4). repeat split; auto.
      intros j Hj. rewrite G' by lia. apply K4; assumption.
    + destruct Wf as (K1 & c & k & Hsc & K2). split; [assumption|].
      exists c, k. rewrite G' by lia. auto.
  - split.
    + intros i Hi. rewrite abs_cell_f.
      assert (Ea : abs_cellf (get r') i = abs_cellf (ms_fun (get r) col n X A B) i).
      { unfold abs_cellf. rewrite G' by assumption.
        destruct (ck (ms_fun (get r) col n X A B i)) as [c k|sc] eqn:Ei; [reflexivity|].
        specialize (Wf i Hi). unfold wf_cellf in Wf. rewrite Ei in Wf. destruct Wf as (K1 & _).
        rewrite G' by lia. reflexivity. }
      rewrite Ea. rewrite abs_cell_f. apply (ms_abs (get r) (len r) col n X A B); assumption.
    + intros i Hi. rewrite G' by assumption. apply (ms_mask (get r) (len r) col n X A B); assumption.
Qed.

(* ---------------------------------------------------------------------------------- *)
(* the two scanning loops *)

Lemma skip_masked_spec : forall k r col cols,
  0 <= cols -> Z.of_nat k = cols ->
  let '(col1, cols1) := skip_masked k r col cols in
  col <= col1 /\ col1 + cols1 = col + cols /\ 0 <= cols1 /\
  (forall j, col <= j < col1 -> -1 < cmask (get r j)) /\
  (cols1 <> 0 -> cmask (get r col1) <= -1).
Proof.
  induction k as [|k IH]; intros r col cols H0 Hk; cbn [skip_masked].
  - repeat split; try lia.
  - destruct (Z.eqb_spec cols 0) as [->|Hnz]; [lia|].
    destruct (Z.ltb_spec (-1) (cmask (get r col))) as [Hm|Hm].
    + specialize (IH r (col + 1) (cols - 1) ltac:(lia) ltac:(lia)).
      destruct (skip_masked k r (col + 1) (cols - 1)) as [c1 n1].
      destruct IH as (I1 & I2 & I3 & I4 & I5). repeat split; try lia; auto.
      intros j Hj. destruct (Z.eq_dec j col) as [->|]; [assumption|apply I4; lia].
    + repeat split; try lia.
Qed.

Lemma span_len_spec : forall k r col cols spanlen,
  0 <= cols -> 0 <= spanlen -> Z.of_nat k = cols ->
  let '(sl, cols2) := span_len k r col cols spanlen in
  spanlen <= sl /\ sl + cols2 = spanlen + cols /\ 0 <= cols2 /\
  (forall j, col + spanlen <= j < col + sl -> cmask (get r j) = -1) /\
  (cols2 <> 0 -> cmask (get r (col + sl)) <> -1).
Proof.
  induction k as [|k IH]; intros r col cols spanlen H0 Hs Hk; cbn [span_len].
  - repeat split; try lia.
  - destruct (Z.eqb_spec cols 0) as [->|Hnz]; [lia|].
    destruct (Z.eqb_spec (cmask (get r (col + spanlen))) (-1)) as [Hm|Hm].
    + specialize (IH r col (cols - 1) (spanlen + 1) ltac:(lia) ltac:(lia) ltac:(lia)).
      destruct (span_len k r col (cols - 1) (spanlen + 1)) as [s1 n1].
      destruct IH as (I1 & I2 & I3 & I4 & I5). repeat split; try lia; auto.
      intros j Hj. destruct (Z.eq_dec j (col + spanlen)) as [->|]; [assumption|apply I4; lia].
    + repeat split; try lia.
Qed.

(* ---------------------------------------------------------------------------------- *)
(* the `while(cols)` loop: every unmasked cell of [col, col+cols) takes the new content, at
   its own offset; nothing else changes *)

Definition shift_inv (mk : Z -> content) : Prop :=
  forall k j, content_at (mk k) j = content_at (mk (k + j)) 0.
Definition never_single (mk : Z -> content) : Prop := forall k, single_cell (mk k) = false.
Definition masks_ok (r : row) : Prop := forall i, 0 <= i < len r -> -1 <= cmask (get r i).

Lemma span_len_pos : forall r col cols,
  1 <= cols -> cmask (get r col) = -1 ->
  1 <= fst (span_len (Z.to_nat cols) r col cols 0).
Proof.
  intros r col cols Hc Hm.
  destruct (Z.to_nat cols) as [|k] eqn:Ek; [lia|].
  cbn [span_len]. destruct (Z.eqb_spec cols 0); [lia|].
  rewrite Z.add_0_r. rewrite Hm. cbn [Z.eqb Pos.eqb].
  assert (S := span_len_spec k r col (cols - 1) (0 + 1) ltac:(lia) ltac:(lia) ltac:(lia)).
  destruct (span_len k r col (cols - 1) (0 + 1)) as [sl c2]. cbn [fst]. lia.
Qed.

Theorem put_runs_ok : forall fuel mk r col cols startcol,
  WF r -> masks_ok r -> 0 <= col -> 0 <= cols -> col + cols <= len r -> cols <= Z.of_nat fuel ->
  shift_inv mk -> never_single mk ->
  exists r', put_runs fuel mk r col cols startcol = Ok r' /\ len r' = len r /\ WF r' /\ masks_ok r' /\
    (forall i, 0 <= i < len r ->
       abs_cell r' i = if (col <=? i) && (i <? col + cols) && (cmask (get r i) =? -1)
                       then content_at (mk (startcol + (i - col))) 0 else abs_cell r i) /\
    (forall i, 0 <= i < len r -> cmask (get r' i) = cmask (get r i)).
Proof.
  induction fuel as [|f IH]; intros mk r col cols startcol W M Hcol Hcols Hend Hfuel Hsh Hns.
  - assert (cols = 0) by lia. subst cols. cbn [put_runs Z.eqb].
    exists r. repeat split; auto.
    intros i Hi. destruct (Z.leb_spec col i); destruct (Z.ltb_spec i (col + 0)); cbn [andb]; try reflexivity; lia.
  - cbn [put_runs]. destruct (Z.eqb_spec cols 0) as [->|Hnz].
    { exists r. repeat split; auto.
      intros i Hi. destruct (Z.leb_spec col i); destruct (Z.ltb_spec i (col + 0)); cbn [andb]; try reflexivity; lia. }
    assert (S1 := skip_masked_spec (Z.to_nat cols) r col cols Hcols ltac:(lia)).
    destruct (skip_masked (Z.to_nat cols) r col cols) as [col1 cols1].
    destruct S1 as (A1 & A2 & A3 & A4 & A5).
    destruct (Z.eqb_spec cols1 0) as [->|Hnz1].
    { (* everything is masked *)
      exists r. repeat split; auto.
      intros i Hi. destruct (Z.leb_spec col i); destruct (Z.ltb_spec i (col + cols)); cbn [andb]; try reflexivity.
      specialize (A4 i ltac:(lia)). destruct (Z.eqb_spec (cmask (get r i)) (-1)); [lia|reflexivity]. }
    assert (Hm1 : cmask (get r col1) = -1).
    { specialize (A5 Hnz1). specialize (M col1 ltac:(lia)). lia. }
    assert (S2 := span_len_spec (Z.to_nat cols1) r col1 cols1 0 A3 ltac:(lia) ltac:(lia)).
    assert (P := span_len_pos r col1 cols1 ltac:(lia) Hm1).
    destruct (span_len (Z.to_nat cols1) r col1 cols1 0) as [sl cols2]. cbn [fst] in P.
    destruct S2 as (B1 & B2 & B3 & B4 & B5).
    destruct (Z.eqb_spec sl 0); [lia|].
    destruct (make_span_ok r col1 sl (mk (startcol + (col1 - col))) W ltac:(lia) P ltac:(lia))
      as (r1 & E1 & L1 & W1 & Ab1 & Mk1).
    { intros Hs. rewrite Hns in Hs. discriminate. }
    rewrite E1. cbn [bind].
    assert (M1 : masks_ok r1).
    { intros i Hi. rewrite L1 in Hi. rewrite Mk1 by assumption.
      destruct ((col1 <=? i) && (i <? col1 + sl)); [lia|apply M; assumption]. }
    destruct (IH mk r1 (col1 + sl) cols2 (startcol + (col1 - col) + sl) W1 M1 ltac:(lia) B3
                 ltac:(rewrite L1; lia) ltac:(lia) Hsh Hns) as (r2 & E2 & L2 & W2 & M2 & Ab2 & Mk2).
    rewrite E2. exists r2. split; [reflexivity|]. split; [lia|]. split; [assumption|]. split; [assumption|].
    split.
    + intros i Hi. rewrite Ab2 by (rewrite L1; assumption). rewrite Mk1 by assumption. rewrite Ab1 by assumption.
      destruct (Z.leb_spec (col1 + sl) i) as [G1|G1]; cbn [andb].
      * (* at or beyond the end of this run *)
        destruct (Z.ltb_spec i (col1 + sl + cols2)) as [G2|G2]; cbn [andb].
        -- destruct (Z.leb_spec col1 i); destruct (Z.ltb_spec i (col1 + sl)); cbn [andb]; try lia.
           destruct (Z.leb_spec col i); destruct (Z.ltb_spec i (col + cols)); cbn [andb]; try lia.
           destruct (cmask (get r i) =? -1); [|reflexivity].
           f_equal. f_equal. lia.
        -- destruct (Z.leb_spec col1 i); destruct (Z.ltb_spec i (col1 + sl)); cbn [andb]; try lia.
           destruct (Z.leb_spec col i); destruct (Z.ltb_spec i (col + cols)); cbn [andb]; try lia; reflexivity.
      * destruct (Z.leb_spec col1 i) as [G3|G3]; destruct (Z.ltb_spec i (col1 + sl)); cbn [andb]; try lia.
        -- (* inside this run: unmasked, gets the content at its own offset *)
           rewrite (B4 i ltac:(lia)). cbn [Z.eqb Pos.eqb].
           destruct (Z.leb_spec col i); destruct (Z.ltb_spec i (col + cols)); cbn [andb]; try lia.
           rewrite Hsh. f_equal. f_equal. lia.
        -- (* left of col1: masked or outside *)
           destruct (Z.leb_spec col i); destruct (Z.ltb_spec i (col + cols)); cbn [andb]; try reflexivity.
           specialize (A4 i ltac:(lia)). destruct (Z.eqb_spec (cmask (get r i)) (-1)); [lia|reflexivity].
    + intros i Hi. rewrite Mk2 by (rewrite L1; assumption). rewrite Mk1 by assumption.
      destruct (Z.leb_spec col1 i); destruct (Z.ltb_spec i (col1 + sl)); cbn [andb]; try reflexivity.
      symmetry. apply B4. lia.
Qed.

Theorem put_row_ok : forall mk r col cols startcol,
  WF r -> masks_ok r -> 0 <= col -> 0 <= cols -> col + cols <= len r ->
  shift_inv mk -> never_single mk ->
  exists r', put_row mk r col cols startcol = Ok r' /\ len r' = len r /\ WF r' /\ masks_ok r' /\
    (forall i, 0 <= i < len r ->
       abs_cell r' i = if (col <=? i) && (i <? col + cols) && (cmask (get r i) =? -1)
                       then content_at (mk (startcol + (i - col))) 0 else abs_cell r i) /\
    (forall i, 0 <= i < len r -> cmask (get r' i) = cmask (get r i)).
Proof.
  intros mk r col cols startcol W M Hcol Hcols Hend Hsh Hns. unfold put_row.
  destruct (Z.leb_spec 0 col); [|lia]. destruct (Z.leb_spec (col + cols) (len r)); [|lia]. cbn [andb].
  apply put_runs_ok; auto. lia.
Qed.
