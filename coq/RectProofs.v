(* RectProofs.v -- theorems about the model of src/rect.c (property C06). *)
From Coq Require Import ZArith List Bool Lia ZifyBool.
From Tickit Require Import RectDefs.
Import ListNotations.
Local Open Scope Z_scope.

Lemma cell_inb_iff r p : cell_inb r p = true <-> cell_in r p.
Proof. unfold cell_inb, cell_in. lia. Qed.

Lemma nonemptyb_iff r : nonemptyb r = true <-> nonempty r.
Proof. unfold nonemptyb, nonempty. lia. Qed.

Lemma covered_nil p : covered [] p <-> False.
Proof. unfold covered; split; [intros [r [[] _]]|tauto]. Qed.

Lemma covered_cons r s p : covered (r :: s) p <-> cell_in r p \/ covered s p.
Proof.
  unfold covered; split.
  - intros [r' [[->|Hin] Hc]]; [left; exact Hc|right; exists r'; auto].
  - intros [Hc|[r' [Hin Hc]]]; [exists r; simpl; auto|exists r'; simpl; auto].
Qed.

Lemma covered_app s1 s2 p : covered (s1 ++ s2) p <-> covered s1 p \/ covered s2 p.
Proof.
  induction s1 as [|r s1 IH]; simpl.
  - rewrite covered_nil; tauto.
  - rewrite !covered_cons, IH; tauto.
Qed.

Lemma coveredb_iff s p : coveredb s p = true <-> covered s p.
Proof.
  unfold coveredb, covered. rewrite existsb_exists.
  split; intros [r [Hin Hc]]; exists r; (split; [exact Hin|]); apply cell_inb_iff; exact Hc.
Qed.

(* ------------------------------------------------------------------ *)
(* intersect / intersects / contains                                   *)

Theorem intersect_some a b r :
  r_intersect a b = Some r ->
  nonempty r /\ forall p, cell_in r p <-> cell_in a p /\ cell_in b p.
Proof.
  unfold r_intersect, nonempty, cell_in, init_bounded, bottom, right.
  destruct a as [ta la ha wa], b as [tb lb hb wb]; cbn [top left lines cols].
  destruct (Z.max ta tb >=? Z.min (ta + ha) (tb + hb)) eqn:E1; [discriminate|].
  destruct (Z.max la lb >=? Z.min (la + wa) (lb + wb)) eqn:E2; [discriminate|].
  intros [= <-]; cbn [top left lines cols]. split; [lia|].
  intros [y x]; cbn [fst snd]. lia.
Qed.

Theorem intersect_none a b :
  r_intersect a b = None -> forall p, ~ (cell_in a p /\ cell_in b p).
Proof.
  unfold r_intersect, cell_in, init_bounded, bottom, right.
  destruct a as [ta la ha wa], b as [tb lb hb wb]; cbn [top left lines cols].
  destruct (Z.max ta tb >=? Z.min (ta + ha) (tb + hb)) eqn:E1.
  - intros _ [y x]; cbn [fst snd]; lia.
  - destruct (Z.max la lb >=? Z.min (la + wa) (lb + wb)) eqn:E2; [|discriminate].
    intros _ [y x]; cbn [fst snd]; lia.
Qed.

(* For non-empty rectangles the boolean agrees with the cell-wise definition. *)
Theorem intersects_iff a b : nonempty a -> nonempty b ->
  (r_intersects a b = true <-> exists p, cell_in a p /\ cell_in b p).
Proof.
  unfold r_intersects, nonempty, cell_in, bottom, right.
  destruct a as [ta la ha wa], b as [tb lb hb wb]; cbn [top left lines cols].
  intros Ha Hb; split.
  - intros H. exists (Z.max ta tb, Z.max la lb); cbn [fst snd]. lia.
  - intros [[y x] H]; cbn [fst snd] in H. lia.
Qed.

Theorem contains_iff large small : nonempty small ->
  (r_contains large small = true <-> forall p, cell_in small p -> cell_in large p).
Proof.
  unfold r_contains, nonempty, cell_in, bottom, right.
  destruct large as [ta la ha wa], small as [tb lb hb wb]; cbn [top left lines cols].
  intros Hs; split.
  - intros H [y x]; cbn [fst snd]. lia.
  - intros H.
    pose proof (H (tb, lb)) as H1. pose proof (H (tb + hb - 1, lb + wb - 1)) as H2.
    cbn [fst snd] in H1, H2. lia.
Qed.

(* ------------------------------------------------------------------ *)
(* add                                                                 *)

Ltac destr_if :=
  match goal with
  | |- context [if ?c then _ else _] =>
      lazymatch c with
      | context [if _ then _ else _] => fail
      | _ => destruct c eqn:?
      end
  end.

Ltac crush_cells :=
  unfold disjoint2;
  repeat match goal with
  | |- forall p : cell, _ => intros [? ?]
  end;
  rewrite ?covered_cons, ?covered_nil;
  unfold cell_in, nonempty, init_bounded, bottom, right in *;
  cbn [top left lines cols fst snd] in *; lia.

(* decide a goal of the shape (length <= n) /\ all_nonempty /\ pairwise_disjoint /\ cover
   for a list that has been computed down to explicit conses *)
Ltac list_spec :=
  cbn [length rev app pairwise_disjoint]; unfold all_nonempty;
  repeat match goal with
  | |- _ /\ _ => split
  | |- Forall _ [] => constructor
  | |- Forall _ (_ :: _) => constructor
  | |- True => exact I
  | |- (_ <= _)%nat => lia
  end; try crush_cells.

Definition add_spec (a b : rect) (s : list rect) : Prop :=
  (length s <= 3)%nat /\ all_nonempty s /\ pairwise_disjoint s /\
  forall p, covered s p <-> cell_in a p \/ cell_in b p.

Definition subtract_spec (a b : rect) (s : list rect) : Prop :=
  (length s <= 4)%nat /\ all_nonempty s /\ pairwise_disjoint s /\
  forall p, covered s p <-> cell_in a p /\ ~ cell_in b p.

Lemma add_ok a b : nonempty a -> nonempty b -> add_spec a b (r_add a b).
Proof.
  destruct a as [ta la ha wa], b as [tb lb hb wb].
  unfold nonempty, add_spec; cbn [top left lines cols].
  intros Ha Hb.
  unfold r_add, sort_rows, bottom, right; cbn [top left lines cols].
  destruct ((la >? lb + wb) || (lb >? la + wa) || (ta >? tb + hb) || (tb >? ta + ha)) eqn:Efar.
  - list_spec.
  - destruct (ta >? tb) eqn:E1; destruct (ta + ha >? tb + hb) eqn:E2; destr_if;
      try (exfalso; lia);
      unfold add_band, bottom, right, init_bounded; cbn [top left lines cols];
      repeat (destr_if; cbn [top left lines cols rev app]; try (exfalso; lia));
      list_spec.
Qed.

Lemma subtract_ok a b : nonempty a -> nonempty b -> subtract_spec a b (r_subtract a b).
Proof.
  destruct a as [ta la ha wa], b as [tb lb hb wb].
  unfold nonempty, subtract_spec; cbn [top left lines cols].
  intros Ha Hb.
  unfold r_subtract, r_contains, r_intersects, bottom, right, init_bounded;
    cbn [top left lines cols].
  repeat (destr_if; cbn [negb app top left lines cols]; try (exfalso; lia));
    list_spec.
Qed.

Lemma nonvacuous :
  nonempty (mkRect 0 0 2 2) /\ nonempty (mkRect 1 1 2 2) /\
  length (r_add (mkRect 0 0 2 2) (mkRect 1 1 2 2)) = 3%nat /\
  length (r_subtract (mkRect 0 0 3 3) (mkRect 1 1 1 1)) = 4%nat.
Proof. unfold nonempty; cbn [lines cols]; repeat split; try lia; vm_compute; reflexivity. Qed.
