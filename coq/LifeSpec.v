(* LifeSpec.v -- property C08: the discipline of a well-formed client, as an executable
   checker over the calls a client makes, and the boolean oracle built on it.

   Ownership protocol of windows (t/48window-refcount.c, tickit_window_new(3),
   tickit_window_close(3)): a new window carries one reference, the creation reference.
   It is released either by the client's unref or, while the window is still attached, by
   the destruction of its parent -- whichever comes first.  Further references are taken
   with ref and dropped with unref.  After close "the only operation that is defined any
   more is unref"; a window in a subtree that has left the tree only counts references.

   Ghost state: per window (in creation order; the root is number 0) the number of
   references the client holds, and the parent it is attached to.  The checker never looks
   at the implementation's heap. *)
From Coq Require Import ZArith List Bool PArith Lia.
From Tickit Require Import LifeDefs.
Import ListNotations.
Local Open Scope Z_scope.

Record gwin := mkG { g_cnt : Z; g_par : option nat; g_closed : bool }.
Definition ghost := list gwin.

Definition idx (a : positive) : nat := Nat.pred (Pos.to_nat a).
Definition g0 : ghost := [mkG 1 None false].

Definition gget (g : ghost) (i : nat) : option gwin := nth_error g i.
Definition gheld (g : ghost) (i : nat) : bool :=
  match gget g i with Some w => 0 <? g_cnt w | None => false end.

(* attached, through windows the client has not let go of, to the live root *)
Fixpoint gintree_n (fuel : nat) (g : ghost) (i : nat) : bool :=
  match fuel with
  | O => false
  | S f =>
    match gget g i with
    | None => false
    | Some w =>
      (0 <? g_cnt w) &&
      match i, g_par w with
      | O, _ => true
      | S _, Some p => gintree_n f g p
      | S _, None => false
      end
    end
  end.
Definition gintree (g : ghost) (i : nat) : bool := gintree_n (S (length g)) g i.
Definition gusable (g : ghost) (i : nat) : bool :=
  gheld g i && gintree g i && match gget g i with Some w => negb (g_closed w) | None => false end.

Fixpoint gtop_n (fuel : nat) (g : ghost) (i : nat) : nat :=
  match fuel with
  | O => i
  | S f => match gget g i with
           | Some w => match g_par w with Some p => gtop_n f g p | None => i end
           | None => i
           end
  end.
Definition gtop (g : ghost) (i : nat) : nat := gtop_n (S (length g)) g i.

Fixpoint gset (g : ghost) (i : nat) (w : gwin) : ghost :=
  match g, i with
  | [], _ => []
  | _ :: t, O => w :: t
  | x :: t, S i' => x :: gset t i' w
  end.

(* destruction of window [w]: one pass in creation order (a parent is older than its children).
   A window attached to a doomed one loses its creation reference and its parent; if that was
   its last reference it is doomed too. *)
Fixpoint gdestroy_pass (g : ghost) (i : nat) (w : nat) (doomed : list nat) : ghost :=
  match g with
  | [] => []
  | x :: t =>
    if Nat.eqb i w then mkG 0 None (g_closed x) :: gdestroy_pass t (S i) w (i :: doomed)
    else
      match g_par x with
      | Some p =>
        if existsb (Nat.eqb p) doomed && (0 <? g_cnt x) then
          if g_cnt x =? 1 then mkG 0 None (g_closed x) :: gdestroy_pass t (S i) w (i :: doomed)
          else mkG (g_cnt x - 1) None (g_closed x) :: gdestroy_pass t (S i) w doomed
        else x :: gdestroy_pass t (S i) w doomed
      | None => x :: gdestroy_pass t (S i) w doomed
      end
  end.
Definition gdestroy (g : ghost) (w : nat) : ghost := gdestroy_pass g O w [].

Definition gupd (g : ghost) (i : nat) (f : gwin -> gwin) : ghost :=
  match gget g i with Some w => gset g i (f w) | None => g end.

(* one client call; None = the client had no right to make it *)
Definition gstep (g : ghost) (o : op) : option ghost :=
  match o with
  | ONew p _ _ rootparent _ =>
    if gusable g (idx p)
    then Some (g ++ [mkG 1 (Some (if rootparent then gtop g (idx p) else idx p)) false])
    else None
  | ORef w => if gheld g (idx w) then Some (gupd g (idx w) (fun x => mkG (g_cnt x + 1) (g_par x) (g_closed x))) else None
  | OUnref w =>
    match gget g (idx w) with
    | Some x =>
      if 0 <? g_cnt x then
        if g_cnt x =? 1 then Some (gdestroy g (idx w))
        else Some (gset g (idx w) (mkG (g_cnt x - 1) (g_par x) (g_closed x)))
      else None
    | None => None
    end
  | OClose w =>
    match gget g (idx w) with
    | Some x =>
      if (0 <? g_cnt x) && (match g_par x with Some _ => true | None => Nat.eqb (idx w) O end)
      then Some (gset g (idx w) (mkG (g_cnt x) None true))
      else None
    | None => None
    end
  | ORestack c w => if is_restack c && gusable g (idx w) then Some g else None
  | OShow w | OHide w | OFocus w | OSteal w _ | ONotify w _ | OExpose w | OGetRoot w | OBind w _ _ _ _ _ | OUnbind w _ | OGeom w | OMove w =>
    if gusable g (idx w) then Some g else None
  | OFlush w => if Nat.eqb (idx w) O && gusable g O then Some g else None
  | OTouch w j _ => if gusable g (idx w) && (match j with Some a => gusable g (idx a) | None => true end) then Some g else None
  | OKey | OMouse _ | OResize | ONop => Some g
  | OFrameRef _ | OFrameUnref _ => Some g          (* the library's own references: not the client's business *)
  end.

Fixpoint gcheck (g : ghost) (l : list op) : option ghost :=
  match l with
  | [] => Some g
  | o :: l' => match gstep g o with Some g' => gcheck g' l' | None => None end
  end.

Definition wf_client (l : list op) : bool := match gcheck g0 l with Some _ => true | None => false end.
Definition all_dropped (g : ghost) : bool := forallb (fun x => g_cnt x =? 0) g.

(* The oracle for one run: [tr] the client calls that were executed, in order (those made by
   handlers included); [completed] = the run ended without a fault, an abort or a read of a
   never-written field; [leak] = something was still allocated after the harness had dropped
   what it owns itself. *)
Definition oracle_W (tr : list op) (completed leak : bool) : bool :=
  match gcheck g0 tr with
  | None => true                                  (* not a well-formed client: nothing is demanded *)
  | Some g => completed && (negb (all_dropped g) || negb leak)
  end.

(* ---- other object kinds: the client may use an object while it holds a reference to it;
        a constructor that adopts an object takes over one of the client's references ------- *)
Definition oghost := list Z.      (* references the client holds, per object in creation order *)
Definition oheld (g : oghost) (i : positive) : bool :=
  match nth_error g (idx i) with Some c => 0 <? c | None => false end.
Fixpoint oset (g : oghost) (i : nat) (v : Z) : oghost :=
  match g, i with
  | [], _ => []
  | _ :: t, O => v :: t
  | x :: t, S i' => x :: oset t i' v
  end.
Definition oadd (g : oghost) (i : positive) (d : Z) : oghost :=
  match nth_error g (idx i) with Some c => oset g (idx i) (c + d) | None => g end.
Definition ogstep (g : oghost) (o : oop) : option oghost :=
  match o with
  | ObNew adopt reads =>
    if forallb (oheld g) adopt && forallb (oheld g) reads then Some (fold_left (fun g i => oadd g i (-1)) adopt g ++ [1]) else None
  | ObRef i => if oheld g i then Some (oadd g i 1) else None
  | ObUnref i => if oheld g i then Some (oadd g i (-1)) else None
  | ObUse l => if forallb (oheld g) l then Some g else None
  end.
Fixpoint ogcheck (g : oghost) (l : list oop) : option oghost :=
  match l with
  | [] => Some g
  | o :: l' => match ogstep g o with Some g' => ogcheck g' l' | None => None end
  end.
Definition oracle_O (l : list oop) (completed leak : bool) : bool :=
  match ogcheck [] l with
  | None => true
  | Some g => completed && (negb (forallb (fun c => c =? 0) g) || negb leak)
  end.

(* ---- copy-out: the call must not have written beyond the buffer (the harness allocates
        exactly [len] bytes, so a sanitizer report is a write beyond the length given) ------ *)
Definition oracle_T (completed : bool) : bool := completed.
