(* Csi.v -- control-sequence tokens, the byte rendering the xterm driver uses, and an
   ECMA-48 lexer.  Part of the specification shared by C09, C10 and C12.

   Bytes are Z (0..255).  A CSI's parameters are a list of groups (separated by ';'),
   each group a list of sub-parameters (separated by ':'), each possibly omitted. *)
From Coq Require Import ZArith List Bool Lia.
Import ListNotations.
Local Open Scope Z_scope.

Inductive token :=
| TChar (b : Z)                     (* a graphic byte, >= 0x20 *)
| TCtl (b : Z)                      (* a C0 control other than ESC *)
| TCsi (priv : option Z) (params : list (list (option Z))) (inter : list Z) (final : Z)
| TEsc (inter : list Z) (final : Z)
| TStr (kind : Z) (body : list Z)   (* OSC / DCS / SOS / PM / APC ... ST *)
| TBad (what : Z).                  (* malformed or truncated input *)

(* ---- decimal numerals, as printf("%d") writes them *)
Fixpoint dec_go (fuel : nat) (n : Z) (acc : list Z) : list Z :=
  match fuel with
  | O => acc
  | S f => let acc' := (48 + n mod 10) :: acc in
           if n <? 10 then acc' else dec_go f (n / 10) acc'
  end.
Definition dec (n : Z) : list Z :=
  if n <? 0 then 45 :: dec_go (S (Z.to_nat (Z.log2 (- n)))) (- n) []
  else dec_go (S (Z.to_nat (Z.log2 n))) n [].

Definition render_opt (o : option Z) : list Z := match o with None => [] | Some n => dec n end.
Fixpoint join (sep : Z) (xs : list (list Z)) : list Z :=
  match xs with
  | [] => []
  | x :: r => match r with [] => x | _ :: _ => x ++ sep :: join sep r end
  end.
Definition render_group (g : list (option Z)) : list Z := join 58 (map render_opt g).
Definition render_params (ps : list (list (option Z))) : list Z := join 59 (map render_group ps).

Definition render_tok (t : token) : list Z :=
  match t with
  | TChar b => [b]
  | TCtl b => [b]
  | TCsi priv ps inter fin =>
      27 :: 91 :: (match priv with Some p => [p] | None => [] end) ++ render_params ps ++ inter ++ [fin]
  | TEsc inter fin => 27 :: inter ++ [fin]
  | TStr k body => 27 :: k :: body ++ [27; 92]
  | TBad _ => []
  end.
Definition render (ts : list token) : list Z := flat_map render_tok ts.

(* ---- lexer: ECMA-48 5.4 control sequences, 8.3.89 etc. control strings *)
Inductive lst :=
| SGround
| SEsc (inter : list Z)                                            (* reversed *)
| SCsi (priv : option Z) (groups : list (list (option Z))) (grp : list (option Z))
       (cur : option Z) (empty : bool)                             (* groups, grp reversed *)
| SCsiInter (priv : option Z) (params : list (list (option Z))) (inter : list Z)
| SCsiIgnore
| SStr (kind : Z) (body : list Z)
| SStrEsc (kind : Z) (body : list Z).

Definition finish_params (groups : list (list (option Z))) (grp : list (option Z))
           (cur : option Z) (empty : bool) : list (list (option Z)) :=
  if empty then [] else rev (rev (cur :: grp) :: groups).

Definition is_strkind (b : Z) : bool :=
  (b =? 93) || (b =? 80) || (b =? 88) || (b =? 94) || (b =? 95).

Definition lex_step (st : lst) (b : Z) : lst * list token :=
  match st with
  | SGround =>
      if b =? 27 then (SEsc [], [])
      else if 32 <=? b then (SGround, [TChar b]) else (SGround, [TCtl b])
  | SEsc inter =>
      match inter with
      | [] => if b =? 91 then (SCsi None [] [] None true, [])
              else if is_strkind b then (SStr b [], [])
              else if (32 <=? b) && (b <=? 47) then (SEsc [b], [])
              else if (48 <=? b) && (b <=? 126) then (SGround, [TEsc [] b])
              else (SGround, [TBad b])
      | _ :: _ => if (32 <=? b) && (b <=? 47) then (SEsc (b :: inter), [])
              else if (48 <=? b) && (b <=? 126) then (SGround, [TEsc (rev inter) b])
              else (SGround, [TBad b])
      end
  | SCsi priv groups grp cur empty =>
      if (48 <=? b) && (b <=? 57) then
        (SCsi priv groups grp (Some (10 * (match cur with Some c => c | None => 0 end) + (b - 48))) false, [])
      else if b =? 58 then (SCsi priv groups (cur :: grp) None false, [])
      else if b =? 59 then (SCsi priv (rev (cur :: grp) :: groups) [] None false, [])
      else if (60 <=? b) && (b <=? 63) then
        (match priv with
         | None => if empty then (SCsi (Some b) groups grp cur true, []) else (SCsiIgnore, [])
         | Some _ => (SCsiIgnore, [])
         end)
      else if (32 <=? b) && (b <=? 47) then (SCsiInter priv (finish_params groups grp cur empty) [b], [])
      else if (64 <=? b) && (b <=? 126) then (SGround, [TCsi priv (finish_params groups grp cur empty) [] b])
      else (SGround, [TBad b])
  | SCsiInter priv ps inter =>
      if (32 <=? b) && (b <=? 47) then (SCsiInter priv ps (b :: inter), [])
      else if (64 <=? b) && (b <=? 126) then (SGround, [TCsi priv ps (rev inter) b])
      else if (48 <=? b) && (b <=? 63) then (SCsiIgnore, [])
      else (SGround, [TBad b])
  | SCsiIgnore =>
      if (64 <=? b) && (b <=? 126) then (SGround, [TBad b]) else (SCsiIgnore, [])
  | SStr k body =>
      if b =? 27 then (SStrEsc k body, []) else (SStr k (b :: body), [])
  | SStrEsc k body =>
      if b =? 92 then (SGround, [TStr k (rev body)]) else (SGround, [TBad b])
  end.

Fixpoint lex_go (st : lst) (bs : list Z) : list token :=
  match bs with
  | [] => match st with SGround => [] | _ => [TBad 0] end
  | b :: r => let (st', out) := lex_step st b in out ++ lex_go st' r
  end.
Definition lex (bs : list Z) : list token := lex_go SGround bs.

(* ---- well-formed tokens: the ones [lex] can return, i.e. the canonical forms *)
Definition wf_byte_range (lo hi : Z) (bs : list Z) : Prop := Forall (fun b => lo <= b <= hi) bs.
Definition wf_param (o : option Z) : Prop := match o with None => True | Some n => 0 <= n end.
Definition wf_params (ps : list (list (option Z))) : Prop :=
  Forall (fun g => g <> [] /\ Forall wf_param g) ps /\ ps <> [[None]].
Definition wf_token (t : token) : Prop :=
  match t with
  | TChar b => 32 <= b
  | TCtl b => b < 32 /\ b <> 27
  | TCsi priv ps inter fin =>
      (match priv with None => True | Some p => 60 <= p <= 63 end) /\
      wf_params ps /\ wf_byte_range 32 47 inter /\ 64 <= fin <= 126
  | TEsc inter fin =>
      wf_byte_range 32 47 inter /\ 48 <= fin <= 126 /\
      (inter = [] -> fin <> 91 /\ is_strkind fin = false)
  | TStr k body => is_strkind k = true /\ Forall (fun b => b <> 27) body
  | TBad _ => False
  end.
