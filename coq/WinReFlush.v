(* WinReFlush.v -- expose handlers that FLUSH the root or change a window's GEOMETRY while a
   flush is running (on top of WinReDefs.v's calls: expose / show / hide / restack / close).

   A nested tickit_window_flush(root) is a complete flush of its own: it applies the queued
   restacks, takes over the damage registered so far, renders it into a FRESH render buffer
   and sends that to the terminal at once -- before the outer flush sends its buffer.  So the
   terminal and the order of the children can change under the outer traversal; _do_expose
   copies a window's child list when it starts on that window, and reads a child's rectangle
   when it reaches it (for the clip and the translation) and again after the child's expose
   (for the mask).  The traversal here therefore looks everything up in the CURRENT state
   (by window id, tree first, then the detached subtrees) and recurses on fuel.

   The handlers of a nested flush only draw (harness: calls are made at the outermost level). *)
From Coq Require Import ZArith List Bool.
From Tickit Require Import RectDefs WinRectSet WinDefs WinHist WinInput WinReDefs.
Import ListNotations.
Local Open Scope Z_scope.

Inductive ract2 :=
| RA (a : ract)
| RFlush                                   (* tickit_window_flush(root) *)
| RGeom (id : Z) (r : rect) (ex : bool).   (* tickit_window_set_geometry; ex: followed by the
                                              application's exposes of the old and the new area *)

(* what the traversal threads besides the render buffer *)
Record fstate := mkFS { fs_root : root; fs_term : term; fs_log : list (Z * rect) }.

Definition fs_set_root (s : fstate) (st : root) : fstate := mkFS st (fs_term s) (fs_log s).

Definition run_act2 (cfg : defects) (hnd : handler) (s : fstate) (a : ract2) : fstate :=
  match a with
  | RA a' => fs_set_root s (run_act cfg (fs_root s) a')
  | RFlush =>
    let '(st', tm', lg) := win_flush cfg hnd (fs_root s) (fs_term s) in
    mkFS st' tm' (fs_log s ++ lg)
  | RGeom id r ex =>
    let st := fs_root s in
    fs_set_root s (geom_exposes st (win_set_geometry st id r) id ex)
  end.

Definition run_acts2 (cfg : defects) (hnd : handler) (acts : list ract2) (s : fstate) : fstate :=
  fold_left (run_act2 cfg hnd) acts s.

Definition rhandler2 := Z -> rect -> fstate * rbuf -> fstate * rbuf.

(* the expose event is logged, the window's program drawn, then its scripted calls are made *)
Definition re_handler2 (cfg : defects) (hnd : handler) (racts : Z -> list ract2) : rhandler2 :=
  fun id handed sb =>
    let s := fst sb in
    (run_acts2 cfg hnd (racts id) (mkFS (fs_root s) (fs_term s) (fs_log s ++ [(id, handed)])),
     hnd id handed (snd sb)).

Definition efuel : nat := 64.

Fixpoint do_expose2 (fuel : nat) (rh : rhandler2) (w : Z) (r : rect) (sb : fstate * rbuf) : fstate * rbuf :=
  match fuel with
  | O => sb
  | S f =>
    (* the copy of the child list, taken now *)
    let kids := match f_find (fs_root (fst sb)) w with
                | Some n => map t_id (t_kids n)
                | None => []
                end in
    let sb1 :=
      fold_left
        (fun (sb : fstate * rbuf) (c : Z) =>
           let st := fs_root (fst sb) in
           if negb (child_now st w c) then sb else
           match f_find st c with
           | None => sb
           | Some cn =>
             let cr := w_rect (t_info cn) in
             if negb (w_vis (t_info cn)) then sb else
             let sb' :=
               match r_intersect r cr with
               | Some ex =>
                 let b1 := rb_translate (rb_clip_to (rb_save (snd sb)) ex) (top cr) (left cr) in
                 let sb2 := do_expose2 f rh c (r_translate ex (- top cr) (- left cr)) (fst sb, b1) in
                 (fst sb2, rb_restore (snd sb2))
               | None => sb
               end in
             let st' := fs_root (fst sb') in
             (fst sb',
              if child_now st' w c
              then match f_find st' c with
                   | Some cn' => rb_mask_rect (snd sb') (w_rect (t_info cn'))   (* where it is NOW *)
                   | None => snd sb'
                   end
              else snd sb')
           end) kids sb in
    rh w r sb1
  end.

Definition flush_rb2 (rh : rhandler2) (rects : list rect) (sb : fstate * rbuf) : fstate * rbuf :=
  fold_left (fun sb r =>
               let sb1 := (fst sb, rb_clip_to (rb_save (snd sb)) r) in
               let sb2 := do_expose2 efuel rh (t_id (r_tree (fs_root (fst sb)))) r sb1 in
               (fst sb2, rb_restore (snd sb2))) rects sb.

Definition win_flush2 (cfg : defects) (rh : rhandler2) (st : root) (tm : term)
  : root * term * list (Z * rect) :=
  if negb (r_later st) then (st, tm, []) else
  let st1 := set_flags st (r_nexp st) (r_nrest st) false in
  let st2 := fold_left (fun s e => match e with (k, p, w) => do_hchange s k p w end)
                       (r_queue st1) (set_queue st1 []) in
  let '(st3, tm3, lg) :=
    if r_nexp st2 then
      let rects := flush_rects cfg st2 in
      let rs := root_selfrect st2 in
      let st2' := set_flags (set_damage st2 []) false (r_nrest st2) (r_later st2) in
      let sb := flush_rb2 rh rects (mkFS st2' tm [], rb_new (lines rs) (cols rs)) in
      let s := fst sb in
      (set_flags (fs_root s) (r_nexp (fs_root s)) true (r_later (fs_root s)),
       term_flush_rb (term_set_cvis (fs_term s) false) (snd sb),
       fs_log s)
    else (st2, tm, []) in
  if r_nrest st3 then
    (set_flags st3 (r_nexp st3) false (r_later st3), do_restore (r_tree st3) tm3, lg)
  else (st3, tm3, lg).

Definition step2 (cfg : defects) (progs : Z -> list dop) (racts : Z -> list ract2) (o : op) (m : mstate) : mstate :=
  match o with
  | OFlush =>
    let hnd := prog_handler (m_app m) progs in
    let '(st', tm', lg) := win_flush2 cfg (re_handler2 cfg hnd racts) (m_root m) (m_term m) in
    mkM st' tm' (m_app m) (m_gen m) lg (m_fevs m) (m_srecs m)
  | _ => step cfg progs o m
  end.
