From Coq Require Extraction.
From Coq Require Import ExtrOcamlBasic.
From Tickit Require Import RectDefs RBDefs RBSpec.
Extraction "mC03.ml" rb_new step a_new astep dump_checkb api_of abs_rb wf_rbb ast_eqb aux_eqb
  grapheme_at cpw text_valid text_width.
