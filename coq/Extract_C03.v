From Coq Require Extraction.
From Coq Require Import ExtrOcamlBasic.
From Tickit Require Import RectDefs RBDefs RBSpec.
From Tickit Require PenDefs.
Extraction "mC03.ml" rb_new pget pen_build pen_empty PenDefs.attr_type step a_new astep dump_checkb api_of abs_rb wf_rbb ast_eqb aux_eqb
  grapheme_at cpw text_valid text_width.
