(* WinScrollRegion.v -- the visible region computed by scroll_region (the upward loop of
   _scrollrectset, repaired code): a screen cell q lies in it exactly when the descent of
   owner_rel from the root arrives at the scrolled window at a position of the start region
   (scroll_region_spec); the accumulated offset is the window's absolute origin. *)
From Coq Require Import ZArith List Bool Lia ZifyBool.
From Tickit Require Import RectDefs RectProofs WinRectSet WinRectSetProofs WinDefs WinSpec
  WinExposeProofs WinFlushProofs WinLogDisjoint WinScreenInv WinLocality WinPreserve WinScrollDesc.
Import ListNotations.
Local Open Scope Z_scope.
Local Strategy 1000 [rsfuel].

Section Fuel.
Context {rfuel : nat}.

(* every visible window has a non-empty rectangle *)
Definition vis_nonempty (t : wtree) : Prop :=
  forall n, subtree n t -> w_vis (t_info n) = true -> nonempty (w_rect (t_info n)).

Lemma vis_nonempty_kid i ch c : In c ch -> vis_nonempty (Node i ch) -> vis_nonempty c.
Proof. intros Hin H n Hs. apply H. eapply sub_kid; eassumption. Qed.

Lemma vis_nonempty_kids i ch l :
  incl l ch -> vis_nonempty (Node i ch) ->
  Forall (fun c => w_vis (t_info c) = true -> nonempty (w_rect (t_info c))) l.
Proof.
  intros Hincl H. apply Forall_forall. intros c Hc. apply H.
  eapply sub_kid; [apply Hincl; exact Hc|constructor].
Qed.

Lemma vis_cover_false_iff l q :
  vis_cover l q = false <->
  forall c, In c l -> w_vis (t_info c) = true -> ~ cell_in (w_rect (t_info c)) q.
Proof.
  unfold vis_cover. induction l as [|a r IH]; cbn [existsb].
  - split; [intros _ c []|reflexivity].
  - rewrite orb_false_iff, IH. split.
    + intros [Ha Hr] c [<-|Hc] Hv Hin.
      * rewrite Hv in Ha. cbn [andb] in Ha. apply cell_inb_iff in Hin. congruence.
      * exact (Hr c Hc Hv Hin).
    + intros H. split.
      * destruct (w_vis (t_info a)) eqn:Hv; [|reflexivity]. cbn [andb].
        destruct (cell_inb (w_rect (t_info a)) q) eqn:E; [|reflexivity].
        exfalso. apply (H a (or_introl eq_refl) Hv). apply cell_inb_iff. exact E.
      * intros c Hc. apply H. right. exact Hc.
Qed.

Lemma kids_before_split id l1 c l2 :
  (forall a, In a l1 -> t_id a <> id) -> t_id c = id -> kids_before id (l1 ++ c :: l2) = l1.
Proof.
  intros H Hc. induction l1 as [|a r IH]; cbn [app kids_before].
  - replace (t_id c =? id) with true by lia. reflexivity.
  - pose proof (H a (or_introl eq_refl)) as Ha. replace (t_id a =? id) with false by lia.
    rewrite IH; [reflexivity|]. intros x Hx. apply H. right. exact Hx.
Qed.

(* ------------------------------------------------------------------------------------ *)
(* one level of the upward loop, and the loop with the parent appended                   *)

Definition step_up (cfg : defects) (w par : wtree) (v : rectset) (a b : Z) : sregion :=
  let i := t_info w in
  let v1 := rs_translate v (top (w_rect i)) (left (w_rect i)) in
  match rs_sub_vis rfuel (Some v1) (kids_before (w_id i) (t_kids par)) with
  | None => SFault
  | Some v2 =>
    match (if d_scroll_noclip cfg then Some v2 else rs_clip rfuel v2 (selfrect (t_info par))) with
    | None => SFault
    | Some v3 =>
      if negb (w_vis (t_info par)) then SInvisible
      else SRegion v3 (a + top (w_rect i)) (b + left (w_rect i))
    end
  end.

Lemma scroll_region_snoc2 cfg : forall l w par v a b,
  scroll_region cfg rfuel (l ++ [w; par]) v a b =
  match scroll_region cfg rfuel (l ++ [w]) v a b with
  | SRegion v' a' b' => step_up cfg w par v' a' b'
  | SFault => SFault
  | SInvisible => SInvisible
  end.
Proof.
  induction l as [|x l IH]; intros w par v a b.
  - cbn [app scroll_region]. destruct (negb (w_vis (t_info w))); [reflexivity|].
    unfold step_up.
    destruct (rs_sub_vis rfuel (Some (rs_translate v (top (w_rect (t_info w))) (left (w_rect (t_info w)))))
                         (kids_before (w_id (t_info w)) (t_kids par))) as [v2|]; [|reflexivity].
    destruct (if d_scroll_noclip cfg then Some v2 else rs_clip rfuel v2 (selfrect (t_info par))) as [v3|];
      reflexivity.
  - destruct l as [|y l'].
    + cbn [app scroll_region]. destruct (negb (w_vis (t_info x))); [reflexivity|].
      destruct (rs_sub_vis rfuel (Some (rs_translate v (top (w_rect (t_info x))) (left (w_rect (t_info x)))))
                           (kids_before (w_id (t_info x)) (t_kids w))) as [v2|]; [|reflexivity].
      destruct (if d_scroll_noclip cfg then Some v2 else rs_clip rfuel v2 (selfrect (t_info w))) as [v3|];
        [|reflexivity].
      apply (IH w par).
    + cbn [app scroll_region]. destruct (negb (w_vis (t_info x))); [reflexivity|].
      destruct (rs_sub_vis rfuel (Some (rs_translate v (top (w_rect (t_info x))) (left (w_rect (t_info x)))))
                           (kids_before (w_id (t_info x)) (t_kids y))) as [v2|]; [|reflexivity].
      destruct (if d_scroll_noclip cfg then Some v2 else rs_clip rfuel v2 (selfrect (t_info y))) as [v3|];
        [|reflexivity].
      apply (IH w par).
Qed.

(* ------------------------------------------------------------------------------------ *)
(* what the loop computes                                                                *)

Theorem scroll_region_spec pid ch ch' t t' D :
  kids_changed pid ch ch' t t' D ->
  NoDup (t_ids t) -> vis_nonempty t ->
  forall pth v, t_path pid t = Some (t :: pth) -> Inv v ->
  (forall i, subtree (Node i ch) t -> w_id i = pid -> forall p, covered v p -> cell_in (selfrect i) p) ->
  match scroll_region no_defects rfuel (rev (t :: pth)) v 0 0 with
  | SFault => True
  | SInvisible => w_vis (t_info t) = false \/ forall q, desc pid t q = None
  | SRegion V a b =>
    w_vis (t_info t) = true /\ Inv V /\ a = off_t D /\ b = off_l D /\
    forall q, covered V q <->
              cell_in (selfrect (t_info t)) q /\ exists p, desc pid t q = Some p /\ covered v p
  end.
Proof.
  induction 1 as [i Hi|i l1 c c' l2 D Hi Hl1 Hkc IH]; intros Hnd Hvn pth v Hp Hinv Hv.
  - rewrite t_path_unfold in Hp. replace (w_id i =? pid) with true in Hp by lia.
    injection Hp as <-. cbn [rev app scroll_region t_info].
    destruct (w_vis i) eqn:Evis; cbn [negb]; [|left; reflexivity].
    split; [reflexivity|]. split; [exact Hinv|]. split; [reflexivity|]. split; [reflexivity|].
    intros q. rewrite desc_unfold. replace (w_id i =? pid) with true by lia. split.
    + intros Hq. split; [apply (Hv i (sub_here _) Hi); exact Hq|]. exists q. split; [reflexivity|exact Hq].
    + intros [_ (p & E & Hq)]. injection E as <-. exact Hq.
  - pose proof (nodup_node _ _ Hnd) as [Hni Hndk].
    pose proof (nodup_split _ _ _ Hndk) as (_ & Nc & _ & Xc & _).
    pose proof (kc_in _ _ _ _ _ _ Hkc) as Hpc.
    destruct (kc_path _ _ _ _ _ _ (kc_sym _ _ _ _ _ _ Hkc)) as (pthc & Hpthc & _).
    rewrite t_path_unfold in Hp. replace (w_id i =? pid) with false in Hp by lia.
    rewrite (path_go_skip _ _ _ Hl1), path_go_cons, Hpthc in Hp. injection Hp as <-.
    change (rev (Node i (l1 ++ c :: l2) :: c :: pthc))
      with ((rev pthc ++ [c]) ++ [Node i (l1 ++ c :: l2)]).
    rewrite <- app_assoc. cbn [app]. rewrite scroll_region_snoc2.
    change (rev pthc ++ [c]) with (rev (c :: pthc)).
    assert (Hvnc : vis_nonempty c) by (apply (vis_nonempty_kid i _ c (in_elt c l1 l2) Hvn)).
    assert (Hvc : forall j, subtree (Node j ch) c -> w_id j = pid ->
                            forall p, covered v p -> cell_in (selfrect j) p).
    { intros j Hs. apply Hv. eapply sub_kid; [apply in_elt|exact Hs]. }
    specialize (IH Nc Hvnc pthc v Hpthc Hinv Hvc).
    assert (Hdesc : forall q, desc pid (Node i (l1 ++ c :: l2)) q =
              if vis_cover l1 q then None
              else if w_vis (t_info c) && cell_inb (w_rect (t_info c)) q
                   then desc pid c (fst q - top (w_rect (t_info c)), snd q - left (w_rect (t_info c)))
                   else None).
    { intros q. apply desc_node; assumption. }
    destruct (scroll_region no_defects rfuel (rev (c :: pthc)) v 0 0) as [| |V1 a1 b1].
    + exact I.
    + right. intros q. rewrite Hdesc. destruct (vis_cover l1 q); [reflexivity|].
      destruct IH as [Hvis|Hnone].
      * rewrite Hvis. reflexivity.
      * destruct (w_vis (t_info c) && cell_inb (w_rect (t_info c)) q); [apply Hnone|reflexivity].
    + destruct IH as (Hvisc & HinvV1 & Ha1 & Hb1 & Hcov1).
      unfold step_up. cbn [d_scroll_noclip no_defects t_kids].
      assert (Hkb : kids_before (w_id (t_info c)) (l1 ++ c :: l2) = l1).
      { apply kids_before_split; [|reflexivity]. intros x Hx Heq.
        change (w_id (t_info c)) with (t_id c) in Heq.
        apply (proj1 (Xc (t_id c) (t_id_in c))). rewrite <- Heq.
        eapply in_kid_ids; [exact Hx|apply t_id_in]. }
      rewrite Hkb.
      set (v1 := rs_translate V1 (top (w_rect (t_info c))) (left (w_rect (t_info c)))).
      assert (Hinv1 : Inv v1) by (apply rs_translate_inv; exact HinvV1).
      destruct (rs_sub_vis rfuel (Some v1) l1) as [v2|] eqn:E2; [|exact I].
      destruct (rs_sub_vis_exact (rfuel:=rfuel) l1 v1 v2 Hinv1) as [Hinv2 Hcov2]; [|exact E2|].
      { apply (vis_nonempty_kids i (l1 ++ c :: l2)); [|exact Hvn].
        intros x Hx. apply in_or_app. left. exact Hx. }
      destruct (rs_clip rfuel v2 (selfrect (t_info (Node i (l1 ++ c :: l2))))) as [v3|] eqn:E3; [|exact I].
      destruct (rs_clip_inv_any _ _ _ E3) as [Hinv3 Hcov3].
      cbn [t_info] in *.
      destruct (w_vis i) eqn:Evis; cbn [negb]; [|left; reflexivity].
      split; [reflexivity|]. split; [exact Hinv3|].
      split; [cbn [off_t]; lia|]. split; [cbn [off_l]; lia|].
      intros q. rewrite Hcov3, Hcov2. unfold v1. rewrite rs_translate_covered, Hcov1.
      rewrite <- vis_cover_false_iff. rewrite Hdesc.
      split.
      * intros [[[Hself (p & Hd & Hvp)] Hcover] Hq]. split; [exact Hq|].
        exists p. rewrite Hcover, Hvisc. cbn [andb].
        assert (Hin : cell_inb (w_rect (t_info c)) q = true).
        { apply cell_inb_iff.
          unfold cell_in, selfrect, bottom, right in *; cbn [top left lines cols fst snd] in *. lia. }
        rewrite Hin. split; [exact Hd|exact Hvp].
      * intros [Hq (p & Hd & Hvp)].
        destruct (vis_cover l1 q) eqn:Ecover; [discriminate|].
        destruct (w_vis (t_info c) && cell_inb (w_rect (t_info c)) q) eqn:Ec; [|discriminate].
        apply andb_true_iff in Ec. destruct Ec as [_ Ec]. apply cell_inb_iff in Ec.
        split; [|exact Hq]. split; [|reflexivity]. split.
        -- unfold cell_in, selfrect, bottom, right in *; cbn [top left lines cols fst snd] in *. lia.
        -- exists p. split; [exact Hd|exact Hvp].
Qed.

End Fuel.
