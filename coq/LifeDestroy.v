(* LifeDestroy.v -- tickit_window_close, the release of the root's queue, and the mutual
   recursion tickit_window_unref / tickit_window_destroy / its loop over the children. *)
From Coq Require Import ZArith List Bool PArith FMapPositive Lia.
From Tickit Require Import LifeDefs LifeLemmas LifeChains LifeInv LifePure LifeWalks LifeRelink LifeRemove LifeClose LifeQueue.
Import ListNotations.
Local Open Scope Z_scope.

(* the window part of [keeps] *)
Record wkeeps (h h' : heap) : Prop := mk_wkeeps {
  wk_wins : forall a c, findw h a = Some c ->
    exists c', findw h' a = Some c' /\ (w_parent c' = w_parent c \/ w_parent c' = None) /\
               w_ref c' = w_ref c /\ w_isroot c' = w_isroot c;
  wk_dom : forall a, findw h a = None -> findw h' a = None
}.

Lemma wkeeps_refl : forall h, wkeeps h h.
Proof. intro h. constructor; eauto 10. Qed.

Lemma wkeeps_trans : forall h1 h2 h3, wkeeps h1 h2 -> wkeeps h2 h3 -> wkeeps h1 h3.
Proof.
  intros h1 h2 h3 [W1 D1] [W2 D2]. constructor; auto.
  intros a c1 H1. destruct (W1 a c1 H1) as [c2 [H2 [Hp2 [Hr2 Hi2]]]].
  destruct (W2 a c2 H2) as [c3 [H3 [Hp3 [Hr3 Hi3]]]]. exists c3. split; auto. split; [|split; congruence].
  destruct Hp3 as [E|E]; [rewrite E; auto | auto].
Qed.

Lemma keeps_wkeeps : forall h h', keeps h h' -> wkeeps h h'.
Proof. intros h h' [W Dm _ _]. constructor; auto. Qed.

Lemma same_wins_wkeeps : forall h h', wins h' = wins h -> wkeeps h h'.
Proof.
  intros h h' Hw. constructor.
  - intros a c Hf. exists c. unfold findw in *. rewrite Hw. auto.
  - intros a Hf. unfold findw in *. rewrite Hw. exact Hf.
Qed.

Lemma wkeeps_detached : forall h h' D, wkeeps h h' -> detached h D -> detached h' D.
Proof.
  intros h h' D K Hd a Ha. destruct (Hd a Ha) as [c [Hf Hp]].
  destruct (wk_wins h h' K a c Hf) as [c' [Hf' [[E|E] _]]]; exists c'; split; auto; congruence.
Qed.

Lemma wkeeps_live : forall h h' a, wkeeps h h' -> findw h a <> None -> findw h' a <> None.
Proof.
  intros h h' a K Hl. destruct (findw h a) as [c|] eqn:Hf; [|congruence].
  destruct (wk_wins h h' K a c Hf) as [c' [Hf' _]]. congruence.
Qed.

(* window part kept + requests only disappear = shrinks *)
Lemma wkeeps_shrinks : forall h h', wkeeps h h' ->
  (forall q cq, findq h' q = Some cq -> exists cq0, findq h q = Some cq0 /\ q_win cq = q_win cq0) -> shrinks h h'.
Proof.
  intros h h' [W Dm] Q. constructor; auto.
  intros a c' Hf'. destruct (findw h a) as [c|] eqn:Hf.
  - destruct (W a c Hf) as [c1 [H1 [Hp _]]]. rewrite Hf' in H1. inversion H1; subst c1. eauto.
  - rewrite (Dm a Hf) in Hf'. discriminate.
Qed.

(* ---- tickit_window_close --------------------------------------------------------------------------- *)
Lemma close_spec : forall D fuel w cw h,
  hinv D h -> findw h w = Some cw ->
  hoare (fun h1 => h1 = h) (close fixed fuel w)
        (fun _ h' => hinv D h' /\ wkeeps h h' /\ shrinks h h' /\
                     (w <> root -> unqueued h' w) /\
                     exists cw', findw h' w = Some cw' /\ w_parent cw' = None /\ w_first cw' = w_first cw /\
                                 w_closed cw' = true).
Proof.
  intros D fuel w cw h HI Hw h1 E. subst h1. unfold close. cbn [v_close_nopurge fixed].
  unfold bind at 1. rewrite (getw_run h w cw Hw).
  (* the last step, common to both branches *)
  assert (Hlast : forall h2 cw2, hinv D h2 -> findw h2 w = Some cw2 -> w_parent cw2 = None ->
            let h3 := upd_cell h2 w (fun c => set_closed c true) in
            hinv D h3 /\ keeps h2 h3 /\ findw h3 w = Some (set_closed cw2 true)).
  { intros h2 cw2 HI2 Hw2 Hp2 h3.
    assert (CB : cells_by h2 h3 (on w (fun c => set_closed c true))) by apply cells_by_on.
    split; [|split].
    - apply (hinv_cells_by D h2 h3 _ HI2 CB).
      + intros a c Hf. unfold on. destruct (Pos.eqb w a) eqn:Ea; cbn.
        * apply Pos.eqb_eq in Ea. subst a. rewrite Hw2 in Hf. inversion Hf; subst c.
          repeat split; auto. intro Hd. exact (hi_ref D h2 HI2 w cw2 Hw2 Hd).
        * repeat split; auto; [exact (hi_closed D h2 HI2 a c Hf) | intro Hd; exact (hi_ref D h2 HI2 a c Hf Hd)].
      + intros a c Hf. apply (kids_preserved D h2 h3 _ a c HI2 CB Hf).
        * unfold on. destruct (Pos.eqb w a); reflexivity.
        * intros k ck Hfk Hpk. unfold on. destruct (Pos.eqb w k); cbn; auto.
        * intros k ck Hfk Hpk. unfold on in Hpk. destruct (Pos.eqb w k); cbn in Hpk; auto.
      + intros a c Hf Hpa. unfold on in *. destruct (Pos.eqb w a); cbn in *; exact (hi_orphan_next D h2 HI2 a c Hf Hpa).
      + intros a c f Hf Hd Hfo. assert (Hfo' : w_focus c = Some f) by (unfold on in Hfo; destruct (Pos.eqb w a); cbn in Hfo; exact Hfo).
        destruct (hi_focus D h2 HI2 a c f Hf Hd Hfo') as [cf [H1 H2]]. exists cf. split; auto.
        unfold on. destruct (Pos.eqb w f); cbn; auto.
      + intros q cq Hfq. destruct (hi_queue D h2 HI2) as [ql [_ [_ Hq3]]].
        destruct (Hq3 q cq Hfq) as [x [p [cx [G1 [G2 [G3 [G4 G5]]]]]]]. exists x, p, cx. repeat split; auto.
        * unfold on. destruct (Pos.eqb w x); cbn; auto.
        * eapply cells_by_anc; eauto. intros a c Ha Hfa _. unfold on. destruct (Pos.eqb w a); reflexivity.
    - eapply cells_by_keeps; eauto. intros a c Hf. unfold on. destruct (Pos.eqb w a); cbn; auto.
    - unfold h3. rewrite findw_upd_cell_same. rewrite Hw2. reflexivity. }
  destruct (w_parent cw) as [p|] eqn:Hwp.
  - (* attached: purge, then remove *)
    unfold bind at 1. unfold bind at 1.
    assert (Hlw : findw h w <> None) by congruence.
    pose proof (purge_spec D fuel w h HI Hlw h eq_refl) as Hpg.
    destruct (purge fixed fuel w h) as [u1 h1| |]; [|contradiction|exact I].
    destruct Hpg as [HI1 [Hw1 [Hu1 Hold1]]].
    assert (Fw1 : forall a, findw h1 a = findw h a) by (intro; unfold findw; rewrite Hw1; reflexivity).
    assert (Hw' : findw h1 w = Some cw) by (rewrite Fw1; exact Hw).
    pose proof (do_remove_spec D fuel p w cw h1 HI1 Hw' Hwp Hu1 h1 eq_refl) as Hrm.
    destruct (do_change fuel ChRemove p w h1) as [u2 h2| |]; [|contradiction|exact I].
    destruct Hrm as [HI2 [K2 [cw2 [Hw2 [Hp2 [Hn2 [Hf2 [Hc2 Hfo2]]]]]]]].
    rewrite (upd_run h2 w _ cw2 Hw2).
    destruct (Hlast h2 cw2 HI2 Hw2 Hp2) as [HI3 [K3 Hw3]].
    set (h3 := upd_cell h2 w (fun c => set_closed c true)) in *.
    assert (WK : wkeeps h h3).
    { eapply wkeeps_trans; [apply same_wins_wkeeps; exact Hw1|].
      eapply wkeeps_trans; apply keeps_wkeeps; eauto. }
    assert (SH : shrinks h h3).
    { apply wkeeps_shrinks; auto. intros q cq Hq.
      rewrite (kp_reqs h2 h3 K3) in Hq. rewrite (kp_reqs h1 h2 K2) in Hq. auto. }
    split; [exact HI3|]. split; [exact WK|]. split; [exact SH|]. split.
    + intros _. eapply unqueued_shrinks; [|exact Hu1].
      eapply shrinks_trans; apply keeps_shrinks; eauto.
    + exists (set_closed cw2 true). repeat split; auto.
  - (* already detached *)
    unfold bind at 1. cbn [ret]. rewrite (upd_run h w _ cw Hw).
    destruct (Hlast h cw HI Hw Hwp) as [HI3 [K3 Hw3]].
    set (h3 := upd_cell h w (fun c => set_closed c true)) in *.
    split; [exact HI3|]. split; [apply keeps_wkeeps; exact K3|]. split; [apply keeps_shrinks; exact K3|]. split.
    + intros Hnr. eapply unqueued_shrinks; [apply keeps_shrinks; exact K3|].
      eapply unqueued_off_tree; eauto. eapply anc_refl; eauto.
    + exists (set_closed cw true). repeat split; auto.
Qed.
