(* LifeDestroy.v -- tickit_window_close, the release of the root's queue, and the mutual
   recursion tickit_window_unref / tickit_window_destroy / its loop over the children. *)
From Coq Require Import ZArith List Bool PArith FMapPositive Lia.
From Tickit Require Import LifeDefs LifeLemmas LifeChains LifeInv LifePure LifeWalks LifeRelink LifeRemove LifeClose LifeQueue.
Import ListNotations.
Local Open Scope Z_scope.

(* the window part of [keeps] *)
Record wkeeps (h h' : heap) : Prop := mk_wkeeps {
  wk_wins : forall a c, findw h a = Some c ->
    exists c', findw h' a = Some c' /\ (w_parent c' = w_parent c \/ w_parent c' = None) /\
               w_ref c' = w_ref c /\ w_isroot c' = w_isroot c;
  wk_dom : forall a, findw h a = None -> findw h' a = None;
  wk_nextw : nextw h' = nextw h
}.

Lemma wkeeps_refl : forall h, wkeeps h h.
Proof. intro h. constructor; eauto 10. Qed.

Lemma wkeeps_trans : forall h1 h2 h3, wkeeps h1 h2 -> wkeeps h2 h3 -> wkeeps h1 h3.
Proof.
  intros h1 h2 h3 [W1 D1 N1] [W2 D2 N2]. constructor; auto; [|congruence].
  intros a c1 H1. destruct (W1 a c1 H1) as [c2 [H2 [Hp2 [Hr2 Hi2]]]].
  destruct (W2 a c2 H2) as [c3 [H3 [Hp3 [Hr3 Hi3]]]]. exists c3. split; auto. split; [|split; congruence].
  destruct Hp3 as [E|E]; [rewrite E; auto | auto].
Qed.

Lemma keeps_wkeeps : forall h h', keeps h h' -> wkeeps h h'.
Proof. intros h h' [W Dm _ _ N]. constructor; auto. Qed.

Lemma same_wins_wkeeps : forall h h', wins h' = wins h -> nextw h' = nextw h -> wkeeps h h'.
Proof.
  intros h h' Hw Hnw. constructor; [| |exact Hnw].
  - intros a c Hf. exists c. unfold findw in *. rewrite Hw. auto.
  - intros a Hf. unfold findw in *. rewrite Hw. exact Hf.
Qed.

Lemma wkeeps_detached : forall h h' D, wkeeps h h' -> detached h D -> detached h' D.
Proof.
  intros h h' D K Hd a Ha. destruct (Hd a Ha) as [c [Hf Hp]].
  destruct (wk_wins h h' K a c Hf) as [c' [Hf' [[E|E] _]]]; exists c'; split; auto; congruence.
Qed.

Lemma wkeeps_live : forall h h' a, wkeeps h h' -> findw h a <> None -> findw h' a <> None.
Proof.
  intros h h' a K Hl. destruct (findw h a) as [c|] eqn:Hf; [|congruence].
  destruct (wk_wins h h' K a c Hf) as [c' [Hf' _]]. congruence.
Qed.

(* window part kept + requests only disappear = shrinks *)
Lemma wkeeps_shrinks : forall h h', wkeeps h h' ->
  (forall q cq, findq h' q = Some cq -> exists cq0, findq h q = Some cq0 /\ q_win cq = q_win cq0) -> shrinks h h'.
Proof.
  intros h h' [W Dm N] Q. constructor; auto.
  intros a c' Hf'. destruct (findw h a) as [c|] eqn:Hf.
  - destruct (W a c Hf) as [c1 [H1 [Hp _]]]. rewrite Hf' in H1. inversion H1; subst c1. eauto.
  - rewrite (Dm a Hf) in Hf'. discriminate.
Qed.

(* ---- tickit_window_close --------------------------------------------------------------------------- *)
Lemma close_spec : forall D fuel w cw h,
  hinv D h -> findw h w = Some cw -> (w_parent cw <> None -> ~ In root D) ->
  hoare (fun h1 => h1 = h) (close fixed fuel w)
        (fun _ h' => hinv D h' /\ wkeeps h h' /\ shrinks h h' /\
                     (w <> root -> unqueued h' w) /\
                     (exists cw', findw h' w = Some cw' /\ w_parent cw' = None /\ w_first cw' = w_first cw /\
                                 w_closed cw' = true /\ w_ref cw' = w_ref cw) /\
                     (forall a c, a <> w -> findw h a = Some c ->
                        exists c', findw h' a = Some c' /\ w_parent c' = w_parent c /\ w_ref c' = w_ref c)).
Proof.
  intros D fuel w cw h HI Hw Hnrd h1 E. subst h1. unfold close. cbn [v_close_nopurge fixed].
  unfold bind at 1. rewrite (getw_run h w cw Hw).
  (* the last step, common to both branches *)
  assert (Hlast : forall h2 cw2, hinv D h2 -> findw h2 w = Some cw2 -> w_parent cw2 = None ->
            let h3 := upd_cell h2 w (fun c => set_closed c true) in
            hinv D h3 /\ keeps h2 h3 /\ findw h3 w = Some (set_closed cw2 true) /\
            (forall a, a <> w -> findw h3 a = findw h2 a)).
  { intros h2 cw2 HI2 Hw2 Hp2 h3.
    assert (CB : cells_by h2 h3 (on w (fun c => set_closed c true))) by apply cells_by_on.
    split; [|split; [|split]].
    - apply (hinv_cells_by D h2 h3 _ HI2 CB).
      + intros a c Hf. unfold on. destruct (Pos.eqb w a) eqn:Ea; cbn.
        * apply Pos.eqb_eq in Ea. subst a. rewrite Hw2 in Hf. inversion Hf; subst c.
          repeat split; auto. intro Hd. exact (hi_ref D h2 HI2 w cw2 Hw2 Hd).
        * repeat split; auto; [exact (hi_closed D h2 HI2 a c Hf) | intro Hd; exact (hi_ref D h2 HI2 a c Hf Hd)].
      + intros a c Hf. apply (kids_preserved D h2 h3 _ a c HI2 CB Hf).
        * unfold on. destruct (Pos.eqb w a); reflexivity.
        * intros k ck Hfk Hpk. unfold on. destruct (Pos.eqb w k); cbn; auto.
        * intros k ck Hfk Hpk. unfold on in Hpk. destruct (Pos.eqb w k); cbn in Hpk; auto.
      + intros a c Hf Hpa. unfold on in *. destruct (Pos.eqb w a); cbn in *; exact (hi_orphan_next D h2 HI2 a c Hf Hpa).
      + intros a c f Hf Hd Hfo. assert (Hfo' : w_focus c = Some f) by (unfold on in Hfo; destruct (Pos.eqb w a); cbn in Hfo; exact Hfo).
        destruct (hi_focus D h2 HI2 a c f Hf Hd Hfo') as [cf [H1 H2]]. exists cf. split; auto.
        unfold on. destruct (Pos.eqb w f); cbn; auto.
      + intros q cq Hfq. destruct (hi_queue D h2 HI2) as [ql [_ [_ Hq3]]].
        destruct (Hq3 q cq Hfq) as [x [p [cx [G1 [G2 [G3 [G4 G5]]]]]]]. exists x, p, cx. repeat split; auto.
        * unfold on. destruct (Pos.eqb w x); cbn; auto.
        * eapply cells_by_anc; eauto. intros a c Ha Hfa _. unfold on. destruct (Pos.eqb w a); reflexivity.
      + apply (drag_kept D h2 h3 _ HI2 CB). intros a c Hfa. unfold on. destruct (Pos.eqb w a); reflexivity.
    - eapply cells_by_keeps; eauto. intros a c Hf. unfold on. destruct (Pos.eqb w a); cbn; auto.
    - unfold h3. rewrite findw_upd_cell_same. rewrite Hw2. reflexivity.
    - intros a Ha. unfold h3. apply findw_upd_cell_other. congruence. }
  destruct (w_parent cw) as [p|] eqn:Hwp.
  - (* attached: purge, then remove *)
    unfold bind at 1. unfold bind at 1.
    assert (Hlw : findw h w <> None) by congruence.
    assert (Hnr : ~ In root D) by (apply Hnrd; discriminate).
    pose proof (purge_spec D fuel w h HI Hlw Hnr h eq_refl) as Hpg.
    destruct (purge fixed fuel w h) as [u1 h1| |]; [|contradiction|exact I].
    destruct Hpg as [HI1 [[Hw1 Hnw1] [Hu1 [Hold1 Hund1]]]].
    assert (Fw1 : forall a, findw h1 a = findw h a) by (intro; unfold findw; rewrite Hw1; reflexivity).
    assert (Hw' : findw h1 w = Some cw) by (rewrite Fw1; exact Hw).
    pose proof (do_remove_spec D fuel p w cw h1 HI1 Hw' Hwp Hu1 Hund1 h1 eq_refl) as Hrm.
    destruct (do_change fuel ChRemove p w h1) as [u2 h2| |]; [|contradiction|exact I].
    destruct Hrm as [HI2 [K2 [[cw2 [Hw2 [Hp2 [Hn2 [Hf2 [Hc2 Hfo2]]]]]] Hex2]]].
    rewrite (upd_run h2 w _ cw2 Hw2).
    destruct (Hlast h2 cw2 HI2 Hw2 Hp2) as [HI3 [K3 [Hw3 Hoth3]]].
    assert (Hrw2 : w_ref cw2 = w_ref cw).
    { destruct (kp_wins h1 h2 K2 w cw Hw') as [c2' [Hf2' [_ [Hr2' _]]]]. rewrite Hw2 in Hf2'. inversion Hf2'; subst c2'. exact Hr2'. }
    set (h3 := upd_cell h2 w (fun c => set_closed c true)) in *.
    assert (WK : wkeeps h h3).
    { eapply wkeeps_trans; [apply same_wins_wkeeps; [exact Hw1|exact Hnw1]|].
      eapply wkeeps_trans; apply keeps_wkeeps; eauto. }
    assert (SH : shrinks h h3).
    { apply wkeeps_shrinks; auto. intros q cq Hq.
      rewrite (kp_reqs h2 h3 K3) in Hq. rewrite (kp_reqs h1 h2 K2) in Hq. auto. }
    split; [exact HI3|]. split; [exact WK|]. split; [exact SH|]. split; [|split].
    + intros _. eapply unqueued_shrinks; [|exact Hu1].
      eapply shrinks_trans; apply keeps_shrinks; eauto.
    + exists (set_closed cw2 true). repeat split; auto.
    + intros a c Ha Hfa. rewrite (Hoth3 a Ha). apply Hex2; auto. rewrite Fw1. exact Hfa.
  - (* already detached *)
    unfold bind at 1. cbn [ret]. rewrite (upd_run h w _ cw Hw).
    destruct (Hlast h cw HI Hw Hwp) as [HI3 [K3 [Hw3 Hoth3]]].
    set (h3 := upd_cell h w (fun c => set_closed c true)) in *.
    split; [exact HI3|]. split; [apply keeps_wkeeps; exact K3|]. split; [apply keeps_shrinks; exact K3|]. split; [|split].
    + intros Hnr. eapply unqueued_shrinks; [apply keeps_shrinks; exact K3|].
      eapply unqueued_off_tree; eauto. eapply anc_refl; eauto.
    + exists (set_closed cw true). repeat split; auto.
    + intros a c Ha Hfa. rewrite (Hoth3 a Ha). eauto.
Qed.

(* ---- the root's queue is released ------------------------------------------------------------------- *)
Lemma free_queue_spec : forall D fuel h cr,
  hinv D h -> findw h root = Some cr ->
  hoare (fun h1 => h1 = h) (free_queue fuel root)
        (fun _ h' => hinv D h' /\ (wins h' = wins h /\ nextw h' = nextw h) /\ (forall q, findq h' q = None)).
Proof.
  intros D. induction fuel as [|f IH]; intros h cr HI Hr h1 E; subst h1; [cbn; exact I|].
  cbn [free_queue].
  assert (Hir : w_isroot cr = true) by (rewrite (hi_isroot D h HI root cr Hr); apply Pos.eqb_refl).
  unfold bind at 1. rewrite (getr_run h root cr Hr Hir).
  destruct (hi_queue D h HI) as [ql [Hq1 [Hq2 Hq3]]].
  destruct (r_queue (rx h)) as [q|] eqn:Hhead.
  - inversion Hq1 as [|q' c rest Hfq Hcrest]; subst.
    unfold bind at 1. rewrite (getq_run h q c Hfq).
    assert (Hc : qchain h (r_queue (rx h)) ([] ++ q :: rest)) by (rewrite Hhead; cbn; econstructor; eauto).
    assert (Hrun := write_qslot_free_run D h [] q rest None cr c HI Hr Hc (or_introl (conj eq_refl eq_refl)) Hfq).
    cbn [write_qslot] in Hrun. unfold updr, bind in Hrun. rewrite (getr_run h root cr Hr Hir) in Hrun.
    unfold bind at 1. unfold bind at 1. unfold bind in Hrun.
    destruct (setr root (set_rqueue (rx h) (q_next c)) h) as [u h1| |] eqn:Hs; try discriminate.
    rewrite Hrun.
    destruct (hinv_qunlink D h [] q rest c None HI Hc Hfq (or_introl (conj eq_refl eq_refl))) as [HI' [Hc' [[Hw' Hnw'] _]]].
    set (h' := qunlink h None q (q_next c)) in *.
    assert (Hr' : findw h' root = Some cr) by (unfold findw; rewrite Hw'; exact Hr).
    specialize (IH h' cr HI' Hr' h' eq_refl).
    destruct (free_queue f root h') as [u2 h2| |]; [|contradiction|exact I].
    destruct IH as [HI2 [[Hw2 Hnw2] Hnone]]. split; [exact HI2|]. split; [split; congruence|exact Hnone].
  - cbn. split; [exact HI|]. split; [split; reflexivity|].
    inversion Hq1; subst. intro q. destruct (findq h q) eqn:Hfq; auto.
    exfalso. assert (Hin : In q []) by (apply Hq2; congruence). contradiction.
Qed.

Lemma root_cleanup_spec : forall D fuel w cw h,
  hinv D h -> findw h w = Some cw ->
  hoare (fun h1 => h1 = h) (root_cleanup fixed fuel w)
        (fun _ h' => hinv D h' /\ (wins h' = wins h /\ nextw h' = nextw h) /\ (w = root -> forall q, findq h' q = None) /\
                     (forall q cq, findq h' q = Some cq -> findq h q = Some cq)).
Proof.
  intros D fuel w cw h HI Hw h1 E. subst h1. unfold root_cleanup. cbn [v_root_keeps_q fixed].
  unfold bind at 1. rewrite (getw_run h w cw Hw).
  rewrite (hi_isroot D h HI w cw Hw). destruct (Pos.eqb w root) eqn:Er.
  - apply Pos.eqb_eq in Er. subst w.
    pose proof (free_queue_spec D fuel h cw HI Hw h eq_refl) as Hfq.
    destruct (free_queue fuel root h) as [u h'| |]; [|contradiction|exact I].
    destruct Hfq as [HI' [Hw' Hnone]]. split; [exact HI'|]. split; [exact Hw'|]. split; [auto|].
    intros q cq Hq. rewrite Hnone in Hq. discriminate.
  - apply Pos.eqb_neq in Er. cbn. split; [exact HI|]. split; [split; reflexivity|]. split; [intro; contradiction|auto].
Qed.

(* ---- the pop of the loop over the children ----------------------------------------------------------- *)
Definition pop_F (w k : positive) (cw : wcell) (nxt : ptr) : positive -> wcell -> wcell :=
  fun a c => on k (fun c => set_next c None) a
             (on k (fun c => set_parent c None) a
              (on w (fun _ => set_first cw nxt) a c)).

Lemma hinv_pop : forall D h h' w k cw ck,
  hinv D h -> In w D -> findw h w = Some cw -> w_parent cw = None -> w_first cw = Some k -> findw h k = Some ck ->
  unqueued h w -> cells_by h h' (pop_F w k cw (w_next ck)) ->
  hinv D h' /\ keeps h h'.
Proof.
  intros D h h' w k cw ck HI Hin Hw Hwpar Hfi Hk Hunq CB.
  destruct (hinv_first_live D h w cw k HI Hw Hfi) as [ck' [Hk' Hkp]].
  rewrite Hk in Hk'. inversion Hk'; subst ck'.
  assert (Hlt : (w < k)%positive) by exact (hi_parent_lt D h HI k ck w Hk Hkp).
  assert (Hwk : w <> k) by lia.
  destruct (hi_kids D h HI w cw Hw) as [l [Hc Hl]]. rewrite Hfi in Hc.
  inversion Hc as [|k' ck' l3 Hfk Hcl3]; subst. rewrite Hk in Hfk. inversion Hfk; subst ck'.
  (* the same update, written as a removal with the parent otherwise untouched *)
  assert (CB' : cells_by h h' (remove_Fg (fun c => c) w k (SFirst w) (w_next ck))).
  { eapply cells_by_ext; [exact CB|]. intros a c Hfa. unfold pop_F, remove_Fg. cbn [slot_F].
    unfold on. destruct (Pos.eqb k a) eqn:Eka; destruct (Pos.eqb w a) eqn:Ewa; try reflexivity.
    - apply Pos.eqb_eq in Eka. apply Pos.eqb_eq in Ewa. congruence.
    - apply Pos.eqb_eq in Ewa. subst a. rewrite Hw in Hfa. inversion Hfa; subst c. reflexivity. }
  assert (Hkf : keeps_but_focus (fun c : wcell => c)) by (intro c; auto 10).
  assert (Hch : chain h (w_first cw) ([] ++ k :: l3)) by (rewrite Hfi; cbn; econstructor; eauto).
  assert (Hs : slot_at w [] (SFirst w)) by (left; auto).
  assert (Hunq' : forall q cq x, findq h q = Some cq -> q_win cq = Some x -> ~ anc h x k).
  { intros q cq x Hq Hx Ha. apply (Hunq q cq x Hq Hx). eapply anc_trans; eauto.
    eapply anc_step; eauto. eapply anc_refl; eauto. }
  assert (Hund' : forall d, r_drag (rx h) = Some (Some d) -> ~ In root D -> findw h root <> None -> ~ anc h d k).
  { intros d Hd Hnr Hlr Ha. destruct (hi_drag D h HI) as [od [E Hda]]. rewrite E in Hd. inversion Hd; subst od.
    pose proof (Hda d eq_refl Hnr Hlr) as Hroot.
    assert (Hdw : anc h d w) by (eapply anc_trans; [exact Ha|]; eapply anc_step; eauto; eapply anc_refl; eauto).
    assert (Ewr : w = root).
    { destruct (anc_linear h d w Hdw root Hroot) as [H|H].
      - symmetry. exact (anc_top h w root cw H Hw Hwpar).
      - destruct (findw h root) as [cr|] eqn:Hfr; [|congruence].
        exact (anc_top h root w cr H Hfr (hi_root_parent D h HI cr Hfr)). }
    apply Hnr. rewrite <- Ewr. exact Hin. }
  split.
  - exact (hinv_remove D h h' w k ck cw [] l3 (SFirst w) (fun c => c) Hkf (or_introl Hin) HI Hk Hkp Hw Hch Hs Hunq' Hund' CB').
  - eapply cells_by_keeps; eauto. intros a c Hfa.
    destruct (rm_F_flags h h' w k ck [] (SFirst w) (fun c => c) Hkf Hs CB' a c) as [Hr1 [_ Hr3]]. split; [|auto].
    destruct (Pos.eq_dec a k) as [Ea|Ea].
    + subst a. rewrite Hk in Hfa. inversion Hfa; subst c.
      rewrite (rm_F_w D h h' w k ck cw [] l3 (SFirst w) (fun c => c) HI Hk Hkp Hw Hch Hs CB'). right. reflexivity.
    + left. exact (rm_F_parent h h' w k ck [] (SFirst w) (fun c => c) Hkf Hs CB' a c Ea).
Qed.

(* ---- the final free() -------------------------------------------------------------------------------- *)
Lemma chain_remove_cell : forall h v l w, chain h v l -> ~ In w l -> chain (with_wins h (PM.remove w (wins h))) v l.
Proof.
  intros h v l w Hc Hn. eapply chain_ext; eauto. intros a Ha.
  assert (w <> a) by (intro; subst; contradiction).
  pose proof (chain_live h v l Hc a Ha) as Hl. destruct (findw h a) as [c|] eqn:Hf; [|congruence].
  exists c, c. rewrite findw_with_wins_remove_other; auto.
Qed.

Lemma hinv_free : forall D h w cw,
  hinv (w :: D) h -> ~ In w D -> findw h w = Some cw -> w_parent cw = None -> w_first cw = None ->
  (w = root -> forall q, findq h q = None) ->
  hinv D (with_wins h (PM.remove w (wins h))).
Proof.
  intros D h w cw HI Hn Hw Hp Hfi Hroot.
  set (h' := with_wins h (PM.remove w (wins h))).
  assert (Fw : forall a, a <> w -> findw h' a = findw h a).
  { intros a Ha. unfold h'. apply findw_with_wins_remove_other. congruence. }
  assert (Fww : findw h' w = None) by apply findw_with_wins_remove_same.
  assert (Flive : forall a c, findw h' a = Some c -> a <> w /\ findw h a = Some c).
  { intros a c Hf. destruct (Pos.eq_dec a w) as [E|E]; [subst; congruence|]. rewrite Fw in Hf; auto. }
  (* nobody is a child of w, and w is nobody's child *)
  assert (Hnokid : forall k ck, findw h k = Some ck -> w_parent ck <> Some w).
  { intros k ck Hfk Hpk. destruct (hi_kids (w :: D) h HI w cw Hw) as [l [Hc Hl]].
    rewrite Hfi in Hc. inversion Hc; subst. assert (Hin : In k []) by (apply Hl; eauto). contradiction. }
  assert (Hnotin : forall a c l, findw h a = Some c -> chain h (w_first c) l ->
                     (forall k, In k l <-> (exists ck, findw h k = Some ck /\ w_parent ck = Some a)) -> ~ In w l).
  { intros a c l Hfa Hc Hl Hin. apply Hl in Hin. destruct Hin as [cw' [Hw' Hp']]. rewrite Hw in Hw'. inversion Hw'; subst. congruence. }
  assert (Hanc : forall x b, anc h x b -> (forall a, anc h x a -> a <> w) -> anc h' x b).
  { intros x b Ha. induction Ha as [a c Hf | a c p b Hf Hpa Ha IH]; intro Hne.
    - eapply anc_refl. rewrite Fw; eauto. apply Hne. eapply anc_refl; eauto.
    - eapply anc_step; eauto.
      + rewrite Fw; eauto. apply Hne. eapply anc_refl; eauto.
      + apply IH. intros a' Ha'. apply Hne. eapply anc_step; eauto. }
  constructor.
  - intros a c Hf. destruct (Flive a c Hf) as [Ha Hf0].
    destruct (hi_kids (w :: D) h HI a c Hf0) as [l [Hc Hl]]. exists l. split.
    + apply chain_remove_cell; auto. eapply Hnotin; eauto.
    + intro k. rewrite (Hl k). split; intros [ck [H1 H2]]; exists ck; split; auto.
      * rewrite Fw; auto. intro E. subst k. rewrite Hw in H1. inversion H1; subst. congruence.
      * apply (Flive k ck H1).
  - intros k ck p Hf Hpk. destruct (Flive k ck Hf) as [Hk Hf0].
    assert (p <> w) by (intro E; subst p; exact (Hnokid k ck Hf0 Hpk)).
    rewrite Fw; auto. exact (hi_parent (w :: D) h HI k ck p Hf0 Hpk).
  - intros k ck p Hf Hpk. destruct (Flive k ck Hf) as [Hk Hf0]. exact (hi_parent_lt (w :: D) h HI k ck p Hf0 Hpk).
  - intros a c Hf Hpa. destruct (Flive a c Hf) as [Ha Hf0]. exact (hi_orphan_next (w :: D) h HI a c Hf0 Hpa).
  - intros a c f Hf Hd Hfo. destruct (Flive a c Hf) as [Ha Hf0].
    assert (Hd' : ~ In a (w :: D)) by (intros [E|E]; [congruence|contradiction]).
    destruct (hi_focus (w :: D) h HI a c f Hf0 Hd' Hfo) as [cf [H1 H2]]. exists cf. split; auto.
    rewrite Fw; auto. intro E. subst f. rewrite Hw in H1. inversion H1; subst. congruence.
  - intros a c Hf Hd. destruct (Flive a c Hf) as [Ha Hf0].
    apply (hi_ref (w :: D) h HI a c Hf0). intros [E|E]; [congruence|contradiction].
  - intros a c Hf Hc. destruct (Flive a c Hf) as [Ha Hf0]. exact (hi_closed (w :: D) h HI a c Hf0 Hc).
  - intros a c Hf. destruct (Flive a c Hf) as [Ha Hf0]. exact (hi_isroot (w :: D) h HI a c Hf0).
  - intros c Hf. destruct (Flive root c Hf) as [Ha Hf0]. exact (hi_root_parent (w :: D) h HI c Hf0).
  - destruct (hi_queue (w :: D) h HI) as [ql [Hq1 [Hq2 Hq3]]]. exists ql. split; [|split].
    + change (qchain h' (r_queue (rx h)) ql). eapply qchain_same; [exact Hq1|]. intros; reflexivity.
    + exact Hq2.
    + intros q cq Hfq. change (findq h q = Some cq) in Hfq.
      destruct (Hq3 q cq Hfq) as [x [p [cx [G1 [G2 [G3 [G4 G5]]]]]]].
      assert (Hwr : w <> root) by (intro E; rewrite (Hroot E q) in Hfq; discriminate).
      assert (Hpath : forall a, anc h x a -> a <> w).
      { intros a Ha E. subst a. destruct (anc_linear h x w Ha root G5) as [H|H].
        - apply Hwr. symmetry. exact (anc_top h w root cw H Hw Hp).
        - pose proof (anc_live_l h root w H) as Hl. destruct (findw h root) as [cr|] eqn:Hfr; [|congruence].
          apply Hwr. exact (anc_top h root w cr H Hfr (hi_root_parent (w :: D) h HI cr Hfr)). }
      exists x, p, cx. repeat split; auto.
      rewrite Fw; auto. apply Hpath. eapply anc_refl; eauto.
  - exact (hi_qkind (w :: D) h HI).
  - destruct (hi_drag (w :: D) h HI) as [od [E Hda]]. exists od. split; [exact E|]. intros d Ed Hnr Hlr.
    assert (Hwr : w <> root) by (intro Ew; subst w; apply Hlr; exact Fww).
    assert (Hnr' : ~ In root (w :: D)) by (intros [Ew|Hi]; [congruence|contradiction]).
    assert (Hlr0 : findw h root <> None) by (rewrite <- (Fw root); auto).
    pose proof (Hda d Ed Hnr' Hlr0) as G5.
    apply Hanc; [exact G5|]. intros a Ha Ea. subst a. destruct (anc_linear h d w Ha root G5) as [H|H].
    + apply Hwr. symmetry. exact (anc_top h w root cw H Hw Hp).
    + destruct (findw h root) as [cr|] eqn:Hfr; [|congruence].
      apply Hwr. exact (anc_top h root w cr H Hfr (hi_root_parent (w :: D) h HI cr Hfr)).
  - intros a Ha. destruct (findw h' a) as [c|] eqn:Hf; [|congruence]. destruct (Flive a c Hf) as [_ Hf0].
    apply (hi_nextw (w :: D) h HI). congruence.
  - exact (hi_nextw_root (w :: D) h HI).
  - exact (hi_nextq (w :: D) h HI).
Qed.

(* ---- unref / destroy / the loop: the mutual induction on the fuel -------------------------------------- *)
Lemma links_eq_shrinks : forall h h', links_eq h h' -> shrinks h h'.
Proof.
  intros h h' L. constructor.
  - intros a c' Hf. destruct (links_eq_find_rev h h' a c' L Hf) as [c [H1 [H2 _]]]. eauto.
  - intros q cq Hq. rewrite (le_reqs h h' L) in Hq. eauto.
  - apply (le_nextw h h' L).
Qed.

Lemma links_eq_detached : forall h h' D, links_eq h h' -> detached h D -> detached h' D.
Proof.
  intros h h' D L Hd a Ha. destruct (Hd a Ha) as [c [Hf Hp]].
  destruct (links_eq_find h h' a c L Hf) as [c' [Hf' [Hp' _]]]. exists c'. split; auto. congruence.
Qed.

Lemma hinv_weaken : forall D D' h, hinv D h -> (forall a, In a D -> In a D') -> hinv D' h.
Proof.
  intros D D' h [K P PL O F R C I RP Q QK Dg NW NWR NQ] Hsub. constructor; auto.
  - intros a c f Hf Hd. apply (F a c f Hf). auto.
  - intros a c Hf Hd. apply (R a c Hf). auto.
  - destruct Dg as [od [E Hda]]. exists od. split; [exact E|]. intros d Ed Hnr Hl. apply Hda; auto.
Qed.

(* the unfolding equations of the mutual recursion *)
Lemma unref_S : forall f w,
  unref fixed (S f) w =
  (c <- getw w ;;
   if w_ref c <? 1 then fail Abort
   else setw w (set_ref c (w_ref c - 1)) ;;; if w_ref c - 1 =? 0 then destroy fixed f w else ret tt).
Proof. reflexivity. Qed.

Lemma destroy_S_fixed : forall f w,
  destroy fixed (S f) w =
  (log_destroy w ;;;
   cw <- getw w ;;
   (if w_closed cw then ret tt else close fixed f w) ;;;
   root_cleanup fixed f w ;;;
   destroy_loop fixed f w ;;;
   freew w).
Proof. reflexivity. Qed.

Lemma destroy_loop_S : forall f w,
  destroy_loop fixed (S f) w =
  (cw <- getw w ;;
   match w_first cw with
   | None => ret tt
   | Some child =>
     cc <- getw child ;;
     setw w (set_first cw (w_next cc)) ;;;
     upd child (fun c => set_parent c None) ;;;
     upd child (fun c => set_next c None) ;;;
     unref fixed f child ;;;
     destroy_loop fixed f w
   end).
Proof. reflexivity. Qed.

Definition unref_ok (f : nat) : Prop := forall D h w,
  hinv D h -> detached h D -> findw h w <> None -> ~ In w D ->
  (forall c, findw h w = Some c -> w_parent c <> None -> ~ In root D) ->
  hoare (fun h1 => h1 = h) (unref fixed f w) (fun _ h' => hinv D h' /\ detached h' D /\ shrinks h h').

Definition destroy_ok (f : nat) : Prop := forall D h w cw,
  hinv (w :: D) h -> detached h D -> findw h w = Some cw -> ~ In w D ->
  (w_parent cw <> None -> ~ In root D) ->
  hoare (fun h1 => h1 = h) (destroy fixed f w)
        (fun _ h' => hinv D h' /\ detached h' D /\ shrinks h h' /\ findw h' w = None).

Definition loop_ok (f : nat) : Prop := forall D h w,
  hinv (w :: D) h -> detached h (w :: D) -> ~ In w D -> unqueued h w ->
  hoare (fun h1 => h1 = h) (destroy_loop fixed f w)
        (fun _ h' => hinv (w :: D) h' /\ detached h' (w :: D) /\ shrinks h h' /\
                     exists cw, findw h' w = Some cw /\ w_first cw = None).

Lemma unref_step : forall f, destroy_ok f -> unref_ok (S f).
Proof.
  intros f Hdes D h w HI Hdet Hlw Hn Hrd h1 E. subst h1.
  destruct (live_some h w Hlw) as [c Hw].
  rewrite unref_S. unfold bind at 1. rewrite (getw_run h w c Hw).
  pose proof (hi_ref D h HI w c Hw Hn) as Href.
  assert (Hlt : (w_ref c <? 1) = false) by (apply Z.ltb_ge; lia). rewrite Hlt.
  unfold bind at 1. rewrite (setw_run h w c _ Hw).
  set (h1 := upd_cell h w (fun _ => set_ref c (w_ref c - 1))).
  assert (L : links_eq h h1).
  { apply links_eq_upd_cell. intros c0 Hc0. rewrite Hw in Hc0. inversion Hc0; subst c0. repeat split. }
  assert (Hw1 : findw h1 w = Some (set_ref c (w_ref c - 1))).
  { unfold h1. rewrite findw_upd_cell_same. rewrite Hw. reflexivity. }
  assert (Href1 : forall a c', findw h1 a = Some c' -> a <> w -> exists c0, findw h a = Some c0 /\ w_ref c' = w_ref c0).
  { intros a c' Hf Ha. unfold h1 in Hf. rewrite findw_upd_cell_other in Hf; auto. eauto. }
  destruct (w_ref c - 1 =? 0) eqn:Ez.
  - (* the last reference *)
    assert (HI1 : hinv (w :: D) h1).
    { eapply hinv_links_eq; eauto.
      - eapply hinv_weaken; eauto. intros a Ha. right. exact Ha.
      - intros a c' Hf Hd. assert (Ha : a <> w) by (intro E; subst a; apply Hd; left; reflexivity).
        destruct (Href1 a c' Hf Ha) as [c0 [H0 E0]]. rewrite E0. apply (hi_ref D h HI a c0 H0).
        intro Hin. apply Hd. right. exact Hin. }
    pose proof (Hdes D h1 w _ HI1 (links_eq_detached h h1 D L Hdet) Hw1 Hn (Hrd c Hw) h1 eq_refl) as Hd.
    destruct (destroy fixed f w h1) as [u h2| |]; [|contradiction|exact I].
    destruct Hd as [HI2 [Hdet2 [Sh2 _]]]. split; [exact HI2|]. split; [exact Hdet2|].
    eapply shrinks_trans; [apply links_eq_shrinks; exact L|exact Sh2].
  - cbn. split; [|split; [eapply links_eq_detached; eauto|apply links_eq_shrinks; exact L]].
    eapply hinv_links_eq; eauto. intros a c' Hf Hd. destruct (Pos.eq_dec a w) as [Ea|Ea].
    + subst a. rewrite Hw1 in Hf. inversion Hf; subst c'. cbn. apply Z.eqb_neq in Ez. lia.
    + destruct (Href1 a c' Hf Ea) as [c0 [H0 E0]]. rewrite E0. exact (hi_ref D h HI a c0 H0 Hd).
Qed.

Lemma loop_step : forall f, unref_ok f -> loop_ok f -> loop_ok (S f).
Proof.
  intros f Hunref Hloop D h w HI Hdet Hn Hunq h1 E. subst h1.
  destruct (Hdet w (or_introl eq_refl)) as [cw [Hw Hwp]].
  rewrite destroy_loop_S. unfold bind at 1. rewrite (getw_run h w cw Hw).
  destruct (w_first cw) as [k|] eqn:Hfi.
  - destruct (hinv_first_live (w :: D) h w cw k HI Hw Hfi) as [ck [Hk Hkp]].
    assert (Hlt : (w < k)%positive) by exact (hi_parent_lt (w :: D) h HI k ck w Hk Hkp).
    assert (Hwk : w <> k) by lia.
    unfold bind at 1. rewrite (getw_run h k ck Hk).
    unfold bind at 1. rewrite (setw_run h w cw _ Hw).
    set (h1 := upd_cell h w (fun _ => set_first cw (w_next ck))).
    assert (Hk1 : findw h1 k = Some ck) by (unfold h1; rewrite findw_upd_cell_other; auto).
    unfold bind at 1. rewrite (upd_run h1 k _ ck Hk1).
    set (h2 := upd_cell h1 k (fun c => set_parent c None)).
    assert (Hk2 : findw h2 k = Some (set_parent ck None)) by (unfold h2; rewrite findw_upd_cell_same; rewrite Hk1; reflexivity).
    unfold bind at 1. rewrite (upd_run h2 k _ _ Hk2).
    set (h3 := upd_cell h2 k (fun c => set_next c None)).
    assert (CB : cells_by h h3 (pop_F w k cw (w_next ck))).
    { unfold pop_F. eapply cells_by_trans with (h2 := h2); [|apply cells_by_on].
      eapply cells_by_trans with (h2 := h1); apply cells_by_on. }
    destruct (hinv_pop (w :: D) h h3 w k cw ck HI (or_introl eq_refl) Hw Hwp Hfi Hk Hunq CB) as [HI3 K3].
    assert (Hdet3 : detached h3 (w :: D)).
    { intros a Ha. destruct (Hdet a Ha) as [ca [Hfa Hpa]].
      destruct (kp_wins h h3 K3 a ca Hfa) as [ca' [Hfa' [[Ep|Ep] _]]]; exists ca'; split; auto; congruence. }
    assert (Hk3l : findw h3 k <> None).
    { destruct (kp_wins h h3 K3 k ck Hk) as [ck' [Hfk' _]]. congruence. }
    assert (Hnk : ~ In k (w :: D)).
    { intros [Ek|Ek]; [congruence|]. destruct (Hdet k (or_intror Ek)) as [ck' [Hfk' Hpk']].
      rewrite Hk in Hfk'. inversion Hfk'; subst ck'. congruence. }
    unfold bind at 1.
    assert (Hk3p : forall c, findw h3 k = Some c -> w_parent c <> None -> ~ In root (w :: D)).
    { intros c Hc Hpc. exfalso. apply Hpc. unfold h3 in Hc. rewrite findw_upd_cell_same in Hc. rewrite Hk2 in Hc. cbn in Hc.
      inversion Hc. reflexivity. }
    pose proof (Hunref (w :: D) h3 k HI3 Hdet3 Hk3l Hnk Hk3p h3 eq_refl) as Hu.
    destruct (unref fixed f k h3) as [u h4| |]; [|contradiction|exact I].
    destruct Hu as [HI4 [Hdet4 Sh4]].
    assert (Sh04 : shrinks h h4) by (eapply shrinks_trans; [apply keeps_shrinks; exact K3|exact Sh4]).
    pose proof (Hloop D h4 w HI4 Hdet4 Hn (unqueued_shrinks h h4 w Sh04 Hunq) h4 eq_refl) as Hl.
    destruct (destroy_loop fixed f w h4) as [u5 h5| |]; [|contradiction|exact I].
    destruct Hl as [HI5 [Hdet5 [Sh5 Hfin]]]. split; [exact HI5|]. split; [exact Hdet5|]. split; [|exact Hfin].
    eapply shrinks_trans; eauto.
  - cbn. split; [exact HI|]. split; [exact Hdet|]. split; [apply shrinks_refl|]. exists cw. auto.
Qed.

Lemma freew_run : forall h a c, findw h a = Some c -> freew a h = Ok tt (with_wins h (PM.remove a (wins h))).
Proof. intros h a c Hf. unfold freew. unfold findw in Hf. rewrite Hf. reflexivity. Qed.

Lemma destroy_step : forall f, loop_ok f -> destroy_ok (S f).
Proof.
  intros f Hloop D h w cw HI Hdet Hw Hn Hrd h1 E. subst h1.
  rewrite destroy_S_fixed.
  (* the DESTROY binding of the harness: a log entry *)
  unfold bind at 1. unfold log_destroy.
  set (h1 := mkHeap (wins h) (reqs h) (rx h) (nextw h) (nextq h) (w :: dlog h) (uninit_seen h) (tr h)).
  assert (L1 : links_eq h h1) by apply links_eq_logs.
  assert (HI1 : hinv (w :: D) h1).
  { eapply hinv_links_eq; eauto. intros a c' Hf Hd. apply (hi_ref (w :: D) h HI a c' Hf Hd). }
  assert (Hw1 : findw h1 w = Some cw) by exact Hw.
  assert (Hdet1 : detached h1 D) by (eapply links_eq_detached; eauto).
  unfold bind at 1. rewrite (getw_run h1 w cw Hw1).
  (* leave the tree *)
  assert (Hclose : match (if w_closed cw then ret tt else close fixed f w) h1 with
                   | Ok _ h2 => hinv (w :: D) h2 /\ wkeeps h1 h2 /\ shrinks h1 h2 /\ (w <> root -> unqueued h2 w) /\
                                exists cw2, findw h2 w = Some cw2 /\ w_parent cw2 = None
                   | Fault _ _ => False
                   | NoFuel => True
                   end).
  { destruct (w_closed cw) eqn:Hcl.
    - cbn. split; [exact HI1|]. split; [apply wkeeps_refl|]. split; [apply shrinks_refl|].
      pose proof (hi_closed (w :: D) h1 HI1 w cw Hw1 Hcl) as Hp. split; [|eauto].
      intro Hnr. eapply unqueued_off_tree; eauto. eapply anc_refl; eauto.
    - assert (Hrd1 : w_parent cw <> None -> ~ In root (w :: D)).
      { intros Hpc [Ew|Hi]; [|exact (Hrd Hpc Hi)]. subst w. apply Hpc. exact (hi_root_parent (root :: D) h1 HI1 cw Hw1). }
      pose proof (close_spec (w :: D) f w cw h1 HI1 Hw1 Hrd1 h1 eq_refl) as Hc.
      destruct (close fixed f w h1) as [u h2| |]; [|contradiction|exact I].
      destruct Hc as [HI2 [WK2 [SH2 [Hu2 [[cw2 [Hw2 [Hp2 _]]] _]]]]].
      split; [exact HI2|]. split; [exact WK2|]. split; [exact SH2|]. split; [exact Hu2|]. exists cw2. auto. }
  unfold bind at 1.
  destruct ((if w_closed cw then ret tt else close fixed f w) h1) as [u2 h2| |]; [|contradiction|exact I].
  destruct Hclose as [HI2 [WK2 [SH2 [Hu2 [cw2 [Hw2 Hp2]]]]]].
  (* the root's queue *)
  unfold bind at 1.
  pose proof (root_cleanup_spec (w :: D) f w cw2 h2 HI2 Hw2 h2 eq_refl) as Hrc.
  destruct (root_cleanup fixed f w h2) as [u3 h3| |]; [|contradiction|exact I].
  destruct Hrc as [HI3 [[Hw3 Hnw3] [Hroot3 Hold3]]].
  assert (Fw3 : forall a, findw h3 a = findw h2 a) by (intro; unfold findw; rewrite Hw3; reflexivity).
  assert (WK3 : wkeeps h2 h3) by (apply same_wins_wkeeps; [exact Hw3|exact Hnw3]).
  assert (SH3 : shrinks h2 h3) by (apply wkeeps_shrinks; eauto).
  assert (Hdet3 : detached h3 (w :: D)).
  { intros a [Ea|Ea].
    - subst a. exists cw2. rewrite Fw3. auto.
    - apply (wkeeps_detached h2 h3 D WK3). apply (wkeeps_detached h1 h2 D WK2). exact Hdet1. exact Ea. }
  assert (Hu3 : unqueued h3 w).
  { destruct (Pos.eq_dec w root) as [Er|Er].
    - intros q cq x Hq. rewrite (Hroot3 Er q) in Hq. discriminate.
    - eapply unqueued_shrinks; eauto. }
  (* the children *)
  unfold bind at 1.
  pose proof (Hloop D h3 w HI3 Hdet3 Hn Hu3 h3 eq_refl) as Hl.
  destruct (destroy_loop fixed f w h3) as [u4 h4| |]; [|contradiction|exact I].
  destruct Hl as [HI4 [Hdet4 [SH4 [cw4 [Hw4 Hfi4]]]]].
  destruct (Hdet4 w (or_introl eq_refl)) as [cw4' [Hw4' Hp4]]. rewrite Hw4 in Hw4'. inversion Hw4'; subst cw4'.
  (* free(win) *)
  rewrite (freew_run h4 w cw4 Hw4).
  set (h5 := with_wins h4 (PM.remove w (wins h4))).
  assert (Hroot4 : w = root -> forall q, findq h4 q = None).
  { intros Er q. destruct (findq h4 q) as [cq|] eqn:Hq; auto.
    destruct (sh_reqs h3 h4 SH4 q cq Hq) as [cq0 [Hq0 _]]. rewrite (Hroot3 Er q) in Hq0. discriminate. }
  split; [exact (hinv_free D h4 w cw4 HI4 Hn Hw4 Hp4 Hfi4 Hroot4)|]. split; [|split].
  - intros a Ha. destruct (Hdet4 a (or_intror Ha)) as [ca [Hfa Hpa]]. exists ca. split; auto.
    unfold h5. rewrite findw_with_wins_remove_other; auto. intro E. subst a. contradiction.
  - eapply shrinks_trans; [apply links_eq_shrinks; exact L1|].
    eapply shrinks_trans; [exact SH2|]. eapply shrinks_trans; [exact SH3|]. eapply shrinks_trans; [exact SH4|].
    constructor.
    + intros a c' Hf. destruct (Pos.eq_dec a w) as [Ea|Ea].
      * subst a. unfold h5 in Hf. rewrite findw_with_wins_remove_same in Hf. discriminate.
      * unfold h5 in Hf. rewrite findw_with_wins_remove_other in Hf by congruence. eauto.
    + intros q cq Hq. eauto.
    + reflexivity.
  - apply findw_with_wins_remove_same.
Qed.

Theorem life_ok : forall f, unref_ok f /\ destroy_ok f /\ loop_ok f.
Proof.
  induction f as [|f [IHu [IHd IHl]]].
  - repeat split; intros until 0; intros; intros h1 E; cbn; exact I.
  - assert (Hl : loop_ok (S f)) by (apply loop_step; auto).
    split; [apply unref_step; exact IHd|]. split; [apply destroy_step; exact IHl|exact Hl].
Qed.
