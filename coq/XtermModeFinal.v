(* XtermModeFinal.v -- C12: the theorems of XtermModeProofs.v (developed against the three
   interface statements of the pen path) instantiated with their proofs from TermPenProofs.v. *)
From Coq Require Import ZArith List Bool.
From Tickit Require Import Csi VT TermPenDefs TermPenSpec TermPenProofs XtermDefs XtermModeSpec XtermModeProofs.
Import ListNotations.
Local Open Scope Z_scope.

Definition history_nokp_c := history_nokp chpen_core nondefault_enc term_pen.
Definition history_full_partial_c := history_full_partial chpen_core nondefault_enc term_pen.
Definition history_accepted_nokp_c := history_accepted_nokp chpen_core nondefault_enc term_pen.
Definition history_accepted_full_partial_c := history_accepted_full_partial chpen_core nondefault_enc term_pen.
Definition balanced_nokp_c := balanced_nokp chpen_core nondefault_enc term_pen.
Definition toplevel_balanced_nokp_c := toplevel_balanced_nokp chpen_core nondefault_enc term_pen.
Definition toplevel_reports_nokp_c := toplevel_reports_nokp chpen_core nondefault_enc term_pen.
Definition history_reports_accepted_nokp_c := history_reports_accepted_nokp chpen_core nondefault_enc term_pen.
Definition history_reports_accepted_full_partial_c := history_reports_accepted_full_partial chpen_core nondefault_enc term_pen.
Definition balanced_reports_nokp_c := balanced_reports_nokp chpen_core nondefault_enc term_pen.
Definition toplevel_reports_balanced_nokp_c := toplevel_reports_balanced_nokp chpen_core nondefault_enc term_pen.
