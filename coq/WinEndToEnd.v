(* WinEndToEnd.v -- three verified layers composed: the window layer (WinDefs.v, properties C01
   and C02, proved over an ABSTRACT per-cell render buffer and an abstract grid terminal), the
   CONCRETE render buffer (RBDefs.v, refining the per-cell specification RBSpec.v: property C03)
   and its flush onto C04's terminal (RBFlushDefs.v: property C04).

     cscreen_sim       rendering the damage into a concrete buffer, flushing it and letting the
                       terminal execute the emitted operations shows, cell by cell, what the
                       window layer's abstract term_flush_rb of its abstract buffer shows;
     cwin_flush_sim    hence tickit_window_flush over the concrete buffer and terminal
                       (WinRBView.cwin_flush) never faults and simulates win_flush;
     end_to_end_c01    C01 on the concrete terminal: after a flush every terminal cell shows
                       the composition of the window tree;
     end_to_end_c02    C02 on the concrete terminal: what every terminal cell holds after a
                       flush with ARBITRARY drawing programs; end_to_end_c02_confined.

   The per-call simulation lemmas between the abstract buffer and the specification state
   (proved in WinRBSim.v) are SECTION HYPOTHESES.

   Names that exist on both sides (rb_new, term, t_lines, t_cols, same_frame, shows, Inv,
   content ...) mean the render-buffer group's here; the window layer's are written with their
   module name. *)
From Coq Require Import ZArith List Bool Lia.
From Tickit Require Import RectDefs RectProofs WinRectSet WinDefs WinSpec WinExposeProofs WinFlushProofs
                           WinLogDisjoint WinScreenInv WinPreserve WinReEstablish WinC02Exact.
From Tickit Require Import RBDefs RBSpec RBAbsLemmas RBProps Gen_Linechars RBFlushDefs RBFlushSpec RBTermSim
                           RBInv RBProofs RBTheorems RBFlushReach RBFlushGrid RBFlushShown.
From Tickit Require Import WinRBView WinRBExpose.
Import ListNotations.
Local Open Scope Z_scope.

(* ------------------------------------------------------------------------------------ *)
(* one cell: the specification's cell [c] stands for the window model's content [v]; the
   terminal cell under it after a flush holds the encoding of [v] *)

Lemma is_line_base : forall b, 1 <= b <= 15 -> is_line (LINEBASE + b) = true.
Proof.
  intros b Hb. unfold is_line, LINEBASE. apply andb_true_iff. split; [apply Z.ltb_lt|apply Z.leb_le]; lia.
Qed.

Lemma enc_blank : enc BLANK = [32].
Proof. reflexivity. Qed.

Lemma enc_noline : forall c, is_line c = false -> enc c = [c].
Proof. intros c H. unfold enc. rewrite H. reflexivity. Qed.

Lemma enc_line : forall b, 1 <= b <= 15 -> enc (LINEBASE + b) = [linechar (m8 b)].
Proof.
  intros b Hb. unfold enc. rewrite (is_line_base b Hb). do 3 f_equal. lia.
Qed.

Lemma enc_inj : forall c d, enc c = enc d -> (is_line c = false -> is_line d = false -> c = d).
Proof. intros c d H Hc Hd. rewrite (enc_noline c Hc), (enc_noline d Hd) in H. congruence. Qed.

Lemma crep_shows : forall c v old new,
  crep c v -> shows c old new ->
  t_text new = match v with Some z => enc z | None => t_text old end.
Proof.
  intros c v old new Hc Hs. destruct c as [|p u k|p|p m|p cp]; cbn [crep shows] in Hc, Hs.
  - subst. reflexivity.
  - destruct Hc as (_ & Hn & -> & Hl). destruct Hs as [_ Hs]. rewrite (Hs Hn). symmetry. apply enc_noline. exact Hl.
  - subst. reflexivity.
  - destruct Hc as (b & Hb & -> & ->). subst new. cbn [t_text]. symmetry. apply enc_line. exact Hb.
  - destruct Hc as (-> & _ & Hl). subst new. cbn [t_text]. symmetry. apply enc_noline. exact Hl.
Qed.

(* ------------------------------------------------------------------------------------ *)
(* the terminal relation only looks at the sizes and the grid *)

Lemma TR_grid_ext : forall tm tm2 t,
  TR tm t ->
  WinDefs.t_lines tm2 = WinDefs.t_lines tm -> WinDefs.t_cols tm2 = WinDefs.t_cols tm ->
  (forall q, t_grid tm2 q = t_grid tm q) ->
  TR tm2 t.
Proof.
  intros tm tm2 t (Tok & TL & TC & Tc) HL HC Hg.
  split; [exact Tok|]. split; [congruence|]. split; [congruence|].
  intros y x Hy Hx. rewrite Hg. apply Tc; assumption.
Qed.

Lemma TR_nonneg : forall tm t, TR tm t -> 0 <= WinDefs.t_lines tm /\ 0 <= WinDefs.t_cols tm.
Proof.
  intros tm t ((H1 & H2 & _) & TL & TC & _). rewrite <- TL, <- TC, <- H1. split; [apply zlen_nonneg|exact H2].
Qed.

(* the abstract flush keeps the size of the terminal *)
Lemma win_flush_term_size : forall cfg hnd st tm st' tm' lg,
  win_flush cfg hnd st tm = (st', tm', lg) ->
  WinDefs.t_lines tm' = WinDefs.t_lines tm /\ WinDefs.t_cols tm' = WinDefs.t_cols tm.
Proof.
  intros cfg hnd st tm st' tm' lg Hfl. destruct (r_later st) eqn:Hl.
  2:{ unfold win_flush in Hfl. rewrite Hl in Hfl. cbn [negb] in Hfl. injection Hfl as <- <- <-. split; reflexivity. }
  rewrite (win_flush_unfold cfg hnd st tm Hl) in Hfl. cbn zeta in Hfl.
  destruct (r_nexp (after_queue st)).
  - injection Hfl as <- <- <-.
    match goal with |- WinDefs.t_lines (do_restore ?a ?b) = _ /\ _ => destruct (do_restore_size a b) as [E1 E2]; rewrite E1, E2 end.
    split; reflexivity.
  - destruct (r_nrest (after_queue st)); injection Hfl as <- <- <-; [|split; reflexivity].
    apply do_restore_size.
Qed.

(* the concrete flush, in terms of after_queue (as WinFlushProofs.win_flush_unfold) *)
Lemma cwin_flush_unfold cfg hp st t0 :
  r_later st = true ->
  let st2 := after_queue st in
  cwin_flush cfg hp st t0 =
  if r_nexp st2 then
    match cscreen hp (r_tree st2) (flush_rects cfg st2) (lines (root_selfrect st2)) (cols (root_selfrect st2)) t0 with
    | Ok t1 => Ok (set_flags (set_flags (set_damage st2 []) false true (r_later st2)) false false (r_later st2),
                   t1, flush_log (r_tree st2) (flush_rects cfg st2))
    | Fault => Fault
    | NoFuel => NoFuel
    end
  else if r_nrest st2 then Ok (set_flags st2 (r_nexp st2) false (r_later st2), t0, [])
  else Ok (st2, t0, []).
Proof.
  intros Hl. unfold cwin_flush. rewrite Hl. cbn [negb]. fold (after_queue st). cbn zeta.
  destruct (r_nexp (after_queue st)) eqn:E.
  - destruct (cscreen hp (r_tree (after_queue st)) (flush_rects cfg (after_queue st))
                      (lines (root_selfrect (after_queue st))) (cols (root_selfrect (after_queue st))) t0); reflexivity.
  - destruct (r_nrest (after_queue st)) eqn:E2; rewrite ?E; reflexivity.
Qed.

(* the queued restacks do not change the root's own rectangle *)
Lemma after_queue_selfrect st : root_selfrect (after_queue st) = root_selfrect st.
Proof. unfold root_selfrect. rewrite after_queue_root_info. reflexivity. Qed.

(* ------------------------------------------------------------------------------------ *)
Section end_to_end.

Hypothesis Rrb_new : forall L C, 0 <= L -> 0 <= C -> Rrb (WinDefs.rb_new L C) (a_new L C).
Hypothesis Rrb_save : forall b A, Rrb b A -> Rrb (rb_save b) (fst (astep A OSave)).
Hypothesis Rrb_clip : forall b A r, Rrb b A -> Rrb (rb_clip_to b r) (fst (astep A (OClip r))).
Hypothesis Rrb_translate : forall b A dl dc, Rrb b A -> Rrb (rb_translate b dl dc) (fst (astep A (OTranslate dl dc))).
Hypothesis Rrb_mask : forall b A r, Rrb b A -> Rrb (rb_mask_rect b r) (fst (astep A (OMask r))).
Hypothesis Rrb_restore : forall b A, Rrb b A -> Rrb (rb_restore b) (fst (astep A ORestore)).
Hypothesis Rrb_prog : forall app prog id handed b A, app_ok app -> Rrb b A ->
  Rrb (run_prog app prog id handed b) (fst (arun A (c_prog app prog id handed))).
Hypothesis c_prog_op_ok : forall app prog id handed, Forall op_ok (c_prog app prog id handed).

(* (5) THE SCREEN STEP *)
Theorem cscreen_sim : forall app progs tree rects L C tm t0,
  app_ok app -> 0 <= L -> 0 <= C -> TR tm t0 -> L <= WinDefs.t_lines tm -> C <= WinDefs.t_cols tm ->
  exists t1, cscreen (c_hp app progs) tree rects L C t0 = Ok t1 /\
             TR (term_flush_rb tm (flush_rb (prog_handler app progs) tree rects (WinDefs.rb_new L C))) t1.
Proof.
  intros app progs tree rects L C tm t0 Happ HL HC (Tok & TL & TC & Tcells) HLt HCt.
  set (prog := flush_ops (c_hp app progs) tree rects).
  set (b := flush_rb (prog_handler app progs) tree rects (WinDefs.rb_new L C)).
  destruct (program_refines L C prog HL HC) as (s & v & Hrun & _).
  assert (Hok : Forall op_ok prog) by (apply (flush_ops_op_ok c_prog_op_ok)).
  destruct (flush_grid_reachable L C prog s v t0 HL HC Hok Hrun Tok) as (ops & t1 & Hfl & Hrun2 & Tok1 & (SL & SC & _) & Hcells);
    [lia|lia|].
  assert (HR : Rrb b (fst (arun (a_new L C) prog))).
  { apply (Rrb_flush_rb Rrb_save Rrb_clip Rrb_translate Rrb_mask Rrb_restore).
    - apply (hsim_prog Rrb_prog). exact Happ.
    - apply Rrb_new; assumption. }
  destruct (flush_rb_confined _ (prog_handler_ok app progs) tree L C rects _ (flush_state_new L C)) as ((Hbl & Hbc & _) & _).
  fold b in Hbl, Hbc.
  exists t1. split.
  { unfold cscreen. fold prog. rewrite Hrun, Hfl. exact Hrun2. }
  split; [exact Tok1|].
  unfold term_flush_rb, term_set_grid; cbn [WinDefs.t_lines WinDefs.t_cols t_grid].
  split; [congruence|]. split; [congruence|].
  intros y x Hy Hx. rewrite SL in Hy. rewrite SC in Hx. specialize (Hcells y x Hy Hx).
  destruct ((y <? L) && (x <? C)) eqn:E.
  - apply andb_true_iff in E. destruct E as [E1 E2]. apply Z.ltb_lt in E1, E2.
    assert (Hin : in_grid (fst (arun (a_new L C) prog)) y x).
    { unfold in_grid. rewrite (R_lines b _ HR), (R_cols b _ HR), Hbl, Hbc. lia. }
    destruct (R_cells b _ HR y x Hin) as [Hcr _].
    rewrite (crep_shows _ _ _ _ Hcr Hcells).
    destruct (rb_cells b (y, x)) as [[[c w] p]|]; cbn [cont]; [reflexivity|apply Tcells; assumption].
  - rewrite Hcells.
    assert (Hout : rb_inb b (y, x) = false).
    { unfold rb_inb; cbn [fst snd]. rewrite Hbl, Hbc.
      apply andb_false_iff in E. destruct E as [E|E]; apply Z.ltb_ge in E.
      - destruct (y <? L) eqn:F; [apply Z.ltb_lt in F; lia|]. rewrite andb_false_r. reflexivity.
      - destruct (x <? C) eqn:F; [apply Z.ltb_lt in F; lia|]. rewrite andb_false_r. reflexivity. }
    destruct (R_outside b _ HR _ Hout) as [-> _]. apply Tcells; assumption.
Qed.

(* (6) THE FLUSH *)
Theorem cwin_flush_sim : forall app progs cfg st tm t0 st' tm' lg,
  app_ok app -> TR tm t0 ->
  0 <= lines (root_selfrect (after_queue st)) <= WinDefs.t_lines tm ->
  0 <= cols (root_selfrect (after_queue st)) <= WinDefs.t_cols tm ->
  win_flush cfg (prog_handler app progs) st tm = (st', tm', lg) ->
  exists t1, cwin_flush cfg (c_hp app progs) st t0 = Ok (st', t1, lg) /\ TR tm' t1.
Proof.
  intros app progs cfg st tm t0 st' tm' lg Happ HTR HL HC Hfl.
  destruct (r_later st) eqn:Hl.
  2:{ unfold win_flush in Hfl. rewrite Hl in Hfl. cbn [negb] in Hfl. injection Hfl as <- <- <-.
      exists t0. split; [|exact HTR]. unfold cwin_flush. rewrite Hl. reflexivity. }
  rewrite (win_flush_unfold cfg _ st tm Hl) in Hfl. cbn zeta in Hfl.
  rewrite (cwin_flush_unfold cfg _ st t0 Hl). cbn zeta.
  destruct (r_nexp (after_queue st)).
  - injection Hfl as <- <- <-.
    destruct (cscreen_sim app progs (r_tree (after_queue st)) (flush_rects cfg (after_queue st))
                (lines (root_selfrect (after_queue st))) (cols (root_selfrect (after_queue st))) tm t0 Happ)
      as (t1 & Hcs & HTR1); try lia; [exact HTR|].
    exists t1. rewrite Hcs. split; [reflexivity|].
    apply (TR_grid_ext _ _ _ HTR1).
    + match goal with |- WinDefs.t_lines (do_restore ?a ?b) = _ => destruct (do_restore_size a b) as [E1 _]; rewrite E1 end.
      reflexivity.
    + match goal with |- WinDefs.t_cols (do_restore ?a ?b) = _ => destruct (do_restore_size a b) as [_ E2]; rewrite E2 end.
      reflexivity.
    + intros q. rewrite do_restore_grid. reflexivity.
  - destruct (r_nrest (after_queue st)); injection Hfl as <- <- <-; exists t0; (split; [reflexivity|]); [|exact HTR].
    apply (TR_grid_ext _ _ _ HTR); [apply do_restore_size|apply do_restore_size|].
    intros q. rewrite do_restore_grid. reflexivity.
Qed.

(* the same with the size hypotheses on the state before the queued restacks are applied *)
Corollary cwin_flush_sim_root : forall app progs cfg st tm t0 st' tm' lg,
  app_ok app -> TR tm t0 ->
  0 <= lines (root_selfrect st) <= WinDefs.t_lines tm ->
  0 <= cols (root_selfrect st) <= WinDefs.t_cols tm ->
  win_flush cfg (prog_handler app progs) st tm = (st', tm', lg) ->
  exists t1, cwin_flush cfg (c_hp app progs) st t0 = Ok (st', t1, lg) /\ TR tm' t1.
Proof.
  intros app progs cfg st tm t0 st' tm' lg Happ HTR HL HC Hfl.
  apply (cwin_flush_sim app progs cfg st tm t0 st' tm' lg Happ HTR); [| |exact Hfl];
    rewrite after_queue_selfrect; assumption.
Qed.

(* the concrete flush never faults *)
Theorem cwin_flush_total : forall app progs cfg st tm t0,
  app_ok app -> TR tm t0 ->
  0 <= lines (root_selfrect (after_queue st)) <= WinDefs.t_lines tm ->
  0 <= cols (root_selfrect (after_queue st)) <= WinDefs.t_cols tm ->
  exists st' t1 lg, cwin_flush cfg (c_hp app progs) st t0 = Ok (st', t1, lg).
Proof.
  intros app progs cfg st tm t0 Happ HTR HL HC.
  destruct (win_flush cfg (prog_handler app progs) st tm) as [[st' tm'] lg] eqn:Hfl.
  destruct (cwin_flush_sim app progs cfg st tm t0 st' tm' lg Happ HTR HL HC Hfl) as (t1 & H & _).
  exists st', t1, lg. exact H.
Qed.

(* ------------------------------------------------------------------------------------ *)
(* (7) C01 END TO END *)

Definition CScreenInv (app : Z -> Z -> Z -> Z) (st : root) (t : term) : Prop :=
  exists tm, ScreenInv app st tm /\ TR tm t.

(* the sizes cwin_flush_sim asks for, from the screen invariant *)
Lemma screeninv_sizes : forall app st tm t,
  ScreenInv app st tm -> TR tm t ->
  0 <= lines (root_selfrect (after_queue st)) <= WinDefs.t_lines tm /\
  0 <= cols (root_selfrect (after_queue st)) <= WinDefs.t_cols tm.
Proof.
  intros app st tm t SI HTR. destruct (TR_nonneg tm t HTR) as [N1 N2].
  destruct (si_size _ _ _ SI) as [S1 S2]. rewrite after_queue_selfrect.
  unfold root_selfrect, selfrect; cbn [lines cols]. lia.
Qed.

Lemma enc_shows : forall app tree q, app_ok app -> enc (WinScreenInv.shows app tree q) = [WinScreenInv.shows app tree q].
Proof.
  intros app tree q Happ. apply enc_noline. unfold WinScreenInv.shows.
  destruct (owner_rel tree q) as [w pw]. apply Happ.
Qed.

Theorem end_to_end_c01 : forall app progs st t0 st' t1 lg,
  app_ok app -> CScreenInv app st t0 -> ids_unique (r_tree st) -> (forall id, progs id = [DPaint]) ->
  cwin_flush no_defects (c_hp app progs) st t0 = Ok (st', t1, lg) -> r_fault st' = false ->
  r_damage st' = [] /\
  (forall y x, 0 <= y < t_lines t1 -> 0 <= x < t_cols t1 ->
     t_text (tcellat t1 y x) = [WinScreenInv.shows app (r_tree st') (y, x)]) /\
  CScreenInv app st' t1 /\ ids_unique (r_tree st').
Proof.
  intros app progs st t0 st' t1 lg Happ (tm & SI & HTR) Hu Hprogs Hc Hfault.
  destruct (screeninv_sizes app st tm t0 SI HTR) as [HL HC].
  destruct (win_flush no_defects (prog_handler app progs) st tm) as [[st2 tm'] lg2] eqn:Hfl.
  destruct (cwin_flush_sim app progs no_defects st tm t0 st2 tm' lg2 Happ HTR HL HC Hfl) as (t1' & Hc' & HTR').
  rewrite Hc in Hc'. injection Hc' as <- <- <-.
  destruct (flush_establishes_any_queue app progs st tm st' tm' lg SI Hu Hprogs Hfl Hfault) as (Hd & Hcells & SI' & Hu').
  split; [exact Hd|]. split; [|split; [exists tm'; split; assumption|exact Hu']].
  destruct HTR' as (Tok' & TL' & TC' & Tc').
  intros y x Hy Hx. rewrite (Tc' y x Hy Hx). rewrite Hcells; [apply enc_shows; exact Happ|].
  destruct (si_size _ _ _ SI') as [S1 S2].
  unfold cell_inb, root_selfrect, selfrect, bottom, right; cbn [top left lines cols fst snd].
  rewrite <- S1, <- S2, <- TL', <- TC'.
  apply andb_true_iff. split; [apply andb_true_iff; split; [apply andb_true_iff; split|]|];
    first [apply Z.leb_le | apply Z.ltb_lt]; lia.
Qed.

Theorem end_to_end_c01_total : forall app progs st t0,
  app_ok app -> CScreenInv app st t0 -> ids_unique (r_tree st) -> (forall id, progs id = [DPaint]) ->
  exists st' t1 lg, cwin_flush no_defects (c_hp app progs) st t0 = Ok (st', t1, lg).
Proof.
  intros app progs st t0 Happ (tm & SI & HTR) _ _.
  destruct (screeninv_sizes app st tm t0 SI HTR) as [HL HC].
  exact (cwin_flush_total app progs no_defects st tm t0 Happ HTR HL HC).
Qed.

(* ------------------------------------------------------------------------------------ *)
(* (8) C02 END TO END: arbitrary drawing programs *)

Theorem end_to_end_c02 : forall app progs cfg st tm t0 st' t1 lg,
  app_ok app -> TR tm t0 ->
  0 <= lines (root_selfrect (after_queue st)) <= WinDefs.t_lines tm ->
  0 <= cols (root_selfrect (after_queue st)) <= WinDefs.t_cols tm ->
  cwin_flush cfg (c_hp app progs) st t0 = Ok (st', t1, lg) ->
  pairwise_disjoint (flush_rects cfg (after_queue st)) ->
  forall y x, 0 <= y < t_lines t1 -> 0 <= x < t_cols t1 ->
    t_text (tcellat t1 y x) =
      if r_later st && r_nexp (after_queue st) &&
         cell_inb (root_selfrect st') (y, x) && in_any (flush_rects cfg (after_queue st)) (y, x)
      then match WinC02Exact.content
                   (let '(w, pw) := owner_rel (r_tree st') (y, x) in
                    prog_cell_in app (progs w) w (lines (root_selfrect st')) (cols (root_selfrect st')) pw None) with
           | Some c => enc c
           | None => t_text (tcellat t0 y x)
           end
      else t_text (tcellat t0 y x).
Proof.
  intros app progs cfg st tm t0 st' t1 lg Happ HTR HL HC Hc Hpd y x Hy Hx.
  destruct (win_flush cfg (prog_handler app progs) st tm) as [[st2 tm'] lg2] eqn:Hfl.
  destruct (cwin_flush_sim app progs cfg st tm t0 st2 tm' lg2 Happ HTR HL HC Hfl) as (t1' & Hc' & HTR').
  rewrite Hc in Hc'. injection Hc' as <- <- <-.
  pose proof (win_flush_exact app progs cfg st tm st' tm' lg Hfl Hpd (y, x)) as Hex.
  destruct (win_flush_term_size _ _ _ _ _ _ _ Hfl) as [Z1 Z2].
  destruct HTR' as (_ & TL' & TC' & Tc'). destruct HTR as (_ & TL & TC & Tc).
  assert (E0 : t_text (tcellat t0 y x) = enc (t_grid tm (y, x))) by (apply Tc; lia).
  rewrite (Tc' y x Hy Hx), Hex, E0.
  destruct (r_later st && r_nexp (after_queue st) && cell_inb (root_selfrect st') (y, x) &&
            in_any (flush_rects cfg (after_queue st)) (y, x)); [|reflexivity].
  match goal with |- context [WinC02Exact.content ?a] => destruct (WinC02Exact.content a) end; reflexivity.
Qed.

(* what the abstract buffer of the flush holds at a cell, the concrete buffer holds there too:
   the concrete run of the render loop does not fault and the specification cell its span grid
   shows (abs_rb, C03) stands for that content *)
Lemma flush_buffer_concrete : forall app progs cfg st2 y x c w pw,
  app_ok app -> 0 <= lines (root_selfrect st2) -> 0 <= cols (root_selfrect st2) ->
  rb_cells (flush_buffer cfg (prog_handler app progs) st2) (y, x) = Some (c, w, pw) ->
  exists s v,
    run (rb_new (lines (root_selfrect st2)) (cols (root_selfrect st2)))
        (flush_ops (c_hp app progs) (r_tree st2) (flush_rects cfg st2)) = Ok (s, v) /\
    RBInv.Inv s /\
    crep (ac (gcell (ag (abs_rb s)) y x)) (Some c).
Proof.
  intros app progs cfg st2 y x c w pw Happ HL HC Hcell.
  set (L := lines (root_selfrect st2)) in *. set (C := cols (root_selfrect st2)) in *.
  set (prog := flush_ops (c_hp app progs) (r_tree st2) (flush_rects cfg st2)).
  destruct (program_refines L C prog HL HC) as (s & v & Hrun & Hinv & Habs & _).
  exists s, v. split; [exact Hrun|]. split; [exact Hinv|]. rewrite Habs.
  assert (HR : Rrb (flush_buffer cfg (prog_handler app progs) st2) (fst (arun (a_new L C) prog))).
  { unfold flush_buffer. cbn zeta. fold L C.
    apply (Rrb_flush_rb Rrb_save Rrb_clip Rrb_translate Rrb_mask Rrb_restore).
    - apply (hsim_prog Rrb_prog). exact Happ.
    - apply Rrb_new; assumption. }
  assert (Hin : rb_inb (flush_buffer cfg (prog_handler app progs) st2) (y, x) = true).
  { destruct (rb_inb (flush_buffer cfg (prog_handler app progs) st2) (y, x)) eqn:E; [reflexivity|].
    destruct (R_outside _ _ HR _ E) as [E1 _]. congruence. }
  assert (Hg : in_grid (fst (arun (a_new L C) prog)) y x).
  { unfold in_grid. rewrite (R_lines _ _ HR), (R_cols _ _ HR).
    unfold rb_inb in Hin; cbn [fst snd] in Hin.
    apply andb_true_iff in Hin. destruct Hin as [Hin H4]. apply andb_true_iff in Hin. destruct Hin as [Hin H3].
    apply andb_true_iff in Hin. destruct Hin as [H1 H2].
    apply Z.leb_le in H1, H3. apply Z.ltb_lt in H2, H4. lia. }
  destruct (R_cells _ _ HR y x Hg) as [Hcr _]. rewrite Hcell in Hcr. exact Hcr.
Qed.

(* confinement: a terminal cell whose text a flush changes lies inside the root window, inside
   a damage rectangle handed to the root, and its new text is the encoding of what the window
   that owns the cell in the composition drew at the cell's position relative to itself; the
   concrete render buffer held exactly that content there *)
Theorem end_to_end_c02_confined : forall app progs cfg st tm t0 st' t1 lg,
  app_ok app -> TR tm t0 ->
  0 <= lines (root_selfrect (after_queue st)) <= WinDefs.t_lines tm ->
  0 <= cols (root_selfrect (after_queue st)) <= WinDefs.t_cols tm ->
  cwin_flush cfg (c_hp app progs) st t0 = Ok (st', t1, lg) ->
  forall y x, 0 <= y < t_lines t1 -> 0 <= x < t_cols t1 ->
    t_text (tcellat t1 y x) <> t_text (tcellat t0 y x) ->
    exists R c w pw,
      In (t_id (r_tree st'), R) lg /\ cell_in R (y, x) /\
      cell_inb (root_selfrect st') (y, x) = true /\
      rb_cells (flush_buffer cfg (prog_handler app progs) (after_queue st)) (y, x) = Some (c, w, pw) /\
      t_text (tcellat t1 y x) = enc c /\
      owner_rel (r_tree st') (y, x) = (w, pw) /\
      exists s v,
        run (rb_new (lines (root_selfrect (after_queue st))) (cols (root_selfrect (after_queue st))))
            (flush_ops (c_hp app progs) (r_tree (after_queue st)) (flush_rects cfg (after_queue st))) = Ok (s, v) /\
        crep (ac (gcell (ag (abs_rb s)) y x)) (Some c).
Proof.
  intros app progs cfg st tm t0 st' t1 lg Happ HTR HL HC Hc y x Hy Hx Hne.
  destruct (win_flush cfg (prog_handler app progs) st tm) as [[st2 tm'] lg2] eqn:Hfl.
  destruct (cwin_flush_sim app progs cfg st tm t0 st2 tm' lg2 Happ HTR HL HC Hfl) as (t1' & Hc' & HTR').
  rewrite Hc in Hc'. injection Hc' as <- <- <-.
  destruct (win_flush_term_size _ _ _ _ _ _ _ Hfl) as [Z1 Z2].
  destruct HTR' as (_ & TL' & TC' & Tc'). destruct HTR as (_ & TL & TC & Tc).
  assert (E0 : t_text (tcellat t0 y x) = enc (t_grid tm (y, x))) by (apply Tc; lia).
  assert (E1 : t_text (tcellat t1 y x) = enc (t_grid tm' (y, x))) by (apply Tc'; assumption).
  assert (Hg : t_grid tm' (y, x) <> t_grid tm (y, x)).
  { intros E. apply Hne. rewrite E0, E1, E. reflexivity. }
  destruct (flush_confined cfg _ st tm st' tm' lg (prog_handler_ok app progs) Hfl (y, x) Hg)
    as (R & c & w & pw & H1 & H2 & H3 & H4 & H5 & H6).
  exists R, c, w, pw. repeat (split; [assumption|]).
  split; [rewrite E1, H5; reflexivity|]. split; [exact H6|].
  destruct (flush_buffer_concrete app progs cfg (after_queue st) y x c w pw Happ) as (s & v & Hrun & _ & Hcr);
    [lia|lia|exact H4|].
  exists s, v. split; assumption.
Qed.

End end_to_end.
