(* LifePure.v -- heap updates as pure functions, and preservation of the invariant under
   updates that leave the link structure alone. *)
From Coq Require Import ZArith List Bool PArith FMapPositive Lia.
From Tickit Require Import LifeDefs LifeLemmas LifeChains LifeInv.
Import ListNotations.
Local Open Scope Z_scope.

Definition upd_cell (h : heap) (a : positive) (f : wcell -> wcell) : heap :=
  match findw h a with Some c => set_cell h a (f c) | None => h end.

Lemma findw_upd_cell : forall h a f b,
  findw (upd_cell h a f) b = if Pos.eqb a b then option_map f (findw h a) else findw h b.
Proof.
  intros. unfold upd_cell. destruct (findw h a) as [c|] eqn:Hf.
  - rewrite findw_set_cases. destruct (Pos.eqb a b); reflexivity.
  - destruct (Pos.eqb a b) eqn:E; [|reflexivity]. apply Pos.eqb_eq in E. subst. rewrite Hf. reflexivity.
Qed.
Lemma findw_upd_cell_same : forall h a f, findw (upd_cell h a f) a = option_map f (findw h a).
Proof. intros. rewrite findw_upd_cell. rewrite Pos.eqb_refl. reflexivity. Qed.
Lemma findw_upd_cell_other : forall h a f b, a <> b -> findw (upd_cell h a f) b = findw h b.
Proof. intros. rewrite findw_upd_cell. apply Pos.eqb_neq in H. rewrite H. reflexivity. Qed.
Lemma findq_upd_cell : forall h a f q, findq (upd_cell h a f) q = findq h q.
Proof. intros. unfold upd_cell. destruct (findw h a); reflexivity. Qed.
Lemma reqs_upd_cell : forall h a f, reqs (upd_cell h a f) = reqs h.
Proof. intros. unfold upd_cell. destruct (findw h a); reflexivity. Qed.
Lemma rx_upd_cell : forall h a f, rx (upd_cell h a f) = rx h.
Proof. intros. unfold upd_cell. destruct (findw h a); reflexivity. Qed.
Lemma nextw_upd_cell : forall h a f, nextw (upd_cell h a f) = nextw h.
Proof. intros. unfold upd_cell. destruct (findw h a); reflexivity. Qed.
Lemma nextq_upd_cell : forall h a f, nextq (upd_cell h a f) = nextq h.
Proof. intros. unfold upd_cell. destruct (findw h a); reflexivity. Qed.

Lemma upd_pure : forall a f (P : heap -> Prop) (Q : unit -> heap -> Prop),
  (forall h, P h -> findw h a <> None /\ Q tt (upd_cell h a f)) -> hoare P (upd a f) Q.
Proof.
  intros a f P Q H. apply upd_spec. intros h Hp. destruct (H h Hp) as [Hl Hq].
  destruct (findw h a) as [c|] eqn:Hf; [|congruence]. exists c. split; auto.
  unfold upd_cell in Hq. rewrite Hf in Hq. exact Hq.
Qed.

Lemma setw_pure : forall a c (P : heap -> Prop) (Q : unit -> heap -> Prop),
  (forall h, P h -> findw h a <> None /\ Q tt (upd_cell h a (fun _ => c))) -> hoare P (setw a c) Q.
Proof.
  intros a c P Q H. apply setw_spec. intros h Hp. destruct (H h Hp) as [Hl Hq]. split; auto.
  unfold upd_cell in Hq. destruct (findw h a); [exact Hq | congruence].
Qed.

(* the link fields of a cell, i.e. everything the structural part of the invariant reads *)
Definition same_links (c c' : wcell) : Prop :=
  w_parent c' = w_parent c /\ w_first c' = w_first c /\ w_next c' = w_next c /\ w_focus c' = w_focus c /\
  w_closed c' = w_closed c /\ w_isroot c' = w_isroot c.

Lemma same_links_refl : forall c, same_links c c.
Proof. intro c. repeat split. Qed.

(* two heaps that agree cell by cell on the links (and entirely on the queue) *)
Record links_eq (h h' : heap) : Prop := mk_links_eq {
  le_wins : forall a, match findw h a, findw h' a with
                      | Some c, Some c' => same_links c c'
                      | None, None => True
                      | _, _ => False
                      end;
  le_reqs : forall q, findq h' q = findq h q;
  le_queue : r_queue (rx h') = r_queue (rx h);
  le_drag : r_drag (rx h') = r_drag (rx h);
  le_nextw : nextw h' = nextw h;
  le_nextq : nextq h' = nextq h
}.

Lemma links_eq_find : forall h h' a c, links_eq h h' -> findw h a = Some c ->
  exists c', findw h' a = Some c' /\ same_links c c'.
Proof.
  intros h h' a c L Hf. pose proof (le_wins h h' L a) as H. rewrite Hf in H.
  destruct (findw h' a) as [c'|]; [eauto | contradiction].
Qed.
Lemma links_eq_find_rev : forall h h' a c', links_eq h h' -> findw h' a = Some c' ->
  exists c, findw h a = Some c /\ same_links c c'.
Proof.
  intros h h' a c' L Hf. pose proof (le_wins h h' L a) as H. rewrite Hf in H.
  destruct (findw h a) as [c|]; [eauto | contradiction].
Qed.
Lemma links_eq_none : forall h h' a, links_eq h h' -> (findw h' a = None <-> findw h a = None).
Proof.
  intros h h' a L. pose proof (le_wins h h' L a) as H.
  destruct (findw h a), (findw h' a); try contradiction; split; congruence.
Qed.

Lemma links_eq_chain : forall h h' p l, links_eq h h' -> chain h p l -> chain h' p l.
Proof.
  intros h h' p l L Hc. eapply chain_ext; eauto. intros a Ha.
  pose proof (chain_live h p l Hc a Ha) as Hl. destruct (findw h a) as [c|] eqn:Hf; [|congruence].
  destruct (links_eq_find h h' a c L Hf) as [c' [Hf' [_ [_ [Hn _]]]]]. eauto.
Qed.

Lemma links_eq_anc : forall h h' a b, links_eq h h' -> anc h a b -> anc h' a b.
Proof.
  intros h h' a b L Ha. induction Ha as [a c Hf | a c p b Hf Hp Ha IH].
  - destruct (links_eq_find h h' a c L Hf) as [c' [Hf' _]]. eapply anc_refl; eauto.
  - destruct (links_eq_find h h' a c L Hf) as [c' [Hf' [Hp' _]]]. eapply anc_step; eauto. congruence.
Qed.

Lemma links_eq_qchain : forall h h' p l, links_eq h h' -> qchain h p l -> qchain h' p l.
Proof.
  intros h h' p l L Hc. induction Hc; econstructor; eauto. rewrite (le_reqs h h' L). eassumption.
Qed.

(* the structural invariant transfers; the reference-count clause is given separately *)
Lemma hinv_links_eq : forall D h h', hinv D h -> links_eq h h' ->
  (forall a c', findw h' a = Some c' -> ~ In a D -> 1 <= w_ref c') -> hinv D h'.
Proof.
  intros D h h' HI L Href.
  destruct HI as [K P PL O F R C I RP Q QK Dg NW NWR NQ].
  constructor.
  - intros a c' Hf'. destruct (links_eq_find_rev h h' a c' L Hf') as [c [Hf [_ [Hfi _]]]].
    destruct (K a c Hf) as [l [Hc Hl]]. exists l. split.
    + rewrite Hfi. eapply links_eq_chain; eauto.
    + intro k. rewrite (Hl k). split; intros [ck [H1 H2]].
      * destruct (links_eq_find h h' k ck L H1) as [ck' [H1' [Hp' _]]]. exists ck'. split; congruence.
      * destruct (links_eq_find_rev h h' k ck L H1) as [ck0 [H1' [Hp' _]]]. exists ck0. split; congruence.
  - intros k ck' p Hf' Hp. destruct (links_eq_find_rev h h' k ck' L Hf') as [ck [Hf [Hp' _]]].
    rewrite Hp' in Hp. pose proof (P k ck p Hf Hp) as Hl. intro Hn. apply Hl. apply (links_eq_none h h' p L). exact Hn.
  - intros k ck' p Hf' Hp. destruct (links_eq_find_rev h h' k ck' L Hf') as [ck [Hf [Hp' _]]].
    rewrite Hp' in Hp. eauto.
  - intros a c' Hf' Hp. destruct (links_eq_find_rev h h' a c' L Hf') as [c [Hf [Hp' [_ [Hn' _]]]]].
    rewrite Hn'. rewrite Hp' in Hp. eauto.
  - intros a c' f Hf' Hd Hfo. destruct (links_eq_find_rev h h' a c' L Hf') as [c [Hf [_ [_ [_ [Hfo' _]]]]]].
    rewrite Hfo' in Hfo. destruct (F a c f Hf Hd Hfo) as [cf [H1 H2]].
    destruct (links_eq_find h h' f cf L H1) as [cf' [H1' [Hp' _]]]. exists cf'. split; congruence.
  - exact Href.
  - intros a c' Hf' Hc. destruct (links_eq_find_rev h h' a c' L Hf') as [c [Hf [Hp' [_ [_ [_ [Hc' _]]]]]]].
    rewrite Hp'. rewrite Hc' in Hc. eauto.
  - intros a c' Hf'. destruct (links_eq_find_rev h h' a c' L Hf') as [c [Hf [_ [_ [_ [_ [_ Hr']]]]]]].
    rewrite Hr'. eauto.
  - intros c' Hf'. destruct (links_eq_find_rev h h' root c' L Hf') as [c [Hf [Hp' _]]]. rewrite Hp'. eauto.
  - destruct Q as [ql [Hq1 [Hq2 Hq3]]]. exists ql. rewrite (le_queue h h' L). split; [eapply links_eq_qchain; eauto|]. split.
    + intro q. rewrite (le_reqs h h' L). apply Hq2.
    + intros q cq Hfq. rewrite (le_reqs h h' L) in Hfq.
      destruct (Hq3 q cq Hfq) as [x [p [cx [H1 [H2 [H3 [H4 H5]]]]]]].
      destruct (links_eq_find h h' x cx L H3) as [cx' [H3' [Hp' _]]].
      exists x, p, cx'. repeat split; auto; try congruence. eapply links_eq_anc; eauto.
  - intros q cq Hfq. rewrite (le_reqs h h' L) in Hfq. eauto.
  - rewrite (le_drag h h' L). destruct Dg as [od [E Hd]]. exists od. split; [exact E|]. intros d Ed Hn Hl.
    eapply links_eq_anc; eauto. apply Hd; auto. intro Hnone. apply Hl. apply (links_eq_none h h' root L). exact Hnone.
  - intros a Ha. rewrite (le_nextw h h' L). apply NW. intro Hn. apply Ha. apply (links_eq_none h h' a L). exact Hn.
  - rewrite (le_nextw h h' L). exact NWR.
  - intros q Hq'. rewrite (le_nextq h h' L). apply NQ. rewrite <- (le_reqs h h' L). exact Hq'.
Qed.

Lemma links_eq_refl : forall h, links_eq h h.
Proof.
  intro h. constructor; auto. intro a. destruct (findw h a); auto. apply same_links_refl.
Qed.

Lemma links_eq_trans : forall h1 h2 h3, links_eq h1 h2 -> links_eq h2 h3 -> links_eq h1 h3.
Proof.
  intros h1 h2 h3 [W1 R1 Q1 D1 N1 M1] [W2 R2 Q2 D2 N2 M2]. constructor; try congruence.
  - intro a. specialize (W1 a). specialize (W2 a).
    destruct (findw h1 a), (findw h2 a), (findw h3 a); try contradiction; auto.
    unfold same_links in *. intuition congruence.
Qed.

(* an update of one cell that keeps its links *)
Lemma links_eq_upd_cell : forall h a f, (forall c, findw h a = Some c -> same_links c (f c)) -> links_eq h (upd_cell h a f).
Proof.
  intros h a f Hs. constructor.
  - intro b. rewrite findw_upd_cell. destruct (Pos.eqb a b) eqn:E.
    + apply Pos.eqb_eq in E. subst b. destruct (findw h a) as [c|] eqn:Hf; cbn; auto.
    + destruct (findw h b); auto. apply same_links_refl.
  - intro q. apply findq_upd_cell.
  - rewrite rx_upd_cell. reflexivity.
  - rewrite rx_upd_cell. reflexivity.
  - apply nextw_upd_cell.
  - apply nextq_upd_cell.
Qed.

(* a change of the root-only fields that keeps the queue head and the drag source *)
Lemma links_eq_with_rx : forall h r, r_queue r = r_queue (rx h) -> r_drag r = r_drag (rx h) -> links_eq h (with_rx h r).
Proof.
  intros h r Hq Hd. constructor; auto.
  intro a. unfold findw, with_rx. cbn. destruct (PM.find a (wins h)); auto. apply same_links_refl.
Qed.

(* the log fields *)
Lemma links_eq_logs : forall h dl un t,
  links_eq h (mkHeap (wins h) (reqs h) (rx h) (nextw h) (nextq h) dl un t).
Proof.
  intros. constructor; auto. intro a. unfold findw. cbn. destruct (PM.find a (wins h)); auto. apply same_links_refl.
Qed.
