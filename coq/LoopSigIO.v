(* LoopSigIO.v -- C18_io_exact: in the repaired loop every IO watch the dispatch loop invokes
   was live when ppoll returned, and is invoked with exactly the conditions ppoll reported
   for ITS descriptor (restricted to what it asked for plus ERR/HUP/NVAL) -- whatever the
   deferred callbacks and the other IO callbacks of the iteration cancel or register. *)
From Coq Require Import ZArith List Bool Lia.
From Tickit Require Import LoopDefs LoopSigDefs LoopSigProofs.
Import ListNotations.
Local Open Scope Z_scope.

Lemma nth_error_set_nth : forall {A} (l : list A) i j v,
  nth_error (set_nth l i v) j = if Nat.eqb i j then (if Nat.ltb i (length l) then Some v else None) else nth_error l j.
Proof.
  induction l as [|h t IH]; intros i j v.
  - cbn [set_nth length]. destruct (Nat.eqb i j) eqn:E; [|reflexivity].
    destruct j; reflexivity.
  - destruct i as [|i]; destruct j as [|j]; cbn [set_nth nth_error Nat.eqb length]; try reflexivity.
    rewrite IH. destruct (Nat.eqb i j); [|reflexivity].
    change (Nat.ltb (S i) (S (length t))) with (Nat.ltb i (length t)). reflexivity.
Qed.

Lemma find_free_fd : forall l i j, find_free l i = Some j ->
  exists sl, nth_error l (j - i) = Some sl /\ p_fd sl = -1 /\ (i <= j)%nat.
Proof.
  induction l as [|h t IH]; intros i j H; [discriminate|].
  cbn [find_free] in H. destruct (p_fd h =? -1) eqn:E.
  - inversion H; subst. exists h. rewrite Nat.sub_diag. split; [reflexivity|]. split; [apply Z.eqb_eq; exact E|lia].
  - destruct (IH (S i) j H) as [sl [Hn [Hf Hle]]]. exists sl.
    replace (j - i)%nat with (S (j - S i)) by lia. cbn [nth_error]. split; [exact Hn|]. split; [exact Hf|lia].
Qed.

(* the poll table is consistent with the list of live IO watches *)
Record TW (s : sst) : Prop := mkTW {
  tw_nodup : NoDup (map i_id (iows s));
  tw_below : Forall (fun w => i_id w < snext s) (iows s);
  tw_slot : forall idx sl, nth_error (slots s) idx = Some sl -> p_fd sl <> -1 ->
            exists w, In w (iows s) /\ i_id w = p_watch sl /\ i_fd w = p_fd sl /\ i_slot w = idx }.

Lemma nodup_same_id : forall (l : list iow) a b, NoDup (map i_id l) -> In a l -> In b l -> i_id a = i_id b -> a = b.
Proof.
  induction l as [|h t IH]; intros a b Hnd Ha Hb E; [destruct Ha|].
  cbn [map] in Hnd. inversion Hnd as [|? ? Hh Ht]; subst.
  destruct Ha as [Ha|Ha]; destruct Hb as [Hb|Hb]; subst.
  - reflexivity.
  - exfalso. apply Hh. rewrite E. apply in_map. exact Hb.
  - exfalso. apply Hh. rewrite <- E. apply in_map. exact Ha.
  - apply IH; assumption.
Qed.

Lemma in_remove_iow_iff : forall id l x, NoDup (map i_id l) -> (In x (remove_iow id l) <-> In x l /\ i_id x <> id).
Proof.
  induction l as [|h t IH]; intros x Hnd; [cbn; tauto|].
  cbn [map] in Hnd. inversion Hnd as [|? ? Hh Ht]; subst.
  cbn [remove_iow]. destruct (i_id h =? id) eqn:E.
  - apply Z.eqb_eq in E. split.
    + intros Hin. split; [right; exact Hin|]. intros Ex. apply Hh. rewrite E, <- Ex. apply in_map. exact Hin.
    + intros [[Hx|Hx] Hne]; [subst; contradiction|exact Hx].
  - apply Z.eqb_neq in E. cbn [In]. rewrite (IH x Ht). split.
    + intros [Hx|[Hx Hne]]; [subst; split; [left; reflexivity|exact E]|split; [right; exact Hx|exact Hne]].
    + intros [[Hx|Hx] Hne]; [left; exact Hx|right; split; assumption].
Qed.

Lemma nodup_remove_iow : forall id l, NoDup (map i_id l) -> NoDup (map i_id (remove_iow id l)).
Proof.
  induction l as [|h t IH]; intros Hnd; [constructor|].
  cbn [map] in Hnd. inversion Hnd as [|? ? Hh Ht]; subst.
  cbn [remove_iow]. destruct (i_id h =? id); [exact Ht|].
  cbn [map]. constructor; [|apply IH; exact Ht].
  intros Hin. apply Hh. eapply in_remove_iow. exact Hin.
Qed.

Lemma NoDup_app_intro_single : forall (l : list Z) x, NoDup l -> ~ In x l -> NoDup (l ++ [x]).
Proof.
  induction l as [|h t IH]; intros x Hnd Hx; [constructor; [intros []|constructor]|].
  inversion Hnd as [|? ? Hh Ht]; subst. cbn [app]. constructor.
  - intros Hin. apply in_app_or in Hin. destruct Hin as [Hin|[Hin|[]]]; [contradiction|]. subst. apply Hx. left. reflexivity.
  - apply IH; [exact Ht|]. intros Hin. apply Hx. right. exact Hin.
Qed.

Section IO.
Variable env : Z -> list saction.

(* registered descriptors are real ones *)
Definition fds_ok (a : saction) : Prop := match a with SIo fd _ _ _ => 0 <= fd | _ => True end.
Definition env_fds_ok : Prop := forall cb, Forall fds_ok (env cb).

(* relative to the moment ppoll returned (state s0, readiness R): a slot that still holds
   conditions holds those ppoll reported for the descriptor of a watch that was live then *)
Definition PV (s0 : sst) (R : list (Z * Z)) (s : sst) : Prop :=
  forall idx sl, nth_error (slots s) idx = Some sl -> p_fd sl <> -1 -> p_revents sl <> 0 ->
  exists w0, In w0 (iows s0) /\ i_id w0 = p_watch sl /\ i_fd w0 = p_fd sl /\
             p_revents sl = Z.land (lookup_ready R (i_fd w0)) (Z.lor (p_events sl) 56).

Lemma TW_PV_cancel_io : forall s0 R s i, PV s0 R s -> PV s0 R (evloop_cancel_io s i).
Proof.
  intros s0 R s i H. unfold evloop_cancel_io. destruct (nth_error (slots s) i) as [sl0|] eqn:E; [|exact H].
  intros idx sl Hn Hfd Hrv. cbn [slots up_slots] in Hn. rewrite nth_error_set_nth in Hn.
  destruct (Nat.eqb i idx) eqn:Ei.
  - destruct (Nat.ltb i (length (slots s))); [|discriminate]. inversion Hn; subst. cbn in Hfd. contradiction.
  - exact (H idx sl Hn Hfd Hrv).
Qed.

Lemma cancel_io_fields : forall s i,
  slots (evloop_cancel_io s i) =
    match nth_error (slots s) i with
    | Some sl => set_nth (slots s) i (mkSlot (-1) (p_events sl) (p_revents sl) (-1))
    | None => slots s
    end /\
  iows (evloop_cancel_io s i) = iows s /\ snext (evloop_cancel_io s i) = snext s.
Proof. intros s i. unfold evloop_cancel_io. destruct (nth_error (slots s) i); repeat split; reflexivity. Qed.

Lemma scancel_slots : forall s id,
  slots (scancel s id) = slots s \/
  exists w, find_iow id (iows s) = Some w /\ slots (scancel s id) = slots (evloop_cancel_io s (i_slot w)) /\
            iows (scancel s id) = remove_iow id (iows s).
Proof.
  intros s id. unfold scancel. destruct (find_iow id (iows s)) as [w|] eqn:E.
  - right. exists w. split; [reflexivity|].
    destruct (i_unbind w);
      match goal with |- slots (evloop_cancel_io ?a ?i) = _ /\ _ =>
        destruct (cancel_io_fields a i) as [F1 [F2 _]]; destruct (cancel_io_fields s i) as [G1 _];
        rewrite F1, G1, F2; split; reflexivity end.
  - left. destruct (find_sgw id (sgws s)) as [w|].
    { destruct (memz (g_sig w) (kpend s)); [reflexivity|].
      cbn [cursor up_sgws]. destruct (cursor s) as [cu|]; [destruct (cu =? id)|]; destruct (g_unbind w); reflexivity. }
    destruct (find_ltr id (dlaters s)) as [w|]; [destruct (l_unbind w); reflexivity|].
    destruct (find_ltr id (drun s)) as [w|]; [destruct (l_unbind w); reflexivity|]. reflexivity.
Qed.

Lemma PV_scancel : forall s0 R s id, PV s0 R s -> PV s0 R (scancel s id).
Proof.
  intros s0 R s id H. destruct (scancel_slots s id) as [E|[w [_ [E _]]]].
  - unfold PV. rewrite E. exact H.
  - unfold PV. rewrite E. exact (TW_PV_cancel_io s0 R s (i_slot w) H).
Qed.

Lemma PV_evloop_io : forall s0 R s fd cond wid, PV s0 R s -> PV s0 R (fst (evloop_io fixed_cfg s fd cond wid)).
Proof.
  intros s0 R s fd cond wid H. unfold evloop_io. destruct (find_free (slots s) 0) as [i|] eqn:Ef; cbn [fst].
  - intros idx sl Hn Hfd Hrv. cbn [slots up_slots revents_stale fixed_cfg] in Hn. rewrite nth_error_set_nth in Hn.
    destruct (Nat.eqb i idx).
    + destruct (Nat.ltb i (length (slots s))); [|discriminate]. inversion Hn; subst. cbn in Hrv. contradiction.
    + exact (H idx sl Hn Hfd Hrv).
  - intros idx sl Hn Hfd Hrv. cbn [slots up_slots revents_stale fixed_cfg] in Hn.
    destruct (Nat.ltb idx (length (slots s))) eqn:El.
    + apply Nat.ltb_lt in El. rewrite nth_error_app1 in Hn by exact El. exact (H idx sl Hn Hfd Hrv).
    + apply Nat.ltb_ge in El. rewrite nth_error_app2 in Hn by exact El.
      destruct (idx - length (slots s))%nat as [|k]; cbn [nth_error] in Hn.
      * inversion Hn; subst. cbn in Hrv. contradiction.
      * destruct k; discriminate.
Qed.

Lemma PV_action : forall s0 R s a, PV s0 R s -> PV s0 R (sdo_action fixed_cfg s a).
Proof.
  intros s0 R s a H. destruct a as [ub cb|fd cond ub cb|sig ub cb|id|e|sig| |]; cbn [sdo_action]; try exact H.
  - pose proof (PV_evloop_io s0 R s fd cond (snext s) H) as H1.
    destruct (evloop_io fixed_cfg s fd cond (snext s)) as [s1 i]. cbn [fst] in H1. exact H1.
  - apply PV_scancel. exact H.
  - destruct (is_watched s sig); exact H.
Qed.

Lemma PV_actions : forall s0 R l s, PV s0 R s -> PV s0 R (sdo_actions fixed_cfg s l).
Proof.
  intros s0 R. induction l as [|a l IH]; intros s H; [exact H|].
  unfold sdo_actions in *. cbn [fold_left]. apply IH. apply PV_action. exact H.
Qed.

Lemma PV_drun_loop : forall s0 R n s, PV s0 R s -> PV s0 R (drun_loop fixed_cfg env n s).
Proof.
  intros s0 R. induction n as [|n IH]; intros s H; [exact H|].
  cbn [drun_loop]. destruct (drun s) as [|w r]; [exact H|]. apply IH. apply PV_actions. exact H.
Qed.

Lemma PV_invoke_laters : forall s0 R s, PV s0 R s -> PV s0 R (invoke_laters fixed_cfg env s).
Proof. intros s0 R s H. unfold invoke_laters. apply PV_drun_loop. exact H. Qed.

(* right after ppoll the table is as ppoll reported it *)
Lemma PV_after_ppoll : forall s ret s1, TW s -> ppoll s = (ret, s1) ->
  PV s1 (ready s) s1 /\ iows s1 = iows s.
Proof.
  intros s ret s1 Htw H.
  assert (E : slots s1 = map (poll_slot (ready s)) (slots s) /\ iows s1 = iows s).
  { unfold ppoll in H.
    destruct (0 <? Z.of_nat (length (filter (fun x => negb (p_revents x =? 0)) (map (poll_slot (ready s)) (slots s))))).
    - inversion H; subst. split; reflexivity.
    - destruct (kpend s ++ filter (is_watched s) (inwait s)); inversion H; subst; split; reflexivity. }
  destruct E as [Es Ei]. split; [|exact Ei].
  intros idx sl Hn Hfd Hrv. rewrite Es in Hn. rewrite nth_error_map in Hn.
  destruct (nth_error (slots s) idx) as [sl0|] eqn:E0; [|discriminate]. cbn [option_map] in Hn. inversion Hn; subst. clear Hn.
  unfold poll_slot in *. destruct (p_fd sl0 <? 0) eqn:Eneg.
  - cbn in Hrv. contradiction.
  - cbn [p_fd p_events p_revents p_watch] in *.
    destruct (tw_slot s Htw idx sl0 E0 Hfd) as [w [Hin [Hid [Hf Hs]]]].
    exists w. rewrite Ei. split; [exact Hin|]. split; [exact Hid|]. split; [exact Hf|]. rewrite Hf. reflexivity.
Qed.

(* the dispatch loop: every event it logs for an IO watch is a FIRE of a watch that was live
   when ppoll returned, carrying exactly the conditions reported for its descriptor *)
Definition io_exact (s0 : sst) (R : list (Z * Z)) (e : event) : Prop :=
  e_kind e = KIo -> e_flags e = EV_FIRE ->
  exists w0 ev, In w0 (iows s0) /\ i_id w0 = e_id e /\
                e_x e = cond_of_revents (Z.land (lookup_ready R (i_fd w0)) (Z.lor ev 56)).

Definition sext (P : event -> Prop) (s s' : sst) : Prop :=
  exists nw, slog s' = nw ++ slog s /\ forall e, In (OEv e) nw -> P e.

Lemma sext_refl : forall P s, sext P s s.
Proof. intros. exists []. split; [reflexivity|intros e []]. Qed.

Lemma sext_trans : forall P s1 s2 s3, sext P s1 s2 -> sext P s2 s3 -> sext P s1 s3.
Proof.
  intros P s1 s2 s3 [n1 [L1 F1]] [n2 [L2 F2]]. exists (n2 ++ n1). split.
  - rewrite L2, L1, app_assoc. reflexivity.
  - intros e He. apply in_app_or in He. destruct He; auto.
Qed.

Lemma sext_same : forall P s s', slog s' = slog s -> sext P s s'.
Proof. intros P s s' H. exists []. split; [exact H|intros e []]. Qed.

(* callbacks' own API calls log UNBIND notifications only *)
Definition not_io_fire (e : event) : Prop := e_flags e = EV_UNBIND.

Lemma sext_scancel : forall s id, sext not_io_fire s (scancel s id).
Proof.
  intros s id. unfold scancel.
  destruct (find_iow id (iows s)) as [w|].
  { unfold evloop_cancel_io.
    destruct (i_unbind w).
    - destruct (nth_error (slots (semit (up_iows s (remove_iow id (iows s))) id KIo EV_UNBIND 0)) (i_slot w));
        (eexists [_]; split; [reflexivity|]; intros e [He|[]]; inversion He; subst; reflexivity).
    - destruct (nth_error (slots (up_iows s (remove_iow id (iows s)))) (i_slot w)); apply sext_same; reflexivity. }
  destruct (find_sgw id (sgws s)) as [w|].
  { destruct (memz (g_sig w) (kpend s)); [apply sext_refl|].
    cbn [cursor up_sgws]. destruct (cursor s) as [cu|]; [destruct (cu =? id)|]; destruct (g_unbind w);
      try (apply sext_same; reflexivity); (eexists [_]; split; [reflexivity|]; intros e [He|[]]; inversion He; subst; reflexivity). }
  destruct (find_ltr id (dlaters s)) as [w|].
  { destruct (l_unbind w); [|apply sext_same; reflexivity]. eexists [_]. split; [reflexivity|]. intros e [He|[]]. inversion He; subst. reflexivity. }
  destruct (find_ltr id (drun s)) as [w|].
  { destruct (l_unbind w); [|apply sext_same; reflexivity]. eexists [_]. split; [reflexivity|]. intros e [He|[]]. inversion He; subst. reflexivity. }
  apply sext_refl.
Qed.

Lemma sext_action : forall s a, sext not_io_fire s (sdo_action fixed_cfg s a).
Proof.
  intros s a. destruct a as [ub cb|fd cond ub cb|sig ub cb|id|e|sig| |]; cbn [sdo_action]; try (apply sext_same; reflexivity).
  - unfold evloop_io. destruct (find_free (slots s) 0); apply sext_same; reflexivity.
  - apply sext_scancel.
  - destruct (is_watched s sig); apply sext_same; reflexivity.
Qed.

Lemma sext_actions : forall l s, sext not_io_fire s (sdo_actions fixed_cfg s l).
Proof.
  induction l as [|a l IH]; intros s; [apply sext_refl|].
  unfold sdo_actions in *. cbn [fold_left]. eapply sext_trans; [apply sext_action|apply IH].
Qed.

Lemma sext_weaken : forall (P Q : event -> Prop) s s', (forall e, P e -> Q e) -> sext P s s' -> sext Q s s'.
Proof. intros P Q s s' H [nw [L F]]. exists nw. split; [exact L|]. auto. Qed.

Lemma not_io_fire_exact : forall s0 R e, not_io_fire e -> io_exact s0 R e.
Proof. intros s0 R e H _ Hf. unfold not_io_fire in H. rewrite H in Hf. discriminate. Qed.

Theorem io_dispatch_exact : forall s0 R fuel idx s s',
  PV s0 R s -> io_dispatch fixed_cfg env fuel idx s = Some s' -> sext (io_exact s0 R) s s'.
Proof.
  intros s0 R. induction fuel as [|f IH]; intros idx s s' Hpv H; [discriminate|].
  cbn [io_dispatch] in H. destruct (nth_error (slots s) idx) as [sl|] eqn:En; [|inversion H; subst; apply sext_refl].
  destruct (p_fd sl =? -1) eqn:Efd; [eapply IH; eassumption|].
  destruct (p_revents sl =? 0) eqn:Erv; [eapply IH; eassumption|].
  destruct (find_iow (p_watch sl) (iows s)) as [w|] eqn:Ef; [|discriminate].
  apply Z.eqb_neq in Efd. apply Z.eqb_neq in Erv.
  destruct (Hpv idx sl En Efd Erv) as [w0 [Hin [Hid [Hfd Hrv]]]].
  destruct (find_iow_in _ _ _ Ef) as [Hidw _].
  set (s1 := semit s (i_id w) KIo EV_FIRE (cond_of_revents (p_revents sl))) in H.
  assert (E1 : sext (io_exact s0 R) s s1).
  { eexists [_]. split; [reflexivity|]. intros e [He|[]]. inversion He; subst. intros _ _.
    exists w0, (p_events sl). split; [exact Hin|]. split; [cbn; congruence|]. cbn [e_x]. rewrite Hrv. reflexivity. }
  assert (Hpv1 : PV s0 R s1) by exact Hpv.
  pose proof (PV_actions s0 R (env (i_cb w)) s1 Hpv1) as Hpv2.
  eapply sext_trans; [exact E1|]. eapply sext_trans; [|eapply IH; [exact Hpv2|exact H]].
  eapply sext_weaken; [apply not_io_fire_exact|apply sext_actions].
Qed.

(* ---- TW is an invariant of every step *)
Lemma TW_cancel_io_slots : forall s id w, TW s -> find_iow id (iows s) = Some w ->
  forall s', iows s' = remove_iow id (iows s) -> slots s' = slots (evloop_cancel_io s (i_slot w)) -> snext s' = snext s -> TW s'.
Proof.
  intros s id w [Hnd Hb Hsl] Hf s' Ei Es En.
  destruct (find_iow_in _ _ _ Hf) as [Hidw Hinw].
  constructor.
  - rewrite Ei. apply nodup_remove_iow. exact Hnd.
  - rewrite Ei, En. apply Forall_forall. intros x Hx. apply (in_remove_iow_iff id _ x Hnd) in Hx.
    rewrite Forall_forall in Hb. apply Hb. tauto.
  - intros idx sl Hn Hfd. rewrite Es in Hn. unfold evloop_cancel_io in Hn.
    destruct (nth_error (slots s) (i_slot w)) as [sl0|] eqn:E0.
    + cbn [slots up_slots] in Hn. rewrite nth_error_set_nth in Hn. destruct (Nat.eqb (i_slot w) idx) eqn:Ei2.
      * destruct (Nat.ltb (i_slot w) (length (slots s))); [|discriminate]. inversion Hn; subst. cbn in Hfd. contradiction.
      * destruct (Hsl idx sl Hn Hfd) as [x [Hx [Hxid [Hxfd Hxs]]]].
        exists x. rewrite Ei. split; [|auto]. apply (in_remove_iow_iff id _ x Hnd). split; [exact Hx|].
        intros Exid. apply Nat.eqb_neq in Ei2. apply Ei2.
        assert (Hw : In w (iows s)).
        { clear -Hf. induction (iows s) as [|h t IH]; [discriminate|]. cbn [find_iow] in Hf.
          destruct (i_id h =? id); [inversion Hf; left; reflexivity|right; auto]. }
        assert (x = w) by (apply (nodup_same_id (iows s)); try assumption; congruence). subst x. exact Hxs.
    + destruct (Hsl idx sl Hn Hfd) as [x [Hx [Hxid [Hxfd Hxs]]]].
      exists x. rewrite Ei. split; [|auto]. apply (in_remove_iow_iff id _ x Hnd). split; [exact Hx|].
      intros Exid.
      assert (Hw : In w (iows s)).
      { clear -Hf. induction (iows s) as [|h t IH]; [discriminate|]. cbn [find_iow] in Hf.
        destruct (i_id h =? id); [inversion Hf; left; reflexivity|right; auto]. }
      assert (x = w) by (apply (nodup_same_id (iows s)); try assumption; congruence). subst x.
      rewrite Hxs in E0. rewrite E0 in Hn. discriminate.
Qed.

Lemma TW_same : forall s s', TW s -> iows s' = iows s -> slots s' = slots s -> snext s <= snext s' -> TW s'.
Proof.
  intros s s' [Hnd Hb Hsl] Ei Es En. constructor.
  - rewrite Ei. exact Hnd.
  - rewrite Ei. eapply Forall_impl; [|exact Hb]. cbn. intros; lia.
  - intros idx sl Hn Hfd. rewrite Es in Hn. rewrite Ei. exact (Hsl idx sl Hn Hfd).
Qed.

Lemma TW_scancel : forall s id, TW s -> TW (scancel s id).
Proof.
  intros s id H. unfold scancel. destruct (find_iow id (iows s)) as [w|] eqn:E.
  - destruct (scancel_slots s id) as [Es|[w' [Ef' [Es Ei]]]].
    + (* cannot happen: the IO branch always goes through evloop_cancel_io; handled uniformly *)
      unfold scancel in Es. rewrite E in Es.
      eapply (TW_cancel_io_slots s id w H E).
      * destruct (i_unbind w);
          match goal with |- iows (evloop_cancel_io ?a ?i) = _ => destruct (cancel_io_fields a i) as [_ [F2 _]]; rewrite F2; reflexivity end.
      * destruct (i_unbind w);
          match goal with |- slots (evloop_cancel_io ?a ?i) = _ =>
            destruct (cancel_io_fields a i) as [F1 _]; destruct (cancel_io_fields s i) as [G1 _]; rewrite F1, G1; reflexivity end.
      * destruct (i_unbind w);
          match goal with |- snext (evloop_cancel_io ?a ?i) = _ => destruct (cancel_io_fields a i) as [_ [_ F3]]; rewrite F3; reflexivity end.
    + rewrite E in Ef'. inversion Ef'; subst w'.
      unfold scancel in Es, Ei. rewrite E in Es, Ei.
      eapply (TW_cancel_io_slots s id w H E); [exact Ei|exact Es|].
      destruct (i_unbind w);
        match goal with |- snext (evloop_cancel_io ?a ?i) = _ => destruct (cancel_io_fields a i) as [_ [_ F3]]; rewrite F3; reflexivity end.
  - destruct (find_sgw id (sgws s)) as [w|].
    { destruct (memz (g_sig w) (kpend s)); [exact H|].
      cbn [cursor up_sgws]. destruct (cursor s) as [cu|]; [destruct (cu =? id)|]; destruct (g_unbind w);
        (eapply TW_same; [exact H|reflexivity|reflexivity|cbn; lia]). }
    destruct (find_ltr id (dlaters s)) as [w|].
    { destruct (l_unbind w); (eapply TW_same; [exact H|reflexivity|reflexivity|cbn; lia]). }
    destruct (find_ltr id (drun s)) as [w|].
    { destruct (l_unbind w); (eapply TW_same; [exact H|reflexivity|reflexivity|cbn; lia]). }
    exact H.
Qed.

Lemma TW_io : forall s fd cond ub cb, TW s -> 0 <= fd -> TW (sdo_action fixed_cfg s (SIo fd cond ub cb)).
Proof.
  intros s fd cond ub cb [Hnd Hb Hsl] Hfd. cbn [sdo_action]. unfold evloop_io.
  assert (Hfresh : ~ In (snext s) (map i_id (iows s))).
  { intros Hin. apply in_map_iff in Hin. destruct Hin as [x [Hx Hin]]. rewrite Forall_forall in Hb. specialize (Hb x Hin). lia. }
  destruct (find_free (slots s) 0) as [i|] eqn:Ef.
  - destruct (find_free_fd _ _ _ Ef) as [sl0 [Hn0 [Hf0 _]]]. rewrite Nat.sub_0_r in Hn0.
    constructor.
    + cbn [iows up_snext up_iows up_slots]. rewrite map_app. cbn [map i_id].
      apply NoDup_app_intro_single; assumption.
    + cbn [iows snext up_snext up_iows up_slots]. apply Forall_app. split.
      * eapply Forall_impl; [|exact Hb]. cbn; intros; lia.
      * constructor; [cbn; lia|constructor].
    + intros idx sl Hn Hfdsl. cbn [slots iows up_snext up_iows up_slots revents_stale fixed_cfg] in *.
      rewrite nth_error_set_nth in Hn. destruct (Nat.eqb i idx) eqn:Ei.
      * apply Nat.eqb_eq in Ei. subst idx. destruct (Nat.ltb i (length (slots s))); [|discriminate].
        inversion Hn; subst. eexists. split; [apply in_or_app; right; left; reflexivity|]. cbn. repeat split; reflexivity.
      * destruct (Hsl idx sl Hn Hfdsl) as [x [Hx Hrest]]. exists x. split; [apply in_or_app; left; exact Hx|exact Hrest].
  - constructor.
    + cbn [iows up_snext up_iows up_slots]. rewrite map_app. cbn [map i_id].
      apply NoDup_app_intro_single; assumption.
    + cbn [iows snext up_snext up_iows up_slots]. apply Forall_app. split.
      * eapply Forall_impl; [|exact Hb]. cbn; intros; lia.
      * constructor; [cbn; lia|constructor].
    + intros idx sl Hn Hfdsl. cbn [slots iows up_snext up_iows up_slots revents_stale fixed_cfg] in *.
      destruct (Nat.ltb idx (length (slots s))) eqn:El.
      * apply Nat.ltb_lt in El. rewrite nth_error_app1 in Hn by exact El.
        destruct (Hsl idx sl Hn Hfdsl) as [x [Hx Hrest]]. exists x. split; [apply in_or_app; left; exact Hx|exact Hrest].
      * apply Nat.ltb_ge in El. rewrite nth_error_app2 in Hn by exact El.
        destruct (idx - length (slots s))%nat as [|k] eqn:Ek; cbn [nth_error] in Hn.
        -- inversion Hn; subst. eexists. split; [apply in_or_app; right; left; reflexivity|]. cbn. repeat split; try reflexivity. lia.
        -- destruct k; discriminate.
Qed.

(* ---- TW through every step of a script *)
Hypothesis env_ok : env_fds_ok.

Lemma TW_action : forall s a, TW s -> fds_ok a -> TW (sdo_action fixed_cfg s a).
Proof.
  intros s a H Ha. destruct a as [ub cb|fd cond ub cb|sig ub cb|id|e|sig| |].
  - eapply TW_same; [exact H|reflexivity|reflexivity|cbn; lia].
  - apply TW_io; assumption.
  - eapply TW_same; [exact H|reflexivity|reflexivity|cbn; lia].
  - apply TW_scancel. exact H.
  - eapply TW_same; [exact H|reflexivity|reflexivity|cbn; lia].
  - cbn [sdo_action]. destruct (is_watched s sig); [eapply TW_same; [exact H|reflexivity|reflexivity|cbn; lia]|exact H].
  - exact H.
  - eapply TW_same; [exact H|reflexivity|reflexivity|cbn; lia].
Qed.

Lemma TW_actions : forall l s, TW s -> Forall fds_ok l -> TW (sdo_actions fixed_cfg s l).
Proof.
  induction l as [|a l IH]; intros s H Hl; [exact H|].
  inversion Hl; subst. unfold sdo_actions in *. cbn [fold_left]. apply IH; [apply TW_action; assumption|assumption].
Qed.

Lemma TW_drun_loop : forall n s, TW s -> TW (drun_loop fixed_cfg env n s).
Proof.
  induction n as [|n IH]; intros s H; [exact H|].
  cbn [drun_loop]. destruct (drun s) as [|w r]; [exact H|]. apply IH. apply TW_actions; [|apply env_ok].
  eapply TW_same; [exact H|reflexivity|reflexivity|cbn; lia].
Qed.

Lemma TW_invoke_laters : forall s, TW s -> TW (invoke_laters fixed_cfg env s).
Proof.
  intros s H. unfold invoke_laters. apply TW_drun_loop. eapply TW_same; [exact H|reflexivity|reflexivity|cbn; lia].
Qed.

Lemma TW_ppoll : forall s ret s1, TW s -> ppoll s = (ret, s1) -> TW s1.
Proof.
  intros s ret s1 [Hnd Hb Hsl] H.
  assert (E : slots s1 = map (poll_slot (ready s)) (slots s) /\ iows s1 = iows s /\ snext s1 = snext s).
  { unfold ppoll in H.
    destruct (0 <? Z.of_nat (length (filter (fun x => negb (p_revents x =? 0)) (map (poll_slot (ready s)) (slots s))))).
    - inversion H; subst. repeat split; reflexivity.
    - destruct (kpend s ++ filter (is_watched s) (inwait s)); inversion H; subst; repeat split; reflexivity. }
  destruct E as [Es [Ei En]]. constructor.
  - rewrite Ei. exact Hnd.
  - rewrite Ei, En. exact Hb.
  - intros idx sl Hn Hfd. rewrite Es, nth_error_map in Hn.
    destruct (nth_error (slots s) idx) as [sl0|] eqn:E0; [|discriminate]. cbn [option_map] in Hn. inversion Hn; subst.
    assert (F : p_fd (poll_slot (ready s) sl0) = p_fd sl0 /\ p_watch (poll_slot (ready s) sl0) = p_watch sl0).
    { unfold poll_slot. destruct (p_fd sl0 <? 0); split; reflexivity. }
    destruct F as [F1 F2]. rewrite F1 in Hfd. rewrite F1, F2, Ei. exact (Hsl idx sl0 E0 Hfd).
Qed.

Lemma TW_io_dispatch : forall fuel idx s s', TW s -> io_dispatch fixed_cfg env fuel idx s = Some s' -> TW s'.
Proof.
  induction fuel as [|f IH]; intros idx s s' H Hd; [discriminate|].
  cbn [io_dispatch] in Hd. destruct (nth_error (slots s) idx) as [sl|]; [|inversion Hd; subst; exact H].
  destruct (p_fd sl =? -1); [eapply IH; eassumption|].
  destruct (p_revents sl =? 0); [eapply IH; eassumption|].
  destruct (find_iow (p_watch sl) (iows s)) as [w|]; [|discriminate].
  eapply IH; [|exact Hd]. apply TW_actions; [|apply env_ok].
  eapply TW_same; [exact H|reflexivity|reflexivity|cbn; lia].
Qed.

Lemma TW_sig_walk : forall fuel bound this sig s s', TW s -> sig_walk fixed_cfg env fuel bound this sig s = Some s' -> TW s'.
Proof.
  induction fuel as [|f IH]; intros bound this sig s s' H Hw; [discriminate|].
  cbn [sig_walk] in Hw. destruct this as [id|]; [|inversion Hw; subst; exact H].
  destruct (find_sgw id (sgws s)) as [w|]; [|discriminate].
  eapply IH; [|exact Hw]. destruct ((g_sig w =? sig) && (g_id w <? bound)).
  - apply TW_actions.
    + unfold sig_fire. destruct (g_id w <? 0); eapply TW_same; [exact H|reflexivity|reflexivity|cbn; lia|exact H|reflexivity|reflexivity|cbn; lia].
    + unfold cb_acts. destruct (g_id w <? 0); [repeat constructor|apply env_ok].
  - eapply TW_same; [exact H|reflexivity|reflexivity|cbn; lia].
Qed.

Lemma TW_dispatch_sigs : forall fuel sigs s s', TW s -> dispatch_sigs fixed_cfg env fuel sigs s = Some s' -> TW s'.
Proof.
  induction sigs as [|sg r IH]; intros s s' H Hd; [inversion Hd; subst; exact H|].
  cbn [dispatch_sigs] in Hd. destruct (is_watched s sg); [|eapply IH; eassumption].
  destruct (sig_walk fixed_cfg env fuel (snext s) (match sgws s with [] => None | h :: _ => Some (g_id h) end) sg s) as [s1|] eqn:Ew; [|discriminate].
  eapply IH; [eapply TW_sig_walk; eassumption|exact Hd].
Qed.

Lemma TW_before_poll : forall sleep s, TW s -> TW (before_poll sleep s).
Proof. intros sleep s H. eapply TW_same; [exact H|reflexivity|reflexivity|cbn; lia]. Qed.

Lemma TW_iteration : forall fuel sleep s s', TW s -> iteration fixed_cfg env fuel sleep s = Some s' -> TW s'.
Proof.
  intros fuel sleep s s' H Hs. unfold iteration in Hs. fold (before_poll sleep s) in Hs. cbn [stop_early fixed_cfg andb] in Hs.
  destruct (ppoll (before_poll sleep s)) as [ret s2] eqn:Ep.
  pose proof (TW_ppoll _ _ _ (TW_before_poll sleep s H) Ep) as H2.
  pose proof (TW_invoke_laters s2 H2) as H3.
  destruct (0 <? ret); [eapply TW_io_dispatch; eassumption|].
  destruct ((ret <? 0) && ((if errno_late fixed_cfg then errno (invoke_laters fixed_cfg env s2) else errno s2) =? EINTR)).
  - unfold dispatch_signals in Hs. eapply TW_dispatch_sigs; [|exact Hs]. eapply TW_same; [exact H3|reflexivity|reflexivity|cbn; lia].
  - inversion Hs; subst. exact H3.
Qed.

Lemma TW_stick : forall fuel sleep s s', TW s -> stick fixed_cfg env fuel sleep s = Some s' -> TW s'.
Proof.
  intros fuel sleep s s' H Hs. unfold stick in Hs. eapply TW_iteration; [|exact Hs].
  eapply TW_same; [exact H|reflexivity|reflexivity|cbn; lia].
Qed.

Lemma TW_run_passes : forall fuel k s s', TW s -> run_passes fixed_cfg env fuel k s = Some s' -> TW s'.
Proof.
  induction k as [|k IH]; intros s s' H Hs; cbn [run_passes] in Hs; [inversion Hs; subst; exact H|].
  destruct (negb (running s)); [inversion Hs; subst; exact H|].
  destruct (iteration fixed_cfg env fuel true (if Nat.eqb k 0 then up_running s false else s)) as [s2|] eqn:E; [|discriminate].
  eapply IH; [|exact Hs]. eapply TW_iteration; [|exact E].
  destruct (Nat.eqb k 0); [eapply TW_same; [exact H|reflexivity|reflexivity|cbn; lia]|exact H].
Qed.

Definition op_fds_ok (o : sop) : Prop := match o with SAct a => fds_ok a | _ => True end.

Lemma TW_sst0 : TW sst0.
Proof.
  constructor; [constructor|constructor|].
  intros idx sl Hn Hfd. cbn [slots sst0] in Hn. destruct idx as [|[|idx]]; cbn [nth_error] in Hn; try discriminate.
  inversion Hn; subst. cbn in Hfd. contradiction.
Qed.

Lemma TW_reach : forall fuel ops s', Forall op_fds_ok ops -> srun_ops fixed_cfg env fuel ops = Some s' -> TW s'.
Proof.
  intros fuel ops s' Hops. unfold srun_ops.
  assert (G : forall ops s s', Forall op_fds_ok ops -> TW s -> fold_left (sdo_op fixed_cfg env fuel) ops (Some s) = Some s' -> TW s').
  { induction ops0 as [|o r IH]; intros s s0 Ho H Hf.
    - inversion Hf; subst. exact H.
    - inversion Ho as [|? ? Ho1 Hor]; subst. cbn [fold_left] in Hf.
      destruct (sdo_op fixed_cfg env fuel (Some s) o) as [s1|] eqn:E; [|rewrite fold_sdo_op_none in Hf; discriminate].
      eapply IH; [exact Hor| |exact Hf].
      destruct o as [a|sl|fd rv|sg|rk]; cbn [sdo_op] in E.
      + inversion E; subst. apply TW_action; assumption.
      + eapply TW_stick; eassumption.
      + inversion E; subst. eapply TW_same; [exact H|reflexivity|reflexivity|cbn; lia].
      + inversion E; subst. eapply TW_same; [exact H|reflexivity|reflexivity|cbn; lia].
      + destruct (run_passes fixed_cfg env fuel rk _) as [s2|] eqn:Er; [|discriminate]. inversion E; subst s1.
        eapply TW_same; [eapply TW_run_passes; [|exact Er]|reflexivity|reflexivity|cbn; lia].
        eapply TW_same; [exact H|reflexivity|reflexivity|cbn; lia]. }
  intros Hf. eapply G; [exact Hops|apply TW_sst0|exact Hf].
Qed.

(* C18_io_exact: in an iteration whose ppoll reported ready descriptors, everything the IO
   dispatch loop logs for an IO watch is the invocation of a watch that was live when ppoll
   returned, with exactly the conditions ppoll reported for that watch's descriptor *)
Theorem io_exact_iteration : forall fuel sleep s s' ret s2, TW s ->
  ppoll (before_poll sleep s) = (ret, s2) -> 0 < ret ->
  iteration fixed_cfg env fuel sleep s = Some s' ->
  sext (io_exact s2 (ready s)) (invoke_laters fixed_cfg env s2) s'.
Proof.
  intros fuel sleep s s' ret s2 H Ep Hr Hs.
  unfold iteration in Hs. fold (before_poll sleep s) in Hs. rewrite Ep in Hs. cbn [stop_early fixed_cfg andb] in Hs.
  assert (E0 : (0 <? ret) = true) by (apply Z.ltb_lt; exact Hr). rewrite E0 in Hs.
  destruct (PV_after_ppoll _ _ _ (TW_before_poll sleep s H) Ep) as [Hpv _].
  change (ready (before_poll sleep s)) with (ready s) in Hpv.
  eapply io_dispatch_exact; [|exact Hs]. apply PV_invoke_laters. exact Hpv.
Qed.

End IO.
