(* The pen stack of a render buffer: every count equals the number of holders, for every program *)
From Coq Require Import ZArith List Bool PArith FMapPositive Lia Permutation SetoidList.
From Tickit Require Import LifeDefs LifePenDefs.
Import ListNotations.
Local Open Scope Z_scope.

Definition enc (n : nat) : option Z := match n with O => None | S _ => Some (Z.of_nat n) end.
(* the map holds exactly the objects that have holders, each with the number of its holders *)
Definition okm (m : PM.t Z) (H : list positive) : Prop := forall p, PM.find p m = enc (cnt H p).

Lemma cnt_cons : forall H p q, cnt (q :: H) p = (if Pos.eq_dec q p then S (cnt H p) else cnt H p).
Proof. intros. unfold cnt. simpl. destruct (Pos.eq_dec q p); reflexivity. Qed.
Lemma cnt_app : forall H H' p, cnt (H ++ H') p = (cnt H p + cnt H' p)%nat.
Proof. intros. unfold cnt. apply count_occ_app. Qed.
Lemma cnt_nil : forall p, cnt [] p = O.
Proof. reflexivity. Qed.
Lemma cnt_in : forall H p, In p H <-> (cnt H p > 0)%nat.
Proof. intros. unfold cnt. apply count_occ_In. Qed.

Ltac cnt_simp :=
  repeat (rewrite ?cnt_app, ?cnt_cons, ?cnt_nil in * );
  repeat match goal with
         | |- context [Pos.eq_dec ?a ?b] => destruct (Pos.eq_dec a b); subst
         | H : context [Pos.eq_dec ?a ?b] |- _ => destruct (Pos.eq_dec a b); subst
         end; try congruence; try lia.

Lemma okm_ext : forall m H H', okm m H -> (forall p, cnt H p = cnt H' p) -> okm m H'.
Proof. intros m H H' O E p. rewrite <- E. apply O. Qed.

Lemma okm_live : forall m H p, okm m H -> (PM.mem p m = true <-> In p H).
Proof.
  intros m H p O. rewrite PM.mem_find, O, cnt_in. destruct (cnt H p); simpl; split; intros; try lia; try discriminate; reflexivity.
Qed.

Lemma pen_ref_ok : forall m H p, okm m H -> In p H -> exists m', rc_ref p m = Some m' /\ okm m' (p :: H).
Proof.
  intros m H p O I. unfold rc_ref. pose proof (O p) as E. apply cnt_in in I.
  destruct (cnt H p) as [|n] eqn:C; [lia|]. change (enc (S n)) with (Some (Z.of_nat (S n))) in E. rewrite E.
  eexists; split; [reflexivity|]. intro q. rewrite cnt_cons. destruct (Pos.eq_dec p q).
  - subst q. rewrite PM.gss, C. change (enc (S (S n))) with (Some (Z.of_nat (S (S n)))). f_equal. lia.
  - rewrite PM.gso by congruence. apply O.
Qed.

Lemma pen_unref_ok : forall m H H' p, okm m H -> (forall q, cnt H q = cnt (p :: H') q) ->
  exists m', rc_unref p m = Some m' /\ okm m' H'.
Proof.
  intros m H H' p O E. unfold rc_unref. pose proof (O p) as Ep. pose proof (E p) as Cp.
  rewrite cnt_cons in Cp. destruct (Pos.eq_dec p p); [|congruence]. rewrite Cp in Ep.
  change (enc (S (cnt H' p))) with (Some (Z.of_nat (S (cnt H' p)))) in Ep. rewrite Ep.
  destruct (Z.eqb_spec (Z.of_nat (S (cnt H' p)) - 1) 0) as [Z0|Z0].
  - eexists; split; [reflexivity|]. intro q. destruct (Pos.eq_dec p q).
    + subst q. rewrite PM.grs. destruct (cnt H' p); [reflexivity|lia].
    + rewrite PM.gro by congruence. rewrite O, E, cnt_cons. destruct (Pos.eq_dec p q); [congruence|reflexivity].
  - eexists; split; [reflexivity|]. intro q. destruct (Pos.eq_dec p q).
    + subst q. rewrite PM.gss. destruct (cnt H' p) eqn:C; [lia|].
      change (enc (S n)) with (Some (Z.of_nat (S n))). f_equal. lia.
    + rewrite PM.gso by congruence. rewrite O, E, cnt_cons. destruct (Pos.eq_dec p q); [congruence|reflexivity].
Qed.

Lemma pen_new_ok : forall m H p, okm m H -> ~ In p H -> okm (PM.add p 1 m) (p :: H).
Proof.
  intros m H p O N q. rewrite cnt_cons. destruct (Pos.eq_dec p q).
  - subst q. rewrite PM.gss. rewrite cnt_in in N. destruct (cnt H p); [reflexivity|lia].
  - rewrite PM.gso by congruence. apply O.
Qed.

Lemma okm_nil_empty : forall m, okm m [] -> PM.cardinal m = O.
Proof.
  intros m O. rewrite PM.cardinal_1. destruct (PM.elements m) as [|[k v] l] eqn:E; [reflexivity|].
  assert (PM.find k m = Some v) as F.
  { apply PM.elements_complete. rewrite E. left. reflexivity. }
  rewrite O in F. discriminate.
Qed.

Record rinv (r : rbuf) : Prop := {
  ri_pens : okm (rb_pens r) (pen_holders r);
  ri_strs : okm (rb_strs r) (str_holders r);
  ri_pfresh : forall p, In p (pen_holders r) -> (p < rb_next r)%positive;
  ri_sfresh : forall s, In s (str_holders r) -> (s < rb_next r)%positive }.

Lemma pen_release_ok : forall c pens strs HP HS HP' HS',
  okm pens HP -> okm strs HS ->
  (forall q, cnt HP q = cnt (pens_of c ++ HP') q) -> (forall q, cnt HS q = cnt (strs_of c ++ HS') q) ->
  exists pens' strs', rb_release c (pens, strs) = Some (pens', strs') /\ okm pens' HP' /\ okm strs' HS'.
Proof.
  intros c pens strs HP HS HP' HS' OP OS EP ES. destruct c as [|p s|p]; simpl in *.
  - exists pens, strs. split; [reflexivity|]. split; eapply okm_ext; eauto.
  - destruct (pen_unref_ok strs HS HS' s OS ES) as (strs' & U1 & O1). rewrite U1.
    destruct (pen_unref_ok pens HP HP' p OP EP) as (pens' & U2 & O2). rewrite U2.
    exists pens', strs'. auto.
  - destruct (pen_unref_ok pens HP HP' p OP EP) as (pens' & U2 & O2). rewrite U2.
    exists pens', strs. split; [reflexivity|]. split; [assumption|]. eapply okm_ext; eauto.
Qed.

Lemma pen_release_all_ok : forall l pens strs HP HS,
  okm pens (cell_pens l ++ HP) -> okm strs (cell_strs l ++ HS) ->
  exists pens' strs', rb_release_all l (pens, strs) = Some (pens', strs') /\ okm pens' HP /\ okm strs' HS.
Proof.
  induction l as [|c l IH]; intros pens strs HP HS OP OS; simpl in *.
  - exists pens, strs. auto.
  - destruct (pen_release_ok c pens strs _ _ (cell_pens l ++ HP) (cell_strs l ++ HS) OP OS) as (p1 & s1 & R & O1 & O2).
    + intro q. unfold cell_pens. rewrite <- app_assoc. reflexivity.
    + intro q. unfold cell_strs. rewrite <- app_assoc. reflexivity.
    + rewrite R. apply IH; assumption.
Qed.

Lemma pen_free_stack_ok : forall st pens HP, okm pens (st ++ HP) ->
  exists pens', rb_free_stack st pens = Some pens' /\ okm pens' HP.
Proof.
  induction st as [|p st IH]; intros pens HP O; simpl in *.
  - exists pens. auto.
  - destruct (pen_unref_ok pens _ (st ++ HP) p O) as (p1 & U & O1); [reflexivity|]. rewrite U. apply IH. assumption.
Qed.

Lemma set_nth_pens : forall l n old c, nth_error l n = Some old ->
  forall q, (cnt (cell_pens (set_nth n c l)) q + cnt (pens_of old) q = cnt (cell_pens l) q + cnt (pens_of c) q)%nat.
Proof.
  induction l as [|x l IH]; intros n old c E q; destruct n; simpl in *; try discriminate.
  - injection E as ->. unfold cell_pens. simpl. rewrite !cnt_app. lia.
  - specialize (IH _ _ c E q). unfold cell_pens in *. simpl. rewrite !cnt_app. lia.
Qed.
Lemma set_nth_strs : forall l n old c, nth_error l n = Some old ->
  forall q, (cnt (cell_strs (set_nth n c l)) q + cnt (strs_of old) q = cnt (cell_strs l) q + cnt (strs_of c) q)%nat.
Proof.
  induction l as [|x l IH]; intros n old c E q; destruct n; simpl in *; try discriminate.
  - injection E as ->. unfold cell_strs. simpl. rewrite !cnt_app. lia.
  - specialize (IH _ _ c E q). unfold cell_strs in *. simpl. rewrite !cnt_app. lia.
Qed.
Lemma set_nth_length : forall {A} (l : list A) n x, length (set_nth n x l) = length l.
Proof. induction l; intros [|n] x; simpl; auto. Qed.

Lemma pen_fresh_notin : forall H n, (forall p, In p H -> (p < n)%positive) -> ~ In n H.
Proof. intros H n F I. apply F in I. lia. Qed.

Lemma set_nth_pens_in : forall l n c p, In p (cell_pens (set_nth n c l)) -> In p (cell_pens l) \/ In p (pens_of c).
Proof.
  induction l as [|x l IH]; intros n c p I; destruct n; simpl in *; auto; unfold cell_pens in *; simpl in *;
    rewrite in_app_iff in *.
  - destruct I; auto.
  - destruct I as [I|I]; auto. apply IH in I. destruct I; auto.
Qed.
Lemma set_nth_strs_in : forall l n c p, In p (cell_strs (set_nth n c l)) -> In p (cell_strs l) \/ In p (strs_of c).
Proof.
  induction l as [|x l IH]; intros n c p I; destruct n; simpl in *; auto; unfold cell_strs in *; simpl in *;
    rewrite in_app_iff in *.
  - destruct I; auto.
  - destruct I as [I|I]; auto. apply IH in I. destruct I; auto.
Qed.
Lemma cell_pens_skip : forall (l : list rcell), cell_pens (map (fun _ => RcSkip) l) = [].
Proof. induction l; simpl; auto. Qed.
Lemma cell_strs_skip : forall (l : list rcell), cell_strs (map (fun _ => RcSkip) l) = [].
Proof. induction l; simpl; auto. Qed.
Lemma cell_pens_repeat : forall n, cell_pens (repeat RcSkip n) = [].
Proof. induction n; simpl; auto. Qed.
Lemma cell_strs_repeat : forall n, cell_strs (repeat RcSkip n) = [].
Proof. induction n; simpl; auto. Qed.

Lemma rinv_new : forall lines, rinv (rb_new lines).
Proof.
  intro lines. unfold rb_new. constructor; unfold pen_holders, str_holders;
    cbn [rb_pens rb_strs rb_cur rb_stack rb_cells rb_next app];
    rewrite ?cell_pens_repeat, ?cell_strs_repeat.
  - apply (pen_new_ok (PM.empty Z) [] 1%positive); [|intros []]. intro p. rewrite PM.gempty. reflexivity.
  - intro p. rewrite PM.gempty. reflexivity.
  - intros p [<-|[]]. lia.
  - intros s [].
Qed.

Lemma pen_erase_inv : forall line r, rinv r ->
  exists r', rb_erase line r = Some r' /\ rinv r' /\ length (rb_cells r') = length (rb_cells r).
Proof.
  intros line r [OP OS FP FS]. unfold rb_erase. destruct (nth_error (rb_cells r) line) as [old|] eqn:E.
  2:{ exists r. split; [reflexivity|]. split; [constructor; assumption|reflexivity]. }
  pose proof (set_nth_pens _ _ _ RcSkip E) as A1. pose proof (set_nth_pens _ _ _ (RcErase (rb_cur r)) E) as A2.
  pose proof (set_nth_strs _ _ _ RcSkip E) as B1. pose proof (set_nth_strs _ _ _ (RcErase (rb_cur r)) E) as B2.
  destruct (pen_release_ok old (rb_pens r) (rb_strs r) _ _
              (rb_cur r :: rb_stack r ++ cell_pens (set_nth line RcSkip (rb_cells r)))
              (cell_strs (set_nth line RcSkip (rb_cells r))) OP OS) as (p1 & s1 & R & O1 & O2).
  { intro q. specialize (A1 q). unfold pen_holders. simpl in A1. cnt_simp. }
  { intro q. specialize (B1 q). unfold str_holders. simpl in B1. cnt_simp. }
  rewrite R. destruct (pen_ref_ok p1 _ (rb_cur r) O1) as (p2 & R2 & O3); [left; reflexivity|]. rewrite R2.
  eexists; split; [reflexivity|]. split; [|apply set_nth_length].
  constructor; unfold pen_holders, str_holders in *; simpl.
  - eapply okm_ext; [exact O3|]. intro q. specialize (A1 q). specialize (A2 q). simpl in A1, A2. cnt_simp.
  - eapply okm_ext; [exact O2|]. intro q. specialize (B1 q). specialize (B2 q). simpl in B1, B2. cnt_simp.
  - intros p [<-|I]; [apply FP; left; reflexivity|]. apply in_app_iff in I. destruct I as [I|I].
    + apply FP. right. apply in_app_iff. auto.
    + apply set_nth_pens_in in I. destruct I as [I|[<-|[]]]; apply FP; [right; apply in_app_iff; auto|left; reflexivity].
  - intros s I. apply set_nth_strs_in in I. destruct I as [I|[]]. apply FS. assumption.
Qed.

Lemma pen_erase_lines_inv : forall n line r, rinv r -> exists r', rb_erase_lines n line r = Some r' /\ rinv r'.
Proof.
  induction n as [|n IH]; intros line r I; simpl.
  - exists r. auto.
  - destruct (pen_erase_inv line r I) as (r1 & E & I1 & _). rewrite E. apply IH. assumption.
Qed.

Lemma pen_text_inv : forall line r, rinv r -> exists r', rb_text line r = Some r' /\ rinv r'.
Proof.
  intros line r [OP OS FP FS]. unfold rb_text.
  assert (okm (PM.add (rb_next r) 1 (rb_strs r)) (rb_next r :: str_holders r)) as OS0.
  { apply pen_new_ok; [assumption|]. apply pen_fresh_notin. assumption. }
  destruct (nth_error (rb_cells r) line) as [old|] eqn:E.
  2:{ destruct (pen_unref_ok _ _ (str_holders r) (rb_next r) OS0) as (s1 & U & O1); [reflexivity|]. rewrite U.
      eexists; split; [reflexivity|]. constructor; simpl; auto.
      - intros p I. apply FP in I. lia.
      - intros s I. apply FS in I. lia. }
  set (s := rb_next r) in *.
  pose proof (set_nth_pens _ _ _ RcSkip E) as A1. pose proof (set_nth_pens _ _ _ (RcText (rb_cur r) s) E) as A2.
  pose proof (set_nth_strs _ _ _ RcSkip E) as B1. pose proof (set_nth_strs _ _ _ (RcText (rb_cur r) s) E) as B2.
  destruct (pen_release_ok old (rb_pens r) _ _ _
              (rb_cur r :: rb_stack r ++ cell_pens (set_nth line RcSkip (rb_cells r)))
              (s :: cell_strs (set_nth line RcSkip (rb_cells r))) OP OS0) as (p1 & s1 & R & O1 & O2).
  { intro q. specialize (A1 q). unfold pen_holders. simpl in A1. cnt_simp. }
  { intro q. specialize (B1 q). unfold str_holders. simpl in B1. cnt_simp. }
  rewrite R. destruct (pen_ref_ok p1 _ (rb_cur r) O1) as (p2 & R2 & O3); [left; reflexivity|]. rewrite R2.
  destruct (pen_ref_ok s1 _ s O2) as (s2 & R3 & O4); [left; reflexivity|]. rewrite R3.
  destruct (pen_unref_ok s2 _ (s :: cell_strs (set_nth line RcSkip (rb_cells r))) s O4) as (s3 & U & O5); [reflexivity|]. rewrite U.
  eexists; split; [reflexivity|].
  constructor; unfold pen_holders, str_holders in *; simpl.
  - eapply okm_ext; [exact O3|]. intro q. specialize (A1 q). specialize (A2 q). simpl in A1, A2. cnt_simp.
  - eapply okm_ext; [exact O5|]. intro q. specialize (B1 q). specialize (B2 q). simpl in B1, B2. cnt_simp.
  - intros p I. assert (p < s)%positive; [|lia]. destruct I as [<-|I]; [apply FP; left; reflexivity|].
    apply in_app_iff in I. destruct I as [I|I].
    + apply FP. right. apply in_app_iff. auto.
    + apply set_nth_pens_in in I. destruct I as [I|[<-|[]]]; apply FP; [right; apply in_app_iff; auto|left; reflexivity].
  - intros q I. apply set_nth_strs_in in I. destruct I as [I|[<-|[]]]; [apply FS in I|]; lia.
Qed.

Lemma pen_reset_inv : forall r, rinv r -> exists r', rb_reset r = Some r' /\ rinv r'.
Proof.
  intros r [OP OS FP FS]. unfold rb_reset.
  destruct (pen_release_all_ok (rb_cells r) (rb_pens r) (rb_strs r) (rb_cur r :: rb_stack r) []) as (p1 & s1 & R & O1 & O2).
  { eapply okm_ext; [exact OP|]. intro q. unfold pen_holders. cnt_simp. }
  { eapply okm_ext; [exact OS|]. intro q. unfold str_holders. cnt_simp. }
  rewrite R. destruct (pen_unref_ok p1 _ (rb_stack r) (rb_cur r) O1) as (p2 & U & O3); [reflexivity|]. rewrite U.
  assert (~ In (rb_next r) (rb_stack r)) as N.
  { intro I. assert (rb_next r < rb_next r)%positive; [|lia]. apply FP. right. apply in_app_iff. auto. }
  pose proof (pen_new_ok _ _ _ O3 N) as O4.
  destruct (pen_free_stack_ok (rb_stack r) (PM.add (rb_next r) 1 p2) [rb_next r]) as (p3 & F & O5).
  { eapply okm_ext; [exact O4|]. intro q. cnt_simp. }
  rewrite F. eexists; split; [reflexivity|].
  constructor; unfold pen_holders, str_holders; simpl; rewrite ?cell_pens_skip, ?cell_strs_skip; auto.
  - intros p [<-|[]]. lia.
  - intros s [].
Qed.

Lemma pen_cells_live : forall r, rinv r -> forallb (rb_cell_live r) (rb_cells r) = true.
Proof.
  intros r [OP OS _ _]. apply forallb_forall. intros c I.
  assert (forall p, In p (pens_of c) -> In p (pen_holders r)) as HP.
  { intros p J. right. apply in_app_iff. right. unfold cell_pens. apply in_flat_map. eauto. }
  assert (forall s, In s (strs_of c) -> In s (str_holders r)) as HS.
  { intros s J. unfold str_holders, cell_strs. apply in_flat_map. eauto. }
  destruct c as [|p s|p]; simpl in *; auto.
  - apply andb_true_iff. split.
    + apply (okm_live _ _ p OP). apply HP. left. reflexivity.
    + apply (okm_live _ _ s OS). apply HS. left. reflexivity.
  - apply (okm_live _ _ p OP). apply HP. left. reflexivity.
Qed.

Theorem pen_step_inv : forall o r, rinv r -> exists r', rb_step o r = Some r' /\ rinv r'.
Proof.
  intros o r I. destruct o; simpl.
  - (* save *) destruct I as [OP OS FP FS].
    destruct (pen_ref_ok _ _ (rb_cur r) OP) as (p1 & R & O1); [left; reflexivity|]. rewrite R.
    eexists; split; [reflexivity|]. constructor; unfold pen_holders, str_holders in *; simpl; auto.
    intros p [<-|J]; apply FP; auto. left; reflexivity.
  - (* savepen *) destruct I as [OP OS FP FS].
    destruct (pen_ref_ok _ _ (rb_cur r) OP) as (p1 & R & O1); [left; reflexivity|]. rewrite R.
    eexists; split; [reflexivity|]. constructor; unfold pen_holders, str_holders in *; simpl; auto.
    intros p [<-|J]; apply FP; auto. left; reflexivity.
  - (* restore *) destruct (rb_stack r) as [|top st] eqn:S; [exists r; auto|]. destruct I as [OP OS FP FS].
    unfold pen_holders in *. rewrite S in *.
    destruct (pen_unref_ok _ _ (top :: st ++ cell_pens (rb_cells r)) (rb_cur r) OP) as (p1 & U & O1); [reflexivity|].
    rewrite U. eexists; split; [reflexivity|]. constructor; unfold pen_holders, str_holders in *; simpl; auto.
    intros p J. apply FP. right. exact J.
  - (* setpen *) destruct I as [OP OS FP FS].
    assert (okm (PM.add (rb_next r) 1 (rb_pens r)) (rb_next r :: pen_holders r)) as O0.
    { apply pen_new_ok; [assumption|]. apply pen_fresh_notin. assumption. }
    assert (match rb_stack r with [] => true | top :: _ => PM.mem top (PM.add (rb_next r) 1 (rb_pens r)) end = true) as L.
    { destruct (rb_stack r) as [|top st] eqn:S; [reflexivity|]. apply (okm_live _ _ top O0).
      right. unfold pen_holders. rewrite S. right. left. reflexivity. }
    rewrite L.
    destruct (pen_unref_ok _ _ (rb_next r :: rb_stack r ++ cell_pens (rb_cells r)) (rb_cur r) O0) as (p1 & U & O1).
    { intro q. unfold pen_holders. cnt_simp. }
    rewrite U. eexists; split; [reflexivity|]. constructor; unfold pen_holders, str_holders in *; simpl; auto.
    + intros p [<-|J]; [lia|]. assert (p < rb_next r)%positive; [|lia]. apply FP. right. assumption.
    + intros s J. apply FS in J. lia.
  - (* text *) apply pen_text_inv. assumption.
  - (* erase *) destruct (pen_erase_inv line r I) as (r' & E & I' & _). eauto.
  - (* clear *) apply pen_erase_lines_inv. assumption.
  - (* reset *) apply pen_reset_inv. assumption.
  - (* flush *) rewrite (pen_cells_live r I). apply pen_reset_inv. assumption.
Qed.

Theorem pen_drop_inv : forall r, rinv r ->
  exists pens strs, rb_drop r = Some (pens, strs) /\ PM.cardinal pens = O /\ PM.cardinal strs = O.
Proof.
  intros r [OP OS FP FS]. unfold rb_drop.
  destruct (pen_release_all_ok (rb_cells r) (rb_pens r) (rb_strs r) (rb_cur r :: rb_stack r) []) as (p1 & s1 & R & O1 & O2).
  { eapply okm_ext; [exact OP|]. intro q. unfold pen_holders. cnt_simp. }
  { eapply okm_ext; [exact OS|]. intro q. unfold str_holders. cnt_simp. }
  rewrite R. destruct (pen_unref_ok p1 _ (rb_stack r) (rb_cur r) O1) as (p2 & U & O3); [reflexivity|]. rewrite U.
  destruct (pen_free_stack_ok (rb_stack r) p2 []) as (p3 & F & O5); [rewrite app_nil_r; assumption|].
  rewrite F. exists p3, s1. split; [reflexivity|]. split; apply okm_nil_empty; assumption.
Qed.

Theorem pen_exec_inv : forall l r, rinv r -> exists r', rb_exec l r = Some r' /\ rinv r'.
Proof.
  induction l as [|o l IH]; intros r I; simpl; [eauto|].
  destruct (pen_step_inv o r I) as (r1 & S & I1). rewrite S. apply IH. assumption.
Qed.

(* every count is the number of holders, after any program *)
Theorem refcount_exact_penstack : forall lines l, exists r,
  rb_exec l (rb_new lines) = Some r /\
  (forall p, PM.find p (rb_pens r) = enc (cnt (pen_holders r) p)) /\
  (forall s, PM.find s (rb_strs r) = enc (cnt (str_holders r) s)).
Proof.
  intros lines l. destruct (pen_exec_inv l _ (rinv_new lines)) as (r & E & [OP OS _ _]). exists r. auto.
Qed.

Theorem pen_run_from_ok : forall l step r acc, rinv r -> exists obs, rb_run_from l step r acc = RVOk obs 0 0.
Proof.
  induction l as [|o l IH]; intros step r acc I; simpl.
  - destruct (pen_drop_inv r I) as (pens & strs & D & C1 & C2). rewrite D, C1, C2. eauto.
  - destruct (pen_step_inv o r I) as (r1 & S & I1). rewrite S. apply IH. assumption.
Qed.

(* no program touches a released pen or string, and the final unref releases them all *)
Theorem penstack_no_fault_all_released : forall lines l, exists obs, rb_run lines l = RVOk obs 0 0.
Proof. intros. apply pen_run_from_ok. apply rinv_new. Qed.

(* the number of live objects is the number of distinct objects that have a holder *)
Lemma nodupA_keys : forall (l : list (positive * Z)), NoDupA (@PM.eq_key Z) l -> NoDup (map fst l).
Proof.
  induction 1 as [|[k v] l N _ IH]; simpl; constructor; auto.
  intro I. apply N. apply in_map_iff in I. destruct I as ([k' v'] & E & I). simpl in E. subst k'.
  apply InA_alt. exists (k, v'). split; [reflexivity|assumption].
Qed.
Lemma okm_cardinal : forall m H, okm m H -> PM.cardinal m = length (nodup Pos.eq_dec H).
Proof.
  intros m H O. rewrite PM.cardinal_1, <- (map_length fst). apply Permutation_length.
  apply NoDup_Permutation; [apply nodupA_keys, PM.elements_3w|apply NoDup_nodup|].
  intro k. rewrite nodup_In, (cnt_in H k). split.
  - intro I. apply in_map_iff in I. destruct I as ([k' v] & E & I). simpl in E. subst k'.
    apply PM.elements_complete in I. rewrite O in I. destruct (cnt H k); [discriminate|lia].
  - intro C. pose proof (O k) as F. destruct (cnt H k) as [|n] eqn:E; [lia|].
    apply PM.elements_correct in F. apply in_map_iff. eexists; split; [|exact F]. reflexivity.
Qed.

Theorem penstack_counts : forall lines l, exists r,
  rb_exec l (rb_new lines) = Some r /\
  rb_counts r = (Z.of_nat (length (nodup Pos.eq_dec (pen_holders r))),
                 Z.of_nat (length (nodup Pos.eq_dec (str_holders r))),
                 Z.of_nat (length (rb_stack r))).
Proof.
  intros lines l. destruct (pen_exec_inv l _ (rinv_new lines)) as (r & E & [OP OS _ _]). exists r. split; [assumption|].
  unfold rb_counts. rewrite (okm_cardinal _ _ OP), (okm_cardinal _ _ OS). reflexivity.
Qed.
