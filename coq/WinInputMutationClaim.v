(* WinInputMutationClaim.v -- C14_mutation_rest with claimers.

   1. C14_mutation_mouse_claim / C14_mutation_rest_claim: ONE MOUSE PHASE, ARBITRARY [claims]
      except that no window INSIDE the closed subtree (t_ids n0) claims the type (claimers
      outside are allowed, before or after the mutating window; the mutation armed for any
      handler h and any non-root target): the deliveries outside the closed subtree are, in
      order, those of the unmutated order cut at its first claimer, and the return value is
      the claimer of the specification.  The hypothesis is necessary (C14_claim_examples: a
      claimer inside the closed subtree is never asked, so the routing goes on past it).
      Proof: the induction of WinInputMutMouse.v redone with the claim carried through [mres]
      (section MouseClaim: [ok], [uc_restm]).
   2. C14_mutation_rest_claim_mouse / _key: ANY claimers (also inside the subtree) when the
      claim stops the routing before the mutating handler is reached ([mouse_fired] /
      [key_fired] = false): the log is exactly the specification's -- mouse and keys, in
      order.  (Keys with a claimer after the mutation are not covered: there the order may
      legitimately change, so "up to the first claimer" is not a multiset statement.) *)
From Coq Require Import ZArith List Bool Lia ZifyBool Permutation.
From Tickit Require Import RectDefs WinRectSet WinDefs WinInput WinInputSpec WinInputProofs
  WinInputMutBase WinInputMutKey WinInputMutMouse WinInputMutation.
Import ListNotations.
Local Open Scope Z_scope.

Lemma c14_checks_refl closed l :
  c14_rest_checkb closed l l = true /\ c14_rest_set_checkb closed l l = true.
Proof.
  split; [unfold c14_rest_checkb; apply ievs_eqb_refl|].
  apply c14_set_of_perm. apply Permutation_refl.
Qed.

(* one mouse phase, any claimers, the mutation not reached *)
Theorem C14_mutation_rest_claim_mouse claims s h cls act tgt n0 :
  armed_start s h cls act tgt n0 -> i_log s = [] ->
  forall fuel w wn ty btn line col s' r,
    look s w = Some wn -> (height wn < fuel)%nat ->
    mouse_fired claims h cls ty wn line col = false ->
    handle_mouse fuel no_defects claims s w ty btn line col = (s', r) ->
    rev (i_log s') = fst (mouse_phase claims (mouse_order wn line col) ty btn) /\
    r = snd (mouse_phase claims (mouse_order wn line col) ty btn) /\
    c14_rest_checkb (t_ids n0) (fst (mouse_phase claims (mouse_order wn line col) ty btn)) (rev (i_log s')) = true /\
    c14_rest_set_checkb (t_ids n0) (fst (mouse_phase claims (mouse_order wn line col) ty btn)) (rev (i_log s')) = true.
Proof.
  intros (Ha & Hfr & Hpe & Hfa & Hho & Hu & Hf & Hnr) HL fuel w wn ty btn line col s' r Hl Hh Hnf Hrun.
  destruct (C14_mutation_mouse fuel claims s w wn h cls act tgt n0 ty btn line col s' r
              Ha Hfr Hpe Hfa Hho Hu Hf Hnr Hl Hh Hrun) as (_ & _ & _ & Hn & _).
  destruct (Hn Hnf) as (_ & _ & _ & Hlog & Hr).
  assert (E : rev (i_log s') = fst (mouse_phase claims (mouse_order wn line col) ty btn)).
  { rewrite Hlog, HL, app_nil_r. apply rev_involutive. }
  split; [exact E|]. split; [exact Hr|]. rewrite E. apply c14_checks_refl.
Qed.

(* keys, any claimers, the mutation not reached *)
Theorem C14_mutation_rest_claim_key claims s h cls act tgt n0 :
  armed_start s h cls act tgt n0 -> i_log s = [] ->
  forall fuel w wn s' r,
    look s w = Some wn -> focus_okb wn = true -> (height wn < fuel)%nat ->
    key_fired claims h cls wn = false ->
    handle_key fuel no_defects claims s w = (s', r) ->
    rev (i_log s') = key_spec claims wn /\
    r = existsb (fun x => Z.testbit (claims x) 0) (key_order wn) /\
    c14_rest_checkb (t_ids n0) (key_spec claims wn) (rev (i_log s')) = true /\
    c14_rest_set_checkb (t_ids n0) (key_spec claims wn) (rev (i_log s')) = true.
Proof.
  intros (Ha & Hfr & Hpe & Hfa & Hho & Hu & Hf & Hnr) HL fuel w wn s' r Hl Hfo Hh Hnf Hrun.
  destruct (C14_mutation_key fuel claims s w wn h cls act tgt n0 s' r Ha Hfr Hpe Hfa Hho Hu Hf Hnr Hl Hfo Hh Hrun)
    as (_ & _ & _ & Hn & _).
  destruct (Hn Hnf) as (_ & _ & _ & Hlog & Hr).
  assert (E : rev (i_log s') = key_spec claims wn).
  { rewrite Hlog, HL, app_nil_r. apply rev_involutive. }
  split; [exact E|]. split; [exact Hr|]. rewrite E. apply c14_checks_refl.
Qed.

(* the hypotheses are satisfiable with a claimer and an armed mutation on the route: on T1
   the mouse order at (3, 3) is 9 5 6 1 10 7 8 2 11 13 12 3 4 0; window 7 claims presses
   (type 1), the handler of window 2 -- on the route, after the claimer -- would destroy
   window 3; the key order is 1 5 9 6 8 2 10 7 0 11 3 13 12 4, window 6 claims keys, the
   handler of 2 would destroy 3. *)
Definition ex_claims_m : Z -> Z := fun x => if x =? 7 then 2 else 0.
Definition ex_claims_k : Z -> Z := fun x => if x =? 6 then 1 else 0.

Example C14_claim_nonvacuous :
  (existsb (fun e => fst (fst e) =? 2) (mouse_order T1 3 3) = true /\
   mouse_fired ex_claims_m 2 1 1 T1 3 3 = false /\
   snd (mouse_phase ex_claims_m (mouse_order T1 3 3) 1 1) = Some 7 /\
   let '(s', r) := handle_mouse ifuel no_defects ex_claims_m (mk_state T1 [(2, (1, 2, 3))]) 0 1 1 3 3 in
   map iev_win (rev (i_log s')) = [9; 5; 6; 1; 10; 7] /\ r = Some 7 /\ i_fault s' = false) /\
  (mem 2 (key_order T1) = true /\ key_fired ex_claims_k 2 0 T1 = false /\
   let s' := term_key no_defects ex_claims_k (mk_state T1 [(2, (0, 2, 3))]) in
   map iev_win (rev (i_log s')) = [1; 5; 9; 6] /\ i_fault s' = false).
Proof. vm_compute. repeat split; reflexivity. Qed.

Section MouseClaim.
  Variable claims : Z -> Z.
  Variable R0 : root.
  Variables h cls act tgt : Z.
  Variable n0 : wtree.
  Variables ty btn : Z.
  Hypothesis Hu0 : ids_unique R0.
  Hypothesis Hf0 : t_find tgt (r_tree R0) = Some n0.
  Hypothesis Hnr0 : tgt <> t_id (r_tree R0).

  Local Notation ST := (St R0 h cls act tgt).
  Local Notation EM := (emode act tgt).
  Local Notation XM := (exit_mode tgt).
  Local Notation RM := (rootm R0 tgt).
  Local Notation CL := (Cl n0).
  Local Notation HM f := (fun s c cl cc => handle_mouse f no_defects claims s c ty btn cl cc).
  Local Notation ML := (MLOG ty btn).

  (* no window of the closed subtree claims the type (claimers outside are allowed) *)
  Definition noclaim_m : Prop := forall x, In x CL -> Z.testbit (claims x) ty = false.

  Lemma uc_restm : noclaim_m -> forall l,
    mclaim claims ty l = mclaim claims ty (restm CL l) /\
    restm CL (fst (until_claim (mP claims ty) l)) = fst (until_claim (mP claims ty) (restm CL l)).
  Proof.
    intros Hnc. induction l as [|[[w a] b] r [IH1 IH2]]; [split; reflexivity|].
    assert (Hr : restm CL ((w, a, b) :: r) = if negb (mem w CL) then (w, a, b) :: restm CL r else restm CL r)
      by reflexivity.
    rewrite Hr. unfold mclaim in *. rewrite uc_cons.
    destruct (mem w CL) eqn:Em; cbn [negb].
    - assert (Hp : mP claims ty (w, a, b) = false) by (cbn [mP]; apply Hnc; apply mem_in; exact Em).
      rewrite Hp. cbn [fst snd]. split; [exact IH1|].
      unfold restm at 1. cbn [filter fst]. rewrite Em. cbn [negb]. exact IH2.
    - rewrite uc_cons. destruct (mP claims ty (w, a, b)); cbn [fst snd].
      + split; [reflexivity|]. unfold restm. cbn [filter fst]. rewrite Em. reflexivity.
      + split; [exact IH1|]. unfold restm at 1. cbn [filter fst]. rewrite Em. cbn [negb]. f_equal. exact IH2.
  Qed.

  (* the deliveries D and the result r agree, outside the closed subtree, with the route X
     cut at its first claimer outside the closed subtree *)
  Definition ok (X D : list (Z * Z * Z)) (r : option Z) : Prop :=
    r = mclaim claims ty (restm CL X) /\
    restm CL D = fst (until_claim (mP claims ty) (restm CL X)).

  Lemma ok_eq X X' D r : restm CL X = restm CL X' -> ok X D r -> ok X' D r.
  Proof. intros Hp [A B]. unfold ok. rewrite <- Hp. split; assumption. Qed.

  Lemma ok_stop X1 X2 D x : ok X1 D (Some x) -> ok (X1 ++ X2) D (Some x).
  Proof.
    intros [Hr Hd]. unfold ok. rewrite restm_app, mclaim_app, uc_fst_app.
    destruct (existsb (mP claims ty) (restm CL X1)) eqn:E; [split; assumption|].
    rewrite (mclaim_none _ _ _ E) in Hr. discriminate.
  Qed.

  Lemma ok_cont X1 X2 D1 D2 r : ok X1 D1 None -> ok X2 D2 r -> ok (X1 ++ X2) (D1 ++ D2) r.
  Proof.
    intros [Hr1 Hd1] [Hr2 Hd2].
    assert (E : existsb (mP claims ty) (restm CL X1) = false).
    { destruct (existsb (mP claims ty) (restm CL X1)) eqn:E; [|reflexivity].
      destruct (mclaim_some _ _ _ E) as (x & lc & cc & Hx & _). rewrite Hx in Hr1. discriminate. }
    unfold ok. rewrite !restm_app, mclaim_app, uc_fst_app, E.
    rewrite (uc_fst_noclaim _ _ E) in Hd1. rewrite Hd1, Hd2. split; [exact Hr2|reflexivity].
  Qed.

  Lemma ok_exact l : noclaim_m -> ok l (fst (until_claim (mP claims ty) l)) (mclaim claims ty l).
  Proof. intros Hnc. destruct (uc_restm Hnc l) as [A B]. split; assumption. Qed.

  Lemma ok_one w line col : noclaim_m ->
    ok [(w, line, col)] [(w, line, col)] (if Z.testbit (claims w) ty then Some w else None).
  Proof.
    intros Hnc. pose proof (ok_exact [(w, line, col)] Hnc) as H. rewrite mclaim_one in H.
    assert (E : fst (until_claim (mP claims ty) [(w, line, col)]) = [(w, line, col)]).
    { cbn [until_claim]. destruct (mP claims ty (w, line, col)); reflexivity. }
    rewrite E in H. exact H.
  Qed.

  (* what a piece of mouse routing did; when nobody claims: nobody claimed, and the deliveries
     outside the closed subtree are those of the route X, in its order *)
  Definition mres (m' : mode) (H : list Z) (L : list iev) (X : list (Z * Z * Z)) (res : istate * option Z) : Prop :=
    exists D r, res = (ST m' H (ML D L), r) /\
                (noclaim_m -> ok X D r).

  Lemma mres_nil m H L : mres m H L [] (ST m H L, None).
  Proof. exists [], None. split; [reflexivity|]. intros _. split; reflexivity. Qed.

  Lemma mres_eq m H L X X' res : restm CL X = restm CL X' -> mres m H L X res -> mres m H L X' res.
  Proof.
    intros Hp (D & r & He & Hn). exists D, r. split; [exact He|]. intros Hnc. exact (ok_eq _ _ _ _ Hp (Hn Hnc)).
  Qed.

  Lemma mres_seq m H L X1 X2 (e1 : istate * option Z) (e2 : istate -> istate * option Z) :
    mres m H L X1 e1 -> (forall L', mres m H L' X2 (e2 (ST m H L'))) ->
    mres m H L (X1 ++ X2) (let '(s', r) := e1 in match r with Some x => (s', Some x) | None => e2 s' end).
  Proof.
    intros (D1 & r1 & -> & Hn1) H2. destruct r1 as [x|].
    - exists D1, (Some x). split; [reflexivity|]. intros Hnc. apply ok_stop. exact (Hn1 Hnc).
    - destruct (H2 (ML D1 L)) as (D2 & r2 & -> & Hn2). exists (D1 ++ D2), r2. rewrite MLOG_app.
      split; [reflexivity|]. intros Hnc. exact (ok_cont _ _ _ _ _ (Hn1 Hnc) (Hn2 Hnc)).
  Qed.

  Lemma mres_exact m H L l X :
    (noclaim_m -> restm CL l = restm CL X) ->
    mres m H L X (ST m H (mlog claims ty btn l L), mclaim claims ty l).
  Proof.
    intros Hp. exists (fst (until_claim (mP claims ty) l)), (mclaim claims ty l). split; [reflexivity|].
    intros Hnc. exact (ok_eq _ _ _ _ (Hp Hnc) (ok_exact l Hnc)).
  Qed.

  (* the end of a frame: the window's own handlers, then the frame's reference goes *)
  Definition mtail (claims' : Z -> Z) (w line col : Z) (res : istate * option Z) : istate * option Z :=
    let '(s1, r1) := res in
    match r1 with
    | Some x => (release s1 w, Some x)
    | None =>
      let '(s2, r2) := run_handler no_defects claims' s1 w (IMouse w ty btn line col) in
      (release s2 w, if r2 then Some w else None)
    end.

  Lemma mouse_step_tail hm s w line col :
    mouse_step hm claims s w ty btn line col =
    match look s w with
    | None => (i_faulty s, None)
    | Some wn =>
      if negb (w_vis (t_info wn)) then (s, None) else
      mtail claims w line col
        (let s := hold s w in
         let snap := kid_ids s w in
         let '(s', r) := mouse_loop hm w line col s snap in (s', r))
    end.
  Proof. reflexivity. Qed.

  Lemma ML_one D w line col L : ML (D ++ [(w, line, col)]) L = IMouse w ty btn line col :: ML D L.
  Proof. rewrite MLOG_app. reflexivity. Qed.

  (* ---- a frame that goes on after the mutation ---- *)
  Section After.
    Variable f : nat.
    Variable m : mode.
    Variable i : winfo.
    Variable ch : list wtree.
    Local Notation P := (Node i ch).
    Hypothesis Hm : m <> M0.
    Hypothesis HP : subl P (forest R0).
    Hypothesis Hmd : m = Md -> t_id P <> tgt.
    Hypothesis Hh : (height P < S f)%nat.

    Lemma mafter_look H L : look (ST m H L) (t_id P) = Some (cut tgt P).
    Proof.
      rewrite look_St.
      assert (Hfr : mem (t_id P) (freedm tgt m) = false).
      { destruct m; try reflexivity. cbn [freedm mem existsb]. specialize (Hmd eq_refl).
        destruct (tgt =? t_id P) eqn:E; [lia|reflexivity]. }
      rewrite Hfr. rewrite <- (cut_id_eq tgt P). apply f_find_unique.
      - apply (after_unique R0 tgt n0 Hu0 Hf0 Hnr0 m Hm).
      - apply (after_image R0 tgt n0 Hu0 Hf0 Hnr0 m P Hm HP Hmd).
    Qed.

    Lemma mafter_kid_ids H L : kid_ids (ST m H L) (t_id P) = map t_id (kids_remove tgt ch).
    Proof.
      unfold kid_ids. rewrite mafter_look. rewrite cut_kids, map_map.
      apply map_ext. intros c. apply cut_id_eq.
    Qed.

    Lemma mafter_parent c : In c ch -> t_id c <> tgt -> f_parent (RM m) (t_id c) = Some (t_id P).
    Proof.
      intros Hc Hne. rewrite <- (cut_id_eq tgt c), <- (cut_id_eq tgt P). apply f_parent_unique.
      - apply (after_unique R0 tgt n0 Hu0 Hf0 Hnr0 m Hm).
      - apply (after_image R0 tgt n0 Hu0 Hf0 Hnr0 m P Hm HP Hmd).
      - apply cut_kid_in; assumption.
    Qed.

    Lemma mkid_image c : In c ch -> t_id c <> tgt -> subl (cut tgt c) (forest (RM m)).
    Proof.
      intros Hc Hne. eapply subl_kid; [apply (after_image R0 tgt n0 Hu0 Hf0 Hnr0 m P Hm HP Hmd)|].
      apply cut_kid_in; assumption.
    Qed.

    Lemma mafter_look_kid c H L : In c ch -> t_id c <> tgt -> look (ST m H L) (t_id c) = Some (cut tgt c).
    Proof.
      intros Hc Hne. rewrite look_St.
      assert (Hfr : mem (t_id c) (freedm tgt m) = false).
      { destruct m; try reflexivity. cbn [freedm mem existsb]. destruct (tgt =? t_id c) eqn:E; [lia|reflexivity]. }
      rewrite Hfr. rewrite <- (cut_id_eq tgt c). apply f_find_unique.
      - apply (after_unique R0 tgt n0 Hu0 Hf0 Hnr0 m Hm).
      - apply mkid_image; assumption.
    Qed.

    Lemma mvisit_after c H L l' c' :
      In c ch -> t_id c <> tgt ->
      handle_mouse f no_defects claims (ST m H L) (t_id c) ty btn l' c' =
      (ST m H (mlog claims ty btn (mouse_order (cut tgt c) l' c') L), mclaim claims ty (mouse_order (cut tgt c) l' c')).
    Proof.
      intros Hc Hne. rewrite !(St_Gs R0 h cls act tgt m _ _ Hm). rewrite <- (cut_id_eq tgt c).
      apply handle_mouse_Gs.
      - apply (after_unique R0 tgt n0 Hu0 Hf0 Hnr0 m Hm).
      - apply mkid_image; assumption.
      - pose proof (height_cut tgt c). pose proof (height_kid c P Hc). lia.
      - apply after_clean. exact Hne.
    Qed.

    Lemma mcut_rest c l' c' : In c ch -> restm CL (mouse_order (cut tgt c) l' c') = restm CL (mouse_order c l' c').
    Proof.
      intros Hc. apply mouse_cut. intros k Hk Hid.
      apply (closed_kid R0 tgt n0 Hu0 Hf0 c k (subl_kid _ _ _ HP Hc) Hk Hid).
    Qed.

    Lemma mclosed_child c line col : In c ch -> t_id c = tgt -> restm CL (G line col c) = [].
    Proof.
      intros Hc Hid. apply restm_nil. intros x a b Hx. unfold G in Hx.
      destruct (_ || _); [|destruct Hx]. apply mouse_order_ids in Hx.
      apply (closed_kid R0 tgt n0 Hu0 Hf0 c c (subl_kid _ _ _ HP Hc) (sub_refl c) Hid). exact Hx.
    Qed.

    Lemma mloop_after line col : forall cs, incl cs ch -> forall H L,
      mres m H L (flat_map (G line col) cs)
           (mouse_loop (HM f) (t_id P) line col (ST m H L) (map t_id cs)).
    Proof.
      induction cs as [|a cs IH]; intros Hincl H L.
      { cbn [map flat_map]. rewrite mouse_loop_nil. apply mres_nil. }
      assert (Ha : In a ch) by (apply Hincl; left; reflexivity).
      assert (Hincl' : incl cs ch) by (intros x Hx; apply Hincl; right; exact Hx).
      cbn [map flat_map]. rewrite mouse_loop_cons. change (i_root (ST m H L)) with (RM m).
      destruct (Z.eq_dec (t_id a) tgt) as [He|Hne].
      - rewrite He, (after_tgt_orphan R0 tgt n0 Hu0 Hf0 Hnr0 m Hm). cbn [opt_is negb].
        apply (mres_eq m H L (flat_map (G line col) cs)); [|apply IH; exact Hincl'].
        rewrite restm_app, (mclosed_child a line col Ha He). reflexivity.
      - rewrite (mafter_parent a Ha Hne). cbn [opt_is]. rewrite Z.eqb_refl. cbn [negb].
        rewrite (mafter_look_kid a H L Ha Hne). rewrite try_child_spec, cut_steal, cut_rect.
        unfold G at 1.
        destruct (w_steal (t_info a) || cell_inb (w_rect (t_info a)) (line, col)) eqn:E; cbn [app].
        + apply (mres_seq m H L _ (flat_map (G line col) cs)
                   (handle_mouse f no_defects claims (ST m H L) (t_id a) ty btn
                      (line - top (w_rect (t_info a))) (col - left (w_rect (t_info a))))
                   (fun s' => mouse_loop (HM f) (t_id P) line col s' (map t_id cs))).
          * rewrite (mvisit_after a H L _ _ Ha Hne). apply mres_exact. intros _. apply mcut_rest. exact Ha.
          * intros L'. apply IH. exact Hincl'.
        + apply IH. exact Hincl'.
    Qed.

    Lemma mfire_after w e H : fire_mode h cls act tgt m w e H = m.
    Proof. destruct m; [contradiction| | |]; reflexivity. Qed.

    Lemma mtail_after w line col H L X res :
      mres m (w :: H) L X res ->
      mres (XM m w H) H L (X ++ [(w, line, col)]) (mtail claims w line col res).
    Proof.
      intros (D & r1 & -> & Hn). unfold mtail. destruct r1 as [x|].
      - exists D, (Some x). rewrite release_St. split; [reflexivity|].
        intros Hnc. apply ok_stop. exact (Hn Hnc).
      - rewrite (run_handler_St claims R0 h cls act tgt n0 Hf0 Hnr0), mfire_after. cbn [ev_bit].
        rewrite release_St. exists (D ++ [(w, line, col)]), (if Z.testbit (claims w) ty then Some w else None).
        rewrite ML_one. split; [reflexivity|]. intros Hnc.
        exact (ok_cont _ _ _ _ _ (Hn Hnc) (ok_one w line col Hnc)).
    Qed.
  End After.

  (* ---- before the mutation ---- *)
  Definition hit (e : Z * Z * Z) : bool := fst (fst e) =? h.
  Definition mfires (l : list (Z * Z * Z)) : bool :=
    (1 =? cls) && existsb hit (fst (until_claim (mP claims ty) l)).

  Lemma mfires_nil : mfires [] = false.
  Proof. unfold mfires. cbn [until_claim fst existsb]. apply andb_false_r. Qed.

  Lemma mfires_app_t l1 l2 : existsb (mP claims ty) l1 = true -> mfires (l1 ++ l2) = mfires l1.
  Proof. intros He. unfold mfires. rewrite uc_fst_app, He. reflexivity. Qed.

  Lemma mfires_app_f l1 l2 : existsb (mP claims ty) l1 = false -> mfires (l1 ++ l2) = mfires l1 || mfires l2.
  Proof.
    intros He. unfold mfires. rewrite uc_fst_app, He, (uc_fst_noclaim _ _ He), existsb_app.
    destruct (1 =? cls); reflexivity.
  Qed.

  Lemma mfires_prefix l1 l2 : mfires l1 = true -> mfires (l1 ++ l2) = true.
  Proof.
    intros Hf. destruct (existsb (mP claims ty) l1) eqn:E.
    - rewrite mfires_app_t by exact E. exact Hf.
    - rewrite mfires_app_f by exact E. rewrite Hf. reflexivity.
  Qed.

  Lemma mfires_one w line col : mfires [(w, line, col)] = (w =? h) && (1 =? cls).
  Proof.
    unfold mfires. cbn [until_claim mP]. destruct (Z.testbit (claims w) ty); cbn [fst existsb hit];
      rewrite orb_false_r; apply andb_comm.
  Qed.

  Lemma mres_shift m H L l X0 X res :
    existsb (mP claims ty) l = false ->
    (noclaim_m -> restm CL l = restm CL X0) ->
    mres m H (mlog claims ty btn l L) X res -> mres m H L (X0 ++ X) res.
  Proof.
    intros El Hp (D & r & -> & Hn). exists (fst (until_claim (mP claims ty) l) ++ D), r.
    rewrite MLOG_app, <- mlog_MLOG. split; [reflexivity|].
    intros Hnc. apply ok_cont; [|exact (Hn Hnc)]. apply (ok_eq l); [exact (Hp Hnc)|].
    rewrite <- (mclaim_none _ _ _ El). apply ok_exact. exact Hnc.
  Qed.

  Definition mouse_res (f : nat) (n : wtree) : Prop :=
    forall line col H L,
      if mfires (mouse_order n line col)
      then mres (EM H) H L (mouse_order n line col)
                (handle_mouse f no_defects claims (ST M0 H L) (t_id n) ty btn line col)
      else handle_mouse f no_defects claims (ST M0 H L) (t_id n) ty btn line col =
           (ST M0 H (mlog claims ty btn (mouse_order n line col) L), mclaim claims ty (mouse_order n line col)).

  Lemma mloop_M0 f i ch w H line col :
    w = t_id (Node i ch) ->
    subl (Node i ch) (forest R0) -> (height (Node i ch) < S f)%nat ->
    (forall c, In c ch -> mouse_res f c) ->
    forall cs, incl cs ch -> forall L,
    if mfires (flat_map (G line col) cs)
    then mres (EM (w :: H)) (w :: H) L (flat_map (G line col) cs)
              (mouse_loop (HM f) w line col (ST M0 (w :: H) L) (map t_id cs))
    else mouse_loop (HM f) w line col (ST M0 (w :: H) L) (map t_id cs) =
         (ST M0 (w :: H) (mlog claims ty btn (flat_map (G line col) cs) L),
          mclaim claims ty (flat_map (G line col) cs)).
  Proof.
    intros Hw HP Hh Hok. subst w. set (w := t_id (Node i ch)) in *.
    assert (Hm1 : EM (w :: H) <> M0) by apply emode_not_M0.
    assert (Hmd : EM (w :: H) = Md -> t_id (Node i ch) <> tgt).
    { intros He Ht. subst w. rewrite Ht in He. exact (emode_Md_self act tgt H He). }
    induction cs as [|a cs IH]; intros Hincl L.
    { cbn [map flat_map]. rewrite mfires_nil, mouse_loop_nil. reflexivity. }
    assert (Ha : In a ch) by (apply Hincl; left; reflexivity).
    assert (Hincl' : incl cs ch) by (intros x Hx; apply Hincl; right; exact Hx).
    specialize (IH Hincl').
    cbn [map flat_map]. rewrite mouse_loop_cons. change (i_root (ST M0 (w :: H) L)) with R0.
    rewrite (f_parent_unique R0 (Node i ch) a Hu0 HP Ha). cbn [opt_is]. fold w. rewrite Z.eqb_refl. cbn [negb].
    rewrite look_St. cbn [freedm mem existsb rootm].
    rewrite (f_find_unique R0 a Hu0 (subl_kid _ _ _ HP Ha)).
    rewrite try_child_spec.
    assert (HG : G line col a = if w_steal (t_info a) || cell_inb (w_rect (t_info a)) (line, col)
                                then mouse_order a (line - top (w_rect (t_info a))) (col - left (w_rect (t_info a)))
                                else []) by reflexivity.
    rewrite HG. clear HG.
    destruct (w_steal (t_info a) || cell_inb (w_rect (t_info a)) (line, col)) eqn:E; cbn [app]; [|apply IH].
    set (ro := mouse_order a (line - top (w_rect (t_info a))) (col - left (w_rect (t_info a)))).
    specialize (Hok a Ha (line - top (w_rect (t_info a))) (col - left (w_rect (t_info a))) (w :: H) L).
    fold ro in Hok.
    destruct (mfires ro) eqn:Efa.
    - rewrite mfires_prefix by exact Efa.
      apply (mres_seq (EM (w :: H)) (w :: H) L ro (flat_map (G line col) cs)
               (handle_mouse f no_defects claims (ST M0 (w :: H) L) (t_id a) ty btn
                  (line - top (w_rect (t_info a))) (col - left (w_rect (t_info a))))
               (fun s' => mouse_loop (HM f) w line col s' (map t_id cs))); [exact Hok|].
      intros L'.
      apply (mloop_after f (EM (w :: H)) i ch Hm1 HP Hmd Hh line col cs Hincl' (t_id (Node i ch) :: H) L').
    - rewrite Hok. destruct (existsb (mP claims ty) ro) eqn:Ea.
      + rewrite mfires_app_t by exact Ea. rewrite Efa.
        destruct (mclaim_some _ _ _ Ea) as (x & lc & cc & Hx & _ & _). rewrite Hx.
        rewrite mclaim_app, Ea, Hx. rewrite mlog_app_t by exact Ea. reflexivity.
      + rewrite mfires_app_f by exact Ea. rewrite Efa. cbn [orb].
        rewrite (mclaim_none _ _ _ Ea).
        specialize (IH (mlog claims ty btn ro L)).
        destruct (mfires (flat_map (G line col) cs)).
        * apply (mres_shift _ _ L ro ro); [exact Ea|intros _; reflexivity|exact IH].
        * rewrite IH. rewrite mclaim_app, Ea. rewrite mlog_app_f by exact Ea. reflexivity.
  Qed.

  Theorem mut_mouse_gen : forall fuel n,
    subl n (forest R0) -> (height n < fuel)%nat -> mouse_res fuel n.
  Proof.
    induction fuel as [|f IHf]; intros n HP Hh line col H L; [lia|].
    assert (Hfind : f_find R0 (t_id n) = Some n) by (apply f_find_unique; assumption).
    assert (Hkids : forall c, In c (t_kids n) -> mouse_res f c).
    { intros c Hc. apply IHf.
      - eapply subl_kid; eassumption.
      - apply height_kid in Hc. lia. }
    destruct n as [i ch]. cbn [t_kids] in Hkids.
    set (w := t_id (Node i ch)) in *.
    assert (Hm1 : EM (w :: H) <> M0) by apply emode_not_M0.
    assert (Hmd : EM (w :: H) = Md -> t_id (Node i ch) <> tgt).
    { intros He Ht. fold w in Ht. rewrite Ht in He. exact (emode_Md_self act tgt H He). }
    assert (Hex : XM (EM (w :: H)) w H = EM H) by apply exit_emode.
    pose proof (mloop_M0 f i ch w H line col eq_refl HP Hh Hkids ch (incl_refl ch) L) as Hloop.
    rewrite handle_mouse_S, mouse_step_tail. rewrite look_St. cbn [freedm mem existsb rootm]. rewrite Hfind.
    cbn [t_info]. rewrite mouse_order_eq. change (w_id i) with w. fold (G line col).
    destruct (w_vis i) eqn:Ev; cbn [negb].
    2:{ rewrite mfires_nil. reflexivity. }
    rewrite hold_St. cbv zeta. unfold kid_ids. rewrite look_St. cbn [freedm mem existsb rootm]. rewrite Hfind.
    cbn [t_kids].
    set (K := flat_map (G line col) ch) in *.
    destruct (mfires K) eqn:EfK.
    - (* the mutation happened inside a child *)
      rewrite mfires_prefix by exact EfK. rewrite <- Hex.
      apply (mtail_after (EM (w :: H)) i ch Hm1 Hmd w line col H L K).
      destruct Hloop as (D & r & He & Hn). exists D, r. split; [|exact Hn].
      rewrite He. reflexivity.
    - rewrite Hloop. unfold mtail.
      destruct (existsb (mP claims ty) K) eqn:EK.
      + rewrite mfires_app_t by exact EK. rewrite EfK.
        destruct (mclaim_some _ _ _ EK) as (x & lc & cc & Hx & _ & _). rewrite Hx.
        rewrite release_St. rewrite mclaim_app, EK, Hx. rewrite mlog_app_t by exact EK. reflexivity.
      + rewrite (mclaim_none _ _ _ EK).
        rewrite (run_handler_St claims R0 h cls act tgt n0 Hf0 Hnr0). cbn [fire_mode ev_class ev_bit].
        rewrite mfires_app_f by exact EK. rewrite EfK, mfires_one. cbn [orb].
        rewrite release_St.
        destruct ((w =? h) && (1 =? cls)) eqn:Eown.
        * (* the window's own handler mutates *)
          rewrite Hex.
          exists (fst (until_claim (mP claims ty) K) ++ [(w, line, col)]), (if Z.testbit (claims w) ty then Some w else None).
          rewrite ML_one, <- mlog_MLOG. split; [reflexivity|].
          intros Hnc. apply ok_cont; [|apply ok_one; exact Hnc].
          rewrite <- (mclaim_none _ _ _ EK). apply ok_exact. exact Hnc.
        * cbn [exit_mode]. rewrite mclaim_app, EK. rewrite mlog_app_f by exact EK.
          rewrite mlog_one, mclaim_one. reflexivity.
  Qed.
End MouseClaim.

(* ==================================================================================== *)
(* One mouse phase, ARBITRARY claims outside the closed subtree, the mutation anywhere   *)

Theorem C14_mutation_mouse_claim fuel claims s w wn h cls act tgt n0 ty btn line col s' r :
  armed_start s h cls act tgt n0 -> i_log s = [] ->
  (forall x, In x (t_ids n0) -> Z.testbit (claims x) ty = false) ->
  look s w = Some wn -> (height wn < fuel)%nat ->
  handle_mouse fuel no_defects claims s w ty btn line col = (s', r) ->
  c14_rest_checkb (t_ids n0) (fst (mouse_phase claims (mouse_order wn line col) ty btn)) (rev (i_log s')) = true /\
  c14_rest_set_checkb (t_ids n0) (fst (mouse_phase claims (mouse_order wn line col) ty btn)) (rev (i_log s')) = true /\
  r = snd (mouse_phase claims (mouse_order wn line col) ty btn).
Proof.
  intros (Ha & Hfr & Hpe & Hfa & Hho & Hu & Hf & Hnr) HL Hnc Hl Hh Hrun.
  destruct s as [R0 fr H pe ar L fa]. cbn [i_armed i_freed i_pending i_fault i_root i_log i_holds] in *. subst fr pe fa ar L.
  change (mkI R0 [] H [] [(h, (cls, act, tgt))] [] false) with (St R0 h cls act tgt M0 H []) in Hrun, Hl.
  rewrite look_St in Hl. cbn [freedm mem existsb rootm] in Hl.
  apply f_find_sub in Hl. destruct Hl as (Hs & Hid). subst w.
  pose proof (mut_mouse_gen claims R0 h cls act tgt n0 ty btn Hu Hf Hnr fuel wn Hs Hh line col H []) as Hres.
  assert (Hnc' : noclaim_m claims n0 ty) by exact Hnc.
  destruct (uc_restm claims n0 ty Hnc' (mouse_order wn line col)) as [HA HB]. unfold Cl in HA, HB.
  rewrite mouse_phase_eq. cbn [fst snd].
  assert (Hchecks : forall D, restm (t_ids n0) D = restm (t_ids n0) (fst (until_claim (mP claims ty) (mouse_order wn line col))) ->
            c14_rest_checkb (t_ids n0) (map (mk_ev ty btn) (fst (until_claim (mP claims ty) (mouse_order wn line col)))) (map (mk_ev ty btn) D) = true /\
            c14_rest_set_checkb (t_ids n0) (map (mk_ev ty btn) (fst (until_claim (mP claims ty) (mouse_order wn line col)))) (map (mk_ev ty btn) D) = true).
  { intros D HD. split.
    - unfold c14_rest_checkb. rewrite !filter_map_mk_ev, HD. apply ievs_eqb_refl.
    - apply c14_set_of_perm. rewrite !filter_map_mk_ev, HD. apply Permutation_refl. }
  destruct (mfires claims h cls ty (mouse_order wn line col)) eqn:Ef.
  - destruct Hres as (D & r0 & He & Hn). rewrite Hrun in He. inversion He; subst s' r0. clear He.
    destruct (Hn Hnc') as [Hr Hd]. unfold Cl in Hr, Hd.
    assert (Hlog : rev (i_log (St R0 h cls act tgt (emode act tgt H) H (MLOG ty btn D []))) = map (mk_ev ty btn) D).
    { cbn [St i_log]. unfold MLOG. rewrite app_nil_r. apply rev_involutive. }
    rewrite Hlog.
    destruct (Hchecks D) as [C1 C2].
    { rewrite Hd. symmetry. exact HB. }
    split; [exact C1|]. split; [exact C2|]. rewrite Hr. symmetry. exact HA.
  - rewrite Hrun in Hres. inversion Hres; subst s' r. clear Hres.
    cbn [St i_log]. unfold mlog. rewrite app_nil_r, rev_involutive.
    destruct (Hchecks _ eq_refl) as [C1 C2].
    split; [exact C1|]. split; [exact C2|reflexivity].
Qed.

(* in the shape of C14_mutation_rest *)
Theorem C14_mutation_rest_claim claims s h cls act tgt n0 :
  armed_start s h cls act tgt n0 -> i_log s = [] ->
  forall ty, (forall x, In x (t_ids n0) -> Z.testbit (claims x) ty = false) ->
  forall fuel w wn btn line col s' r,
    look s w = Some wn -> (height wn < fuel)%nat ->
    handle_mouse fuel no_defects claims s w ty btn line col = (s', r) ->
    c14_rest_checkb (t_ids n0) (fst (mouse_phase claims (mouse_order wn line col) ty btn)) (rev (i_log s')) = true /\
    c14_rest_set_checkb (t_ids n0) (fst (mouse_phase claims (mouse_order wn line col) ty btn)) (rev (i_log s')) = true /\
    r = snd (mouse_phase claims (mouse_order wn line col) ty btn).
Proof.
  intros Hst HL ty Hnc fuel w wn btn line col s' r Hl Hh Hrun.
  exact (C14_mutation_mouse_claim fuel claims s w wn h cls act tgt n0 ty btn line col s' r Hst HL Hnc Hl Hh Hrun).
Qed.

(* T1, mouse order at (3, 3): 9 5 6 1 10 7 8 2 11 13 12 3 4 0.  The handler of 5 destroys
   window 2 (closed subtree 2 7 10 8); window 11 -- outside, after the mutation -- claims
   presses: the hypothesis holds, 9 5 6 1 11 are served and 11 claims.  If instead window 7
   -- inside the closed subtree -- claims, the hypothesis fails and so does the conclusion:
   7 is never asked and the routing goes on to 11 13 12 3 4 0. *)
Definition ex_claims_out : Z -> Z := fun x => if x =? 11 then 2 else 0.
Example C14_claim_examples :
  (forallb (fun x => negb (Z.testbit (ex_claims_out x) 1)) (closed_ids T1 2) = true /\
   mouse_fired ex_claims_out 5 1 1 T1 3 3 = true /\
   map iev_win (fst (mouse_phase ex_claims_out (mouse_order T1 3 3) 1 1)) = [9; 5; 6; 1; 10; 7; 8; 2; 11] /\
   let '(s', r) := handle_mouse ifuel no_defects ex_claims_out (mk_state T1 [(5, (1, 2, 2))]) 0 1 1 3 3 in
   map iev_win (rev (i_log s')) = [9; 5; 6; 1; 11] /\ r = Some 11 /\ i_freed s' = [2] /\
   c14_rest_checkb (closed_ids T1 2) (fst (mouse_phase ex_claims_out (mouse_order T1 3 3) 1 1)) (rev (i_log s')) = true) /\
  (let '(s', r) := handle_mouse ifuel no_defects ex_claims_m (mk_state T1 [(5, (1, 2, 2))]) 0 1 1 3 3 in
   map iev_win (rev (i_log s')) = [9; 5; 6; 1; 11; 13; 12; 3; 4; 0] /\ r = None /\
   c14_rest_checkb (closed_ids T1 2) (fst (mouse_phase ex_claims_m (mouse_order T1 3 3) 1 1)) (rev (i_log s')) = false).
Proof. vm_compute. repeat split; reflexivity. Qed.

Print Assumptions C14_mutation_rest_claim_mouse.
Print Assumptions C14_mutation_rest_claim_key.
Print Assumptions C14_mutation_mouse_claim.
Print Assumptions C14_mutation_rest_claim.
