(* WinBrackets.v -- why the model may ignore the save / savepen ... restore brackets an expose
   handler of the harness puts around its drawing.

   On the abstract render buffer of WinDefs.v a handler only DRAWS (rb_draw through run_prog:
   no clip, no translation, no mask).  What rb_draw leaves in a cell depends on rb_drawable
   (clip and mask), on the translation and on the cell's previous content; rb_save changes
   none of these: it pushes (xl, xc, clip) and increments the depth.  rb_restore pops the
   same three values, decrements the depth and clears the masks deeper than the new depth --
   there are none when every mask of the buffer was at most its depth to begin with
   (WinExposeProofs.mask_ok, a conjunct of WinExposeProofs.pre, the invariant of every buffer
   do_expose hands to a handler).  tickit_renderbuffer_savepen pushes the pen only; on this
   buffer (one pen) it is rb_save whose restore puts back the clip and translation that
   were never changed, so the same statements cover it.

   A render buffer has function fields (rb_cells, rb_mask), so "the same buffer" is stated
   as [rb_eq]: the seven frame fields equal, the cells and the masks equal at every position.

     brackets_neutral        restore (run_prog .. (save b))       ==  run_prog .. b
     bracket_each_neutral    every single draw in its own bracket ==  run_prog .. b
     brackets_nested_neutral any nesting of brackets              ==  run_prog (the draws) b *)
From Coq Require Import ZArith List Bool Lia ZifyBool.
From Tickit Require Import RectDefs WinRectSet WinDefs WinSpec WinExposeProofs.
Import ListNotations.
Local Open Scope Z_scope.

(* ------------------------------------------------------------------------------------ *)
(* the same buffer, extensionally                                                        *)

Definition rb_eq (b' b : rbuf) : Prop :=
  rb_lines b' = rb_lines b /\ rb_cols b' = rb_cols b /\ rb_clip b' = rb_clip b /\
  rb_xl b' = rb_xl b /\ rb_xc b' = rb_xc b /\ rb_depth b' = rb_depth b /\ rb_stack b' = rb_stack b /\
  (forall q, rb_cells b' q = rb_cells b q) /\
  (forall q, rb_mask b' q = rb_mask b q).

Ltac split9 := split; [|split; [|split; [|split; [|split; [|split; [|split; [|split]]]]]]].

Definition masks_le_depth (b : rbuf) : Prop := forall q k, rb_mask b q = Some k -> k <= rb_depth b.

Lemma masks_le_depth_mask_ok b : masks_le_depth b <-> mask_ok b.
Proof. unfold masks_le_depth, mask_ok. tauto. Qed.

Lemma pre_masks_le_depth b r : pre b r -> masks_le_depth b.
Proof. intros (H & _). exact H. Qed.

Lemma rb_eq_refl b : rb_eq b b.
Proof. unfold rb_eq. split9; reflexivity. Qed.

Lemma rb_eq_sym a b : rb_eq a b -> rb_eq b a.
Proof.
  unfold rb_eq. intros (H1 & H2 & H3 & H4 & H5 & H6 & H7 & H8 & H9).
  split; [congruence|]. split; [congruence|]. split; [congruence|]. split; [congruence|].
  split; [congruence|]. split; [congruence|]. split; [congruence|].
  split; intros q; symmetry; [apply H8|apply H9].
Qed.

Lemma rb_eq_trans a b c : rb_eq a b -> rb_eq b c -> rb_eq a c.
Proof.
  unfold rb_eq. intros (H1 & H2 & H3 & H4 & H5 & H6 & H7 & H8 & H9) (K1 & K2 & K3 & K4 & K5 & K6 & K7 & K8 & K9).
  split; [congruence|]. split; [congruence|]. split; [congruence|]. split; [congruence|].
  split; [congruence|]. split; [congruence|]. split; [congruence|].
  split; intros q; [rewrite H8; apply K8|rewrite H9; apply K9].
Qed.

Lemma rb_eq_same_frame a b : rb_eq a b -> same_frame b a.
Proof. unfold rb_eq, same_frame. tauto. Qed.

Lemma rb_eq_masks a b : rb_eq a b -> masks_le_depth b -> masks_le_depth a.
Proof.
  unfold rb_eq, masks_le_depth. intros (_ & _ & _ & _ & _ & Hd & _ & _ & Hm) H q k E.
  rewrite Hm in E. rewrite Hd. exact (H q k E).
Qed.

(* ------------------------------------------------------------------------------------ *)
(* [pushed b b']: b' is b inside one more bracket                                        *)

Definition pushed (b b' : rbuf) : Prop :=
  rb_lines b' = rb_lines b /\ rb_cols b' = rb_cols b /\ rb_clip b' = rb_clip b /\
  rb_xl b' = rb_xl b /\ rb_xc b' = rb_xc b /\ rb_depth b' = rb_depth b + 1 /\
  rb_stack b' = (rb_xl b, rb_xc b, rb_clip b) :: rb_stack b /\
  (forall q, rb_cells b' q = rb_cells b q) /\
  (forall q, rb_mask b' q = rb_mask b q).

Lemma pushed_save b : pushed b (rb_save b).
Proof. unfold pushed, rb_save. cbn. split9; reflexivity. Qed.

(* what a draw does to a cell is decided by clip, mask, translation and the old content *)
Lemma draw_cells_ext b b' wid f f' :
  rb_clip b' = rb_clip b -> rb_xl b' = rb_xl b -> rb_xc b' = rb_xc b ->
  (forall q, rb_cells b' q = rb_cells b q) -> (forall q, rb_mask b' q = rb_mask b q) ->
  (forall p, f' p = f p) ->
  forall q, rb_cells (rb_draw b' wid f') q = rb_cells (rb_draw b wid f) q.
Proof.
  intros Hc Hl Hx Hce Hm Hf q. unfold rb_draw, rb_drawable. cbn [rb_cells].
  rewrite Hc, Hl, Hx, Hm, Hce, Hf. reflexivity.
Qed.

Lemma pushed_draw b b' wid f f' :
  pushed b b' -> (forall p, f' p = f p) -> pushed (rb_draw b wid f) (rb_draw b' wid f').
Proof.
  intros (H1 & H2 & H3 & H4 & H5 & H6 & H7 & H8 & H9) Hf.
  unfold pushed. split; [exact H1|]. split; [exact H2|]. split; [exact H3|]. split; [exact H4|].
  split; [exact H5|]. split; [exact H6|]. split; [exact H7|]. split; [|exact H9].
  apply draw_cells_ext; assumption.
Qed.

Lemma rb_eq_draw b b' wid f f' :
  rb_eq b' b -> (forall p, f' p = f p) -> rb_eq (rb_draw b' wid f') (rb_draw b wid f).
Proof.
  intros (H1 & H2 & H3 & H4 & H5 & H6 & H7 & H8 & H9) Hf.
  unfold rb_eq. split; [exact H1|]. split; [exact H2|]. split; [exact H3|]. split; [exact H4|].
  split; [exact H5|]. split; [exact H6|]. split; [exact H7|]. split; [|exact H9].
  apply draw_cells_ext; assumption.
Qed.

Lemma masks_draw b wid f : masks_le_depth b -> masks_le_depth (rb_draw b wid f).
Proof. intros H q k E. exact (H q k E). Qed.

Lemma masks_save b : masks_le_depth b -> masks_le_depth (rb_save b).
Proof. intros H q k E. cbn [rb_save rb_mask rb_depth] in *. specialize (H q k E). lia. Qed.

(* the drawing program of a handler *)
Lemma dop_cells_dims app id handed nl nc nl' nc' o p :
  nl' = nl -> nc' = nc -> dop_cells app id handed nl' nc' o p = dop_cells app id handed nl nc o p.
Proof. intros -> ->. reflexivity. Qed.

Lemma pushed_run_prog app prog id handed : forall b b',
  pushed b b' -> pushed (run_prog app prog id handed b) (run_prog app prog id handed b').
Proof.
  unfold run_prog. induction prog as [|o r IH]; intros b b' H; [exact H|].
  cbn [fold_left]. apply IH. apply pushed_draw; [exact H|].
  intros p. apply dop_cells_dims; [exact (proj1 H)|exact (proj1 (proj2 H))].
Qed.

Lemma rb_eq_run_prog app prog id handed : forall b b',
  rb_eq b' b -> rb_eq (run_prog app prog id handed b') (run_prog app prog id handed b).
Proof.
  unfold run_prog. induction prog as [|o r IH]; intros b b' H; [exact H|].
  cbn [fold_left]. apply IH. apply rb_eq_draw; [exact H|].
  intros p. apply dop_cells_dims; [exact (proj1 H)|exact (proj1 (proj2 H))].
Qed.

Lemma masks_run_prog app prog id handed : forall b,
  masks_le_depth b -> masks_le_depth (run_prog app prog id handed b).
Proof.
  unfold run_prog. induction prog as [|o r IH]; intros b H; [exact H|].
  cbn [fold_left]. apply IH. apply masks_draw. exact H.
Qed.

(* closing the bracket *)
Lemma pushed_restore b b' : pushed b b' -> masks_le_depth b -> rb_eq (rb_restore b') b.
Proof.
  intros (H1 & H2 & H3 & H4 & H5 & H6 & H7 & H8 & H9) Hm.
  unfold rb_restore. rewrite H7. unfold rb_eq.
  cbn [rb_lines rb_cols rb_clip rb_xl rb_xc rb_depth rb_stack rb_cells rb_mask].
  split; [exact H1|]. split; [exact H2|]. split; [reflexivity|]. split; [reflexivity|].
  split; [reflexivity|]. split; [lia|]. split; [reflexivity|]. split; [exact H8|].
  intros q. rewrite H9. destruct (rb_mask b q) as [k|] eqn:E; [|reflexivity].
  specialize (Hm q k E). destruct (k >? rb_depth b' - 1) eqn:Ek; [lia|reflexivity].
Qed.

Lemma rb_eq_restore a b : rb_eq a b -> rb_eq (rb_restore a) (rb_restore b).
Proof.
  intros (H1 & H2 & H3 & H4 & H5 & H6 & H7 & H8 & H9). unfold rb_restore. rewrite H7.
  destruct (rb_stack b) as [|[[xl xc] cl] st] eqn:Es.
  - unfold rb_eq. split9; try assumption. congruence.
  - unfold rb_eq.
    cbn [rb_lines rb_cols rb_clip rb_xl rb_xc rb_depth rb_stack rb_cells rb_mask].
    split9; try assumption; try congruence.
    intros q. rewrite H9, H6. reflexivity.
Qed.

Lemma rb_eq_save a b : rb_eq a b -> rb_eq (rb_save a) (rb_save b).
Proof.
  intros (H1 & H2 & H3 & H4 & H5 & H6 & H7 & H8 & H9). unfold rb_eq, rb_save.
  cbn [rb_lines rb_cols rb_clip rb_xl rb_xc rb_depth rb_stack rb_cells rb_mask].
  split9; try assumption; congruence.
Qed.

(* ------------------------------------------------------------------------------------ *)
(* one bracket around the whole handler                                                  *)

Theorem brackets_neutral : forall app prog id handed b,
  masks_le_depth b ->
  rb_eq (rb_restore (run_prog app prog id handed (rb_save b))) (run_prog app prog id handed b).
Proof.
  intros app prog id handed b Hm. apply pushed_restore.
  - apply pushed_run_prog, pushed_save.
  - apply masks_run_prog. exact Hm.
Qed.

(* the statement spelled out, without the auxiliary definitions *)
Corollary brackets_neutral_fields : forall app prog id handed b,
  (forall q k, rb_mask b q = Some k -> k <= rb_depth b) ->
  let b1 := rb_restore (run_prog app prog id handed (rb_save b)) in
  let b2 := run_prog app prog id handed b in
  rb_lines b1 = rb_lines b2 /\ rb_cols b1 = rb_cols b2 /\ rb_clip b1 = rb_clip b2 /\
  rb_xl b1 = rb_xl b2 /\ rb_xc b1 = rb_xc b2 /\ rb_depth b1 = rb_depth b2 /\ rb_stack b1 = rb_stack b2 /\
  (forall q, rb_cells b1 q = rb_cells b2 q) /\
  (forall q, rb_mask b1 q = rb_mask b2 q).
Proof. intros app prog id handed b Hm. exact (brackets_neutral app prog id handed b Hm). Qed.

(* the buffers do_expose hands to handlers satisfy the hypothesis *)
Corollary brackets_neutral_pre : forall app prog id handed b r,
  pre b r ->
  rb_eq (rb_restore (run_prog app prog id handed (rb_save b))) (run_prog app prog id handed b).
Proof. intros app prog id handed b r H. apply brackets_neutral. exact (pre_masks_le_depth b r H). Qed.

(* ------------------------------------------------------------------------------------ *)
(* a bracket around every single drawing call (savepen ... restore around each call)     *)

Definition run_prog_each (app : Z -> Z -> Z -> Z) (prog : list dop) (id : Z) (handed : rect) (b : rbuf) : rbuf :=
  fold_left (fun b o =>
               rb_restore (rb_draw (rb_save b) id
                             (dop_cells app id handed (rb_lines (rb_save b)) (rb_cols (rb_save b)) o)))
            prog b.

Lemma bracket_draw_neutral b wid f : masks_le_depth b ->
  rb_eq (rb_restore (rb_draw (rb_save b) wid f)) (rb_draw b wid f).
Proof.
  intros Hm. apply pushed_restore; [|apply masks_draw; exact Hm].
  apply pushed_draw; [apply pushed_save|reflexivity].
Qed.

Lemma bracket_each_gen app prog id handed : forall b' b,
  rb_eq b' b -> masks_le_depth b ->
  rb_eq (run_prog_each app prog id handed b') (run_prog app prog id handed b).
Proof.
  unfold run_prog_each, run_prog. induction prog as [|o r IH]; intros b' b He Hm; [exact He|].
  cbn [fold_left]. apply IH; [|apply masks_draw; exact Hm].
  eapply rb_eq_trans; [apply bracket_draw_neutral; exact (rb_eq_masks _ _ He Hm)|].
  apply rb_eq_draw; [exact He|].
  intros p. apply dop_cells_dims; [exact (proj1 He)|exact (proj1 (proj2 He))].
Qed.

Theorem bracket_each_neutral : forall app prog id handed b,
  masks_le_depth b ->
  rb_eq (run_prog_each app prog id handed b) (run_prog app prog id handed b).
Proof. intros app prog id handed b Hm. apply bracket_each_gen; [apply rb_eq_refl|exact Hm]. Qed.

(* ------------------------------------------------------------------------------------ *)
(* any nesting of brackets                                                               *)

Inductive bop :=
| BDraw (o : dop)                 (* one drawing call *)
| BBracket (l : list bop).        (* save / savepen; l; restore *)

Fixpoint run_bop (app : Z -> Z -> Z -> Z) (id : Z) (handed : rect) (o : bop) (b : rbuf) : rbuf :=
  match o with
  | BDraw d => rb_draw b id (dop_cells app id handed (rb_lines b) (rb_cols b) d)
  | BBracket l =>
    rb_restore ((fix go (l : list bop) (b : rbuf) : rbuf :=
                   match l with
                   | [] => b
                   | o :: r => go r (run_bop app id handed o b)
                   end) l (rb_save b))
  end.

Definition run_bops (app : Z -> Z -> Z -> Z) (id : Z) (handed : rect) (l : list bop) (b : rbuf) : rbuf :=
  fold_left (fun b o => run_bop app id handed o b) l b.

Fixpoint bop_draws (o : bop) : list dop :=
  match o with
  | BDraw d => [d]
  | BBracket l => flat_map bop_draws l
  end.

Lemma run_bop_bracket app id handed l b :
  run_bop app id handed (BBracket l) b = rb_restore (run_bops app id handed l (rb_save b)).
Proof.
  unfold run_bops. cbn [run_bop]. generalize (rb_save b) as b0. clear b.
  induction l as [|o r IH]; intros b0; [reflexivity|]. exact (IH (run_bop app id handed o b0)).
Qed.

Section bop_induction.
  Variable P : bop -> Prop.
  Hypothesis Hdraw : forall d, P (BDraw d).
  Hypothesis Hbr : forall l, Forall P l -> P (BBracket l).
  Fixpoint bop_ind2 (o : bop) : P o :=
    match o with
    | BDraw d => Hdraw d
    | BBracket l =>
      Hbr l ((fix go (l : list bop) : Forall P l :=
                match l with
                | [] => Forall_nil P
                | o :: r => Forall_cons o (bop_ind2 o) (go r)
                end) l)
    end.
End bop_induction.

Lemma run_prog_app app p1 p2 id handed b :
  run_prog app (p1 ++ p2) id handed b = run_prog app p2 id handed (run_prog app p1 id handed b).
Proof. unfold run_prog. apply fold_left_app. Qed.

Definition bop_neutral app id handed (o : bop) : Prop :=
  forall b' b, rb_eq b' b -> masks_le_depth b ->
  rb_eq (run_bop app id handed o b') (run_prog app (bop_draws o) id handed b).

Lemma run_bops_neutral app id handed l :
  Forall (bop_neutral app id handed) l ->
  forall b' b, rb_eq b' b -> masks_le_depth b ->
  rb_eq (run_bops app id handed l b') (run_prog app (flat_map bop_draws l) id handed b).
Proof.
  unfold run_bops. induction 1 as [|o r Ho _ IH]; intros b' b He Hm; [exact He|].
  cbn [fold_left flat_map]. rewrite run_prog_app. apply IH.
  - apply Ho; assumption.
  - apply masks_run_prog. exact Hm.
Qed.

Lemma run_bop_neutral app id handed : forall o, bop_neutral app id handed o.
Proof.
  apply bop_ind2.
  - intros d b' b He Hm. cbn [run_bop bop_draws]. unfold run_prog. cbn [fold_left].
    apply rb_eq_draw; [exact He|].
    intros p. apply dop_cells_dims; [exact (proj1 He)|exact (proj1 (proj2 He))].
  - intros l Hl b' b He Hm. rewrite run_bop_bracket. cbn [bop_draws].
    eapply rb_eq_trans; [|apply brackets_neutral; exact Hm].
    apply rb_eq_restore. apply (run_bops_neutral app id handed l Hl).
    + apply rb_eq_save. exact He.
    + apply masks_save. exact Hm.
Qed.

Theorem brackets_nested_neutral : forall app id handed l b,
  masks_le_depth b ->
  rb_eq (run_bops app id handed l b) (run_prog app (flat_map bop_draws l) id handed b).
Proof.
  intros app id handed l b Hm. apply run_bops_neutral; [|apply rb_eq_refl|exact Hm].
  apply Forall_forall. intros o _. apply run_bop_neutral.
Qed.

(* consequences used by the refinement argument: the bracketed handler leaves the same
   content in every cell and the same frame for the rest of the expose *)
Corollary brackets_same_cells : forall app id handed l b q,
  masks_le_depth b ->
  rb_cells (run_bops app id handed l b) q = rb_cells (run_prog app (flat_map bop_draws l) id handed b) q.
Proof.
  intros app id handed l b q Hm.
  destruct (brackets_nested_neutral app id handed l b Hm) as (_ & _ & _ & _ & _ & _ & _ & H & _). apply H.
Qed.
