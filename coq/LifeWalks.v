(* LifeWalks.v -- the loops that only read the window tree (or only write the root's flags):
   under the invariant they touch live cells only. *)
From Coq Require Import ZArith List Bool PArith FMapPositive Lia.
From Tickit Require Import LifeDefs LifeLemmas LifeChains LifeInv LifePure.
Import ListNotations.
Local Open Scope Z_scope.

Lemma live_some : forall h a, findw h a <> None -> exists c, findw h a = Some c.
Proof. intros h a H. destruct (findw h a); [eauto | congruence]. Qed.

Lemma getw_run : forall h a c, findw h a = Some c -> getw a h = Ok c h.
Proof. intros h a c H. unfold getw. unfold findw in H. rewrite H. reflexivity. Qed.

(* while(top->parent) top = top->parent *)
Lemma top_walk_spec : forall D fuel a,
  hoare_ro (fun h => hinv D h /\ findw h a <> None) (top_walk fuel a)
           (fun h t => exists ct, findw h t = Some ct /\ w_parent ct = None /\ anc h a t).
Proof.
  induction fuel as [|f IH]; intros a h [HI Hl]; cbn; [exact I|].
  destruct (live_some h a Hl) as [c Hf]. unfold bind. rewrite (getw_run h a c Hf).
  destruct (w_parent c) as [p|] eqn:Hp.
  - destruct (hinv_parent_live D h a c p HI Hf Hp) as [cp Hcp].
    assert (Hlp : findw h p <> None) by congruence.
    specialize (IH p h (conj HI Hlp)). destruct (top_walk f p h); auto.
    destruct IH as [E [ct [H1 [H2 H3]]]]. split; auto. exists ct. repeat split; auto.
    eapply anc_step; eauto.
  - cbn. split; auto. exists c. repeat split; auto. eapply anc_refl; eauto.
Qed.

Lemma root_parent_walk_spec : forall D fuel a,
  hoare_ro (fun h => hinv D h /\ findw h a <> None) (root_parent_walk fuel a)
           (fun h t => exists ct, findw h t = Some ct /\ w_parent ct = None /\ anc h a t).
Proof.
  induction fuel as [|f IH]; intros a h [HI Hl]; cbn; [exact I|].
  destruct (live_some h a Hl) as [c Hf]. unfold bind. rewrite (getw_run h a c Hf).
  destruct (w_parent c) as [p|] eqn:Hp.
  - destruct (hinv_parent_live D h a c p HI Hf Hp) as [cp Hcp].
    assert (Hlp : findw h p <> None) by congruence.
    specialize (IH p h (conj HI Hlp)). destruct (root_parent_walk f p h); auto.
    destruct IH as [E [ct [H1 [H2 H3]]]]. split; auto. exists ct. repeat split; auto.
    eapply anc_step; eauto.
  - cbn. split; auto. exists c. repeat split; auto. eapply anc_refl; eauto.
Qed.

(* _get_root does not abort on a window that is attached to the root *)
Lemma get_root_spec : forall D fuel a,
  hoare_ro (fun h => hinv D h /\ anc h a root) (get_root fuel a) (fun h r => r = root).
Proof.
  induction fuel as [|f IH]; intros a h [HI Ha]; cbn; [exact I|].
  pose proof (anc_live_l h a root Ha) as Hl. destruct (live_some h a Hl) as [c Hf].
  unfold bind. rewrite (getw_run h a c Hf).
  rewrite (hi_isroot D h HI a c Hf).
  destruct (Pos.eqb a root) eqn:E.
  - apply Pos.eqb_eq in E. subst. cbn. auto.
  - apply Pos.eqb_neq in E. inversion Ha as [a' c' Hf' | a' c' p b Hf' Hp Hap]; subst; [congruence|].
    rewrite Hf in Hf'. inversion Hf'; subst c'. rewrite Hp.
    specialize (IH p h (conj HI Hap)). destruct (get_root f p h); auto.
Qed.

(* _is_within decides the ancestor relation *)
Lemma is_within_spec : forall D fuel w x,
  hoare_ro (fun h => hinv D h /\ (forall a, w = Some a -> findw h a <> None)) (is_within fuel w x)
           (fun h b => match w with None => b = false | Some a => (b = true <-> anc h a x) end).
Proof.
  induction fuel as [|f IH]; intros w x h [HI Hl]; cbn; [exact I|].
  destruct w as [a|]; [|cbn; auto].
  destruct (live_some h a (Hl a eq_refl)) as [c Hf].
  destruct (Pos.eqb a x) eqn:E.
  - apply Pos.eqb_eq in E. subst. cbn. split; auto. split; auto. intros _. eapply anc_refl; eauto.
  - apply Pos.eqb_neq in E. unfold bind. rewrite (getw_run h a c Hf).
    assert (Hlp : forall p, w_parent c = Some p -> findw h p <> None).
    { intros p Hp. destruct (hinv_parent_live D h a c p HI Hf Hp) as [cp Hcp]. congruence. }
    specialize (IH (w_parent c) x h (conj HI Hlp)). destruct (is_within f (w_parent c) x h) as [b h'| |]; auto.
    destruct IH as [Eh Hb]. split; auto. destruct (w_parent c) as [p|] eqn:Hp.
    + rewrite Hb. split; intro Ha.
      * eapply anc_step; eauto.
      * inversion Ha as [a' c' Hf' | a' c' p' b' Hf' Hp' Hap]; subst; [congruence|].
        rewrite Hf in Hf'. inversion Hf'; subst c'. congruence.
    + subst b. split; [discriminate|]. intro Ha.
      inversion Ha as [a' c' Hf' | a' c' p' b' Hf' Hp' Hap]; subst; [congruence|].
      rewrite Hf in Hf'. inversion Hf'; subst c'. congruence.
Qed.

Lemma abs_geometry_up_spec : forall D fuel w,
  hoare_ro (fun h => hinv D h /\ (forall a, w = Some a -> findw h a <> None)) (abs_geometry_up fuel w) (fun _ _ => True).
Proof.
  induction fuel as [|f IH]; intros w h [HI Hl]; cbn; [exact I|].
  destruct w as [a|]; [|cbn; auto].
  destruct (live_some h a (Hl a eq_refl)) as [c Hf]. unfold bind. rewrite (getw_run h a c Hf).
  apply IH. split; auto. intros p Hp. destruct (hinv_parent_live D h a c p HI Hf Hp) as [cp Hcp]. congruence.
Qed.

Lemma abs_geometry_spec : forall D fuel a,
  hoare_ro (fun h => hinv D h /\ findw h a <> None) (abs_geometry fuel a) (fun _ _ => True).
Proof.
  intros D fuel a h [HI Hl]. unfold abs_geometry, bind.
  destruct (live_some h a Hl) as [c Hf]. rewrite (getw_run h a c Hf).
  apply (abs_geometry_up_spec D fuel (w_parent c) h). split; auto.
  intros p Hp. destruct (hinv_parent_live D h a c p HI Hf Hp) as [cp Hcp]. congruence.
Qed.

(* ---- commands that only write the root's flags ----------------------------------------------- *)
Definition rx_only (h h' : heap) : Prop :=
  wins h' = wins h /\ reqs h' = reqs h /\ r_queue (rx h') = r_queue (rx h) /\ r_drag (rx h') = r_drag (rx h) /\
  nextw h' = nextw h /\ nextq h' = nextq h.

Lemma rx_only_refl : forall h, rx_only h h.
Proof. intro h. repeat split. Qed.
Lemma rx_only_trans : forall h1 h2 h3, rx_only h1 h2 -> rx_only h2 h3 -> rx_only h1 h3.
Proof. unfold rx_only. intros h1 h2 h3 H1 H2. intuition congruence. Qed.
Lemma rx_only_with_rx : forall h r, r_queue r = r_queue (rx h) -> r_drag r = r_drag (rx h) -> rx_only h (with_rx h r).
Proof. intros. repeat split; auto. Qed.
Lemma rx_only_findw : forall h h' a, rx_only h h' -> findw h' a = findw h a.
Proof. intros h h' a [Hw _]. unfold findw. rewrite Hw. reflexivity. Qed.

Lemma rx_only_links_eq : forall h h', rx_only h h' -> links_eq h h'.
Proof.
  intros h h' [Hw [Hq [H1 [H2 [H3 H4]]]]]. constructor; auto.
  - intro a. unfold findw. rewrite Hw. destruct (PM.find a (wins h)); auto. apply same_links_refl.
  - intro q. unfold findq. rewrite Hq. reflexivity.
Qed.

Lemma hinv_rx_only : forall D h h', hinv D h -> rx_only h h' -> hinv D h'.
Proof.
  intros D h h' HI R. eapply hinv_links_eq; eauto using rx_only_links_eq.
  intros a c' Hf Hn. rewrite (rx_only_findw h h' a R) in Hf. eapply hi_ref; eauto.
Qed.

Lemma request_later_spec : forall D r h0,
  hoare (fun h => h = h0 /\ hinv D h0 /\ exists c, findw h0 r = Some c /\ w_isroot c = true)
        (request_later r) (fun _ h' => rx_only h0 h').
Proof.
  intros D r h0. unfold request_later. apply updr_spec. intros h [E [HI [c [Hf Hr]]]]. subst h.
  exists c. repeat split; auto.
Qed.

Lemma request_restore_spec : forall D r h0,
  hoare (fun h => h = h0 /\ hinv D h0 /\ exists c, findw h0 r = Some c /\ w_isroot c = true)
        (request_restore r) (fun _ h' => rx_only h0 h').
Proof.
  intros D r h0. unfold request_restore. eapply hoare_bind.
  - apply updr_spec with (Q := fun _ h' => rx_only h0 h' /\ hinv D h0 /\ exists c, findw h0 r = Some c /\ w_isroot c = true).
    intros h [E [HI [c [Hf Hr]]]]. subst h. exists c. split; [auto|]. split; [auto|].
    split; [apply rx_only_with_rx; reflexivity|]. split; [auto|]. exists c. auto.
  - intros u. unfold request_later. apply updr_spec. intros h [R [HI [c [Hf Hr]]]].
    exists c. rewrite (rx_only_findw h0 h r R). repeat split; auto; cbn; destruct R as [R1 [R2 [R3 [R4 [R5 R6]]]]]; congruence.
Qed.

(* _scroll / _scrollrectset: the children, then the walk towards the root, past the elder siblings at every level *)
Lemma any_visible_spec : forall fuel h k l, chain h k l ->
  match any_visible fuel k h with Ok _ h' => h' = h | Fault _ _ => False | NoFuel => True end.
Proof.
  induction fuel as [|f IH]; intros h k l Hc; [exact I|]. cbn [any_visible]. destruct Hc as [|s c l Hf Hc]; [reflexivity|].
  unfold bind at 1. rewrite (getw_run h s c Hf). unfold bind at 1. specialize (IH h _ l Hc).
  destruct (any_visible f (w_next c) h) as [r h'| |]; [|contradiction|exact I]. subst h'. reflexivity.
Qed.
Lemma sib_walk_spec : forall fuel h k l a, chain h k l ->
  match sib_walk fuel k a h with Ok _ h' => h' = h | Fault _ _ => False | NoFuel => True end.
Proof.
  induction fuel as [|f IH]; intros h k l a Hc; [exact I|]. cbn [sib_walk]. destruct Hc as [|s c l Hf Hc]; [reflexivity|].
  destruct (Pos.eqb s a); [reflexivity|]. unfold bind at 1. rewrite (getw_run h s c Hf). unfold bind at 1.
  specialize (IH h _ l a Hc). destruct (sib_walk f (w_next c) a h) as [r h'| |]; [|contradiction|exact I]. subst h'. reflexivity.
Qed.
Lemma scroll_up_spec : forall D fuel a cov h, hinv D h -> anc h a root ->
  match scroll_up fuel a cov h with
  | Ok r h' => h' = h /\ forall top b, r = Some (top, b) -> top = root
  | Fault _ _ => False
  | NoFuel => True
  end.
Proof.
  induction fuel as [|f IH]; intros a cov h HI Ha; [exact I|]. cbn [scroll_up].
  destruct (live_some h a (anc_live_l h a root Ha)) as [c Hc]. unfold bind at 1. rewrite (getw_run h a c Hc).
  destruct (negb (w_visible c)); [cbn; split; [reflexivity|discriminate]|]. destruct (w_parent c) as [p|] eqn:Hp.
  - destruct (hinv_parent_live D h a c p HI Hc Hp) as [cp Hcp]. unfold bind at 1. rewrite (getw_run h p cp Hcp).
    destruct (hi_kids D h HI p cp Hcp) as (l & Hch & _). unfold bind at 1.
    pose proof (sib_walk_spec f h _ l a Hch) as Hs. destruct (sib_walk f (w_first cp) a h) as [u h'| |]; [|contradiction|exact I].
    subst h'. apply IH; [exact HI|]. inversion Ha as [a' c' Hf' | a' c' p0 b Hf' Hp' Hap]; subst.
    + rewrite Hc in Hf'. inversion Hf'; subst c'. rewrite (hi_root_parent D h HI c Hc) in Hp. discriminate.
    + rewrite Hc in Hf'. inversion Hf'; subst c'. rewrite Hp in Hp'. inversion Hp'; subst p0. exact Hap.
  - assert (Ea : root = a).
    { inversion Ha as [a' c' Hf' | a' c' p0 b Hf' Hp' Hap]; subst; [reflexivity|].
      rewrite Hc in Hf'. inversion Hf'; subst c'. congruence. }
    subst a.
    assert (Hir : w_isroot c = true) by (rewrite (hi_isroot D h HI root c Hc); apply Pos.eqb_refl).
    unfold bind. unfold getr. unfold bind. rewrite (getw_run h root c Hc). rewrite Hir. cbn.
    split; [reflexivity|]. intros top b E. inversion E. reflexivity.
Qed.

(* _focus_chain_changed: the walk towards the root, then the restore request *)
Lemma focus_chain_changed_spec : forall D fuel w h0,
  hoare (fun h => h = h0 /\ hinv D h0 /\ (forall a, w = Some a -> findw h0 a <> None))
        (focus_chain_changed fuel w) (fun _ h' => rx_only h0 h').
Proof.
  induction fuel as [|f IH]; intros w h0; cbn; [apply hoare_nofuel|].
  intros h [E [HI Hl]]. subst h. destruct w as [a|]; [|cbn; apply rx_only_refl].
  destruct (live_some h0 a (Hl a eq_refl)) as [c Hf].
  unfold bind at 1. rewrite (getw_run h0 a c Hf).
  destruct (w_isroot c) eqn:Hr.
  - apply (request_restore_spec D a h0 h0). split; [reflexivity|]. split; [exact HI|]. exists c. auto.
  - apply (IH (w_parent c) h0 h0). split; [reflexivity|]. split; [exact HI|].
    intros p Hp. destruct (hinv_parent_live D h0 a c p HI Hf Hp) as [cp Hcp]. congruence.
Qed.

(* tickit_window_expose: the walk towards the root *)
Lemma expose_root_spec : forall a c h0, findw h0 a = Some c -> w_isroot c = true ->
  hoare (fun h => h = h0)
        (r <- getr a ;; if r_expose r then ret tt else setr a (set_rexpose r true) ;;; request_later a)
        (fun _ h' => rx_only h0 h').
Proof.
  intros a c h0 Hf Hr. eapply hoare_bind.
  - apply getr_spec with (Q := fun r h => h = h0 /\ r = rx h0). intros h E. subst. exists c. auto.
  - intro r. apply hoare_if; intro Hb.
    + apply hoare_ret. intros h [E _]. subst. apply rx_only_refl.
    + eapply hoare_bind.
      * apply setr_spec with (Q := fun _ h => rx_only h0 h). intros h [E Er]. subst. exists c.
        split; auto. split; auto. apply rx_only_with_rx; reflexivity.
      * intro u. unfold request_later. apply updr_spec. intros h R. exists c.
        rewrite (rx_only_findw h0 h a R). split; [auto|]. split; [auto|].
        eapply rx_only_trans; eauto. apply rx_only_with_rx; reflexivity.
Qed.

Lemma expose_spec : forall D fuel a h0,
  hoare (fun h => h = h0 /\ hinv D h0 /\ findw h0 a <> None) (expose fuel a) (fun _ h' => rx_only h0 h').
Proof.
  induction fuel as [|f IH]; intros a h0; cbn; [apply hoare_nofuel|].
  intros h [E [HI Hl]]. subst h. destruct (live_some h0 a Hl) as [c Hf].
  unfold bind at 1. rewrite (getw_run h0 a c Hf).
  destruct (w_visible c); cbn; [|apply rx_only_refl].
  destruct (w_isroot c) eqn:Hr; cbn.
  - apply (expose_root_spec a c h0 Hf Hr h0 eq_refl).
  - destruct (w_parent c) as [p|] eqn:Hp; cbn; [|apply rx_only_refl].
    apply (IH p h0 h0). split; [reflexivity|]. split; [exact HI|].
    destruct (hinv_parent_live D h0 a c p HI Hf Hp) as [cp Hcp]. congruence.
Qed.

(* tickit_window_scrollrect: the walks, then the damage and the restore request at the root *)
Lemma scrollrect_spec : forall D fuel w h0,
  hoare (fun h => h = h0 /\ hinv D h0 /\ anc h0 w root) (scrollrect fuel w) (fun _ h' => rx_only h0 h').
Proof.
  intros D fuel w h0 h [E [HI Ha]]. subst h. unfold scrollrect.
  destruct (live_some h0 w (anc_live_l h0 w root Ha)) as [c Hc]. unfold bind at 1. rewrite (getw_run h0 w c Hc).
  destruct (hi_kids D h0 HI w c Hc) as (l & Hch & _). unfold bind at 1.
  pose proof (any_visible_spec fuel h0 _ l Hch) as Hv.
  destruct (any_visible fuel (w_first c) h0) as [cov h1| |]; [|contradiction|exact I]. subst h1.
  unfold bind at 1. pose proof (scroll_up_spec D fuel w cov h0 HI Ha) as Hs.
  destruct (scroll_up fuel w cov h0) as [r h1| |]; [|contradiction|exact I]. destruct Hs as [-> Htop].
  destruct r as [[top b]|]; [|cbn; apply rx_only_refl]. destruct b; [cbn; apply rx_only_refl|].
  rewrite (Htop top false eq_refl).
  unfold bind. pose proof (expose_spec D fuel w h0 h0 (conj eq_refl (conj HI (anc_live_l h0 w root Ha)))) as He.
  destruct (expose fuel w h0) as [u h1| |]; [|contradiction|exact I].
  pose proof (hinv_rx_only D h0 h1 HI He) as HI1.
  assert (Hl0 : findw h0 root <> None) by (eapply anc_live_r; eauto).
  destruct (live_some h0 root Hl0) as [cr Hcr].
  assert (Hir : w_isroot cr = true) by (rewrite (hi_isroot D h0 HI root cr Hcr); apply Pos.eqb_refl).
  assert (Hcr1 : findw h1 root = Some cr) by (rewrite (rx_only_findw h0 h1 root He); exact Hcr).
  pose proof (request_restore_spec D root h1 h1 (conj eq_refl (conj HI1 (ex_intro _ cr (conj Hcr1 Hir))))) as Hr.
  destruct (request_restore root h1) as [u2 h2| |]; [|contradiction|exact I].
  eapply rx_only_trans; eauto.
Qed.
