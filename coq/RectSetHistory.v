(* RectSetHistory.v -- C05, part 5: translate, clear, single steps, and the theorem over
   arbitrary histories: after any finite list of add/subtract/translate/clear with
   non-empty rectangles the array satisfies the invariant and covers exactly the
   reference region; the queries are exact on it.  Also: the boolean reference region of
   the oracle agrees with the Prop one, and the witness that the pinned code
   (stale = true) violates the property. *)
From Coq Require Import ZArith List Bool Lia ZifyBool.
From Tickit Require Import RectDefs RectProofs RectSetDefs RectSetSpec RectSetProofs
  RectSetQueries RectSetSubtract.
Import ListNotations.
Local Open Scope Z_scope.

Lemma inv_demands s : Inv s -> Forall nonempty s /\ pairwise_disjoint s /\ sorted s.
Proof.
  intros [Hne [Hsep Hso]]. split; [exact Hne|]. split; [apply pairwise_sep_disjoint; exact Hsep|exact Hso].
Qed.

(* ------------------------------------------------------------------ *)
(* translate, clear                                                    *)

Lemma pairwise_map {A} (P : A -> A -> Prop) (f : A -> A) s :
  (forall a b, P a b -> P (f a) (f b)) -> pairwise P s -> pairwise P (map f s).
Proof.
  intros Hf. induction s as [|a s IH]; cbn [map pairwise]; [auto|].
  intros [H1 H2]. split; [|auto].
  rewrite Forall_forall in *. intros y Hy. apply in_map_iff in Hy. destruct Hy as [z [<- Hz]]. auto.
Qed.

Theorem rs_translate_ok s d rw :
  Inv s -> Inv (rs_translate s d rw) /\
           forall p, covered (rs_translate s d rw) p <-> covered s (fst p - d, snd p - rw).
Proof.
  unfold rs_translate. intros [Hne [Hsep Hso]]. split.
  - split; [|split].
    + rewrite Forall_forall in *. intros y Hy. apply in_map_iff in Hy. destruct Hy as [z [<- Hz]].
      specialize (Hne z Hz). unfold nonempty, r_translate in *; cbn [lines cols]. exact Hne.
    + apply pairwise_map; [|exact Hsep]. intros a b.
      unfold sepx, sep, novm, r_translate, bottom, right; cbn [top left lines cols]. lia.
    + apply pairwise_map; [|exact Hso]. intros a b.
      unfold key_le, r_translate; cbn [top left]. lia.
  - intros p. unfold covered. split.
    + intros [y [Hy Hc]]. apply in_map_iff in Hy. destruct Hy as [z [<- Hz]]. exists z. split; [exact Hz|].
      destruct p as [py px]. unfold cell_in, r_translate, bottom, right in *; cbn [top left lines cols fst snd] in *. lia.
    + intros [z [Hz Hc]]. exists (r_translate z d rw). split; [exact (in_map (fun r => r_translate r d rw) s z Hz)|].
      destruct p as [py px]. unfold cell_in, r_translate, bottom, right in *; cbn [top left lines cols fst snd] in *. lia.
Qed.

Theorem rs_clear_ok s : Inv (rs_clear s) /\ forall p, ~ covered (rs_clear s) p.
Proof. unfold rs_clear. split; [apply Inv_nil|]. intros p. rewrite covered_nil. tauto. Qed.

(* ------------------------------------------------------------------ *)
(* one operation, any history                                          *)

Definition op_ok (o : op) : Prop :=
  match o with
  | OAdd r => nonempty r
  | OSub r => nonempty r
  | OTranslate _ _ => True
  | OClear => True
  end.

Theorem rs_step_ok fuel s o s' (R : region) :
  Inv s -> (forall p, covered s p <-> R p) -> op_ok o ->
  rs_step fuel false s o = Some s' ->
  Inv s' /\ forall p, covered s' p <-> region_step R o p.
Proof.
  intros Hinv HR Hok. destruct o as [r|r|d rw|]; cbn [rs_step region_step op_ok] in *.
  - intros H. destruct (rs_add_ok fuel s r s' Hinv Hok H) as [Hi Hc]. split; [exact Hi|].
    intros p. rewrite Hc, HR. tauto.
  - intros H. destruct (rs_subtract_ok fuel s r s' Hinv Hok H) as [Hi Hc]. split; [exact Hi|].
    intros p. rewrite Hc, HR. tauto.
  - intros [= <-]. destruct (rs_translate_ok s d rw Hinv) as [Hi Hc]. split; [exact Hi|].
    intros p. rewrite Hc, HR. tauto.
  - intros [= <-]. destruct (rs_clear_ok s) as [Hi Hc]. split; [exact Hi|].
    intros p. split; [intros H; exact (Hc p H)|tauto].
Qed.

Theorem rs_run_ok fuel : forall ops s s' (R : region),
  Inv s -> (forall p, covered s p <-> R p) -> Forall op_ok ops ->
  rs_run fuel false s ops = Some s' ->
  Inv s' /\ forall p, covered s' p <-> region_from R ops p.
Proof.
  induction ops as [|o ops IH]; intros s s' R Hinv HR Hok; cbn [rs_run region_from fold_left].
  - intros [= <-]. split; assumption.
  - apply Forall_cons_iff in Hok. destruct Hok as [Ho Hops].
    destruct (rs_step fuel false s o) as [s1|] eqn:E; [|discriminate].
    intros Hrun. destruct (rs_step_ok fuel s o s1 R Hinv HR Ho E) as [Hi1 Hc1].
    exact (IH s1 s' (region_step R o) Hi1 Hc1 Hops Hrun).
Qed.

(* the property, for every history starting from the empty set *)
Theorem history_ok fuel ops s :
  Forall op_ok ops -> rs_run fuel false [] ops = Some s ->
  Forall nonempty s /\ pairwise_disjoint s /\ sorted s /\
  (forall p, covered s p <-> region_spec ops p) /\
  (forall q, nonempty q ->
     (rs_intersects s q = true <-> exists p, cell_in q p /\ region_spec ops p) /\
     (forall qfuel ans, rs_contains qfuel s q = Some ans ->
        (ans = true <-> forall p, cell_in q p -> region_spec ops p)) /\
     (forall qfuel, (Z.to_nat (lines q) < qfuel)%nat -> rs_contains qfuel s q <> None)).
Proof.
  intros Hok Hrun.
  destruct (rs_run_ok fuel ops [] s (fun _ => False) Inv_nil) as [Hinv Hcov]; auto.
  { intros p. rewrite covered_nil. tauto. }
  fold (region_spec ops) in Hcov.
  assert (Hinv' := Hinv). destruct Hinv' as [Hne [Hsep Hso]].
  split; [exact Hne|]. split; [apply pairwise_sep_disjoint; exact Hsep|]. split; [exact Hso|].
  split; [exact Hcov|].
  intros q Hq. split; [|split].
  - rewrite (rs_intersects_ok s q Hne Hq). split; intros [p [H1 H2]]; exists p; (split; [exact H1|]); apply Hcov; exact H2.
  - intros qfuel ans Hc. rewrite (rs_contains_ok s Hinv qfuel q ans Hq Hc).
    split; intros H p Hp; apply Hcov, H, Hp.
  - intros qfuel Hf. apply rs_contains_terminates; assumption.
Qed.

(* ------------------------------------------------------------------ *)
(* the oracle's boolean region is the reference region                 *)

Lemma regionb_step_iff (Rb : cell -> bool) (R : region) o :
  (forall p, Rb p = true <-> R p) -> forall p, regionb_step Rb o p = true <-> region_step R o p.
Proof.
  intros H p. destruct o as [r|r|d rw|]; cbn [regionb_step region_step].
  - rewrite orb_true_iff, H, cell_inb_iff. tauto.
  - rewrite andb_true_iff, negb_true_iff, H, <- cell_inb_iff.
    destruct (cell_inb r p); split; intros [? ?]; split; auto; congruence.
  - apply H.
  - split; [discriminate|tauto].
Qed.

Theorem regionb_iff ops p : regionb ops p = true <-> region_spec ops p.
Proof.
  unfold regionb, region_spec, region_from.
  assert (Hgen : forall ops (Rb : cell -> bool) (R : region),
            (forall p, Rb p = true <-> R p) ->
            forall p, fold_left regionb_step ops Rb p = true <-> fold_left region_step ops R p).
  { induction ops0 as [|o ops0 IH]; intros Rb R H p0; cbn [fold_left]; [apply H|].
    apply IH. apply regionb_step_iff. exact H. }
  apply Hgen. intros p0. split; [discriminate|tauto].
Qed.

(* ------------------------------------------------------------------ *)
(* the pinned code (stale = true) violates the property                *)

Definition stale_witness : list op :=
  [OAdd (mkRect 0 0 1 1); OAdd (mkRect 0 1 2 1); OAdd (mkRect 1 0 1 2)].

Theorem stale_refuted :
  Forall op_ok stale_witness /\
  exists s, rs_run 10 true [] stale_witness = Some s /\
            region_spec stale_witness (0, 0) /\ ~ covered s (0, 0).
Proof.
  split.
  - unfold stale_witness, op_ok, nonempty; cbn [lines cols]. repeat constructor.
  - exists [mkRect 1 0 1 2]. split; [vm_compute; reflexivity|]. split.
    + apply regionb_iff. vm_compute. reflexivity.
    + rewrite <- coveredb_iff. vm_compute. discriminate.
Qed.

(* the same history on the repaired code *)
Lemma stale_witness_fixed : rs_run 10 false [] stale_witness = Some [mkRect 0 0 2 2].
Proof. vm_compute. reflexivity. Qed.

(* non-vacuity: a history with a merge, a split, a subtraction that leaves four pieces,
   a translation; it runs, and the resulting array has several members *)
Definition demo_history : list op :=
  [OAdd (mkRect 0 0 3 3); OAdd (mkRect 1 2 4 4); OSub (mkRect 1 1 1 1);
   OTranslate (-2) 5; OAdd (mkRect (-2) 5 1 3)].

Lemma nonvacuous :
  Forall op_ok demo_history /\
  exists s, rs_run 20 false [] demo_history = Some s /\ (length s >= 4)%nat /\
            rs_contains 10 s (mkRect (-1) 7 2 2) = Some true /\
            rs_contains 10 s (mkRect (-2) 5 2 2) = Some false /\
            rs_intersects s (mkRect (-2) 5 2 2) = true.
Proof.
  split.
  - unfold demo_history, op_ok, nonempty; cbn [lines cols]. repeat constructor.
  - eexists. split; [vm_compute; reflexivity|]. vm_compute. repeat split; lia.
Qed.
