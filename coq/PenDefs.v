(* PenDefs.v -- executable model of /repo/src/pen.c, function by function after the C.
   Definitions only (proofs are in PenProofs*.v).

   struct TickitPen is modelled per attribute: each attribute keeps its value field(s)
   and its validity bit(s) exactly as the C struct does (fgindex/fg_rgb8 with
   valid.fgindex/valid.fg_rgb8, bold with valid.bold, ...); the grouping into slots is only
   a regrouping of the fields.  An int stored into a bit-field wraps to the field's width
   and signedness, which come from the struct declaration as it is NOW (Gen_Colours.v is
   regenerated from pen.c on every run).  refcount, bindings, freezecount/changed (event
   delivery) are not modelled. *)
From Coq Require Import ZArith List Bool.
From Tickit Require Import Gen_Colours.
Import ListNotations.
Local Open Scope Z_scope.

(* TickitPenAttr; AOther = any value outside 1..10 (0, TICKIT_N_PEN_ATTRS, ...) *)
Inductive attr := FG | BG | BOLD | UNDER | ITALIC | REVERSE | STRIKE | ALTFONT | BLINK | SIZEPOS | AOther.

(* the loop `for(attr = 1; attr < TICKIT_N_PEN_ATTRS; attr++)` *)
Definition all_attrs : list attr := [FG; BG; BOLD; UNDER; ITALIC; REVERSE; STRIKE; ALTFONT; BLINK; SIZEPOS].

Inductive ptype := TBool | TInt | TColour | TNone.

(* tickit_penattr_type *)
Definition attr_type (a : attr) : ptype :=
  match a with
  | FG | BG => TColour
  | ALTFONT | UNDER | SIZEPOS => TInt
  | BOLD | ITALIC | REVERSE | STRIKE | BLINK => TBool
  | AOther => TNone
  end.

(* ---- bit-fields ---- *)
Definition wrap_signed (bits v : Z) : Z := (v + 2 ^ (bits - 1)) mod 2 ^ bits - 2 ^ (bits - 1).
Definition wrap_unsigned (bits v : Z) : Z := v mod 2 ^ bits.
Definition wrap_field (f : bool * Z) (v : Z) : Z :=
  if fst f then wrap_signed (snd f) v else wrap_unsigned (snd f) v.

Record rgb := mkRgb { cr : Z; cg : Z; cb : Z }.          (* TickitPenRGB8, uint8_t each *)

Record colslot := mkCol { idx : Z; rgbv : rgb; v_idx : bool; v_rgb : bool }.
Record boolslot := mkB { bval : bool; v_b : bool }.
Record intslot := mkI { ival : Z; v_i : bool }.

Record pen := mkPen {
  fg : colslot; bg : colslot;                    (* fgindex, fg_rgb8, valid.fgindex, valid.fg_rgb8; same for bg *)
  bold : boolslot; under : intslot; italic : boolslot; reverse : boolslot;
  strike : boolslot; altfont : intslot; blink : boolslot; sizepos : intslot }.

Definition with_fg (p : pen) (c : colslot) : pen :=
  mkPen c (bg p) (bold p) (under p) (italic p) (reverse p) (strike p) (altfont p) (blink p) (sizepos p).
Definition with_bg (p : pen) (c : colslot) : pen :=
  mkPen (fg p) c (bold p) (under p) (italic p) (reverse p) (strike p) (altfont p) (blink p) (sizepos p).
Definition with_bold (p : pen) (s : boolslot) : pen :=
  mkPen (fg p) (bg p) s (under p) (italic p) (reverse p) (strike p) (altfont p) (blink p) (sizepos p).
Definition with_under (p : pen) (s : intslot) : pen :=
  mkPen (fg p) (bg p) (bold p) s (italic p) (reverse p) (strike p) (altfont p) (blink p) (sizepos p).
Definition with_italic (p : pen) (s : boolslot) : pen :=
  mkPen (fg p) (bg p) (bold p) (under p) s (reverse p) (strike p) (altfont p) (blink p) (sizepos p).
Definition with_reverse (p : pen) (s : boolslot) : pen :=
  mkPen (fg p) (bg p) (bold p) (under p) (italic p) s (strike p) (altfont p) (blink p) (sizepos p).
Definition with_strike (p : pen) (s : boolslot) : pen :=
  mkPen (fg p) (bg p) (bold p) (under p) (italic p) (reverse p) s (altfont p) (blink p) (sizepos p).
Definition with_altfont (p : pen) (s : intslot) : pen :=
  mkPen (fg p) (bg p) (bold p) (under p) (italic p) (reverse p) (strike p) s (blink p) (sizepos p).
Definition with_blink (p : pen) (s : boolslot) : pen :=
  mkPen (fg p) (bg p) (bold p) (under p) (italic p) (reverse p) (strike p) (altfont p) s (sizepos p).
Definition with_sizepos (p : pen) (s : intslot) : pen :=
  mkPen (fg p) (bg p) (bold p) (under p) (italic p) (reverse p) (strike p) (altfont p) (blink p) s.

(* tickit_pen_has_attr *)
Definition has_attr (p : pen) (a : attr) : bool :=
  match a with
  | FG => v_idx (fg p) | BG => v_idx (bg p)
  | BOLD => v_b (bold p) | UNDER => v_i (under p) | ITALIC => v_b (italic p)
  | REVERSE => v_b (reverse p) | STRIKE => v_b (strike p) | ALTFONT => v_i (altfont p)
  | BLINK => v_b (blink p) | SIZEPOS => v_i (sizepos p)
  | AOther => false
  end.

(* tickit_pen_get_bool_attr *)
Definition get_bool (p : pen) (a : attr) : bool :=
  if negb (has_attr p a) then false else
  match a with
  | BOLD => bval (bold p) | ITALIC => bval (italic p) | REVERSE => bval (reverse p)
  | STRIKE => bval (strike p) | BLINK => bval (blink p)
  | UNDER => ival (under p) >? 0          (* back-compat *)
  | _ => false
  end.

(* tickit_pen_set_bool_attr *)
Definition set_bool (p : pen) (a : attr) (val : bool) : pen :=
  match a with
  | BOLD => with_bold p (mkB val true)
  | ITALIC => with_italic p (mkB val true)
  | REVERSE => with_reverse p (mkB val true)
  | STRIKE => with_strike p (mkB val true)
  | BLINK => with_blink p (mkB val true)
  | UNDER => with_under p (mkI (wrap_field field_under (if val then 1 else 0)) true)   (* back-compat *)
  | _ => p
  end.

(* tickit_pen_get_int_attr *)
Definition get_int (p : pen) (a : attr) : Z :=
  if negb (has_attr p a) then 0 else
  match a with
  | UNDER => ival (under p) | ALTFONT => ival (altfont p) | SIZEPOS => ival (sizepos p)
  | _ => 0
  end.

(* tickit_pen_set_int_attr *)
Definition set_int (p : pen) (a : attr) (val : Z) : pen :=
  match a with
  | UNDER => with_under p (mkI (wrap_field field_under val) true)
  | ALTFONT => with_altfont p (mkI (wrap_field field_altfont val) true)
  | SIZEPOS => with_sizepos p (mkI (wrap_field field_sizepos val) true)
  | _ => p
  end.

Definition COLOUR_DEFAULT : Z := -1.

(* tickit_pen_get_colour_attr *)
Definition get_colour (p : pen) (a : attr) : Z :=
  if negb (has_attr p a) then COLOUR_DEFAULT else
  match a with
  | FG => idx (fg p) | BG => idx (bg p)
  | _ => 0
  end.

(* tickit_pen_set_colour_attr: the RGB8 validity bit is dropped, the RGB8 value stays *)
Definition set_colour (p : pen) (a : attr) (val : Z) : pen :=
  match a with
  | FG => with_fg p (mkCol (wrap_field field_fgindex val) (rgbv (fg p)) true false)
  | BG => with_bg p (mkCol (wrap_field field_bgindex val) (rgbv (bg p)) true false)
  | _ => p
  end.

(* tickit_pen_has_colour_attr_rgb8 *)
Definition has_rgb (p : pen) (a : attr) : bool :=
  match a with
  | FG => v_idx (fg p) && v_rgb (fg p)
  | BG => v_idx (bg p) && v_rgb (bg p)
  | _ => false
  end.

Definition rgb_zero : rgb := mkRgb 0 0 0.

(* tickit_pen_get_colour_attr_rgb8 *)
Definition get_rgb (p : pen) (a : attr) : rgb :=
  if has_rgb p a then
    match a with FG => rgbv (fg p) | BG => rgbv (bg p) | _ => rgb_zero end
  else rgb_zero.

(* tickit_pen_set_colour_attr_rgb8 *)
Definition set_rgb (p : pen) (a : attr) (val : rgb) : pen :=
  if negb (has_attr p a) then p else
  match a with
  | FG => with_fg p (mkCol (idx (fg p)) val (v_idx (fg p)) true)
  | BG => with_bg p (mkCol (idx (bg p)) val (v_idx (bg p)) true)
  | _ => p
  end.

(* tickit_pen_nondefault_attr *)
Definition nondefault_attr (p : pen) (a : attr) : bool :=
  if negb (has_attr p a) then false else
  match attr_type a with
  | TBool => get_bool p a
  | TInt => get_int p a >? 0
  | TColour => negb (get_colour p a =? COLOUR_DEFAULT)
  | TNone => false
  end.

(* tickit_pen_is_nonempty / tickit_pen_is_nondefault *)
Definition is_nonempty (p : pen) : bool := existsb (has_attr p) all_attrs.
Definition is_nondefault (p : pen) : bool := existsb (nondefault_attr p) all_attrs.

(* tickit_pen_clear_attr: only the attribute's own validity bit *)
Definition clear_attr (p : pen) (a : attr) : pen :=
  match a with
  | FG => with_fg p (mkCol (idx (fg p)) (rgbv (fg p)) false (v_rgb (fg p)))
  | BG => with_bg p (mkCol (idx (bg p)) (rgbv (bg p)) false (v_rgb (bg p)))
  | BOLD => with_bold p (mkB (bval (bold p)) false)
  | UNDER => with_under p (mkI (ival (under p)) false)
  | ITALIC => with_italic p (mkB (bval (italic p)) false)
  | REVERSE => with_reverse p (mkB (bval (reverse p)) false)
  | STRIKE => with_strike p (mkB (bval (strike p)) false)
  | ALTFONT => with_altfont p (mkI (ival (altfont p)) false)
  | BLINK => with_blink p (mkB (bval (blink p)) false)
  | SIZEPOS => with_sizepos p (mkI (ival (sizepos p)) false)
  | AOther => p
  end.

(* tickit_pen_clear *)
Definition clear (p : pen) : pen := fold_left clear_attr all_attrs p.

(* tickit_pen_new: malloc'd memory (its content is the argument) with every attribute
   cleared; note that valid.fg_rgb8 / valid.bg_rgb8 and all value fields stay garbage *)
Definition pen_new (garbage : pen) : pen := clear garbage.

Definition rgb_eqb (x y : rgb) : bool := (cr x =? cr y) && (cg x =? cg y) && (cb x =? cb y).

(* tickit_pen_equiv_attr *)
Definition equiv_attr (a b : pen) (at_ : attr) : bool :=
  match attr_type at_ with
  | TBool => Bool.eqb (get_bool a at_) (get_bool b at_)
  | TInt => get_int a at_ =? get_int b at_
  | TColour =>
      if negb (get_colour a at_ =? get_colour b at_) then false
      else if negb (has_rgb a at_) && negb (has_rgb b at_) then true
      else if negb (has_rgb a at_) || negb (has_rgb b at_) then false
      else rgb_eqb (get_rgb a at_) (get_rgb b at_)
  | TNone => false
  end.

(* tickit_pen_equiv.  The C first returns true when the two pointers are equal; for one and
   the same pen the loop gives true as well (equiv_refl), so the shortcut is not modelled. *)
Definition equiv (a b : pen) : bool := forallb (equiv_attr a b) all_attrs.

(* tickit_pen_copy_attr *)
Definition copy_attr (dst src : pen) (a : attr) : pen :=
  match attr_type a with
  | TBool => set_bool dst a (get_bool src a)
  | TInt => set_int dst a (get_int src a)
  | TColour =>
      let d1 := set_colour dst a (get_colour src a) in
      if has_rgb src a then set_rgb d1 a (get_rgb src a) else d1
  | TNone => dst
  end.

(* tickit_pen_copy_attr(p, p, a): the same pen is source and destination, so the source is
   read again AFTER tickit_pen_set_colour_attr has dropped the RGB8 validity bit *)
Definition copy_attr_self (p : pen) (a : attr) : pen :=
  match attr_type a with
  | TBool => set_bool p a (get_bool p a)
  | TInt => set_int p a (get_int p a)
  | TColour =>
      let d1 := set_colour p a (get_colour p a) in
      if has_rgb d1 a then set_rgb d1 a (get_rgb d1 a) else d1
  | TNone => p
  end.

(* one iteration of the loop of tickit_pen_copy *)
Definition copy_step (src : pen) (overwrite : bool) (dst : pen) (a : attr) : pen :=
  if negb (has_attr src a) then dst
  else if has_attr dst a && (negb overwrite || equiv_attr src dst a) then dst
  else copy_attr dst src a.

(* tickit_pen_copy *)
Definition copy (dst src : pen) (overwrite : bool) : pen :=
  fold_left (copy_step src overwrite) all_attrs dst.

(* tickit_pen_clone *)
Definition clone (orig garbage : pen) : pen := copy (pen_new garbage) orig true.

(* ------------------------------------------------------------------------------------ *)
(* tickit_pen_set_colour_attr_desc.  A C string is the list of its characters before the
   terminating NUL (so it contains no 0). *)

Definition str := list Z.

Fixpoint starts_with (pre s : str) : bool :=
  match pre, s with
  | [], _ => true
  | a :: pre', b :: s' => (a =? b) && starts_with pre' s'
  | _ :: _, [] => false
  end.

(* strchr(s, c): offset of the first occurrence *)
Fixpoint strchr (c : Z) (s : str) : option nat :=
  match s with
  | [] => None
  | b :: r => if b =? c then Some O else option_map S (strchr c r)
  end.

(* `while(len > 0 && desc[len-1] == ' ') len--;` on the first [len] characters *)
Fixpoint trim_len (s : str) : nat :=
  match s with
  | [] => O
  | b :: r => match trim_len r with
              | O => if b =? 32 then O else 1%nat
              | S n => S (S n)
              end
  end.

(* strncmp(a, b, n) == 0 for NUL-terminated strings given without their NUL *)
Fixpoint strncmp_eq (n : nat) (a b : str) : bool :=
  match n with
  | O => true
  | S n' => match a, b with
            | [], [] => true
            | x :: a', y :: b' => (x =? y) && strncmp_eq n' a' b'
            | _, _ => false
            end
  end.

Definition is_space (c : Z) : bool := (c =? 32) || ((9 <=? c) && (c <=? 13)).   (* isspace, C locale *)
Definition is_digit (c : Z) : bool := (48 <=? c) && (c <=? 57).
Definition hex_val (c : Z) : option Z :=
  if is_digit c then Some (c - 48)
  else if (97 <=? c) && (c <=? 102) then Some (c - 87)
  else if (65 <=? c) && (c <=? 70) then Some (c - 55)
  else None.

Fixpoint skip_ws (s : str) : str :=
  match s with
  | c :: r => if is_space c then skip_ws r else s
  | [] => []
  end.

(* the run of decimal digits at the front of s, as a number (acc = value so far) *)
Fixpoint scan_digits (s : str) (acc : Z) : Z :=
  match s with
  | c :: r => if is_digit c then scan_digits r (10 * acc + (c - 48)) else acc
  | [] => acc
  end.

Definition starts_digit (s : str) : bool := match s with c :: _ => is_digit c | [] => false end.

Definition LONG_MAX : Z := 9223372036854775807.

(* sscanf(s, "%d", &val) == 1, glibc: blanks, optional sign, at least one digit; the value
   is converted like strtol (clamped to long) and stored into an int (truncated) *)
Definition scan_d (s : str) : option Z :=
  let s1 := skip_ws s in
  let '(neg, s2) := match s1 with
                    | c :: r => if c =? 45 then (true, r) else if c =? 43 then (false, r) else (false, s1)
                    | [] => (false, s1)
                    end in
  if starts_digit s2 then
    let m := scan_digits s2 0 in
    let l := if neg then Z.max (- m) (- LONG_MAX - 1) else Z.min m LONG_MAX in
    Some (wrap_signed 32 l)
  else None.

(* one "%2hhx" conversion of glibc's scanf: blanks; then at most two characters: an optional
   sign, an optional "0" which may be followed by "x"/"X" (consumed, not a digit), hex
   digits.  Result: the value stored into the unsigned char, and the rest of the input. *)
Definition scan_hhx2 (s : str) : option (Z * str) :=
  let s1 := skip_ws s in
  match s1 with
  | [] => None                                            (* input failure *)
  | c :: r =>
    (* sign *)
    let '(neg, signed_, w, s2) :=
      if (c =? 45) || (c =? 43) then (c =? 45, true, 1, r) else (false, false, 2, s1) in
    (* leading "0", "0x" *)
    let '(have0, w, s3) :=
      match s2 with
      | c0 :: r0 =>
        if (w >? 0) && (c0 =? 48) then
          match r0 with
          | cx :: rx => if (w - 1 >? 0) && ((cx =? 120) || (cx =? 88)) then (true, w - 2, rx) else (true, w - 1, r0)
          | [] => (true, w - 1, r0)
          end
        else (false, w, s2)
      | [] => (false, w, s2)
      end in
    (* hex digits while width remains *)
    let '(v, n, s4) :=
      match s3 with
      | d1 :: r1 =>
        match (if w >? 0 then hex_val d1 else None) with
        | Some h1 =>
          match r1 with
          | d2 :: r2 =>
            match (if w - 1 >? 0 then hex_val d2 else None) with
            | Some h2 => (16 * h1 + h2, 2, r2)
            | None => (h1, 1, r1)
            end
          | [] => (h1, 1, r1)
          end
        | None => (0, 0, s3)
        end
      | [] => (0, 0, s3)
      end in
    if have0 || (n >? 0) then Some ((if neg then - v else v) mod 256, s4) else None
  end.

(* sscanf(s, "%2hhx%2hhx%2hhx", &r, &g, &b) == 3 *)
Definition scan_rgb (s : str) : option rgb :=
  match scan_hhx2 s with
  | Some (r, s1) =>
    match scan_hhx2 s1 with
    | Some (g, s2) =>
      match scan_hhx2 s2 with
      | Some (b, _) => Some (mkRgb r g b)
      | None => None
      end
    | None => None
    end
  | None => None
  end.

(* the loop over colournames[]: first entry whose name is the first [len] characters of
   desc.  [exact] = true is the code after fixes/C19-desc-prefix-match.patch (the name's
   length must be len); false is the pinned code (strncmp alone: any prefix of a name,
   including the empty one, matches). *)
Fixpoint find_name (exact : bool) (tbl : list (str * Z)) (desc : str) (len : nat) : option Z :=
  match tbl with
  | [] => None
  | (name, col) :: rest =>
    if (if exact then Nat.eqb (length name) len else true) && strncmp_eq len desc name
    then Some col
    else find_name exact rest desc len
  end.

Definition HI : str := [104; 105; 45].   (* "hi-" *)

(* what the description stands for: Some (colour index as passed to
   tickit_pen_set_colour_attr, RGB8 if one is set afterwards); None = `return false` *)
Definition parse_desc_gen (exact : bool) (desc0 : str) : option (Z * option rgb) :=
  let '(desc, hi) := if starts_with HI desc0 then (skipn 3 desc0, 8) else (desc0, 0) in
  let hashp := strchr 35 desc in
  let len := match hashp with
             | Some h => trim_len (firstn h desc)
             | None => length desc
             end in
  let rgbpart := match hashp with
                 | Some h => scan_rgb (skipn (S h) desc)
                 | None => None
                 end in
  match scan_d desc with
  | Some val =>
      if (hi >? 0) && (val >? 7) then None
      else Some (val + hi, rgbpart)
  | None =>
      match find_name exact colournames desc len with
      | Some col => Some (if (col <? 8) && (hi >? 0) then col + hi else col, rgbpart)
      | None => None
      end
  end.

Definition set_desc_gen (exact : bool) (p : pen) (a : attr) (desc : str) : bool * pen :=
  match parse_desc_gen exact desc with
  | None => (false, p)
  | Some (val, orgb) =>
      let p1 := set_colour p a val in
      (true, match orgb with Some c => set_rgb p1 a c | None => p1 end)
  end.

(* the code as verified (with the fix applied) *)
Definition parse_desc := parse_desc_gen true.
Definition set_desc := set_desc_gen true.
