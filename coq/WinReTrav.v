(* WinReTrav.v -- re-entering expose handlers, part 3(b): the traversal do_expose_re on the
   abstract render buffer when the handlers repaint what they are asked AND change the root
   state (in any way) behind the traversal's back.

   A. Whatever the handlers do to the state, the traversal keeps the buffer's frame, only adds
      masks, and changes no cell that was not drawable when it started (frame_at,
      do_expose_re_frame, flush_re_frame).
   B. Fix a screen cell q0, a visibility function V and a parent function P (the parents in the
      tree T0 the traversal walks).  A window x is "attached and visible" in s (att P s x) when
      its parent in s is still P x and it is visible.  Let St s s' say: "if s' is not faulty and
      does not cover q0, then neither is s faulty nor does it cover q0, and if att P s agrees
      with V on the windows that matter at q0 (rel_ids V T0 q0), so does att P s'".  If every
      handler call is such a step (from a state allowed by Gd, which it keeps), then a
      traversal that ends in a non-faulty state not covering q0 has painted q0 -- if q0 was
      drawable -- with what the owner according to V paints there (do_expose_re_q0).
   C. The render loop: each rectangle is walked on the tree of the state it starts in; if every
      handler call also keeps the owner of q0 in the current tree (unless q0 gets covered), the
      loop leaves q0 with what its owner IN THE FINAL TREE paints, if q0 lies in one of the
      rectangles, and untouched otherwise (flush_re_q0). *)
From Coq Require Import ZArith List Bool Lia ZifyBool.
From Tickit Require Import RectDefs RectProofs WinRectSet WinRectSetProofs WinDefs WinSpec
  WinExposeProofs WinFlushProofs WinLogDisjoint WinScreenInv WinLocA WinLocTree WinInput WinReDefs
  WinReProofs WinReLive.
Import ListNotations.
Local Open Scope Z_scope.

(* ------------------------------------------------------------------------------------ *)
(* small facts about frames and masks                                                    *)

Lemma mask_grows_trans b1 b2 b3 :
  same_frame b1 b2 -> mask_grows b1 b2 -> mask_grows b2 b3 -> mask_grows b1 b3.
Proof.
  intros (_ & _ & _ & _ & _ & Hd & _) H12 H23 q.
  destruct (H23 q) as [E|[E1 E2]].
  - rewrite E. apply H12.
  - destruct (H12 q) as [E'|[E1' E2']].
    + right. rewrite <- E'. split; [exact E1|]. rewrite E2, Hd. reflexivity.
    + rewrite E2' in E1. discriminate.
Qed.

Lemma mask_grows_refl b : mask_grows b b.
Proof. intros q. left. reflexivity. Qed.

Lemma nondrawable_mono b b' q :
  same_frame b b' -> mask_grows b b' -> rb_drawable b q = false -> rb_drawable b' q = false.
Proof.
  intros Hf Hg H. rewrite drawable_spec in *. rewrite (same_frame_in_clip _ _ q Hf).
  destruct (in_clip b q); [|reflexivity]. cbn [andb] in *.
  destruct (Hg q) as [E|[E1 E2]].
  - rewrite E. exact H.
  - rewrite E2. reflexivity.
Qed.

Lemma expose_kids_re_fst_inv (P : root -> Prop) rh :
  rh_keeps P rh -> forall pid r l sb, P (fst sb) -> P (fst (expose_kids_re rh pid r l sb)).
Proof.
  intros Hk pid r. induction l as [|c rest IH]; intros sb HP; [exact HP|].
  cbn [expose_kids_re].
  destruct (negb (child_now (fst sb) pid (w_id (t_info c)))); [apply IH; exact HP|].
  destruct (negb (vis_now (fst sb) (w_id (t_info c)))); [apply IH; exact HP|].
  apply IH. cbn [fst].
  destruct (r_intersect r (w_rect (t_info c))) as [ex|]; [|exact HP].
  cbn [fst]. apply (do_expose_re_fst_inv P rh Hk). exact HP.
Qed.

Section trav.
  Variable app : Z -> Z -> Z -> Z.
  Variable rh : rhandler.
  Hypothesis Hsnd : forall id r sb, snd (rh id r sb) = paint_handler app id r (snd sb).

  (* ---------------------------------------------------------------------------------- *)
  (* A. the frame                                                                        *)

  Definition frame_at (t : wtree) : Prop :=
    forall r s b, pre b r ->
      let b' := snd (do_expose_re rh t r (s, b)) in
      same_frame b b' /\ mask_grows b b' /\
      forall q, rb_drawable b q = false -> rb_cells b' q = rb_cells b q.

  (* one visible child: expose it (if it meets the rectangle) and restore *)
  Definition kid_out (c : wtree) (r : rect) (s : root) (b : rbuf) : root * rbuf :=
    let ci := t_info c in
    match r_intersect r (w_rect ci) with
    | Some ex =>
      let sb2 := do_expose_re rh c (r_translate ex (- top (w_rect ci)) (- left (w_rect ci)))
                              (s, child_frame b ex (top (w_rect ci)) (left (w_rect ci))) in
      (fst sb2, rb_restore (snd sb2))
    | None => (s, b)
    end.

  (* ... and mask it if it is still a child *)
  Definition kid_masked (pid : Z) (c : wtree) (o : root * rbuf) : rbuf :=
    if child_now (fst o) pid (w_id (t_info c)) then rb_mask_rect (snd o) (w_rect (t_info c)) else snd o.

  Lemma expose_kids_re_cons pid r c rest s b :
    expose_kids_re rh pid r (c :: rest) (s, b) =
    if negb (child_now s pid (w_id (t_info c))) then expose_kids_re rh pid r rest (s, b) else
    if negb (vis_now s (w_id (t_info c))) then expose_kids_re rh pid r rest (s, b) else
    expose_kids_re rh pid r rest (fst (kid_out c r s b), kid_masked pid c (kid_out c r s b)).
  Proof.
    cbn [expose_kids_re fst snd]. unfold kid_masked, kid_out, child_frame.
    destruct (negb (child_now s pid (w_id (t_info c)))); [reflexivity|].
    destruct (negb (vis_now s (w_id (t_info c)))); [reflexivity|].
    destruct (r_intersect r (w_rect (t_info c))); reflexivity.
  Qed.

  (* the buffer after the child's expose and the restore: the frame and the masks are back *)
  Lemma kid_out_fields c r s b :
    frame_at c -> pre b r ->
    let ci := t_info c in
    let b0 := snd (kid_out c r s b) in
    pre b0 r /\ same_frame b b0 /\ (forall q, rb_mask b0 q = rb_mask b q) /\
    (forall q, rb_drawable b q && cell_inb (w_rect ci) (rel b q) = false -> rb_cells b0 q = rb_cells b q) /\
    (forall ex, r_intersect r (w_rect ci) = Some ex -> forall q,
       rb_cells b0 q =
       rb_cells (snd (do_expose_re rh c (r_translate ex (- top (w_rect ci)) (- left (w_rect ci)))
                                   (s, child_frame b ex (top (w_rect ci)) (left (w_rect ci))))) q).
  Proof.
    intros Hc Hpre. cbv zeta.
    assert (H0 : same_frame b (snd (kid_out c r s b)) /\
                 (forall q, rb_mask (snd (kid_out c r s b)) q = rb_mask b q) /\
                 (forall q, rb_drawable b q && cell_inb (w_rect (t_info c)) (rel b q) = false ->
                            rb_cells (snd (kid_out c r s b)) q = rb_cells b q) /\
                 (forall ex, r_intersect r (w_rect (t_info c)) = Some ex -> forall q,
                    rb_cells (snd (kid_out c r s b)) q =
                    rb_cells (snd (do_expose_re rh c (r_translate ex (- top (w_rect (t_info c))) (- left (w_rect (t_info c))))
                                   (s, child_frame b ex (top (w_rect (t_info c))) (left (w_rect (t_info c)))))) q)).
    { unfold kid_out. destruct (r_intersect r (w_rect (t_info c))) as [ex|] eqn:Hex; cbn [snd fst].
      - pose proof (child_pre b r c Hpre ex Hex) as Hp1.
        destruct (Hc _ s _ Hp1) as (Hf2 & Hg2 & Hc2).
        destruct (restore_child b ex _ _ _ Hf2) as (Hf3 & Hc3 & _).
        split; [exact Hf3|]. split; [apply (child_restore_mask b r c Hpre ex _ Hf2 Hg2)|]. split.
        + intros q Hq. rewrite Hc3, Hc2.
          * destruct (child_frame_fields b ex (top (w_rect (t_info c))) (left (w_rect (t_info c)))) as (_ & _ & -> & _).
            reflexivity.
          * rewrite (child_drawable b r c Hpre ex q Hex). exact Hq.
        + intros ex' Hex' q. injection Hex' as <-. rewrite Hc3. reflexivity.
      - split; [apply same_frame_refl|]. split; [reflexivity|]. split; [reflexivity|].
        intros ex' Hex'. discriminate. }
    destruct H0 as (Hf0 & Hm0 & Hc0 & Hx0).
    split; [|split; [exact Hf0|split; [exact Hm0|split; [exact Hc0|exact Hx0]]]].
    destruct Hpre as (Hok & Hci & Hw). split; [|split].
    - intros q k Hk. rewrite Hm0 in Hk. destruct Hf0 as (_ & _ & _ & _ & _ & Hd & _). rewrite Hd.
      apply (Hok q k Hk).
    - intros q Hq. rewrite (same_frame_in_clip _ _ q Hf0) in Hq.
      rewrite (same_frame_inb _ _ q Hf0). apply Hci; exact Hq.
    - intros q Hq. rewrite (same_frame_rel _ _ q Hf0). apply Hw.
      rewrite drawable_spec in Hq |- *. rewrite (same_frame_in_clip _ _ q Hf0), Hm0 in Hq. exact Hq.
  Qed.

  (* ... and after masking the child's rectangle *)
  Lemma mask_step b r (k : rect) :
    pre b r ->
    let b4 := rb_mask_rect b k in
    pre b4 r /\ same_frame b b4 /\ rb_cells b4 = rb_cells b /\
    (forall q, rb_mask b4 q =
               match rb_mask b q with
               | Some d => Some d
               | None => if cell_inb k (rel b q) && rb_inb b q then Some (rb_depth b) else None
               end).
  Proof.
    intros Hpre. cbv zeta. destruct (mask_rect_fields b k) as (Hf4 & Hc4 & Hm4).
    split; [|split; [exact Hf4|split; [exact Hc4|exact Hm4]]].
    destruct Hpre as (Hok & Hci & Hw). split; [|split].
    - intros q d Hk. rewrite Hm4 in Hk.
      destruct Hf4 as (_ & _ & _ & _ & _ & Hd & _). rewrite Hd.
      destruct (rb_mask b q) as [d'|] eqn:Ek.
      + injection Hk as <-. apply (Hok q d' Ek).
      + destruct (cell_inb k (rel b q) && rb_inb b q); [|discriminate]. injection Hk as <-. lia.
    - intros q Hq. rewrite (same_frame_in_clip _ _ q Hf4) in Hq.
      rewrite (same_frame_inb _ _ q Hf4). apply Hci; exact Hq.
    - intros q Hq. rewrite (same_frame_rel _ _ q Hf4). apply Hw.
      rewrite drawable_spec in Hq |- *. rewrite (same_frame_in_clip _ _ q Hf4) in Hq.
      apply andb_true_iff in Hq. destruct Hq as [Hq1 Hq2]. rewrite Hq1. cbn [andb].
      rewrite Hm4 in Hq2. destruct (rb_mask b q); [discriminate|reflexivity].
  Qed.

  (* one child, whether it ends up masked or not *)
  Lemma kid_step pid c r s b :
    frame_at c -> pre b r ->
    let ci := t_info c in
    let o := kid_out c r s b in
    let b4 := kid_masked pid c o in
    pre b4 r /\ same_frame b b4 /\ mask_grows b b4 /\
    (forall q, rb_mask b4 q =
               if child_now (fst o) pid (w_id ci) then
                 match rb_mask b q with
                 | Some k => Some k
                 | None => if cell_inb (w_rect ci) (rel b q) && rb_inb b q then Some (rb_depth b) else None
                 end
               else rb_mask b q) /\
    (forall q, rb_drawable b q && cell_inb (w_rect ci) (rel b q) = false -> rb_cells b4 q = rb_cells b q) /\
    (forall ex, r_intersect r (w_rect ci) = Some ex -> forall q,
       rb_cells b4 q =
       rb_cells (snd (do_expose_re rh c (r_translate ex (- top (w_rect ci)) (- left (w_rect ci)))
                                   (s, child_frame b ex (top (w_rect ci)) (left (w_rect ci))))) q).
  Proof.
    intros Hc Hpre. cbv zeta.
    destruct (kid_out_fields c r s b Hc Hpre) as (Hp0 & Hf0 & Hm0 & Hc0 & Hx0).
    unfold kid_masked. destruct (child_now (fst (kid_out c r s b)) pid (w_id (t_info c))).
    - destruct (mask_step _ r (w_rect (t_info c)) Hp0) as (Hp4 & Hf4 & Hc4 & Hm4).
      assert (Hmask : forall q, rb_mask (rb_mask_rect (snd (kid_out c r s b)) (w_rect (t_info c))) q =
                 match rb_mask b q with
                 | Some k => Some k
                 | None => if cell_inb (w_rect (t_info c)) (rel b q) && rb_inb b q then Some (rb_depth b) else None
                 end).
      { intros q. rewrite Hm4, Hm0, (same_frame_rel _ _ q Hf0), (same_frame_inb _ _ q Hf0).
        destruct Hf0 as (_ & _ & _ & _ & _ & Hd0 & _). rewrite Hd0. reflexivity. }
      split; [exact Hp4|]. split; [eapply same_frame_trans; eassumption|]. split.
      { intros q. rewrite Hmask. destruct (rb_mask b q); [left; reflexivity|].
        destruct (cell_inb (w_rect (t_info c)) (rel b q) && rb_inb b q);
          [right; split; reflexivity|left; reflexivity]. }
      split; [exact Hmask|]. split.
      + intros q Hq. rewrite Hc4. apply Hc0. exact Hq.
      + intros ex Hex q. rewrite Hc4. apply Hx0. exact Hex.
    - split; [exact Hp0|]. split; [exact Hf0|]. split; [intros q; left; apply Hm0|].
      split; [exact Hm0|]. split; [exact Hc0|exact Hx0].
  Qed.

  Lemma kids_frame pid r l :
    Forall frame_at l -> forall s b, pre b r ->
      let b' := snd (expose_kids_re rh pid r l (s, b)) in
      pre b' r /\ same_frame b b' /\ mask_grows b b' /\
      forall q, rb_drawable b q = false -> rb_cells b' q = rb_cells b q.
  Proof.
    induction 1 as [|c rest Hc _ IH]; intros s b Hpre.
    - cbn [expose_kids_re snd]. split; [exact Hpre|]. split; [apply same_frame_refl|].
      split; [apply mask_grows_refl|]. reflexivity.
    - rewrite expose_kids_re_cons.
      destruct (negb (child_now s pid (w_id (t_info c)))); [apply IH; exact Hpre|].
      destruct (negb (vis_now s (w_id (t_info c)))); [apply IH; exact Hpre|].
      destruct (kid_step pid c r s b Hc Hpre) as (Hp4 & Hf4 & Hg4 & _ & Hc4 & _).
      set (b4 := kid_masked pid c (kid_out c r s b)) in *.
      destruct (IH (fst (kid_out c r s b)) b4 Hp4) as (Hp5 & Hf5 & Hg5 & Hc5).
      split; [exact Hp5|]. split; [eapply same_frame_trans; eassumption|].
      split; [apply (mask_grows_trans b b4 _ Hf4 Hg4 Hg5)|].
      intros q Hq. rewrite Hc5.
      + apply Hc4. rewrite Hq. reflexivity.
      + apply (nondrawable_mono b b4 q Hf4 Hg4 Hq).
  Qed.

  Theorem do_expose_re_frame : forall t, frame_at t.
  Proof.
    apply (wtree_ind2 frame_at). intros i ch Hch r s b Hpre. cbv zeta.
    rewrite do_expose_re_unfold, Hsnd.
    destruct (kids_frame (w_id i) r ch Hch s b Hpre) as (Hp1 & Hf1 & Hg1 & Hc1).
    set (b1 := snd (expose_kids_re rh (w_id i) r ch (s, b))) in *.
    destruct (paint_handler_fields app (w_id i) r b1) as (Hf2 & Hm2 & Hc2).
    split; [eapply same_frame_trans; eassumption|]. split.
    - intros q. rewrite Hm2. apply Hg1.
    - intros q Hq. rewrite Hc2, (nondrawable_mono b b1 q Hf1 Hg1 Hq). cbn [andb]. apply Hc1. exact Hq.
  Qed.

  (* the render loop *)
  Lemma flush_re_frame L C : forall rects s b, flush_state L C b ->
    let b' := snd (flush_rb_re rh rects (s, b)) in
    flush_state L C b' /\
    forall q, rb_full L C q && in_any rects q = false -> rb_cells b' q = rb_cells b q.
  Proof.
    unfold flush_rb_re. induction rects as [|R rest IH]; intros s b Hfs; cbn [fold_left fst snd].
    - split; [exact Hfs|]. reflexivity.
    - destruct (rect_frame_pre L C b R Hfs) as (Hpre & Hdr & Hrel & Hcells).
      fold (rect_frame b R).
      destruct (do_expose_re_frame (r_tree s) R s (rect_frame b R) Hpre) as (Hf & Hg & Hc).
      destruct (rect_restore L C b R _ Hfs Hf Hg) as (Hfs' & Hc').
      destruct (IH (fst (do_expose_re rh (r_tree s) R (s, rect_frame b R))) _ Hfs') as (Hfs'' & Hc'').
      split; [exact Hfs''|]. intros q Hq.
      unfold in_any in Hq; cbn [existsb] in Hq. fold (in_any rest q) in Hq.
      rewrite Hc''.
      + rewrite Hc', Hc, Hcells; [reflexivity|]. rewrite Hdr.
        destruct (rb_full L C q); [|reflexivity]. cbn [andb] in *. apply orb_false_iff in Hq. tauto.
      + destruct (rb_full L C q); [|reflexivity]. cbn [andb] in *. apply orb_false_iff in Hq. tauto.
  Qed.

  (* ---------------------------------------------------------------------------------- *)
  (* B. one cell, one traversal                                                          *)

  Variable q0 : cell.

  Definition cov0 (s : root) : Prop := covered (r_damage s) q0.

  Section one_tree.
  Variable V : Z -> bool.
  Variable P : Z -> option Z.
  Variable T0 : wtree.
  Variable Gd : root -> Prop.

  Definition RelSet : list Z := rel_ids V T0 q0.
  (* still where the walked tree has it, and visible *)
  Definition att (s : root) (x : Z) : bool := opt_is (f_parent s x) (P x) && vis_now s x.
  Definition OKs (s : root) : Prop := forall x, In x RelSet -> att s x = V x.
  Definition St (s s' : root) : Prop :=
    r_fault s' = false -> ~ cov0 s' -> r_fault s = false /\ ~ cov0 s /\ (OKs s -> OKs s').
  (* P gives the parents in t *)
  Definition ParOK (t : wtree) : Prop :=
    forall n c, subtree n t -> In c (t_kids n) -> P (t_id c) = Some (t_id n).

  Hypothesis Hstep : forall id r sb, Gd (fst sb) -> Gd (fst (rh id r sb)) /\ St (fst sb) (fst (rh id r sb)).

  Lemma St_refl s : St s s.
  Proof. intros Hf Hc. tauto. Qed.

  Lemma St_trans a b c : St a b -> St b c -> St a c.
  Proof.
    intros Hab Hbc Hf Hc. destruct (Hbc Hf Hc) as (Hfb & Hcb & Hob).
    destruct (Hab Hfb Hcb) as (Hfa & Hca & Hoa). tauto.
  Qed.

  Lemma rh_keeps_step s0 : rh_keeps (fun x => Gd x /\ St s0 x) rh.
  Proof.
    intros id r sb [HG HS]. destruct (Hstep id r sb HG) as [HG' HS'].
    split; [exact HG'|]. eapply St_trans; eassumption.
  Qed.

  Lemma trav_step t r sb :
    Gd (fst sb) -> Gd (fst (do_expose_re rh t r sb)) /\ St (fst sb) (fst (do_expose_re rh t r sb)).
  Proof.
    intros HG. apply (do_expose_re_fst_inv (fun x => Gd x /\ St (fst sb) x) rh (rh_keeps_step (fst sb))).
    split; [exact HG|apply St_refl].
  Qed.

  Lemma kids_step pid r l sb :
    Gd (fst sb) -> Gd (fst (expose_kids_re rh pid r l sb)) /\ St (fst sb) (fst (expose_kids_re rh pid r l sb)).
  Proof.
    intros HG. apply (expose_kids_re_fst_inv (fun x => Gd x /\ St (fst sb) x) rh (rh_keeps_step (fst sb))).
    split; [exact HG|apply St_refl].
  Qed.

  Lemma kid_out_step c r s b : Gd s -> Gd (fst (kid_out c r s b)) /\ St s (fst (kid_out c r s b)).
  Proof.
    intros HG. unfold kid_out. destruct (r_intersect r (w_rect (t_info c))) as [ex|]; cbn [fst].
    - apply (trav_step c _ (s, _)). exact HG.
    - split; [exact HG|apply St_refl].
  Qed.

  Lemma ParOK_kid i ch c : ParOK (Node i ch) -> In c ch -> ParOK c /\ P (t_id c) = Some (w_id i).
  Proof.
    intros H Hc. split.
    - intros n c' Hn Hc'. apply H; [|exact Hc']. eapply sub_kid; eassumption.
    - apply (H (Node i ch) c); [constructor|exact Hc].
  Qed.

  (* for an entry of the child list of window pid: attached-and-visible is what the loop tests *)
  Lemma att_tests s pid c : P (t_id c) = Some pid ->
    att s (w_id (t_info c)) = child_now s pid (w_id (t_info c)) && vis_now s (w_id (t_info c)).
  Proof. intros HP. unfold att, child_now. fold (t_id c). rewrite HP. reflexivity. Qed.

  Definition paints_q0 (t : wtree) : Prop :=
    forall r s b, pre b r -> ParOK t -> Gd s -> OKs s ->
      (forall x, In x (rel_ids V t (rel b q0)) -> In x RelSet) ->
      rb_drawable b q0 = true ->
      let sb' := do_expose_re rh t r (s, b) in
      r_fault (fst sb') = false -> ~ cov0 (fst sb') ->
      rb_cells (snd sb') q0 = paint_val app (own V t (rel b q0)).

  Lemma kids_q0 pid r l :
    Forall paints_q0 l -> (forall c, In c l -> ParOK c /\ P (t_id c) = Some pid) ->
    forall s b, pre b r -> Gd s -> OKs s ->
      (forall x, In x (rel_kids V l (rel b q0)) -> In x RelSet) ->
      rb_drawable b q0 = true ->
      let sb' := expose_kids_re rh pid r l (s, b) in
      r_fault (fst sb') = false -> ~ cov0 (fst sb') ->
      match first_own V l (rel b q0) with
      | Some x => rb_cells (snd sb') q0 = paint_val app x /\ rb_drawable (snd sb') q0 = false
      | None => rb_drawable (snd sb') q0 = true
      end.
  Proof.
    induction 1 as [|c rest Hc Hrest IH]; intros Hpar s b Hpre HG HO Hrel Hd.
    - cbn [expose_kids_re first_own snd]. intros _ _. exact Hd.
    - cbv zeta. rewrite expose_kids_re_cons. cbn [first_own].
      assert (Hpar' : forall c0, In c0 rest -> ParOK c0 /\ P (t_id c0) = Some pid).
      { intros c0 Hin. apply Hpar. right; exact Hin. }
      destruct (Hpar c (or_introl eq_refl)) as [Hparc HPc].
      assert (Hrel' : forall x, In x (rel_kids V rest (rel b q0)) -> In x RelSet).
      { intros x Hx. apply Hrel. apply rel_kids_tail. exact Hx. }
      pose proof (IH Hpar' s b Hpre HG HO Hrel' Hd) as IHskip.
      destruct (cell_inb (w_rect (t_info c)) (rel b q0)) eqn:Hin.
      + (* the child's rectangle contains q0: its flags matter, and the state reads V there *)
        destruct (rel_kids_in V (c :: rest) c (rel b q0) (or_introl eq_refl) Hin) as [Hidc Hsubc].
        assert (Ev : att s (w_id (t_info c)) = V (w_id (t_info c))).
        { apply HO. apply Hrel. exact Hidc. }
        rewrite (att_tests s pid c HPc) in Ev.
        destruct (V (w_id (t_info c))) eqn:Hv; cbn [andb].
        2:{ destruct (child_now s pid (w_id (t_info c))); cbn [negb andb] in *; [|exact IHskip].
            rewrite Ev. cbn [negb]. exact IHskip. }
        apply andb_true_iff in Ev. destruct Ev as [Ek Evis]. rewrite Ek, Evis. cbn [negb].
        set (o := kid_out c r s b).
        set (b4 := kid_masked pid c o).
        intros Hf Hcv.
        destruct (kid_out_step c r s b HG) as [HG1 HS1]. fold o in HG1, HS1.
        destruct (kids_step pid r rest (fst o, b4) HG1) as [_ HS2]. cbn [fst] in HS2.
        destruct (HS2 Hf Hcv) as (Hf1 & Hcv1 & _).
        destruct (HS1 Hf1 Hcv1) as (_ & _ & HO1). specialize (HO1 HO).
        (* the child is still a child after its expose: it gets masked *)
        assert (Ek1 : child_now (fst o) pid (w_id (t_info c)) = true).
        { assert (E1 : att (fst o) (w_id (t_info c)) = true).
          { rewrite <- Hv. apply HO1. apply Hrel. exact Hidc. }
          rewrite (att_tests (fst o) pid c HPc) in E1. apply andb_true_iff in E1. tauto. }
        destruct (kid_step pid c r s b (do_expose_re_frame c) Hpre) as (Hp4 & Hf4 & _ & Hm4 & _ & Hx4).
        fold o b4 in Hp4, Hf4, Hm4, Hx4. rewrite Ek1 in Hm4.
        destruct (r_intersect r (w_rect (t_info c))) as [ex|] eqn:Hex.
        2:{ pose proof (child_none_drawable b r c Hpre q0 Hex) as Hn. rewrite Hd, Hin in Hn. discriminate. }
        (* the child paints q0 *)
        assert (Hcell : rb_cells b4 q0 =
                        paint_val app (own V c (fst (rel b q0) - top (w_rect (t_info c)),
                                                snd (rel b q0) - left (w_rect (t_info c))))).
        { rewrite (Hx4 ex eq_refl q0).
          assert (Eo : fst o = fst (do_expose_re rh c (r_translate ex (- top (w_rect (t_info c))) (- left (w_rect (t_info c))))
                                     (s, child_frame b ex (top (w_rect (t_info c))) (left (w_rect (t_info c)))))).
          { subst o. unfold kid_out. rewrite Hex. reflexivity. }
          rewrite <- (child_rel b c ex q0).
          apply (Hc _ s _ (child_pre b r c Hpre ex Hex) Hparc HG HO).
          - intros x Hx. rewrite (child_rel b c ex q0) in Hx. apply Hrel. apply Hsubc; [exact Hv|exact Hx].
          - rewrite (child_drawable b r c Hpre ex q0 Hex), Hd, Hin. reflexivity.
          - rewrite <- Eo. exact Hf1.
          - rewrite <- Eo. exact Hcv1. }
        assert (Hnd4 : rb_drawable b4 q0 = false).
        { rewrite drawable_spec, Hm4. rewrite (drawable_mask_none b q0 Hd), Hin.
          destruct Hpre as (_ & Hci & _). rewrite (Hci q0 (drawable_in_clip b q0 Hd)). cbn [andb].
          apply andb_false_r. }
        destruct (kids_frame pid r rest (Forall_impl _ (fun t _ => do_expose_re_frame t) Hrest) (fst o) b4 Hp4)
          as (_ & Hf5 & Hg5 & Hc5).
        split.
        * rewrite (Hc5 q0 Hnd4). exact Hcell.
        * apply (nondrawable_mono b4 _ q0 Hf5 Hg5 Hnd4).
      + (* q0 lies outside the child: whatever happens there leaves q0 alone *)
        rewrite andb_false_r.
        destruct (negb (child_now s pid (w_id (t_info c)))); [exact IHskip|].
        destruct (negb (vis_now s (w_id (t_info c)))); [exact IHskip|].
        set (o := kid_out c r s b).
        set (b4 := kid_masked pid c o).
        intros Hf Hcv.
        destruct (kid_out_step c r s b HG) as [HG1 HS1]. fold o in HG1, HS1.
        destruct (kids_step pid r rest (fst o, b4) HG1) as [_ HS2]. cbn [fst] in HS2.
        destruct (HS2 Hf Hcv) as (Hf1 & Hcv1 & _).
        destruct (HS1 Hf1 Hcv1) as (_ & _ & HO1).
        destruct (kid_step pid c r s b (do_expose_re_frame c) Hpre) as (Hp4 & Hf4 & _ & Hm4 & _ & _).
        fold o b4 in Hp4, Hf4, Hm4.
        assert (Hd4 : rb_drawable b4 q0 = true).
        { rewrite drawable_spec, (same_frame_in_clip _ _ q0 Hf4), Hm4.
          rewrite (drawable_in_clip b q0 Hd), (drawable_mask_none b q0 Hd), Hin.
          destruct (child_now (fst o) pid (w_id (t_info c))); reflexivity. }
        pose proof (IH Hpar' (fst o) b4 Hp4 HG1 (HO1 HO)) as HI. cbv zeta in HI.
        rewrite (same_frame_rel _ _ q0 Hf4) in HI. apply (HI Hrel' Hd4 Hf Hcv).
  Qed.

  Theorem do_expose_re_q0 : forall t, paints_q0 t.
  Proof.
    apply (wtree_ind2 paints_q0). intros i ch Hch r s b Hpre Hpar HG HO Hrel Hd. cbv zeta.
    rewrite do_expose_re_unfold. intros Hf Hcv.
    set (sbk := expose_kids_re rh (w_id i) r ch (s, b)) in *.
    destruct (kids_step (w_id i) r ch (s, b) HG) as [HGk _]. fold sbk in HGk.
    destruct (Hstep (w_id i) r sbk HGk) as [_ HSh].
    destruct (HSh Hf Hcv) as (Hfk & Hcvk & _).
    rewrite rel_ids_unfold in Hrel.
    pose proof (kids_q0 (w_id i) r ch Hch (fun c Hc => ParOK_kid i ch c Hpar Hc) s b Hpre HG HO Hrel Hd) as HK.
    cbv zeta in HK. fold sbk in HK. specialize (HK Hfk Hcvk).
    destruct (kids_frame (w_id i) r ch (Forall_impl _ (fun t _ => do_expose_re_frame t) Hch) s b Hpre) as (_ & Hf1 & _ & _).
    fold sbk in Hf1.
    rewrite Hsnd. destruct (paint_handler_fields app (w_id i) r (snd sbk)) as (_ & _ & Hc2).
    rewrite Hc2, own_unfold.
    destruct (first_own V ch (rel b q0)) as [x|].
    - destruct HK as [E1 E2]. rewrite E2. cbn [andb]. exact E1.
    - rewrite HK, (same_frame_rel _ _ q0 Hf1). cbn [andb].
      destruct Hpre as (_ & _ & Hw). specialize (Hw q0 Hd). apply cell_inb_iff in Hw. rewrite Hw.
      reflexivity.
  Qed.
  End one_tree.

  (* ---------------------------------------------------------------------------------- *)
  (* C. the render loop                                                                  *)

  Variable G0 : root -> Prop.
  Variable GdT : wtree -> (Z -> option Z) -> root -> Prop.

  Definition St0 (s s' : root) : Prop :=
    r_fault s' = false -> ~ cov0 s' ->
    r_fault s = false /\ ~ cov0 s /\ owner_rel (r_tree s') q0 = owner_rel (r_tree s) q0.

  (* a rectangle starts on the tree of the current state, with the parents and flags of that state *)
  Hypothesis H_start : forall s, G0 s ->
    GdT (r_tree s) (f_parent s) s /\ ParOK (f_parent s) (r_tree s) /\ Vok (vis_now s) (r_tree s) /\
    OKs (vis_now s) (f_parent s) (r_tree s) s.
  Hypothesis H_step : forall T P V id r sb, GdT T P (fst sb) ->
    GdT T P (fst (rh id r sb)) /\ St V P T (fst sb) (fst (rh id r sb)).
  Hypothesis H_step0 : forall id r sb, G0 (fst sb) -> G0 (fst (rh id r sb)) /\ St0 (fst sb) (fst (rh id r sb)).

  Lemma St0_refl s : St0 s s.
  Proof. intros Hf Hc. tauto. Qed.

  Lemma St0_trans a b c : St0 a b -> St0 b c -> St0 a c.
  Proof.
    intros Hab Hbc Hf Hc. destruct (Hbc Hf Hc) as (Hfb & Hcb & Hob).
    destruct (Hab Hfb Hcb) as (Hfa & Hca & Hoa). split; [exact Hfa|]. split; [exact Hca|congruence].
  Qed.

  Lemma rh_keeps_step0 s0 : rh_keeps (fun x => G0 x /\ St0 s0 x) rh.
  Proof.
    intros id r sb [HG HS]. destruct (H_step0 id r sb HG) as [HG' HS'].
    split; [exact HG'|]. eapply St0_trans; eassumption.
  Qed.

  Lemma trav_step0 t r sb :
    G0 (fst sb) -> G0 (fst (do_expose_re rh t r sb)) /\ St0 (fst sb) (fst (do_expose_re rh t r sb)).
  Proof.
    intros HG. apply (do_expose_re_fst_inv (fun x => G0 x /\ St0 (fst sb) x) rh (rh_keeps_step0 (fst sb))).
    split; [exact HG|apply St0_refl].
  Qed.

  Lemma flush_step0 rects sb :
    G0 (fst sb) -> G0 (fst (flush_rb_re rh rects sb)) /\ St0 (fst sb) (fst (flush_rb_re rh rects sb)).
  Proof.
    intros HG. apply (flush_rb_re_fst_inv (fun x => G0 x /\ St0 (fst sb) x) rh (rh_keeps_step0 (fst sb))).
    split; [exact HG|apply St0_refl].
  Qed.

  Theorem flush_re_q0 L C : forall rects s b, flush_state L C b -> G0 s ->
    let sb' := flush_rb_re rh rects (s, b) in
    r_fault (fst sb') = false -> ~ cov0 (fst sb') ->
    rb_cells (snd sb') q0 =
    if rb_full L C q0 && in_any rects q0
    then paint_val app (owner_rel (r_tree (fst sb')) q0) else rb_cells b q0.
  Proof.
    induction rects as [|R rest IH]; intros s b Hfs HG.
    - cbv zeta. unfold flush_rb_re, in_any. cbn [fold_left fst snd existsb]. intros _ _.
      rewrite andb_false_r. reflexivity.
    - cbv zeta. unfold flush_rb_re. cbn [fold_left fst snd]. fold (rect_frame b R).
      set (sb1 := do_expose_re rh (r_tree s) R (s, rect_frame b R)).
      change (fold_left _ rest (fst sb1, rb_restore (snd sb1)))
        with (flush_rb_re rh rest (fst sb1, rb_restore (snd sb1))).
      set (sbL := flush_rb_re rh rest (fst sb1, rb_restore (snd sb1))).
      intros Hf Hcv.
      destruct (rect_frame_pre L C b R Hfs) as (Hpre & Hdr & Hrel & Hcells).
      destruct (do_expose_re_frame (r_tree s) R s (rect_frame b R) Hpre) as (Hfr & Hg & Hc).
      fold sb1 in Hfr, Hg, Hc.
      destruct (rect_restore L C b R _ Hfs Hfr Hg) as (Hfs' & Hc').
      destruct (trav_step0 (r_tree s) R (s, rect_frame b R) HG) as [HG1 HS1]. fold sb1 in HG1, HS1. cbn [fst] in HS1.
      destruct (flush_step0 rest (fst sb1, rb_restore (snd sb1)) HG1) as [_ HS2]. fold sbL in HS2. cbn [fst] in HS2.
      destruct (HS2 Hf Hcv) as (Hf1 & Hcv1 & Hown2).
      destruct (HS1 Hf1 Hcv1) as (_ & _ & Hown1).
      pose proof (IH (fst sb1) (rb_restore (snd sb1)) Hfs' HG1) as HI. cbv zeta in HI. fold sbL in HI.
      rewrite (HI Hf Hcv).
      unfold in_any; cbn [existsb]. fold (in_any rest q0).
      destruct (rb_full L C q0) eqn:Efull; cbn [andb].
      2:{ rewrite Hc', Hc, Hcells; [reflexivity|]. rewrite Hdr, Efull. reflexivity. }
      destruct (in_any rest q0); [rewrite orb_true_r; reflexivity|]. rewrite orb_false_r.
      rewrite Hc'. destruct (cell_inb R q0) eqn:EinR.
      + destruct (H_start s HG) as (HGd & Hpar & Hvok & HO).
        pose proof (do_expose_re_q0 (vis_now s) (f_parent s) (r_tree s) (GdT (r_tree s) (f_parent s))
                      (H_step (r_tree s) (f_parent s) (vis_now s))
                      (r_tree s) R s (rect_frame b R) Hpre Hpar HGd HO) as HP.
        cbv zeta in HP. fold sb1 in HP. rewrite Hrel in HP.
        rewrite HP.
        * rewrite (own_self (vis_now s) (r_tree s) Hvok q0). rewrite Hown2, Hown1. reflexivity.
        * intros x Hx. exact Hx.
        * rewrite Hdr, Efull, EinR. reflexivity.
        * exact Hf1.
        * exact Hcv1.
      + rewrite Hc, Hcells; [reflexivity|]. rewrite Hdr, Efull, EinR. reflexivity.
  Qed.
End trav.
