(* WinReTrav.v -- re-entering expose handlers, part 3(b): the traversal do_expose_re on the
   abstract render buffer when the handlers repaint what they are asked AND change the root
   state (in any way) behind the traversal's back.

   A. Whatever the handlers do to the state, the traversal keeps the buffer's frame, only adds
      masks, and changes no cell that was not drawable when it started (frame_at,
      do_expose_re_frame, flush_re_frame).
   B. Fix a screen cell q0 and a visibility function V.  Let St s s' say: "if s' is not faulty
      and does not cover q0, then neither is s faulty nor does it cover q0, and if s reads V on
      the windows that matter at q0 (rel_ids V T0 q0), so does s'".  If every handler call is
      such a step (from a state allowed by Gd, which it keeps), then a traversal that ends in a
      non-faulty state not covering q0 has painted q0 -- if q0 was drawable -- with what the
      owner according to V paints there (do_expose_re_q0), and the render loop leaves q0 with
      that content if q0 lies in one of the rectangles and untouched otherwise (flush_re_q0). *)
From Coq Require Import ZArith List Bool Lia ZifyBool.
From Tickit Require Import RectDefs RectProofs WinRectSet WinRectSetProofs WinDefs WinSpec
  WinExposeProofs WinFlushProofs WinLogDisjoint WinScreenInv WinLocA WinLocTree WinReDefs
  WinReProofs WinReLive.
Import ListNotations.
Local Open Scope Z_scope.

(* ------------------------------------------------------------------------------------ *)
(* small facts about frames and masks                                                    *)

Lemma mask_grows_trans b1 b2 b3 :
  same_frame b1 b2 -> mask_grows b1 b2 -> mask_grows b2 b3 -> mask_grows b1 b3.
Proof.
  intros (_ & _ & _ & _ & _ & Hd & _) H12 H23 q.
  destruct (H23 q) as [E|[E1 E2]].
  - rewrite E. apply H12.
  - destruct (H12 q) as [E'|[E1' E2']].
    + right. rewrite <- E'. split; [exact E1|]. rewrite E2, Hd. reflexivity.
    + rewrite E2' in E1. discriminate.
Qed.

Lemma mask_grows_refl b : mask_grows b b.
Proof. intros q. left. reflexivity. Qed.

Lemma nondrawable_mono b b' q :
  same_frame b b' -> mask_grows b b' -> rb_drawable b q = false -> rb_drawable b' q = false.
Proof.
  intros Hf Hg H. rewrite drawable_spec in *. rewrite (same_frame_in_clip _ _ q Hf).
  destruct (in_clip b q); [|reflexivity]. cbn [andb] in *.
  destruct (Hg q) as [E|[E1 E2]].
  - rewrite E. exact H.
  - rewrite E2. reflexivity.
Qed.

Lemma expose_kids_re_fst_inv (P : root -> Prop) rh :
  rh_keeps P rh -> forall r l sb, P (fst sb) -> P (fst (expose_kids_re rh r l sb)).
Proof.
  intros Hk r. induction l as [|c rest IH]; intros sb HP; [exact HP|].
  cbn [expose_kids_re]. destruct (negb (vis_now (fst sb) (w_id (t_info c)))); [apply IH; exact HP|].
  apply IH. cbn [fst].
  destruct (r_intersect r (w_rect (t_info c))) as [ex|]; [|exact HP].
  cbn [fst]. apply (do_expose_re_fst_inv P rh Hk). exact HP.
Qed.

Section trav.
  Variable app : Z -> Z -> Z -> Z.
  Variable rh : rhandler.
  Hypothesis Hsnd : forall id r sb, snd (rh id r sb) = paint_handler app id r (snd sb).

  (* ---------------------------------------------------------------------------------- *)
  (* A. the frame                                                                        *)

  Definition frame_at (t : wtree) : Prop :=
    forall r s b, pre b r ->
      let b' := snd (do_expose_re rh t r (s, b)) in
      same_frame b b' /\ mask_grows b b' /\
      forall q, rb_drawable b q = false -> rb_cells b' q = rb_cells b q.

  (* one visible child: expose it (if it meets the rectangle), restore, mask it *)
  Definition kid_out (c : wtree) (r : rect) (s : root) (b : rbuf) : root * rbuf :=
    let ci := t_info c in
    match r_intersect r (w_rect ci) with
    | Some ex =>
      let sb2 := do_expose_re rh c (r_translate ex (- top (w_rect ci)) (- left (w_rect ci)))
                              (s, child_frame b ex (top (w_rect ci)) (left (w_rect ci))) in
      (fst sb2, rb_restore (snd sb2))
    | None => (s, b)
    end.

  Lemma expose_kids_re_cons r c rest s b :
    expose_kids_re rh r (c :: rest) (s, b) =
    if negb (vis_now s (w_id (t_info c))) then expose_kids_re rh r rest (s, b) else
    expose_kids_re rh r rest (fst (kid_out c r s b), rb_mask_rect (snd (kid_out c r s b)) (w_rect (t_info c))).
  Proof.
    cbn [expose_kids_re fst snd]. unfold kid_out, child_frame.
    destruct (negb (vis_now s (w_id (t_info c)))); [reflexivity|].
    destruct (r_intersect r (w_rect (t_info c))); reflexivity.
  Qed.

  Lemma kid_step c r s b :
    frame_at c -> pre b r ->
    let ci := t_info c in
    let b4 := rb_mask_rect (snd (kid_out c r s b)) (w_rect ci) in
    pre b4 r /\ same_frame b b4 /\
    (forall q, rb_mask b4 q =
               match rb_mask b q with
               | Some k => Some k
               | None => if cell_inb (w_rect ci) (rel b q) && rb_inb b q then Some (rb_depth b) else None
               end) /\
    (forall q, rb_drawable b q && cell_inb (w_rect ci) (rel b q) = false -> rb_cells b4 q = rb_cells b q) /\
    (forall ex, r_intersect r (w_rect ci) = Some ex -> forall q,
       rb_cells b4 q =
       rb_cells (snd (do_expose_re rh c (r_translate ex (- top (w_rect ci)) (- left (w_rect ci)))
                                   (s, child_frame b ex (top (w_rect ci)) (left (w_rect ci))))) q).
  Proof.
    intros Hc Hpre. cbv zeta.
    set (b0 := snd (kid_out c r s b)).
    assert (H0 : same_frame b b0 /\ (forall q, rb_mask b0 q = rb_mask b q) /\
                 (forall q, rb_drawable b q && cell_inb (w_rect (t_info c)) (rel b q) = false ->
                            rb_cells b0 q = rb_cells b q) /\
                 (forall ex, r_intersect r (w_rect (t_info c)) = Some ex -> forall q,
                    rb_cells b0 q =
                    rb_cells (snd (do_expose_re rh c (r_translate ex (- top (w_rect (t_info c))) (- left (w_rect (t_info c))))
                                   (s, child_frame b ex (top (w_rect (t_info c))) (left (w_rect (t_info c)))))) q)).
    { subst b0. unfold kid_out. destruct (r_intersect r (w_rect (t_info c))) as [ex|] eqn:Hex; cbn [snd fst].
      - pose proof (child_pre b r c Hpre ex Hex) as Hp1.
        destruct (Hc _ s _ Hp1) as (Hf2 & Hg2 & Hc2).
        destruct (restore_child b ex _ _ _ Hf2) as (Hf3 & Hc3 & _).
        split; [exact Hf3|]. split; [apply (child_restore_mask b r c Hpre ex _ Hf2 Hg2)|]. split.
        + intros q Hq. rewrite Hc3, Hc2.
          * destruct (child_frame_fields b ex (top (w_rect (t_info c))) (left (w_rect (t_info c)))) as (_ & _ & -> & _).
            reflexivity.
          * rewrite (child_drawable b r c Hpre ex q Hex). exact Hq.
        + intros ex' Hex' q. injection Hex' as <-. rewrite Hc3. reflexivity.
      - split; [apply same_frame_refl|]. split; [reflexivity|]. split; [reflexivity|].
        intros ex' Hex'. discriminate. }
    destruct H0 as (Hf0 & Hm0 & Hc0 & Hx0).
    destruct (mask_rect_fields b0 (w_rect (t_info c))) as (Hf4 & Hc4 & Hm4).
    set (b4 := rb_mask_rect b0 (w_rect (t_info c))) in *.
    assert (Hf04 : same_frame b b4) by (eapply same_frame_trans; eassumption).
    assert (Hmask : forall q, rb_mask b4 q =
               match rb_mask b q with
               | Some k => Some k
               | None => if cell_inb (w_rect (t_info c)) (rel b q) && rb_inb b q then Some (rb_depth b) else None
               end).
    { intros q. rewrite Hm4, Hm0, (same_frame_rel _ _ q Hf0), (same_frame_inb _ _ q Hf0).
      destruct Hf0 as (_ & _ & _ & _ & _ & Hd0 & _). rewrite Hd0. reflexivity. }
    split; [|split; [exact Hf04|split; [exact Hmask|split]]].
    - destruct Hpre as (Hok & Hci & Hw). split; [|split].
      + intros q k Hk. rewrite Hmask in Hk.
        destruct Hf04 as (_ & _ & _ & _ & _ & Hd & _). rewrite Hd.
        destruct (rb_mask b q) as [k'|] eqn:Ek.
        * injection Hk as <-. apply (Hok q k' Ek).
        * destruct (cell_inb (w_rect (t_info c)) (rel b q) && rb_inb b q); [|discriminate].
          injection Hk as <-. lia.
      + intros q Hq. rewrite (same_frame_in_clip _ _ q Hf04) in Hq.
        rewrite (same_frame_inb _ _ q Hf04). apply Hci; exact Hq.
      + intros q Hq. rewrite (same_frame_rel _ _ q Hf04). apply Hw.
        rewrite drawable_spec in Hq |- *. rewrite (same_frame_in_clip _ _ q Hf04) in Hq.
        apply andb_true_iff in Hq. destruct Hq as [Hq1 Hq2]. rewrite Hq1. cbn [andb].
        rewrite Hmask in Hq2. destruct (rb_mask b q); [discriminate|reflexivity].
    - intros q Hq. rewrite Hc4. apply Hc0. exact Hq.
    - intros ex Hex q. rewrite Hc4. apply Hx0. exact Hex.
  Qed.

  Lemma kids_frame r l :
    Forall frame_at l -> forall s b, pre b r ->
      let b' := snd (expose_kids_re rh r l (s, b)) in
      pre b' r /\ same_frame b b' /\ mask_grows b b' /\
      forall q, rb_drawable b q = false -> rb_cells b' q = rb_cells b q.
  Proof.
    induction 1 as [|c rest Hc _ IH]; intros s b Hpre.
    - cbn [expose_kids_re snd]. split; [exact Hpre|]. split; [apply same_frame_refl|].
      split; [apply mask_grows_refl|]. reflexivity.
    - rewrite expose_kids_re_cons.
      destruct (negb (vis_now s (w_id (t_info c)))); [apply IH; exact Hpre|].
      destruct (kid_step c r s b Hc Hpre) as (Hp4 & Hf4 & Hm4 & Hc4 & _).
      set (b4 := rb_mask_rect (snd (kid_out c r s b)) (w_rect (t_info c))) in *.
      assert (Hg4 : mask_grows b b4).
      { intros q. rewrite Hm4. destruct (rb_mask b q); [left; reflexivity|].
        destruct (cell_inb (w_rect (t_info c)) (rel b q) && rb_inb b q);
          [right; split; reflexivity|left; reflexivity]. }
      destruct (IH (fst (kid_out c r s b)) b4 Hp4) as (Hp5 & Hf5 & Hg5 & Hc5).
      split; [exact Hp5|]. split; [eapply same_frame_trans; eassumption|].
      split; [apply (mask_grows_trans b b4 _ Hf4 Hg4 Hg5)|].
      intros q Hq. rewrite Hc5.
      + apply Hc4. rewrite Hq. reflexivity.
      + apply (nondrawable_mono b b4 q Hf4 Hg4 Hq).
  Qed.

  Theorem do_expose_re_frame : forall t, frame_at t.
  Proof.
    apply (wtree_ind2 frame_at). intros i ch Hch r s b Hpre. cbv zeta.
    rewrite do_expose_re_unfold, Hsnd.
    destruct (kids_frame r ch Hch s b Hpre) as (Hp1 & Hf1 & Hg1 & Hc1).
    set (b1 := snd (expose_kids_re rh r ch (s, b))) in *.
    destruct (paint_handler_fields app (w_id i) r b1) as (Hf2 & Hm2 & Hc2).
    split; [eapply same_frame_trans; eassumption|]. split.
    - intros q. rewrite Hm2. apply Hg1.
    - intros q Hq. rewrite Hc2, (nondrawable_mono b b1 q Hf1 Hg1 Hq). cbn [andb]. apply Hc1. exact Hq.
  Qed.

  (* the render loop *)
  Lemma flush_re_frame L C : forall rects s b, flush_state L C b ->
    let b' := snd (flush_rb_re rh rects (s, b)) in
    flush_state L C b' /\
    forall q, rb_full L C q && in_any rects q = false -> rb_cells b' q = rb_cells b q.
  Proof.
    unfold flush_rb_re. induction rects as [|R rest IH]; intros s b Hfs; cbn [fold_left fst snd].
    - split; [exact Hfs|]. reflexivity.
    - destruct (rect_frame_pre L C b R Hfs) as (Hpre & Hdr & Hrel & Hcells).
      fold (rect_frame b R).
      destruct (do_expose_re_frame (r_tree s) R s (rect_frame b R) Hpre) as (Hf & Hg & Hc).
      destruct (rect_restore L C b R _ Hfs Hf Hg) as (Hfs' & Hc').
      destruct (IH (fst (do_expose_re rh (r_tree s) R (s, rect_frame b R))) _ Hfs') as (Hfs'' & Hc'').
      split; [exact Hfs''|]. intros q Hq.
      unfold in_any in Hq; cbn [existsb] in Hq. fold (in_any rest q) in Hq.
      rewrite Hc''.
      + rewrite Hc', Hc, Hcells; [reflexivity|]. rewrite Hdr.
        destruct (rb_full L C q); [|reflexivity]. cbn [andb] in *. apply orb_false_iff in Hq. tauto.
      + destruct (rb_full L C q); [|reflexivity]. cbn [andb] in *. apply orb_false_iff in Hq. tauto.
  Qed.

  (* ---------------------------------------------------------------------------------- *)
  (* B. one cell                                                                         *)

  Variable q0 : cell.
  Variable V : Z -> bool.
  Variable T0 : wtree.
  Variable Gd : root -> Prop.

  Definition RelSet : list Z := rel_ids V T0 q0.
  Definition cov0 (s : root) : Prop := covered (r_damage s) q0.
  Definition OKs (s : root) : Prop := forall x, In x RelSet -> vis_now s x = V x.
  Definition St (s s' : root) : Prop :=
    r_fault s' = false -> ~ cov0 s' -> r_fault s = false /\ ~ cov0 s /\ (OKs s -> OKs s').

  Hypothesis Gd_skel : forall s, Gd s -> skel (r_tree s) = skel T0.
  Hypothesis Hstep : forall id r sb, Gd (fst sb) -> Gd (fst (rh id r sb)) /\ St (fst sb) (fst (rh id r sb)).

  Lemma St_refl s : St s s.
  Proof. intros Hf Hc. tauto. Qed.

  Lemma St_trans a b c : St a b -> St b c -> St a c.
  Proof.
    intros Hab Hbc Hf Hc. destruct (Hbc Hf Hc) as (Hfb & Hcb & Hob).
    destruct (Hab Hfb Hcb) as (Hfa & Hca & Hoa). tauto.
  Qed.

  Lemma rh_keeps_step s0 : rh_keeps (fun x => Gd x /\ St s0 x) rh.
  Proof.
    intros id r sb [HG HS]. destruct (Hstep id r sb HG) as [HG' HS'].
    split; [exact HG'|]. eapply St_trans; eassumption.
  Qed.

  Lemma trav_step t r sb :
    Gd (fst sb) -> Gd (fst (do_expose_re rh t r sb)) /\ St (fst sb) (fst (do_expose_re rh t r sb)).
  Proof.
    intros HG. apply (do_expose_re_fst_inv (fun x => Gd x /\ St (fst sb) x) rh (rh_keeps_step (fst sb))).
    split; [exact HG|apply St_refl].
  Qed.

  Lemma kids_step r l sb :
    Gd (fst sb) -> Gd (fst (expose_kids_re rh r l sb)) /\ St (fst sb) (fst (expose_kids_re rh r l sb)).
  Proof.
    intros HG. apply (expose_kids_re_fst_inv (fun x => Gd x /\ St (fst sb) x) rh (rh_keeps_step (fst sb))).
    split; [exact HG|apply St_refl].
  Qed.

  Lemma flush_step rects sb :
    Gd (fst sb) -> Gd (fst (flush_rb_re rh rects sb)) /\ St (fst sb) (fst (flush_rb_re rh rects sb)).
  Proof.
    intros HG. apply (flush_rb_re_fst_inv (fun x => Gd x /\ St (fst sb) x) rh (rh_keeps_step (fst sb))).
    split; [exact HG|apply St_refl].
  Qed.

  Lemma kid_out_step c r s b : Gd s -> Gd (fst (kid_out c r s b)) /\ St s (fst (kid_out c r s b)).
  Proof.
    intros HG. unfold kid_out. destruct (r_intersect r (w_rect (t_info c))) as [ex|]; cbn [fst].
    - apply (trav_step c _ (s, _)). exact HG.
    - split; [exact HG|apply St_refl].
  Qed.

  Definition paints_q0 (t : wtree) : Prop :=
    forall r s b, pre b r -> Gd s -> OKs s ->
      (forall x, In x (rel_ids V t (rel b q0)) -> In x RelSet) ->
      rb_drawable b q0 = true ->
      let sb' := do_expose_re rh t r (s, b) in
      r_fault (fst sb') = false -> ~ cov0 (fst sb') ->
      rb_cells (snd sb') q0 = paint_val app (own V t (rel b q0)).

  Lemma kids_q0 r l :
    Forall paints_q0 l -> forall s b, pre b r -> Gd s -> OKs s ->
      (forall x, In x (rel_kids V l (rel b q0)) -> In x RelSet) ->
      rb_drawable b q0 = true ->
      let sb' := expose_kids_re rh r l (s, b) in
      r_fault (fst sb') = false -> ~ cov0 (fst sb') ->
      match first_own V l (rel b q0) with
      | Some x => rb_cells (snd sb') q0 = paint_val app x /\ rb_drawable (snd sb') q0 = false
      | None => rb_drawable (snd sb') q0 = true
      end.
  Proof.
    induction 1 as [|c rest Hc Hrest IH]; intros s b Hpre HG HO Hrel Hd.
    - cbn [expose_kids_re first_own snd]. intros _ _. exact Hd.
    - cbv zeta. rewrite expose_kids_re_cons. cbn [first_own].
      assert (Hrel' : forall x, In x (rel_kids V rest (rel b q0)) -> In x RelSet).
      { intros x Hx. apply Hrel. apply rel_kids_tail. exact Hx. }
      destruct (cell_inb (w_rect (t_info c)) (rel b q0)) eqn:Hin.
      + (* the child's rectangle contains q0: its flag matters, and the state reads V there *)
        destruct (rel_kids_in V (c :: rest) c (rel b q0) (or_introl eq_refl) Hin) as [Hidc Hsubc].
        assert (Ev : vis_now s (w_id (t_info c)) = V (w_id (t_info c))).
        { apply HO. apply Hrel. exact Hidc. }
        rewrite Ev. destruct (V (w_id (t_info c))) eqn:Hv; cbn [negb andb].
        2:{ apply (IH s b Hpre HG HO Hrel' Hd). }
        set (o := kid_out c r s b).
        set (b4 := rb_mask_rect (snd o) (w_rect (t_info c))).
        intros Hf Hcv.
        destruct (kid_out_step c r s b HG) as [HG1 HS1]. fold o in HG1, HS1.
        destruct (kids_step r rest (fst o, b4) HG1) as [_ HS2]. cbn [fst] in HS2.
        destruct (HS2 Hf Hcv) as (Hf1 & Hcv1 & _).
        destruct (kid_step c r s b (do_expose_re_frame c) Hpre) as (Hp4 & Hf4 & Hm4 & _ & Hx4).
        fold o b4 in Hp4, Hf4, Hm4, Hx4.
        destruct (r_intersect r (w_rect (t_info c))) as [ex|] eqn:Hex.
        2:{ pose proof (child_none_drawable b r c Hpre q0 Hex) as Hn. rewrite Hd, Hin in Hn. discriminate. }
        (* the child paints q0 *)
        assert (Hcell : rb_cells b4 q0 =
                        paint_val app (own V c (fst (rel b q0) - top (w_rect (t_info c)),
                                                snd (rel b q0) - left (w_rect (t_info c))))).
        { rewrite (Hx4 ex eq_refl q0).
          assert (Eo : fst o = fst (do_expose_re rh c (r_translate ex (- top (w_rect (t_info c))) (- left (w_rect (t_info c))))
                                     (s, child_frame b ex (top (w_rect (t_info c))) (left (w_rect (t_info c)))))).
          { subst o. unfold kid_out. rewrite Hex. reflexivity. }
          rewrite <- (child_rel b c ex q0).
          apply (Hc _ s _ (child_pre b r c Hpre ex Hex) HG HO).
          - intros x Hx. rewrite (child_rel b c ex q0) in Hx. apply Hrel. apply Hsubc; [exact Hv|exact Hx].
          - rewrite (child_drawable b r c Hpre ex q0 Hex), Hd, Hin. reflexivity.
          - rewrite <- Eo. exact Hf1.
          - rewrite <- Eo. exact Hcv1. }
        assert (Hnd4 : rb_drawable b4 q0 = false).
        { rewrite drawable_spec, Hm4. rewrite (drawable_mask_none b q0 Hd), Hin.
          destruct Hpre as (_ & Hci & _). rewrite (Hci q0 (drawable_in_clip b q0 Hd)). cbn [andb].
          apply andb_false_r. }
        destruct (kids_frame r rest (Forall_impl _ (fun t _ => do_expose_re_frame t) Hrest) (fst o) b4 Hp4)
          as (_ & Hf5 & Hg5 & Hc5).
        split.
        * rewrite (Hc5 q0 Hnd4). exact Hcell.
        * apply (nondrawable_mono b4 _ q0 Hf5 Hg5 Hnd4).
      + (* q0 lies outside the child: whatever happens there leaves q0 alone *)
        rewrite andb_false_r.
        destruct (negb (vis_now s (w_id (t_info c)))); [apply (IH s b Hpre HG HO Hrel' Hd)|].
        set (o := kid_out c r s b).
        set (b4 := rb_mask_rect (snd o) (w_rect (t_info c))).
        intros Hf Hcv.
        destruct (kid_out_step c r s b HG) as [HG1 HS1]. fold o in HG1, HS1.
        destruct (kids_step r rest (fst o, b4) HG1) as [_ HS2]. cbn [fst] in HS2.
        destruct (HS2 Hf Hcv) as (Hf1 & Hcv1 & _).
        destruct (HS1 Hf1 Hcv1) as (_ & _ & HO1).
        destruct (kid_step c r s b (do_expose_re_frame c) Hpre) as (Hp4 & Hf4 & Hm4 & _ & _).
        fold o b4 in Hp4, Hf4, Hm4.
        assert (Hd4 : rb_drawable b4 q0 = true).
        { rewrite drawable_spec, (same_frame_in_clip _ _ q0 Hf4), Hm4.
          rewrite (drawable_in_clip b q0 Hd), (drawable_mask_none b q0 Hd), Hin. reflexivity. }
        pose proof (IH (fst o) b4 Hp4 HG1 (HO1 HO)) as HI. cbv zeta in HI.
        rewrite (same_frame_rel _ _ q0 Hf4) in HI. apply (HI Hrel' Hd4 Hf Hcv).
  Qed.

  Theorem do_expose_re_q0 : forall t, paints_q0 t.
  Proof.
    apply (wtree_ind2 paints_q0). intros i ch Hch r s b Hpre HG HO Hrel Hd. cbv zeta.
    rewrite do_expose_re_unfold. intros Hf Hcv.
    set (sbk := expose_kids_re rh r ch (s, b)) in *.
    destruct (kids_step r ch (s, b) HG) as [HGk _]. fold sbk in HGk.
    destruct (Hstep (w_id i) r sbk HGk) as [_ HSh].
    destruct (HSh Hf Hcv) as (Hfk & Hcvk & _).
    rewrite rel_ids_unfold in Hrel.
    pose proof (kids_q0 r ch Hch s b Hpre HG HO Hrel Hd) as HK. cbv zeta in HK. fold sbk in HK.
    specialize (HK Hfk Hcvk).
    destruct (kids_frame r ch (Forall_impl _ (fun t _ => do_expose_re_frame t) Hch) s b Hpre) as (_ & Hf1 & _ & _).
    fold sbk in Hf1.
    rewrite Hsnd. destruct (paint_handler_fields app (w_id i) r (snd sbk)) as (_ & _ & Hc2).
    rewrite Hc2, own_unfold.
    destruct (first_own V ch (rel b q0)) as [x|].
    - destruct HK as [E1 E2]. rewrite E2. cbn [andb]. exact E1.
    - rewrite HK, (same_frame_rel _ _ q0 Hf1). cbn [andb].
      destruct Hpre as (_ & _ & Hw). specialize (Hw q0 Hd). apply cell_inb_iff in Hw. rewrite Hw.
      reflexivity.
  Qed.

  (* the render loop *)
  Theorem flush_re_q0 L C : forall rects s b, flush_state L C b -> Gd s -> OKs s ->
    let sb' := flush_rb_re rh rects (s, b) in
    r_fault (fst sb') = false -> ~ cov0 (fst sb') ->
    rb_cells (snd sb') q0 =
    if rb_full L C q0 && in_any rects q0 then paint_val app (own V T0 q0) else rb_cells b q0.
  Proof.
    induction rects as [|R rest IH]; intros s b Hfs HG HO.
    - cbv zeta. unfold flush_rb_re, in_any. cbn [fold_left fst snd existsb]. intros _ _.
      rewrite andb_false_r. reflexivity.
    - cbv zeta. unfold flush_rb_re. cbn [fold_left fst snd]. fold (rect_frame b R).
      set (sb1 := do_expose_re rh (r_tree s) R (s, rect_frame b R)).
      change (fold_left _ rest (fst sb1, rb_restore (snd sb1)))
        with (flush_rb_re rh rest (fst sb1, rb_restore (snd sb1))).
      intros Hf Hcv.
      destruct (rect_frame_pre L C b R Hfs) as (Hpre & Hdr & Hrel & Hcells).
      destruct (do_expose_re_frame (r_tree s) R s (rect_frame b R) Hpre) as (Hfr & Hg & Hc).
      fold sb1 in Hfr, Hg, Hc.
      destruct (rect_restore L C b R _ Hfs Hfr Hg) as (Hfs' & Hc').
      destruct (trav_step (r_tree s) R (s, rect_frame b R) HG) as [HG1 HS1]. fold sb1 in HG1, HS1. cbn [fst] in HS1.
      destruct (flush_step rest (fst sb1, rb_restore (snd sb1)) HG1) as [_ HS2]. cbn [fst] in HS2.
      destruct (HS2 Hf Hcv) as (Hf1 & Hcv1 & _).
      destruct (HS1 Hf1 Hcv1) as (_ & _ & HO1).
      rewrite (IH (fst sb1) (rb_restore (snd sb1)) Hfs' HG1 (HO1 HO) Hf Hcv).
      unfold in_any; cbn [existsb]. fold (in_any rest q0).
      destruct (rb_full L C q0) eqn:Efull; cbn [andb].
      2:{ rewrite Hc', Hc, Hcells; [reflexivity|]. rewrite Hdr, Efull. reflexivity. }
      destruct (in_any rest q0); [rewrite orb_true_r; reflexivity|]. rewrite orb_false_r.
      rewrite Hc'. destruct (cell_inb R q0) eqn:EinR.
      + pose proof (do_expose_re_q0 (r_tree s) R s (rect_frame b R) Hpre HG HO) as HP. cbv zeta in HP.
        fold sb1 in HP. rewrite Hrel in HP.
        rewrite HP.
        * rewrite (own_skel V T0 (r_tree s) q0 (Gd_skel s HG)). reflexivity.
        * intros x Hx. unfold RelSet. rewrite <- (rel_ids_skel V T0 (r_tree s) q0 (Gd_skel s HG)). exact Hx.
        * rewrite Hdr, Efull, EinR. reflexivity.
        * exact Hf1.
        * exact Hcv1.
      + rewrite Hc, Hcells; [reflexivity|]. rewrite Hdr, Efull, EinR. reflexivity.
  Qed.
End trav.
