(* XTI -- BEYOND THE GIVEN PROPERTIES: src/termdriver-ti.c is not an anchor of C09 / C10 / C12.  This file
   states, for the model of the terminfo driver over an abstract terminfo entry (TiDefs.v) and the assumed
   meaning of the capabilities its chpen uses (TiSpec.v), the analogue of C10: the terminal's rendition
   after every set-pen / change-pen is the cached pen, as far as terminfo can express it -- and that this
   fails for italics. *)
From Coq Require Import ZArith List Bool.
From Tickit Require Import Csi VT TermPenDefs TermPenSpec XtermDefs TiDefs TiSpec TiProofs.
Import ListNotations.
Local Open Scope Z_scope.

Theorem XTI_chpen_shows : forall e delta final s,
  ti_shows (e_colours e) final (ti_sgr_run (ti_chpen e delta final) s) /\
  a_italic (ti_sgr_run (ti_chpen e delta final) s) =
    (has_attr delta AItalic && e_sitm e && get_bool_attr delta AItalic).
Proof. exact ti_chpen_shows. Qed.
Print Assumptions XTI_chpen_shows.

Theorem XTI_pen_op_shows : forall (is_set : bool) t l p s,
  0 <= e_colours (tt_ent t) -> pen_in_range l -> pen_in_range p ->
  (forall a, tt_pen t a = cache_of (e_colours (tt_ent t)) l a) ->
  let l' := if is_set then logical_set l p else logical_ch l p in
  exists t' ts, ti_do_pen is_set t p = Some (t', ts) /\
    (forall a, tt_pen t' a = cache_of (e_colours (tt_ent t)) l' a) /\
    ti_shows (e_colours (tt_ent t)) (tt_pen t') (ti_sgr_run ts s).
Proof. exact ti_pen_op_shows. Qed.
Print Assumptions XTI_pen_op_shows.

(* FULL statement (false): ... /\ a_italic (rendition) = get_bool_attr (cached pen) AItalic *)
Theorem XTI_italic_refuted :
  let e := mkTient true true true true true true true true true true true true true true 8 in
  let t0 := mkTiterm e timode_new empty_pen 25 80 true in
  let p1 := pset empty_pen AItalic (Some (VBool true)) in
  let p2 := pset empty_pen ABold (Some (VBool true)) in
  exists t1 ts1 t2 ts2,
    ti_do_pen false t0 p1 = Some (t1, ts1) /\ ti_do_pen false t1 p2 = Some (t2, ts2) /\
    get_bool_attr (tt_pen t2) AItalic = true /\
    a_italic (ti_sgr_run ts2 (ti_sgr_run ts1 default_attrs)) = false.
Proof. exact ti_italic_refuted. Qed.
Print Assumptions XTI_italic_refuted.

Example XTI_nonvacuous :
  let e := mkTient true true true true true true true true true true true true true true 8 in
  ti_sgr_run (ti_chpen e empty_pen (pset (pset empty_pen ABold (Some (VBool true))) AFg (Some (VCol 3 None))))
             default_attrs
  = set_fg (set_bold default_attrs true) (CIdx 3).
Proof. vm_compute. reflexivity. Qed.
