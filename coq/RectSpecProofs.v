(* RectSpecProofs.v -- soundness of the executable oracle RectSpec.v: a [true] verdict of the
   coordinate-compressed checker implies the cell-wise specification for ALL cells. *)
From Coq Require Import ZArith List Bool Lia ZifyBool.
From Tickit Require Import RectDefs RectSpec RectProofs.
Import ListNotations.
Local Open Scope Z_scope.

(* greatest element of l that is <= y *)
Fixpoint floor_in (l : list Z) (y : Z) : option Z :=
  match l with
  | [] => None
  | e :: rest =>
      match floor_in rest y with
      | Some m => if (e <=? y) && (m <? e) then Some e else Some m
      | None => if e <=? y then Some e else None
      end
  end.

Lemma floor_some l y m : floor_in l y = Some m ->
  In m l /\ m <= y /\ forall e, In e l -> e <= y -> e <= m.
Proof.
  revert m; induction l as [|e rest IH]; cbn [floor_in]; intros m H; [discriminate|].
  destruct (floor_in rest y) as [m'|] eqn:E.
  - destruct (IH m' eq_refl) as [Hin [Hle Hmax]].
    destruct ((e <=? y) && (m' <? e)) eqn:C; injection H as <-.
    + split; [left; reflexivity|]. split; [lia|].
      intros e' [<-|Hin'] Hy; [lia|]. specialize (Hmax e' Hin' Hy). lia.
    + split; [right; exact Hin|]. split; [exact Hle|].
      intros e' [<-|Hin'] Hy; [lia|]. apply Hmax; assumption.
  - destruct (e <=? y) eqn:C; [|discriminate]. injection H as <-.
    split; [left; reflexivity|]. split; [lia|].
    intros e' [<-|Hin'] Hy; [lia|]. exfalso.
    clear IH. revert E Hin' Hy. clear. induction rest as [|a rest IH]; cbn [floor_in]; [intros _ []|].
    destruct (floor_in rest y) as [m'|] eqn:E.
    + destruct ((a <=? y) && (m' <? a)); discriminate.
    + destruct (a <=? y) eqn:C; [discriminate|]. intros _ [<-|Hin] Hy; [lia|]. apply IH; auto.
Qed.

Lemma floor_none l y : floor_in l y = None -> forall e, In e l -> y < e.
Proof.
  induction l as [|a rest IH]; cbn [floor_in]; [intros _ e []|].
  destruct (floor_in rest y) as [m'|] eqn:E.
  - destruct ((a <=? y) && (m' <? a)); discriminate.
  - destruct (a <=? y) eqn:C; [discriminate|]. intros _ e [<-|Hin]; [lia|]. apply IH; auto.
Qed.

Lemma in_yedges L r : In r L -> In (top r) (yedges L) /\ In (bottom r) (yedges L).
Proof.
  intros H; unfold yedges; split; apply in_flat_map; exists r; (split; [exact H|]); simpl; auto.
Qed.

Lemma in_xedges L r : In r L -> In (left r) (xedges L) /\ In (right r) (xedges L).
Proof.
  intros H; unfold xedges; split; apply in_flat_map; exists r; (split; [exact H|]); simpl; auto.
Qed.

Lemma in_rep_cells L y x : In y (yedges L) -> In x (xedges L) -> In (y, x) (rep_cells L).
Proof.
  intros Hy Hx. unfold rep_cells. apply in_flat_map. exists y; split; [exact Hy|].
  apply in_map_iff. exists x; auto.
Qed.

(* the representative of a cell, when it has one *)
Definition rep (L : list rect) (p : cell) : option cell :=
  match floor_in (yedges L) (fst p), floor_in (xedges L) (snd p) with
  | Some y, Some x => Some (y, x)
  | _, _ => None
  end.

Lemma rep_some L p q : rep L p = Some q ->
  In q (rep_cells L) /\ forall r, In r L -> cell_inb r p = cell_inb r q.
Proof.
  unfold rep. destruct p as [y x]; cbn [fst snd].
  destruct (floor_in (yedges L) y) as [y'|] eqn:Ey; [|discriminate].
  destruct (floor_in (xedges L) x) as [x'|] eqn:Ex; [|discriminate].
  intros [= <-].
  destruct (floor_some _ _ _ Ey) as [Hiy [Hly Hmy]].
  destruct (floor_some _ _ _ Ex) as [Hix [Hlx Hmx]].
  split; [apply in_rep_cells; assumption|].
  intros r Hr. destruct (in_yedges L r Hr) as [Ht Hb]. destruct (in_xedges L r Hr) as [Hl Hrr].
  pose proof (Hmy _ Ht) as A1. pose proof (Hmy _ Hb) as A2.
  pose proof (Hmx _ Hl) as A3. pose proof (Hmx _ Hrr) as A4.
  unfold cell_inb; cbn [fst snd]. lia.
Qed.

Lemma rep_none L p : rep L p = None -> forall r, In r L -> cell_inb r p = false.
Proof.
  unfold rep. destruct p as [y x]; cbn [fst snd].
  intros H r Hr. destruct (in_yedges L r Hr) as [Ht _]. destruct (in_xedges L r Hr) as [Hl _].
  unfold cell_inb; cbn [fst snd].
  destruct (floor_in (yedges L) y) as [y'|] eqn:Ey.
  - destruct (floor_in (xedges L) x) as [x'|] eqn:Ex; [discriminate|].
    pose proof (floor_none _ _ Ex _ Hl). lia.
  - pose proof (floor_none _ _ Ey _ Ht). lia.
Qed.

Lemma filter_ext_in' (f g : rect -> bool) l : (forall r, In r l -> f r = g r) -> filter f l = filter g l.
Proof.
  induction l as [|a l IH]; intros H; [reflexivity|]. cbn [filter].
  rewrite (H a (or_introl eq_refl)), IH; [reflexivity|]. intros r Hr; apply H; right; exact Hr.
Qed.

Lemma existsb_ext_in (f g : rect -> bool) l : (forall r, In r l -> f r = g r) -> existsb f l = existsb g l.
Proof.
  induction l as [|a l IH]; intros H; [reflexivity|]. cbn [existsb].
  rewrite (H a (or_introl eq_refl)), IH; [reflexivity|]. intros r Hr; apply H; right; exact Hr.
Qed.

(* two different positions of s that both contain p make the count at least 2 *)
Lemma count_cover_pair s1 a s2 b s3 p :
  cell_inb a p = true -> cell_inb b p = true ->
  (2 <= count_cover (s1 ++ a :: s2 ++ b :: s3) p)%nat.
Proof.
  intros Ha Hb. unfold count_cover.
  rewrite filter_app, app_length. cbn [filter]. rewrite Ha. cbn [length].
  rewrite filter_app, app_length. cbn [filter]. rewrite Hb. cbn [length]. lia.
Qed.

Section Region.
Variables (inputs s : list rect) (want : cell -> bool).
Let L := inputs ++ s.

(* [want] depends on a cell only through its membership in the input rectangles *)
Hypothesis want_ext : forall p q, (forall r, In r inputs -> cell_inb r p = cell_inb r q) -> want p = want q.
Hypothesis want_out : forall p, (forall r, In r inputs -> cell_inb r p = false) -> want p = false.
Hypothesis Hcheck : region_checkb inputs s want = true.

Lemma region_nonempty : all_nonempty s.
Proof.
  unfold region_checkb in Hcheck. apply andb_true_iff in Hcheck as [H1 _].
  unfold all_nonempty. apply Forall_forall. intros r Hr.
  rewrite forallb_forall in H1. apply nonemptyb_iff, H1, Hr.
Qed.

Lemma region_at_rep q : In q (rep_cells L) ->
  (count_cover s q <= 1)%nat /\ coveredb s q = want q.
Proof.
  intros Hq. unfold region_checkb in Hcheck. apply andb_true_iff in Hcheck as [_ H2].
  rewrite forallb_forall in H2. specialize (H2 q Hq).
  apply andb_true_iff in H2 as [A B]. split; [apply Nat.leb_le, A|apply eqb_prop, B].
Qed.

Lemma region_cover p : coveredb s p = want p.
Proof.
  destruct (rep L p) as [q|] eqn:E.
  - destruct (rep_some _ _ _ E) as [Hq Hsame].
    destruct (region_at_rep q Hq) as [_ Hc].
    rewrite (want_ext p q); [|intros r Hr; apply Hsame, in_or_app; left; exact Hr].
    rewrite <- Hc. unfold coveredb. apply existsb_ext_in.
    intros r Hr; apply Hsame, in_or_app; right; exact Hr.
  - pose proof (rep_none _ _ E) as Hn.
    rewrite want_out; [|intros r Hr; apply Hn, in_or_app; left; exact Hr].
    unfold coveredb. destruct (existsb (fun r => cell_inb r p) s) eqn:X; [|reflexivity].
    apply existsb_exists in X as [r [Hr Hc]]. rewrite Hn in Hc; [discriminate|apply in_or_app; right; exact Hr].
Qed.

Lemma region_count p : (count_cover s p <= 1)%nat.
Proof.
  destruct (rep L p) as [q|] eqn:E.
  - destruct (rep_some _ _ _ E) as [Hq Hsame].
    destruct (region_at_rep q Hq) as [Hc _].
    unfold count_cover in *. rewrite (filter_ext_in' _ (fun r => cell_inb r q)); [exact Hc|].
    intros r Hr; apply Hsame, in_or_app; right; exact Hr.
  - pose proof (rep_none _ _ E) as Hn. unfold count_cover.
    rewrite (filter_ext_in' _ (fun _ => false)).
    + clear. induction s; simpl; auto.
    + intros r Hr; apply Hn, in_or_app; right; exact Hr.
Qed.

Lemma region_disjoint : pairwise_disjoint s.
Proof.
  assert (H : forall s1 s2, s = s1 ++ s2 -> pairwise_disjoint s2).
  { intros s1 s2; revert s1; induction s2 as [|a s2 IH]; intros s1 Hs; cbn [pairwise_disjoint]; [exact I|].
    split.
    - apply Forall_forall. intros b Hb p [Ha Hbp].
      apply in_split in Hb as [m1 [m2 ->]].
      pose proof (region_count p) as Hc. rewrite Hs in Hc.
      pose proof (count_cover_pair s1 a m1 b m2 p) as H2.
      apply cell_inb_iff in Ha, Hbp. specialize (H2 Ha Hbp). lia.
    - apply (IH (s1 ++ [a])). rewrite <- app_assoc. exact Hs. }
  apply (H [] s eq_refl).
Qed.

End Region.

(* ---- the three list-valued checkers are sound ---- *)

Theorem add_checkb_sound a b s : add_checkb a b s = true -> add_spec a b s.
Proof.
  unfold add_checkb. intros H. apply andb_true_iff in H as [Hlen Hreg].
  assert (Hext : forall p q, (forall r, In r [a; b] -> cell_inb r p = cell_inb r q) ->
                 cell_inb a p || cell_inb b p = cell_inb a q || cell_inb b q).
  { intros p q Hs. rewrite (Hs a), (Hs b); simpl; auto. }
  assert (Hout : forall p, (forall r, In r [a; b] -> cell_inb r p = false) -> cell_inb a p || cell_inb b p = false).
  { intros p Hs. rewrite (Hs a), (Hs b); simpl; auto. }
  unfold add_spec. split; [apply Nat.leb_le, Hlen|]. split; [eapply region_nonempty; eassumption|].
  split; [eapply region_disjoint; eassumption|].
  intros p. rewrite <- coveredb_iff, (region_cover _ _ _ Hext Hout Hreg), orb_true_iff, !cell_inb_iff. tauto.
Qed.

Theorem subtract_checkb_sound a b s : subtract_checkb a b s = true -> subtract_spec a b s.
Proof.
  unfold subtract_checkb. intros H. apply andb_true_iff in H as [Hlen Hreg].
  assert (Hext : forall p q, (forall r, In r [a; b] -> cell_inb r p = cell_inb r q) ->
                 cell_inb a p && negb (cell_inb b p) = cell_inb a q && negb (cell_inb b q)).
  { intros p q Hs. rewrite (Hs a), (Hs b); simpl; auto. }
  assert (Hout : forall p, (forall r, In r [a; b] -> cell_inb r p = false) -> cell_inb a p && negb (cell_inb b p) = false).
  { intros p Hs. rewrite (Hs a); simpl; auto. }
  unfold subtract_spec. split; [apply Nat.leb_le, Hlen|]. split; [eapply region_nonempty; eassumption|].
  split; [eapply region_disjoint; eassumption|].
  intros p. rewrite <- coveredb_iff, (region_cover _ _ _ Hext Hout Hreg), andb_true_iff, negb_true_iff.
  rewrite <- !cell_inb_iff. destruct (cell_inb b p); intuition congruence.
Qed.
