(* Property C20: decoded input events do not depend on how the byte stream is fragmented.
   This file contains nothing but the property theorems, each closed by [exact <lemma>] and
   followed by Print Assumptions.

   What is theorem and what is hypothesis.  libtermkey is not verified; it appears as an
   arbitrary function [tok] of which the theorems assume exactly
     tok_stable : a key found in a buffer is found, with the same length, in every extension;
     tok_len    : a key consumes at least one and at most the buffered bytes;
     (for the bounded buffer) an unfinished sequence never fills the buffer, and "none"
     means the buffer is empty;
   "nothing is consumed without a key" is how InputDefs.get_keys uses the tokenizer.  Both
   hypotheses are exercised by the correspondence check (the model is fed the keys of the
   WHOLE stream, the implementation the fragments).  Everything else -- the drain loop, the
   feed-and-drain loop over the bounded buffer, the translation of keys into events, the
   held-button record -- is proved.  The overall level is therefore "partial".
   The hypotheses are satisfiable by a non-trivial tokenizer: InputRefTok.ref_tok decodes C0 /
   ASCII, UTF-8 with U+FFFD for malformed input, Alt keys, SS3, CSI and SGR mouse reports, and is
   PROVED to meet all of them (C20_reference_tokenizer); for it C20_chunking and
   C20_timed_chunking hold without hypotheses (C20_chunking_reference, C20_timed_chunking_reference).
   ref_tok is a reference decoder of the same byte syntax, not a model of libtermkey. *)
From Coq Require Import ZArith List.
From Tickit Require Import InputDefs InputSpec InputProofs InputRefTok.
Import ListNotations.
Local Open Scope Z_scope.

(* however the stream is cut into chunks, the terminal (model of the repaired
   tickit_term_input_push_bytes, libtermkey's buffer of [cap] bytes included) emits the same
   events and ends in the same state as when the whole stream is pushed at once *)
Theorem C20_chunking : forall (tok : list Z -> tokres),
  (forall b m k n, tok b = TKey k n -> tok (b ++ m) = TKey k n) ->
  (forall b k n, tok b = TKey k n -> (0 < n <= length b)%nat) ->
  forall cap : nat, (0 < cap)%nat ->
  (forall b, tok b = TAgain -> (length b < cap)%nat) ->
  (forall b, tok b = TNone -> b = []) ->
  forall chunks c s, (length (i_buf s) < cap)%nat ->
  push_chunks tok cap s (c :: chunks) = push_bytes tok cap s (concat (c :: chunks)).
Proof. exact chunking_bounded. Qed.
Print Assumptions C20_chunking.

(* timed delivery: a gap after every fragment, the event loop polling
   tickit_term_input_check_timeout_msec after every gap.  As long as every single gap stays below
   the wait time -- however long the fragments take together -- no poll forces a time-out
   (timed_run is not None) and the events and the final input state are those of the whole
   stream pushed at once.  The deadline is re-armed on every AGAIN, and counted from the moment
   the drain loop meets AGAIN: [ht], the time each of the application's key / mouse handlers takes,
   is arbitrary -- time spent inside handlers is never charged to a trailing partial sequence. *)
Theorem C20_timed_chunking : forall (tok : list Z -> tokres),
  (forall b m k n, tok b = TKey k n -> tok (b ++ m) = TKey k n) ->
  (forall b k n, tok b = TKey k n -> (0 < n <= length b)%nat) ->
  forall cap : nat, (0 < cap)%nat ->
  (forall b, tok b = TAgain -> (length b < cap)%nat) ->
  (forall b, tok b = TNone -> b = []) ->
  forall wait ht steps c g now ts,
  (forall c0 gap, In (c0, gap) ((c, g) :: steps) -> 0 <= gap < wait) ->
  (length (i_buf (t_in ts)) < cap)%nat ->
  match push_bytes tok cap (t_in ts) (concat (map fst ((c, g) :: steps))) with
  | Some (evs, s') => exists ms d, timed_run tok cap wait false false ht now ts ((c, g) :: steps) = Some (evs, ms, mkT s' d)
  | None => timed_run tok cap wait false false ht now ts ((c, g) :: steps) = None
  end.
Proof. exact timed_chunking. Qed.
Print Assumptions C20_timed_chunking.

(* the variant that keeps a deadline that is already running (wait counted from the FIRST
   fragment) forces a time-out with three fragments 30 ms apart *)
Theorem C20_timed_refuted_stale_deadline :
  timed_run esc_tok 256 50000 true false 0 0 tst0 [([27], 30000); ([91], 30000); ([65], 0)] = None /\
  timed_run esc_tok 256 50000 false false 0 0 tst0 [([27], 30000); ([91], 30000); ([65], 0)] =
    Some ([EvKey KEYEV_KEY 0 [85; 112]], [20; 20; -1], mkT (mkI [] 0 false) None).
Proof. exact stale_deadline_refuted. Qed.
Print Assumptions C20_timed_refuted_stale_deadline.

(* the seeded variant that reads the clock at the top of get_keys, before the handlers of the
   complete keys of the chunk have run: 'a' (handler 70 ms, wait 50 ms) followed by ESC in one
   chunk, the time-out polled at once, the rest of the sequence delivered immediately -- forced *)
Theorem C20_timed_refuted_early_timestamp :
  timed_run esc_tok 256 50000 false true 70000 0 tst0 [([97; 27], 0); ([91; 65], 0)] = None /\
  timed_run esc_tok 256 50000 false false 70000 0 tst0 [([97; 27], 0); ([91; 65], 0)] =
    Some ([EvKey KEYEV_TEXT 0 [97]; EvKey KEYEV_KEY 0 [85; 112]], [50; -1], mkT (mkI [] 0 false) None).
Proof. exact early_timestamp_refuted. Qed.
Print Assumptions C20_timed_refuted_early_timestamp.

(* ---- the wait path (tickit_term_input_wait_msec while nothing arrives).  The clause: a wait that
   returns because the CALLER's time-out expired does not force a pending sequence -- tokenizer
   state and deadline are untouched -- unless the sequence's own deadline has passed *)
Theorem C20_wait_caller_timeout_keeps : forall m now ts d, t_deadline ts = Some d -> 0 <= m -> now + m * 1000 < d ->
  twait false m now ts = Some (ts, now + m * 1000).
Proof. exact twait_caller. Qed.
Print Assumptions C20_wait_caller_timeout_keeps.

(* ... and when that deadline is reached during the wait (the caller's time-out is longer, or
   there is none) the time-out is forced: the property's condition no longer holds *)
Theorem C20_wait_deadline_forces : forall m now ts d, t_deadline ts = Some d -> now < d -> (m = -1 \/ d <= now + m * 1000) ->
  twait false m now ts = None.
Proof. exact twait_deadline. Qed.
Print Assumptions C20_wait_deadline_forces.

(* fragments with waits of the caller in between, each group shorter than the wait time: the
   events of the whole stream, however the caller slices its waits *)
Theorem C20_wait_chunking : forall (tok : list Z -> tokres),
  (forall b m k n, tok b = TKey k n -> tok (b ++ m) = TKey k n) ->
  (forall b k n, tok b = TKey k n -> (0 < n <= length b)%nat) ->
  forall cap : nat, (0 < cap)%nat ->
  (forall b, tok b = TAgain -> (length b < cap)%nat) ->
  (forall b, tok b = TNone -> b = []) ->
  forall wait ht steps c ws now ts,
  (forall c0 ws0, In (c0, ws0) ((c, ws) :: steps) -> Forall (fun m => 0 <= m) ws0 /\ zsum ws0 * 1000 < wait) ->
  (length (i_buf (t_in ts)) < cap)%nat -> 0 <= ht ->
  match push_bytes tok cap (t_in ts) (concat (map fst ((c, ws) :: steps))) with
  | Some (evs, s') => exists d, wtimed_run tok cap wait false ht now ts ((c, ws) :: steps) = Some (evs, mkT s' d)
  | None => wtimed_run tok cap wait false ht now ts ((c, ws) :: steps) = None
  end.
Proof. exact wait_chunking. Qed.
Print Assumptions C20_wait_chunking.

(* the pinned wait path forces a pending sequence whenever select times out *)
Theorem C20_wait_refuted_caller_timeout_forces :
  (forall m now ts d, t_deadline ts = Some d -> twait true m now ts = None) /\
  wtimed_run esc_tok 256 50000 true 0 0 tst0 [([27], [10; 10; 10]); ([91; 65], [])] = None /\
  wtimed_run esc_tok 256 50000 false 0 0 tst0 [([27], [10; 10; 10]); ([91; 65], [])] =
    Some ([EvKey KEYEV_KEY 0 [85; 112]], mkT (mkI [] 0 false) None).
Proof. exact (conj twait_pinned_forces wait_forces_refuted). Qed.
Print Assumptions C20_wait_refuted_caller_timeout_forces.

(* tickit_term_input_wait_tv hands on the timeval's milliseconds; pinned: 2 s become 2 ms *)
Theorem C20_wait_tv_exact : forall sec usec, 0 <= usec < 1000000 ->
  wait_tv_msec false sec usec * 1000 <= sec * 1000000 + usec < (wait_tv_msec false sec usec + 1) * 1000.
Proof. exact wait_tv_exact. Qed.
Print Assumptions C20_wait_tv_exact.

Theorem C20_wait_tv_refuted : wait_tv_msec true 2 0 = 2 /\ wait_tv_msec false 2 0 = 2000.
Proof. exact wait_tv_refuted. Qed.
Print Assumptions C20_wait_tv_refuted.

(* ... and those events are the translations, one after the other, of the keys the tokenizer
   finds in the buffer *)
Theorem C20_events_of_keys : forall (tok : list Z -> tokres),
  (forall b k n, tok b = TKey k n -> (0 < n <= length b)%nat) ->
  forall f b h, (length b < f)%nat ->
  match get_keys tok f b h, run_keys h (tokenize tok f b) with
  | Some (e, s), Some (e', h') => e = e' /\ i_held s = h'
  | None, None => True
  | _, _ => False
  end.
Proof. exact get_keys_run_keys. Qed.
Print Assumptions C20_events_of_keys.

(* for every key sequence (buttons 1..30 for press/drag, as libtermkey reports them) the events
   are those of the specification and the held-button mask is that of the specification's
   set of held buttons -- in particular it is empty again when all have been released *)
Theorem C20_held : forall ks l, held_inv l -> Forall key_ok ks ->
  run_keys (mask_of l) ks = Some (fst (spec_keys l ks), mask_of (snd (spec_keys l ks))) /\
  held_inv (snd (spec_keys l ks)).
Proof. exact run_keys_spec. Qed.
Print Assumptions C20_held.

(* a release that names no button is reported once for each held button, in increasing
   order, for no other, and the record is empty afterwards *)
Theorem C20_release_all : forall l k, held_inv l -> k_type k = TMouse -> k_ev k = TK_MOUSE_RELEASE -> k_button k = 0 ->
  got_key (mask_of l) k =
  Some (map (fun b => EvMouse MOUSEEV_RELEASE b (k_line k - 1) (k_col k - 1) (k_mod k)) l, 0).
Proof. exact release_all. Qed.
Print Assumptions C20_release_all.

Theorem C20_positions : forall held k evs h, k_type k = TMouse -> got_key held k = Some (evs, h) ->
  Forall (fun e => exists t b, e = EvMouse t b (k_line k - 1) (k_col k - 1) (k_mod k)) evs.
Proof. exact positions_zero_based. Qed.
Print Assumptions C20_positions.

Theorem C20_wheel : forall held k, k_type k = TMouse -> k_ev k = TK_MOUSE_PRESS -> 4 <= k_button k ->
  got_key held k = Some ([EvMouse MOUSEEV_WHEEL (k_button k - 3) (k_line k - 1) (k_col k - 1) (k_mod k)], held).
Proof. exact wheel_from_press. Qed.
Print Assumptions C20_wheel.

Theorem C20_text_and_keys : forall held k,
  (k_type k = TUnicode -> k_mod k = 0 -> got_key held k = Some ([EvKey KEYEV_TEXT 0 (k_utf8 k)], held)) /\
  (k_type k = TUnicode -> k_mod k <> 0 -> got_key held k = Some ([EvKey KEYEV_KEY (k_mod k) (k_name k)], held)) /\
  (k_type k = TFunction \/ k_type k = TKeysym -> got_key held k = Some ([EvKey KEYEV_KEY (k_mod k) (k_name k)], held)).
Proof. exact text_and_keys. Qed.
Print Assumptions C20_text_and_keys.

(* the pinned tickit_term_input_push_bytes (one termkey_push_bytes, which takes only what
   fits) does depend on fragmentation: witness with a 2-byte buffer; on the real library the
   witness is any stream longer than libtermkey's 256 bytes (corpus/C20) *)
Theorem C20_chunking_refuted_pinned :
  exists chunks whole, whole = concat chunks /\
    fold_left (fun acc c => match acc with
                            | Some (e, s) => match push_bytes_pinned demo_tok 2 s c with
                                             | Some (e2, s2) => Some (e ++ e2, s2) | None => None end
                            | None => None end) chunks (Some ([], ist0))
    <> push_bytes_pinned demo_tok 2 ist0 whole.
Proof. exact pinned_push_refuted. Qed.
Print Assumptions C20_chunking_refuted_pinned.

(* non-vacuity: a tokenizer that meets all four hypotheses, a held-button history, and a
   fragmented stream that the bounded loop handles *)
(* ---- a concrete tokenizer that meets the hypotheses *)
Theorem C20_reference_tokenizer :
  (forall b m k n, ref_tok b = TKey k n -> ref_tok (b ++ m) = TKey k n) /\
  (forall b k n, ref_tok b = TKey k n -> (0 < n <= length b)%nat) /\
  (forall b, ref_tok b = TAgain -> (length b < REF_CAP)%nat) /\
  (forall b, ref_tok b = TNone -> b = []).
Proof. exact (conj ref_tok_stable (conj ref_tok_len (conj ref_again_cap ref_tok_none_empty))). Qed.
Print Assumptions C20_reference_tokenizer.

(* fragmentation independence for the reference tokenizer (UTF-8, CSI, SS3, SGR mouse) through
   the feed-and-drain loop over a 256-byte buffer: every fragmentation, every start state *)
Theorem C20_chunking_reference : forall chunks c s, (length (i_buf s) < REF_CAP)%nat ->
  push_chunks ref_tok REF_CAP s (c :: chunks) = push_bytes ref_tok REF_CAP s (concat (c :: chunks)).
Proof. exact ref_chunking. Qed.
Print Assumptions C20_chunking_reference.

Theorem C20_timed_chunking_reference : forall wait ht steps c g now ts,
  (forall c0 gap, In (c0, gap) ((c, g) :: steps) -> 0 <= gap < wait) ->
  (length (i_buf (t_in ts)) < REF_CAP)%nat ->
  match push_bytes ref_tok REF_CAP (t_in ts) (concat (map fst ((c, g) :: steps))) with
  | Some (evs, s') => exists ms d, timed_run ref_tok REF_CAP wait false false ht now ts ((c, g) :: steps) = Some (evs, ms, mkT s' d)
  | None => timed_run ref_tok REF_CAP wait false false ht now ts ((c, g) :: steps) = None
  end.
Proof. exact ref_timed_chunking. Qed.
Print Assumptions C20_timed_chunking_reference.

(* a 36-byte stream with every kind of token (ASCII, 2- and 3-byte UTF-8, CSI, SS3, Alt, SGR press
   and release, a stray continuation byte, a control) decodes to ten events, the same for each
   of the 37 ways of cutting it in two *)
Theorem C20_reference_stream :
  push_bytes ref_tok REF_CAP ist0 ref_stream = Some (ref_events, mkI [] 0 false) /\
  forallb (fun i => match push_chunks ref_tok REF_CAP ist0 [firstn i ref_stream; skipn i ref_stream] with
                    | Some (e, s) => andb (events_eqb e ref_events) (Nat.eqb (length (i_buf s)) 0)
                    | None => false end) (seq 0 37) = true.
Proof. exact ref_stream_cuts. Qed.
Print Assumptions C20_reference_stream.

Example C20_nonvacuous :
  (forall b m k n, demo_tok b = TKey k n -> demo_tok (b ++ m) = TKey k n) /\
  (forall b k n, demo_tok b = TKey k n -> (0 < n <= length b)%nat) /\
  held_inv [1; 3] /\ mask_of [1; 3] = 10 /\
  push_chunks demo_tok 2 ist0 [[97; 98; 99]; [100]] = push_bytes demo_tok 2 ist0 [97; 98; 99; 100].
Proof. exact InputProofs.nonvacuous. Qed.
