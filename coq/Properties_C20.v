(* Property C20 (stub while the proofs are being built). *)
From Coq Require Import ZArith List.
From Tickit Require Import InputDefs InputSpec.
Import ListNotations.
Local Open Scope Z_scope.

Example C20_nonvacuous :
  got_key 0 (mkKey TMouse 0 [] [] 1 1 5 7) = Some ([EvMouse 1 1 4 6 0], 2).
Proof. vm_compute. reflexivity. Qed.
