(* LifeTrace.v -- the trace of client calls is written by run_op only: every other function of the model
   leaves it as it is, whether it completes or faults. *)
From Coq Require Import ZArith List Bool PArith FMapPositive Lia.
From Tickit Require Import LifeDefs.
Import ListNotations.
Local Open Scope Z_scope.

Definition ktr {A} (m : M A) : Prop :=
  forall h, match m h with Ok _ h' => tr h' = tr h | Fault _ hf => tr hf = tr h | NoFuel => True end.

Lemma ktr_ret : forall A (a : A), ktr (ret a).
Proof. intros A a h. reflexivity. Qed.
Lemma ktr_fail : forall A f, ktr (@fail A f).
Proof. intros A f h. reflexivity. Qed.
Lemma ktr_nofuel : forall A, ktr (@nofuel A).
Proof. intros A h. exact I. Qed.
Lemma ktr_bind : forall A B (m : M A) (k : A -> M B), ktr m -> (forall a, ktr (k a)) -> ktr (bind m k).
Proof.
  intros A B m k Hm Hk h. unfold bind. specialize (Hm h). destruct (m h) as [a h1|f hf|]; auto.
  specialize (Hk a h1). destruct (k a h1); congruence.
Qed.

Lemma ktr_getw : forall a, ktr (getw a).
Proof. intros a h. unfold getw. destruct (PM.find a (wins h)); reflexivity. Qed.
Lemma ktr_setw : forall a c, ktr (setw a c).
Proof. intros a c h. unfold setw. destruct (PM.find a (wins h)); reflexivity. Qed.
Lemma ktr_getq : forall a, ktr (getq a).
Proof. intros a h. unfold getq. destruct (PM.find a (reqs h)); reflexivity. Qed.
Lemma ktr_setq : forall a c, ktr (setq a c).
Proof. intros a c h. unfold setq. destruct (PM.find a (reqs h)); reflexivity. Qed.
Lemma ktr_freew : forall a, ktr (freew a).
Proof. intros a h. unfold freew. destruct (PM.find a (wins h)); reflexivity. Qed.
Lemma ktr_freeq : forall a, ktr (freeq a).
Proof. intros a h. unfold freeq. destruct (PM.find a (reqs h)); reflexivity. Qed.
Lemma ktr_allocw : forall c, ktr (allocw c).
Proof. intros c h. reflexivity. Qed.
Lemma ktr_allocq : forall c, ktr (allocq c).
Proof. intros c h. reflexivity. Qed.
Lemma ktr_log_destroy : forall a, ktr (log_destroy a).
Proof. intros a h. reflexivity. Qed.
Lemma ktr_note_uninit : ktr note_uninit.
Proof. intros h. reflexivity. Qed.
Lemma ktr_root_bound : ktr root_bound.
Proof. intros h. reflexivity. Qed.
Lemma ktr_getr : forall a, ktr (getr a).
Proof. intro a. unfold getr. apply ktr_bind; [apply ktr_getw|]. intro c. destruct (w_isroot c); [intro h; reflexivity|apply ktr_fail]. Qed.
Lemma ktr_setr : forall a r, ktr (setr a r).
Proof. intros a r. unfold setr. apply ktr_bind; [apply ktr_getw|]. intro c. destruct (w_isroot c); [intro h; reflexivity|apply ktr_fail]. Qed.

Create HintDb ktr.
#[export] Hint Resolve ktr_ret ktr_fail ktr_nofuel ktr_getw ktr_setw ktr_getq ktr_setq ktr_freew ktr_freeq ktr_allocw ktr_allocq
  ktr_log_destroy ktr_note_uninit ktr_root_bound ktr_getr ktr_setr : ktr.

Ltac ktr1 :=
  match goal with
  | |- ktr (bind _ _) => apply ktr_bind; [|intro]
  | |- ktr (ret _) => apply ktr_ret
  | |- ktr (fail _) => apply ktr_fail
  | |- ktr nofuel => apply ktr_nofuel
  | |- ktr (if ?b then _ else _) => destruct b
  | |- ktr (match ?x with _ => _ end) => destruct x
  | |- ktr _ => solve [eauto with ktr]
  end.
Ltac ktr_auto := repeat ktr1.

Lemma ktr_upd : forall a f, ktr (upd a f).
Proof. intros. unfold upd. ktr_auto. Qed.
Lemma ktr_updr : forall a f, ktr (updr a f).
Proof. intros. unfold updr. ktr_auto. Qed.
Lemma ktr_deref : forall p, ktr (deref p).
Proof. intros. unfold deref. ktr_auto. Qed.
#[export] Hint Resolve ktr_upd ktr_updr ktr_deref : ktr.
Lemma ktr_read_slot : forall s, ktr (read_slot s).
Proof. intros. unfold read_slot. ktr_auto. Qed.
Lemma ktr_write_slot : forall s v, ktr (write_slot s v).
Proof. intros. unfold write_slot. ktr_auto. Qed.
#[export] Hint Resolve ktr_read_slot ktr_write_slot : ktr.

Ltac ktr_fix f := intros until f; induction f as [|f IH]; intros; cbn; ktr_auto.

Lemma ktr_get_root : forall fuel a, ktr (get_root fuel a).
Proof. ktr_fix fuel. Qed.
Lemma ktr_top_walk : forall fuel a, ktr (top_walk fuel a).
Proof. ktr_fix fuel. Qed.
Lemma ktr_is_within : forall fuel w a, ktr (is_within fuel w a).
Proof. ktr_fix fuel. Qed.
Lemma ktr_abs_geometry_up : forall fuel w, ktr (abs_geometry_up fuel w).
Proof. ktr_fix fuel. Qed.
#[export] Hint Resolve ktr_get_root ktr_top_walk ktr_is_within ktr_abs_geometry_up : ktr.
Lemma ktr_abs_geometry : forall fuel a, ktr (abs_geometry fuel a).
Proof. intros. unfold abs_geometry. ktr_auto. Qed.
Lemma ktr_request_later : forall r, ktr (request_later r).
Proof. intros. unfold request_later. ktr_auto. Qed.
#[export] Hint Resolve ktr_abs_geometry ktr_request_later : ktr.
Lemma ktr_request_restore : forall r, ktr (request_restore r).
Proof. intros. unfold request_restore. ktr_auto. Qed.
#[export] Hint Resolve ktr_request_restore : ktr.
Lemma ktr_focus_chain_changed : forall fuel w, ktr (focus_chain_changed fuel w).
Proof. ktr_fix fuel. Qed.
Lemma ktr_expose : forall fuel a, ktr (expose fuel a).
Proof. ktr_fix fuel. Qed.
Lemma ktr_find_child_from : forall fuel s w, ktr (find_child_from fuel s w).
Proof. ktr_fix fuel. Qed.
#[export] Hint Resolve ktr_focus_chain_changed ktr_expose ktr_find_child_from : ktr.
Lemma ktr_find_child : forall fuel p w, ktr (find_child fuel p w).
Proof. intros. unfold find_child. ktr_auto. Qed.
Lemma ktr_insert_first : forall p w, ktr (insert_first p w).
Proof. intros. unfold insert_first. ktr_auto. Qed.
Lemma ktr_last_slot : forall fuel s, ktr (last_slot fuel s).
Proof. ktr_fix fuel. Qed.
#[export] Hint Resolve ktr_find_child ktr_insert_first ktr_last_slot : ktr.
Lemma ktr_insert_last : forall fuel p w, ktr (insert_last fuel p w).
Proof. intros. unfold insert_last. ktr_auto. Qed.
Lemma ktr_hremove : forall fuel p w, ktr (hremove fuel p w).
Proof. intros. unfold hremove. ktr_auto. Qed.
Lemma ktr_raise_slot : forall fuel s w, ktr (raise_slot fuel s w).
Proof. ktr_fix fuel. Qed.
#[export] Hint Resolve ktr_insert_last ktr_hremove ktr_raise_slot : ktr.
Lemma ktr_hraise : forall fuel p w, ktr (hraise fuel p w).
Proof. intros. unfold hraise. ktr_auto. Qed.
Lemma ktr_hlower : forall fuel p w, ktr (hlower fuel p w).
Proof. intros. unfold hlower. ktr_auto. Qed.
#[export] Hint Resolve ktr_hraise ktr_hlower : ktr.
Lemma ktr_do_change : forall fuel ch p w, ktr (do_change fuel ch p w).
Proof. intros. unfold do_change. ktr_auto. Qed.
Lemma ktr_queue_last : forall fuel q, ktr (queue_last fuel q).
Proof. ktr_fix fuel. Qed.
#[export] Hint Resolve ktr_do_change ktr_queue_last : ktr.
Lemma ktr_request_change : forall fuel ch w, ktr (request_change fuel ch w).
Proof. intros. unfold request_change. ktr_auto. Qed.
Lemma ktr_read_qslot : forall r sl, ktr (read_qslot r sl).
Proof. intros. unfold read_qslot. ktr_auto. Qed.
Lemma ktr_write_qslot : forall r sl v, ktr (write_qslot r sl v).
Proof. intros. unfold write_qslot. ktr_auto. Qed.
#[export] Hint Resolve ktr_request_change ktr_read_qslot ktr_write_qslot : ktr.
Lemma ktr_purge_loop : forall V fuel r sl w, ktr (purge_loop V fuel r sl w).
Proof. intros V fuel. induction fuel as [|f IH]; intros; cbn; ktr_auto. Qed.
#[export] Hint Resolve ktr_purge_loop : ktr.
Lemma ktr_purge : forall V fuel w, ktr (purge V fuel w).
Proof. intros. unfold purge. ktr_auto. Qed.
#[export] Hint Resolve ktr_purge : ktr.
Lemma ktr_close : forall V fuel w, ktr (close V fuel w).
Proof. intros. unfold close. ktr_auto. Qed.
Lemma ktr_free_queue : forall fuel r, ktr (free_queue fuel r).
Proof. ktr_fix fuel. Qed.
#[export] Hint Resolve ktr_close ktr_free_queue : ktr.
Lemma ktr_root_cleanup : forall V fuel w, ktr (root_cleanup V fuel w).
Proof. intros. unfold root_cleanup. ktr_auto. Qed.
#[export] Hint Resolve ktr_root_cleanup : ktr.

Lemma unref_S' : forall f w,
  unref fixed (S f) w =
  (c <- getw w ;;
   if w_ref c <? 1 then fail Abort
   else setw w (set_ref c (w_ref c - 1)) ;;; if w_ref c - 1 =? 0 then destroy fixed f w else ret tt).
Proof. reflexivity. Qed.
Lemma destroy_S' : forall f w,
  destroy fixed (S f) w =
  (log_destroy w ;;; cw <- getw w ;; (if w_closed cw then ret tt else close fixed f w) ;;;
   root_cleanup fixed f w ;;; destroy_loop fixed f w ;;; freew w).
Proof. reflexivity. Qed.
Lemma destroy_loop_S' : forall f w,
  destroy_loop fixed (S f) w =
  (cw <- getw w ;;
   match w_first cw with
   | None => ret tt
   | Some child =>
     cc <- getw child ;; setw w (set_first cw (w_next cc)) ;;; upd child (fun c => set_parent c None) ;;;
     upd child (fun c => set_next c None) ;;; unref fixed f child ;;; destroy_loop fixed f w
   end).
Proof. reflexivity. Qed.

Lemma ktr_life : forall fuel,
  (forall w, ktr (unref fixed fuel w)) /\ (forall w, ktr (destroy fixed fuel w)) /\ (forall w, ktr (destroy_loop fixed fuel w)).
Proof.
  induction fuel as [|f (IH1 & IH2 & IH3)]; (split; [|split]); intros;
    try (cbn; apply ktr_nofuel); rewrite ?unref_S', ?destroy_S', ?destroy_loop_S'; ktr_auto.
Qed.
Lemma ktr_unref : forall fuel w, ktr (unref fixed fuel w).
Proof. intros. apply ktr_life. Qed.
#[export] Hint Resolve ktr_unref : ktr.

Lemma ktr_root_parent_walk : forall fuel p, ktr (root_parent_walk fuel p).
Proof. ktr_fix fuel. Qed.
#[export] Hint Resolve ktr_root_parent_walk : ktr.
Lemma ktr_window_new : forall fuel p a b c d, ktr (window_new fuel p a b c d).
Proof. intros. unfold window_new. ktr_auto. Qed.
Lemma ktr_window_show : forall fuel w, ktr (window_show fuel w).
Proof. intros. unfold window_show. ktr_auto. Qed.
Lemma ktr_window_hide : forall fuel w, ktr (window_hide fuel w).
Proof. intros. unfold window_hide. ktr_auto. Qed.
#[export] Hint Resolve ktr_window_new ktr_window_show ktr_window_hide : ktr.
Lemma ktr_cell_visible_kids : forall fuel k prev, ktr (cell_visible_kids fuel k prev).
Proof. ktr_fix fuel. Qed.
#[export] Hint Resolve ktr_cell_visible_kids : ktr.
Lemma ktr_cell_visible : forall fuel w prev, ktr (cell_visible fuel w prev).
Proof. ktr_fix fuel. Qed.
Lemma ktr_restore_walk : forall fuel w, ktr (restore_walk fuel w).
Proof. ktr_fix fuel. Qed.
#[export] Hint Resolve ktr_cell_visible ktr_restore_walk : ktr.
Lemma ktr_do_restore : forall fuel r, ktr (do_restore fuel r).
Proof. intros. unfold do_restore. ktr_auto. Qed.
Lemma ktr_apply_queue : forall fuel q, ktr (apply_queue fuel q).
Proof. ktr_fix fuel. Qed.
#[export] Hint Resolve ktr_do_restore ktr_apply_queue : ktr.
Lemma ktr_flush_begin : forall fuel w, ktr (flush_begin fuel w).
Proof. intros. unfold flush_begin. ktr_auto. Qed.
Lemma ktr_flush_end : forall fuel w, ktr (flush_end fuel w).
Proof. intros. unfold flush_end. ktr_auto. Qed.
#[export] Hint Resolve ktr_flush_begin ktr_flush_end : ktr.
Lemma ktr_in_tree_both : forall fuel, (forall t w, ktr (in_tree fuel t w)) /\ (forall k w, ktr (in_tree_kids fuel k w)).
Proof. induction fuel as [|f [IH1 IH2]]; split; intros; cbn; ktr_auto. Qed.
Lemma ktr_in_tree : forall fuel t w, ktr (in_tree fuel t w).
Proof. intros. apply ktr_in_tree_both. Qed.
Lemma ktr_children_list : forall fuel k, ktr (children_list fuel k).
Proof. ktr_fix fuel. Qed.
#[export] Hint Resolve ktr_in_tree ktr_children_list : ktr.
Lemma ktr_copy_children : forall fuel w, ktr (copy_children fuel w).
Proof. intros. unfold copy_children. ktr_auto. Qed.
Lemma ktr_is_child_from : forall fuel k c, ktr (is_child_from fuel k c).
Proof. ktr_fix fuel. Qed.
#[export] Hint Resolve ktr_copy_children ktr_is_child_from : ktr.
Lemma ktr_is_child : forall fuel w c, ktr (is_child fuel w c).
Proof. intros. unfold is_child. ktr_auto. Qed.
Lemma ktr_window_ref : forall w, ktr (window_ref w).
Proof. intros. unfold window_ref. ktr_auto. Qed.
Lemma ktr_sib_walk : forall fuel k a, ktr (sib_walk fuel k a).
Proof. ktr_fix fuel. Qed.
#[export] Hint Resolve ktr_sib_walk : ktr.
Lemma ktr_any_visible : forall fuel k, ktr (any_visible fuel k).
Proof. ktr_fix fuel. Qed.
Lemma ktr_scroll_up : forall fuel a c, ktr (scroll_up fuel a c).
Proof. ktr_fix fuel. Qed.
#[export] Hint Resolve ktr_scroll_up ktr_any_visible : ktr.
Lemma ktr_scrollrect : forall fuel w, ktr (scrollrect fuel w).
Proof. intros. unfold scrollrect. ktr_auto. Qed.
#[export] Hint Resolve ktr_scrollrect : ktr.
Lemma ktr_count_up : forall fuel w, ktr (count_up fuel w).
Proof. ktr_fix fuel. Qed.
#[export] Hint Resolve ktr_is_child ktr_window_ref ktr_count_up : ktr.
