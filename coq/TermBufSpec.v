(* TermBufSpec.v -- C12 judged on the bytes DELIVERED to the output, for terminals with an output buffer
   and for every construction order (buffer / settings / output attached in any order).

   With a buffer, what an operation writes reaches the terminal later.  The property is judged at the
   points where the library owes the terminal everything written so far:
     - after tickit_term_flush;
     - after tickit_term_teardown and after destruction (both end with a flush: a history may END there);
     - after the first attach of an output (start() flushes);
     - after every call when there is no buffer.
   At such a point the screen, fed with all bytes delivered so far, must be in the state XtermModeSpec
   demands after the last operation that determines it: the initial modes and the default rendition after
   pause / teardown / destroy, the logical modes and the logical pen after resume and after a setting or pen
   request while running.  Reads return the last value set, always, and deliver nothing.
   Out of range (not judged): anything but set_output_buffer, settings and reads before an output is attached
   (pens: start() resets the rendition; pause / teardown: nothing can be delivered), more than [pre_ops] such
   settings or a buffer below [pre_cap] bytes there (without an output a full buffer is dropped),
   a setting without buffer and output (dropped), set_output_buffer while written bytes are undelivered (the
   old buffer is freed unflushed), flush / re-attach oddities, and what oracle_modes already excludes. *)
From Coq Require Import ZArith List Bool.
From Tickit Require Import Csi VT TermPenDefs TermPenSpec XtermDefs XtermModeSpec TermBufDefs.
Import ListNotations.
Local Open Scope Z_scope.

Inductive expect := EOff | ELogical | ENone.

Record bostate := mkBo {
  bo_vt : vt; bo_last : lastset; bo_pen : pen; bo_paused : bool; bo_stopped : bool;
  bo_out : bool; bo_cap : Z; bo_synced : bool; bo_expect : expect; bo_pre : nat
}.

Definition pre_cap : Z := 1024.
Definition pre_ops : nat := 8.

Definition bo_init (v : vt) : bostate := mkBo v (fun _ => None) empty_pen false false false 0 true ELogical 0.

Definition expect_ok (kp colon rgb8 : bool) (init : mstate) (s : bostate) (v : vt) : bool :=
  let eq := if kp then ms_eqb else ms_eqb_nokp in
  match bo_expect s with
  | EOff => eq (ms_of_vt v) init && attrs_eqb (v_sgr v) default_attrs
  | ELogical => eq (ms_of_vt v) (logical_ms init (bo_last s)) &&
                sgr_matchesb colon rgb8 (cache_of 256 (bo_pen s)) (v_sgr v)
  | ENone => true
  end.

(* the bookkeeping of one call (None = out of range) *)
Definition book (s : bostate) (op : bop) (value : option Z) : option bostate :=
  let running := negb (bo_paused s) in
  let wrote (s' : bostate) :=
      (* a call that may have written: delivered at once only without a buffer *)
      mkBo (bo_vt s') (bo_last s') (bo_pen s') (bo_paused s') (bo_stopped s') (bo_out s') (bo_cap s')
           (bo_out s' && (bo_cap s' =? 0)) (bo_expect s') (bo_pre s') in
  let flushed (s' : bostate) :=
      mkBo (bo_vt s') (bo_last s') (bo_pen s') (bo_paused s') (bo_stopped s') (bo_out s') (bo_cap s')
           true (bo_expect s') (bo_pre s') in
  match op with
  | BOp (OGet _) => Some s
  | BOp (OSet c x) =>
      if bo_stopped s || negb (ctl_in_rangeb c x) then None
      else if negb (bo_out s) && ((bo_cap s <? pre_cap) || (pre_ops <=? bo_pre s)%nat) then None
      else
        let l' := match value with Some 1 => ls_set (bo_last s) c (ctl_norm c x) | _ => bo_last s end in
        Some (wrote (mkBo (bo_vt s) l' (bo_pen s) (bo_paused s) (bo_stopped s) (bo_out s) (bo_cap s) (bo_synced s)
                          (if running then ELogical else ENone) (S (bo_pre s))))
  | BOp (OSetpen p) | BOp (OChpen p) =>
      if bo_stopped s || negb (pen_in_rangeb p) || negb (bo_out s) then None
      else
        let l' := match op with BOp (OSetpen _) => logical_set (bo_pen s) p | _ => logical_ch (bo_pen s) p end in
        Some (wrote (mkBo (bo_vt s) (bo_last s) l' (bo_paused s) (bo_stopped s) (bo_out s) (bo_cap s) (bo_synced s)
                          (if running then ELogical else ENone) (bo_pre s)))
  | BOp OPause =>
      if bo_stopped s || negb (bo_out s) then None
      else Some (wrote (mkBo (bo_vt s) (bo_last s) (bo_pen s) true false (bo_out s) (bo_cap s) (bo_synced s) EOff (bo_pre s)))
  | BOp OResume =>
      if bo_stopped s || negb (bo_out s) then None
      else Some (wrote (mkBo (bo_vt s) (bo_last s) (bo_pen s) false false (bo_out s) (bo_cap s) (bo_synced s) ELogical (bo_pre s)))
  | BOp OTeardown | BOp ODestroy =>
      if negb (bo_out s) then None
      else if bo_stopped s && negb (match op with BOp ODestroy => true | _ => false end) then None
      else Some (flushed (mkBo (bo_vt s) (bo_last s) (bo_pen s) (bo_paused s) true (bo_out s) (bo_cap s) true EOff (bo_pre s)))
  | BOp (OSetup _) | BOp (OReport _ _) | BOp (ODecscusr _) =>
      (* replies of the terminal: read after the output is attached, they write nothing *)
      match op with
      | BOp (OSetup _) => None
      | _ => if bo_out s then Some s else None
      end
  | BBuffer len =>
      if (len <? 0) || negb (bo_synced s) && (0 <? bo_cap s) then None
      else Some (mkBo (bo_vt s) (bo_last s) (bo_pen s) (bo_paused s) (bo_stopped s) (bo_out s) len
                      (bo_synced s) (bo_expect s) (bo_pre s))
  | BAttach =>
      if bo_stopped s then None
      else if bo_out s then Some s          (* another output for a started terminal: nothing is written or flushed *)
      else Some (flushed (mkBo (bo_vt s) (bo_last s) (bo_pen s) (bo_paused s) (bo_stopped s) true (bo_cap s) true
                               (bo_expect s) (bo_pre s)))
  | BFlush =>
      if negb (bo_out s) then None else Some (flushed s)
  end.

Definition silent_op (op : bop) : bool :=
  match op with BOp (OGet _) | BOp (OReport _ _) | BOp (ODecscusr _) | BBuffer _ => true | _ => false end.

(* [obs]: call, bytes delivered during it, result.  A full buffer is flushed wherever it is full, also in the
   middle of an escape sequence, so the delivered bytes are collected ([acc]) and run through the screen at
   the next synchronisation point, where they end with a complete sequence *)
Fixpoint oracle_buf (kp colon rgb8 : bool) (init : mstate) (i : nat) (s : bostate) (acc : list Z)
         (obs : list (bop * list Z * option Z)) : mverdict :=
  match obs with
  | [] => MOk i
  | (op, bytes, value) :: rest =>
      match book s op value with
      | None => MOutOfRange i
      | Some s1 =>
          let acc' := acc ++ bytes in
          let ok_get :=
              match op with
              | BOp (OGet c) =>
                  match bo_last s c, value with
                  | Some x, Some y => if negb kp && ctl_eqb c CtlKeypadApp then true else x =? y
                  | None, _ => true
                  | Some _, None => false
                  end
              | _ => true
              end in
          if negb ok_get then MBadAt i 2
          else if silent_op op && negb (is_nil bytes) then MBadAt i 8
          else if negb (bo_out s1) && negb (is_nil bytes) then MBadAt i 9       (* delivered without an output? *)
          else if bo_synced s1 then
            let v' := vt_run_bytes acc' (bo_vt s) in
            let s2 := mkBo v' (bo_last s1) (bo_pen s1) (bo_paused s1) (bo_stopped s1) (bo_out s1) (bo_cap s1)
                           (bo_synced s1) (bo_expect s1) (bo_pre s1) in
            if negb (expect_ok kp colon rgb8 init s2 v') then
              MBadAt i (match bo_expect s2 with EOff => 6 | ELogical => 5 | ENone => 0 end)
            else oracle_buf kp colon rgb8 init (S i) s2 [] rest
          else oracle_buf kp colon rgb8 init (S i) s1 acc' rest
      end
  end.
