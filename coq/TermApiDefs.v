(* TermApiDefs.v -- the PUBLIC terminal API of src/term.c that the properties C09 / C10 / C12
   talk about, modelled function by function as written there, above the xterm driver model
   (XtermDefs.v) and the pen path (TermPenDefs.v):

     tickit_term_goto / move / print / printn / erasech / clear / scrollrect
     tickit_term_setpen / chpen, tickit_term_setctl_int / getctl_int
     tickit_term_pause / resume / teardown / destroy (unref of the last reference)
     tickit_term_flush, tickit_term_set_output_buffer

   term.c does no argument screening of its own: every function forwards to the driver's
   vtable entry (print computes strlen first; setpen / chpen run the delta encoder; pause /
   resume / teardown add the UNSTARTED state and the pen re-send).  What it adds is the
   output path: every driver write goes through write_str(str, len), whose convention is
   "len == 0 means strlen(str)" (the drivers rely on it for their literal strings).
   tickit_term_printn returns at once for len == 0 (fix C09-printn-zero-length; the pinned
   code forwarded the 0 and so wrote the whole string: [printn_pinned]).  The output buffer is modelled only as "bytes in order": a write either
   goes to the output function at once or is appended to the buffer, which is handed over
   when full and on flush; the observable stream is the concatenation, so an operation's
   output is the token list it writes and [AFlush] / [ASetOutputBuffer] write nothing.
   (tickit_term_printf formats with vsnprintf and then prints: formatting is excluded.) *)
From Coq Require Import ZArith List Bool Lia.
From Tickit Require Import Csi TermPenDefs XtermDefs Gen_SgrOnOff.
Import ListNotations.
Local Open Scope Z_scope.

Inductive api :=
| AGoto (line col : Z)
| AMove (downward rightward : Z)
| APrint (str : list Z)                 (* the C string: its bytes before the NUL *)
| APrintf (str : list Z)                (* tickit_term_printf / vprintf whose FORMATTED RESULT is str *)
| APrintn (str : list Z) (len : Z)      (* the NUL-terminated buffer's bytes, and the length given *)
| AErasech (count : Z) (moveend : maybe)
| AClear
| AScrollrect (r : rect) (downward rightward : Z)
| ASetpen (p : pen)
| AChpen (p : pen)
| ASetctl (c : ctl) (value : Z)
| AGetctl (c : ctl)
| APause
| AResume
| AFlush
| ASetOutputBuffer (size : Z)
| ATeardown
| ADestroy.

(* write_str(str, len): len == 0 means strlen(str).  [str] is what lies before the NUL, so a
   positive len beyond it would read past the terminator: Fault *)
Definition write_str_bytes (str : list Z) (len : Z) : option (list Z) :=
  if len =? 0 then Some str
  else if (0 <? len) && (len <=? Z.of_nat (length str)) then Some (firstn (Z.to_nat len) str)
  else None.

(* the xterm driver's print(ttd, str, len) = tickit_termdrv_write_str(ttd, str, len) *)
Definition drv_print (str : list Z) (len : Z) : option (list token) :=
  match write_str_bytes str len with Some bs => Some (chars bs) | None => None end.

(* tickit_term_printn as it was in the pinned tree: the length is forwarded unchanged *)
Definition printn_pinned (str : list Z) (len : Z) : option (list token) := drv_print str len.

Definition bool_result (b : bool) : option Z := Some (if b then 1 else 0).

(* one call of the public API: new terminal object, tokens written, result (bool as 0/1,
   the value read for getctl, None for void functions) *)
Definition api_step (t : term) (a : api) : option (term * list token * option Z) :=
  let caps := x_caps (t_drv t) in
  match a with
  | AGoto l c => Some (t, xt_goto_abs l c, bool_result true)
  | AMove d r => Some (t, xt_move_rel d r, None)
  | APrint str =>
      (* print(driver, str, strlen(str)) *)
      match drv_print str (Z.of_nat (length str)) with
      | Some ts => Some (t, ts, None)
      | None => None
      end
  | APrintf str =>
      (* len = vsnprintf(NULL, 0, ...); buf = tmpbuffer(len + 1); vsnprintf(buf, ...); print(driver, buf, len) *)
      match drv_print str (Z.of_nat (length str)) with
      | Some ts => Some (t, ts, None)
      | None => None
      end
  | APrintn str len =>
      if len =? 0 then Some (t, [], None)      (* if(!len) return; *)
      else match drv_print str len with
           | Some ts => Some (t, ts, None)
           | None => None
           end
  | AErasech n me => Some (t, xt_erasech (get_bool_attr (t_pen t) AReverse) n me, None)
  | AClear => Some (t, xt_clear, None)
  | AScrollrect r d rt =>
      let '(ok, ts) := xt_scrollrect (cap_slrm caps) (t_cols t) r d rt in Some (t, ts, bool_result ok)
  | ASetpen p =>
      match do_setpen chpen_params_capacity (cap_colon caps) (cap_rgb8 caps) (mkTp (t_pen t) xterm_colors) p with
      | None => None
      | Some (s, ts) => Some (term_with_pen t (tp_pen s), ts, None)
      end
  | AChpen p =>
      match do_chpen chpen_params_capacity (cap_colon caps) (cap_rgb8 caps) (mkTp (t_pen t) xterm_colors) p with
      | None => None
      | Some (s, ts) => Some (term_with_pen t (tp_pen s), ts, None)
      end
  | ASetctl c v => let '(d', ts, ret) := xt_setctl (t_drv t) c v in
                   Some (term_with_drv t d', ts, bool_result ret)
  | AGetctl c => Some (t, [], xt_getctl (t_drv t) c)
  | APause => Some (t, term_pause t, None)
  | AResume => match term_resume t with None => None | Some ts => Some (t, ts, None) end
  | AFlush => Some (t, [], None)
  | ASetOutputBuffer _ => Some (t, [], None)
  | ATeardown => let '(t', ts) := term_teardown t in Some (t', ts, None)
  | ADestroy => Some (fst (term_teardown t), term_destroy t, None)
  end.

Fixpoint api_run (t : term) (l : list api) : option (term * list token) :=
  match l with
  | [] => Some (t, [])
  | a :: r =>
      match api_step t a with
      | None => None
      | Some (t', ts, _) =>
          match api_run t' r with
          | None => None
          | Some (t'', ts') => Some (t'', ts ++ ts')
          end
      end
  end.
