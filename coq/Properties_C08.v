(* Property C08: no API history touches freed or foreign memory, and everything is released.
   This file contains nothing but the property theorems, each closed by [exact <lemma>] and
   followed by Print Assumptions.

   Memory safety of the C is a run-time fact (observed by the sanitizers on every check); what
   is proved here is the ownership discipline of the heap-level model LifeDefs.v of the REPAIRED
   src/window.c (fixes/C08-*.patch): a heap of window cells and restack-request cells in which
   every access to an address that is not allocated is a [Fault].

   THE FULL STATEMENT that the property asks for, kept visible:

     C08_no_fault : forall fuel (l : list op),             (* l may contain OKey / OMouse and OBind *)
       wf_client (calls executed by run_script fixed fuel l) = true ->
       fault_of (run_script fixed fuel l) = None
     C08_all_released : ... -> all_dropped g = true -> heap_empty h = true

   where [wf_client] is the discipline checker of LifeSpec.v, which never looks at the heap
   (ghost state: references the client holds + parent each window is attached to).
   It is proved (a) in exactly this form for histories of calls that DISPATCH NOTHING (the theorems named _partial:
   new, ref, unref, close, the restack requests, show, hide, expose, set_pen, scrollrect, bind, unbind, ...), and
   (b) for histories WITH dispatch: key and mouse events -- press, drag, release, wheel: the whole drag state machine
   with its directly delivered DRAG_OUTSIDE / DRAG_STOP --, flush (EXPOSE handlers), take_focus (FOCUS handlers, also
   those of parents with focus_child_notify), set_geometry / reposition / the terminal's resize (GEOMCHANGE
   handlers), whose handlers make any calls at any depth
   (C08_no_fault_events, C08_events_completed), with the client's side stated by the
   discipline of LifeSpecEv.v: the same rules, but the destruction of a window takes effect when it
   happens (a window released inside its own handler lives until the dispatch frame lets go), which the
   checker reads off the library's frame references recorded in the trace; and (c) -- C08_no_fault, C08_all_released --
   in exactly the form above for ALL those histories, with the predictive checker of LifeSpec.v that the oracle of the
   check uses: LifeNorm.v proves that the predictive state of the client's calls is the normal form of the observed state
   (every window without a client reference destroyed at once, whatever frames hold it), that the library's frame
   references are invisible to it, and that the dispatch functions never make the observing discipline reject anything
   but a call of the client (C08_bridge).  Not covered by any theorem: DESTROY handlers that make calls (variant fixedh of
   the model, compared with the library on every case).  Everything else is at full strength: any number of windows, any
   depth, any order of ref/unref/close, any number of pending restack requests, any fuel (running
   out of fuel is never a normal-looking value; that enough fuel exists is not proved). *)
From Coq Require Import ZArith List Bool PArith.
From Tickit Require Import LifeDefs LifeLemmas LifeInv LifeClose LifeQueue LifeDestroy LifeFate LifeSpec LifeProofs LifeAgree LifeWitness LifePenDefs LifePen.
From Tickit Require BindDefs LifeBindDefs LifeBindSim LifeBindSafe.
From Tickit Require Import LifeSpecEv LifeAgreeEv LifeEvents LifeFuel LifeBridge LifeNorm.
Import ListNotations.
Local Open Scope Z_scope.

(* the heap invariant [hinv] (LifeInv.v): child chains are finite and list exactly the live windows
   whose parent pointer names the window; parent pointers name live, older windows; focus pointers
   name children; every allocated window is referenced; the queue is a finite chain of all request
   cells, each naming a live window attached (through live windows) to the root, and its parent *)

(* every call that dispatches nothing keeps the invariant and does not fault *)
Theorem C08_step_partial : forall fuel o h,
  hinv [] h -> event_free_op o = true -> op_pre h o ->
  match run_op fixed fuel o h with
  | Ok _ h' => hinv [] h'
  | Fault _ _ => False
  | NoFuel => True
  end.
Proof. exact run_op_ok. Qed.
Print Assumptions C08_step_partial.

(* for every event-free history, of any length, that the heap-independent discipline accepts, the
   model never faults, whatever the fuel *)
Theorem C08_no_fault_partial : forall fuel l,
  forallb event_free_op l = true -> wf_client l = true -> fault_of (run_script fixed fuel l) = None.
Proof. exact wf_no_fault. Qed.
Print Assumptions C08_no_fault_partial.

(* the same with the client's side stated on the model's own heap (every call is made on allocated
   windows): the form that does not depend on the discipline checker *)
Theorem C08_no_fault_allocated_partial : forall fuel l,
  client_okb fuel l (heap0 fixed) = true -> fault_of (run_script fixed fuel l) = None.
Proof. exact no_fault_b. Qed.
Print Assumptions C08_no_fault_allocated_partial.

(* the discipline is sound for the model: along a history it accepts, its ghost state (references
   held, parents) agrees with the heap, and each accepted call meets its precondition *)
Theorem C08_discipline_sound : forall g h o g',
  hinv [] h -> agree g h -> event_free_op o = true -> gstep g o = Some g' ->
  op_pre h o /\ (forall h', eff o h h' -> agree g' h').
Proof. exact step_agree. Qed.
Print Assumptions C08_discipline_sound.

(* what destroy frees, exactly: the fate of every window is determined by the fate of its parent *)
Theorem C08_destroy_fate : forall f, unref_fate f /\ destroy_fate f /\ loop_fate f.
Proof. exact life_fate. Qed.
Print Assumptions C08_destroy_fate.

(* unref / destroy / the loop over the children, for windows being destroyed [D] at any nesting depth *)
Theorem C08_unref_destroy : forall f, unref_ok f /\ destroy_ok f /\ loop_ok f.
Proof. exact life_ok. Qed.
Print Assumptions C08_unref_destroy.

(* after the purge no queued request is about the window or anything below it, and the drag source is not the window
   or anything below it; no window is touched (the root is not among the windows being destroyed) *)
Theorem C08_purge_complete : forall D fuel w h,
  hinv D h -> findw h w <> None -> ~ In root D ->
  hoare (fun h1 => h1 = h) (purge fixed fuel w)
        (fun _ h' => hinv D h' /\ (wins h' = wins h /\ nextw h' = nextw h) /\ unqueued h' w /\
                     (forall q cq, findq h' q = Some cq -> exists cq0, findq h q = Some cq0 /\ q_win cq = q_win cq0) /\
                     undragged D h' w).
Proof. exact purge_spec. Qed.
Print Assumptions C08_purge_complete.

(* once the discipline says that every reference has been dropped, nothing is allocated: no window
   cell and no request cell *)
Theorem C08_all_released_partial : forall fuel l gf h,
  forallb event_free_op l = true -> gcheck g0 l = Some gf -> all_dropped gf = true ->
  run_script fixed fuel l = VOk h -> heap_empty h = true.
Proof. exact wf_all_released. Qed.
Print Assumptions C08_all_released_partial.

(* under the invariant nothing stays allocated without a reference *)
Theorem C08_no_unreferenced_cell : forall h,
  hinv [] h -> (forall a c, findw h a = Some c -> w_ref c < 1) -> heap_empty h = true.
Proof. exact all_released. Qed.
Print Assumptions C08_no_unreferenced_cell.

(* get_cell_text / get_span (repaired): for every cell content and every buffer, every write lands
   inside the buffer of exactly [len] bytes *)
Theorem C08_copy_bounded : forall k b,
  exists r b', get_span_text false k b = Some (r, b') /\ length b' = length b.
Proof. exact copy_bounded. Qed.
Print Assumptions C08_copy_bounded.

(* HISTORIES WITH EVENTS.  [good F h]: the heap invariant, the agreement "reference count = the client's references
   + the references held by dispatch frames, parents as the ghost has them", the frames [F] being released innermost
   first with every framed window's parent framed further out -- so that the destruction of a window never consumes a
   reference a frame holds.  Every dispatch function keeps it (S_all_holds: run_op, run_ops, the handler loops,
   _handle_key, _handle_mouse, their loops over a copy of the children, on_term_mouse with the drag state machine and
   _handle_mouse_at; run_events for EXPOSE / FOCUS / GEOMCHANGE, _do_expose and its loop over a copy of the children,
   tickit_window_flush holding the root, _focus_lost, _focus_gained under take_focus holding the ancestors,
   set_geometry holding the ancestors, reposition, on_term_resize), or else the trace has left the discipline. *)
Theorem C08_dispatch_invariant : forall f, S_all f.
Proof. exact S_all_holds. Qed.
Print Assumptions C08_dispatch_invariant.

(* any script, any fuel: if the model faults, the trace of what was executed is not one the discipline accepts *)
Theorem C08_no_fault_events : forall fuel l f step hf,
  run_script fixed fuel l = VFault f step hf -> wf_trace (tr hf) = false.
Proof. exact events_no_fault. Qed.
Print Assumptions C08_no_fault_events.

(* a run that completes within the discipline ends in a heap that satisfies the invariant, agrees with the ghost, has
   no frame left, and holds nothing once every reference has been dropped *)
Theorem C08_events_completed : forall fuel l h,
  run_script fixed fuel l = VOk h -> wf_trace (tr h) = true ->
  hinv [] h /\ exists g, echeck e0 (rev (tr h)) = Some g /\ agreeE g h /\
                         (forall i x, nth_error g i = Some x -> e_fr x = 0) /\
                         (all_dropped_e g = true -> heap_empty h = true).
Proof. exact events_completed. Qed.
Print Assumptions C08_events_completed.

Theorem C08_events_drag_nonvacuous : exists h,
  run_script fixed 80 drag_demo = VOk h /\ wf_trace (tr h) = true /\ heap_empty h = true /\
  (10 <= length (filter (fun o => match o with OFrameRef _ => true | _ => false end) (tr h)))%nat.
Proof. exact drag_nonvacuous. Qed.
Print Assumptions C08_events_drag_nonvacuous.

Theorem C08_events_efg_nonvacuous : exists h,
  run_script fixed 80 efg_demo = VOk h /\ wf_trace (tr h) = true /\ heap_empty h = true /\
  (12 <= length (filter (fun o => match o with OFrameRef _ => true | _ => false end) (tr h)))%nat.
Proof. exact efg_nonvacuous. Qed.
Print Assumptions C08_events_efg_nonvacuous.

Theorem C08_events_nonvacuous : exists h,
  run_script fixed 80 ev_demo = VOk h /\ wf_trace (tr h) = true /\ heap_empty h = true /\
  (6 <= length (filter (fun o => match o with OFrameRef _ => true | _ => false end) (tr h)))%nat.
Proof. exact events_nonvacuous. Qed.
Print Assumptions C08_events_nonvacuous.

(* THE FULL STATEMENT.  Any history (events of all five kinds, handlers making any calls at any depth), any fuel: if the
   model faults, the calls that were executed -- the script's and the handlers', [calls hf] -- are not those of a
   well-formed client in the sense of the heap-independent, predictive discipline of LifeSpec.v, the oracle of the check *)
Theorem C08_no_fault : forall fuel l f step hf,
  run_script fixed fuel l = VFault f step hf -> wf_client (calls hf) = false.
Proof. exact full_no_fault. Qed.
Print Assumptions C08_no_fault.

(* ... and a run that completes ends in a heap that satisfies the invariant; once the discipline says that every reference
   has been dropped, nothing is allocated *)
Theorem C08_all_released : forall fuel l h gp,
  run_script fixed fuel l = VOk h -> gcheck g0 (calls h) = Some gp ->
  hinv [] h /\ (all_dropped gp = true -> heap_empty h = true).
Proof. exact full_all_released. Qed.
Print Assumptions C08_all_released.

(* the bridge between the disciplines WITH frame references: if the observing discipline accepts a prefix of a trace and
   then rejects a call of the client, the predictive discipline rejects the client's calls ... *)
Theorem C08_bridge : forall l1 o l2 g,
  echeck e0 l1 = Some g -> estep g o = None -> is_client o = true ->
  wf_client (filter is_client (l1 ++ o :: l2)) = false.
Proof. exact bridge. Qed.
Print Assumptions C08_bridge.

(* ... and on a trace both accept, the predictive state is the normal form of the observed one *)
Theorem C08_bridge_normal_form : forall l g gp,
  echeck e0 l = Some g -> gcheck g0 (filter is_client l) = Some gp -> gp = norm g /\ einv g.
Proof. exact bridge_accept. Qed.
Print Assumptions C08_bridge_normal_form.

(* the two disciplines -- destruction predicted at the client's last unref (LifeSpec.v, the oracle of the check) and
   destruction observed when the last reference of either kind goes (LifeSpecEv.v) -- accept the same clients on every
   trace without frame references, in particular on every event-free history *)
Theorem C08_disciplines_agree : forall l, forallb is_client l = true ->
  (match echeck e0 l with Some _ => true | None => false end) = wf_client l.
Proof. exact disciplines_agree. Qed.
Print Assumptions C08_disciplines_agree.

(* FUEL.  More fuel never changes a result: a run that does not stop for lack of fuel gives the same verdict with any
   larger fuel (every function of the model, the event dispatch included; fm_dispatch, fm_life, ...) *)
Theorem C08_fuel_monotone : forall l fuel fuel' k h, (fuel <= fuel')%nat ->
  (forall s, run_script_from fixed fuel l k h <> VNoFuel s) ->
  run_script_from fixed fuel' l k h = run_script_from fixed fuel l k h.
Proof. exact fuel_monotone. Qed.
Print Assumptions C08_fuel_monotone.

(* ... but with events there is no fuel bound, in the model as in the library: a key handler that sends the key again
   recurses for ever; every fuel runs out *)
Theorem C08_fuel_bound_refuted_events : forall fuel, exists s, run_script fixed fuel loop_script = VNoFuel s.
Proof. exact no_fuel_bound_with_events. Qed.
Print Assumptions C08_fuel_bound_refuted_events.

(* the render buffer's pen stack (model LifePenDefs.v of setpen / save / savepen / restore, whole-line
   text and erase, clear, reset, flush and destroy in src/renderbuffer.c): the invariant [rinv]
   "every pen's and every string's count is the number of its holders -- the current-pen slot, the
   stack frames and the cells naming it -- and an object is live exactly when it has a holder"
   is kept by every call *)
Theorem C08_penstack_step : forall o r, rinv r -> exists r', rb_step o r = Some r' /\ rinv r'.
Proof. exact pen_step_inv. Qed.
Print Assumptions C08_penstack_step.

(* hence after every program every count is exact ... *)
Theorem C08_refcount_exact_penstack : forall lines l, exists r,
  rb_exec l (rb_new lines) = Some r /\
  (forall p, PM.find p (rb_pens r) = enc (cnt (pen_holders r) p)) /\
  (forall s, PM.find s (rb_strs r) = enc (cnt (str_holders r) s)).
Proof. exact refcount_exact_penstack. Qed.
Print Assumptions C08_refcount_exact_penstack.

(* ... the numbers of live pens and strings that the harness observes are the numbers of distinct
   pens and strings that are held ... *)
Theorem C08_penstack_counts : forall lines l, exists r,
  rb_exec l (rb_new lines) = Some r /\
  rb_counts r = (Z.of_nat (length (nodup Pos.eq_dec (pen_holders r))),
                 Z.of_nat (length (nodup Pos.eq_dec (str_holders r))),
                 Z.of_nat (length (rb_stack r))).
Proof. exact penstack_counts. Qed.
Print Assumptions C08_penstack_counts.

(* ... and no program touches a released pen or string, and the final unref releases them all *)
Theorem C08_penstack_no_fault_all_released : forall lines l, exists obs, rb_run lines l = RVOk obs 0 0.
Proof. exact penstack_no_fault_all_released. Qed.
Print Assumptions C08_penstack_no_fault_all_released.

(* the binding list of bindings.c at heap level (LifeBindDefs.v: cells with addresses and next
   pointers, malloc / free, every access to an address that is not allocated a Fault; tombstones, the
   saved iteration guard, the deferred sweep, the detach-then-notify loop of unbind_and_destroy) runs in
   lockstep with the logical model BindDefs.v of property C16, for EVERY handler environment: same
   result kind with the same fuel, same value, same trace, and the cells allocated are exactly the
   nodes of the list *)
Theorem C08_bindings_twin_simulates : forall env fuel ops,
  match BindDefs.run BindDefs.fixed env fuel ops, LifeBindDefs.hrun env fuel ops with
  | BindDefs.Ok (w, v), BindDefs.Ok (hw, v') =>
      v = v' /\ BindDefs.wt w = LifeBindDefs.ht hw /\ BindDefs.wn w = LifeBindDefs.hn hw /\ exists lp, LifeBindSim.Rep w hw lp
  | BindDefs.Fault, BindDefs.Fault => True
  | BindDefs.OutOfFuel, BindDefs.OutOfFuel => True
  | _, _ => False
  end.
Proof. exact LifeBindSim.twin_simulates. Qed.
Print Assumptions C08_bindings_twin_simulates.

(* no handler environment (handlers bind, unbind, emit, themselves or others, at any depth; destruction
   at top level only) can make it read or write a cell that is not allocated, follow a dangling loop
   variable, free twice or call NULL *)
Theorem C08_bindings_no_fault : forall env, LifeBindSafe.henv_ok env ->
  forall ops, Forall LifeBindSafe.act_top_ok ops -> forall fuel, LifeBindDefs.hrun env fuel ops <> BindDefs.Fault.
Proof. exact LifeBindSafe.twin_no_fault. Qed.
Print Assumptions C08_bindings_no_fault.

(* nor leak: whatever the handlers did, the cells allocated are exactly the nodes of the list ... *)
Theorem C08_bindings_exact : forall env fuel ops hw v, LifeBindDefs.hrun env fuel ops = BindDefs.Ok (hw, v) ->
  exists w lp, BindDefs.run BindDefs.fixed env fuel ops = BindDefs.Ok (w, v) /\ LifeBindSim.Rep w hw lp /\
               (forall a, LifeBindDefs.BM.find a (LifeBindDefs.cells (LifeBindDefs.hs hw)) <> None <-> In a (LifeBindSim.addrs lp)).
Proof. exact LifeBindSafe.twin_exact. Qed.
Print Assumptions C08_bindings_exact.

(* ... and a history that ends with tickit_bindings_unbind_and_destroy leaves nothing allocated *)
Theorem C08_bindings_all_released : forall env fuel ops hw v,
  LifeBindDefs.hrun env fuel (ops ++ [BindDefs.ADestroy]) = BindDefs.Ok (hw, v) ->
  LifeBindDefs.bheap_empty (LifeBindDefs.hs hw) = true.
Proof. exact LifeBindSafe.twin_all_released. Qed.
Print Assumptions C08_bindings_all_released.

(* the pointer walks inside one call (sweep, bind, unbind, destroy) never exhaust their own fuel *)
Theorem C08_bindings_walk_fuel : forall env fuel ops,
  LifeBindDefs.hrun env fuel ops = BindDefs.OutOfFuel <-> BindDefs.run BindDefs.fixed env fuel ops = BindDefs.OutOfFuel.
Proof. exact LifeBindSafe.twin_fuel. Qed.
Print Assumptions C08_bindings_walk_fuel.

Theorem C08_bindings_nonvacuous : exists hw v,
  LifeBindDefs.hrun LifeBindSafe.env_demo 40 LifeBindSafe.demo_ops = BindDefs.Ok (hw, v) /\
  LifeBindDefs.bheap_empty (LifeBindDefs.hs hw) = true /\
  (length (filter (fun e => match e with BindDefs.TCallB _ _ => true | _ => false end) (LifeBindDefs.ht hw)) = 9)%nat.
Proof. exact LifeBindSafe.twin_nonvacuous. Qed.
Print Assumptions C08_bindings_nonvacuous.

(* tickit_mockterm_get_display_text is kept as pinned (t/20mockterm.c relies on the NUL at buffer[len]):
   outside the trigger class -- a cell's text filling the remaining length exactly -- it stays inside *)
Theorem C08_mock_copy_partial : forall cells b,
  mock_trigger cells (Z.of_nat (length b)) = false ->
  exists r b', mock_display_text cells b = Some (r, b') /\ length b' = length b.
Proof. exact mock_copy_bounded_partial. Qed.
Print Assumptions C08_mock_copy_partial.

Theorem C08_mock_copy_refuted : exists cells b, mock_display_text cells b = None /\ mock_trigger cells (Z.of_nat (length b)) = true.
Proof. exists [[97]; [98]], [170; 170]. exact mock_copy_witness. Qed.
Print Assumptions C08_mock_copy_refuted.

(* the pinned code violates the property: well-formed histories on which the pinned variant of the
   model faults (each replayed on the C: corpus/C08/witnesses.case) *)
Theorem C08_no_fault_refuted_destroy : exists l,
  outcome (run_script pinned fuel40 l) = (Some (UAF, 1%nat), false, false, true).
Proof. exists wit_destroy. exact pinned_destroy. Qed.
Print Assumptions C08_no_fault_refuted_destroy.

Theorem C08_no_fault_refuted_close : exists l,
  outcome (run_script pinned fuel40 l) = (Some (UAF, 4%nat), false, false, true).
Proof. exists wit_close. exact pinned_close. Qed.
Print Assumptions C08_no_fault_refuted_close.

Theorem C08_no_fault_refuted_close_null : exists l,
  outcome (run_script pinned fuel40 l) = (Some (NullDeref, 3%nat), false, false, true).
Proof. exists wit_close_null. exact pinned_close_null. Qed.
Print Assumptions C08_no_fault_refuted_close_null.

Theorem C08_all_released_refuted : exists l,
  outcome (run_script pinned fuel40 l) = (None, false, false, true) /\
  match gcheck g0 l with Some g => all_dropped g = true | None => False end.
Proof. exists wit_leak. exact pinned_leak. Qed.
Print Assumptions C08_all_released_refuted.

Theorem C08_no_fault_refuted_orphan_abort : exists l,
  outcome (run_script pinned fuel40 l) = (Some (Abort, 3%nat), false, false, true).
Proof. exists wit_orphan_abort. exact pinned_orphan_abort. Qed.
Print Assumptions C08_no_fault_refuted_orphan_abort.

Theorem C08_no_fault_refuted_drag : exists l,
  outcome (run_script pinned fuel40 l) = (Some (UAF, 6%nat), false, false, true).
Proof. exists wit_drag. exact pinned_drag. Qed.
Print Assumptions C08_no_fault_refuted_drag.

Theorem C08_no_fault_refuted_sibling : exists l,
  outcome (run_script pinned fuel40 l) = (Some (UAF, 3%nat), false, false, true).
Proof. exists wit_sibling. exact pinned_sibling. Qed.
Print Assumptions C08_no_fault_refuted_sibling.

(* ... and in the other event kinds (C08-7, C08-9, C08-12, C08-14, C08-15, C08-16): an expose / focus / geomchange
   handler that closes and releases its own window; a parent told of the focus change that destroys the child; an
   expose handler that releases the root during the flush; reposition and the terminal's resize looking at a window
   its geomchange handler released; the window losing the focus closing the window that takes it (abort) *)
Theorem C08_no_fault_refuted_expose_handler : exists l,
  outcome (run_script pinned fuel40 l) = (Some (UAF, 3%nat), false, false, true).
Proof. exists wit_expose_self. exact pinned_expose_self. Qed.
Print Assumptions C08_no_fault_refuted_expose_handler.

Theorem C08_no_fault_refuted_focus_handler : exists l,
  outcome (run_script pinned fuel40 l) = (Some (UAF, 2%nat), false, false, true).
Proof. exists wit_focus_self. exact pinned_focus_self. Qed.
Print Assumptions C08_no_fault_refuted_focus_handler.

Theorem C08_no_fault_refuted_geom_handler : exists l,
  outcome (run_script pinned fuel40 l) = (Some (UAF, 3%nat), false, false, true).
Proof. exists wit_geom_self. exact pinned_geom_self. Qed.
Print Assumptions C08_no_fault_refuted_geom_handler.

Theorem C08_no_fault_refuted_focus_notify : exists l,
  outcome (run_script pinned fuel40 l) = (Some (UAF, 3%nat), false, false, true).
Proof. exists wit_focus_notify. exact pinned_focus_notify. Qed.
Print Assumptions C08_no_fault_refuted_focus_notify.

Theorem C08_no_fault_refuted_flush_root : exists l,
  outcome (run_script pinned fuel40 l) = (Some (UAF, 2%nat), false, false, true).
Proof. exists wit_flush_root. exact pinned_flush_root. Qed.
Print Assumptions C08_no_fault_refuted_flush_root.

Theorem C08_no_fault_refuted_reposition : exists l,
  outcome (run_script pinned fuel40 l) = (Some (UAF, 2%nat), false, false, true).
Proof. exists wit_move. exact pinned_move. Qed.
Print Assumptions C08_no_fault_refuted_reposition.

Theorem C08_no_fault_refuted_resize : exists l,
  outcome (run_script pinned fuel40 l) = (Some (UAF, 1%nat), false, false, true).
Proof. exists wit_resize. exact pinned_resize. Qed.
Print Assumptions C08_no_fault_refuted_resize.

Theorem C08_no_fault_refuted_focus_close : exists l,
  outcome (run_script pinned fuel40 l) = (Some (Abort, 4%nat), false, false, true).
Proof. exists wit_focus_close. exact pinned_focus_close. Qed.
Print Assumptions C08_no_fault_refuted_focus_close.

(* the same eight histories on the repaired code: no fault, nothing left *)
Theorem C08_handler_histories_repaired :
  map (fun l => outcome (run_script fixed fuel40 l))
      [wit_expose_self; wit_focus_self; wit_geom_self; wit_focus_notify; wit_flush_root; wit_move; wit_resize; wit_focus_close]
  = repeat (None, true, false, true) 8.
Proof. exact fixed_handlers_efg. Qed.
Print Assumptions C08_handler_histories_repaired.

Theorem C08_uninit_refuted : exists l,
  outcome (run_script pinned fuel40 l) = (None, false, true, true).
Proof. exists wit_uninit. exact pinned_uninit. Qed.
Print Assumptions C08_uninit_refuted.

Theorem C08_copy_bounded_refuted : exists k b, get_span_text true k b = None.
Proof. exists (CText [97]), [170]. exact pinned_copy. Qed.
Print Assumptions C08_copy_bounded_refuted.

(* non-vacuity: a history with windows at three depths, extra references, all four kinds of restack
   request pending, a scroll, a close, and every reference dropped at the end meets the hypotheses
   of the theorems (and the heap-independent discipline), runs without a fault and leaves nothing *)
Example C08_nonvacuous :
  client_okb fuel40 wit_nontrivial (heap0 fixed) = true /\ wf_client wit_nontrivial = true /\
  outcome (run_script fixed fuel40 wit_nontrivial) = (None, true, false, true).
Proof. exact nontrivial_ok. Qed.
