(* WinPreserve.v -- part E of the locality argument for property C01: every tree-changing
   window operation preserves the screen invariant ScreenInv of WinScreenInv.v (a screen cell
   shows what the composition puts there, or lies in the pending damage) and the uniqueness
   of window ids; a flush with queued restacks re-establishes the composition on the whole
   screen (flush_establishes_any_queue).
   Every theorem is stated for a run in which no rectangle-set loop ran out of fuel
   (r_fault of the result = false). *)
From Coq Require Import ZArith List Bool Lia ZifyBool Permutation.
From Tickit Require Import RectDefs RectProofs WinRectSet WinRectSetProofs WinDefs WinHist WinSpec
  WinExposeProofs WinFlushProofs WinLogDisjoint WinScreenInv WinLocality.
Import ListNotations.
Local Open Scope Z_scope.
Local Strategy 1000 [rsfuel].

(* ------------------------------------------------------------------------------------ *)
(* helpers                                                                               *)

(* the child list of pid changes; the parent is exposed with r when b holds *)
Lemma op_kids app st tm st1 t1 pid ch ch' D (b : bool) (r : rect) :
  ScreenInv app st tm ->
  kids_changed pid ch ch' (r_tree st) t1 D -> geq_tree t1 (r_tree st1) -> retree st st1 ->
  r_fault (if b then win_expose st1 pid (Some r) else st1) = false ->
  (forall p, b && cell_inb r p = false -> first_owner ch' p = first_owner ch p) ->
  ScreenInv app (if b then win_expose st1 pid (Some r) else st1) tm /\
  r_tree (if b then win_expose st1 pid (Some r) else st1) = r_tree st1.
Proof.
  intros SI Hkc Hgeq Hre Hf Hloc.
  assert (Hne1 : all_nonempty (r_damage st1)).
  { destruct Hre as (-> & _). apply (si_nonempty _ _ _ SI). }
  assert (Hv1 : w_vis (t_info t1) = true).
  { rewrite (kc_info _ _ _ _ _ _ Hkc). apply (si_rootvis _ _ _ SI). }
  destruct b.
  - destruct (expose_covers_kc st1 pid r ch ch' _ t1 D Hkc Hgeq Hv1 Hne1 Hf) as [Hde Hcov].
    split; [|apply (de_tree _ _ Hde)].
    apply (preserve_engine app st tm st1 _ pid ch ch' t1 D (fun p => cell_inb r p) SI Hkc Hgeq Hre Hde).
    + intros p Hp. apply Hloc. exact Hp.
    + intros q p Hq Hr Hp. apply (Hcov q p); [|exact Hr|apply cell_inb_iff; exact Hp].
      rewrite (kc_info _ _ _ _ _ _ Hkc). apply cell_inb_iff. exact Hq.
  - split; [|reflexivity].
    apply (preserve_engine app st tm st1 st1 pid ch ch' t1 D (fun _ => false) SI Hkc Hgeq Hre).
    + apply dmg_ext_refl; assumption.
    + intros p _. apply Hloc. reflexivity.
    + intros q p _ _ H. discriminate.
Qed.

(* the tree keeps its composition; something is exposed (or not) *)
Lemma op_geq app st tm st1 (b : bool) y ex :
  ScreenInv app st tm -> geq_tree (r_tree st) (r_tree st1) -> retree st st1 ->
  (ex = None -> forall w, t_chain y (r_tree st1) = Some [w] -> nonempty (selfrect (t_info w))) ->
  r_fault (if b then win_expose st1 y ex else st1) = false ->
  ScreenInv app (if b then win_expose st1 y ex else st1) tm /\
  r_tree (if b then win_expose st1 y ex else st1) = r_tree st1.
Proof.
  intros SI Hgeq Hre Hnone Hf.
  assert (Hne1 : all_nonempty (r_damage st1)).
  { destruct Hre as (-> & _). apply (si_nonempty _ _ _ SI). }
  destruct b.
  - destruct (win_expose_spec st1 y ex Hne1 Hnone Hf) as [Hde _].
    split; [|apply (de_tree _ _ Hde)]. exact (preserve_geq app st tm st1 _ SI Hgeq Hre Hde).
  - split; [|reflexivity].
    apply (preserve_geq app st tm st1 st1 SI Hgeq Hre). apply dmg_ext_refl; assumption.
Qed.

Lemma kc_kid_is_found pid ch ch' t t' D wid w c :
  kids_changed pid ch ch' t t' D -> NoDup (t_ids t) -> t_find wid t = Some w ->
  In c ch -> t_id c = wid -> c = w.
Proof.
  intros Hkc Hnd Hf Hin Hid. destruct (kc_nodes _ _ _ _ _ _ Hkc) as (i & _ & Hs & _).
  assert (Hsc : subtree c t).
  { eapply subtree_trans; [|exact Hs]. apply (subtree_kid c (Node i ch)). exact Hin. }
  pose proof (t_find_subtree c t Hsc Hnd) as H. rewrite Hid, Hf in H. injection H as ->. reflexivity.
Qed.

Lemma kc_kids_nodup pid ch ch' t t' D :
  kids_changed pid ch ch' t t' D -> NoDup (t_ids t) ->
  NoDup (flat_map t_ids ch) /\ forall x, In x (flat_map t_ids ch) -> In x (t_ids t).
Proof.
  intros Hkc Hnd. destruct (kc_nodes _ _ _ _ _ _ Hkc) as (i & _ & Hs & _). split.
  - apply (subtree_nodup _ _ Hs) in Hnd. apply nodup_node in Hnd. tauto.
  - intros x Hx. apply (subtree_ids _ _ Hs). cbn [t_ids]. right. exact Hx.
Qed.

Lemma kc_ids_incl pid ch ch' t t' D :
  kids_changed pid ch ch' t t' D -> NoDup (t_ids t) -> NoDup (flat_map t_ids ch') ->
  (forall x, In x (flat_map t_ids ch') -> In x (flat_map t_ids ch)) -> NoDup (t_ids t').
Proof.
  intros Hkc Hnd Hn Hi.
  apply (kc_ids (fun _ => False) _ _ _ _ _ _ Hkc Hnd); [intros x []|exact Hn|].
  intros x Hx. left. apply Hi. exact Hx.
Qed.

Lemma r_tree_cond (b : bool) s : r_tree (if b then request_restore s else s) = r_tree s.
Proof. destruct b; reflexivity. Qed.

Lemma keeps_geo_unlink id :
  keeps_geo (fun j => if opt_eqb (w_fchild j) id then set_fchild j None else j).
Proof.
  split; [|split]; intros i; destruct (opt_eqb (w_fchild i) id); reflexivity.
Qed.

Lemma keeps_geo_link c : keeps_geo (fun j => set_fchild j c).
Proof. split; [|split]; intros i; reflexivity. Qed.

Lemma first_owner_app a b p :
  first_owner (a ++ b) p = match first_owner a p with Some x => Some x | None => first_owner b p end.
Proof.
  induction a as [|c r IH]; [reflexivity|]. cbn [app first_owner].
  destruct (w_vis (t_info c) && cell_inb (w_rect (t_info c)) p); [reflexivity|exact IH].
Qed.

(* ------------------------------------------------------------------------------------ *)
(* restack, as applied at flush time                                                     *)

Theorem restack_applied_preserves app st tm k pid wid :
  ScreenInv app st tm -> ids_unique (r_tree st) ->
  r_fault (do_hchange st k pid wid) = false ->
  ScreenInv app (do_hchange st k pid wid) tm /\ ids_unique (r_tree (do_hchange st k pid wid)).
Proof.
  intros SI Hu Hf. unfold ids_unique in *. unfold do_hchange in *.
  destruct (t_find wid (r_tree st)) as [w|] eqn:Ew; [|split; assumption].
  destruct (in_dec Z.eq_dec pid (t_ids (r_tree st))) as [Hin|Hnin].
  2:{ rewrite (upd_kids_notin _ _ _ Hnin) in *.
      destruct (op_geq app st tm (set_tree st (r_tree st)) (w_vis (t_info w)) pid
                       (Some (w_rect (t_info w))) SI (geq_refl _) (retree_set_tree _ _)) as [SI' Ht'].
      - intros H; discriminate.
      - exact Hf.
      - split; [exact SI'|]. rewrite Ht'. exact Hu. }
  destruct (t_find_some pid _ Hu Hin) as [n Hn].
  destruct (upd_kids_kc (apply_hchange k wid) pid _ n Hu Hn) as [D Hkc].
  destruct (kc_kids_nodup _ _ _ _ _ _ Hkc Hu) as [Hndk _].
  pose proof (hchange_perm k wid (t_kids n) Hndk) as Hperm.
  destruct (op_kids app st tm (set_tree st (t_upd_kids (apply_hchange k wid) pid (r_tree st))) _ pid _ _ D
                    (w_vis (t_info w)) (w_rect (t_info w)) SI Hkc (geq_refl _)
                    (retree_set_tree _ _) Hf) as [SI' Ht'].
  - intros p Hp. apply (first_owner_same_rest wid); [apply hchange_remove| |].
    + intros c Hc Hid. rewrite (kc_kid_is_found _ _ _ _ _ _ wid w c Hkc Hu Ew Hc Hid). exact Hp.
    + intros c Hc Hid. apply (Permutation_in _ Hperm) in Hc.
      rewrite (kc_kid_is_found _ _ _ _ _ _ wid w c Hkc Hu Ew Hc Hid). exact Hp.
  - split; [exact SI'|]. rewrite Ht'. cbn [r_tree set_tree].
    apply (kc_ids_incl _ _ _ _ _ _ Hkc Hu).
    + apply (Permutation_NoDup (l := flat_map t_ids (t_kids n))); [|exact Hndk].
      apply Permutation_sym. apply perm_ids. exact Hperm.
    + intros x Hx. apply (Permutation_in _ (perm_ids _ _ Hperm)). exact Hx.
Qed.

(* ------------------------------------------------------------------------------------ *)
(* close                                                                                 *)

Theorem close_preserves cfg app st tm id :
  ScreenInv app st tm -> ids_unique (r_tree st) ->
  r_fault (win_close cfg st id) = false ->
  ScreenInv app (win_close cfg st id) tm /\ ids_unique (r_tree (win_close cfg st id)).
Proof.
  intros SI Hu Hf. unfold ids_unique in *. unfold win_close in *.
  destruct (t_chain id (r_tree st)) as [[|w [|p rest]]|] eqn:Ech; try (split; assumption).
  destruct (chain_parent id _ w p rest Hu Ech) as (Hidw & Hwp & Hfp & Hfw & Hne & Hpin).
  destruct (upd_kids_kc (kids_remove id) (t_id p) _ p Hu Hfp) as [D Hkc].
  destruct (kc_kids_nodup _ _ _ _ _ _ Hkc Hu) as [Hndk _].
  set (tr1 := t_upd_kids (kids_remove id) (t_id p) (r_tree st)) in *.
  set (f2 := fun j => if opt_eqb (w_fchild j) id then set_fchild j None else j) in *.
  set (st0 := set_queue (set_orphans (set_tree st (t_update f2 (t_id p) tr1)) (w :: r_orphans st))
                        (filter (fun e => match e with (_, p', w') => negb ((p' =? id) || (w' =? id)) end)
                                (r_queue st))) in *.
  set (st1 := if opt_eqb (w_fchild (t_info p)) id && negb (d_chain_norestore cfg)
              then request_restore st0 else st0) in *.
  assert (Ht1 : r_tree st1 = t_update f2 (t_id p) tr1) by (subst st1; apply r_tree_cond).
  assert (Hre : retree st st1).
  { subst st1. apply retree_cond. unfold retree, st0; cbn [r_damage r_fault r_nexp r_later r_queue set_queue set_orphans set_tree].
    repeat split; try tauto. intros Hq E. apply Hq. rewrite E. reflexivity. }
  destruct (op_kids app st tm st1 tr1 (t_id p) _ _ D (w_vis (t_info w)) (w_rect (t_info w)) SI Hkc) as [SI' Ht'].
  - rewrite Ht1. apply geq_update. apply keeps_geo_unlink.
  - exact Hre.
  - exact Hf.
  - intros q Hq. apply first_owner_remove. intros c Hc Hid.
    rewrite (kc_kid_is_found _ _ _ _ _ _ id w c Hkc Hu Hfw Hc Hid). exact Hq.
  - split; [exact SI'|]. rewrite Ht', Ht1. rewrite update_ids by (apply keeps_geo_id; apply keeps_geo_unlink).
    destruct (remove_ids id (t_kids p) Hndk) as [N I].
    apply (kc_ids_incl _ _ _ _ _ _ Hkc Hu N I).
Qed.

(* ------------------------------------------------------------------------------------ *)
(* hide                                                                                  *)

Lemma upd_child_hidden f id ch w p :
  NoDup (flat_map t_ids ch) -> In w ch -> t_id w = id ->
  w_rect (f (t_info w)) = w_rect (t_info w) ->
  cell_inb (w_rect (t_info w)) p = false ->
  hidden_at id ch p /\ hidden_at id (map (upd_child f id) ch) p.
Proof.
  intros Hnd Hw Hid Hr Hp. split.
  - intros c Hc Hidc. assert (c = w) by (apply (kids_same_id ch); auto; congruence). subst c.
    rewrite Hp. apply andb_false_r.
  - intros c' Hc' Hidc'. apply upd_child_in in Hc'. destruct Hc' as (c & Hc & [[Hidc ->]|[Hidc ->]]).
    + assert (c = w) by (apply (kids_same_id ch); auto; congruence). subst c.
      cbn [t_info]. rewrite Hr, Hp. apply andb_false_r.
    + contradiction.
Qed.

Theorem hide_preserves cfg app st tm id :
  ScreenInv app st tm -> ids_unique (r_tree st) -> id <> t_id (r_tree st) ->
  r_fault (win_hide cfg st id) = false ->
  ScreenInv app (win_hide cfg st id) tm /\ ids_unique (r_tree (win_hide cfg st id)).
Proof.
  intros SI Hu Hroot Hf. unfold ids_unique in *. unfold win_hide in *.
  destruct (t_chain id (r_tree st)) as [[|w [|p rest]]|] eqn:Ech.
  - exfalso. exact (chain_nonempty _ _ Ech).
  - exfalso. apply Hroot. destruct (chain_single _ _ _ Ech) as [_ H]. symmetry. exact H.
  - destruct (chain_parent id _ w p rest Hu Ech) as (Hidw & Hwp & Hfp & Hfw & Hne & Hpin).
    assert (Hkf : keeps_id (fun j => set_vis j false)) by (intros i; reflexivity).
    destruct (update_kc _ id (t_id p) Hkf _ p w Hu Hfp Hwp Hidw) as [D Hkc].
    destruct (kc_kids_nodup _ _ _ _ _ _ Hkc Hu) as [Hndk _].
    set (tr1 := t_update (fun j => set_vis j false) id (r_tree st)) in *.
    set (f2 := fun j => if opt_eqb (w_fchild j) id then set_fchild j None else j) in *.
    set (st1 := if opt_eqb (w_fchild (t_info p)) id && negb (d_chain_norestore cfg)
                then request_restore (set_tree st (t_update f2 (t_id p) tr1))
                else set_tree st (t_update f2 (t_id p) tr1)) in *.
    assert (Ht1 : r_tree st1 = t_update f2 (t_id p) tr1) by (subst st1; apply r_tree_cond).
    assert (Hre : retree st st1) by (subst st1; apply retree_cond; apply retree_set_tree).
    destruct (op_kids app st tm st1 tr1 (t_id p) _ _ D true (w_rect (t_info w)) SI Hkc) as [SI' Ht'].
    + rewrite Ht1. apply geq_update. apply keeps_geo_unlink.
    + exact Hre.
    + exact Hf.
    + intros q Hq. cbn [andb] in Hq.
      destruct (upd_child_hidden (fun j => set_vis j false) id (t_kids p) w q Hndk Hwp Hidw eq_refl Hq) as [H1 H2].
      apply (first_owner_same_rest id); [apply upd_child_remove; exact Hkf|exact H1|exact H2].
    + split; [exact SI'|]. cbn [andb] in Ht'. rewrite Ht', Ht1.
      rewrite update_ids by (apply keeps_geo_id; apply keeps_geo_unlink).
      subst tr1. rewrite update_ids by exact Hkf. exact Hu.
  - split; assumption.
Qed.
