(* WinPreserve.v -- part E of the locality argument for property C01: every tree-changing
   window operation preserves the screen invariant ScreenInv of WinScreenInv.v (a screen cell
   shows what the composition puts there, or lies in the pending damage) and the uniqueness
   of window ids; a flush with queued restacks re-establishes the composition on the whole
   screen (flush_establishes_any_queue).
   Every theorem is stated for a run in which no rectangle-set loop ran out of fuel
   (r_fault of the result = false). *)
From Coq Require Import ZArith List Bool Lia ZifyBool Permutation.
From Tickit Require Import RectDefs RectProofs WinRectSet WinRectSetProofs WinDefs WinHist WinSpec
  WinExposeProofs WinFlushProofs WinLogDisjoint WinScreenInv WinLocality WinLocFocus.
Import ListNotations.
Local Open Scope Z_scope.
Local Strategy 1000 [rsfuel].

(* ------------------------------------------------------------------------------------ *)
(* helpers                                                                               *)

(* the child list of pid changes; the parent is exposed with r when b holds *)
Lemma op_kids app st tm st1 t1 pid ch ch' D (b : bool) (r : rect) :
  ScreenInv app st tm ->
  kids_changed pid ch ch' (r_tree st) t1 D -> geq_tree t1 (r_tree st1) -> retree st st1 ->
  r_fault (if b then win_expose st1 pid (Some r) else st1) = false ->
  (forall p, b && cell_inb r p = false -> first_owner ch' p = first_owner ch p) ->
  ScreenInv app (if b then win_expose st1 pid (Some r) else st1) tm /\
  r_tree (if b then win_expose st1 pid (Some r) else st1) = r_tree st1.
Proof.
  intros SI Hkc Hgeq Hre Hf Hloc.
  assert (Hne1 : all_nonempty (r_damage st1)).
  { destruct Hre as (-> & _). apply (si_nonempty _ _ _ SI). }
  assert (Hv1 : w_vis (t_info t1) = true).
  { rewrite (kc_info _ _ _ _ _ _ Hkc). apply (si_rootvis _ _ _ SI). }
  destruct b.
  - destruct (expose_covers_kc st1 pid r ch ch' _ t1 D Hkc Hgeq Hv1 Hne1 Hf) as [Hde Hcov].
    split; [|apply (de_tree _ _ Hde)].
    apply (preserve_engine app st tm st1 _ pid ch ch' t1 D (fun p => cell_inb r p) SI Hkc Hgeq Hre Hde).
    + intros p Hp. apply Hloc. exact Hp.
    + intros q p Hq Hr Hp. apply (Hcov q p); [|exact Hr|apply cell_inb_iff; exact Hp].
      rewrite (kc_info _ _ _ _ _ _ Hkc). apply cell_inb_iff. exact Hq.
  - split; [|reflexivity].
    apply (preserve_engine app st tm st1 st1 pid ch ch' t1 D (fun _ => false) SI Hkc Hgeq Hre).
    + apply dmg_ext_refl; assumption.
    + intros p _. apply Hloc. reflexivity.
    + intros q p _ _ H. discriminate.
Qed.

(* the tree keeps its composition; something is exposed (or not) *)
Lemma op_geq app st tm st1 (b : bool) y ex :
  ScreenInv app st tm -> geq_tree (r_tree st) (r_tree st1) -> retree st st1 ->
  (ex = None -> forall w, t_chain y (r_tree st1) = Some [w] -> nonempty (selfrect (t_info w))) ->
  r_fault (if b then win_expose st1 y ex else st1) = false ->
  ScreenInv app (if b then win_expose st1 y ex else st1) tm /\
  r_tree (if b then win_expose st1 y ex else st1) = r_tree st1.
Proof.
  intros SI Hgeq Hre Hnone Hf.
  assert (Hne1 : all_nonempty (r_damage st1)).
  { destruct Hre as (-> & _). apply (si_nonempty _ _ _ SI). }
  destruct b.
  - destruct (win_expose_spec st1 y ex Hne1 Hnone Hf) as [Hde _].
    split; [|apply (de_tree _ _ Hde)]. exact (preserve_geq app st tm st1 _ SI Hgeq Hre Hde).
  - split; [|reflexivity].
    apply (preserve_geq app st tm st1 st1 SI Hgeq Hre). apply dmg_ext_refl; assumption.
Qed.

Lemma kc_kid_is_found pid ch ch' t t' D wid w c :
  kids_changed pid ch ch' t t' D -> NoDup (t_ids t) -> t_find wid t = Some w ->
  In c ch -> t_id c = wid -> c = w.
Proof.
  intros Hkc Hnd Hf Hin Hid. destruct (kc_nodes _ _ _ _ _ _ Hkc) as (i & _ & Hs & _).
  assert (Hsc : subtree c t).
  { eapply subtree_trans; [|exact Hs]. apply (subtree_kid c (Node i ch)). exact Hin. }
  pose proof (t_find_subtree c t Hsc Hnd) as H. rewrite Hid, Hf in H. injection H as ->. reflexivity.
Qed.

Lemma kc_kids_nodup pid ch ch' t t' D :
  kids_changed pid ch ch' t t' D -> NoDup (t_ids t) ->
  NoDup (flat_map t_ids ch) /\ forall x, In x (flat_map t_ids ch) -> In x (t_ids t).
Proof.
  intros Hkc Hnd. destruct (kc_nodes _ _ _ _ _ _ Hkc) as (i & _ & Hs & _). split.
  - apply (subtree_nodup _ _ Hs) in Hnd. apply nodup_node in Hnd. tauto.
  - intros x Hx. apply (subtree_ids _ _ Hs). cbn [t_ids]. right. exact Hx.
Qed.

Lemma kc_ids_incl pid ch ch' t t' D :
  kids_changed pid ch ch' t t' D -> NoDup (t_ids t) -> NoDup (flat_map t_ids ch') ->
  (forall x, In x (flat_map t_ids ch') -> In x (flat_map t_ids ch)) -> NoDup (t_ids t').
Proof.
  intros Hkc Hnd Hn Hi.
  apply (kc_ids (fun _ => False) _ _ _ _ _ _ Hkc Hnd); [intros x []|exact Hn|].
  intros x Hx. left. apply Hi. exact Hx.
Qed.

Lemma r_tree_cond (b : bool) s : r_tree (if b then request_restore s else s) = r_tree s.
Proof. destruct b; reflexivity. Qed.

Lemma keeps_geo_unlink id :
  keeps_geo (fun j => if opt_eqb (w_fchild j) id then set_fchild j None else j).
Proof.
  split; [|split]; intros i; destruct (opt_eqb (w_fchild i) id); reflexivity.
Qed.

Lemma keeps_geo_link c : keeps_geo (fun j => set_fchild j c).
Proof. split; [|split]; intros i; reflexivity. Qed.

Lemma first_owner_app a b p :
  first_owner (a ++ b) p = match first_owner a p with Some x => Some x | None => first_owner b p end.
Proof.
  induction a as [|c r IH]; [reflexivity|]. cbn [app first_owner].
  destruct (w_vis (t_info c) && cell_inb (w_rect (t_info c)) p); [reflexivity|exact IH].
Qed.

(* ------------------------------------------------------------------------------------ *)
(* restack, as applied at flush time                                                     *)

Theorem restack_applied_preserves app st tm k pid wid :
  ScreenInv app st tm -> ids_unique (r_tree st) ->
  r_fault (do_hchange st k pid wid) = false ->
  ScreenInv app (do_hchange st k pid wid) tm /\ ids_unique (r_tree (do_hchange st k pid wid)).
Proof.
  intros SI Hu Hf. unfold ids_unique in *. unfold do_hchange in *.
  destruct (t_find wid (r_tree st)) as [w|] eqn:Ew; [|split; assumption].
  destruct (in_dec Z.eq_dec pid (t_ids (r_tree st))) as [Hin|Hnin].
  2:{ rewrite (upd_kids_notin _ _ _ Hnin) in *.
      destruct (op_geq app st tm (set_tree st (r_tree st)) (w_vis (t_info w)) pid
                       (Some (w_rect (t_info w))) SI (geq_refl _) (retree_set_tree _ _)) as [SI' Ht'].
      - intros H; discriminate.
      - exact Hf.
      - split; [exact SI'|]. rewrite Ht'. exact Hu. }
  destruct (t_find_some pid _ Hu Hin) as [n Hn].
  destruct (upd_kids_kc (apply_hchange k wid) pid _ n Hu Hn) as [D Hkc].
  destruct (kc_kids_nodup _ _ _ _ _ _ Hkc Hu) as [Hndk _].
  pose proof (hchange_perm k wid (t_kids n) Hndk) as Hperm.
  destruct (op_kids app st tm (set_tree st (t_upd_kids (apply_hchange k wid) pid (r_tree st))) _ pid _ _ D
                    (w_vis (t_info w)) (w_rect (t_info w)) SI Hkc (geq_refl _)
                    (retree_set_tree _ _) Hf) as [SI' Ht'].
  - intros p Hp. apply (first_owner_same_rest wid); [apply hchange_remove| |].
    + intros c Hc Hid. rewrite (kc_kid_is_found _ _ _ _ _ _ wid w c Hkc Hu Ew Hc Hid). exact Hp.
    + intros c Hc Hid. apply (Permutation_in _ Hperm) in Hc.
      rewrite (kc_kid_is_found _ _ _ _ _ _ wid w c Hkc Hu Ew Hc Hid). exact Hp.
  - split; [exact SI'|]. rewrite Ht'. cbn [r_tree set_tree].
    apply (kc_ids_incl _ _ _ _ _ _ Hkc Hu).
    + apply (Permutation_NoDup (l := flat_map t_ids (t_kids n))); [|exact Hndk].
      apply Permutation_sym. apply perm_ids. exact Hperm.
    + intros x Hx. apply (Permutation_in _ (perm_ids _ _ Hperm)). exact Hx.
Qed.

(* ------------------------------------------------------------------------------------ *)
(* close                                                                                 *)

Theorem close_preserves cfg app st tm id :
  ScreenInv app st tm -> ids_unique (r_tree st) ->
  r_fault (win_close cfg st id) = false ->
  ScreenInv app (win_close cfg st id) tm /\ ids_unique (r_tree (win_close cfg st id)).
Proof.
  intros SI Hu Hf. unfold ids_unique in *. unfold win_close in *.
  destruct (t_chain id (r_tree st)) as [[|w [|p rest]]|] eqn:Ech; try (split; assumption).
  destruct (chain_parent id _ w p rest Hu Ech) as (Hidw & Hwp & Hfp & Hfw & Hne & Hpin).
  destruct (upd_kids_kc (kids_remove id) (t_id p) _ p Hu Hfp) as [D Hkc].
  destruct (kc_kids_nodup _ _ _ _ _ _ Hkc Hu) as [Hndk _].
  cbv zeta in *.
  match goal with
  | |- context [if w_vis (t_info w) then win_expose ?s _ _ else _] => set (st1 := s) in *
  end.
  set (tr1 := t_upd_kids (kids_remove id) (t_id p) (r_tree st)) in *.
  set (f2 := fun j => if opt_eqb (w_fchild j) id then set_fchild j None else j) in *.
  assert (Ht1 : r_tree st1 = t_update f2 (t_id p) tr1).
  { subst st1. rewrite r_tree_cond. cbn [r_dsrc set_queue set_orphans set_tree].
    destruct (r_dsrc st) as [src|]; [destruct (negb (d_drag_stale cfg) && id_in src (sub_ids w))|];
      reflexivity. }
  assert (Hre : retree st st1).
  { subst st1. apply retree_cond. cbn [r_dsrc set_queue set_orphans set_tree].
    assert (Hq : forall (l : list (hchange * Z * Z)) g, filter g l <> [] -> l <> []).
    { intros l g H E. apply H. rewrite E. reflexivity. }
    destruct (r_dsrc st) as [src|]; [destruct (negb (d_drag_stale cfg) && id_in src (sub_ids w))|];
      unfold retree;
      cbn [r_damage r_fault r_nexp r_later r_queue set_queue set_orphans set_tree set_drag r_dragging
           r_lbtn r_lline r_lcol];
      (split; [reflexivity|]); (split; [reflexivity|]); (split; [reflexivity|]);
      (split; [tauto|apply Hq]). }
  destruct (op_kids app st tm st1 tr1 (t_id p) _ _ D (w_vis (t_info w)) (w_rect (t_info w)) SI Hkc) as [SI' Ht'].
  - rewrite Ht1. apply geq_update. apply keeps_geo_unlink.
  - exact Hre.
  - exact Hf.
  - intros q Hq. apply first_owner_remove. intros c Hc Hid.
    rewrite (kc_kid_is_found _ _ _ _ _ _ id w c Hkc Hu Hfw Hc Hid). exact Hq.
  - split; [exact SI'|]. rewrite Ht', Ht1. rewrite update_ids by (apply keeps_geo_id; apply keeps_geo_unlink).
    destruct (remove_ids id (t_kids p) Hndk) as [N I].
    apply (kc_ids_incl _ _ _ _ _ _ Hkc Hu N I).
Qed.

(* ------------------------------------------------------------------------------------ *)
(* hide                                                                                  *)

Lemma upd_child_hidden f id ch w p :
  NoDup (flat_map t_ids ch) -> In w ch -> t_id w = id ->
  w_rect (f (t_info w)) = w_rect (t_info w) ->
  cell_inb (w_rect (t_info w)) p = false ->
  hidden_at id ch p /\ hidden_at id (map (upd_child f id) ch) p.
Proof.
  intros Hnd Hw Hid Hr Hp. split.
  - intros c Hc Hidc. assert (c = w) by (apply (kids_same_id ch); auto; congruence). subst c.
    rewrite Hp. apply andb_false_r.
  - intros c' Hc' Hidc'. apply upd_child_in in Hc'. destruct Hc' as (c & Hc & [[Hidc ->]|[Hidc ->]]).
    + assert (c = w) by (apply (kids_same_id ch); auto; congruence). subst c.
      cbn [t_info]. rewrite Hr, Hp. apply andb_false_r.
    + contradiction.
Qed.

Theorem hide_preserves cfg app st tm id :
  ScreenInv app st tm -> ids_unique (r_tree st) -> id <> t_id (r_tree st) ->
  r_fault (win_hide cfg st id) = false ->
  ScreenInv app (win_hide cfg st id) tm /\ ids_unique (r_tree (win_hide cfg st id)).
Proof.
  intros SI Hu Hroot Hf. unfold ids_unique in *. unfold win_hide in *.
  destruct (t_chain id (r_tree st)) as [[|w [|p rest]]|] eqn:Ech.
  - exfalso. exact (chain_nonempty _ _ Ech).
  - exfalso. apply Hroot. destruct (chain_single _ _ _ Ech) as [_ H]. symmetry. exact H.
  - destruct (chain_parent id _ w p rest Hu Ech) as (Hidw & Hwp & Hfp & Hfw & Hne & Hpin).
    assert (Hkf : keeps_id (fun j => set_vis j false)) by (intros i; reflexivity).
    destruct (update_kc _ id (t_id p) Hkf _ p w Hu Hfp Hwp Hidw) as [D Hkc].
    destruct (kc_kids_nodup _ _ _ _ _ _ Hkc Hu) as [Hndk _].
    set (tr1 := t_update (fun j => set_vis j false) id (r_tree st)) in *.
    set (f2 := fun j => if opt_eqb (w_fchild j) id then set_fchild j None else j) in *.
    set (st1 := if opt_eqb (w_fchild (t_info p)) id && negb (d_chain_norestore cfg)
                then request_restore (set_tree st (t_update f2 (t_id p) tr1))
                else set_tree st (t_update f2 (t_id p) tr1)) in *.
    assert (Ht1 : r_tree st1 = t_update f2 (t_id p) tr1) by (subst st1; apply r_tree_cond).
    assert (Hre : retree st st1) by (subst st1; apply retree_cond; apply retree_set_tree).
    destruct (op_kids app st tm st1 tr1 (t_id p) _ _ D true (w_rect (t_info w)) SI Hkc) as [SI' Ht'].
    + rewrite Ht1. apply geq_update. apply keeps_geo_unlink.
    + exact Hre.
    + exact Hf.
    + intros q Hq. cbn [andb] in Hq.
      destruct (upd_child_hidden (fun j => set_vis j false) id (t_kids p) w q Hndk Hwp Hidw eq_refl Hq) as [H1 H2].
      apply (first_owner_same_rest id); [apply upd_child_remove; exact Hkf|exact H1|exact H2].
    + split; [exact SI'|]. cbn [andb] in Ht'. rewrite Ht', Ht1.
      rewrite update_ids by (apply keeps_geo_id; apply keeps_geo_unlink).
      subst tr1. rewrite update_ids by exact Hkf. exact Hu.
  - split; assumption.
Qed.

(* ------------------------------------------------------------------------------------ *)
(* show                                                                                  *)

Theorem show_preserves cfg app st tm id :
  ScreenInv app st tm -> ids_unique (r_tree st) -> id <> t_id (r_tree st) ->
  r_fault (win_show cfg st id) = false ->
  ScreenInv app (win_show cfg st id) tm /\ ids_unique (r_tree (win_show cfg st id)).
Proof.
  intros SI Hu Hroot Hf. unfold ids_unique in *. unfold win_show in *.
  destruct (t_chain id (r_tree st)) as [[|w [|p rest]]|] eqn:Ech.
  - exfalso. exact (chain_nonempty _ _ Ech).
  - exfalso. apply Hroot. destruct (chain_single _ _ _ Ech) as [_ H]. symmetry. exact H.
  - destruct (chain_parent id _ w p rest Hu Ech) as (Hidw & Hwp & Hfp & Hfw & Hne & Hpin).
    assert (Hkf : keeps_id (fun j => set_vis j true)) by (intros i; reflexivity).
    destruct (update_kc _ id (t_id p) Hkf _ p w Hu Hfp Hwp Hidw) as [D Hkc].
    destruct (kc_kids_nodup _ _ _ _ _ _ Hkc Hu) as [Hndk _].
    cbv beta iota zeta in *.
    set (tr1 := t_update (fun j => set_vis j true) id (r_tree st)) in *.
    match goal with
    | |- context [win_expose ?s id None] => set (st1 := s) in *
    end.
    assert (Hg : geq_tree tr1 (r_tree st1)).
    { subst st1. rewrite r_tree_cond. cbn [r_tree set_tree].
      match goal with
      | |- context [if ?c then t_update _ _ _ else _] => destruct c
      end; [apply geq_update; apply keeps_geo_link|apply geq_refl]. }
    assert (Hre : retree st st1) by (subst st1; apply retree_cond; apply retree_set_tree).
    assert (Hu1 : NoDup (t_ids tr1)) by (subst tr1; rewrite update_ids by exact Hkf; exact Hu).
    assert (Hne1 : all_nonempty (r_damage st1)).
    { destruct Hre as (-> & _). apply (si_nonempty _ _ _ SI). }
    assert (Hv1 : w_vis (t_info tr1) = true).
    { rewrite (kc_info _ _ _ _ _ _ Hkc). apply (si_rootvis _ _ _ SI). }
    pose (c' := Node (set_vis (t_info w) true) (t_kids w)).
    assert (Hc' : In c' (map (upd_child (fun j => set_vis j true) id) (t_kids p))).
    { apply (upd_child_in_fwd (fun j => set_vis j true) id (t_kids p) w Hwp Hidw). }
    destruct (kc_child_path _ _ _ _ _ _ c' Hkc Hu1 Hc') as (pth & Hp & Hm).
    assert (Hidc : t_id c' = id) by (rewrite <- Hidw; reflexivity).
    rewrite Hidc in Hp.
    destruct (expose_covers_gen st1 id None tr1 (pth ++ [c']) Hp Hg Hv1) as [Hde Hcov].
    { intros _ H. destruct pth; discriminate. }
    { exact Hne1. }
    { exact Hf. }
    split.
    + apply (preserve_engine app st tm st1 _ (t_id p) _ _ tr1 D
               (fun q => cell_inb (w_rect (t_info w)) q) SI Hkc Hg Hre Hde).
      * intros q Hq.
        destruct (upd_child_hidden (fun j => set_vis j true) id (t_kids p) w q Hndk Hwp Hidw eq_refl Hq) as [H1 H2].
        apply (first_owner_same_rest id); [apply upd_child_remove; exact Hkf|exact H1|exact H2].
      * intros q q' Hq Hr Hq'.
        apply (Hcov q (fst q' - top (w_rect (t_info w)), snd q' - left (w_rect (t_info w)))).
        -- rewrite (kc_info _ _ _ _ _ _ Hkc). apply cell_inb_iff. exact Hq.
        -- rewrite map_app, reach_app. rewrite <- Hm, map_map in Hr. rewrite Hr.
           cbn [map reach]. unfold geo, c'. cbn [fst snd t_info set_vis w_vis w_rect andb].
           rewrite Hq'. reflexivity.
        -- exact I.
    + rewrite (de_tree _ _ Hde), (gq_ids _ _ Hg). exact Hu1.
  - split; assumption.
Qed.

(* ------------------------------------------------------------------------------------ *)
(* new                                                                                   *)

Lemma new_core app st tm id pid' r' (hidden lowest steal : bool) :
  ScreenInv app st tm -> NoDup (t_ids (r_tree st)) -> ~ In id (t_ids (r_tree st)) ->
  In pid' (t_ids (r_tree st)) ->
  forall st1,
  st1 = set_tree st (t_upd_kids (fun ch => if lowest then ch ++ [Node (new_info id r' hidden steal) []]
                                         else Node (new_info id r' hidden steal) [] :: ch) pid' (r_tree st)) ->
  r_fault (if negb hidden then win_expose st1 pid' (Some r') else st1) = false ->
  ScreenInv app (if negb hidden then win_expose st1 pid' (Some r') else st1) tm /\
  NoDup (t_ids (r_tree (if negb hidden then win_expose st1 pid' (Some r') else st1))).
Proof.
  intros SI Hu Hfresh Hin st1 Est1 Hf.
  set (node := Node (new_info id r' hidden steal) []) in *.
  destruct (t_find_some pid' _ Hu Hin) as [n Hn].
  destruct (upd_kids_kc (fun ch => if lowest then ch ++ [node] else node :: ch) pid' _ n Hu Hn) as [D Hkc].
  destruct (kc_kids_nodup _ _ _ _ _ _ Hkc Hu) as [Hndk Hsub].
  destruct (op_kids app st tm st1 _ pid' _ _ D (negb hidden) r' SI Hkc) as [SI' Ht'].
  - rewrite Est1. apply geq_refl.
  - rewrite Est1. apply retree_set_tree.
  - exact Hf.
  - intros q Hq. destruct lowest.
    + rewrite first_owner_app. destruct (first_owner (t_kids n) q); [reflexivity|].
      cbn [first_owner]. unfold node. cbn [t_info new_info w_vis w_rect]. rewrite Hq. reflexivity.
    + cbn [first_owner]. unfold node. cbn [t_info new_info w_vis w_rect]. rewrite Hq. reflexivity.
  - split; [exact SI'|]. rewrite Ht', Est1. cbn [r_tree set_tree].
    apply (kc_ids (fun x => x = id) _ _ _ _ _ _ Hkc Hu).
    + intros x ->. exact Hfresh.
    + destruct lowest.
      * rewrite flat_map_app. apply nodup_app_intro; [exact Hndk| |].
        -- cbn. constructor; [intros []|constructor].
        -- intros x Hx1 Hx2. cbn in Hx2. destruct Hx2 as [<-|[]]. apply Hfresh. apply Hsub. exact Hx1.
      * unfold node; cbn [flat_map t_ids List.app]. constructor; [|exact Hndk].
        intros Hx. apply Hfresh. apply Hsub. exact Hx.
    + intros x Hx. destruct lowest.
      * rewrite flat_map_app in Hx. apply in_app_or in Hx. destruct Hx as [Hx|Hx]; [left; exact Hx|].
        cbn in Hx. destruct Hx as [<-|[]]. right. reflexivity.
      * unfold node; cbn [flat_map t_ids List.app] in Hx. destruct Hx as [<-|Hx]; [right; reflexivity|left; exact Hx].
Qed.

Theorem new_preserves app st tm id pid r hidden lowest rootparent steal :
  ScreenInv app st tm -> ids_unique (r_tree st) -> ~ In id (t_ids (r_tree st)) ->
  r_fault (win_new st id pid r hidden lowest rootparent steal) = false ->
  ScreenInv app (win_new st id pid r hidden lowest rootparent steal) tm /\
  ids_unique (r_tree (win_new st id pid r hidden lowest rootparent steal)).
Proof.
  intros SI Hu Hfresh Hf. unfold ids_unique in *. unfold win_new in *.
  destruct (t_chain pid (r_tree st)) as [chain|] eqn:Ech; [|split; assumption].
  assert (Hpid : In pid (t_ids (r_tree st))).
  { unfold t_chain in Ech. destruct (t_path pid (r_tree st)) as [pp|] eqn:Ep; [|discriminate].
    eapply path_in; exact Ep. }
  assert (Hlast : t_id (last chain (r_tree st)) = t_id (r_tree st)).
  { unfold t_chain in Ech. destruct (t_path pid (r_tree st)) as [pp|] eqn:Ep; [|discriminate].
    injection Ech as <-. destruct (path_head _ _ _ Ep) as [tl ->]. cbn [rev].
    rewrite last_last. reflexivity. }
  destruct rootparent; cbv beta iota zeta in *.
  - rewrite Hlast in *. eapply new_core; try eassumption; [apply t_id_in|reflexivity].
  - eapply new_core; try eassumption. reflexivity.
Qed.

(* ------------------------------------------------------------------------------------ *)
(* expose; queued restack                                                                *)

Lemma retree_refl st : retree st st.
Proof. unfold retree. tauto. Qed.

Theorem expose_preserves app st tm id ex :
  ScreenInv app st tm -> ids_unique (r_tree st) ->
  (ex = None -> id = t_id (r_tree st) -> nonempty (w_rect (t_info (r_tree st)))) ->
  r_fault (win_expose st id ex) = false ->
  ScreenInv app (win_expose st id ex) tm /\ ids_unique (r_tree (win_expose st id ex)).
Proof.
  intros SI Hu Hnone Hf. unfold ids_unique in *.
  destruct (op_geq app st tm st true id ex SI (geq_refl _) (retree_refl st)) as [SI' Ht'].
  - intros He w Hw. destruct (chain_single _ _ _ Hw) as [-> Hid].
    specialize (Hnone He (eq_sym Hid)). unfold nonempty, selfrect in *. cbn [lines cols]. exact Hnone.
  - exact Hf.
  - split; [exact SI'|]. rewrite Ht'. exact Hu.
Qed.

Theorem restack_queued_preserves app st tm k id :
  ScreenInv app st tm -> ids_unique (r_tree st) ->
  ScreenInv app (win_restack st k id) tm /\ ids_unique (r_tree (win_restack st k id)) /\
  r_fault (win_restack st k id) = r_fault st.
Proof.
  intros SI Hu. unfold win_restack.
  destruct (t_parent_id id (r_tree st)) as [pid|]; [|split; [exact SI|split; [exact Hu|reflexivity]]].
  pose proof SI as [Ho Hrv Hs Hne Hc [Hf1 Hf2]].
  destruct (r_queue st) as [|e q] eqn:Eq.
  - split; [|split; [exact Hu|reflexivity]].
    constructor; cbn [r_tree r_damage r_queue r_nexp r_later set_flags set_queue]; try assumption.
    split; [|intros _; reflexivity]. intros Hd. destruct (Hf1 Hd) as [H1 _]. split; [exact H1|reflexivity].
  - split; [|split; [exact Hu|reflexivity]].
    constructor; cbn [r_tree r_damage r_queue r_nexp r_later set_flags set_queue]; try assumption.
    split; [exact Hf1|]. intros _. apply Hf2. discriminate.
Qed.

(* ------------------------------------------------------------------------------------ *)
(* geometry changes followed by the exposes of the old and the new area in the parent    *)

Lemma root_damage_fault st d : r_fault (root_damage st d) = false -> r_fault st = false.
Proof.
  unfold root_damage. destruct (rs_contains (r_fuel st) (r_damage st) d) as [[|]|].
  - tauto.
  - destruct (rs_add (r_fuel st) (r_damage st) d) as [s|].
    + cbn [r_fault set_flags set_damage]. tauto.
    + cbn [r_fault set_fault]. discriminate.
  - cbn [r_fault set_fault]. discriminate.
Qed.

Lemma win_expose_fault st y ex : r_fault (win_expose st y ex) = false -> r_fault st = false.
Proof.
  unfold win_expose. destruct (t_chain y (r_tree st)) as [chain|]; [|tauto].
  destruct (expose_up chain ex) as [d|]; [|tauto]. apply root_damage_fault.
Qed.

Lemma geom_core app st tm st1 id r :
  ScreenInv app st tm -> NoDup (t_ids (r_tree st)) -> id <> t_id (r_tree st) ->
  r_tree st1 = t_update (fun j => set_rect j r) id (r_tree st) -> retree st st1 ->
  r_fault (geom_exposes st st1 id true) = false ->
  ScreenInv app (geom_exposes st st1 id true) tm /\
  NoDup (t_ids (r_tree (geom_exposes st st1 id true))).
Proof.
  intros SI Hu Hroot Ht1 Hre Hf.
  assert (Hkf : keeps_id (fun j => set_rect j r)) by (intros i; reflexivity).
  assert (Hu1 : NoDup (t_ids (r_tree st1))) by (rewrite Ht1, update_ids by exact Hkf; exact Hu).
  assert (Hne1 : all_nonempty (r_damage st1)).
  { destruct Hre as (-> & _). apply (si_nonempty _ _ _ SI). }
  unfold geom_exposes in *. cbn [negb] in *.
  destruct (t_chain id (r_tree st)) as [[|w [|p rest]]|] eqn:Ech.
  - exfalso. exact (chain_nonempty _ _ Ech).
  - exfalso. apply Hroot. destruct (chain_single _ _ _ Ech) as [_ H]. symmetry. exact H.
  - destruct (chain_parent id _ w p rest Hu Ech) as (Hidw & Hwp & Hfp & Hfw & Hne & Hpin).
    destruct (update_kc _ id (t_id p) Hkf _ p w Hu Hfp Hwp Hidw) as [D Hkc].
    destruct (kc_kids_nodup _ _ _ _ _ _ Hkc Hu) as [Hndk _].
    rewrite <- Ht1 in Hkc.
    pose (c' := Node (set_rect (t_info w) r) (t_kids w)).
    assert (Hc' : In c' (map (upd_child (fun j => set_rect j r) id) (t_kids p))).
    { apply (upd_child_in_fwd (fun j => set_rect j r) id (t_kids p) w Hwp Hidw). }
    assert (Hfc : t_find id (r_tree st1) = Some c').
    { destruct (kc_nodes _ _ _ _ _ _ Hkc) as (i & _ & _ & Hs).
      assert (Hsc : subtree c' (r_tree st1)).
      { eapply subtree_trans; [|exact Hs]. apply (subtree_kid c' (Node i _)). exact Hc'. }
      pose proof (t_find_subtree c' _ Hsc Hu1) as H.
      assert (Hidc : t_id c' = id) by (rewrite <- Hidw; reflexivity).
      rewrite Hidc in H. exact H. }
    assert (Hpar : t_parent_id id (r_tree st) = Some (t_id p)).
    { unfold t_parent_id. rewrite Ech. reflexivity. }
    assert (Hw0 : win_rect st id = Some (w_rect (t_info w))).
    { unfold win_rect. rewrite Hfw. reflexivity. }
    assert (Hw1 : win_rect st1 id = Some r).
    { unfold win_rect. rewrite Hfc. reflexivity. }
    rewrite Hpar, Hw0, Hw1 in *.
    set (old := w_rect (t_info w)) in *.
    set (st2 := win_expose st1 (t_id p) (Some old)) in *.
    assert (Hf2 : r_fault st2 = false) by (apply (win_expose_fault _ _ _ Hf)).
    assert (Hv1 : w_vis (t_info (r_tree st1)) = true).
    { rewrite (kc_info _ _ _ _ _ _ Hkc). apply (si_rootvis _ _ _ SI). }
    destruct (expose_covers_kc st1 (t_id p) old _ _ _ _ D Hkc (geq_refl _) Hv1 Hne1 Hf2) as [Hde1 Hcov1].
    fold st2 in Hde1, Hcov1.
    assert (Hg2 : geq_tree (r_tree st1) (r_tree st2)).
    { rewrite (de_tree _ _ Hde1). apply geq_refl. }
    destruct (expose_covers_kc st2 (t_id p) r _ _ _ _ D Hkc Hg2 Hv1 (de_ne _ _ Hde1) Hf) as [Hde2 Hcov2].
    split.
    + apply (preserve_engine app st tm st1 _ (t_id p) _ _ (r_tree st1) D
               (fun q => cell_inb old q || cell_inb r q) SI Hkc (geq_refl _) Hre
               (dmg_ext_trans _ _ _ Hde1 Hde2)).
      * intros q Hq. apply orb_false_iff in Hq. destruct Hq as [Hq1 Hq2].
        apply (first_owner_same_rest id); [apply upd_child_remove; exact Hkf| |].
        -- intros c Hc Hidc.
           assert (c = w) by (apply (kids_same_id (t_kids p)); auto; congruence). subst c.
           fold old. rewrite Hq1. apply andb_false_r.
        -- intros c2 Hc2 Hid2. apply upd_child_in in Hc2.
           destruct Hc2 as (c & Hc & [[Hidc ->]|[Hidc ->]]); [|contradiction].
           cbn [t_info set_rect w_vis w_rect]. rewrite Hq2. apply andb_false_r.
      * intros q q' Hq Hr HE.
        assert (Hqs : cell_in (selfrect (t_info (r_tree st1))) q).
        { rewrite (kc_info _ _ _ _ _ _ Hkc). apply cell_inb_iff. exact Hq. }
        apply orb_true_iff in HE. destruct HE as [H|H].
        -- apply (de_cov _ _ Hde2). apply (Hcov1 q q' Hqs Hr). apply cell_inb_iff. exact H.
        -- apply (Hcov2 q q' Hqs Hr). apply cell_inb_iff. exact H.
    + rewrite (de_tree _ _ Hde2), (de_tree _ _ Hde1). exact Hu1.
  - pose proof (chain_none_notin _ _ Ech) as Hnin.
    assert (Hpar : t_parent_id id (r_tree st) = None).
    { unfold t_parent_id. rewrite Ech. reflexivity. }
    rewrite Hpar in *. split; [|exact Hu1].
    apply (preserve_geq app st tm st1 st1 SI).
    + rewrite Ht1, update_notin by exact Hnin. apply geq_refl.
    + exact Hre.
    + apply dmg_ext_refl; assumption.
Qed.

Theorem geometry_preserves app st tm id r :
  ScreenInv app st tm -> ids_unique (r_tree st) -> id <> t_id (r_tree st) ->
  r_fault (geom_exposes st (win_set_geometry st id r) id true) = false ->
  ScreenInv app (geom_exposes st (win_set_geometry st id r) id true) tm /\
  ids_unique (r_tree (geom_exposes st (win_set_geometry st id r) id true)).
Proof.
  intros SI Hu Hroot Hf. unfold ids_unique in *.
  apply (geom_core app st tm _ id r SI Hu Hroot); [reflexivity|apply retree_set_tree|exact Hf].
Qed.

Lemma geom_absent st id :
  NoDup (t_ids (r_tree st)) -> t_find id (r_tree st) = None -> geom_exposes st st id true = st.
Proof.
  intros Hu Hn. unfold geom_exposes. cbn [negb].
  destruct (in_dec Z.eq_dec id (t_ids (r_tree st))) as [Hin|Hnin].
  - destruct (t_find_some id _ Hu Hin) as [n E]. congruence.
  - unfold t_parent_id, t_chain. rewrite (t_path_notin _ _ Hnin). reflexivity.
Qed.

Theorem reposition_preserves app st tm id t l :
  ScreenInv app st tm -> ids_unique (r_tree st) -> id <> t_id (r_tree st) ->
  r_fault (geom_exposes st (win_reposition st id t l) id true) = false ->
  ScreenInv app (geom_exposes st (win_reposition st id t l) id true) tm /\
  ids_unique (r_tree (geom_exposes st (win_reposition st id t l) id true)).
Proof.
  intros SI Hu Hroot Hf. unfold ids_unique in *. unfold win_reposition in *.
  destruct (t_find id (r_tree st)) as [w|] eqn:Ew.
  - apply (geom_core app st tm _ id (mkRect t l (lines (w_rect (t_info w))) (cols (w_rect (t_info w)))) SI Hu Hroot).
    + destruct (w_focused (t_info w)); reflexivity.
    + apply retree_cond. apply retree_set_tree.
    + exact Hf.
  - rewrite (geom_absent st id Hu Ew). split; assumption.
Qed.

Theorem resize_preserves app st tm id nl nc :
  ScreenInv app st tm -> ids_unique (r_tree st) -> id <> t_id (r_tree st) ->
  r_fault (geom_exposes st (win_resize st id nl nc) id true) = false ->
  ScreenInv app (geom_exposes st (win_resize st id nl nc) id true) tm /\
  ids_unique (r_tree (geom_exposes st (win_resize st id nl nc) id true)).
Proof.
  intros SI Hu Hroot Hf. unfold ids_unique in *. unfold win_resize in *.
  destruct (t_find id (r_tree st)) as [w|] eqn:Ew.
  - apply (geom_core app st tm _ id (mkRect (top (w_rect (t_info w))) (left (w_rect (t_info w))) nl nc) SI Hu Hroot).
    + reflexivity.
    + apply retree_set_tree.
    + exact Hf.
  - rewrite (geom_absent st id Hu Ew). split; assumption.
Qed.

(* ------------------------------------------------------------------------------------ *)
(* the queue of restacks, as win_flush applies it                                        *)

Definition qstep (s : root) (e : hchange * Z * Z) : root :=
  match e with (k, p, w) => do_hchange s k p w end.

Lemma after_queue_eq st :
  after_queue st =
  fold_left qstep (r_queue st) (set_queue (set_flags st (r_nexp st) (r_nrest st) false) []).
Proof. reflexivity. Qed.

(* two states that agree on everything but the r_later flag (and the fields no window
   operation of this file reads) *)
Definition leq (s s' : root) : Prop :=
  r_tree s = r_tree s' /\ r_damage s = r_damage s' /\ r_queue s = r_queue s' /\
  r_nexp s = r_nexp s' /\ r_nrest s = r_nrest s' /\ r_fault s = r_fault s' /\ r_fuel s = r_fuel s'.

Lemma leq_trans a b c : leq a b -> leq b c -> leq a c.
Proof. unfold leq. intuition congruence. Qed.

Lemma root_damage_leq s s' d : leq s s' -> leq (root_damage s d) (root_damage s' d).
Proof.
  intros (A & B & C & D' & E & F & G). unfold root_damage. rewrite B, G.
  destruct (rs_contains (r_fuel s') (r_damage s') d) as [[|]|].
  - unfold leq. tauto.
  - destruct (rs_add (r_fuel s') (r_damage s') d) as [x|]; unfold leq;
      cbn [r_tree r_damage r_queue r_nexp r_nrest r_fault r_fuel r_fuel set_flags set_damage set_fault]; tauto.
  - unfold leq; cbn [r_tree r_damage r_queue r_nexp r_nrest r_fault r_fuel r_fuel set_fault]; tauto.
Qed.

Lemma win_expose_leq s s' y ex : leq s s' -> leq (win_expose s y ex) (win_expose s' y ex).
Proof.
  intros H. pose proof H as (A & _). unfold win_expose. rewrite A.
  destruct (t_chain y (r_tree s')) as [chain|]; [|exact H].
  destruct (expose_up chain ex) as [d|]; [|exact H]. apply root_damage_leq. exact H.
Qed.

Lemma qstep_leq s s' e : leq s s' -> leq (qstep s e) (qstep s' e).
Proof.
  intros H. pose proof H as (A & B & C & D' & E & F & G). destruct e as [[k p] w]. unfold qstep, do_hchange.
  rewrite A. destruct (t_find w (r_tree s')) as [wn|]; [|exact H].
  assert (H1 : leq (set_tree s (t_upd_kids (apply_hchange k w) p (r_tree s')))
                   (set_tree s' (t_upd_kids (apply_hchange k w) p (r_tree s')))).
  { unfold leq; cbn [r_tree r_damage r_queue r_nexp r_nrest r_fault r_fuel set_tree]; tauto. }
  destruct (w_vis (t_info wn)); [apply win_expose_leq|]; exact H1.
Qed.

Lemma fold_leq : forall q s s', leq s s' -> leq (fold_left qstep q s) (fold_left qstep q s').
Proof.
  induction q as [|e q IH]; intros s s' H; [exact H|]. cbn [fold_left]. apply IH. apply qstep_leq. exact H.
Qed.

Lemma root_damage_ql s d :
  r_queue (root_damage s d) = r_queue s /\ (r_later s = true -> r_later (root_damage s d) = true).
Proof.
  unfold root_damage. destruct (rs_contains (r_fuel s) (r_damage s) d) as [[|]|].
  - tauto.
  - destruct (rs_add (r_fuel s) (r_damage s) d) as [x|];
      cbn [r_queue r_later set_flags set_damage set_fault]; tauto.
  - cbn [r_queue r_later set_fault]; tauto.
Qed.

Lemma qstep_ql s e :
  r_queue (qstep s e) = r_queue s /\ (r_later s = true -> r_later (qstep s e) = true).
Proof.
  destruct e as [[k p] w]. unfold qstep, do_hchange.
  destruct (t_find w (r_tree s)) as [wn|]; [|tauto].
  destruct (w_vis (t_info wn)); [|cbn [r_queue r_later set_tree]; tauto].
  unfold win_expose. cbn [r_tree set_tree].
  destruct (t_chain p _) as [chain|]; [|cbn [r_queue r_later set_tree]; tauto].
  destruct (expose_up chain _) as [d|]; [|cbn [r_queue r_later set_tree]; tauto].
  destruct (root_damage_ql (set_tree s (t_upd_kids (apply_hchange k w) p (r_tree s))) d) as [H1 H2].
  cbn [r_queue r_later set_tree] in H1, H2. tauto.
Qed.

Lemma qstep_fault s e : r_fault (qstep s e) = false -> r_fault s = false.
Proof.
  destruct e as [[k p] w]. unfold qstep, do_hchange.
  destruct (t_find w (r_tree s)) as [wn|]; [|tauto].
  destruct (w_vis (t_info wn)); [|cbn [r_fault set_tree]; tauto].
  intros H. apply win_expose_fault in H. exact H.
Qed.

Lemma fold_fault : forall q s, r_fault (fold_left qstep q s) = false -> r_fault s = false.
Proof.
  induction q as [|e q IH]; intros s H; [exact H|]. cbn [fold_left] in H.
  apply (qstep_fault s e). apply IH. exact H.
Qed.

Lemma queue_fold app tm : forall q st,
  ScreenInv app st tm -> NoDup (t_ids (r_tree st)) -> r_queue st = [] -> r_later st = true ->
  r_fault (fold_left qstep q st) = false ->
  ScreenInv app (fold_left qstep q st) tm /\ NoDup (t_ids (r_tree (fold_left qstep q st))) /\
  r_queue (fold_left qstep q st) = [] /\ r_later (fold_left qstep q st) = true.
Proof.
  induction q as [|e q IH]; intros st SI Hu Hq Hl Hf; [cbn [fold_left]; tauto|].
  cbn [fold_left] in *. pose proof (fold_fault _ _ Hf) as Hf1.
  destruct (qstep_ql st e) as [Q1 L1].
  assert (H : ScreenInv app (qstep st e) tm /\ NoDup (t_ids (r_tree (qstep st e)))).
  { destruct e as [[k p] w]. apply restack_applied_preserves; assumption. }
  destruct H as [SI1 Hu1]. apply IH; [exact SI1|exact Hu1|congruence|auto|exact Hf].
Qed.

(* the state after the queue, had r_later not been lowered first *)
Definition queue_applied (st : root) : root := fold_left qstep (r_queue st) (set_queue st []).

Theorem queue_preserves app st tm :
  ScreenInv app st tm -> ids_unique (r_tree st) -> r_later st = true ->
  r_fault (after_queue st) = false ->
  leq (after_queue st) (queue_applied st) /\
  ScreenInv app (queue_applied st) tm /\ ids_unique (r_tree (queue_applied st)) /\
  r_queue (queue_applied st) = [] /\ r_later (queue_applied st) = true /\
  r_queue (after_queue st) = [].
Proof.
  intros SI Hu Hl Hf. unfold ids_unique in *.
  assert (Hleq : leq (after_queue st) (queue_applied st)).
  { rewrite after_queue_eq. unfold queue_applied. apply fold_leq.
    unfold leq; cbn [r_tree r_damage r_queue r_nexp r_nrest r_fault r_fuel set_flags set_queue]; tauto. }
  split; [exact Hleq|].
  assert (SIq : ScreenInv app (set_queue st []) tm).
  { destruct SI as [Ho Hrv Hs Hne Hc [Hf1 Hf2]].
    constructor; cbn [r_tree r_damage r_queue r_nexp r_later set_queue]; try assumption.
    split; [exact Hf1|]. intros H. exfalso. apply H. reflexivity. }
  destruct (queue_fold app tm (r_queue st) (set_queue st []) SIq Hu eq_refl Hl) as (A & B & C & D).
  { fold (queue_applied st). destruct Hleq as (_ & _ & _ & _ & _ & <- & _). exact Hf. }
  fold (queue_applied st) in A, B, C, D.
  split; [exact A|]. split; [exact B|]. split; [exact C|]. split; [exact D|].
  destruct Hleq as (_ & _ & -> & _). exact C.
Qed.

(* ------------------------------------------------------------------------------------ *)
(* the flush with queued restacks                                                        *)

Lemma flush_buffer_leq cfg hnd a a2 : leq a a2 ->
  flush_buffer cfg hnd a = flush_buffer cfg hnd a2 /\
  flush_log (r_tree a) (flush_rects cfg a) = flush_log (r_tree a2) (flush_rects cfg a2).
Proof.
  intros (A & B & _). unfold flush_buffer, flush_rects, root_selfrect. rewrite A, B. split; reflexivity.
Qed.

Lemma win_flush_leq cfg hnd s s' tm st1 tm1 lg1 st2 tm2 lg2 :
  r_later s = true -> r_later s' = true -> leq (after_queue s) (after_queue s') ->
  win_flush cfg hnd s tm = (st1, tm1, lg1) -> win_flush cfg hnd s' tm = (st2, tm2, lg2) ->
  tm1 = tm2 /\ lg1 = lg2 /\ leq st1 st2 /\ r_fault st1 = r_fault (after_queue s).
Proof.
  intros Hl Hl' Hleq H1 H2.
  rewrite (win_flush_unfold cfg hnd s tm Hl) in H1. rewrite (win_flush_unfold cfg hnd s' tm Hl') in H2.
  cbn zeta in H1, H2.
  destruct (flush_buffer_leq cfg hnd _ _ Hleq) as [Eb El].
  pose proof Hleq as (A & B & C & D' & E & F).
  rewrite D', E, Eb, El, A in H1.
  destruct (r_nexp (after_queue s')).
  - injection H1 as <- <- <-. injection H2 as <- <- <-.
    split; [reflexivity|]. split; [reflexivity|]. split; [|reflexivity].
    unfold leq; cbn [r_tree r_damage r_queue r_nexp r_nrest r_fault r_fuel set_flags set_damage]; tauto.
  - destruct (r_nrest (after_queue s')).
    + injection H1 as <- <- <-. injection H2 as <- <- <-.
      split; [reflexivity|]. split; [reflexivity|]. split; [|reflexivity].
      unfold leq; cbn [r_tree r_damage r_queue r_nexp r_nrest r_fault r_fuel set_flags]; tauto.
    + injection H1 as <- <- <-. injection H2 as <- <- <-.
      split; [reflexivity|]. split; [reflexivity|]. split; [exact Hleq|reflexivity].
Qed.

Theorem flush_establishes_any_queue app progs st tm st' tm' lg :
  ScreenInv app st tm -> ids_unique (r_tree st) ->
  (forall id, progs id = [DPaint]) ->
  win_flush no_defects (prog_handler app progs) st tm = (st', tm', lg) ->
  r_fault st' = false ->
  r_damage st' = [] /\
  (forall q, cell_inb (root_selfrect st') q = true -> t_grid tm' q = shows app (r_tree st') q) /\
  ScreenInv app st' tm' /\ ids_unique (r_tree st').
Proof.
  intros SI Hu Hprogs Hfl Hfault.
  destruct (r_later st) eqn:Hl.
  2:{ (* nothing pending *)
      pose proof SI as [Ho Hrv Hs Hne Hc [Hf1 Hf2]].
      unfold win_flush in Hfl. rewrite Hl in Hfl. cbn [negb] in Hfl. injection Hfl as <- <- <-.
      assert (E : r_damage st = []).
      { destruct (r_damage st) as [|x rest] eqn:E; [reflexivity|].
        destruct Hf1 as [_ H2]; [discriminate|congruence]. }
      split; [exact E|]. split; [|split; assumption].
      intros q Hq. destruct (Hc q Hq) as [H|H]; [exact H|]. rewrite E in H. apply covered_nil in H. tauto. }
  set (st2 := queue_applied st).
  destruct (win_flush no_defects (prog_handler app progs) st2 tm) as [[X Y] Z] eqn:Hfl2.
  (* the fault flag of the result is that of the state after the queue *)
  assert (Hfa : r_fault (after_queue st) = false).
  { pose proof Hfl as H. rewrite (win_flush_unfold _ _ st tm Hl) in H. cbn zeta in H.
    destruct (r_nexp (after_queue st)); [|destruct (r_nrest (after_queue st))];
      injection H as <- _ _; exact Hfault. }
  destruct (queue_preserves app st tm SI Hu Hl Hfa) as (Hleq & SI2 & Hu2 & Hq2 & Hl2 & Hqa).
  fold st2 in Hleq, SI2, Hu2, Hq2, Hl2.
  assert (Haq2 : after_queue st2 = set_flags st2 (r_nexp st2) (r_nrest st2) false).
  { rewrite after_queue_eq. cbn [r_queue set_flags]. rewrite Hq2. cbn [fold_left].
    unfold set_queue, set_flags; cbn. rewrite Hq2. reflexivity. }
  assert (Hleq2 : leq (after_queue st) (after_queue st2)).
  { apply (leq_trans _ st2); [exact Hleq|]. rewrite Haq2.
    unfold leq; cbn [r_tree r_damage r_queue r_nexp r_nrest r_fault r_fuel set_flags]; tauto. }
  destruct (win_flush_leq _ _ st st2 tm _ _ _ _ _ _ Hl Hl2 Hleq2 Hfl Hfl2) as (-> & -> & HleqX & _).
  destruct (flush_establishes app progs st2 tm X Y Z SI2 Hq2 Hprogs Hfl2) as (Hd & Ht & Hcells & SIX).
  destruct HleqX as (A & B & C & D' & E & F).
  assert (Hsr : root_selfrect st' = root_selfrect X) by (unfold root_selfrect; rewrite A; reflexivity).
  split; [rewrite B; exact Hd|].
  split; [intros q Hq; rewrite A; apply Hcells; rewrite <- Hsr; exact Hq|].
  split.
  - destruct SIX as [Ho Hrv Hs Hne Hc [Hf1 Hf2]].
    constructor; rewrite ?A, ?B, ?Hsr; try assumption.
    rewrite Hd. split; [intros H; exfalso; apply H; reflexivity|].
    intros H. exfalso. apply H. rewrite C.
    (* the queue of the flushed state is that of queue_applied, i.e. empty *)
    pose proof Hfl2 as H2. rewrite (win_flush_unfold _ _ st2 tm Hl2) in H2. cbn zeta in H2.
    rewrite Haq2 in H2. cbn [r_nexp r_nrest set_flags] in H2.
    destruct (r_nexp st2); [|destruct (r_nrest st2)]; injection H2 as <- _ _;
      cbn [r_queue set_flags set_damage]; exact Hq2.
  - unfold ids_unique in *. rewrite A, Ht. exact Hu2.
Qed.

(* ------------------------------------------------------------------------------------ *)
(* tree changes the composition does not see: the control setters and take_focus         *)

Lemma preserve_retree app st tm st1 :
  ScreenInv app st tm -> geq_tree (r_tree st) (r_tree st1) -> retree st st1 ->
  ScreenInv app st1 tm.
Proof.
  intros SI Hgeq (R1 & R2 & R3 & R4 & R5).
  pose proof SI as [Ho Hrv Hs Hne Hc [Hf1 Hf2]].
  apply (preserve_cells app st tm st1 SI).
  - apply (gq_root _ _ Hgeq).
  - rewrite R1. exact Hne.
  - intros q Hq. left. apply (gq_owner _ _ Hgeq).
  - intros q Hq. rewrite R1. exact Hq.
  - rewrite R1, R3. intros Hd. destruct (Hf1 Hd) as [H1 H2]. split; [exact H1|apply R4; exact H2].
  - intros Hq. apply R4. apply Hf2. apply R5. exact Hq.
Qed.

Theorem setctl_preserves app st tm id f restore :
  keeps_geo f -> ScreenInv app st tm -> ids_unique (r_tree st) ->
  ScreenInv app (win_setctl st id f restore) tm /\
  ids_unique (r_tree (win_setctl st id f restore)) /\
  r_fault (win_setctl st id f restore) = r_fault st.
Proof.
  intros Hf SI Hu. unfold ids_unique in *. unfold win_setctl.
  destruct (t_find id (r_tree st)) as [w|]; [|split; [exact SI|split; [exact Hu|reflexivity]]].
  set (st1 := if restore && w_focused (t_info w)
              then request_restore (set_tree st (t_update f id (r_tree st)))
              else set_tree st (t_update f id (r_tree st))).
  assert (Ht1 : r_tree st1 = t_update f id (r_tree st)) by (subst st1; apply r_tree_cond).
  assert (Hre : retree st st1) by (subst st1; apply retree_cond; apply retree_set_tree).
  split; [|split].
  - apply (preserve_retree app st tm st1 SI); [|exact Hre]. rewrite Ht1. apply geq_update. exact Hf.
  - rewrite Ht1, update_ids by (apply keeps_geo_id; exact Hf). exact Hu.
  - destruct Hre as (_ & H & _). exact H.
Qed.

(* the info changes of WinHist.step that go through win_setctl *)
Lemma keeps_geo_ctl :
  (forall l c, keeps_geo (fun j => set_cpos j l c)) /\ (forall b, keeps_geo (fun j => set_cvis j b)) /\
  (forall s, keeps_geo (fun j => set_cshape j s)) /\ (forall b, keeps_geo (fun j => set_cblink j b)) /\
  (forall b, keeps_geo (fun j => set_notify j b)) /\ (forall b, keeps_geo (fun j => set_steal j b)).
Proof.
  repeat split; intros; reflexivity.
Qed.

Theorem take_focus_preserves cfg app st tm id :
  ScreenInv app st tm -> ids_unique (r_tree st) ->
  ScreenInv app (fst (win_take_focus cfg st id)) tm /\
  ids_unique (r_tree (fst (win_take_focus cfg st id))) /\
  r_fault (fst (win_take_focus cfg st id)) = r_fault st.
Proof.
  intros SI Hu. unfold ids_unique in *. unfold win_take_focus.
  destruct (t_chain id (r_tree st)) as [chain|];
    [|cbn [fst]; split; [exact SI|split; [exact Hu|reflexivity]]].
  pose proof (strip_focus_gained cfg (map t_id chain) None (r_tree st)) as Hs.
  destruct (focus_gained cfg (map t_id chain) None (r_tree st)) as [[tr ev] rs].
  cbn [fst] in *. apply strip_eq_geq in Hs.
  set (st1 := if rs then request_restore (set_tree st tr) else set_tree st tr).
  assert (Ht1 : r_tree st1 = tr) by (subst st1; apply r_tree_cond).
  assert (Hre : retree st st1) by (subst st1; apply retree_cond; apply retree_set_tree).
  split; [|split].
  - apply (preserve_retree app st tm st1 SI); [|exact Hre]. rewrite Ht1. exact Hs.
  - rewrite Ht1, (gq_ids _ _ Hs). exact Hu.
  - destruct Hre as (_ & H & _). exact H.
Qed.

(* ------------------------------------------------------------------------------------ *)
(* the steps of WinHist.step that change the tree or the damage without touching the     *)
(* terminal                                                                              *)

Definition op_side (st : root) (o : op) : Prop :=
  match o with
  | ONew id _ _ _ _ _ _ => ~ In id (t_ids (r_tree st))
  | OShow id | OHide id => id <> t_id (r_tree st)
  | OGeom id _ ex | OMove id _ _ ex | OResize id _ _ ex => ex = true /\ id <> t_id (r_tree st)
  | OExpose id ex => ex = None -> id = t_id (r_tree st) -> nonempty (w_rect (t_info (r_tree st)))
  | OClose _ | ORestack _ _ | OFocus _ | OCurPos _ _ _ | OCurVis _ _ | OCurShape _ _
  | OCurBlink _ _ | ONotify _ _ | OSteal _ _ => True
  | OFlush | OScroll _ _ _ | OScrollRect _ _ _ _ | OScrollKids _ _ _ | OTermResize _ _ => False
  end.

Theorem step_preserves cfg progs o m :
  ScreenInv (m_app m) (m_root m) (m_term m) -> ids_unique (r_tree (m_root m)) ->
  op_side (m_root m) o -> r_fault (m_root (step cfg progs o m)) = false ->
  ScreenInv (m_app (step cfg progs o m)) (m_root (step cfg progs o m)) (m_term (step cfg progs o m)) /\
  ids_unique (r_tree (m_root (step cfg progs o m))).
Proof.
  intros SI Hu Hside Hf.
  destruct (keeps_geo_ctl) as (K1 & K2 & K3 & K4 & K5 & K6).
  destruct o; cbn [step op_side] in *; unfold m_set_root in *; cbn [m_root m_app m_term] in *;
    try contradiction.
  - apply new_preserves; assumption.
  - apply close_preserves; assumption.
  - apply show_preserves; assumption.
  - apply hide_preserves; assumption.
  - destruct (restack_queued_preserves (m_app m) (m_root m) (m_term m) k id SI Hu) as (A & B & _).
    split; assumption.
  - destruct Hside as [-> Hr]. apply geometry_preserves; assumption.
  - destruct Hside as [-> Hr]. apply reposition_preserves; assumption.
  - destruct Hside as [-> Hr]. apply resize_preserves; assumption.
  - apply expose_preserves; assumption.
  - pose proof (take_focus_preserves cfg (m_app m) (m_root m) (m_term m) id SI Hu) as (A & B & _).
    destruct (win_take_focus cfg (m_root m) id) as [st' ev]. cbn [fst m_root m_app m_term] in *.
    split; assumption.
  - destruct (setctl_preserves (m_app m) (m_root m) (m_term m) id _ true (K1 l c) SI Hu) as (A & B & _).
    split; assumption.
  - destruct (setctl_preserves (m_app m) (m_root m) (m_term m) id _ true (K2 b) SI Hu) as (A & B & _).
    split; assumption.
  - destruct (setctl_preserves (m_app m) (m_root m) (m_term m) id _ true (K3 s) SI Hu) as (A & B & _).
    split; assumption.
  - destruct (setctl_preserves (m_app m) (m_root m) (m_term m) id _ true
                (K4 (if b then 1 else 0)) SI Hu) as (A & B & _).
    split; assumption.
  - destruct (setctl_preserves (m_app m) (m_root m) (m_term m) id _ false (K5 b) SI Hu) as (A & B & _).
    split; assumption.
  - destruct (setctl_preserves (m_app m) (m_root m) (m_term m) id _ false (K6 b) SI Hu) as (A & B & _).
    split; assumption.
Qed.
