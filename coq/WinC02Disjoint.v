(* WinC02Disjoint.v -- the rectangles handed to one window during one flush never overlap,
   from the rectangle-set invariant of the damage (C05's Inv, kept by every operation of the
   window layer: WinScrollInv.dinv_step) instead of as a hypothesis. *)
From Coq Require Import ZArith List Bool Lia ZifyBool.
From Tickit Require Import RectDefs RectProofs WinRectSet WinRectSetProofs WinDefs WinSpec WinHist
  WinExposeProofs WinLogDisjoint WinFlushProofs WinScreenInv WinPreserve WinScrollInv.
Import ListNotations.
Local Open Scope Z_scope.
Local Strategy 1000 [rsfuel].

Lemma disjoint2_sub a a' b b' :
  (forall p, cell_in a' p -> cell_in a p) -> (forall p, cell_in b' p -> cell_in b p) ->
  disjoint2 a b -> disjoint2 a' b'.
Proof. intros Ha Hb Hd p [H1 H2]. apply (Hd p). split; [apply Ha|apply Hb]; assumption. Qed.

(* clipping every member to the same rectangle keeps the members pairwise disjoint *)
Lemma clip_all_disjoint bounds : forall s,
  pairwise_disjoint s ->
  pairwise_disjoint (flat_map (fun r => match r_intersect r bounds with Some k => [k] | None => [] end) s) /\
  forall k, In k (flat_map (fun r => match r_intersect r bounds with Some k => [k] | None => [] end) s) ->
            exists r, In r s /\ forall p, cell_in k p -> cell_in r p.
Proof.
  induction s as [|x rest IH]; intros Hpd; cbn [flat_map].
  - split; [exact I|]. intros k [].
  - destruct Hpd as [Hx Hrest]. destruct (IH Hrest) as [IH1 IH2].
    destruct (r_intersect x bounds) as [k|] eqn:Ek; cbn [app].
    + apply intersect_some in Ek. destruct Ek as [_ Ek]. split.
      * split; [|exact IH1]. apply Forall_forall. intros k' Hk'.
        destruct (IH2 k' Hk') as (r & Hr & Hsub).
        apply (disjoint2_sub x k r k'); [intros p Hp; apply Ek in Hp; tauto|exact Hsub|].
        rewrite Forall_forall in Hx. apply Hx; exact Hr.
      * intros k' [<-|Hk'].
        -- exists x. split; [left; reflexivity|]. intros p Hp. apply Ek in Hp. tauto.
        -- destruct (IH2 k' Hk') as (r & Hr & Hsub). exists r. split; [right; exact Hr|exact Hsub].
    + split; [exact IH1|]. intros k' Hk'. destruct (IH2 k' Hk') as (r & Hr & Hsub).
      exists r. split; [right; exact Hr|exact Hsub].
Qed.

Lemma flush_rects_disjoint cfg st :
  pairwise_disjoint (r_damage st) -> pairwise_disjoint (flush_rects cfg st).
Proof.
  intros H. unfold flush_rects. destruct (d_flush_noclip cfg); [exact H|].
  apply (clip_all_disjoint (root_selfrect st) (r_damage st) H).
Qed.

Lemma after_queue_inv st : Inv (r_damage st) -> Inv (r_damage (after_queue st)).
Proof.
  intros H. unfold after_queue. apply dinv_queue. exact H.
Qed.

(* the damage rectangles a flush works through are pairwise disjoint *)
Theorem flush_damage_disjoint cfg st :
  Inv (r_damage st) -> pairwise_disjoint (flush_rects cfg (after_queue st)).
Proof.
  intros H. apply flush_rects_disjoint. apply inv_disjoint. apply after_queue_inv. exact H.
Qed.

Theorem flush_log_rects_disjoint cfg hnd st tm st' tm' lg :
  ids_unique (r_tree st') -> Inv (r_damage st) ->
  win_flush cfg hnd st tm = (st', tm', lg) ->
  forall i j id r1 r2, i <> j ->
    nth_error lg i = Some (id, r1) -> nth_error lg j = Some (id, r2) -> disjoint2 r1 r2.
Proof.
  intros Hu Hinv Hfl i j id r1 r2 Hij H1 H2.
  destruct (r_later st) eqn:Hl.
  2:{ unfold win_flush in Hfl. rewrite Hl in Hfl. cbn [negb] in Hfl. injection Hfl as <- <- <-.
      destruct i; discriminate. }
  rewrite (win_flush_unfold cfg hnd st tm Hl) in Hfl. cbn zeta in Hfl.
  destruct (r_nexp (after_queue st)).
  - injection Hfl as <- <- <-. cbn [r_tree set_flags set_damage] in Hu.
    apply (flush_log_disjoint (r_tree (after_queue st)) (flush_rects cfg (after_queue st)) Hu
             (flush_damage_disjoint cfg st Hinv) i j id r1 r2 Hij H1 H2).
  - destruct (r_nrest (after_queue st)); injection Hfl as <- <- <-; destruct i; discriminate.
Qed.
