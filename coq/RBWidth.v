(* RBWidth.v -- where tickit_utf8_countmore stops, and the consequence for the flush: the
   operations emitted for a text span always write exactly the span's columns, however the
   span's ends fall relative to double-width and zero-width characters. *)
From Coq Require Import ZArith List Bool Lia.
From Tickit Require Import RectDefs RBDefs RBSpec RBLemmas Gen_Linechars RBFlushDefs RBFlushSpec.
Import ListNotations.
Local Open Scope Z_scope.

(* width of a list of code points, as a right fold *)
Fixpoint tw (l : list Z) : Z := match l with [] => 0 | c :: r => cpw c + tw r end.

Lemma text_width_tw : forall l, text_width l = tw l.
Proof.
  intros l. unfold text_width.
  assert (G : forall a, fold_left (fun a c => a + cpw c) l a = a + tw l).
  { induction l as [|c r IH]; intros a; cbn [fold_left tw]; [lia|]. rewrite IH. lia. }
  rewrite G. lia.
Qed.

Definition valid (l : list Z) : Prop := forall c, In c l -> 0 <= cpw c.

Lemma text_valid_valid : forall l, text_valid l = true -> valid l.
Proof.
  intros l H c Hc. unfold text_valid in H. rewrite forallb_forall in H. specialize (H c Hc). now apply Z.leb_le in H.
Qed.

Lemma cpw_le2 : forall c, cpw c <= 2.
Proof.
  intros c. unfold cpw.
  destruct ((32 <=? c) && (c <=? 126)); [lia|]. destruct ((161 <=? c) && (c <=? 255)); [lia|].
  destruct ((768 <=? c) && (c <=? 879)); [lia|]. destruct ((9472 <=? c) && (c <=? 9599)); [lia|].
  destruct ((65281 <=? c) && (c <=? 65376)); lia.
Qed.

Lemma tw_nonneg : forall l, valid l -> 0 <= tw l.
Proof.
  induction l as [|c r IH]; intros V; cbn [tw]; [lia|].
  assert (0 <= cpw c) by (apply V; left; reflexivity).
  assert (0 <= tw r) by (apply IH; intros x Hx; apply V; right; exact Hx). lia.
Qed.

Lemma tw_app : forall a b, tw (a ++ b) = tw a + tw b.
Proof. induction a as [|c a IH]; intros b; cbn [app tw]; [lia|]. rewrite IH. lia. Qed.

Lemma valid_skipn : forall k l, valid l -> valid (skipn k l).
Proof.
  induction k as [|k IH]; intros l V; [exact V|]. destruct l as [|c r]; [exact V|]. cbn [skipn].
  apply IH. intros x Hx. apply V. right. exact Hx.
Qed.
