(* RBWidth.v -- where tickit_utf8_countmore stops, and the consequence for the flush: the
   operations emitted for a text span always write exactly the span's columns, however the
   span's ends fall relative to double-width and zero-width characters. *)
From Coq Require Import ZArith List Bool Lia.
From Tickit Require Utf8Spec Utf8Tables.
From Tickit Require Import RectDefs RBDefs RBSpec RBLemmas Gen_Linechars RBFlushDefs RBFlushSpec.
Import ListNotations.
Local Open Scope Z_scope.

(* width of a list of code points, as a right fold *)
Fixpoint tw (l : list Z) : Z := match l with [] => 0 | c :: r => cpw c + tw r end.

Lemma text_width_tw : forall l, text_width l = tw l.
Proof.
  intros l. unfold text_width.
  assert (G : forall a, fold_left (fun a c => a + cpw c) l a = a + tw l).
  { induction l as [|c r IH]; intros a; cbn [fold_left tw]; [lia|]. rewrite IH. lia. }
  rewrite G. lia.
Qed.

Definition valid (l : list Z) : Prop := forall c, In c l -> 0 <= cpw c.

Lemma text_valid_valid : forall l, text_valid l = true -> valid l.
Proof.
  intros l H c Hc. unfold text_valid in H. rewrite forallb_forall in H. specialize (H c Hc). now apply Z.leb_le in H.
Qed.

Lemma cpw_le2 : forall c, cpw c <= 2.
Proof.
  intros c. unfold cpw. destruct (_ || _); [lia|]. pose proof (Utf8Tables.spec_width_range c). lia.
Qed.

Lemma tw_nonneg : forall l, valid l -> 0 <= tw l.
Proof.
  induction l as [|c r IH]; intros V; cbn [tw]; [lia|].
  assert (0 <= cpw c) by (apply V; left; reflexivity).
  assert (0 <= tw r) by (apply IH; intros x Hx; apply V; right; exact Hx). lia.
Qed.

Lemma tw_app : forall a b, tw (a ++ b) = tw a + tw b.
Proof. induction a as [|c a IH]; intros b; cbn [app tw]; [lia|]. rewrite IH. lia. Qed.

Lemma valid_skipn : forall k l, valid l -> valid (skipn k l).
Proof.
  induction k as [|k IH]; intros l V; [exact V|]. destruct l as [|c r]; [exact V|]. cbn [skipn].
  apply IH. intros x Hx. apply V. right. exact Hx.
Qed.

(* ---------------------------------------------------------------------------------- *)
(* where countmore stops (column limit only): it consumes k code points of [rest], arrives at a
   position whose column is start + width of what it consumed, never beyond the limit, and the
   next code point -- if there is one -- is a base character that no longer fits.  The result
   does not depend on [pos]: a zero-width code point never stops the count. *)

Lemma countmore_stop : forall rest pos here lc,
  valid rest -> sp_col here <= lc -> 0 <= sp_col here ->
  exists k g, (k <= length rest)%nat /\
    countmore rest pos here (-1) lc =
      mkPos (sp_cp here + Z.of_nat k) g (sp_col here + tw (firstn k rest)) /\
    sp_col here + tw (firstn k rest) <= lc /\
    (k = length rest \/
     exists c, nth_error rest k = Some c /\ 0 < cpw c /\ sp_col here + tw (firstn k rest) + cpw c > lc).
Proof.
  induction rest as [|c rest IH]; intros pos here lc V Hle H0.
  - exists 0%nat, (sp_gr here). cbn [countmore length firstn tw]. destruct here as [a b d]. cbn [sp_cp sp_gr sp_col] in *.
    split; [lia|]. split; [f_equal; lia|]. split; [lia|]. left. reflexivity.
  - cbn [countmore].
    assert (Hc : 0 <= cpw c) by (apply V; left; reflexivity).
    assert (Vr : valid rest) by (intros x Hx; apply V; right; exact Hx).
    cbn [Z.eqb Pos.eqb negb andb].
    assert (Hlc : (lc =? -1) = false) by (apply Z.eqb_neq; lia). rewrite Hlc. cbn [negb andb].
    destruct (Z.gtb_spec (sp_col here + cpw c) lc) as [Hgt|Hfit].
    + (* does not fit: a base character; stop here *)
      assert (0 < cpw c) by lia. destruct (Z.ltb_spec 0 (cpw c)); [|lia].
      exists 0%nat, (sp_gr here). cbn [firstn tw length nth_error]. destruct here as [a b d]. cbn [sp_cp sp_gr sp_col] in *.
      split; [lia|]. split; [f_equal; lia|]. split; [lia|]. right. exists c. split; [reflexivity|]. split; lia.
    + set (here' := mkPos (sp_cp here + 1) (sp_gr here + (if 0 <? cpw c then 1 else 0)) (sp_col here + cpw c)).
      destruct (IH (if 0 <? cpw c then here else pos) here' lc Vr) as (k & g & Hk & E & Hb & Hn);
        [cbn [here' sp_col]; lia|cbn [here' sp_col]; lia|].
      exists (S k), g. cbn [length firstn tw nth_error].
      split; [lia|]. split.
      * rewrite E. cbn [here' sp_cp sp_col]. f_equal; lia.
      * cbn [here' sp_col] in Hb, Hn. split; [lia|].
        destruct Hn as [Hn|(c' & Hn1 & Hn2 & Hn3)]; [left; lia|right]. exists c'. split; [exact Hn1|]. split; lia.
Qed.

(* specialised to the two ways renderbuffer.c counts *)
Lemma count_from0_stop : forall s lc,
  valid s -> 0 <= lc ->
  exists k g, (k <= length s)%nat /\
    count_from0 s (-1) lc = mkPos (Z.of_nat k) g (tw (firstn k s)) /\
    tw (firstn k s) <= lc /\
    (k = length s \/ exists c, nth_error s k = Some c /\ 0 < cpw c /\ tw (firstn k s) + cpw c > lc).
Proof.
  intros s lc V Hl. unfold count_from0.
  destruct (countmore_stop s spos0 spos0 lc V) as (k & g & Hk & E & Hb & Hn); cbn [spos0 sp_col]; try lia.
  exists k, g. cbn [spos0 sp_cp sp_col] in *. rewrite E. repeat split; auto; try lia.
Qed.

Lemma firstn_skipn_tw : forall a b (s : list Z), tw (firstn (a + b) s) = tw (firstn a s) + tw (firstn b (skipn a s)).
Proof.
  induction a as [|a IH]; intros b s; cbn [plus firstn skipn tw]; [lia|].
  destruct s as [|c s]; cbn [firstn skipn tw]; [destruct b; cbn; lia|]. rewrite IH. lia.
Qed.

Lemma count_on_stop : forall s k0 g0 lc,
  valid s -> (k0 <= length s)%nat -> 0 <= tw (firstn k0 s) <= lc ->
  exists k g, (k0 <= k <= length s)%nat /\
    count_on s (mkPos (Z.of_nat k0) g0 (tw (firstn k0 s))) (-1) lc = mkPos (Z.of_nat k) g (tw (firstn k s)) /\
    tw (firstn k s) <= lc /\
    (k = length s \/ exists c, nth_error s k = Some c /\ 0 < cpw c /\ tw (firstn k s) + cpw c > lc).
Proof.
  intros s k0 g0 lc V Hk0 Hc. unfold count_on, skipz. cbn [sp_cp]. rewrite Nat2Z.id.
  set (p0 := mkPos (Z.of_nat k0) g0 (tw (firstn k0 s))).
  destruct (countmore_stop (skipn k0 s) p0 p0 lc (valid_skipn k0 s V)) as (k & g & Hk & E & Hb & Hn);
    cbn [p0 sp_col]; try lia.
  rewrite skipn_length in Hk.
  exists (k0 + k)%nat, g. split; [lia|]. rewrite E. cbn [p0 sp_cp sp_col] in *.
  rewrite firstn_skipn_tw.
  split; [f_equal; lia|]. split; [lia|].
  destruct Hn as [Hn|(c & Hn1 & Hn2 & Hn3)].
  - left. rewrite skipn_length in Hn. lia.
  - right. exists c. split; [|split; [assumption|lia]].
    rewrite <- Hn1. clear. revert s. induction k0 as [|k0 IH]; intros s; cbn [plus skipn]; [reflexivity|].
    destruct s as [|x s]; cbn [nth_error skipn]; [destruct k; reflexivity|apply IH].
Qed.

(* ---------------------------------------------------------------------------------- *)
(* the text case of the flush prints exactly the span's columns *)

Lemma firstn_all_tw : forall (s : list Z), tw (firstn (length s) s) = tw s.
Proof. intros. now rewrite firstn_all. Qed.

Lemma tw_firstn_S : forall s k c, nth_error s k = Some c -> tw (firstn (S k) s) = tw (firstn k s) + cpw c.
Proof.
  induction s as [|x s IH]; intros k c H; [destruct k; discriminate|].
  destruct k as [|k]; cbn [nth_error] in H.
  - inversion H; subst. cbn [firstn tw]. lia.
  - rewrite !firstn_cons. cbn [tw]. rewrite (IH k c H). lia.
Qed.

Lemma valid_firstn : forall k l, valid l -> valid (firstn k l).
Proof.
  induction k as [|k IH]; intros l V; [intros c []|]. destruct l as [|x r]; [intros c []|]. cbn [firstn].
  intros c [<-|Hc]; [apply V; left; reflexivity|]. apply (IH r); [intros y Hy; apply V; right; exact Hy|exact Hc].
Qed.

Lemma tw_firstn_mono : forall s a b, valid s -> (a <= b)%nat -> tw (firstn a s) <= tw (firstn b s).
Proof.
  intros s a b V H. replace b with (a + (b - a))%nat by lia. rewrite firstn_skipn_tw.
  assert (0 <= tw (firstn (b - a) (skipn a s))) by (apply tw_nonneg, valid_firstn, valid_skipn, V).
  lia.
Qed.

Lemma log_cols_app : forall a b, log_cols (a ++ b) = log_cols a + log_cols b.
Proof.
  intros a b. unfold log_cols.
  assert (G : forall l z, fold_left (fun a o => a + op_cols o) l z = z + fold_left (fun a o => a + op_cols o) l 0).
  { induction l as [|o l IH]; intros z; cbn [fold_left]; [lia|]. rewrite IH, (IH (0 + op_cols o)). lia. }
  rewrite fold_left_app, G. lia.
Qed.

Lemma log_cols_blanks : forall k, log_cols (repeat (TPrint [32]) k) = Z.of_nat k.
Proof.
  induction k as [|k IH]; [reflexivity|]. change (repeat (TPrint [32]) (S k)) with ([TPrint [32]] ++ repeat (TPrint [32]) k).
  rewrite log_cols_app, IH. unfold log_cols. cbn [fold_left op_cols]. change (text_width [32]) with 1. lia.
Qed.

(* the positions text_emit computes, and the width of what it prints *)
Theorem text_emit_cols : forall p s offs n,
  text_valid s = true -> 0 <= offs -> 1 <= n -> offs + n <= text_width s ->
  log_cols (text_emit p s offs n) = n.
Proof.
  intros p s offs n Hv Ho Hn Hw. rewrite text_width_tw in Hw.
  assert (V := text_valid_valid s Hv).
  unfold text_emit, slice_start, slice_end.
  destruct (count_from0_stop s offs V Ho) as (k0 & g0 & Hk0 & E0 & B0 & N0). rewrite E0. cbn [sp_col sp_cp].
  (* the start of the slice: st, at column c1 with offs <= c1 <= offs + 1 *)
  assert (ST : exists k1 g1, (k1 <= length s)%nat /\
             (if tw (firstn k0 s) <? offs
              then count_on s (mkPos (Z.of_nat k0) g0 (tw (firstn k0 s))) (-1) (offs + 1)
              else mkPos (Z.of_nat k0) g0 (tw (firstn k0 s))) = mkPos (Z.of_nat k1) g1 (tw (firstn k1 s)) /\
             offs <= tw (firstn k1 s) <= offs + 1).
  { destruct (Z.ltb_spec (tw (firstn k0 s)) offs) as [Hlt|Hge].
    - (* cut inside a double-width character *)
      destruct N0 as [N0|(c & Hc & Hc1 & Hc2)].
      + exfalso. subst k0. rewrite firstn_all_tw in Hlt. lia.
      + pose proof (cpw_le2 c).
        assert (Hk0' : (k0 < length s)%nat) by (apply nth_error_Some; congruence).
        destruct (count_on_stop s k0 g0 (offs + 1) V Hk0) as (k1 & g1 & Hk1 & E1 & B1 & N1).
        { pose proof (tw_nonneg (firstn k0 s) (valid_firstn k0 s V)). lia. }
        exists k1, g1. split; [lia|]. split; [exact E1|]. split; [|lia].
        (* it got past the double-width character *)
        destruct (Nat.eq_dec k1 k0) as [->|Hne].
        * exfalso. destruct N1 as [N1|(c' & Hc' & Hc1' & Hc2')]; [lia|]. rewrite Hc in Hc'. inversion Hc'; subst c'. lia.
        * assert (Hm := tw_firstn_mono s (S k0) k1 V ltac:(lia)). rewrite (tw_firstn_S s k0 c Hc) in Hm. lia.
    - exists k0, g0. split; [lia|]. split; [reflexivity|]. lia. }
  destruct ST as (k1 & g1 & Hk1 & E1 & C1). rewrite E1. cbn [sp_col sp_cp].
  destruct (count_on_stop s k1 g1 (offs + n) V Hk1) as (k2 & g2 & Hk2 & E2 & B2 & N2).
  { pose proof (tw_nonneg (firstn k1 s) (valid_firstn k1 s V)). lia. }
  rewrite E2. cbn [sp_col sp_cp].
  assert (Hm := tw_firstn_mono s k1 k2 V ltac:(lia)).
  change (TSetPen p :: ?l) with ([TSetPen p] ++ l).
  rewrite !log_cols_app, !log_cols_blanks.
  assert (Es : log_cols (if Z.of_nat k1 <? Z.of_nat k2
                         then [TPrint (slice s (mkPos (Z.of_nat k1) g1 (tw (firstn k1 s))) (mkPos (Z.of_nat k2) g2 (tw (firstn k2 s))))]
                         else []) = tw (firstn k2 s) - tw (firstn k1 s)).
  { destruct (Z.ltb_spec (Z.of_nat k1) (Z.of_nat k2)).
    - unfold log_cols. cbn [fold_left op_cols]. rewrite text_width_tw.
      unfold slice, firstz, skipz. cbn [sp_cp]. rewrite Nat2Z.id.
      replace (Z.to_nat (Z.of_nat k2 - Z.of_nat k1)) with (k2 - k1)%nat by lia.
      replace k2 with (k1 + (k2 - k1))%nat at 2 by lia. rewrite firstn_skipn_tw. lia.
    - assert (k2 = k1) by lia. subst k2. unfold log_cols. cbn. lia. }
  rewrite Es. unfold log_cols at 1. cbn [fold_left op_cols]. lia.
Qed.

(* the same analysis, keeping the pieces: what text_emit emits, by indices into the string *)
Lemma text_emit_shape : forall p s offs n,
  text_valid s = true -> 0 <= offs -> 1 <= n -> offs + n <= text_width s ->
  exists k1 k2, (k1 <= k2 <= length s)%nat /\
    offs <= tw (firstn k1 s) <= offs + 1 /\
    tw (firstn k1 s) <= tw (firstn k2 s) <= offs + n /\
    text_emit p s offs n =
      TSetPen p :: repeat (TPrint [32]) (Z.to_nat (tw (firstn k1 s) - offs)) ++
      (if (k1 <? k2)%nat then [TPrint (firstn (k2 - k1) (skipn k1 s))] else []) ++
      repeat (TPrint [32]) (Z.to_nat (offs + n - tw (firstn k2 s))) /\
    (k1 = length s \/ exists c, nth_error s k1 = Some c /\ 0 < cpw c) /\
    (k2 = length s \/ exists c, nth_error s k2 = Some c /\ 0 < cpw c /\ tw (firstn k2 s) + cpw c > offs + n) /\
    (tw (firstn k1 s) = offs \/
     (tw (firstn k1 s) = offs + 1 /\
      exists k0 c, (k0 <= length s)%nat /\ tw (firstn k0 s) < offs /\ nth_error s k0 = Some c /\ 0 < cpw c /\
                   tw (firstn k0 s) + cpw c > offs)).
Proof.
  intros p s offs n Hv Ho Hn Hw. rewrite text_width_tw in Hw.
  assert (V := text_valid_valid s Hv).
  unfold text_emit, slice_start, slice_end.
  destruct (count_from0_stop s offs V Ho) as (k0 & g0 & Hk0 & E0 & B0 & N0). rewrite E0. cbn [sp_col sp_cp].
  assert (ST : exists k1 g1, (k1 <= length s)%nat /\
             (if tw (firstn k0 s) <? offs
              then count_on s (mkPos (Z.of_nat k0) g0 (tw (firstn k0 s))) (-1) (offs + 1)
              else mkPos (Z.of_nat k0) g0 (tw (firstn k0 s))) = mkPos (Z.of_nat k1) g1 (tw (firstn k1 s)) /\
             offs <= tw (firstn k1 s) <= offs + 1 /\
             (k1 = length s \/ exists c, nth_error s k1 = Some c /\ 0 < cpw c) /\
             (tw (firstn k1 s) = offs \/
              (tw (firstn k1 s) = offs + 1 /\
               exists k0 c, (k0 <= length s)%nat /\ tw (firstn k0 s) < offs /\ nth_error s k0 = Some c /\ 0 < cpw c /\
                            tw (firstn k0 s) + cpw c > offs))).
  { destruct (Z.ltb_spec (tw (firstn k0 s)) offs) as [Hlt|Hge].
    - destruct N0 as [N0|(c & Hc & Hc1 & Hc2)].
      + exfalso. subst k0. rewrite firstn_all_tw in Hlt. lia.
      + pose proof (cpw_le2 c).
        assert (Hk0' : (k0 < length s)%nat) by (apply nth_error_Some; congruence).
        destruct (count_on_stop s k0 g0 (offs + 1) V Hk0) as (k1 & g1 & Hk1 & E1 & B1 & N1).
        { pose proof (tw_nonneg (firstn k0 s) (valid_firstn k0 s V)). lia. }
        assert (Lo : offs + 1 <= tw (firstn k1 s)).
        { destruct (Nat.eq_dec k1 k0) as [->|Hne].
          -- exfalso. destruct N1 as [N1|(c' & Hc' & Hc1' & Hc2')]; [lia|]. rewrite Hc in Hc'. inversion Hc'; subst c'. lia.
          -- assert (Hm := tw_firstn_mono s (S k0) k1 V ltac:(lia)). rewrite (tw_firstn_S s k0 c Hc) in Hm. lia. }
        exists k1, g1. split; [lia|]. split; [exact E1|]. split; [lia|]. split.
        * destruct N1 as [N1|(c' & Hc' & Hc1' & _)]; [left; exact N1|right; eauto].
        * right. split; [lia|]. exists k0, c. repeat split; try assumption; lia.
    - exists k0, g0. split; [lia|]. split; [reflexivity|]. split; [lia|]. split.
      + destruct N0 as [N0|(c' & Hc' & Hc1' & _)]; [left; exact N0|right; eauto].
      + left. lia. }
  destruct ST as (k1 & g1 & Hk1 & E1 & C1 & NB1 & LD). rewrite E1. cbn [sp_col sp_cp].
  destruct (count_on_stop s k1 g1 (offs + n) V Hk1) as (k2 & g2 & Hk2 & E2 & B2 & N2).
  { pose proof (tw_nonneg (firstn k1 s) (valid_firstn k1 s V)). lia. }
  rewrite E2. cbn [sp_col sp_cp].
  assert (Hm := tw_firstn_mono s k1 k2 V ltac:(lia)).
  exists k1, k2. split; [lia|]. split; [exact C1|]. split; [lia|]. split; [|split; [exact NB1|split; [exact N2|exact LD]]].
  f_equal. f_equal. f_equal.
  destruct (Z.ltb_spec (Z.of_nat k1) (Z.of_nat k2)); destruct (Nat.ltb_spec k1 k2); try lia; [|reflexivity].
  unfold slice, firstz, skipz. cbn [sp_cp]. rewrite Nat2Z.id.
  replace (Z.to_nat (Z.of_nat k2 - Z.of_nat k1)) with (k2 - k1)%nat by lia. reflexivity.
Qed.
