(* TermApiSpec.v -- what a call of the public API requests (in the vocabulary of XtermSpec.v),
   the one situation in which term.c does something else than requested, and the sequence
   predicate of C09 at the level of the public API. *)
From Coq Require Import ZArith List Bool Lia.
From Tickit Require Import Csi VT TermPenDefs TermPenSpec XtermDefs XtermSpec TermApiDefs.
Import ListNotations.
Local Open Scope Z_scope.

(* the drawing / pen request a call stands for *)
Definition req_of_api (a : api) : option req :=
  match a with
  | AGoto l c => Some (RGoto l c)
  | AMove d r => Some (RMove d r)
  | APrint str => Some (RPrint str)
  | APrintf str => Some (RPrint str)
  | APrintn str len => Some (RPrint (firstn (Z.to_nat len) str))     (* the first len bytes *)
  | AErasech n me => Some (RErase n me)
  | AClear => Some RClear
  | AScrollrect r d rt => Some (RScroll r d rt)
  | ASetpen p => Some (RSetpen p)
  | AChpen p => Some (RChpen p)
  | _ => None
  end.

(* calls that neither draw nor change modes: they write nothing *)
Definition quiet_api (a : api) : bool :=
  match a with AFlush | ASetOutputBuffer _ | AGetctl _ => true | _ => false end.

(* arguments the C can be called with: a length within the buffer *)
Definition api_args_okb (a : api) : bool :=
  match a with
  | APrintn str len => (0 <=? len) && (len <=? Z.of_nat (length str))
  | _ => true
  end.

(* printn with length 0 of a non-empty string: in the PINNED tree write_str read the forwarded "0" as
   "use strlen" and the whole string was written although nothing was requested (repaired: fix
   C09-printn-zero-length; kept for the refutation of the pinned variant) *)
Definition printn_trigger (a : api) : bool :=
  match a with
  | APrintn str len => (len =? 0) && negb (match str with [] => true | _ => false end)
  | _ => false
  end.

(* the one recorded trigger class left: reverse video, erase ending at the right edge *)
Definition api_excl (t : term) (v : vt) (a : api) : bool :=
  match req_of_api a with Some q => rv_edge_excl t v q | None => false end.

(* the result a call returns for what the request reported *)
Definition result_of (a : api) (ret : bool) : option Z :=
  match a with
  | AGoto _ _ | AScrollrect _ _ _ => Some (if ret then 1 else 0)
  | _ => None
  end.

(* sequences of drawing, pen and quiet calls: every call whose request is in range in the state
   it is issued in (and outside the recorded trigger class) has the request's direct
   effect; quiet calls write nothing; the first call of another kind ends the judgement *)
Fixpoint api_seq_ok (t : term) (v : vt) (l : list api) : Prop :=
  match l with
  | [] => True
  | a :: rest =>
      match req_of_api a with
      | Some q =>
          in_range q v -> api_args_okb a = true -> api_excl t v a = false ->
          exists t' ret ts,
            api_step t a = Some (t', ts, result_of a ret) /\
            effect_ok q ret (match ts with [] => true | _ => false end) v (vt_run ts v) /\
            vt_ok (vt_run ts v) /\
            api_seq_ok t' (vt_run ts v) rest
      | None =>
          if quiet_api a
          then exists res, api_step t a = Some (t, [], res) /\ api_seq_ok t v rest
          else True
      end
  end.
Definition api_pen_ok (a : api) : Prop :=
  match a with ASetpen p | AChpen p => pen_in_range p | _ => True end.
