(* LifeNorm.v -- the bridge between the two disciplines WITH frame references.
   [norm g]: what the predictive discipline (LifeSpec.v: a window goes at the client's last unref) makes of a state
   of the observing discipline (LifeSpecEv.v: it goes when the last reference of either kind goes): every window
   without a client reference is destroyed now, whatever frames hold it, and the destruction cascades.
   Along any trace the predictive state of the client's calls IS the normal form of the observing state; the library's
   frame references are invisible to it; and whatever the predictive discipline allows the observing one allows too.
   Hence: if the observing discipline first rejects a trace at a CLIENT call, the predictive one rejects the client's
   calls. *)
From Coq Require Import ZArith List Bool PArith Lia.
From Tickit Require Import LifeDefs LifeSpec LifeSpecEv LifeBridge.
Import ListNotations.
Local Open Scope Z_scope.

Definition indoom (d : list nat) (p : option nat) : bool :=
  match p with Some q => existsb (Nat.eqb q) d | None => false end.

(* one window: its predictive entry and whether it is doomed, the doomed older windows being [d] *)
Definition n1 (d : list nat) (x : egwin) : gwin * bool :=
  let dec := indoom d (e_par x) in
  let c := if dec then e_cnt x - 1 else e_cnt x in
  if c <=? 0 then (mkG 0 None (e_closed x), true)
  else (mkG c (if dec then None else e_par x) (e_closed x), false).

Fixpoint norm_pass (g : eghost) (i : nat) (d : list nat) : ghost :=
  match g with
  | [] => []
  | x :: t => fst (n1 d x) :: norm_pass t (S i) (if snd (n1 d x) then i :: d else d)
  end.
Definition norm (g : eghost) : ghost := norm_pass g O [].

Lemma n1_doomed : forall d x, snd (n1 d x) = true -> fst (n1 d x) = mkG 0 None (e_closed x).
Proof. intros d x. unfold n1. destruct (_ <=? 0); cbn; [reflexivity|discriminate]. Qed.
Lemma n1_alive : forall d x, 0 < g_cnt (fst (n1 d x)) -> snd (n1 d x) = false.
Proof. intros d x. unfold n1. destruct (_ <=? 0); cbn; [lia|reflexivity]. Qed.
Lemma n1_closed : forall d x, g_closed (fst (n1 d x)) = e_closed x.
Proof. intros d x. unfold n1. destruct (_ <=? 0); reflexivity. Qed.

Lemma length_norm_pass : forall g i d, length (norm_pass g i d) = length g.
Proof. induction g as [|x t IH]; intros; cbn; [reflexivity|]. rewrite IH. reflexivity. Qed.

(* what an entry of the normal form says about the entry it comes from *)
Lemma nth_norm_pass : forall g i d k y, nth_error (norm_pass g i d) k = Some y ->
  exists x, nth_error g k = Some x /\ g_closed y = e_closed x /\
            (0 < g_cnt y -> g_cnt y <= e_cnt x /\ forall p, g_par y = Some p -> e_par x = Some p).
Proof.
  induction g as [|x t IH]; intros i d k y H; [destruct k; discriminate|]. destruct k as [|k]; cbn in H.
  - inversion H; subst y. exists x. split; [reflexivity|]. split; [apply n1_closed|]. unfold n1.
    destruct (_ <=? 0) eqn:E; cbn; [lia|]. intros _. destruct (indoom d (e_par x)); cbn; split; try lia; intros p Hp; congruence.
  - apply (IH _ _ k y H).
Qed.

(* ---- the frames are invisible ---- *)
Definition same_cpc (x x' : egwin) : Prop := e_cnt x = e_cnt x' /\ e_par x = e_par x' /\ e_closed x = e_closed x'.
Lemma n1_ext : forall d x x', same_cpc x x' -> n1 d x = n1 d x'.
Proof. intros d x x' (H1 & H2 & H3). unfold n1. rewrite H1, H2, H3. reflexivity. Qed.
Lemma norm_pass_ext : forall t t' i d, Forall2 same_cpc t t' -> norm_pass t i d = norm_pass t' i d.
Proof.
  intros t t' i d H. revert i d. induction H as [|x x' t t' Hx Ht IH]; intros i d; cbn; [reflexivity|].
  rewrite (n1_ext d x x' Hx). rewrite IH. reflexivity.
Qed.
Lemma same_cpc_refl : forall t, Forall2 same_cpc t t.
Proof. induction t; constructor; auto. repeat split. Qed.
Lemma eset_same_cpc : forall t k x x', nth_error t k = Some x -> same_cpc x x' -> Forall2 same_cpc t (eset t k x').
Proof.
  induction t as [|y t IH]; intros k x x' Hn Hs; [constructor|]. destruct k as [|k]; cbn in *.
  - inversion Hn; subst y. constructor; [exact Hs|apply same_cpc_refl].
  - constructor; [repeat split|]. eapply IH; eauto.
Qed.

(* ---- a change of one entry that stays alive ---- *)
Lemma norm_eset : forall t k x x' y y' i d,
  nth_error t k = Some x -> nth_error (norm_pass t i d) k = Some y -> 0 < g_cnt y ->
  (forall d', n1 d' x = (y, false) -> n1 d' x' = (y', false)) ->
  norm_pass (eset t k x') i d = gset (norm_pass t i d) k y'.
Proof.
  induction t as [|z t IH]; intros k x x' y y' i d Hn Hy Hpos Hf; [destruct k; discriminate|].
  destruct k as [|k]; cbn in Hn, Hy |- *.
  - inversion Hn; subst z. inversion Hy as [Ey]. pose proof (n1_alive d x) as Ha. rewrite Ey in Ha. specialize (Ha Hpos).
    assert (E : n1 d x = (y, false)) by (destruct (n1 d x); cbn in *; congruence).
    rewrite (Hf d E). cbn. rewrite Ha. reflexivity.
  - f_equal. eapply IH; eauto.
Qed.

(* ---- the client's last reference goes: the predictive destruction is the normal form of the decrement ---- *)
Inductive drel : nat -> nat -> eghost -> eghost -> Prop :=
| drel_nil : forall i w, drel i w [] []
| drel_hit : forall i w x t t', i = w -> drel (S i) w t t' ->
    drel i w (x :: t) (mkE (e_cnt x - 1) (e_fr x) (e_par x) (e_closed x) :: t')
| drel_miss : forall i w x t t', i <> w -> drel (S i) w t t' -> drel i w (x :: t) (x :: t').

Lemma drel_id : forall t i w, (w < i)%nat -> drel i w t t.
Proof. induction t as [|x t IH]; intros i w H; constructor; [lia|apply IH; lia]. Qed.
Lemma drel_eset : forall t k i x, nth_error t k = Some x ->
  drel i (i + k) t (eset t k (mkE (e_cnt x - 1) (e_fr x) (e_par x) (e_closed x))).
Proof.
  induction t as [|z t IH]; intros k i x Hn; [destruct k; discriminate|]. destruct k as [|k]; cbn in Hn |- *.
  - inversion Hn; subst z. rewrite Nat.add_0_r. apply drel_hit; [reflexivity|]. apply drel_id. lia.
  - apply drel_miss; [lia|]. replace (i + S k)%nat with (S i + k)%nat by lia. apply IH. exact Hn.
Qed.

Definition dunion (dn dg dn' : list nat) : Prop :=
  forall p, existsb (Nat.eqb p) dn' = existsb (Nat.eqb p) dn || existsb (Nat.eqb p) dg.
Lemma dunion_cons_n : forall dn dg dn' i, dunion dn dg dn' -> dunion (i :: dn) dg (i :: dn').
Proof. intros dn dg dn' i H p. cbn. rewrite (H p). destruct (Nat.eqb p i); reflexivity. Qed.
Lemma dunion_cons_g : forall dn dg dn' i, dunion dn dg dn' -> dunion dn (i :: dg) (i :: dn').
Proof. intros dn dg dn' i H p. cbn. rewrite (H p). destruct (Nat.eqb p i), (existsb (Nat.eqb p) dn); reflexivity. Qed.
Lemma indoom_union : forall dn dg dn' p, dunion dn dg dn' -> indoom dn' p = indoom dn p || indoom dg p.
Proof. intros dn dg dn' [q|] H; cbn; [apply H|reflexivity]. Qed.

Lemma norm_destroy : forall t t' i w dn dg dn',
  drel i w t t' -> dunion dn dg dn' ->
  (forall k y, nth_error (norm_pass t i dn) k = Some y -> (i + k)%nat = w -> g_cnt y = 1) ->
  gdestroy_pass (norm_pass t i dn) i w dg = norm_pass t' i dn'.
Proof.
  intros t t' i w dn dg dn' H. revert dn dg dn'.
  induction H as [i w|i w x t t' Eiw Ht IH|i w x t t' Niw Ht IH]; intros dn dg dn' HU Hw; [reflexivity| |].
  - (* the window itself *)
    subst w. pose proof (Hw O (fst (n1 dn x)) eq_refl (Nat.add_0_r i)) as H1.
    pose proof (n1_alive dn x) as Ha. rewrite H1 in Ha. specialize (Ha ltac:(lia)).
    cbn [norm_pass gdestroy_pass]. rewrite Ha, Nat.eqb_refl. rewrite n1_closed.
    assert (Ed : n1 dn' (mkE (e_cnt x - 1) (e_fr x) (e_par x) (e_closed x)) = (mkG 0 None (e_closed x), true)).
    { unfold n1 in *. cbn [e_cnt e_par e_closed]. rewrite (indoom_union dn dg dn' _ HU).
      destruct (indoom dn (e_par x)) eqn:E1.
      - cbn [orb]. destruct (e_cnt x - 1 <=? 0) eqn:E2; cbn in H1; [lia|].
        assert (E3 : (e_cnt x - 1 - 1 <=? 0) = true) by (apply Z.leb_le; lia). rewrite E3. reflexivity.
      - cbn [orb]. destruct (e_cnt x <=? 0) eqn:E2; cbn in H1; [lia|].
        destruct (indoom dg (e_par x)).
        + assert (E3 : (e_cnt x - 1 - 1 <=? 0) = true) by (apply Z.leb_le; lia). rewrite E3. reflexivity.
        + assert (E3 : (e_cnt x - 1 <=? 0) = true) by (apply Z.leb_le; lia). rewrite E3. reflexivity. }
    rewrite Ed. cbn [fst snd]. f_equal. apply IH; [apply dunion_cons_g; exact HU|].
    intros k y Hy Ek. lia.
  - (* another window *)
    assert (En : Nat.eqb i w = false) by (apply Nat.eqb_neq; exact Niw).
    assert (Hw' : forall dn2, (if snd (n1 dn x) then i :: dn else dn) = dn2 ->
              forall k y, nth_error (norm_pass t (S i) dn2) k = Some y -> (S i + k)%nat = w -> g_cnt y = 1).
    { intros dn2 <- k y Hy Ek. apply (Hw (S k) y); [exact Hy|lia]. }
    cbn [norm_pass gdestroy_pass]. rewrite En. unfold n1. cbv zeta. rewrite (indoom_union dn dg dn' (e_par x) HU).
    destruct (indoom dn (e_par x)) eqn:E1; cbn [orb].
    + (* its parent is already doomed in the normal form *)
      destruct (e_cnt x - 1 <=? 0) eqn:E2; cbn [fst snd g_par g_cnt g_closed].
      * f_equal. apply IH; [apply dunion_cons_n; exact HU|]. apply (Hw' (i :: dn)). unfold n1. rewrite E1, E2. reflexivity.
      * f_equal. apply IH; [exact HU|]. apply (Hw' dn). unfold n1. rewrite E1, E2. reflexivity.
    + destruct (e_cnt x <=? 0) eqn:E2; cbn [fst snd g_par g_cnt g_closed].
      * (* without a client reference: doomed on both sides *)
        assert (E3 : ((if indoom dg (e_par x) then e_cnt x - 1 else e_cnt x) <=? 0) = true).
        { apply Z.leb_le. apply Z.leb_le in E2. destruct (indoom dg (e_par x)); lia. }
        rewrite E3. cbn [fst snd]. f_equal. apply IH; [apply dunion_cons_n; exact HU|].
        apply (Hw' (i :: dn)). unfold n1. rewrite E1, E2. reflexivity.
      * apply Z.leb_gt in E2. destruct (e_par x) as [p|] eqn:Ep; cbn [indoom] in *.
        -- destruct (existsb (Nat.eqb p) dg) eqn:E4.
           ++ assert (Epos : (0 <? e_cnt x) = true) by (apply Z.ltb_lt; lia). rewrite Epos. cbn [andb].
              destruct (e_cnt x =? 1) eqn:E5.
              ** apply Z.eqb_eq in E5. assert (E6 : (e_cnt x - 1 <=? 0) = true) by (apply Z.leb_le; lia). rewrite E6.
                 cbn [fst snd]. f_equal. apply IH; [apply dunion_cons_g; exact HU|].
                 apply (Hw' dn). unfold n1. cbn [indoom]. rewrite Ep. cbn [indoom]. rewrite E1.
                 assert (E7 : (e_cnt x <=? 0) = false) by (apply Z.leb_gt; lia). rewrite E7. reflexivity.
              ** apply Z.eqb_neq in E5. assert (E6 : (e_cnt x - 1 <=? 0) = false) by (apply Z.leb_gt; lia). rewrite E6.
                 cbn [fst snd]. f_equal. apply IH; [exact HU|].
                 apply (Hw' dn). unfold n1. rewrite Ep. cbn [indoom]. rewrite E1.
                 assert (E7 : (e_cnt x <=? 0) = false) by (apply Z.leb_gt; lia). rewrite E7. reflexivity.
           ++ cbn [andb]. assert (E7 : (e_cnt x <=? 0) = false) by (apply Z.leb_gt; lia). rewrite E7.
              cbn [fst snd]. f_equal. apply IH; [exact HU|].
              apply (Hw' dn). unfold n1. rewrite Ep. cbn [indoom]. rewrite E1, E7. reflexivity.
        -- assert (E7 : (e_cnt x <=? 0) = false) by (apply Z.leb_gt; lia). rewrite E7.
           cbn [fst snd]. f_equal. apply IH; [exact HU|].
           apply (Hw' dn). unfold n1. rewrite Ep. cbn [indoom]. rewrite E7. reflexivity.
Qed.

(* ---- the observing discipline's destruction of a window is invisible once the window has no client reference ---- *)
Inductive zrel : nat -> nat -> eghost -> eghost -> Prop :=
| zrel_nil : forall i w, zrel i w [] []
| zrel_hit : forall i w x t t', i = w -> zrel (S i) w t t' ->
    zrel i w (x :: t) (mkE 0 (e_fr x) (e_par x) (e_closed x) :: t')
| zrel_miss : forall i w x t t', i <> w -> zrel (S i) w t t' -> zrel i w (x :: t) (x :: t').
Lemma zrel_id : forall t i w, (w < i)%nat -> zrel i w t t.
Proof. induction t as [|x t IH]; intros i w H; constructor; [lia|apply IH; lia]. Qed.
Lemma zrel_eset : forall t k i x, nth_error t k = Some x ->
  zrel i (i + k) t (eset t k (mkE 0 (e_fr x) (e_par x) (e_closed x))).
Proof.
  induction t as [|z t IH]; intros k i x Hn; [destruct k; discriminate|]. destruct k as [|k]; cbn in Hn |- *.
  - inversion Hn; subst z. rewrite Nat.add_0_r. apply zrel_hit; [reflexivity|]. apply zrel_id. lia.
  - apply zrel_miss; [lia|]. replace (i + S k)%nat with (S i + k)%nat by lia. apply IH. exact Hn.
Qed.

Definition nonneg1 (x : egwin) : Prop := 0 <= e_cnt x /\ 0 <= e_fr x.
Definition dsub (de dn : list nat) : Prop := forall p, existsb (Nat.eqb p) de = true -> existsb (Nat.eqb p) dn = true.
Lemma dsub_cons : forall de dn i, dsub de dn -> dsub (i :: de) (i :: dn).
Proof. intros de dn i H p. cbn. destruct (Nat.eqb p i); cbn; auto. Qed.
Lemma dsub_cons_r : forall de dn i, dsub de dn -> dsub de (i :: dn).
Proof. intros de dn i H p Hp. cbn. rewrite (H p Hp). apply orb_true_r. Qed.

Lemma norm_edestroy : forall t t' i w de dn,
  zrel i w t t' -> dsub de dn -> Forall nonneg1 t ->
  norm_pass (edestroy_pass t i w de) i dn = norm_pass t' i dn.
Proof.
  intros t t' i w de dn H. revert de dn.
  induction H as [i w|i w x t t' Eiw Ht IH|i w x t t' Niw Ht IH]; intros de dn HS HN; [reflexivity| |].
  - subst w. inversion HN as [|? ? [Hc Hf] HN']; subst. cbn [edestroy_pass norm_pass]. rewrite Nat.eqb_refl. cbn [norm_pass].
    assert (E1 : n1 dn (mkE 0 0 None (e_closed x)) = (mkG 0 None (e_closed x), true)) by reflexivity.
    assert (E2 : n1 dn (mkE 0 (e_fr x) (e_par x) (e_closed x)) = (mkG 0 None (e_closed x), true)).
    { unfold n1. cbn [e_cnt e_par e_closed]. destruct (indoom dn (e_par x)); reflexivity. }
    rewrite E1, E2. cbn [fst snd]. f_equal. apply IH; [apply dsub_cons; exact HS|exact HN'].
  - assert (En : Nat.eqb i w = false) by (apply Nat.eqb_neq; exact Niw).
    inversion HN as [|? ? [Hc Hf] HN']; subst. cbn [edestroy_pass]. rewrite En.
    destruct (e_par x) as [p|] eqn:Ep; [|cbn [norm_pass]; f_equal; apply IH; [destruct (snd (n1 dn x)); [apply dsub_cons_r|]; exact HS|exact HN']].
    destruct (existsb (Nat.eqb p) de && (0 <? e_cnt x)) eqn:Ec.
    + apply andb_prop in Ec. destruct Ec as [Ede Epos]. apply Z.ltb_lt in Epos.
      assert (Edn : indoom dn (e_par x) = true) by (rewrite Ep; cbn; apply HS; exact Ede).
      destruct (e_cnt x - 1 + e_fr x =? 0) eqn:Ez.
      * apply Z.eqb_eq in Ez. cbn [norm_pass].
        assert (E1 : n1 dn (mkE 0 0 None (e_closed x)) = (mkG 0 None (e_closed x), true)) by reflexivity.
        assert (E2 : n1 dn x = (mkG 0 None (e_closed x), true)).
        { unfold n1. rewrite Edn. assert (E : (e_cnt x - 1 <=? 0) = true) by (apply Z.leb_le; lia). rewrite E. reflexivity. }
        rewrite E1, E2. cbn [fst snd]. f_equal. apply IH; [apply dsub_cons; exact HS|exact HN'].
      * cbn [norm_pass].
        assert (E2 : n1 dn (mkE (e_cnt x - 1) (e_fr x) None (e_closed x)) = n1 dn x).
        { unfold n1. cbn [e_cnt e_par e_closed indoom]. rewrite Edn. destruct (e_cnt x - 1 <=? 0); reflexivity. }
        rewrite E2. f_equal. apply IH; [destruct (snd (n1 dn x)); [apply dsub_cons_r|]; exact HS|exact HN'].
    + cbn [norm_pass]. f_equal. apply IH; [destruct (snd (n1 dn x)); [apply dsub_cons_r|]; exact HS|exact HN'].
Qed.

(* ---- the invariant of observed states ---- *)
Definition einv (g : eghost) : Prop :=
  Forall nonneg1 g /\ (forall x, nth_error g O = Some x -> e_par x = None).

Lemma Forall_eset : forall (P : egwin -> Prop) t k x, Forall P t -> P x -> Forall P (eset t k x).
Proof.
  induction t as [|y t IH]; intros k x H Hx; [constructor|]. inversion H; subst. destruct k; cbn; constructor; auto.
Qed.
Lemma Forall_nth : forall (P : egwin -> Prop) t k x, Forall P t -> nth_error t k = Some x -> P x.
Proof. intros P t k x H Hn. rewrite Forall_forall in H. apply H. eapply nth_error_In; eauto. Qed.
Lemma nonneg_edestroy_pass : forall t i w d, Forall nonneg1 t -> Forall nonneg1 (edestroy_pass t i w d).
Proof.
  induction t as [|x t IH]; intros i w d H; [constructor|]. inversion H as [|? ? [Hc Hf] H']; subst. cbn [edestroy_pass].
  destruct (Nat.eqb i w); [constructor; [split; cbn; lia|auto]|].
  destruct (e_par x); [|constructor; [split; assumption|auto]].
  destruct (existsb _ d && (0 <? e_cnt x)) eqn:E; [|constructor; [split; assumption|auto]].
  apply andb_prop in E. destruct E as [_ E]. apply Z.ltb_lt in E.
  destruct (_ =? 0); constructor; auto; split; cbn; lia.
Qed.
Lemma root_edestroy_pass : forall t w d x', nth_error (edestroy_pass t O w d) O = Some x' ->
  exists x, nth_error t O = Some x /\ (e_par x' = e_par x \/ e_par x' = None).
Proof.
  intros [|x t] w d x' H; [discriminate|]. cbn [edestroy_pass] in H. exists x. split; [reflexivity|].
  destruct (Nat.eqb 0 w). { cbn in H. inversion H. cbn. auto. }
  destruct (e_par x) eqn:Ep. 2:{ cbn in H. inversion H; subst. auto. }
  destruct (existsb _ d && _). 2:{ cbn in H. inversion H; subst. auto. }
  destruct (_ =? 0); cbn in H; inversion H; cbn; auto.
Qed.
Lemma root_eset : forall t k x x', nth_error (eset t k x) O = Some x' ->
  (k = O /\ x' = x) \/ nth_error t O = Some x'.
Proof. intros [|y t] k x x' H; cbn in H; [destruct k; discriminate|]. destruct k; cbn in H; [left; inversion H; auto|right; exact H]. Qed.

Lemma estep_einv : forall g o g', einv g -> estep g o = Some g' -> einv g'.
Proof.
  intros g o g' [HN HR] Hs.
  assert (Hset : forall k x x', nth_error g k = Some x -> nonneg1 x' -> (e_par x' = e_par x \/ e_par x' = None) -> einv (eset g k x')).
  { intros k x x' Hk Hx' Hp. split; [apply Forall_eset; assumption|]. intros y Hy.
    destruct (root_eset g k x' y Hy) as [[-> ->]|Hy']; [|apply HR; exact Hy'].
    destruct Hp as [Hp|Hp]; [rewrite Hp; apply HR; exact Hk|exact Hp]. }
  assert (Hdes : forall w, einv (edestroy g w)).
  { intro w. unfold edestroy. split; [apply nonneg_edestroy_pass; exact HN|]. intros y Hy.
    destruct (root_edestroy_pass g w [] y Hy) as (x & Hx & [Hp|Hp]); [rewrite Hp; apply HR; exact Hx|exact Hp]. }
  destruct o; cbn [estep] in Hs;
    try (match type of Hs with (if ?b then _ else _) = _ => destruct b; [|discriminate]; inversion Hs; subst g'; split; assumption end);
    try (inversion Hs; subst g'; split; assumption).
  - (* ONew *)
    destruct (eusable g (idx p)) eqn:Eu; [|discriminate]. inversion Hs; subst g'. split.
    + apply Forall_app. split; [exact HN|]. constructor; [split; cbn; lia|constructor].
    + intros x Hx. destruct g as [|y g0]; [|cbn in Hx; apply HR; exact Hx].
      unfold eusable, eheld, eget in Eu. destruct (idx p); discriminate.
  - (* ORef *)
    destruct (eheld g (idx w)); [|discriminate]. inversion Hs; subst g'. unfold eupd, eget.
    destruct (nth_error g (idx w)) as [x|] eqn:Ex; [|split; assumption].
    pose proof (Forall_nth _ g _ x HN Ex) as [Hc Hf]. apply (Hset _ x); [exact Ex|split; cbn; lia|left; reflexivity].
  - (* OUnref *)
    unfold eget in Hs. destruct (nth_error g (idx w)) as [x|] eqn:Ex; [|discriminate].
    destruct (0 <? e_cnt x) eqn:Ep; [|discriminate]. apply Z.ltb_lt in Ep.
    pose proof (Forall_nth _ g _ x HN Ex) as [Hc Hf].
    destruct (_ =? 1); inversion Hs; subst g'; [apply Hdes|apply (Hset _ x); [exact Ex|split; cbn; lia|left; reflexivity]].
  - (* OClose *)
    unfold eget in Hs. destruct (nth_error g (idx w)) as [x|] eqn:Ex; [|discriminate].
    destruct (_ && _); [|discriminate]. inversion Hs; subst g'.
    pose proof (Forall_nth _ g _ x HN Ex) as [Hc Hf]. apply (Hset _ x); [exact Ex|split; cbn; lia|right; reflexivity].
  - (* OFrameRef *)
    destruct (ealive g (idx w)); [|discriminate]. inversion Hs; subst g'. unfold eupd, eget.
    destruct (nth_error g (idx w)) as [x|] eqn:Ex; [|split; assumption].
    pose proof (Forall_nth _ g _ x HN Ex) as [Hc Hf]. apply (Hset _ x); [exact Ex|split; cbn; lia|left; reflexivity].
  - (* OFrameUnref *)
    unfold eget in Hs. destruct (nth_error g (idx w)) as [x|] eqn:Ex; [|discriminate].
    destruct (0 <? e_fr x) eqn:Ep; [|discriminate]. apply Z.ltb_lt in Ep.
    pose proof (Forall_nth _ g _ x HN Ex) as [Hc Hf].
    destruct (_ =? 1); inversion Hs; subst g'; [apply Hdes|apply (Hset _ x); [exact Ex|split; cbn; lia|left; reflexivity]].
Qed.

(* ---- what the predictive state allows, the observed state allows ---- *)
Lemma nth_norm : forall g k y, nth_error (norm g) k = Some y ->
  exists x, nth_error g k = Some x /\ g_closed y = e_closed x /\
            (0 < g_cnt y -> g_cnt y <= e_cnt x /\ forall p, g_par y = Some p -> e_par x = Some p).
Proof. intros. eapply nth_norm_pass; eauto. Qed.
Lemma length_norm : forall g, length (norm g) = length g.
Proof. intro. apply length_norm_pass. Qed.

Lemma held_norm : forall g i, gheld (norm g) i = true -> eheld g i = true.
Proof.
  intros g i H. unfold gheld, gget in H. destruct (nth_error (norm g) i) as [y|] eqn:Ey; [|discriminate].
  apply Z.ltb_lt in H. destruct (nth_norm g i y Ey) as (x & Ex & _ & Hx). destruct (Hx H) as [Hc _].
  unfold eheld, eget. rewrite Ex. apply Z.ltb_lt. lia.
Qed.

Lemma intree_norm : forall g, einv g -> forall fuel i,
  gintree_n fuel (norm g) i = true ->
  eintree_n fuel g i = true /\ gtop_n fuel (norm g) i = etop_n fuel g i /\
  exists yt, nth_error (norm g) (gtop_n fuel (norm g) i) = Some yt /\ 0 < g_cnt yt.
Proof.
  intros g [HN HR]. induction fuel as [|f IH]; intros i H; [discriminate|]. cbn [gintree_n] in H. cbn [eintree_n gtop_n etop_n].
  unfold gget in *. unfold eget. destruct (nth_error (norm g) i) as [y|] eqn:Ey; [|discriminate].
  apply andb_prop in H. destruct H as [Hpos H]. apply Z.ltb_lt in Hpos.
  destruct (nth_norm g i y Ey) as (x & Ex & _ & Hx). destruct (Hx Hpos) as [Hc Hp]. rewrite Ex.
  pose proof (Forall_nth _ g i x HN Ex) as [_ Hf].
  assert (Ea : (0 <? e_cnt x + e_fr x) = true) by (apply Z.ltb_lt; lia). rewrite Ea. cbn [andb].
  destruct i as [|i'].
  - rewrite (HR x Ex). destruct (g_par y) as [p|] eqn:Egp.
    + rewrite (HR x Ex) in Hp. specialize (Hp p eq_refl). discriminate.
    + split; [reflexivity|]. split; [reflexivity|]. exists y. split; [exact Ey|exact Hpos].
  - destruct (g_par y) as [p|] eqn:Egp; [|discriminate]. rewrite (Hp p eq_refl). apply IH. exact H.
Qed.

Lemma usable_norm : forall g i, einv g -> gusable (norm g) i = true ->
  eusable g i = true /\ gtop (norm g) i = etop g i /\
  exists yt, nth_error (norm g) (gtop (norm g) i) = Some yt /\ 0 < g_cnt yt.
Proof.
  intros g i HI H. unfold gusable in H. apply andb_prop in H. destruct H as [H Hcl]. apply andb_prop in H. destruct H as [Hh Ht].
  unfold gintree in Ht. rewrite length_norm in Ht. destruct (intree_norm g HI _ _ Ht) as (Ht' & Htop & Hal).
  split; [|split; [unfold gtop, etop; rewrite length_norm; exact Htop|unfold gtop; rewrite length_norm; exact Hal]].
  unfold eusable, eintree. rewrite (held_norm g i Hh), Ht'. cbn [andb].
  unfold gget in Hcl. unfold eget. destruct (nth_error (norm g) i) as [y|] eqn:Ey; [|discriminate].
  destruct (nth_norm g i y Ey) as (x & Ex & Ec & _). rewrite Ex, <- Ec. exact Hcl.
Qed.

(* ---- a new window ---- *)
Fixpoint norm_acc (g : eghost) (i : nat) (d : list nat) : list nat :=
  match g with
  | [] => d
  | x :: t => norm_acc t (S i) (if snd (n1 d x) then i :: d else d)
  end.
Lemma norm_pass_app : forall t u i d, norm_pass (t ++ u) i d = norm_pass t i d ++ norm_pass u (i + length t) (norm_acc t i d).
Proof.
  induction t as [|x t IH]; intros u i d; cbn; [rewrite Nat.add_0_r; reflexivity|].
  rewrite IH. replace (S i + length t)%nat with (i + S (length t))%nat by lia. reflexivity.
Qed.
Lemma norm_acc_in : forall t i d q, existsb (Nat.eqb q) (norm_acc t i d) = true ->
  existsb (Nat.eqb q) d = true \/ exists k y, (i + k)%nat = q /\ nth_error (norm_pass t i d) k = Some y /\ g_cnt y = 0.
Proof.
  induction t as [|x t IH]; intros i d q H; cbn in H; [left; exact H|].
  destruct (IH _ _ q H) as [Hd|(k & y & E & Hn & Hc)].
  - destruct (snd (n1 d x)) eqn:Es; [|left; exact Hd]. cbn in Hd. apply orb_prop in Hd. destruct Hd as [Hd|Hd]; [|left; exact Hd].
    apply Nat.eqb_eq in Hd. subst q. right. exists O, (fst (n1 d x)). split; [lia|]. split; [reflexivity|].
    rewrite (n1_doomed d x Es). reflexivity.
  - right. exists (S k), y. split; [lia|]. split; [exact Hn|exact Hc].
Qed.

Lemma norm_new : forall g par, (forall y, nth_error (norm g) par = Some y -> 0 < g_cnt y) -> (par < length g)%nat ->
  norm (g ++ [mkE 1 0 (Some par) false]) = norm g ++ [mkG 1 (Some par) false].
Proof.
  intros g par Hal Hlt. unfold norm. rewrite norm_pass_app. f_equal. cbn [norm_pass]. unfold n1. cbn [e_par e_cnt e_closed indoom].
  destruct (existsb (Nat.eqb par) (norm_acc g 0 [])) eqn:E; [|reflexivity].
  exfalso. destruct (norm_acc_in g O [] par E) as [H|(k & y & Ek & Hn & Hc)]; [discriminate|].
  cbn in Ek. subst k. specialize (Hal y Hn). lia.
Qed.

Lemma gusable_alive : forall gp i, gusable gp i = true -> forall y, nth_error gp i = Some y -> 0 < g_cnt y.
Proof.
  intros gp i H y Hy. unfold gusable in H. apply andb_prop in H. destruct H as [H _]. apply andb_prop in H. destruct H as [H _].
  unfold gheld, gget in H. rewrite Hy in H. apply Z.ltb_lt. exact H.
Qed.
Lemma gusable_lt : forall gp i, gusable gp i = true -> (i < length gp)%nat.
Proof.
  intros gp i H. unfold gusable in H. apply andb_prop in H. destruct H as [H _]. apply andb_prop in H. destruct H as [H _].
  unfold gheld, gget in H. destruct (nth_error gp i) eqn:E; [|discriminate]. apply nth_error_Some. congruence.
Qed.

(* ---- one step ---- *)
Lemma norm_frame_step : forall g o g', einv g -> is_client o = false -> estep g o = Some g' -> norm g' = norm g.
Proof.
  intros g o g' [HN HR] Hc Hs. destruct o; cbn in Hc; try discriminate; cbn [estep] in Hs.
  - (* OFrameRef *)
    destruct (ealive g (idx w)); [|discriminate]. inversion Hs; subst g'. unfold eupd, eget.
    destruct (nth_error g (idx w)) as [x|] eqn:Ex; [|reflexivity]. unfold norm. symmetry. apply norm_pass_ext.
    eapply eset_same_cpc; [exact Ex|]. repeat split.
  - (* OFrameUnref *)
    unfold eget in Hs. destruct (nth_error g (idx w)) as [x|] eqn:Ex; [|discriminate].
    destruct (0 <? e_fr x) eqn:Ep; [|discriminate]. apply Z.ltb_lt in Ep.
    pose proof (Forall_nth _ g _ x HN Ex) as [Hc0 Hf0].
    destruct (e_cnt x + e_fr x =? 1) eqn:E1; inversion Hs; subst g'.
    + apply Z.eqb_eq in E1. assert (Ez : e_cnt x = 0) by lia. unfold edestroy, norm.
      rewrite (norm_edestroy g _ O (idx w) [] [] (zrel_eset g (idx w) O x Ex) (fun p H => H) HN).
      symmetry. apply norm_pass_ext. eapply eset_same_cpc; [exact Ex|]. repeat split. cbn. exact Ez.
    + unfold norm. symmetry. apply norm_pass_ext. eapply eset_same_cpc; [exact Ex|]. repeat split.
Qed.

Lemma gset_gupd : forall gp i f y, nth_error gp i = Some y -> gupd gp i f = gset gp i (f y).
Proof. intros gp i f y H. unfold gupd, gget. rewrite H. reflexivity. Qed.

Lemma norm_client_step : forall g o, einv g -> is_client o = true ->
  match gstep (norm g) o with
  | Some gp' => exists g', estep g o = Some g' /\ norm g' = gp'
  | None => True
  end.
Proof.
  intros g o HI Hc. pose proof HI as [HN HR].
  assert (Huse : forall i, gusable (norm g) i = true -> eusable g i = true) by (intros i H; apply (usable_norm g i HI H)).
  destruct o; cbn in Hc; try discriminate; cbn [gstep estep].
  - (* ONew *)
    destruct (gusable (norm g) (idx p)) eqn:Eu; [|exact I].
    destruct (usable_norm g _ HI Eu) as (Eu' & Etop & (yt & Hyt & Hpos)). rewrite Eu'. eexists. split; [reflexivity|].
    rewrite <- Etop. apply norm_new.
    + destruct rootparent; [intros y Hy; congruence|]. intros y Hy. eapply gusable_alive; eauto.
    + rewrite <- (length_norm g). destruct rootparent; [apply nth_error_Some; congruence|eapply gusable_lt; eauto].
  - (* ORef *)
    destruct (gheld (norm g) (idx w)) eqn:Eh; [|exact I]. rewrite (held_norm g _ Eh). eexists. split; [reflexivity|].
    unfold gheld, gget in Eh. destruct (nth_error (norm g) (idx w)) as [y|] eqn:Ey; [|discriminate]. apply Z.ltb_lt in Eh.
    destruct (nth_norm g _ y Ey) as (x & Ex & _ & _). unfold eupd, eget. rewrite Ex. rewrite (gset_gupd _ _ _ y Ey).
    unfold norm. eapply norm_eset; [exact Ex|exact Ey|exact Eh|].
    intros d' E. unfold n1 in *. cbn [e_cnt e_par e_closed]. destruct (indoom d' (e_par x)).
    + destruct (e_cnt x - 1 <=? 0) eqn:E2; [discriminate|]. apply Z.leb_gt in E2.
      assert (E3 : (e_cnt x + 1 - 1 <=? 0) = false) by (apply Z.leb_gt; lia). rewrite E3. inversion E; subst y. cbn. f_equal. f_equal. lia.
    + destruct (e_cnt x <=? 0) eqn:E2; [discriminate|]. apply Z.leb_gt in E2.
      assert (E3 : (e_cnt x + 1 <=? 0) = false) by (apply Z.leb_gt; lia). rewrite E3. inversion E; subst y. reflexivity.
  - (* OUnref *)
    unfold gget. destruct (nth_error (norm g) (idx w)) as [y|] eqn:Ey; [|exact I].
    destruct (0 <? g_cnt y) eqn:Epos; [|exact I]. apply Z.ltb_lt in Epos.
    destruct (nth_norm g _ y Ey) as (x & Ex & Ecl & Hx). destruct (Hx Epos) as [Hle Hpar].
    pose proof (Forall_nth _ g _ x HN Ex) as [Hc0 Hf0].
    unfold eget. rewrite Ex. assert (Ep : (0 <? e_cnt x) = true) by (apply Z.ltb_lt; lia). rewrite Ep.
    set (xd := mkE (e_cnt x - 1) (e_fr x) (e_par x) (e_closed x)).
    (* whichever way the observing discipline goes, its normal form is that of the decremented state *)
    assert (Hgd : exists g', (if e_cnt x + e_fr x =? 1 then Some (edestroy g (idx w)) else Some (eset g (idx w) xd)) = Some g' /\
                             norm g' = norm (eset g (idx w) xd)).
    { destruct (e_cnt x + e_fr x =? 1) eqn:E1; [|eexists; split; reflexivity].
      apply Z.eqb_eq in E1. assert (Ec1 : e_cnt x = 1) by lia. eexists. split; [reflexivity|].
      unfold edestroy, norm. rewrite (norm_edestroy g _ O (idx w) [] [] (zrel_eset g (idx w) O x Ex) (fun p H => H) HN).
      unfold xd. rewrite Ec1. reflexivity. }
    destruct Hgd as (g' & Eg' & En'). 
    destruct (g_cnt y =? 1) eqn:E1.
    + apply Z.eqb_eq in E1. exists g'. split; [exact Eg'|]. rewrite En'. unfold gdestroy, norm. symmetry.
      apply (norm_destroy g _ O (idx w) [] [] []); [apply (drel_eset g (idx w) O x Ex)|intro q; reflexivity|].
      intros k y0 Hy0 Ek. cbn in Ek. subst k. change (nth_error (norm g) (idx w) = Some y0) in Hy0. congruence.
    + apply Z.eqb_neq in E1. exists g'. split; [exact Eg'|]. rewrite En'. unfold norm.
      eapply norm_eset; [exact Ex|exact Ey|exact Epos|].
      intros d' E. unfold n1 in *. unfold xd. cbn [e_cnt e_par e_closed]. destruct (indoom d' (e_par x)).
      * destruct (e_cnt x - 1 <=? 0) eqn:E2; [discriminate|]. inversion E; subst y. cbn in *.
        assert (E3 : (e_cnt x - 1 - 1 <=? 0) = false) by (apply Z.leb_gt; lia). rewrite E3. reflexivity.
      * destruct (e_cnt x <=? 0) eqn:E2; [discriminate|]. inversion E; subst y. cbn in *.
        assert (E3 : (e_cnt x - 1 <=? 0) = false) by (apply Z.leb_gt; lia). rewrite E3. reflexivity.
  - (* OClose *)
    unfold gget. destruct (nth_error (norm g) (idx w)) as [y|] eqn:Ey; [|exact I].
    destruct ((0 <? g_cnt y) && match g_par y with Some _ => true | None => Nat.eqb (idx w) 0 end) eqn:Ec; [|exact I].
    apply andb_prop in Ec. destruct Ec as [Epos Epar]. apply Z.ltb_lt in Epos.
    destruct (nth_norm g _ y Ey) as (x & Ex & Ecl & Hx). destruct (Hx Epos) as [Hle Hpar].
    unfold eget. rewrite Ex. assert (Ep : (0 <? e_cnt x) = true) by (apply Z.ltb_lt; lia). rewrite Ep. cbn [andb].
    assert (Epar' : match e_par x with Some _ => true | None => Nat.eqb (idx w) 0 end = true).
    { destruct (g_par y) as [p|]; [rewrite (Hpar p eq_refl); reflexivity|]. destruct (e_par x); [reflexivity|exact Epar]. }
    rewrite Epar'. eexists. split; [reflexivity|]. unfold norm.
    eapply norm_eset; [exact Ex|exact Ey|exact Epos|].
    intros d' E. unfold n1 in *. cbn [e_cnt e_par e_closed indoom].
    assert (Ed : indoom d' (e_par x) = false).
    { destruct (indoom d' (e_par x)) eqn:Ei; [|reflexivity]. exfalso.
      destruct (e_cnt x - 1 <=? 0); [discriminate|]. inversion E; subst y. cbn in Epar.
      apply Nat.eqb_eq in Epar. rewrite Epar in Ex. rewrite (HR x Ex) in Ei. discriminate. }
    rewrite Ed in E. destruct (e_cnt x <=? 0); [discriminate|]. inversion E; subst y. reflexivity.
  - (* ORestack *)
    destruct (is_restack c && gusable (norm g) (idx w)) eqn:E; [|exact I]. apply andb_prop in E. destruct E as [E1 E2].
    rewrite E1, (Huse _ E2). cbn; eauto.
  - destruct (gusable (norm g) (idx w)) eqn:E; [|exact I]. rewrite (Huse _ E). cbn; eauto.
  - destruct (gusable (norm g) (idx w)) eqn:E; [|exact I]. rewrite (Huse _ E). cbn; eauto.
  - destruct (gusable (norm g) (idx w)) eqn:E; [|exact I]. rewrite (Huse _ E). cbn; eauto.
  - destruct (gusable (norm g) (idx w)) eqn:E; [|exact I]. rewrite (Huse _ E). cbn; eauto.
  - destruct (gusable (norm g) (idx w)) eqn:E; [|exact I]. rewrite (Huse _ E). cbn; eauto.
  - destruct (gusable (norm g) (idx w)) eqn:E; [|exact I]. rewrite (Huse _ E). cbn; eauto.
  - (* OFlush *)
    destruct (Nat.eqb (idx w) 0 && gusable (norm g) 0) eqn:E; [|exact I]. apply andb_prop in E. destruct E as [E1 E2].
    rewrite E1, (Huse _ E2). cbn; eauto.
  - cbn; eauto.
  - destruct t; cbn; eauto.
  - destruct (gusable (norm g) (idx w)) eqn:E; [|exact I]. rewrite (Huse _ E). cbn; eauto.
  - destruct (gusable (norm g) (idx w)) eqn:E; [|exact I]. rewrite (Huse _ E). cbn; eauto.
  - destruct (gusable (norm g) (idx w)) eqn:E; [|exact I]. rewrite (Huse _ E). cbn; eauto.
  - (* OTouch *)
    destruct (gusable (norm g) (idx w) && match j with Some a => gusable (norm g) (idx a) | None => true end) eqn:E; [|exact I].
    apply andb_prop in E. destruct E as [E1 E2]. rewrite (Huse _ E1). destruct j as [a|]; [rewrite (Huse _ E2)|]; cbn; eauto.
  - destruct (gusable (norm g) (idx w)) eqn:E; [|exact I]. rewrite (Huse _ E). cbn; eauto.
  - destruct (gusable (norm g) (idx w)) eqn:E; [|exact I]. rewrite (Huse _ E). cbn; eauto.
  - cbn; eauto.
  - cbn; eauto.
Qed.

(* ---- whole traces ---- *)
Lemma gcheck_app : forall l1 l2 g,
  gcheck g (l1 ++ l2) = match gcheck g l1 with Some g1 => gcheck g1 l2 | None => None end.
Proof. induction l1 as [|o l1 IH]; intros l2 g; cbn; [reflexivity|]. destruct (gstep g o); [apply IH|reflexivity]. Qed.

Lemma echeck_einv : forall l g g', einv g -> echeck g l = Some g' -> einv g'.
Proof.
  induction l as [|o l IH]; intros g g' HI H; cbn in H; [inversion H; subst; exact HI|].
  destruct (estep g o) as [g1|] eqn:E; [|discriminate]. eapply IH; [eapply estep_einv; eauto|exact H].
Qed.

(* along a trace that the observing discipline accepts, the predictive state of the client's calls -- if the
   predictive discipline accepts them -- is the normal form of the observing state *)
Lemma norm_check : forall l g g', einv g -> echeck g l = Some g' ->
  match gcheck (norm g) (filter is_client l) with Some gp => gp = norm g' | None => True end.
Proof.
  induction l as [|o l IH]; intros g g' HI H; cbn in H |- *; [inversion H; reflexivity|].
  destruct (estep g o) as [g1|] eqn:E; [|discriminate]. pose proof (estep_einv g o g1 HI E) as HI1.
  destruct (is_client o) eqn:Ec.
  - cbn [gcheck]. pose proof (norm_client_step g o HI Ec) as Hst. destruct (gstep (norm g) o) as [gp'|]; [|exact I].
    destruct Hst as (g1' & E' & En). rewrite E in E'. inversion E'; subst g1'. rewrite <- En. apply IH; assumption.
  - rewrite <- (norm_frame_step g o g1 HI Ec E). apply IH; assumption.
Qed.

(* THE BRIDGE.  If the observing discipline rejects a trace, and the first call it rejects is one of the client's (not a
   frame reference of the library), then the predictive discipline rejects the client's calls. *)
Theorem bridge : forall l1 o l2 g,
  echeck e0 l1 = Some g -> estep g o = None -> is_client o = true ->
  wf_client (filter is_client (l1 ++ o :: l2)) = false.
Proof.
  intros l1 o l2 g H1 Ho Hc. unfold wf_client. rewrite filter_app. cbn [filter]. rewrite Hc. rewrite gcheck_app.
  assert (HI0 : einv e0).
  { split; [constructor; [split; cbn; lia|constructor]|]. intros x Hx. cbn in Hx. inversion Hx. reflexivity. }
  pose proof (norm_check l1 e0 g HI0 H1) as Hn. change (norm e0) with g0 in Hn.
  destruct (gcheck g0 (filter is_client l1)) as [gp|]; [|reflexivity]. subst gp. cbn [gcheck].
  pose proof (norm_client_step g o (echeck_einv l1 e0 g HI0 H1) Hc) as Hst.
  destruct (gstep (norm g) o) as [gp'|]; [|reflexivity]. destruct Hst as (g' & E' & _). congruence.
Qed.

(* ... and on a trace that both accept, the predictive state is the normal form of the observed one *)
Theorem bridge_accept : forall l g gp,
  echeck e0 l = Some g -> gcheck g0 (filter is_client l) = Some gp -> gp = norm g /\ einv g.
Proof.
  intros l g gp H1 H2.
  assert (HI0 : einv e0).
  { split; [constructor; [split; cbn; lia|constructor]|]. intros x Hx. cbn in Hx. inversion Hx. reflexivity. }
  pose proof (norm_check l e0 g HI0 H1) as Hn. change (norm e0) with g0 in Hn. rewrite H2 in Hn.
  split; [exact Hn|eapply echeck_einv; eauto].
Qed.

(* a window with a client reference whose parent (if it has one) is alive in the normal form is alive there too *)
Lemma norm_entry : forall g i x y, nth_error g i = Some x -> nth_error (norm g) i = Some y -> 0 < e_cnt x ->
  (forall p yp, e_par x = Some p -> nth_error (norm g) p = Some yp -> 0 < g_cnt yp) -> 0 < g_cnt y.
Proof.
  intros g i x y Hx Hy Hc Hp. destruct (nth_error_split g i Hx) as (l1 & l2 & Eg & El). subst g.
  unfold norm in *. rewrite norm_pass_app in Hy, Hp. rewrite nth_error_app2 in Hy by (rewrite length_norm_pass; lia).
  rewrite length_norm_pass, El, Nat.sub_diag in Hy. cbn in Hy. inversion Hy as [Ey]. unfold n1.
  destruct (indoom (norm_acc l1 0 []) (e_par x)) eqn:Ed.
  - exfalso. destruct (e_par x) as [p|] eqn:Ep; [|discriminate]. cbn in Ed.
    destruct (norm_acc_in l1 O [] p Ed) as [H|(k & yk & Ek & Hn & Hz)]; [discriminate|]. cbn in Ek. subst k.
    assert (Hlt : (p < length (norm_pass l1 0 []))%nat) by (apply nth_error_Some; congruence).
    specialize (Hp p yk eq_refl). rewrite nth_error_app1 in Hp by exact Hlt. specialize (Hp Hn). lia.
  - assert (E : (e_cnt x <=? 0) = false) by (apply Z.leb_gt; lia). rewrite E. cbn. exact Hc.
Qed.
