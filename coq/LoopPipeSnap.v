(* LoopPipeSnap.v -- the snapshot specification for the self-pipe fallback (event loops without a
   ->signal hook), in the style of LoopSigSpec.v: no cursor, no running batch, identities only.

     - a raise of a watched signal records the signal and leaves one wakeup; it is never lost and
       never blocked (the handler runs at once, wherever the raise happens);
     - an iteration: the deferred callbacks -- SNAPSHOT of their identities, each still pending at
       its turn; then, iff a wakeup was outstanding when the iteration polled, ONE wakeup is
       consumed (signals scripted to arrive right after that read are recorded now), the recorded
       set is taken and cleared, and with the SNAPSHOT of the identities of the signal watches at
       that moment every watch that is still live at its turn and whose signal is in the taken
       set is invoked, in registration order (one walk over all watches: not signal by signal).
       A watch registered during the walk is not in the snapshot.
   The count of outstanding wakeups is part of the specification because it is observable (a
   spurious wakeup is when a signal scripted "after the read" arrives).
   yspec_checkb: the oracle -- log equality, the destruction part as a bag. *)
From Coq Require Import ZArith List Bool.
From Tickit Require Import LoopDefs LoopSpec LoopSigDefs LoopPipeDefs.
Import ListNotations.
Local Open Scope Z_scope.

Record yst := mkY {
  y_sgs : list sgw; y_def : list ltr; y_pend : list Z; y_wake : nat; y_between : list Z;
  y_next : Z; y_iter : Z; y_log : list obs }.

Definition yst0 : yst := mkY [] [] [] O [] 0 0 [].

Definition yemit (s : yst) (id : Z) (k : kind) (flags x : Z) : yst :=
  mkY (y_sgs s) (y_def s) (y_pend s) (y_wake s) (y_between s) (y_next s) (y_iter s)
      (OEv (mkE id k flags (y_iter s) 0 x) :: y_log s).

Definition y_watched (s : yst) (sig : Z) : bool := existsb (fun w => g_sig w =? sig) (y_sgs s).

Definition y_arrive (s : yst) (sig : Z) : yst :=
  if y_watched s sig
  then mkY (y_sgs s) (y_def s) (addz sig (y_pend s)) (S (y_wake s)) (y_between s) (y_next s) (y_iter s) (y_log s)
  else s.

Section WithEnv.
Variable env : Z -> list saction.

Definition y_cancel (s : yst) (id : Z) : yst :=
  match find_sgw id (y_sgs s) with
  | Some w =>
      let s1 := mkY (remove_sgw id (y_sgs s)) (y_def s) (y_pend s) (y_wake s) (y_between s) (y_next s) (y_iter s) (y_log s) in
      if g_unbind w then yemit s1 id KSig EV_UNBIND (g_sig w) else s1
  | None =>
  match find_ltr id (y_def s) with
  | Some w =>
      let s1 := mkY (y_sgs s) (remove_ltr id (y_def s)) (y_pend s) (y_wake s) (y_between s) (y_next s) (y_iter s) (y_log s) in
      if l_unbind w then yemit s1 id KLater EV_UNBIND 0 else s1
  | None => s
  end end.

Definition y_action (s : yst) (a : saction) : yst :=
  match a with
  | SLater ub cb =>
      mkY (y_sgs s) (y_def s ++ [mkLt (y_next s) ub cb]) (y_pend s) (y_wake s) (y_between s) (y_next s + 1) (y_iter s) (y_log s)
  | SSig sig ub cb =>
      mkY (y_sgs s ++ [mkSg (y_next s) sig ub cb]) (y_def s) (y_pend s) (y_wake s) (y_between s) (y_next s + 1) (y_iter s) (y_log s)
  | SCancel id => y_cancel s id
  | SRaise sig => y_arrive s sig
  | _ => s
  end.

Definition y_actions (s : yst) (l : list saction) : yst := fold_left y_action l s.

Fixpoint y_run_def (ids : list Z) (s : yst) : yst :=
  match ids with
  | [] => s
  | i :: r =>
      match find_ltr i (y_def s) with
      | None => y_run_def r s
      | Some w =>
          let s1 := mkY (y_sgs s) (remove_ltr i (y_def s)) (y_pend s) (y_wake s) (y_between s) (y_next s) (y_iter s) (y_log s) in
          y_run_def r (y_actions (yemit s1 i KLater (EV_FIRE + EV_UNBIND) 0) (env (l_cb w)))
      end
  end.

Fixpoint y_run_sig (ids : list Z) (snap : list Z) (s : yst) : yst :=
  match ids with
  | [] => s
  | i :: r =>
      match find_sgw i (y_sgs s) with
      | None => y_run_sig r snap s
      | Some w =>
          if memz (g_sig w) snap
          then y_run_sig r snap (y_actions (yemit s i KSig EV_FIRE (g_sig w)) (env (g_cb w)))
          else y_run_sig r snap s
      end
  end.

Definition y_arrivals (s : yst) : yst :=
  let s1 := fold_left y_arrive (y_between s) s in
  mkY (y_sgs s1) (y_def s1) (y_pend s1) (y_wake s1) [] (y_next s1) (y_iter s1) (y_log s1).

Definition y_tick (s : yst) : yst :=
  let s1 := mkY (y_sgs s) (y_def s) (y_pend s) (y_wake s) (y_between s) (y_next s) (y_iter s + 1) (OPoll 0 :: y_log s) in
  let woken := Nat.ltb 0 (y_wake s1) in
  let s2 := y_run_def (map l_id (y_def s1)) s1 in
  if woken then
    let s3 := y_arrivals (mkY (y_sgs s2) (y_def s2) (y_pend s2) (y_wake s2 - 1)%nat (y_between s2) (y_next s2) (y_iter s2) (y_log s2)) in
    let snap := y_pend s3 in
    let s4 := mkY (y_sgs s3) (y_def s3) [] (y_wake s3) (y_between s3) (y_next s3) (y_iter s3) (y_log s3) in
    y_run_sig (map g_id (y_sgs s4)) snap s4
  else s2.

Definition y_destroy (s : yst) : yst :=
  let s0 := mkY (y_sgs s) (y_def s) (y_pend s) (y_wake s) (y_between s) (y_next s) (-1) (y_log s) in
  let s1 := fold_left (fun s w => if l_unbind w then yemit s (l_id w) KLater (EV_UNBIND + EV_DESTROY) 0 else s) (y_def s0) s0 in
  fold_left (fun s w => if g_unbind w then yemit s (g_id w) KSig (EV_UNBIND + EV_DESTROY) (g_sig w) else s) (y_sgs s0) s1.

Definition y_op (s : yst) (o : fop) : yst :=
  match o with
  | FAct a => y_action s a
  | FTick => y_tick s
  | FBetween sg => mkY (y_sgs s) (y_def s) (y_pend s) (y_wake s) (y_between s ++ [sg]) (y_next s) (y_iter s) (y_log s)
  end.

Definition yspec_run (ops : list fop) : list obs := rev (y_log (y_destroy (fold_left y_op ops yst0))).

Definition yspec_checkb (ops : list fop) (o : list obs) : bool :=
  let sp := yspec_run ops in
  list_eqb obs_eqb (filter (fun x => negb (in_destroy x)) sp) (filter (fun x => negb (in_destroy x)) o) &&
  list_eqb (fun a b => Bool.eqb (in_destroy a) (in_destroy b)) sp o &&
  bag_eqb (filter in_destroy sp) (filter in_destroy o).

End WithEnv.
