(* Utf8Walk.v -- first half of the refinement proof for C07: the byte-level loop of
   tickit_utf8_ncountmore (Utf8Defs.count_loop, reading through the Fault-ing accessor, with
   fuel) computes exactly an item-level walk over the specification's decoding of the
   EFFECTIVE string -- without Fault and without running out of fuel, whatever follows the
   terminator / the length bound. *)
From Coq Require Import ZArith List Bool Lia.
From Tickit Require Import Gen_Width Utf8Defs Utf8Spec Utf8Tables Utf8Bits.
Import ListNotations.
Local Open Scope Z_scope.

(* ------------------------------------------------------------------ item-level walk *)

Inductive wres := WErr (pos : spos) | WOk (pos : spos).

(* [pos] = committed position, [here] = position reached *)
Fixpoint walk (its : list item) (bad : bool) (limit : option spos) (pos here : spos) : wres :=
  match its with
  | [] => if bad then WErr pos else WOk here
  | i :: rest =>
      let pos' := if spacing i then here else pos in
      let here' := pos_add_item here i in
      if within here' limit then walk rest bad limit pos' here' else WOk pos'
  end.

Definition wfin (start_bytes : Z) (w : wres) : cres :=
  match w with
  | WErr pos => CRet (-1) pos
  | WOk pos => CRet (p_bytes pos - start_bytes) pos
  end.

(* what the model computes, as a function of the effective string only *)
Definition model_abs (s : list Z) (pos : spos) (limit : option spos) : cres :=
  wfin (p_bytes pos) (walk (fst (decode s)) (snd (decode s)) limit pos pos).

(* ------------------------------------------------------------------ one raw decoding step *)

(* (code point, number of bytes, what follows) -- None: invalid lead or truncated *)
Definition raw1 (s : list Z) : option (Z * Z * list Z) :=
  match s with
  | [] => None
  | b0 :: t0 =>
      if b0 <? 0x80 then Some (b0, 1, t0)
      else if b0 <? 0xc0 then None
      else if b0 <? 0xe0 then
        match t0 with
        | b1 :: t1 => Some ((b0 mod 32) * 64 + cont b1, 2, t1)
        | _ => None
        end
      else if b0 <? 0xf0 then
        match t0 with
        | b1 :: b2 :: t2 => Some (((b0 mod 16) * 64 + cont b1) * 64 + cont b2, 3, t2)
        | _ => None
        end
      else if b0 <? 0xf8 then
        match t0 with
        | b1 :: b2 :: b3 :: t3 =>
            Some ((((b0 mod 8) * 64 + cont b1) * 64 + cont b2) * 64 + cont b3, 4, t3)
        | _ => None
        end
      else None
  end.

Lemma decode_raw1 : forall s, s <> [] ->
  decode s = match raw1 s with
             | None => ([], true)
             | Some (cp, nb, t) => mk_item cp nb (decode t)
             end.
Proof.
  intros [|b0 t0] Hne; [congruence|].
  cbn [decode raw1].
  destruct (b0 <? 0x80); [reflexivity|].
  destruct (b0 <? 0xc0); [reflexivity|].
  destruct (b0 <? 0xe0). { destruct t0; reflexivity. }
  destruct (b0 <? 0xf0). { destruct t0 as [|b1 [|b2 t2]]; reflexivity. }
  destruct (b0 <? 0xf8). { destruct t0 as [|b1 [|b2 [|b3 t3]]]; reflexivity. }
  reflexivity.
Qed.

Lemma raw1_split : forall s cp nb t, raw1 s = Some (cp, nb, t) ->
  exists pre, s = pre ++ t /\ Z.of_nat (length pre) = nb /\ 1 <= nb <= 4.
Proof.
  intros [|b0 t0] cp nb t H; [discriminate|].
  cbn [raw1] in H.
  destruct (b0 <? 0x80).
  { injection H as <- <- <-. exists [b0]. cbn. repeat split; lia. }
  destruct (b0 <? 0xc0); [discriminate|].
  destruct (b0 <? 0xe0).
  { destruct t0 as [|b1 t1]; [discriminate|]. injection H as <- <- <-.
    exists [b0; b1]. cbn. repeat split; lia. }
  destruct (b0 <? 0xf0).
  { destruct t0 as [|b1 [|b2 t2]]; try discriminate. injection H as <- <- <-.
    exists [b0; b1; b2]. cbn. repeat split; lia. }
  destruct (b0 <? 0xf8).
  { destruct t0 as [|b1 [|b2 [|b3 t3]]]; try discriminate. injection H as <- <- <-.
    exists [b0; b1; b2; b3]. cbn. repeat split; lia. }
  discriminate.
Qed.

(* ------------------------------------------------------------------ what may follow the effective string *)

Lemma tail_ok_len_is0 : forall s tail len, s <> [] -> tail_ok s tail len -> len_is0 len = false.
Proof.
  intros s tail [l|] Hne H; [|reflexivity].
  cbn. apply Z.eqb_neq.
  assert (0 < length s)%nat by (destruct s; [congruence|cbn; lia]).
  destruct H as [H|[H _]]; lia.
Qed.

Lemma tail_ok_step : forall pre t tail len nb,
  tail_ok (pre ++ t) tail len -> Z.of_nat (length pre) = nb -> tail_ok t tail (len_sub len nb).
Proof.
  intros pre t tail [l|] nb H Hnb; cbn in *; [|exact H].
  rewrite app_length in H.
  destruct H as [H|[H J]]; [left|right; split; [|exact J]]; lia.
Qed.

Lemma padd_app : forall pre t nb, Z.of_nat (length pre) = nb -> padd (pre ++ t) nb = t.
Proof.
  intros pre t nb H. unfold padd. subst nb. rewrite Nat2Z.id.
  induction pre as [|a pre IH]; [reflexivity|]. cbn. exact IH.
Qed.

(* ------------------------------------------------------------------ next_utf8 on the buffer = raw1 on the effective string *)

Ltac len_cases Hto :=
  match type of Hto with
  | tail_ok _ _ ?len =>
      destruct len as [l|]; cbn [tail_ok length] in Hto;
      [destruct Hto as [Hto|[Hto [junk ->]]]|destruct Hto as [junk ->]]
  end.

Lemma nonul_cons : forall b s, nonul (b :: s) -> b <> 0 /\ nonul s.
Proof. intros b s H. inversion H; subst. split; assumption. Qed.

Lemma eqb0_false : forall b, b <> 0 -> (b =? 0) = false.
Proof. intros b H. apply Z.eqb_neq. exact H. Qed.

Lemma next_raw1 : forall s tail len, s <> [] -> nonul s -> tail_ok s tail len ->
  next_utf8 (s ++ tail) len =
  match raw1 s with None => NErr | Some (cp, nb, _) => NOk nb cp end.
Proof.
  intros [|b0 t0] tail len Hne Hnn Hto; [congruence|].
  pose proof (tail_ok_len_is0 _ _ _ Hne Hto) as Hl0.
  apply nonul_cons in Hnn. destruct Hnn as [Hb0 Hn0].
  unfold next_utf8. cbn [app rd nth_error raw1]. rewrite Hl0, (eqb0_false _ Hb0).
  destruct (b0 <? 0x80); [reflexivity|].
  destruct (b0 <? 0xc0); [reflexivity|].
  destruct (b0 <? 0xe0).
  { (* two bytes *)
    destruct t0 as [|b1 t1].
    - destruct (len_lt len 2) eqn:Elt; [reflexivity|].
      len_cases Hto.
      + subst l. cbn in Elt. discriminate.
      + reflexivity.
      + reflexivity.
    - apply nonul_cons in Hn0. destruct Hn0 as [Hb1 Hn1].
      replace (len_lt len 2) with false.
      2:{ symmetry. len_cases Hto; cbn; try reflexivity; apply Z.ltb_ge; cbn in Hto; lia. }
      cbn [Z.sub Z.to_nat Pos.to_nat Pos.iter_op Nat.add Z.pos_sub Z.opp Pos.pred_double next_cont app rd nth_error].
      change (Z.to_nat (2 - 1)) with 1%nat. cbn [next_cont rd nth_error].
      rewrite (eqb0_false _ Hb1), cont_step, land_1f. reflexivity. }
  destruct (b0 <? 0xf0).
  { (* three bytes *)
    destruct t0 as [|b1 [|b2 t2]].
    - destruct (len_lt len 3) eqn:Elt; [reflexivity|].
      len_cases Hto.
      + subst l. cbn in Elt. discriminate.
      + reflexivity.
      + reflexivity.
    - apply nonul_cons in Hn0. destruct Hn0 as [Hb1 Hn1].
      destruct (len_lt len 3) eqn:Elt; [reflexivity|].
      change (Z.to_nat (3 - 1)) with 2%nat.
      len_cases Hto.
      + subst l. cbn in Elt. discriminate.
      + cbn [next_cont app rd nth_error]. rewrite (eqb0_false _ Hb1). reflexivity.
      + cbn [next_cont app rd nth_error]. rewrite (eqb0_false _ Hb1). reflexivity.
    - apply nonul_cons in Hn0. destruct Hn0 as [Hb1 Hn1].
      apply nonul_cons in Hn1. destruct Hn1 as [Hb2 Hn2].
      replace (len_lt len 3) with false.
      2:{ symmetry. len_cases Hto; cbn; try reflexivity; apply Z.ltb_ge; cbn in Hto; lia. }
      change (Z.to_nat (3 - 1)) with 2%nat. cbn [next_cont app rd nth_error].
      rewrite (eqb0_false _ Hb1), (eqb0_false _ Hb2), !cont_step, land_0f. reflexivity. }
  destruct (b0 <? 0xf8).
  { (* four bytes *)
    destruct t0 as [|b1 [|b2 [|b3 t3]]].
    - destruct (len_lt len 4) eqn:Elt; [reflexivity|].
      len_cases Hto.
      + subst l. cbn in Elt. discriminate.
      + reflexivity.
      + reflexivity.
    - apply nonul_cons in Hn0. destruct Hn0 as [Hb1 Hn1].
      destruct (len_lt len 4) eqn:Elt; [reflexivity|].
      change (Z.to_nat (4 - 1)) with 3%nat.
      len_cases Hto.
      + subst l. cbn in Elt. discriminate.
      + cbn [next_cont app rd nth_error]. rewrite (eqb0_false _ Hb1). reflexivity.
      + cbn [next_cont app rd nth_error]. rewrite (eqb0_false _ Hb1). reflexivity.
    - apply nonul_cons in Hn0. destruct Hn0 as [Hb1 Hn1].
      apply nonul_cons in Hn1. destruct Hn1 as [Hb2 Hn2].
      destruct (len_lt len 4) eqn:Elt; [reflexivity|].
      change (Z.to_nat (4 - 1)) with 3%nat.
      len_cases Hto.
      + subst l. cbn in Elt. discriminate.
      + cbn [next_cont app rd nth_error]. rewrite (eqb0_false _ Hb1), (eqb0_false _ Hb2). reflexivity.
      + cbn [next_cont app rd nth_error]. rewrite (eqb0_false _ Hb1), (eqb0_false _ Hb2). reflexivity.
    - apply nonul_cons in Hn0. destruct Hn0 as [Hb1 Hn1].
      apply nonul_cons in Hn1. destruct Hn1 as [Hb2 Hn2].
      apply nonul_cons in Hn2. destruct Hn2 as [Hb3 Hn3].
      replace (len_lt len 4) with false.
      2:{ symmetry. len_cases Hto; cbn; try reflexivity; apply Z.ltb_ge; cbn in Hto; lia. }
      change (Z.to_nat (4 - 1)) with 3%nat. cbn [next_cont app rd nth_error].
      rewrite (eqb0_false _ Hb1), (eqb0_false _ Hb2), (eqb0_false _ Hb3), !cont_step, land_07.
      reflexivity. }
  reflexivity.
Qed.

(* ------------------------------------------------------------------ one iteration of the loop *)

Lemma lim_exceeds_fld_ok : forall l f v,
  lim_exceeds (Some l) f v = negb (fld_ok (f l) v).
Proof.
  intros l f v. unfold lim_exceeds, fld_ok.
  destruct (f l =? -1); cbn; [reflexivity|].
  rewrite Z.gtb_ltb. rewrite Z.leb_antisym. rewrite Bool.negb_involutive. reflexivity.
Qed.

Lemma loop_err : forall fuel str len limit pos here c,
  len_is0 len = false -> rd str 0 = Some c -> c <> 0 -> next_utf8 str len = NErr ->
  count_loop (S fuel) str len limit pos here = LErr pos.
Proof.
  intros fuel str len limit pos here c Hl Hrd Hc Hn.
  cbn [count_loop]. rewrite Hl, Hrd, (eqb0_false _ Hc), Hn. reflexivity.
Qed.

Lemma loop_step : forall fuel str len limit pos here c bytes cp,
  len_is0 len = false -> rd str 0 = Some c -> c <> 0 -> next_utf8 str len = NOk bytes cp ->
  count_loop (S fuel) str len limit pos here =
  if bad_cp cp then LErr pos else
  let i := mkItem cp bytes (spec_width cp) in
  let pos' := if spacing i then here else pos in
  if within (pos_add_item here i) limit
  then count_loop fuel (padd str bytes) (len_sub len bytes) limit pos' (pos_add_item here i)
  else LExit str len pos' here.
Proof.
  intros fuel str len limit pos here c bytes cp Hl Hrd Hc Hn.
  cbn [count_loop]. rewrite Hl, Hrd, (eqb0_false _ Hc), Hn.
  destruct ((cp <? 0x20) || ((cp >=? 0x80) && (cp <? 0xa0))) eqn:Ectl.
  - (* C0 / C1 *)
    replace (bad_cp cp) with true; [reflexivity|].
    symmetry. unfold bad_cp.
    apply orb_true_iff in Ectl. apply orb_true_iff.
    destruct Ectl as [E|E]; [left; exact E|right].
    apply andb_true_iff in E. destruct E as [E1 E2].
    apply andb_true_iff. split; [|exact E2].
    rewrite Z.geb_leb in E1. apply Z.leb_le in E1. apply Z.leb_le. lia.
  - destruct (bad_cp cp) eqn:Ebad.
    + (* DEL *)
      assert (cp = 0x7f) as ->.
      { unfold bad_cp in Ebad.
        apply orb_false_iff in Ectl. destruct Ectl as [E1 E2].
        rewrite E1 in Ebad. cbn [orb] in Ebad.
        apply andb_true_iff in Ebad. destruct Ebad as [B1 B2].
        apply Z.leb_le in B1. apply Z.ltb_lt in B2. apply Z.ltb_ge in E1.
        rewrite Z.geb_leb in E2.
        destruct (0x80 <=? cp) eqn:E3.
        - cbn [andb] in E2. apply Z.ltb_ge in E2. lia.
        - apply Z.leb_gt in E3. lia. }
      rewrite wcwidth_del. reflexivity.
    + rewrite (wcwidth_spec _ Ebad).
      pose proof (spec_width_range cp) as Hw.
      set (w := spec_width cp) in *.
      replace (w =? -1) with false by (symmetry; apply Z.eqb_neq; lia).
      cbv zeta.
      unfold pos_add_item, spacing. cbn [it_w it_nb it_cp].
      rewrite Z.gtb_ltb.
      destruct (0 <? w) eqn:Esp.
      * change (1 =? 1) with true. cbv iota.
        destruct limit as [l|].
        -- rewrite !lim_exceeds_fld_ok. unfold within. cbn [p_bytes p_cps p_graphs p_cols].
           destruct (fld_ok (p_bytes l) (p_bytes here + bytes)); cbn [negb andb]; [|reflexivity].
           destruct (fld_ok (p_cps l) (p_cps here + 1)); cbn [negb andb]; [|reflexivity].
           destruct (fld_ok (p_graphs l) (p_graphs here + 1)); cbn [negb andb]; [|reflexivity].
           destruct (fld_ok (p_cols l) (p_cols here + w)); cbn [negb andb]; reflexivity.
        -- cbn [lim_exceeds within]. reflexivity.
      * change (0 =? 1) with false. cbv iota.
        destruct limit as [l|].
        -- rewrite !lim_exceeds_fld_ok. unfold within. cbn [p_bytes p_cps p_graphs p_cols].
           destruct (fld_ok (p_bytes l) (p_bytes here + bytes)); cbn [negb andb]; [|reflexivity].
           destruct (fld_ok (p_cps l) (p_cps here + 1)); cbn [negb andb]; [|reflexivity].
           destruct (fld_ok (p_graphs l) (p_graphs here + 0)); cbn [negb andb]; [|reflexivity].
           destruct (fld_ok (p_cols l) (p_cols here + w)); cbn [negb andb]; reflexivity.
        -- cbn [lim_exceeds within]. reflexivity.
Qed.

(* ------------------------------------------------------------------ the loop is the walk *)

Lemma loop_walk : forall n s, (length s <= n)%nat ->
  forall tail len limit pos here fuel start,
  nonul s -> tail_ok s tail len -> (length s < fuel)%nat ->
  count_finish start (count_loop fuel (s ++ tail) len limit pos here) =
  wfin start (walk (fst (decode s)) (snd (decode s)) limit pos here).
Proof.
  induction n as [|n IH]; intros s Hlen tail len limit pos here fuel start Hnn Hto Hfuel.
  - destruct s; [|cbn in Hlen; lia].
    destruct fuel as [|fuel]; [cbn in Hfuel; lia|].
    cbn [app decode fst snd walk wfin count_loop].
    destruct (len_is0 len) eqn:El0.
    + cbn [count_finish]. rewrite El0. reflexivity.
    + assert (exists junk, tail = 0 :: junk) as [junk ->].
      { destruct len as [l|]; cbn in Hto, El0; [|exact Hto].
        destruct Hto as [Hto|[_ Hto]]; [|exact Hto].
        apply Z.eqb_neq in El0. lia. }
      cbn [rd nth_error]. change (0 =? 0) with true. cbv iota.
      cbn [count_finish]. rewrite El0. cbn [rd nth_error]. reflexivity.
  - destruct s as [|b0 t0] eqn:Es.
    { apply (IH []); auto. cbn. lia. }
    rewrite <- Es in *.
    assert (Hne : s <> []) by (subst s; discriminate).
    destruct fuel as [|fuel]; [lia|].
    pose proof (tail_ok_len_is0 _ _ _ Hne Hto) as Hl0.
    assert (Hrd : rd (s ++ tail) 0 = Some b0) by (subst s; reflexivity).
    assert (Hb0 : b0 <> 0) by (subst s; apply nonul_cons in Hnn; tauto).
    pose proof (next_raw1 s tail len Hne Hnn Hto) as Hnx.
    rewrite (decode_raw1 s Hne).
    destruct (raw1 s) as [[[cp nb] t]|] eqn:Eraw.
    + rewrite (loop_step fuel _ _ limit pos here b0 nb cp Hl0 Hrd Hb0 Hnx).
      unfold mk_item.
      destruct (bad_cp cp) eqn:Ebad.
      * reflexivity.
      * cbn [fst snd walk]. cbv zeta.
        destruct (raw1_split _ _ _ _ Eraw) as [pre [Hs [Hpre Hnb]]].
        destruct (within (pos_add_item here (mkItem cp nb (spec_width cp))) limit) eqn:Ew.
        -- rewrite Hs, <- app_assoc, (padd_app pre (t ++ tail) nb Hpre).
           assert (Hlt : (length t < length s)%nat).
           { rewrite Hs, app_length. lia. }
           apply IH.
           ++ lia.
           ++ unfold nonul in *. rewrite Hs in Hnn. apply Forall_app in Hnn. tauto.
           ++ apply tail_ok_step with (pre := pre); [rewrite <- Hs; exact Hto|exact Hpre].
           ++ lia.
        -- cbn [count_finish wfin]. rewrite Hl0, Hrd, (eqb0_false _ Hb0). reflexivity.
    + rewrite (loop_err fuel _ _ limit pos here b0 Hl0 Hrd Hb0 Hnx).
      reflexivity.
Qed.

(* ------------------------------------------------------------------ the whole function *)

Theorem ncountmore_walk : forall pre s tail len pos limit,
  Z.of_nat (length pre) = p_bytes pos -> nonul s -> tail_ok s tail (len_sub len (p_bytes pos)) ->
  u8_ncountmore (pre ++ s ++ tail) len pos limit = model_abs s pos limit.
Proof.
  intros pre s tail len pos limit Hpre Hnn Hto.
  unfold u8_ncountmore, model_abs.
  rewrite (padd_app pre (s ++ tail) _ Hpre).
  apply loop_walk with (n := length s); auto.
  rewrite app_length. lia.
Qed.
