(* RectSetDefs.v -- executable model of /repo/src/rectset.c, written function by function
   after the C (on top of RectDefs.v = src/rect.c).  The array `rects[0..count-1]` is a
   `list rect` in array order; the allocation bookkeeping (`size`, realloc) is not
   modelled (assumption: malloc does not fail).  C `int` is unbounded Z.

   The model carries one switch, [stale : bool]:
     stale = true   the code as pinned upstream: after a stretch-merge and `goto restart`,
                    the containment test and tickit_rect_add still use the caller's
                    ORIGINAL `rect` (DESIGN.md section 11, defect #1);
     stale = false  the repaired code (fixes/C05-stale-rect.patch): the current rectangle
                    is rebuilt from top/left/bottom/right before those two uses.

   Loops whose trip count is not structurally visible (`goto restart`, the recursion of
   tickit_rectset_add, the index loop of tickit_rectset_subtract over an array that
   changes under it, the recursion of tickit_rectset_contains) take explicit fuel and
   return None when it runs out.  Nothing but definitions here. *)
From Coq Require Import ZArith List Bool.
From Tickit Require Import RectDefs.
Import ListNotations.
Local Open Scope Z_scope.

Definition rectset := list rect.

(* static int cmprect(a, b) *)
Definition cmprect (a b : rect) : Z :=
  if negb (top a =? top b) then top a - top b else left a - left b.

(* insert_rect: first index whose element compares greater than r; memmove; store *)
Fixpoint rs_insert (s : rectset) (r : rect) : rectset :=
  match s with
  | [] => [r]
  | x :: rest => if cmprect x r >? 0 then r :: s else x :: rs_insert rest r
  end.

(* delete_rect(trs, idx) *)
Fixpoint rs_delete (s : rectset) (i : nat) : rectset :=
  match s, i with
  | [], _ => []
  | _ :: rest, O => rest
  | x :: rest, S j => x :: rs_delete rest j
  end.

(* What one pass of the `for(i...)` loop of tickit_rectset_add decides. *)
Inductive scan_result :=
| ScInsert                                   (* loop left by `break` or exhausted: insert *)
| ScReturn                                   (* already entirely covered: return *)
| ScMerge (i : nat) (t b l r : Z)            (* stretch: delete_rect(i), goto restart *)
| ScSplit (i : nat) (x : rect).              (* delete_rect(i), recurse on r_add x cur *)

(* The loop body, from index i on ([s] is rects[i..]).  [t b l r] are the C locals
   top/bottom/left/right; [cur] is the rectangle the C passes to tickit_rect_contains and
   tickit_rect_add (see [stale] above). *)
Fixpoint rs_scan (cur : rect) (t b l r : Z) (s : rectset) (i : nat) : scan_result :=
  match s with
  | [] => ScInsert
  | x :: rest =>
    if b <? top x then ScInsert
    else if (t >? bottom x) || (l >? right x) || (r <? left x)
    then rs_scan cur t b l r rest (S i)
    else if r_contains x cur then ScReturn
    else
      let top_eq := t =? top x in
      let bottom_eq := b =? bottom x in
      let left_eq := l =? left x in
      let right_eq := r =? right x in
      if (top_eq && bottom_eq) || (left_eq && right_eq)
      then ScMerge i (if top x <? t then top x else t)
                     (if bottom x >? b then bottom x else b)
                     (if left x <? l then left x else l)
                     (if right x >? r then right x else r)
      else if (t =? bottom x) || (b =? top x)
      then rs_scan cur t b l r rest (S i)
      else ScSplit i x
  end.

(* tickit_rectset_add with locals top/bottom/left/right = t b l r.  One unit of fuel per
   `goto restart` and per level of recursion. *)
Fixpoint rs_add_at (fuel : nat) (stale : bool) (s : rectset) (rect : rect) (t b l r : Z)
  : option rectset :=
  match fuel with
  | O => None
  | S f =>
    let cur := if stale then rect else init_bounded t l b r in
    match rs_scan cur t b l r s 0 with
    | ScInsert => Some (rs_insert s (init_bounded t l b r))
    | ScReturn => Some s
    | ScMerge i t' b' l' r' => rs_add_at f stale (rs_delete s i) rect t' b' l' r'
    | ScSplit i x =>
        fold_left
          (fun acc p =>
             match acc with
             | None => None
             | Some s' => rs_add_at f stale s' p (top p) (bottom p) (left p) (right p)
             end)
          (r_add x cur) (Some (rs_delete s i))
    end
  end.

Definition rs_add (fuel : nat) (stale : bool) (s : rectset) (rect : rect) : option rectset :=
  rs_add_at fuel stale s rect (top rect) (bottom rect) (left rect) (right rect).

(* the `for(j...) tickit_rectset_add(trs, remains + j)` loop *)
Definition rs_add_list (fuel : nat) (stale : bool) (s : rectset) (ps : list rect)
  : option rectset :=
  fold_left (fun acc p => match acc with None => None | Some s' => rs_add fuel stale s' p end)
            ps (Some s).

(* tickit_rectset_subtract: the index loop.  After delete_rect(i); i--; the loop's i++
   brings the index back to i.  [lfuel] bounds the number of loop iterations, [fuel] is
   handed to every inner add. *)
Fixpoint rs_subtract_loop (lfuel fuel : nat) (stale : bool) (s : rectset) (i : nat) (hole : rect)
  : option rectset :=
  match lfuel with
  | O => None
  | S lf =>
    match nth_error s i with
    | None => Some s
    | Some x =>
      if negb (r_intersects x hole) then rs_subtract_loop lf fuel stale s (S i) hole
      else
        match rs_add_list fuel stale (rs_delete s i) (r_subtract x hole) with
        | None => None
        | Some s' => rs_subtract_loop lf fuel stale s' i hole
        end
    end
  end.

Definition rs_subtract (fuel : nat) (stale : bool) (s : rectset) (hole : rect) : option rectset :=
  rs_subtract_loop fuel fuel stale s 0 hole.

(* tickit_rectset_translate *)
Definition rs_translate (s : rectset) (down rightw : Z) : rectset :=
  map (fun r => r_translate r down rightw) s.

(* tickit_rectset_clear *)
Definition rs_clear (s : rectset) : rectset := [].

(* tickit_rectset_intersects *)
Definition rs_intersects (s : rectset) (q : rect) : bool :=
  existsb (fun r => r_intersects r q) s.

(* tickit_rectset_contains: [all] is the whole array (for the recursive call), [s] the
   part of it still to be scanned. *)
Fixpoint rs_contains_scan (rec : rect -> option bool) (s : rectset) (q : rect) : option bool :=
  match s with
  | [] => Some false
  | x :: rest =>
    if negb (r_intersects x q) then rs_contains_scan rec rest q
    else if (top q <? top x) || (left q <? left x) then Some false
    else
      let r_bottom := bottom x in
      let q_bottom := bottom q in
      if (top q <? r_bottom) && (r_bottom <? q_bottom) then
        match rec (init_bounded r_bottom (left q) q_bottom (right q)) with
        | None => None
        | Some false => Some false
        | Some true => Some (r_contains x (mkRect (top q) (left q) (r_bottom - top q) (cols q)))
        end
      else Some (r_contains x q)
  end.

Fixpoint rs_contains (fuel : nat) (all : rectset) (q : rect) : option bool :=
  match fuel with
  | O => None
  | S f => rs_contains_scan (rs_contains f all) all q
  end.

(* ---------------------------------------------------------------- *)
(* Operations of a history.                                          *)

Inductive op :=
| OAdd (r : rect)
| OSub (r : rect)
| OTranslate (down rightw : Z)
| OClear.

Definition rs_step (fuel : nat) (stale : bool) (s : rectset) (o : op) : option rectset :=
  match o with
  | OAdd r => rs_add fuel stale s r
  | OSub r => rs_subtract fuel stale s r
  | OTranslate d rw => Some (rs_translate s d rw)
  | OClear => Some (rs_clear s)
  end.

Fixpoint rs_run (fuel : nat) (stale : bool) (s : rectset) (ops : list op) : option rectset :=
  match ops with
  | [] => Some s
  | o :: rest =>
    match rs_step fuel stale s o with
    | None => None
    | Some s' => rs_run fuel stale s' rest
    end
  end.

(* ---------------------------------------------------------------- *)
(* Commands and observations of the correspondence check: a history with queries and
   "fan-outs" (try each of a list of operations on a copy of the current state).       *)

Inductive cmd :=
| COp (o : op)
| CQuery (qs : list rect)
| CFan (os : list op).

Inductive obs :=
| ObsState (s : rectset)                       (* the array after the operation *)
| ObsQuery (ans : list (bool * bool))          (* (contains, intersects) per query *)
| ObsFan (ss : list (option rectset))          (* the array after each alternative *)
| ObsFuel.                                     (* model only: fuel exhausted *)

Definition query1 (fuel : nat) (s : rectset) (q : rect) : option (bool * bool) :=
  match rs_contains fuel s q with
  | None => None
  | Some c => Some (c, rs_intersects s q)
  end.

Fixpoint all_some {A} (l : list (option A)) : option (list A) :=
  match l with
  | [] => Some []
  | None :: _ => None
  | Some a :: rest => match all_some rest with None => None | Some r => Some (a :: r) end
  end.

Fixpoint model_run (fuel : nat) (stale : bool) (s : rectset) (cs : list cmd) : list obs :=
  match cs with
  | [] => []
  | COp o :: rest =>
    match rs_step fuel stale s o with
    | None => [ObsFuel]
    | Some s' => ObsState s' :: model_run fuel stale s' rest
    end
  | CQuery qs :: rest =>
    match all_some (map (query1 fuel s) qs) with
    | None => [ObsFuel]
    | Some ans => ObsQuery ans :: model_run fuel stale s rest
    end
  | CFan os :: rest =>
    ObsFan (map (rs_step fuel stale s) os) :: model_run fuel stale s rest
  end.
