(* WinScrollOps.v -- the three scroll steps of WinHist.step preserve the screen invariant of
   property C01, for every scroll oracle of the terminal:
     scroll_screen, scrollrect_screen   (OScroll, OScrollRect: children masked)
     scrollkids_screen                  (OScrollKids: the children move with the content)
   from win_scroll_spec (WinScrollSpec.v), the application's half of the scrolling contract
   (app_scroll) and, for OScrollKids, the fact that moving every child of the window by
   (-down, -right) shifts the composition inside the window by (down, right). *)
From Coq Require Import ZArith List Bool Lia ZifyBool.
From Tickit Require Import RectDefs RectProofs WinRectSet WinRectSetProofs WinDefs WinHist WinSpec
  WinExposeProofs WinFlushProofs WinLogDisjoint WinScreenInv WinLocality WinPreserve WinScrollDesc
  WinScrollRegion WinScrollFold WinScrollSpec.
Import ListNotations.
Local Open Scope Z_scope.
Local Strategy 1000 [rsfuel].

(* ------------------------------------------------------------------------------------ *)
(* the scrolled content function                                                         *)

(* app' is app with the content of window id shifted by (d, r) inside the region R *)
Definition shifted_in (app app' : appfn) (id : Z) (R : cell -> Prop) (d r : Z) : Prop :=
  (forall x y c, x <> id -> app' x y c = app x y c) /\
  (forall p, R p -> R (fst p + d, snd p + r) -> app' id (fst p) (snd p) = app id (fst p + d) (snd p + r)) /\
  (forall p, ~ R p -> app' id (fst p) (snd p) = app id (fst p) (snd p)).

Lemma app_scroll_shifted app g id k d r (R : cell -> Prop) :
  (forall p, cell_in k p <-> R p) -> shifted_in app (app_scroll app g id k d r) id R d r.
Proof.
  intros Hk. unfold app_scroll. split; [|split].
  - intros x y c Hx. replace (x =? id) with false by lia. reflexivity.
  - intros [y c] H1 H2. cbn [fst snd] in *. rewrite Z.eqb_refl. cbn [andb].
    apply Hk in H1. apply Hk in H2. apply cell_inb_iff in H1, H2. rewrite H1, H2. reflexivity.
  - intros [y c] H1. cbn [fst snd]. rewrite Z.eqb_refl. cbn [andb].
    destruct (cell_inb k (y, c)) eqn:E; [|reflexivity].
    exfalso. apply H1. apply Hk. apply cell_inb_iff. exact E.
Qed.

Lemma shifted_refl app id d r : shifted_in app app id (fun _ => False) d r.
Proof. split; [|split]; intros; tauto || reflexivity. Qed.

(* ------------------------------------------------------------------------------------ *)
(* children masked                                                                       *)

Theorem masked_core app app' st tm id orig d r st' tm' ret :
  ScreenInv app st tm -> NoDup (t_ids (r_tree st)) -> vis_nonempty (r_tree st) ->
  win_scroll no_defects st tm id orig d r true = (st', tm', ret) -> r_fault st' = false ->
  (forall n, t_find id (r_tree st) = Some n ->
     shifted_in app app' id (fun p => cell_in (selfrect (t_info n)) p /\ ex_has orig p) d r) ->
  (t_find id (r_tree st) = None -> forall x y c, app' x y c = app x y c) ->
  ScreenInv app' st' tm' /\ r_tree st' = r_tree st.
Proof.
  intros SI Hu Hvn Hws Hf Hsh Hnone.
  destruct (win_scroll_spec app st tm id orig d r true st' tm' ret SI Hu Hvn Hws Hf)
    as (Ht & Hne' & Hl & Hc & Hfl1 & Hfl2 & Hcells).
  pose proof SI as [Ho Hrv Hs Hne Hcc [Hf1 Hf2]].
  split; [|exact Ht]. set (T := r_tree st) in *.
  assert (Hsr : root_selfrect st' = root_selfrect st) by (unfold root_selfrect; rewrite Ht; reflexivity).
  constructor; rewrite ?Ht; try assumption.
  - rewrite Hl, Hc. exact Hs.
  - intros q Hq. rewrite Hsr in Hq. destruct (Hcells q Hq) as [Hd|[[HnV Hg]|(HV1 & HV2 & Hg)]].
    + right. exact Hd.
    + left. rewrite Hg. unfold shows. destruct (owner_rel T q) as [x px] eqn:Eo.
      destruct (t_find id T) as [n|] eqn:Efn; [|symmetry; apply Hnone; reflexivity].
      destruct (Hsh n eq_refl) as (S1 & S2 & S3).
      destruct (Z.eq_dec x id) as [->|Hx]; [|symmetry; apply S1; exact Hx].
      symmetry. apply (S3 px). intros [Hself Hex]. apply HnV.
      destruct (owner_is_pid id T n q px Hu Efn Eo) as [Hd Hvc].
      exists n, px. split; [exact Efn|]. split; [exact Hd|]. split; [exact Hself|].
      split; [exact Hex|]. intros _. exact Hvc.
    + left. rewrite Hg.
      destruct HV1 as (n & p & Hn & Hd & Hself & Hex & Hm).
      destruct HV2 as (n2 & p2 & Hn2 & Hd2 & Hself2 & Hex2 & Hm2).
      rewrite Hn in Hn2. injection Hn2 as <-.
      destruct (Hsh n Hn) as (S1 & S2 & S3).
      destruct (kc_refl id T n Hu Hn) as [D Hkc].
      pose proof (kc_desc_offset _ _ _ _ _ _ Hkc _ _ Hd) as Ep.
      pose proof (kc_desc_offset _ _ _ _ _ _ Hkc _ _ Hd2) as Ep2. cbn [fst snd] in Ep2.
      assert (E2 : p2 = (fst p + d, snd p + r)).
      { rewrite Ep, Ep2. cbn [fst snd]. f_equal; ring. }
      unfold shows.
      rewrite (desc_owner_self id T n q p Hu Hn Hd (Hm eq_refl)).
      rewrite (desc_owner_self id T n _ p2 Hu Hn Hd2 (Hm2 eq_refl)).
      rewrite E2 in *. cbn [fst snd]. symmetry. apply (S2 p); tauto.
  - split; assumption.
Qed.

Lemma win_rect_find st id :
  win_rect st id = match t_find id (r_tree st) with Some w => Some (w_rect (t_info w)) | None => None end.
Proof. reflexivity. Qed.

Theorem scroll_screen progs m id d r :
  ScreenInv (m_app m) (m_root m) (m_term m) -> ids_unique (r_tree (m_root m)) ->
  vis_nonempty (r_tree (m_root m)) ->
  r_fault (m_root (step no_defects progs (OScroll id d r) m)) = false ->
  ScreenInv (m_app (step no_defects progs (OScroll id d r) m))
            (m_root (step no_defects progs (OScroll id d r) m))
            (m_term (step no_defects progs (OScroll id d r) m)) /\
  r_tree (m_root (step no_defects progs (OScroll id d r) m)) = r_tree (m_root m).
Proof.
  intros SI Hu Hvn Hf. unfold ids_unique in Hu. cbn [step] in *.
  destruct (win_scroll no_defects (m_root m) (m_term m) id None d r true) as [[st' tm'] ret] eqn:Ews.
  rewrite win_rect_find in *.
  destruct (t_find id (r_tree (m_root m))) as [w|] eqn:Efw; unfold m_scrolled in *;
    cbn [m_root m_app m_term] in *.
  - apply (masked_core _ _ _ _ id None d r st' tm' ret SI Hu Hvn Ews Hf).
    + intros n Hn. rewrite Efw in Hn. injection Hn as <-. apply app_scroll_shifted.
      intros p. cbn [ex_has]. unfold selfrect. tauto.
    + intros H; rewrite Efw in H; discriminate.
  - apply (masked_core _ _ _ _ id None d r st' tm' ret SI Hu Hvn Ews Hf).
    + intros n Hn; rewrite Efw in Hn; discriminate.
    + reflexivity.
Qed.

Theorem scrollrect_screen progs m id rc d r :
  ScreenInv (m_app m) (m_root m) (m_term m) -> ids_unique (r_tree (m_root m)) ->
  vis_nonempty (r_tree (m_root m)) ->
  r_fault (m_root (step no_defects progs (OScrollRect id rc d r) m)) = false ->
  ScreenInv (m_app (step no_defects progs (OScrollRect id rc d r) m))
            (m_root (step no_defects progs (OScrollRect id rc d r) m))
            (m_term (step no_defects progs (OScrollRect id rc d r) m)) /\
  r_tree (m_root (step no_defects progs (OScrollRect id rc d r) m)) = r_tree (m_root m).
Proof.
  intros SI Hu Hvn Hf. unfold ids_unique in Hu. cbn [step] in *.
  destruct (win_scroll no_defects (m_root m) (m_term m) id (Some rc) d r true) as [[st' tm'] ret] eqn:Ews.
  rewrite win_rect_find in *.
  destruct (t_find id (r_tree (m_root m))) as [w|] eqn:Efw.
  - destruct (r_intersect (mkRect 0 0 (lines (w_rect (t_info w))) (cols (w_rect (t_info w)))) rc)
      as [k|] eqn:Ek; unfold m_scrolled in *; cbn [m_root m_app m_term] in *.
    + apply (masked_core _ _ _ _ id (Some rc) d r st' tm' ret SI Hu Hvn Ews Hf).
      * intros n Hn. rewrite Efw in Hn. injection Hn as <-. apply app_scroll_shifted.
        intros p. apply intersect_some in Ek. destruct Ek as [_ Ek]. rewrite Ek. cbn [ex_has].
        unfold selfrect. tauto.
      * intros H; rewrite Efw in H; discriminate.
    + apply (masked_core _ _ _ _ id (Some rc) d r st' tm' ret SI Hu Hvn Ews Hf).
      * intros n Hn. rewrite Efw in Hn. injection Hn as <-. split; [|split].
        -- reflexivity.
        -- intros p Hp. exfalso. apply (intersect_none _ _ Ek p). cbn [ex_has] in Hp.
           unfold selfrect in Hp. tauto.
        -- reflexivity.
      * intros H; rewrite Efw in H; discriminate.
  - unfold m_scrolled in *; cbn [m_root m_app m_term] in *.
    apply (masked_core _ _ _ _ id (Some rc) d r st' tm' ret SI Hu Hvn Ews Hf).
    + intros n Hn; rewrite Efw in Hn; discriminate.
    + reflexivity.
Qed.

(* ------------------------------------------------------------------------------------ *)
(* moving the children                                                                   *)

Definition mv_rect (d r : Z) (cr : rect) : rect := mkRect (top cr - d) (left cr - r) (lines cr) (cols cr).
Definition mv_child (d r : Z) (c : wtree) : wtree :=
  Node (set_rect (t_info c) (mv_rect d r (w_rect (t_info c)))) (t_kids c).

Lemma mv_child_ids d r c : t_ids (mv_child d r c) = t_ids c.
Proof. destruct c as [i ch]. reflexivity. Qed.

Lemma map_update_child f cid ch c :
  NoDup (flat_map t_ids ch) -> In c ch -> t_id c = cid ->
  map (t_update f cid) ch = map (upd_child f cid) ch.
Proof.
  intros Hndk Hw Hid. apply map_ext_in. intros x Hx. unfold upd_child.
  destruct (t_id x =? cid) eqn:Ec.
  - pose proof (nodup_kid _ _ Hndk Hx) as Nc. destruct x as [ic kc].
    apply nodup_node in Nc. destruct Nc as [Nci _].
    unfold t_id in Ec; cbn [t_info] in Ec. cbn [t_update t_info t_kids]. rewrite Ec. f_equal.
    apply map_update_notin. replace cid with (w_id ic) by lia. exact Nci.
  - apply update_notin. intros Hin.
    assert (Hcw : x = c).
    { apply (kids_share ch x c cid Hndk Hx Hw Hin). rewrite <- Hid. apply t_id_in. }
    subst x. lia.
Qed.

(* one more child of pid gets a new info *)
Lemma kc_update_child f cid pid ch0 ch t0 t D :
  keeps_id f -> kids_changed pid ch0 ch t0 t D -> NoDup (t_ids t) ->
  (exists c, In c ch /\ t_id c = cid) ->
  kids_changed pid ch0 (map (upd_child f cid) ch) t0 (t_update f cid t) D.
Proof.
  intros Hkf Hkc. induction Hkc as [i Hi|i l1 c c' l2 D Hi Hl1 Hkc IH]; intros Hnd (cc & Hcc & Hid).
  - pose proof (nodup_node _ _ Hnd) as [Hni Hndk]. cbn [t_update].
    assert (Hidk : In cid (flat_map t_ids ch)).
    { rewrite <- Hid. eapply in_kid_ids; [exact Hcc|apply t_id_in]. }
    assert (E2 : (w_id i =? cid) = false).
    { destruct (w_id i =? cid) eqn:E2; [|reflexivity]. exfalso. apply Hni.
      replace (w_id i) with cid by lia. exact Hidk. }
    rewrite E2, (map_update_child f cid ch cc Hndk Hcc Hid). constructor. exact Hi.
  - pose proof (nodup_node _ _ Hnd) as [Hni Hndk].
    pose proof (nodup_split _ _ _ Hndk) as (_ & Nc & _ & Xc & _).
    assert (Hic : In cid (t_ids c')).
    { destruct (kc_nodes _ _ _ _ _ _ Hkc) as (j & _ & _ & Hs).
      apply (subtree_ids _ _ Hs). cbn [t_ids]. right. rewrite <- Hid.
      eapply in_kid_ids; [exact Hcc|apply t_id_in]. }
    destruct (Xc _ Hic) as [Y1 Y2].
    assert (E2 : (w_id i =? cid) = false).
    { destruct (w_id i =? cid) eqn:E2; [|reflexivity]. exfalso. apply Hni.
      replace (w_id i) with cid by lia. apply in_fm_split. tauto. }
    cbn [t_update]. rewrite E2, map_app. cbn [map].
    rewrite (map_update_notin f cid l1 Y1), (map_update_notin f cid l2 Y2).
    apply kc_down; [exact Hi|exact Hl1|]. apply IH; [exact Nc|]. exists cc. tauto.
Qed.

Lemma upd_child_split f A c B :
  NoDup (flat_map t_ids (A ++ c :: B)) ->
  map (upd_child f (t_id c)) (A ++ c :: B) = A ++ Node (f (t_info c)) (t_kids c) :: B.
Proof.
  intros Hnd. apply nodup_split in Hnd. destruct Hnd as (_ & _ & _ & Xc & _).
  destruct (Xc _ (t_id_in c)) as [X1 X2].
  assert (Hid : forall l, ~ In (t_id c) (flat_map t_ids l) -> map (upd_child f (t_id c)) l = l).
  { intros l Hn. apply map_id_on. intros x Hx. unfold upd_child.
    destruct (t_id x =? t_id c) eqn:E; [|reflexivity]. exfalso. apply Hn.
    replace (t_id c) with (t_id x) by lia. eapply in_kid_ids; [exact Hx|apply t_id_in]. }
  rewrite map_app. cbn [map]. rewrite (Hid A X1), (Hid B X2).
  unfold upd_child at 1. rewrite Z.eqb_refl. reflexivity.
Qed.

Definition move_step (d r : Z) (s : root) (c : wtree) : root :=
  let cr := w_rect (t_info c) in
  win_set_geometry s (t_id c) (mkRect (top cr - d) (left cr - r) (lines cr) (cols cr)).

Lemma move_kids_kc pid d r kids0 T D : forall L done s,
  kids_changed pid kids0 (map (mv_child d r) done ++ L) T (r_tree s) D ->
  NoDup (t_ids (r_tree s)) ->
  kids_changed pid kids0 (map (mv_child d r) (done ++ L)) T (r_tree (fold_left (move_step d r) L s)) D /\
  NoDup (t_ids (r_tree (fold_left (move_step d r) L s))) /\
  retree s (fold_left (move_step d r) L s).
Proof.
  induction L as [|c L IH]; intros done s Hkc Hnd.
  - cbn [fold_left]. rewrite !app_nil_r in *. split; [exact Hkc|]. split; [exact Hnd|apply retree_refl].
  - cbn [fold_left].
    set (f := fun j => set_rect j (mv_rect d r (w_rect (t_info c)))).
    assert (Hkf : keeps_id f) by (intros i; reflexivity).
    assert (Hstep : r_tree (move_step d r s c) = t_update f (t_id c) (r_tree s)) by reflexivity.
    assert (Hndk : NoDup (flat_map t_ids (map (mv_child d r) done ++ c :: L))).
    { destruct (kc_nodes _ _ _ _ _ _ Hkc) as (j & _ & _ & Hs).
      apply (subtree_nodup _ _ Hs) in Hnd. apply nodup_node in Hnd. tauto. }
    pose proof (kc_update_child f (t_id c) pid _ _ _ _ D Hkf Hkc Hnd) as Hkc1.
    rewrite (upd_child_split f _ c L Hndk) in Hkc1.
    destruct (IH (done ++ [c]) (move_step d r s c)) as (K1 & K2 & K3).
    + rewrite Hstep, map_app. cbn [map]. rewrite <- app_assoc. cbn [app].
      apply Hkc1. exists c. split; [apply in_elt|reflexivity].
    + rewrite Hstep, update_ids by exact Hkf. exact Hnd.
    + rewrite <- app_assoc in K1. cbn [app] in K1. split; [exact K1|]. split; [exact K2|].
      destruct K3 as (R1 & R2 & R3 & R4 & R5). unfold retree. unfold move_step, win_set_geometry in *.
      cbn [r_damage r_fault r_nexp r_later r_queue set_tree] in *. tauto.
Qed.

(* the composition inside a window whose children moved by (-d, -r) *)
Lemma owner_rel_reinfo i j ch x : w_id j = w_id i -> owner_rel (Node j ch) x = owner_rel (Node i ch) x.
Proof. intros E. rewrite !owner_rel_unfold, E. reflexivity. Qed.

Lemma first_owner_moved d r l p :
  first_owner (map (mv_child d r) l) p = first_owner l (fst p + d, snd p + r).
Proof.
  induction l as [|c l IH]; [reflexivity|]. cbn [map first_owner]. rewrite IH.
  assert (E : cell_inb (mv_rect d r (w_rect (t_info c))) p =
              cell_inb (w_rect (t_info c)) (fst p + d, snd p + r)).
  { apply eq_true_iff_eq. rewrite !cell_inb_iff.
    unfold cell_in, mv_rect, bottom, right; cbn [top left lines cols fst snd]. lia. }
  unfold mv_child. cbn [t_info t_kids set_rect w_vis w_rect]. rewrite E.
  destruct (w_vis (t_info c) && cell_inb (w_rect (t_info c)) (fst p + d, snd p + r)); [|reflexivity].
  f_equal. destruct c as [ic kc]. cbn [t_info t_kids fst snd].
  rewrite (owner_rel_reinfo ic _ kc) by reflexivity. unfold mv_rect. cbn [top left].
  f_equal. f_equal; lia.
Qed.

(* ------------------------------------------------------------------------------------ *)
(* OScrollKids                                                                           *)

Theorem kids_core app app' st tm id d r st' tm' ret :
  ScreenInv app st tm -> NoDup (t_ids (r_tree st)) -> vis_nonempty (r_tree st) ->
  win_scroll no_defects st tm id None d r false = (st', tm', ret) -> r_fault st' = false ->
  (forall n, t_find id (r_tree st) = Some n ->
     shifted_in app app' id (fun p => cell_in (selfrect (t_info n)) p) d r) ->
  (t_find id (r_tree st) = None -> forall x y c, app' x y c = app x y c) ->
  forall st'',
  st'' = match t_find id (r_tree st') with
         | Some w => fold_left (move_step d r) (t_kids w) st'
         | None => st'
         end ->
  ScreenInv app' st'' tm' /\ NoDup (t_ids (r_tree st'')) /\ retree st' st''.
Proof.
  intros SI Hu Hvn Hws Hf Hsh Hnone st'' Est''.
  destruct (win_scroll_spec app st tm id None d r false st' tm' ret SI Hu Hvn Hws Hf)
    as (Ht & Hne' & Hl & Hc & Hfl1 & Hfl2 & Hcells).
  pose proof SI as [Ho Hrv Hs Hne Hcc [Hf1 Hf2]].
  set (T := r_tree st) in *. rewrite Ht in Est''.
  destruct (t_find id T) as [w|] eqn:Efw.
  2:{ (* the window does not exist: nothing moves, nothing is scrolled *)
      subst st''. split; [|split; [rewrite Ht; exact Hu|apply retree_refl]].
      assert (Hsr : root_selfrect st' = root_selfrect st) by (unfold root_selfrect; rewrite Ht; reflexivity).
      constructor; rewrite ?Ht; try assumption.
      - rewrite Hl, Hc. exact Hs.
      - intros q Hq. rewrite Hsr in Hq. destruct (Hcells q Hq) as [Hd|[[HnV Hg]|(HV1 & _)]].
        + right. exact Hd.
        + left. rewrite Hg. unfold shows. destruct (owner_rel T q) as [x px].
          symmetry. apply Hnone. reflexivity.
        + destruct HV1 as (n & p & Hn & _). rewrite Efw in Hn. discriminate.
      - split; assumption. }
  destruct (Hsh w eq_refl) as (S1 & S2 & S3).
  destruct (kc_refl id T w Hu Efw) as [D Hkc0].
  assert (Hkcs : kids_changed id (t_kids w) (map (mv_child d r) [] ++ t_kids w) T (r_tree st') D).
  { rewrite Ht. exact Hkc0. }
  destruct (move_kids_kc id d r (t_kids w) T D (t_kids w) [] st' Hkcs) as (Hkc & Hu'' & Hre).
  { rewrite Ht. exact Hu. }
  rewrite <- Est'' in Hkc, Hu'', Hre. cbn [List.app] in Hkc.
  split; [|split; [exact Hu''|exact Hre]].
  set (T'' := r_tree st'') in *.
  destruct Hre as (R1 & R2 & R3 & R4 & R5).
  assert (Hinfo : t_info T'' = t_info T) by (apply (kc_info _ _ _ _ _ _ Hkc)).
  assert (Hsr : root_selfrect st'' = root_selfrect st).
  { unfold root_selfrect. fold T'' T. rewrite Hinfo. reflexivity. }
  (* the node of the window in the new tree *)
  destruct (kc_nodes _ _ _ _ _ _ Hkc) as (iw & Hiw & Hsw & Hsw'').
  assert (Hw : w = Node iw (t_kids w)).
  { pose proof (t_find_subtree _ _ Hsw Hu) as H. unfold t_id in H; cbn [t_info] in H.
    rewrite Hiw, Efw in H. injection H as H. exact H. }
  assert (Hfw'' : t_find id T'' = Some (Node iw (map (mv_child d r) (t_kids w)))).
  { pose proof (t_find_subtree _ _ Hsw'' Hu'') as H. unfold t_id in H; cbn [t_info] in H.
    rewrite Hiw in H. exact H. }
  assert (Hkids_notid : forall x, first_owner (t_kids w) x <> None ->
            forall o, first_owner (t_kids w) x = Some o -> fst o <> id).
  { intros x _ o Hfo Heq. pose proof (first_owner_id _ _ _ Hfo) as Hin. rewrite Heq in Hin.
    pose proof (subtree_nodup _ _ Hsw Hu) as Nn. apply nodup_node in Nn. destruct Nn as [Nn _].
    apply Nn. rewrite Hiw. exact Hin. }
  constructor; fold T''; rewrite ?Hinfo; try assumption.
  - rewrite Hl, Hc. exact Hs.
  - rewrite R1. exact Hne'.
  - intros q Hq. rewrite Hsr in Hq. rewrite R1.
    destruct (Hcells q Hq) as [Hd|[[HnV Hg]|(HV1 & HV2 & Hg)]].
    + right. exact Hd.
    + left. rewrite Hg.
      assert (Hdn : desc id T q = None).
      { destruct (desc id T q) as [p|] eqn:Ed; [|reflexivity]. exfalso. apply HnV.
        apply cell_inb_iff in Hq.
        destruct (kc_desc_self _ _ _ _ _ _ Hkc0 q p Ed Hq) as (j & Hj & Hsj & Hp).
        assert (Ej : Node j (t_kids w) = w).
        { pose proof (t_find_subtree _ _ Hsj Hu) as H. unfold t_id in H; cbn [t_info] in H.
          rewrite Hj, Efw in H. injection H as H. symmetry. exact H. }
        exists w, p. split; [exact Efw|]. split; [exact Ed|].
        split; [rewrite <- Ej; exact Hp|]. split; [exact I|]. intros H; discriminate. }
      unfold shows. rewrite (kc_desc_none _ _ _ _ _ _ Hkc q Hdn).
      pose proof (desc_none_owner id T Hu q Hdn) as Hno.
      destruct (owner_rel T q) as [x px]. cbn [fst] in Hno. symmetry. apply S1. exact Hno.
    + left. rewrite Hg.
      destruct HV1 as (n & p & Hn & Hd & Hself & _ & _).
      destruct HV2 as (n2 & p2 & Hn2 & Hd2 & Hself2 & _ & _).
      rewrite Efw in Hn, Hn2. injection Hn as <-. injection Hn2 as <-.
      pose proof (kc_desc_offset _ _ _ _ _ _ Hkc0 _ _ Hd) as Ep.
      pose proof (kc_desc_offset _ _ _ _ _ _ Hkc0 _ _ Hd2) as Ep2. cbn [fst snd] in Ep2.
      assert (E2 : p2 = (fst p + d, snd p + r)).
      { rewrite Ep, Ep2. cbn [fst snd]. f_equal; ring. }
      assert (Hd'' : desc id T'' q = Some p) by (rewrite (kc_desc _ _ _ _ _ _ Hkc); exact Hd).
      unfold shows.
      rewrite (desc_owner id T'' Hu'' q p _ Hd'' Hfw'').
      rewrite (desc_owner id T Hu _ p2 w Hd2 Efw).
      assert (Ho'' : owner_rel (Node iw (map (mv_child d r) (t_kids w))) p =
                match first_owner (t_kids w) (fst p + d, snd p + r) with
                | Some o => o | None => (id, p) end).
      { rewrite owner_rel_unfold, first_owner_moved, Hiw. reflexivity. }
      assert (Ho2 : owner_rel w p2 =
                match first_owner (t_kids w) p2 with Some o => o | None => (id, p2) end).
      { rewrite Hw at 1. rewrite owner_rel_unfold, Hiw. reflexivity. }
      rewrite Ho'', Ho2, E2.
      destruct (first_owner (t_kids w) (fst p + d, snd p + r)) as [o|] eqn:Eo.
      * destruct o as [x px]. symmetry. apply S1.
        assert (Hne0 : first_owner (t_kids w) (fst p + d, snd p + r) <> None) by congruence.
        apply (Hkids_notid _ Hne0 _ Eo).
      * cbn [fst snd]. symmetry. apply (S2 p); [exact Hself|].
        rewrite <- E2. exact Hself2.
  - rewrite R1, R3. split; [intros Hd0; destruct (Hfl1 Hd0) as [A B]; split; [exact A|apply R4; exact B]|].
    intros Hq. apply R4. apply Hfl2. apply R5. exact Hq.
Qed.

Lemma move_fold_fault d r : forall l s,
  r_fault (fold_left (move_step d r) l s) = false -> r_fault s = false.
Proof.
  induction l as [|c l IH]; intros s H; [exact H|]. cbn [fold_left] in H. apply IH in H. exact H.
Qed.

Theorem scrollkids_screen progs m id d r :
  ScreenInv (m_app m) (m_root m) (m_term m) -> ids_unique (r_tree (m_root m)) ->
  vis_nonempty (r_tree (m_root m)) ->
  r_fault (m_root (step no_defects progs (OScrollKids id d r) m)) = false ->
  ScreenInv (m_app (step no_defects progs (OScrollKids id d r) m))
            (m_root (step no_defects progs (OScrollKids id d r) m))
            (m_term (step no_defects progs (OScrollKids id d r) m)) /\
  ids_unique (r_tree (m_root (step no_defects progs (OScrollKids id d r) m))) /\
  exists st' tm' ret,
    win_scroll no_defects (m_root m) (m_term m) id None d r false = (st', tm', ret) /\
    retree st' (m_root (step no_defects progs (OScrollKids id d r) m)).
Proof.
  intros SI Hu Hvn Hf. unfold ids_unique in *. cbn [step] in *.
  destruct (win_scroll no_defects (m_root m) (m_term m) id None d r false) as [[st' tm'] ret] eqn:Ews.
  rewrite win_rect_find in *.
  set (st'' := match t_find id (r_tree st') with
               | Some w => fold_left (fun s c => let cr := w_rect (t_info c) in
                                        win_set_geometry s (t_id c)
                                          (mkRect (top cr - d) (left cr - r) (lines cr) (cols cr)))
                                     (t_kids w) st'
               | None => st'
               end) in *.
  assert (Hf'' : r_fault st'' = false).
  { destruct (t_find id (r_tree (m_root m))); unfold m_scrolled in Hf; cbn [m_root] in Hf; exact Hf. }
  assert (Hf' : r_fault st' = false).
  { subst st''. destruct (t_find id (r_tree st')) as [w|]; [|exact Hf''].
    exact (move_fold_fault d r _ _ Hf''). }
  assert (Hcore : forall app',
    (forall n, t_find id (r_tree (m_root m)) = Some n ->
       shifted_in (m_app m) app' id (fun p => cell_in (selfrect (t_info n)) p) d r) ->
    (t_find id (r_tree (m_root m)) = None -> forall x y c, app' x y c = m_app m x y c) ->
    ScreenInv app' st'' tm' /\ NoDup (t_ids (r_tree st'')) /\ retree st' st'').
  { intros app' H1 H2.
    apply (kids_core (m_app m) app' (m_root m) (m_term m) id d r st' tm' ret SI Hu Hvn Ews Hf' H1 H2).
    reflexivity. }
  destruct (t_find id (r_tree (m_root m))) as [w|] eqn:Efw; unfold m_scrolled; cbn [m_root m_app m_term].
  - destruct (Hcore (app_scroll (m_app m) (m_gen m + 1) id
                       (mkRect 0 0 (lines (w_rect (t_info w))) (cols (w_rect (t_info w)))) d r))
      as (A & B & C0).
    + intros n Hn. injection Hn as <-. apply app_scroll_shifted. intros p. unfold selfrect. tauto.
    + intros H; discriminate.
    + split; [exact A|]. split; [exact B|]. exists st', tm', ret. split; [reflexivity|exact C0].
  - destruct (Hcore (m_app m)) as (A & B & C0).
    + intros n Hn; discriminate.
    + reflexivity.
    + split; [exact A|]. split; [exact B|]. exists st', tm', ret. split; [reflexivity|exact C0].
Qed.
