(* RBFlushFull.v -- the last piece of property C04: what the flush leaves in the cells of a text
   span (RBFlushShown.v: the terminal's layout of the visible slice, blanks for orphaned halves)
   is what the specification's expect_cell accepts, for every mix of character widths; hence
   grid_meets holds for every reachable buffer on every terminal at least as large. *)
From Coq Require Import ZArith List Bool Lia.
From Tickit Require Import RectDefs RBDefs RBSpec RBLemmas RBSpanProofs RBAbsLemmas RBInv RBOpProofs RBProofs RBProps
                           RBTheorems Gen_Linechars RBGlyphs RBFlushDefs RBFlushSpec RBFlushProofs RBWidth RBFlushCols
                           RBFlushReach RBTermSim RBFlushShown RBPenLemmas.
From Tickit Require PenProofs.
Import ListNotations.
Local Open Scope Z_scope.

(* ---------------------------------------------------------------------------------- *)
(* where a column count stops, uniquely *)

Definition stopP (s : list Z) (k : nat) (lc : Z) : Prop :=
  tw (firstn k s) <= lc /\
  (k = length s \/ exists c, nth_error s k = Some c /\ 0 < cpw c /\ tw (firstn k s) + cpw c > lc).

Lemma stop_unique : forall s k1 k2 lc, valid s -> (k1 <= length s)%nat -> (k2 <= length s)%nat ->
  stopP s k1 lc -> stopP s k2 lc -> k1 = k2.
Proof.
  assert (G : forall s k1 k2 lc, valid s -> (k2 <= length s)%nat -> (k1 < k2)%nat -> stopP s k1 lc -> stopP s k2 lc -> False).
  { intros s k1 k2 lc V H2 Hlt (A1 & A2) (B1 & _).
    destruct A2 as [->|(c & Hc & Hc1 & Hc2)]; [lia|].
    assert (Hm := tw_firstn_mono s (S k1) k2 V ltac:(lia)). rewrite (tw_firstn_S s k1 c Hc) in Hm. lia. }
  intros s k1 k2 lc V H1 H2 P1 P2.
  destruct (Nat.lt_trichotomy k1 k2) as [Hlt|[->|Hgt]]; [exfalso; eapply G; eassumption|reflexivity|exfalso; eapply (G s k2 k1); eassumption].
Qed.

Lemma countmore_gr_nonneg : forall rest pos here lg lc,
  0 <= sp_gr pos -> 0 <= sp_gr here -> 0 <= sp_gr (countmore rest pos here lg lc).
Proof.
  induction rest as [|c rest IH]; intros pos here lg lc Hp Hh; cbn [countmore]; [exact Hh|].
  destruct (negb (lg =? -1) && (sp_gr here + (if 0 <? cpw c then 1 else 0) >? lg)); [destruct (0 <? cpw c); assumption|].
  destruct (negb (lc =? -1) && (sp_col here + cpw c >? lc)); [destruct (0 <? cpw c); assumption|].
  apply IH; [destruct (0 <? cpw c); assumption|]. cbn [sp_gr]. destruct (0 <? cpw c); lia.
Qed.

(* slice_start s col: the start of the grapheme covering column col *)
Lemma slice_start_stop : forall s col, valid s -> 0 <= col ->
  exists k g, (k <= length s)%nat /\ 0 <= g /\
    slice_start s col = mkPos (Z.of_nat k) g (tw (firstn k s)) /\ stopP s k col.
Proof.
  intros s col V Hc. unfold slice_start.
  destruct (count_from0_stop s col V Hc) as (k & g & Hk & E & B & N).
  exists k, g. split; [exact Hk|]. split; [|split; [exact E|split; assumption]].
  assert (H := countmore_gr_nonneg s spos0 spos0 (-1) col). unfold count_from0 in E. rewrite E in H. cbn [sp_gr spos0] in H. lia.
Qed.

(* ---------------------------------------------------------------------------------- *)
(* counting one grapheme on *)

Lemma countmore_gr_zerow : forall combs rest pos here lg,
  zerow combs -> starts_base rest -> sp_gr here = lg -> lg <> -1 ->
  countmore (combs ++ rest) pos here lg (-1) = mkPos (sp_cp here + zlen combs) (sp_gr here) (sp_col here).
Proof.
  induction combs as [|c combs IH]; intros rest pos here lg Z0 Sb Hg Hn; cbn [app].
  - unfold zlen. cbn [length Z.of_nat]. rewrite Z.add_0_r.
    destruct rest as [|b' r']; cbn [countmore]; [destruct here; reflexivity|].
    cbn [starts_base] in Sb. destruct (Z.ltb_spec 0 (cpw b')); [|lia].
    destruct (Z.eqb_spec lg (-1)); [lia|]. cbn [negb andb].
    destruct (Z.gtb_spec (sp_gr here + 1) lg); [|lia]. destruct here; reflexivity.
  - cbn [countmore]. rewrite (Z0 c (or_introl eq_refl)). change (0 <? 0) with false. cbv iota.
    rewrite Z.add_0_r. destruct (Z.gtb_spec (sp_gr here) lg); [lia|]. rewrite andb_false_r.
    change (-1 =? -1) with true. cbn [negb andb].
    rewrite IH; try assumption.
    + cbn [sp_cp sp_gr sp_col]. unfold zlen. cbn [length]. rewrite Nat2Z.inj_succ. f_equal; lia.
    + intros x Hx. apply Z0. right. exact Hx.
Qed.

Lemma count_on_gr : forall pre c combs rest g ca,
  0 < cpw c -> zerow combs -> starts_base rest -> 0 <= g ->
  count_on (pre ++ (c :: combs) ++ rest) (mkPos (zlen pre) g ca) (g + 1) (-1) =
  mkPos (zlen pre + zlen (c :: combs)) (g + 1) (ca + cpw c).
Proof.
  intros pre c combs rest g ca Hc Z0 Sb Hg. unfold count_on. cbn [sp_cp]. rewrite skipz_app_len. cbn [app countmore].
  destruct (Z.ltb_spec 0 (cpw c)); [|lia]. cbn [sp_gr sp_col sp_cp].
  destruct (Z.eqb_spec (g + 1) (-1)); [lia|]. cbn [negb andb].
  destruct (Z.gtb_spec (g + 1) (g + 1)); [lia|]. change (-1 =? -1) with true. cbn [negb andb].
  rewrite countmore_gr_zerow; try assumption; cbn [sp_cp sp_gr sp_col]; try lia.
  unfold zlen. cbn [length]. rewrite Nat2Z.inj_succ. f_equal. lia.
Qed.

(* the grapheme at a base position *)
Lemma grapheme_at : forall s k c, valid s -> nth_error s k = Some c ->
  exists combs rest, s = firstn k s ++ (c :: combs) ++ rest /\ zerow combs /\ starts_base rest /\ valid rest.
Proof.
  intros s k c V Hc.
  assert (Es : exists tl, skipn k s = c :: tl).
  { clear - Hc. revert s Hc. induction k as [|k IH]; intros s Hc; destruct s as [|x s]; cbn in Hc; try discriminate.
    - inversion Hc; subst. eexists; reflexivity.
    - cbn [skipn]. apply IH. exact Hc. }
  destruct Es as (tl & Etl).
  assert (Vtl : valid tl).
  { intros x Hx. apply (valid_skipn k s V). rewrite Etl. right. exact Hx. }
  destruct (split_grapheme tl Vtl) as (combs & rest & -> & Z0 & Sb).
  exists combs, rest. split; [|split; [exact Z0|split; [exact Sb|]]].
  - rewrite <- (firstn_skipn k s) at 1. rewrite Etl. reflexivity.
  - intros x Hx. apply Vtl. apply in_or_app. right. exact Hx.
Qed.

(* ---------------------------------------------------------------------------------- *)
(* the layout of a concatenation *)

Lemma lay_aux_app : forall pre X, fst (lay_aux X) = [] ->
  lay_aux (pre ++ X) = (fst (lay_aux pre), snd (lay_aux pre) ++ snd (lay_aux X)).
Proof.
  induction pre as [|c pre IH]; intros X HX; cbn [app lay_aux].
  - destruct (lay_aux X) as [a b]. cbn [fst snd] in *. subst a. reflexivity.
  - rewrite (IH X HX). destruct (lay_aux pre) as [pc cells]. cbn [fst snd].
    destruct (0 <? cpw c); cbn [fst snd]; [|reflexivity]. cbn [app]. f_equal. f_equal. apply app_assoc.
Qed.

Lemma lay_app : forall pre X, starts_base X -> lay (pre ++ X) = lay pre ++ lay X.
Proof. intros pre X Sb. unfold lay. rewrite lay_aux_app by (apply lay_aux_base; exact Sb). reflexivity. Qed.

Lemma lay_zerow : forall combs, zerow combs -> lay combs = [].
Proof.
  intros combs Z0. unfold lay. rewrite <- (app_nil_r combs). rewrite lay_aux_zerow by exact Z0. reflexivity.
Qed.

Lemma lay_length_gen : forall u, valid u -> zlen (lay u) = tw u.
Proof.
  intros u V. destruct (split_grapheme u V) as (combs & rest & -> & Z0 & Sb).
  rewrite lay_app by exact Sb. rewrite (lay_zerow combs Z0). cbn [app]. rewrite tw_app, (tw_zerow combs Z0).
  rewrite lay_length; [lia| |exact Sb]. intros x Hx. apply V. apply in_or_app. right. exact Hx.
Qed.

(* the cells of a grapheme inside a laid-out string *)
Lemma lay_at : forall pre c combs rest,
  valid pre -> 0 < cpw c -> zerow combs -> starts_base rest ->
  nth (Z.to_nat (tw pre)) (lay (pre ++ (c :: combs) ++ rest)) [] = c :: combs /\
  (cpw c = 2 -> nth (Z.to_nat (tw pre + 1)) (lay (pre ++ (c :: combs) ++ rest)) [] = []).
Proof.
  intros pre c combs rest V Hc Z0 Sb.
  assert (Hp := tw_nonneg pre V).
  rewrite lay_app by (cbn [app starts_base]; exact Hc). cbn [app]. rewrite lay_grapheme by assumption.
  assert (Ll := lay_length_gen pre V). unfold zlen in Ll. split.
  - rewrite app_nth2 by lia. replace (Z.to_nat (tw pre) - length (lay pre))%nat with 0%nat by lia. reflexivity.
  - intros W2. rewrite app_nth2 by lia. replace (Z.to_nat (tw pre + 1) - length (lay pre))%nat with 1%nat by lia.
    rewrite W2. reflexivity.
Qed.

(* ---------------------------------------------------------------------------------- *)
(* the cells of a text span, by regions *)

Lemma ops_cells_app : forall pn a b, ops_cells pn (a ++ b) = ops_cells pn a ++ ops_cells pn b.
Proof. intros. unfold ops_cells. apply flat_map_app. Qed.

Lemma ops_cells_blanks : forall pn k, ops_cells pn (repeat (TPrint [32]) k) = repeat (mkT [32] pn) k.
Proof.
  intros pn k. induction k as [|k IH]; [reflexivity|]. cbn [repeat]. unfold ops_cells in *. cbn [flat_map]. rewrite IH. reflexivity.
Qed.

Definition sub (s : list Z) (a b : nat) : list Z := firstn (b - a) (skipn a s).

Lemma tw_sub : forall s a b, (a <= b)%nat -> tw (sub s a b) = tw (firstn b s) - tw (firstn a s).
Proof.
  intros s a b H. unfold sub. replace b with (a + (b - a))%nat at 2 by lia. rewrite firstn_skipn_tw. lia.
Qed.

Lemma valid_sub : forall s a b, valid s -> valid (sub s a b).
Proof. intros. unfold sub. apply valid_firstn, valid_skipn. assumption. Qed.

Lemma nth_repeat_in : forall {A} (x d : A) k j, (j < k)%nat -> nth j (repeat x k) d = x.
Proof.
  intros A x d k j H. assert (Hin : In (nth j (repeat x k) d) (repeat x k)) by (apply nth_In; rewrite repeat_length; exact H).
  apply repeat_spec in Hin. exact Hin.
Qed.

Lemma span_text_cells : forall p s offs n d,
  text_valid s = true -> 0 <= offs -> 1 <= n -> offs + n <= text_width s ->
  exists k1 k2, (k1 <= k2 <= length s)%nat /\
    offs <= tw (firstn k1 s) <= offs + 1 /\
    tw (firstn k1 s) <= tw (firstn k2 s) <= offs + n /\
    (k1 = length s \/ exists c, nth_error s k1 = Some c /\ 0 < cpw c) /\
    (k2 = length s \/ exists c, nth_error s k2 = Some c /\ 0 < cpw c /\ tw (firstn k2 s) + cpw c > offs + n) /\
    (tw (firstn k1 s) = offs \/
     (tw (firstn k1 s) = offs + 1 /\
      exists k0 c, (k0 <= length s)%nat /\ tw (firstn k0 s) < offs /\ nth_error s k0 = Some c /\ 0 < cpw c /\
                   tw (firstn k0 s) + cpw c > offs)) /\
    forall j, 0 <= j < n ->
      let T := t_text (nth (Z.to_nat j) (span_out (CText p s offs) n) d) in
      (offs + j < tw (firstn k1 s) -> T = [32]) /\
      (tw (firstn k2 s) <= offs + j -> T = [32]) /\
      (tw (firstn k1 s) <= offs + j < tw (firstn k2 s) ->
       T = nth (Z.to_nat (offs + j - tw (firstn k1 s))) (lay (sub s k1 k2)) []).
Proof.
  intros p s offs n d Hv Ho Hn Hw.
  destruct (text_emit_shape p s offs n Hv Ho Hn Hw) as (k1 & k2 & Hk & C1 & C2 & E & NB1 & NB2 & LD).
  exists k1, k2. split; [exact Hk|]. split; [exact C1|]. split; [exact C2|]. split; [exact NB1|]. split; [exact NB2|]. split; [exact LD|].
  assert (V := text_valid_valid s Hv).
  set (c1 := tw (firstn k1 s)) in *. set (c2 := tw (firstn k2 s)) in *.
  set (cp := canon_pen p).
  set (M := if (k1 <? k2)%nat then map (fun txt => mkT txt cp) (lay (sub s k1 k2)) else []).
  assert (Eo : span_out (CText p s offs) n =
               repeat (mkT [32] cp) (Z.to_nat (c1 - offs)) ++ M ++ repeat (mkT [32] cp) (Z.to_nat (offs + n - c2))).
  { cbn [span_out]. rewrite E. change (TSetPen p :: ?l) with ([TSetPen p] ++ l).
    rewrite !ops_cells_app, !ops_cells_blanks. cbn [ops_cells flat_map app]. f_equal. f_equal.
    unfold M, sub. destruct (k1 <? k2)%nat; [|reflexivity]. unfold ops_cells. cbn [flat_map]. apply app_nil_r. }
  assert (LM : length M = Z.to_nat (c2 - c1)).
  { unfold M. destruct (Nat.ltb_spec k1 k2).
    - rewrite map_length. pose proof (lay_length_gen (sub s k1 k2) (valid_sub s k1 k2 V)) as H1. unfold zlen in H1.
      rewrite tw_sub in H1 by lia. fold c1 c2 in H1. lia.
    - assert (k1 = k2) by lia. subst k2. unfold c1, c2. cbn. lia. }
  intros j Hj. cbv zeta. rewrite Eo. split; [|split].
  - intros Hlt. rewrite app_nth1 by (rewrite repeat_length; lia). rewrite nth_repeat_in by lia. reflexivity.
  - intros Hge. rewrite app_nth2 by (rewrite repeat_length; lia). rewrite app_nth2 by (rewrite repeat_length; lia).
    rewrite nth_repeat_in by (rewrite repeat_length; lia). reflexivity.
  - intros (H1 & H2). rewrite app_nth2 by (rewrite repeat_length; lia). rewrite app_nth1 by (rewrite repeat_length; lia).
    rewrite repeat_length. unfold M. destruct (Nat.ltb_spec k1 k2).
    + rewrite (nth_indep _ d (mkT [] cp)) by (fold M; rewrite LM; lia).
      rewrite (map_nth (fun txt => mkT txt cp) (lay (sub s k1 k2)) []). cbn [t_text]. f_equal. lia.
    + exfalso. assert (k1 = k2) by lia. subst k2. unfold c1, c2 in *. lia.
Qed.

(* ---------------------------------------------------------------------------------- *)
(* a slice of a decomposed string *)

Lemma sub_decomp : forall (pre G rest : list Z) k1 k2,
  (k1 <= length pre)%nat -> (length pre + length G <= k2)%nat ->
  sub (pre ++ G ++ rest) k1 k2 = skipn k1 pre ++ G ++ firstn (k2 - length pre - length G) rest.
Proof.
  intros pre G rest k1 k2 H1 H2. unfold sub.
  rewrite skipn_app. replace (k1 - length pre)%nat with 0%nat by lia. cbn [skipn].
  rewrite firstn_app. rewrite firstn_all2 by (rewrite skipn_length; lia). f_equal.
  rewrite skipn_length. rewrite firstn_app. rewrite firstn_all2 by lia. f_equal. f_equal. lia.
Qed.

Lemma starts_base_firstn : forall m r, starts_base r -> starts_base (firstn m r).
Proof. intros [|m] [|b r] H; cbn; auto. Qed.

Lemma tw_skipn_firstn : forall s k1 ka, (k1 <= ka)%nat ->
  tw (skipn k1 (firstn ka s)) = tw (firstn ka s) - tw (firstn k1 s).
Proof.
  intros s k1 ka H.
  assert (E : firstn ka s = firstn k1 (firstn ka s) ++ skipn k1 (firstn ka s)) by (symmetry; apply firstn_skipn).
  rewrite firstn_firstn in E. replace (Init.Nat.min k1 ka) with k1 in E by lia.
  rewrite E at 2. rewrite tw_app. lia.
Qed.

(* ---------------------------------------------------------------------------------- *)
(* a text cell against expect_cell's arithmetic *)

Lemma text_cell_ok : forall p s offs n d j,
  text_valid s = true -> 0 <= offs -> 1 <= n -> offs + n <= text_width s -> 0 <= j < n ->
  let col := offs + j in
  let T := t_text (nth (Z.to_nat j) (span_out (CText p s offs) n) d) in
  let a := slice_start s col in
  let b := count_on s a (sp_gr a + 1) (-1) in
  let c0 := sp_col a in
  let w := sp_col b - c0 in
  c0 <= col < c0 + w /\
  (w = 1 -> T = slice s a b) /\
  (w <> 1 -> col = c0 -> (T = slice s a b /\ offs <= c0 /\ c0 + w <= offs + n) \/ T = [32]) /\
  (w <> 1 -> col <> c0 -> (T = [] /\ offs <= c0 /\ c0 + w <= offs + n) \/ T = [32]).
Proof.
  intros p s offs n d j Hv Ho Hn Hw Hj. cbv zeta.
  assert (V := text_valid_valid s Hv). rewrite text_width_tw in Hw.
  set (col := offs + j).
  destruct (slice_start_stop s col V ltac:(unfold col; lia)) as (ka & ga & Hka & Hga & Ea & (Sa1 & Sa2)).
  rewrite Ea. cbn [sp_gr sp_col].
  destruct Sa2 as [->|(c & Hc & Hc1 & Hc2)]; [rewrite firstn_all_tw in Sa1; unfold col in Sa1; lia|].
  assert (SPa : stopP s ka col) by (split; [exact Sa1|right; exists c; repeat split; assumption]).
  assert (HS := tw_firstn_S s ka c Hc).
  set (c0 := tw (firstn ka s)) in *.
  destruct (grapheme_at s ka c V Hc) as (combs & rest & Es & Z0 & Sb & Vr).
  remember (firstn ka s) as pre eqn:Epre.
  assert (Lpre : length pre = ka).
  { subst pre. rewrite firstn_length.
    assert (ka < length s)%nat by (apply nth_error_Some; congruence). lia. }
  assert (Zpre : zlen pre = Z.of_nat ka) by (unfold zlen; lia).
  (* the end of the grapheme *)
  assert (Eb : count_on s (mkPos (Z.of_nat ka) ga c0) (ga + 1) (-1) =
               mkPos (Z.of_nat ka + zlen (c :: combs)) (ga + 1) (c0 + cpw c)).
  { rewrite <- Zpre. rewrite Es at 1. apply count_on_gr; assumption. }
  rewrite Eb. cbn [sp_col].
  assert (Esl : slice s (mkPos (Z.of_nat ka) ga c0) (mkPos (Z.of_nat ka + zlen (c :: combs)) (ga + 1) (c0 + cpw c)) = c :: combs).
  { rewrite <- Zpre. rewrite Es at 1. apply slice_grapheme. }
  rewrite Esl.
  replace (c0 + cpw c - c0) with (cpw c) by lia.
  assert (Hw2 := cpw_le2 c).
  assert (Lens : length s = (ka + S (length combs) + length rest)%nat).
  { rewrite Es. rewrite !app_length. cbn [length]. lia. }
  split; [lia|].
  destruct (span_text_cells p s offs n d Hv Ho Hn ltac:(rewrite text_width_tw; exact Hw))
    as (k1 & k2 & Hk & C1 & C2 & NB1 & NB2 & LD & Cells).
  destruct (Cells j Hj) as (R1 & R2 & R3). cbv zeta in R1, R2, R3. fold col in R1, R2, R3.
  set (T := t_text (nth (Z.to_nat j) (span_out (CText p s offs) n) d)) in *.
  set (c1 := tw (firstn k1 s)) in *. set (c2 := tw (firstn k2 s)) in *.
  destruct (Z_lt_le_dec col c1) as [Hlt|Hge1].
  { (* the second half of a character cut at the start *)
    specialize (R1 Hlt).
    destruct LD as [LD|(LD & k0 & c' & Hk0 & L1 & L2 & L3 & L4)]; [unfold col in Hlt; lia|].
    assert (col = offs) by (unfold col in *; lia).
    assert (ka = k0).
    { apply (stop_unique s ka k0 col V Hka Hk0); [exact SPa|].
      split; [lia|]. right. exists c'. repeat split; try assumption. lia. }
    subst k0. rewrite <- Epre in L1, L4. fold c0 in L1, L4.
    split; [intros; lia|]. split; [intros _ Hc0; lia|]. intros _ _. right. exact R1. }
  destruct (Z_le_gt_dec c2 col) as [Hge2|Hlt2].
  { (* the first half of a character cut at the end *)
    specialize (R2 Hge2).
    destruct NB2 as [->|(c' & Hc' & Hc1' & Hc2')]; [unfold c2 in Hge2; rewrite firstn_all_tw in Hge2; unfold col in Hge2; lia|].
    assert (ka = k2).
    { apply (stop_unique s ka k2 col V Hka ltac:(lia)); [exact SPa|].
      split; [exact Hge2|]. right. exists c'. repeat split; try assumption. unfold col. fold c2. lia. }
    subst k2. unfold c2 in Hge2, Hc2', C2. rewrite <- Epre in Hge2, Hc2', C2. fold c0 in Hge2, Hc2', C2.
    rewrite Hc in Hc'. inversion Hc'; subst c'.
    split; [intros; unfold col in *; lia|]. split; [intros _ _; right; exact R2|]. intros _ Hne. unfold col in *. lia. }
  (* inside the printed slice *)
  specialize (R3 ltac:(lia)).
  assert (K1 : (k1 <= ka)%nat).
  { destruct (le_lt_dec k1 ka); [assumption|exfalso].
    assert (Hm := tw_firstn_mono s (S ka) k1 V ltac:(lia)). rewrite HS in Hm. fold c0 c1 in Hm. lia. }
  assert (K2 : (ka < k2)%nat).
  { destruct (le_lt_dec k2 ka); [exfalso|assumption].
    assert (Hm := tw_firstn_mono s k2 ka V ltac:(lia)). rewrite <- Epre in Hm. fold c0 c2 in Hm. lia. }
  assert (K3 : (ka + S (length combs) <= k2)%nat).
  { destruct (le_lt_dec (ka + S (length combs)) k2); [assumption|exfalso].
    destruct NB2 as [->|(c' & Hc' & Hc1' & _)]; [lia|].
    rewrite Es in Hc'. rewrite nth_error_app2 in Hc' by lia. rewrite Lpre in Hc'.
    destruct (k2 - ka)%nat as [|m'] eqn:Em; [lia|]. cbn [app nth_error] in Hc'.
    rewrite nth_error_app1 in Hc' by lia. apply nth_error_In in Hc'. rewrite (Z0 c' Hc') in Hc1'. lia. }
  assert (D := sub_decomp pre (c :: combs) rest k1 k2 ltac:(lia) ltac:(cbn [length]; lia)).
  rewrite <- Es in D.
  set (A := skipn k1 pre) in *. set (R := firstn (k2 - length pre - length (c :: combs)) rest) in *.
  assert (VA : valid A) by (unfold A; subst pre; apply valid_skipn, valid_firstn, V).
  assert (TA : tw A = c0 - c1) by (unfold A; subst pre; apply tw_skipn_firstn; exact K1).
  destruct (lay_at A c combs R VA Hc1 Z0 (starts_base_firstn _ rest Sb)) as (LA1 & LA2).
  rewrite <- D in LA1, LA2. rewrite TA in LA1, LA2.
  assert (Hcc : c0 <= col) by exact Sa1.
  assert (Hc01 : c1 <= c0).
  { assert (Hm := tw_firstn_mono s k1 ka V K1). rewrite <- Epre in Hm. fold c0 c1 in Hm. exact Hm. }
  assert (Hkb : c0 + cpw c <= c2).
  { assert (X : forall s', s' = pre ++ (c :: combs) ++ rest ->
                tw (firstn (ka + S (length combs)) s') = tw pre + cpw c).
    { intros s' ->. rewrite app_assoc. rewrite firstn_app.
      rewrite firstn_all2 by (rewrite app_length; cbn [length]; lia).
      replace (ka + S (length combs) - length (pre ++ c :: combs))%nat with 0%nat by (rewrite app_length; cbn [length]; lia).
      cbn [firstn]. rewrite app_nil_r, tw_app. cbn [tw]. rewrite (tw_zerow combs Z0). lia. }
    specialize (X s Es). assert (Hm := tw_firstn_mono s _ k2 V K3). rewrite X in Hm. fold c0 c2 in Hm. exact Hm. }
  destruct (Z.eq_dec col c0) as [E0|N0].
  - assert (ET : T = c :: combs).
    { rewrite R3. replace (col - c1) with (c0 - c1) by lia. exact LA1. }
    split; [intros _; exact ET|]. split; [intros _ _; left; split; [exact ET|lia]|]. intros _ Hne. lia.
  - assert (cpw c = 2 /\ col = c0 + 1) by (unfold col in *; lia). destruct H as (W2 & Ecol).
    split; [intros; lia|]. split; [intros _ Hc0; lia|]. intros _ _. left. split; [|lia].
    rewrite R3. replace (col - c1) with (c0 - c1 + 1) by lia. exact (LA2 W2).
Qed.

(* ---------------------------------------------------------------------------------- *)
(* every cell meets its expectation *)

Lemma list_eqb_refl : forall l : list Z, list_eqb Z.eqb l l = true.
Proof. induction l as [|x l IH]; cbn [list_eqb]; [reflexivity|]. now rewrite Z.eqb_refl, IH. Qed.

Lemma pen_equiv_canon_l : forall p, pen_equiv (canon_pen p) p = true.
Proof.
  intros p. unfold pen_equiv. apply forallb_forall. intros a Ha. apply PenProofs.value_eqb_eq.
  destruct a; reflexivity.
Qed.

Lemma tcell_eqb_refl : forall c, tcell_eqb c c = true.
Proof. intros [t p]. unfold tcell_eqb. cbn [t_text t_pen]. now rewrite list_eqb_refl, pen_equiv_refl. Qed.

Lemma nthz_zn : forall {A} (l : list A) i d, 0 <= i -> nthz l i d = zn l i d.
Proof. intros A l i d Hi. unfold nthz, zn. destruct (Z.ltb_spec i 0); [lia|reflexivity]. Qed.

Lemma zn_beyond : forall {A} (l : list A) i d, zlen l <= i -> zn l i d = d.
Proof. intros A l i d Hi. unfold zn, zlen in *. apply nth_overflow. lia. Qed.

Theorem cell_meets_shown : forall r x before,
  WF r -> row_content_ok r -> 0 <= x < len r ->
  cell_meets (expect_cell (abs_row r) x) before (shown r x before) = true.
Proof.
  intros r x before W RC Hx.
  destruct (span_of r x W Hx) as (i & c & n & Hi & Ei & Hin).
  unfold expect_cell. rewrite nthz_zn by lia. rewrite zn_abs_row by lia. cbn [ac].
  rewrite (span_cells r i c n x W Hi Ei Hin), (shown_span r i c n x before W Hi Ei Hin).
  assert (Wi := W i Hi). unfold wf_cellf in Wi. rewrite Ei in Wi. destruct Wi as (K1 & K2 & K3 & _).
  assert (Gw := RC i Hi). unfold span_ok in Gw. rewrite Ei in Gw.
  destruct c as [|p s offs|p|p m|p cp]; cbn [content_at span_out].
  - (* skip *) replace (nth (Z.to_nat (x - i)) [] before) with before by (destruct (Z.to_nat (x - i)); reflexivity).
    cbn [cell_meets]. apply tcell_eqb_refl.
  - (* text *)
    destruct Gw as (G1 & G2 & G3).
    assert (Hj : 0 <= x - i < n) by lia.
    destruct (text_cell_ok p s offs n before (x - i) G1 G2 K1 G3 Hj) as (Q0 & Q1 & Q2 & Q3). cbv zeta in Q0, Q1, Q2, Q3.
    (* the pen *)
    assert (Pn : t_pen (nth (Z.to_nat (x - i)) (ops_cells (canon_pen p) (text_emit p s offs n)) before) = canon_pen p).
    { destruct (text_emit_prints_ok p s offs n G1 G2 K1 G3) as (prints & Ep & Hp & Hlc).
      apply (ops_cells_pen (canon_pen p) (text_emit p s offs n)). apply nth_In.
      rewrite Ep. change (ops_cells (canon_pen p) (TSetPen p :: prints)) with (ops_cells (canon_pen p) prints).
      pose proof (ops_cells_length (canon_pen p) prints Hp) as Ll. unfold zlen in Ll. lia. }
    cbn [span_out] in Q1, Q2, Q3.
    set (cell := nth (Z.to_nat (x - i)) (ops_cells (canon_pen p) (text_emit p s offs n)) before) in *.
    set (col := offs + (x - i)) in *.
    set (a := slice_start s col) in *.
    set (b := count_on s a (sp_gr a + 1) (-1)) in *.
    cbv zeta.
    assert (Pe : pen_equiv (t_pen cell) p = true) by (rewrite Pn; apply pen_equiv_canon_l).
    match goal with |- cell_meets (if ?wh then _ else _) _ _ = true => destruct wh end; [|cbn [cell_meets]; exact Pe].
    destruct (Z.eqb_spec (sp_col b - sp_col a) 1) as [W1|W1].
    + cbn [cell_meets]. rewrite (Q1 W1), list_eqb_refl, Pe. reflexivity.
    + destruct (Z.eqb_spec col (sp_col a)) as [E0|N0]; cbn [cell_meets].
      * destruct (Q2 W1 E0) as [(-> & _)| ->]; rewrite list_eqb_refl, ?orb_true_r, Pe; reflexivity.
      * destruct (Q3 W1 N0) as [(-> & _)| ->]; rewrite Pe; reflexivity.
  - (* erase *)
    rewrite nth_repeat_in by lia. cbn [cell_meets t_text t_pen]. rewrite list_eqb_refl, pen_equiv_canon_l. reflexivity.
  - specialize (K3 eq_refl). subst n. replace (x - i) with 0 by lia. cbn [Z.to_nat nth cell_meets t_text t_pen].
    rewrite list_eqb_refl, pen_equiv_canon_l. reflexivity.
  - specialize (K3 eq_refl). subst n. replace (x - i) with 0 by lia. cbn [Z.to_nat nth cell_meets t_text t_pen].
    rewrite list_eqb_refl, pen_equiv_canon_l. reflexivity.
Qed.

(* ---------------------------------------------------------------------------------- *)
(* THE PROPERTY *)

Theorem flush_full : forall s t0 ops s',
  Inv s -> acells_ok (abs_rb s) ->
  term_ok t0 -> rb_lines s <= t_lines t0 -> rb_cols s <= t_cols t0 ->
  flush s = Ok (ops, s') ->
  exists t1, t_run t0 ops = Ok t1 /\ grid_meets (ag (abs_rb s)) (tg t0) (tg t1) = true.
Proof.
  intros s t0 ops s' I Hc T HL HC E.
  destruct (flush_grid_shown s t0 ops s' I Hc T HL HC E) as (t1 & Et & T1 & (F1 & F2 & F3) & G).
  exists t1. split; [exact Et|]. unfold grid_meets.
  destruct T as (A1 & A2 & A3). destruct T1 as (B1 & B2 & B3).
  apply andb_true_iff. split; [apply Nat.eqb_eq; unfold zlen in *; lia|].
  apply forallb_forall. intros y Hy. apply in_zseq in Hy. cbv zeta.
  assert (Hy' : 0 <= y < t_lines t0) by (unfold zlen in A1; lia).
  rewrite !nthz_zn by lia.
  assert (R0 := A3 y Hy'). assert (R1 := B3 y ltac:(lia)).
  apply andb_true_iff. split; [apply Nat.eqb_eq; unfold zlen in *; lia|].
  apply forallb_forall. intros x Hx. apply in_zseq in Hx.
  assert (Hx' : 0 <= x < t_cols t0) by (unfold zlen in R0; lia).
  rewrite !nthz_zn by lia.
  change (zn (zn (tg t1) y []) x (mkT [] pen_empty)) with (tcellat t1 y x).
  change (zn (zn (tg t0) y []) x (mkT [] pen_empty)) with (tcellat t0 y x).
  rewrite G by assumption.
  destruct (Z.ltb_spec y (rb_lines s)); cbn [andb].
  - rewrite ag_abs_row by (rewrite (inv_lines s I); lia).
    destruct (inv_rows s I y ltac:(lia)) as (Hl & W & _).
    destruct (Z.ltb_spec x (rb_cols s)).
    + apply cell_meets_shown; [exact W|apply rows_content_ok; assumption || lia|lia].
    + unfold expect_cell. rewrite nthz_zn by lia. rewrite zn_beyond by (rewrite zlen_abs_row; lia).
      cbn [ac cell_meets]. apply tcell_eqb_refl.
  - rewrite (zn_beyond (ag (abs_rb s)) y) by (rewrite ag_abs_len, (inv_lines s I); lia).
    unfold expect_cell. rewrite nthz_zn by lia. rewrite zn_beyond by (unfold zlen; cbn; lia).
    cbn [ac cell_meets]. apply tcell_eqb_refl.
Qed.

(* ... for every buffer a drawing program reaches *)
Theorem flush_full_reachable : forall L C prog s v t0,
  0 <= L -> 0 <= C -> Forall op_ok prog -> run (rb_new L C) prog = Ok (s, v) ->
  term_ok t0 -> L <= t_lines t0 -> C <= t_cols t0 ->
  exists ops t1, flush s = Ok (ops, reset s) /\ t_run t0 ops = Ok t1 /\
    grid_meets (ag (fst (arun (a_new L C) prog))) (tg t0) (tg t1) = true.
Proof.
  intros L C prog s v t0 HL HC Ho E T TL TC.
  destruct (program_refines L C prog HL HC) as (t & w & F & I & Ab & _). rewrite E in F. inversion F; subst t w.
  assert (Hc : acells_ok (abs_rb s)).
  { rewrite Ab. apply arun_aok; [exact Ho|apply ashape_new; assumption|apply aok_new; assumption]. }
  assert (SL : rb_lines s = L /\ rb_cols s = C).
  { destruct (arun_dims prog (a_new L C) (ashape_new L C HL HC)) as (D1 & D2).
    rewrite <- Ab in D1, D2. cbn [abs_rb a_lines a_cols a_new] in D1, D2. split; assumption. }
  destruct SL as (SL1 & SL2).
  destruct (flush_total_and_resets s I) as (ops & Ef & _).
  destruct (flush_full s t0 ops (reset s) I Hc T) as (t1 & Et & G); try lia; [exact Ef|].
  exists ops, t1. split; [exact Ef|]. split; [exact Et|]. rewrite <- Ab. exact G.
Qed.
