(* RBFlushReach.v -- the content hypotheses of RBFlushCols.v hold in every buffer a drawing
   program reaches, so: flushing any reachable buffer writes exactly the buffer's pending
   cells, each once, each at its own position, in row-major order. *)
From Coq Require Import ZArith List Bool Lia.
From Tickit Require Import RectDefs RBDefs RBSpec RBLemmas RBSpanProofs RBAbsLemmas RBInv RBOpProofs RBProofs RBProps
                           RBTheorems Gen_Linechars RBGlyphs RBFlushDefs RBFlushSpec RBFlushProofs RBWidth RBFlushCols.
Import ListNotations.
Local Open Scope Z_scope.

(* what every cell of a reachable buffer satisfies *)
Definition cellc_ok (c : cellc) : Prop :=
  match c with
  | AText p s k => text_valid s = true /\ 0 <= k < text_width s
  | AChar p cp => cpw cp = 1
  | ALine p m => 1 <= m <= 255
  | _ => True
  end.

Definition acells_ok (A : ast) : Prop := forall y x, in_grid A y x -> cellc_ok (ac (gcell (ag A) y x)).

(* line styles are SINGLE, DOUBLE or THICK *)
Definition op_ok (o : rbop) : Prop :=
  match o with
  | OHLine _ _ _ style _ | OVLine _ _ _ style _ => 1 <= style <= 3
  | _ => True
  end.

(* ---------------------------------------------------------------------------------- *)
(* every line mask 1..255 has a glyph of width one *)

Lemma linechar_width : forall m, 1 <= m <= 255 -> cpw (linechar m) = 1.
Proof.
  assert (G : forallb (fun m => cpw (linechar m) =? 1) (zseq 1 255) = true) by (vm_compute; reflexivity).
  intros m Hm. rewrite forallb_forall in G. apply Z.eqb_eq. apply G. apply in_zseq. lia.
Qed.

Lemma lor_byte : forall a b, 0 <= a <= 255 -> 0 <= b <= 255 -> 0 <= Z.lor a b <= 255.
Proof.
  intros a b Ha Hb.
  assert (N : 0 <= Z.lor a b) by (apply Z.lor_nonneg; lia).
  split; [exact N|].
  destruct (Z.eq_dec a 0) as [->|Na]; [rewrite Z.lor_0_l; lia|].
  destruct (Z.eq_dec b 0) as [->|Nb]; [rewrite Z.lor_0_r; lia|].
  assert (La : Z.log2 a < 8) by (apply Z.log2_lt_pow2; [lia|change (2 ^ 8) with 256; lia]).
  assert (Lb : Z.log2 b < 8) by (apply Z.log2_lt_pow2; [lia|change (2 ^ 8) with 256; lia]).
  assert (P : 0 < Z.lor a b).
  { destruct (Z.eq_dec (Z.lor a b) 0) as [E|]; [|lia]. apply Z.lor_eq_0_iff in E. lia. }
  assert (Z.lor a b < 2 ^ 8); [|change (2 ^ 8) with 256 in *; lia].
  apply Z.log2_lt_pow2; [exact P|]. rewrite Z.log2_lor by lia. lia.
Qed.

Lemma lor_mask : forall m bits, 0 <= m <= 255 -> 1 <= bits <= 255 -> 1 <= Z.lor m bits <= 255.
Proof.
  intros m bits Hm Hb. destruct (lor_byte m bits) as (L1 & L2); [lia|lia|]. split; [|exact L2].
  destruct (Z.eq_dec (Z.lor m bits) 0) as [E|]; [|lia]. apply Z.lor_eq_0_iff in E. lia.
Qed.

Lemma has_cap_cases : forall (P : bool -> Prop) caps c, P true -> P false -> P (has_cap caps c).
Proof. intros P caps c Ht Hf. destruct (has_cap caps c); assumption. Qed.

Lemma hline_bits_ok : forall c1 c2 st caps cb, 1 <= st <= 3 -> In cb (hline_bits c1 c2 st caps) -> 1 <= snd cb <= 255.
Proof.
  intros c1 c2 st caps cb Hs Hi.
  assert (Cs : st = 1 \/ st = 2 \/ st = 3) by lia.
  unfold hline_bits in Hi. cbv zeta in Hi.
  destruct Hi as [<-|Hi].
  { cbn [snd]. apply has_cap_cases; destruct Cs as [->|[->| ->]]; vm_compute; split; discriminate. }
  apply in_app_or in Hi. destruct Hi as [Hi|[<-|[]]].
  - apply in_map_iff in Hi. destruct Hi as (k & <- & _). cbn [snd].
    destruct Cs as [->|[->| ->]]; vm_compute; split; discriminate.
  - cbn [snd]. apply has_cap_cases; destruct Cs as [->|[->| ->]]; vm_compute; split; discriminate.
Qed.

Lemma vline_bits_ok : forall l1 l2 st caps lb, 1 <= st <= 3 -> In lb (vline_bits l1 l2 st caps) -> 1 <= snd lb <= 255.
Proof.
  intros l1 l2 st caps lb Hs Hi.
  assert (Cs : st = 1 \/ st = 2 \/ st = 3) by lia.
  unfold vline_bits in Hi. cbv zeta in Hi.
  destruct Hi as [<-|Hi].
  { cbn [snd]. apply has_cap_cases; destruct Cs as [->|[->| ->]]; vm_compute; split; discriminate. }
  apply in_app_or in Hi. destruct Hi as [Hi|[<-|[]]].
  - apply in_map_iff in Hi. destruct Hi as (k & <- & _). cbn [snd].
    destruct Cs as [->|[->| ->]]; vm_compute; split; discriminate.
  - cbn [snd]. apply has_cap_cases; destruct Cs as [->|[->| ->]]; vm_compute; split; discriminate.
Qed.

(* ---------------------------------------------------------------------------------- *)
(* preservation by the specification's steps *)

Lemma aok_paint : forall A r F,
  ashape A -> acells_ok A ->
  (forall y x old, target (a_aux A) r y x = true -> cellc_ok old -> cellc_ok (F y x old)) ->
  acells_ok (a_paint A r F).
Proof.
  intros A r F (H1 & H2) Hc HF y x (Hy & Hx). cbn [a_paint set_ag a_lines a_cols] in Hy, Hx.
  rewrite gcell_a_paint by (try rewrite H2 by assumption; lia). cbv zeta.
  assert (Old := Hc y x (conj Hy Hx)).
  destruct (target (a_aux A) r y x) eqn:T; cbn [andb]; [|exact Old].
  destruct (_ =? _); cbn [ac]; [|exact Old]. apply HF; assumption.
Qed.

Lemma aok_linecell_fold : forall (pos : Z * Z -> Z * Z) l A,
  (forall cb, In cb l -> 1 <= snd cb <= 255) ->
  ashape A -> acells_ok A ->
  acells_ok (fold_left (fun acc cb => a_linecell acc (fst (pos cb)) (snd (pos cb)) (snd cb)) l A).
Proof.
  intros pos l. induction l as [|cb l IH]; intros A Hb Hs Hc; cbn [fold_left]; [assumption|].
  apply IH; [intros cb' Hi; apply Hb; right; exact Hi|unfold a_linecell; apply ashape_paint; assumption|].
  unfold a_linecell. apply aok_paint; auto. intros y x old _ Ho.
  assert (Bb := Hb cb (or_introl eq_refl)).
  destruct old; cbn [cellc_ok] in *; try (apply lor_mask; lia).
Qed.

Theorem astep_aok : forall A o, op_ok o -> ashape A -> acells_ok A -> acells_ok (fst (astep A o)).
Proof.
  intros A o Ho Hs Hc.
  assert (Pn : forall r (c : cellc), cellc_ok c -> acells_ok (a_paint A r (fun _ _ _ => c))).
  { intros r c Hn. apply aok_paint; auto. }
  assert (Ptext : forall l c t, text_valid t = true -> acells_ok (a_text A l c t)).
  { intros l c t Hv. unfold a_text. apply aok_paint; auto. intros y x old T _. cbn [cellc_ok]. split; [exact Hv|].
    apply target_iff in T. unfold row_rect in T. cbn [top left lines cols] in T. lia. }
  assert (Pchar : forall l c cp, acells_ok (a_char A l c cp)).
  { intros l c cp. unfold a_char. destruct (text_valid [cp]) eqn:Ev; cbn [negb]; [|assumption].
    destruct (Z.eqb_spec (cpw cp) 1); [|apply Ptext; exact Ev].
    apply Pn. exact e. }
  destruct o; cbn [astep fst]; try assumption;
    try (unfold a_skip; apply Pn; exact Logic.I);
    try (unfold a_erase; apply Pn; exact Logic.I);
    try (destruct (vc_set (a_aux A)); cbn [negb fst]; [|assumption];
         first [unfold a_skip; apply Pn; exact Logic.I | unfold a_erase; apply Pn; exact Logic.I]).
  - (* mask *) intros y x (Hy & Hx). destruct Hs as (H1 & H2). cbn [a_mask set_ag a_lines a_cols ag] in *.
    rewrite gcell_mapi2 by (try rewrite H2 by assumption; lia).
    assert (Old := Hc y x (conj Hy Hx)). destruct (_ && _); exact Old.
  - (* restore *) unfold a_restore. destruct (stack (a_aux A)); [assumption|].
    intros y x (Hy & Hx). destruct Hs as (H1 & H2). cbn [a_lines a_cols ag] in *.
    rewrite gcell_map2 by (try rewrite H2 by assumption; lia).
    assert (Old := Hc y x (conj Hy Hx)). destruct (_ >? _); exact Old.
  - (* reset *) intros y x (Hy & Hx). cbn [a_reset a_lines a_cols ag] in *. unfold gcell.
    rewrite zn_repeat by lia. rewrite zn_repeat by lia. exact Logic.I.
  - destruct (text_valid t) eqn:Ev; cbn [negb fst]; [apply Ptext; exact Ev|assumption].
  - destruct (vc_set (a_aux A)); cbn [negb fst]; [|assumption].
    destruct (text_valid t) eqn:Ev; cbn [negb fst]; [apply Ptext; exact Ev|assumption].
  - apply Pchar.
  - destruct (vc_set (a_aux A)); cbn [negb fst]; [|assumption].
    destruct (text_valid [cp] && (0 <? cpw cp)); cbn [fst]; [apply Pchar|assumption].
  - apply (aok_linecell_fold (fun cb => (l, fst cb))); try assumption.
    intros cb Hi. eapply hline_bits_ok; [exact Ho|exact Hi].
  - apply (aok_linecell_fold (fun lb => (fst lb, c))); try assumption.
    intros cb Hi. eapply vline_bits_ok; [exact Ho|exact Hi].
Qed.

Theorem arun_aok : forall ops A, Forall op_ok ops -> ashape A -> acells_ok A -> acells_ok (fst (arun A ops)).
Proof.
  induction ops as [|o ops IH]; intros A Ho Hs Hc; cbn [arun]; [assumption|].
  inversion Ho as [|o' ops' Ho1 Ho2]; subst.
  pose proof (astep_aok A o Ho1 Hs Hc) as H1. destruct (astep_shape A o Hs) as (H2 & _).
  destruct (astep A o) as [A1 v1]. cbn [fst] in *. specialize (IH A1 Ho2 H2 H1).
  destruct (arun A1 ops) as [A2 v2]. exact IH.
Qed.

Lemma aok_new : forall L C, 0 <= L -> 0 <= C -> acells_ok (a_new L C).
Proof.
  intros L C HL HC y x (Hy & Hx). cbn [a_new a_lines a_cols ag] in *. unfold gcell.
  rewrite zn_repeat by lia. rewrite zn_repeat by lia. exact Logic.I.
Qed.

(* ---------------------------------------------------------------------------------- *)
(* from the abstract cells to the spans of the concrete rows *)

Lemma gcell_abs : forall s y x, Inv s -> 0 <= y < rb_lines s -> 0 <= x < rb_cols s ->
  ac (gcell (ag (abs_rb s)) y x) = abs_cell (zn (cells s) y []) x.
Proof.
  intros s y x I Hy Hx. unfold gcell.
  rewrite ag_abs_row by (rewrite (inv_lines s I); lia).
  destruct (inv_rows s I y Hy) as (Hl & _).
  rewrite zn_abs_row by lia. reflexivity.
Qed.

Lemma rows_content_ok : forall s y, Inv s -> acells_ok (abs_rb s) -> 0 <= y < rb_lines s ->
  row_content_ok (zn (cells s) y []).
Proof.
  intros s y I Hc Hy i Hi. set (r := zn (cells s) y []) in *.
  destruct (inv_rows s I y Hy) as (Hl & W & _). fold r in Hl, W.
  unfold span_ok. destruct (ck (get r i)) as [c n|sc] eqn:Ei; [|exact Logic.I].
  assert (Wi := W i Hi). unfold wf_cellf in Wi. rewrite Ei in Wi. destruct Wi as (K1 & K2 & _).
  assert (Cell : forall x, i <= x < i + n -> cellc_ok (content_at c (x - i))).
  { intros x Hx. rewrite <- (span_cells r i c n x W Hi Ei Hx). unfold r. rewrite <- gcell_abs by (assumption || lia).
    apply Hc. split; cbn [abs_rb a_lines a_cols]; lia. }
  destruct c as [|p t offs|p|p m|p cp]; try exact Logic.I.
  - assert (C0 := Cell i ltac:(lia)). assert (C1 := Cell (i + n - 1) ltac:(lia)). cbn [content_at cellc_ok] in C0, C1.
    destruct C0 as (V & C0). destruct C1 as (_ & C1). split; [exact V|]. lia.
  - assert (C0 := Cell i ltac:(lia)). cbn [content_at cellc_ok] in C0. apply linechar_width. exact C0.
  - assert (C0 := Cell i ltac:(lia)). cbn [content_at cellc_ok] in C0. exact C0.
Qed.

(* ---------------------------------------------------------------------------------- *)
(* which positions are pending *)

Lemma NoDup_map_inj : forall {A B} (f : A -> B) l, (forall a b, f a = f b -> a = b) -> NoDup l -> NoDup (map f l).
Proof.
  intros A B f l Hf H. induction H as [|x l Hx Hl IH]; cbn [map]; constructor; [|exact IH].
  intros Hi. apply in_map_iff in Hi. destruct Hi as (y & Ey & Hy). apply Hf in Ey. subst y. contradiction.
Qed.

Lemma NoDup_app_disj : forall {A} (a b : list A),
  NoDup a -> NoDup b -> (forall x, In x a -> In x b -> False) -> NoDup (a ++ b).
Proof.
  intros A a b Ha Hb Hd. induction Ha as [|x l Hx Hl IH]; cbn [app]; [exact Hb|].
  constructor.
  - rewrite in_app_iff. intros [H|H]; [contradiction|]. apply (Hd x); [left; reflexivity|exact H].
  - apply IH. intros y Hy. apply Hd. right. exact Hy.
Qed.

Lemma zseq_NoDup : forall a n, NoDup (zseq a n).
Proof.
  intros a n. unfold zseq. apply NoDup_map_inj; [|apply seq_NoDup].
  intros i j H. lia.
Qed.

Lemma NoDup_filter : forall {A} (f : A -> bool) l, NoDup l -> NoDup (filter f l).
Proof.
  intros A f l H. induction H as [|x l Hx Hl IH]; cbn [filter]; [constructor|].
  destruct (f x); [|exact IH]. constructor; [|exact IH]. intros Hi. apply filter_In in Hi. tauto.
Qed.

Lemma in_pending_cols : forall r col x, 0 <= col ->
  In x (pending_cols r col) <-> col <= x < len r /\ abs_cell r x <> ASkip.
Proof.
  intros r col x Hc. unfold pending_cols. rewrite filter_In, in_zseq.
  assert (E : negb (is_skipc (abs_cell r x)) = true <-> abs_cell r x <> ASkip).
  { destruct (abs_cell r x); cbn; split; intros; try discriminate; try reflexivity; congruence. }
  rewrite E. pose proof (len_nonneg r). split; intros (Ha & Hb); (split; [lia|exact Hb]).
Qed.

Lemma in_pending_rows : forall rows base l c,
  In (l, c) (pending_rows rows base) <->
  base <= l < base + zlen rows /\ 0 <= c < len (zn rows (l - base) []) /\ abs_cell (zn rows (l - base) []) c <> ASkip.
Proof.
  induction rows as [|r rows IH]; intros base l c; cbn [pending_rows].
  - unfold zlen. cbn [length]. split; [contradiction|lia].
  - rewrite in_app_iff, in_map_iff, IH. unfold zlen. cbn [length]. rewrite Nat2Z.inj_succ. split.
    + intros [(x & Ex & Hx)|(H1 & H2 & H3)].
      * inversion Ex; subst. apply in_pending_cols in Hx; [|lia]. rewrite Z.sub_diag. unfold zn. cbn [Z.to_nat nth].
        split; [lia|]. split; [lia|tauto].
      * split; [unfold zlen in H1; lia|].
        assert (E : zn (r :: rows) (l - base) [] = zn rows (l - (base + 1)) []).
        { unfold zn. replace (Z.to_nat (l - base)) with (S (Z.to_nat (l - (base + 1)))) by lia. reflexivity. }
        rewrite E. tauto.
    + intros (H1 & H2 & H3). destruct (Z.eq_dec l base) as [->|Hne].
      * left. exists c. split; [reflexivity|]. rewrite Z.sub_diag in H2, H3. unfold zn in H2, H3. cbn [Z.to_nat nth] in H2, H3.
        apply in_pending_cols; [lia|]. split; [lia|exact H3].
      * right.
        assert (E : zn (r :: rows) (l - base) [] = zn rows (l - (base + 1)) []).
        { unfold zn. replace (Z.to_nat (l - base)) with (S (Z.to_nat (l - (base + 1)))) by lia. reflexivity. }
        rewrite E in H2, H3. unfold zlen. split; [lia|]. tauto.
Qed.

Lemma pending_rows_NoDup : forall rows base, NoDup (pending_rows rows base).
Proof.
  induction rows as [|r rows IH]; intros base; cbn [pending_rows]; [constructor|].
  apply NoDup_app_disj.
  - apply NoDup_map_inj; [intros a b H; now inversion H|].
    unfold pending_cols. apply NoDup_filter, zseq_NoDup.
  - apply IH.
  - intros [l c] H1 H2. apply in_map_iff in H1. destruct H1 as (x & Ex & _). inversion Ex; subst.
    apply in_pending_rows in H2. lia.
Qed.

(* ---------------------------------------------------------------------------------- *)
(* the theorems *)

(* the pending cells of a buffer, in row-major order *)
Definition pending (s : rb) : list tpos := pending_rows (cells s) 0.

(* it is the list the oracle's checker computes from the specification's grid *)
Lemma pending_is_a_pending : forall rows base, a_pending_from (map abs_row rows) base = pending_rows rows base.
Proof.
  induction rows as [|r rows IH]; intros base; cbn [map a_pending_from pending_rows]; [reflexivity|].
  rewrite IH. f_equal. unfold a_pending_row, pending_cols. f_equal.
  assert (El : length (abs_row r) = Z.to_nat (len r - 0)).
  { pose proof (zlen_abs_row r) as H. unfold zlen in H. lia. }
  rewrite El. apply filter_ext_in. intros x Hx. apply in_zseq in Hx.
  unfold nthz. destruct (Z.ltb_spec x 0); [lia|].
  change (nth (Z.to_nat x) (abs_row r) (mkA ASkip (-1))) with (zn (abs_row r) x (mkA ASkip (-1))).
  rewrite zn_abs_row by lia. reflexivity.
Qed.

Theorem a_pending_abs : forall s, a_pending (ag (abs_rb s)) = pending s.
Proof. intros s. unfold a_pending, pending, abs_rb. cbn [ag]. apply pending_is_a_pending. Qed.

Theorem pending_spec : forall s, Inv s ->
  NoDup (pending s) /\
  forall l c, In (l, c) (pending s) <->
              in_grid (abs_rb s) l c /\ ac (gcell (ag (abs_rb s)) l c) <> ASkip.
Proof.
  intros s I. split; [apply pending_rows_NoDup|]. intros l c. unfold pending. rewrite in_pending_rows.
  rewrite Z.sub_0_r, Z.add_0_l, (inv_lines s I). unfold in_grid. cbn [abs_rb a_lines a_cols]. split.
  - intros (H1 & H2 & H3). destruct (inv_rows s I l H1) as (Hl & _). rewrite Hl in H2.
    split; [split; assumption|]. rewrite gcell_abs by assumption. exact H3.
  - intros ((H1 & H2) & H3). destruct (inv_rows s I l H1) as (Hl & _). rewrite Hl.
    split; [assumption|]. split; [assumption|]. rewrite gcell_abs in H3 by assumption. exact H3.
Qed.

(* Flushing writes exactly the pending cells: with the cursor position unknown at the start,
   every print and erase is issued at a known position, and the cells covered, in order, are
   the pending cells of the buffer, each once (pending_spec: the list has no duplicates and
   holds precisely the non-skip cells of the specification's grid). *)
Theorem flush_columns : forall s ops s' cur,
  Inv s -> acells_ok (abs_rb s) -> flush s = Ok (ops, s') ->
  exists cur', track cur ops = Some (pending s, cur').
Proof.
  intros s ops s' cur I Hc E. unfold flush in E.
  destruct (flush_rows (cells s) 0) as [o| |] eqn:Er; cbn [bind] in E; try discriminate.
  inversion E; subst o s'. clear E.
  apply (flush_rows_columns (cells s) 0 cur ops); [|exact Er].
  intros r Hr. apply In_nth with (d := []) in Hr. destruct Hr as (k & Hk & <-).
  assert (Hy : 0 <= Z.of_nat k < rb_lines s) by (rewrite <- (inv_lines s I); unfold zlen; lia).
  destruct (inv_rows s I (Z.of_nat k) Hy) as (_ & W & _).
  assert (RC := rows_content_ok s (Z.of_nat k) I Hc Hy).
  unfold zn in W, RC. rewrite Nat2Z.id in W, RC. split; assumption.
Qed.

(* the same as the verdict of the oracle's checker (clause 4 of flush_checkb) on the model's
   own operations *)
Lemma tpos_list_eqb_refl : forall l, list_eqb tpos_eqb l l = true.
Proof.
  induction l as [|[a b] l IH]; cbn [list_eqb]; [reflexivity|].
  unfold tpos_eqb at 1. cbn [fst snd]. now rewrite !Z.eqb_refl, IH.
Qed.

Theorem flush_covers : forall s ops s',
  Inv s -> acells_ok (abs_rb s) -> flush s = Ok (ops, s') -> covers_checkb (ag (abs_rb s)) ops = true.
Proof.
  intros s ops s' I Hc E. destruct (flush_columns s ops s' None I Hc E) as (cur' & T).
  unfold covers_checkb. rewrite T, a_pending_abs. apply tpos_list_eqb_refl.
Qed.

(* ... for every buffer a drawing program reaches *)
Theorem flush_columns_reachable : forall L C prog s v cur,
  0 <= L -> 0 <= C -> Forall op_ok prog -> run (rb_new L C) prog = Ok (s, v) ->
  exists ops cur', flush s = Ok (ops, reset s) /\ track cur ops = Some (pending s, cur').
Proof.
  intros L C prog s v cur HL HC Ho E.
  destruct (program_refines L C prog HL HC) as (t & w & F & I & Ab & _). rewrite E in F. inversion F; subst t w.
  assert (Hc : acells_ok (abs_rb s)).
  { rewrite Ab. apply arun_aok; [exact Ho|apply ashape_new; assumption|apply aok_new; assumption]. }
  destruct (flush_total_and_resets s I) as (ops & Ef & _).
  destruct (flush_columns s ops (reset s) cur I Hc Ef) as (cur' & T).
  exists ops, cur'. split; assumption.
Qed.

(* the text case alone, for any mix of widths: a span of n columns is flushed as exactly n columns *)
Example columns_nonvacuous :
  exists s v ops, run (rb_new 2 6) [OTextAt 0 0 [0xff21; 98; 99]; OCharAt 0 0 120; OEraseAt 1 1 2; OHLine 0 4 5 2 3] = Ok (s, v) /\
    flush s = Ok (ops, reset s) /\
    track None ops = Some ([(0, 0); (0, 1); (0, 2); (0, 3); (0, 4); (0, 5); (1, 1); (1, 2)], None).
Proof.
  (* one goal at a time: normalising a goal that still contains an uninstantiated variable
     would unfold the width tables symbolically *)
  eexists. eexists. eexists. split; [vm_compute; reflexivity|]. split; [vm_compute; reflexivity|].
  vm_compute. reflexivity.
Qed.
