(* LifeBindSafe.v -- no handler environment can make the binding list fault or leak: the list-level
   argument (no node is removed while an iteration is suspended; a node that still matches an event
   has a handler), carried over to the heap twin by the lockstep theorem of LifeBindSim.v. *)
From Coq Require Import ZArith List Bool PArith FMapPositive Lia.
From Tickit Require Import BindDefs LifeBindDefs LifeBindSim.
Import ListNotations.
Local Open Scope Z_scope.

(* what the application and the handlers may do: event numbers are enum values (not negative);
   handlers bind, unbind and emit, themselves or others, at any depth; destruction only at top level *)
Definition act_top_ok (a : action) : Prop :=
  match a with AEmit ev => 0 <= ev | AEmitWF ev => 0 <= ev | _ => True end.
Definition act_nested_ok (a : action) : Prop := act_top_ok a /\ a <> ADestroy.
Definition henv_ok (env : env_t) : Prop :=
  forall tr hid name flags, Forall act_nested_ok (fst (env tr hid name flags)).

(* only a tombstone has no handler *)
Definition node_ok (b : binding) : Prop := b_fn b = None -> b_ev b = -1 /\ b_flags b = 0.
Definition WInv (w : world) : Prop := Forall node_ok (first (ws w)).

Lemma has_zero : forall bit, has 0 bit = false.
Proof. intro. reflexivity. Qed.
Lemma node_ok_tombstone : forall b, node_ok (tombstone b).
Proof. intros b _. cbn. auto. Qed.

Lemma names_update_node : forall d f l, (forall b, b_data (f b) = b_data b) -> names (update_node d f l) = names l.
Proof.
  intros d f l Hf. unfold names, update_node. rewrite map_map. apply map_ext. intro b. destruct (b_data b =? d); auto.
Qed.
Lemma forall_update_node : forall d l, Forall node_ok l -> Forall node_ok (update_node d tombstone l).
Proof.
  intros d l H. unfold update_node. apply Forall_forall. intros x Hx. apply in_map_iff in Hx. destruct Hx as (y & E & Hy).
  destruct (b_data y =? d); subst x; [apply node_ok_tombstone|]. eapply Forall_forall; eauto.
Qed.
Lemma forall_filter : forall (A : Type) (P : A -> Prop) f l, Forall P l -> Forall P (filter f l).
Proof. intros A P f l H. apply Forall_forall. intros x Hx. apply filter_In in Hx. eapply Forall_forall; [exact H|tauto]. Qed.
Lemma forall_removelast : forall (A : Type) (P : A -> Prop) l, Forall P l -> Forall P (removelast l).
Proof.
  intros A P l H. induction H as [|x l Hx H IH]; cbn; [constructor|]. destruct l; [constructor|]. constructor; auto.
Qed.
Lemma find_node_in : forall d l, In d (names l) -> exists b, find_node d l = Some b /\ In b l /\ b_data b = d.
Proof.
  intros d l H. unfold find_node. destruct (find (fun x => b_data x =? d) l) as [b|] eqn:E.
  - apply find_some in E. destruct E as [H1 H2]. apply Z.eqb_eq in H2. eauto.
  - exfalso. apply in_map_iff in H. destruct H as (b & Hb & Hin). pose proof (find_none _ _ E b Hin) as Hn. cbn in Hn.
    rewrite Hb, Z.eqb_refl in Hn. discriminate.
Qed.
Lemma next_of_in : forall d l, In d (names l) ->
  exists nx, next_of d l = Some nx /\ forall d', nx = Some d' -> In d' (names l).
Proof.
  induction l as [|b l IH]; intros H; [destruct H|]. cbn. destruct (Z.eqb_spec (b_data b) d) as [E|Hne].
  - eexists. split; [reflexivity|]. intros d' Hd'. destruct l as [|b2 l]; cbn in Hd'; [discriminate|]. inversion Hd'. right. left. reflexivity.
  - destruct H as [H|H]; [contradiction|]. destruct (IH H) as (nx & H1 & H2). exists nx. split; [exact H1|]. intros d' Hd'. right. auto.
Qed.
Lemma head_name_in : forall l d, head_name l = Some d -> In d (names l).
Proof. intros [|b l] d H; cbn in H; [discriminate|]. inversion H. left. reflexivity. Qed.

(* end_iteration: the guard goes back to [was]; nothing is removed unless [was] is down *)
Lemma end_iteration_facts : forall was s, Forall node_ok (first s) ->
  Forall node_ok (first (end_iteration was s)) /\ is_iter (end_iteration was s) = was /\
  (was = true -> first (end_iteration was s) = first s).
Proof.
  intros was s H. unfold end_iteration. cbn [needs_del]. destruct was; cbn [negb andb].
  - cbn. auto.
  - destruct (needs_del s); cbn; [|auto]. split; [apply forall_filter; exact H|]. split; [reflexivity|discriminate].
Qed.

Definition tpre (t : task) (w : world) : Prop :=
  match t with
  | KCall fn _ _ => fn <> None
  | KActs acts => Forall act_top_ok acts /\ (is_iter (ws w) = true -> Forall act_nested_ok acts)
  | KAct a => act_top_ok a /\ (is_iter (ws w) = true -> a <> ADestroy)
  | KLoop _ ev cur => 0 <= ev /\ is_iter (ws w) = true /\ (forall d, cur = Some d -> In d (names (first (ws w))))
  | KDestroy => is_iter (ws w) = false
  end.

Definition tpost (w w' : world) : Prop :=
  WInv w' /\ is_iter (ws w') = is_iter (ws w) /\
  (is_iter (ws w) = true -> forall d, In d (names (first (ws w))) -> In d (names (first (ws w')))).

Lemma tpost_refl : forall w, WInv w -> tpost w w.
Proof. intros w H. repeat split; auto. Qed.
Lemma tpost_trans : forall w1 w2 w3, tpost w1 w2 -> tpost w2 w3 -> tpost w1 w3.
Proof.
  intros w1 w2 w3 (I2 & E2 & N2) (I3 & E3 & N3). split; [exact I3|]. split; [congruence|].
  intros Hit d Hd. apply N3; [congruence|]. apply N2; assumption.
Qed.
Lemma tpost_log : forall w e, WInv w -> tpost w (log e w).
Proof. intros w e H. repeat split; auto. Qed.

Section Safe.
Variable env : env_t.
Hypothesis Henv : henv_ok env.

Definition NF (fuel : nat) : Prop := forall t w, WInv w -> tpre t w ->
  match exec fixed env fuel t w with
  | Fault => False
  | OutOfFuel => True
  | Ok (w', _) => tpost w w'
  end.

Ltac use_nf H :=
  match type of H with
  | match ?r with _ => _ end => destruct r as [[?w2 ?v2]| |]; cbn [rbind]; try contradiction; try exact I
  end.

Lemma nf_call : forall f, NF f -> forall fn n fl w, WInv w -> fn <> None ->
  match exec fixed env (S f) (KCall fn n fl) w with Fault => False | OutOfFuel => True | Ok (w', _) => tpost w w' end.
Proof.
  intros f IH fn n fl w HI Hfn. cbn [exec]. destruct fn as [hid|]; [|congruence].
  pose proof (Henv (wt w) hid n fl) as Hacts. destruct (env (wt w) hid n fl) as [acts ret]. cbn [fst] in Hacts.
  assert (Hpre : tpre (KActs acts) w).
  { split; [|intros _; exact Hacts]. eapply Forall_impl; [|exact Hacts]. intros a [Ha _]. exact Ha. }
  pose proof (IH (KActs acts) w HI Hpre) as H. use_nf H.
  eapply tpost_trans; [exact H|]. apply tpost_log. apply H.
Qed.

Lemma nf_end : forall w0 w2 was e, tpost w0 w2 -> is_iter (ws w0) = true ->
  forall w, is_iter (ws w) = was -> (was = true -> forall d, In d (names (first (ws w))) -> In d (names (first (ws w0)))) -> WInv w ->
  tpost w (log e (set_state (end_iteration was (ws w2)) w2)).
Proof.
  intros w0 w2 was e (I2 & E2 & N2) Hit w Hw Hsub HI.
  destruct (end_iteration_facts was (ws w2) I2) as (F1 & F2 & F3). unfold tpost, WInv. cbn [log set_state ws first].
  split; [exact F1|]. split; [congruence|].
  intros Hw1 d Hd. rewrite Hw in Hw1. rewrite (F3 Hw1). apply N2; [exact Hit|]. apply Hsub; assumption.
Qed.

Lemma nf_acts : forall f, NF f -> forall acts w, WInv w -> tpre (KActs acts) w ->
  match exec fixed env (S f) (KActs acts) w with Fault => False | OutOfFuel => True | Ok (w', _) => tpost w w' end.
Proof.
  intros f IH acts w HI [Ht Hn]. cbn [exec]. destruct acts as [|a rest]; [apply tpost_refl; exact HI|].
  inversion Ht as [|? ? Ha Hrest]; subst.
  assert (Hpa : tpre (KAct a) w).
  { split; [exact Ha|]. intros Hit. specialize (Hn Hit). inversion Hn as [|? ? [_ Hd] _]. exact Hd. }
  pose proof (IH (KAct a) w HI Hpa) as H. use_nf H. destruct H as (I2 & E2 & N2).
  assert (Hpr : tpre (KActs rest) w2).
  { split; [exact Hrest|]. intros Hit. rewrite E2 in Hit. specialize (Hn Hit). inversion Hn; assumption. }
  pose proof (IH (KActs rest) w2 I2 Hpr) as H. use_nf H. eapply tpost_trans; [|exact H]. repeat split; auto.
Qed.

Lemma nf_bind : forall f ev flags hid w, WInv w ->
  match exec fixed env (S f) (KAct (ABind ev flags hid)) w with Fault => False | OutOfFuel => True | Ok (w', _) => tpost w w' end.
Proof.
  intros f ev flags hid w HI. cbn [exec]. unfold bind_event. cbn.
  split; [|split; [reflexivity|]].
  - unfold WInv. cbn. destruct (has flags BIND_FIRST).
    + constructor; [intro Hc; discriminate|exact HI].
    + apply Forall_app. split; [exact HI|]. constructor; [intro Hc; discriminate|constructor].
  - intros _ d Hd. cbn. destruct (has flags BIND_FIRST); cbn.
    + right. exact Hd.
    + unfold names. rewrite map_app. apply in_or_app. left. exact Hd.
Qed.

Lemma nf_unbind : forall f, NF f -> forall id w, WInv w ->
  match exec fixed env (S f) (KAct (AUnbind id)) w with Fault => False | OutOfFuel => True | Ok (w', _) => tpost w w' end.
Proof.
  intros f IH id w HI. cbn [exec]. cbn [log ws first].
  destruct (find (fun b => b_id b =? id) (first (ws w))) as [b|] eqn:Ef.
  2:{ repeat split; auto. }
  apply find_some in Ef. destruct Ef as [Hin _].
  set (s1 := mkS (update_node (b_data b) tombstone (first (ws w))) (is_iter (ws w)) true).
  set (w1 := set_state (begin_iteration s1) (log (TUnbindB id) w)).
  assert (HI1 : WInv w1) by (apply forall_update_node; exact HI).
  assert (Hn1 : names (first (ws w1)) = names (first (ws w))) by (apply names_update_node; reflexivity).
  change (is_iter s1) with (is_iter (ws w)).
  destruct (has (b_flags b) BIND_UNBIND) eqn:En.
  - assert (Hfn : b_fn b <> None).
    { intro Hc. pose proof (proj1 (Forall_forall _ _) HI b Hin Hc) as [_ Hfl]. rewrite Hfl, has_zero in En. discriminate. }
    pose proof (IH (KCall (b_fn b) (b_data b) EV_UNBIND) (log (TCallB (b_data b) EV_UNBIND) w1) HI1 Hfn) as H. use_nf H.
    apply (nf_end (log (TCallB (b_data b) EV_UNBIND) w1) w2 (is_iter (ws w)) TUnbindE H eq_refl w eq_refl); [|exact HI].
    intros _ d Hd. cbn. fold (names (update_node (b_data b) tombstone (first (ws w)))). rewrite names_update_node by reflexivity. exact Hd.
  - cbn [rbind].
    apply (nf_end w1 w1 (is_iter (ws w)) TUnbindE (tpost_refl _ HI1) eq_refl w eq_refl); [|exact HI].
    intros _ d Hd. rewrite Hn1. exact Hd.
Qed.

Lemma nf_emit : forall f, NF f -> forall (wf : bool) ev w, WInv w -> 0 <= ev ->
  match exec fixed env (S f) (KAct (if wf then AEmitWF ev else AEmit ev)) w with
  | Fault => False | OutOfFuel => True | Ok (w', _) => tpost w w' end.
Proof.
  intros f IH wf ev w HI Hev.
  set (w1 := log (TEmitB wf ev) (set_state (begin_iteration (ws w)) w)).
  assert (HI1 : WInv w1) by exact HI.
  assert (Hp : tpre (KLoop wf ev (head_name (first (ws w1)))) w1).
  { split; [exact Hev|]. split; [reflexivity|]. intros d Hd. apply head_name_in. exact Hd. }
  pose proof (IH _ w1 HI1 Hp) as H.
  destruct wf; cbn [exec]; fold w1; use_nf H;
    (eapply (nf_end w1 w2 (is_iter (ws w)) _ H eq_refl w eq_refl); [|exact HI]); intros _ d Hd; exact Hd.
Qed.

Lemma nf_loop : forall f, NF f -> forall wf ev cur w, WInv w -> tpre (KLoop wf ev cur) w ->
  match exec fixed env (S f) (KLoop wf ev cur) w with Fault => False | OutOfFuel => True | Ok (w', _) => tpost w w' end.
Proof.
  intros f IH wf ev cur w HI (Hev & Hit & Hcur). cbn [exec]. destruct cur as [d|]; [|apply tpost_refl; exact HI].
  destruct (find_node_in d _ (Hcur d eq_refl)) as (b & Hfn & Hin & Ed). rewrite Hfn.
  destruct (Z.eqb_spec (b_ev b) ev) as [Eev|Nev].
  - assert (Hfnn : b_fn b <> None).
    { intro Hc. pose proof (proj1 (Forall_forall _ _) HI b Hin Hc) as [Hm _]. lia. }
    unfold visit. cbn [oneshot_whilefalse oneshot_reentrant fixed]. rewrite !andb_false_r. cbn [negb]. rewrite andb_true_r.
    assert (Hpre : exists wc fl,
      (let '(s1, flags) := (if has (b_flags b) BIND_ONESHOT
                            then (mkS (update_node (b_data b) tombstone (first (ws w))) (is_iter (ws w)) true, EV_FIRE + EV_UNBIND)
                            else (ws w, EV_FIRE)) in (set_state s1 w, flags)) = (wc, fl) /\
      WInv wc /\ is_iter (ws wc) = true /\ names (first (ws wc)) = names (first (ws w))).
    { destruct (has (b_flags b) BIND_ONESHOT); eexists _, _; (split; [reflexivity|]); cbn.
      - split; [apply forall_update_node; exact HI|]. split; [exact Hit|]. apply names_update_node. reflexivity.
      - split; [exact HI|]. split; [exact Hit|reflexivity]. }
    destruct Hpre as (wc & fl & Hk & HIc & Hitc & Hnc).
    match goal with |- match (let '(s1, flags) := ?X in _) with _ => _ end =>
      assert (Hx : (let '(s1, flags) := X in (set_state s1 w, flags)) = (wc, fl)) by exact Hk; destruct X as [s1 fl0] end.
    inversion Hx; subst wc fl0. clear Hx Hk.
    pose proof (IH (KCall (b_fn b) d fl) (log (TCallB d fl) (set_state s1 w)) HIc Hfnn) as H. use_nf H.
    destruct H as (I2 & E2 & N2). cbn in E2, N2, Hitc, Hnc. rewrite Hitc in E2.
    assert (Hbase : tpost w w2).
    { split; [exact I2|]. split; [congruence|]. intros _ x Hx. apply N2; [exact Hitc|]. rewrite Hnc. exact Hx. }
    destruct (wf && negb (v2 =? 0)); [exact Hbase|].
    assert (Hd2 : In d (names (first (ws w2)))) by (apply Hbase; auto).
    destruct (next_of_in d _ Hd2) as (nx & Hnx & Hnxin). rewrite Hnx.
    pose proof (IH (KLoop wf ev nx) w2 I2 (conj Hev (conj E2 Hnxin))) as H. use_nf H.
    eapply tpost_trans; eauto.
  - destruct (next_of_in d _ (Hcur d eq_refl)) as (nx & Hnx & Hnxin). rewrite Hnx.
    exact (IH (KLoop wf ev nx) w HI (conj Hev (conj Hit Hnxin))).
Qed.

Lemma nf_destroy : forall f, NF f -> forall w, WInv w -> is_iter (ws w) = false ->
  match exec fixed env (S f) KDestroy w with Fault => False | OutOfFuel => True | Ok (w', _) => tpost w w' end.
Proof.
  intros f IH w HI Hit. cbn [exec]. destruct (first (ws w)) as [|x l] eqn:El; [apply tpost_refl; exact HI|].
  rewrite <- El.
  set (b := last (first (ws w)) (mkB 0 0 0 None 0)).
  set (w0 := set_state (mkS (removelast (first (ws w))) (is_iter (ws w)) (needs_del (ws w))) w).
  assert (HI0 : WInv w0) by (apply forall_removelast; exact HI).
  assert (Hbin : In b (first (ws w))).
  { unfold b. rewrite El. generalize (mkB 0 0 0 None 0). clear. revert x. induction l as [|y l IH]; intros x d; cbn; [auto|].
    right. apply IH. }
  assert (Hpost0 : forall w', tpost w0 w' -> tpost w w').
  { intros w' (I' & E' & _). split; [exact I'|]. split; [exact E'|]. intros Hc. congruence. }
  destruct ((b_ev b =? 0) || has (b_flags b) (BIND_UNBIND + BIND_DESTROY)) eqn:En.
  - assert (Hfn : b_fn b <> None).
    { intro Hc. pose proof (proj1 (Forall_forall _ _) HI b Hbin Hc) as [Hm Hfl]. rewrite Hm, Hfl in En. cbn in En. discriminate. }
    pose proof (IH (KCall (b_fn b) (b_data b) (EV_UNBIND + EV_DESTROY)) (log (TCallB (b_data b) (EV_UNBIND + EV_DESTROY)) w0) HI0 Hfn) as H.
    use_nf H. destruct H as (I2 & E2 & _). cbn in E2.
    pose proof (IH KDestroy w2 I2 (eq_trans E2 Hit)) as H. use_nf H. destruct H as (I3 & E3 & _).
    apply Hpost0. split; [exact I3|]. split; [cbn; congruence|]. cbn. intros Hc. congruence.
  - cbn [rbind]. pose proof (IH KDestroy w0 HI0 Hit) as H. use_nf H. apply Hpost0. exact H.
Qed.

Theorem nf_all : forall fuel, NF fuel.
Proof.
  induction fuel as [|f IH]; intros t w HI Hp; [exact I|].
  destruct t as [fn n fl|acts|a|wf ev cur|].
  - apply nf_call; assumption.
  - apply nf_acts; assumption.
  - destruct Hp as [Ha Hd]. destruct a as [ev flags hid|id|ev|ev|].
    + apply nf_bind; assumption.
    + apply nf_unbind; assumption.
    + apply (nf_emit f IH false); assumption.
    + apply (nf_emit f IH true); assumption.
    + assert (Hit : is_iter (ws w) = false).
      { destruct (is_iter (ws w)); [exfalso; apply Hd; reflexivity|reflexivity]. }
      cbn [exec]. pose proof (IH KDestroy (log TDestroyB w) HI Hit) as H.
      destruct (exec fixed env f KDestroy (log TDestroyB w)) as [[w2 v2]| |]; cbn [rbind]; try contradiction; try exact I.
      destruct H as (I2 & E2 & N2). split; [exact I2|]. split; [exact E2|]. intros Hc. cbn in Hc. congruence.
  - apply nf_loop; assumption.
  - apply nf_destroy; assumption.
Qed.

End Safe.

(* ---- statements ---- *)
Theorem list_no_fault : forall env, henv_ok env -> forall ops, Forall act_top_ok ops ->
  forall fuel, run fixed env fuel ops <> Fault.
Proof.
  intros env He ops Ho fuel Hc. unfold run in Hc.
  assert (HI : WInv init_world) by constructor.
  assert (Hp : tpre (KActs ops) init_world) by (split; [exact Ho|cbn; discriminate]).
  pose proof (nf_all env He fuel (KActs ops) init_world HI Hp) as H. rewrite Hc in H. exact H.
Qed.

(* no handler environment can make the heap-level binding list touch a cell that is not allocated,
   call a NULL handler, free a cell twice or follow a dangling loop variable *)
Theorem twin_no_fault : forall env, henv_ok env -> forall ops, Forall act_top_ok ops ->
  forall fuel, hrun env fuel ops <> Fault.
Proof.
  intros env He ops Ho fuel Hc. pose proof (twin_simulates env fuel ops) as H. rewrite Hc in H.
  destruct (run fixed env fuel ops) as [[w v]| |] eqn:Er; try contradiction.
  exact (list_no_fault env He ops Ho fuel Er).
Qed.

(* the walks inside one call never run out of their own fuel: the heap model stops for lack of fuel
   exactly when the list model does *)
Theorem twin_fuel : forall env fuel ops, hrun env fuel ops = OutOfFuel <-> run fixed env fuel ops = OutOfFuel.
Proof.
  intros env fuel ops. pose proof (twin_simulates env fuel ops) as H.
  destruct (run fixed env fuel ops) as [[w v]| |], (hrun env fuel ops) as [[hw v']| |]; try contradiction; split; intro; try discriminate; reflexivity.
Qed.

(* whatever the handlers did, at the end the cells allocated are exactly the nodes of the list *)
Theorem twin_exact : forall env fuel ops hw v, hrun env fuel ops = Ok (hw, v) ->
  exists w lp, run fixed env fuel ops = Ok (w, v) /\ Rep w hw lp /\
               (forall a, BM.find a (cells (hs hw)) <> None <-> In a (addrs lp)).
Proof.
  intros env fuel ops hw v Hr. pose proof (twin_simulates env fuel ops) as H. rewrite Hr in H.
  destruct (run fixed env fuel ops) as [[w v0]| |]; try contradiction.
  destruct H as (Hv & _ & _ & lp & R). subst v0. exists w, lp. split; [reflexivity|]. split; [exact R|].
  apply (twin_no_leak w hw lp R).
Qed.

(* the destroy loop ends on the empty list *)
Lemma destroy_empties : forall env fuel w w' v, exec fixed env fuel KDestroy w = Ok (w', v) -> first (ws w') = [].
Proof.
  intros env. induction fuel as [|f IH]; intros w w' v H; [discriminate|]. cbn [exec] in H.
  destruct (first (ws w)) as [|x l] eqn:El.
  - inversion H; subst. exact El.
  - match type of H with rbind ?r _ = _ => destruct r as [[w1 v1]| |]; cbn [rbind] in H; try discriminate end.
    eapply IH; eauto.
Qed.
Lemma acts_end_destroy : forall env fuel acts w w' v,
  exec fixed env fuel (KActs (acts ++ [ADestroy])) w = Ok (w', v) -> first (ws w') = [].
Proof.
  intros env. induction fuel as [|f IH]; intros acts w w' v H; [discriminate|]. cbn [exec] in H.
  destruct acts as [|a rest]; cbn [app] in H.
  - destruct f as [|f']; [discriminate|]. cbn [exec] in H.
    destruct (exec fixed env f' KDestroy (log TDestroyB w)) as [[w1 v1]| |] eqn:Ed; cbn [rbind] in H; try discriminate.
    destruct f' as [|f'']; [discriminate|]. cbn [exec] in H. inversion H; subst. cbn.
    eapply destroy_empties; eauto.
  - destruct (exec fixed env f (KAct a) w) as [[w1 v1]| |]; cbn [rbind] in H; try discriminate. eapply IH; eauto.
Qed.

(* a history that ends with tickit_bindings_unbind_and_destroy leaves nothing allocated *)
Theorem twin_all_released : forall env fuel ops hw v,
  hrun env fuel (ops ++ [ADestroy]) = Ok (hw, v) -> bheap_empty (hs hw) = true.
Proof.
  intros env fuel ops hw v Hr. destruct (twin_exact env fuel _ hw v Hr) as (w & lp & Hrun & R & _).
  apply (twin_no_leak w hw lp R). eapply acts_end_destroy. exact Hrun.
Qed.

(* non-vacuity: a one-shot that re-emits its own event, an unbind of a later binding from inside a
   handler, a binding made during the occurrence, then destruction: the heap model completes, nine
   handler invocations, nothing left *)
Definition env_demo : env_t := fun tr hid name flags =>
  if hid =? 1 then (if has flags EV_FIRE then [AEmit 3; AUnbind 3; ABind 3 0 2] else [], 0)
  else ([], 0).
Lemma env_demo_ok : henv_ok env_demo.
Proof.
  intros tr hid name flags. unfold env_demo. destruct (hid =? 1); [|constructor].
  destruct (has flags EV_FIRE); [|constructor].
  repeat constructor; cbn; try lia; discriminate.
Qed.
Definition demo_ops : list action :=
  [ABind 3 (BIND_ONESHOT + BIND_UNBIND) 1; ABind 3 BIND_FIRST 2; ABind 3 BIND_UNBIND 2; ABind 0 0 2; AEmit 3; AEmitWF 3; AUnbind 2; ADestroy].
Lemma twin_nonvacuous : exists hw v,
  hrun env_demo 40 demo_ops = Ok (hw, v) /\ bheap_empty (hs hw) = true /\
  (length (filter (fun e => match e with TCallB _ _ => true | _ => false end) (ht hw)) = 9)%nat.
Proof. vm_compute. eexists _, _. split; [reflexivity|]. split; reflexivity. Qed.
