(* LoopSigSpec.v -- what C18 demands, as a small executable specification, and the oracle.

   The specification knows nothing of errno, of revents kept in a table, or of a pending
   set inside the loop.  It has the watches, the kernel's set of blocked-pending signals and
   what the next ppoll will find:
     - ppoll with a ready descriptor:  SNAPSHOT = for every live IO watch (in table
       position order, position = first free one at registration) the conditions reported
       for ITS descriptor, restricted to what it asked for plus ERR/HUP/INVAL, if any;
       after the deferred callbacks, every watch of the snapshot that is STILL live when its
       turn comes is invoked with exactly those conditions.  A watch registered after the
       ppoll is not in the snapshot; a cancelled one is skipped.
     - otherwise, if signals are pending or arrive during the wait: they are delivered; after
       the deferred callbacks, for every delivered signal (ascending) that is still watched,
       every watch of that signal live at that moment is invoked, in registration order,
       unless it is cancelled before its turn.  Whatever the callbacks did to errno.
     - otherwise nothing but the deferred callbacks runs. *)
From Coq Require Import ZArith List Bool.
From Tickit Require Import LoopDefs LoopSpec LoopSigDefs.
Import ListNotations.
Local Open Scope Z_scope.

(* xi_ev = the poll events the watch asked for (IN / OUT / HUP as POLLIN / POLLOUT / POLLHUP) *)
Record xio := mkXio { xi_id : Z; xi_fd : Z; xi_ev : Z; xi_unbind : bool; xi_cb : Z }.

Record xst := mkX {
  x_ios : list xio; x_tab : list (option Z); x_sgs : list sgw; x_def : list ltr;
  x_kpend : list Z; x_ready : list (Z * Z); x_inwait : list Z;
  x_next : Z; x_iter : Z; x_log : list obs;
  x_run : bool (* no tickit_stop since the loop was entered *) }.

Definition xst0 : xst := mkX [] [None] [] [] [] [] [] 0 0 [] false.

Definition xemit (s : xst) (id : Z) (k : kind) (flags x : Z) : xst :=
  mkX (x_ios s) (x_tab s) (x_sgs s) (x_def s) (x_kpend s) (x_ready s) (x_inwait s) (x_next s) (x_iter s)
      (OEv (mkE id k flags (x_iter s) 0 x) :: x_log s) (x_run s).

Fixpoint find_xio (id : Z) (l : list xio) : option xio :=
  match l with [] => None | h :: t => if xi_id h =? id then Some h else find_xio id t end.
Fixpoint remove_xio (id : Z) (l : list xio) : list xio :=
  match l with [] => [] | h :: t => if xi_id h =? id then t else h :: remove_xio id t end.

Fixpoint tab_put (t : list (option Z)) (id : Z) : list (option Z) :=
  match t with
  | [] => [Some id]
  | None :: r => Some id :: r
  | Some x :: r => Some x :: tab_put r id
  end.
Definition tab_del (t : list (option Z)) (id : Z) : list (option Z) :=
  map (fun o => match o with Some x => if x =? id then None else Some x | None => None end) t.

Definition x_watched (s : xst) (sig : Z) : bool := existsb (fun w => g_sig w =? sig) (x_sgs s).

Fixpoint dedup (l : list Z) : list Z :=
  match l with [] => [] | h :: t => if memz h t then dedup t else h :: dedup t end.

Section WithEnv.
Variable env : Z -> list saction.

Definition x_cancel (s : xst) (id : Z) : xst :=
  match find_xio id (x_ios s) with
  | Some w =>
      let s1 := mkX (remove_xio id (x_ios s)) (tab_del (x_tab s) id) (x_sgs s) (x_def s) (x_kpend s)
                    (x_ready s) (x_inwait s) (x_next s) (x_iter s) (x_log s) (x_run s) in
      if xi_unbind w then xemit s1 id KIo EV_UNBIND 0 else s1
  | None =>
  match find_sgw id (x_sgs s) with
  | Some w =>
      if memz (g_sig w) (x_kpend s) then s else
      let s1 := mkX (x_ios s) (x_tab s) (remove_sgw id (x_sgs s)) (x_def s) (x_kpend s)
                    (x_ready s) (x_inwait s) (x_next s) (x_iter s) (x_log s) (x_run s) in
      if g_unbind w then xemit s1 id KSig EV_UNBIND (g_sig w) else s1
  | None =>
  match find_ltr id (x_def s) with
  | Some w =>
      let s1 := mkX (x_ios s) (x_tab s) (x_sgs s) (remove_ltr id (x_def s)) (x_kpend s)
                    (x_ready s) (x_inwait s) (x_next s) (x_iter s) (x_log s) (x_run s) in
      if l_unbind w then xemit s1 id KLater EV_UNBIND 0 else s1
  | None => s
  end end end.

Definition x_action (s : xst) (a : saction) : xst :=
  match a with
  | SLater ub cb =>
      mkX (x_ios s) (x_tab s) (x_sgs s) (x_def s ++ [mkLt (x_next s) ub cb]) (x_kpend s)
          (x_ready s) (x_inwait s) (x_next s + 1) (x_iter s) (x_log s) (x_run s)
  | SIo fd cond ub cb =>
      mkX (x_ios s ++ [mkXio (x_next s) fd (events_of_cond cond) ub cb]) (tab_put (x_tab s) (x_next s)) (x_sgs s) (x_def s)
          (x_kpend s) (x_ready s) (x_inwait s) (x_next s + 1) (x_iter s) (x_log s) (x_run s)
  | SSig sig ub cb =>
      mkX (x_ios s) (x_tab s) (x_sgs s ++ [mkSg (x_next s) sig ub cb]) (x_def s) (x_kpend s)
          (x_ready s) (x_inwait s) (x_next s + 1) (x_iter s) (x_log s) (x_run s)
  | SCancel id => x_cancel s id
  | SErrno _ => s
  | SRaise sig =>
      if x_watched s sig
      then mkX (x_ios s) (x_tab s) (x_sgs s) (x_def s) (addz sig (x_kpend s)) (x_ready s) (x_inwait s)
               (x_next s) (x_iter s) (x_log s) (x_run s)
      else s
  | SNop => s
  | SStop => mkX (x_ios s) (x_tab s) (x_sgs s) (x_def s) (x_kpend s) (x_ready s) (x_inwait s) (x_next s) (x_iter s) (x_log s) false
  end.

Definition x_actions (s : xst) (l : list saction) : xst := fold_left x_action l s.

(* the deferred callbacks: snapshot of identities, each still pending at its turn *)
Fixpoint x_run_def (ids : list Z) (s : xst) : xst :=
  match ids with
  | [] => s
  | i :: r =>
      match find_ltr i (x_def s) with
      | None => x_run_def r s
      | Some w =>
          let s1 := mkX (x_ios s) (x_tab s) (x_sgs s) (remove_ltr i (x_def s)) (x_kpend s)
                        (x_ready s) (x_inwait s) (x_next s) (x_iter s) (x_log s) (x_run s) in
          x_run_def r (x_actions (xemit s1 i KLater (EV_FIRE + EV_UNBIND) 0) (env (l_cb w)))
      end
  end.

Fixpoint x_run_io (snap : list (Z * Z)) (s : xst) : xst :=
  match snap with
  | [] => s
  | (i, cond) :: r =>
      match find_xio i (x_ios s) with
      | None => x_run_io r s
      | Some w => x_run_io r (x_actions (xemit s i KIo EV_FIRE cond) (env (xi_cb w)))
      end
  end.

(* the SIGINT watch of tickit_run (negative number): invoked like any other, not logged *)
Definition x_sig_fire (s : xst) (w : sgw) (sig : Z) : xst := if g_id w <? 0 then s else xemit s (g_id w) KSig EV_FIRE sig.

Fixpoint x_run_sig (ids : list Z) (sig : Z) (s : xst) : xst :=
  match ids with
  | [] => s
  | i :: r =>
      match find_sgw i (x_sgs s) with
      | None => x_run_sig r sig s
      | Some w => x_run_sig r sig (x_actions (x_sig_fire s w sig) (cb_acts env w))
      end
  end.

Fixpoint x_run_sigs (sigs : list Z) (s : xst) : xst :=
  match sigs with
  | [] => s
  | sg :: r =>
      let ids := map g_id (filter (fun w => g_sig w =? sg) (x_sgs s)) in
      x_run_sigs r (x_run_sig ids sg s)
  end.

Definition io_snapshot (s : xst) : list (Z * Z) :=
  flat_map (fun o =>
    match o with
    | None => []
    | Some id =>
        match find_xio id (x_ios s) with
        | None => []
        | Some w =>
            let rv := Z.land (lookup_ready (x_ready s) (xi_fd w)) (Z.lor (xi_ev w) 56) in
            if rv =? 0 then [] else [(id, cond_of_revents rv)]
        end
    end) (x_tab s).

Definition x_iteration (sleep : bool) (s : xst) : xst :=
  let msec := if sleep then match x_def s with [] => -1 | _ => 0 end else 0 in
  let s1 := mkX (x_ios s) (x_tab s) (x_sgs s) (x_def s) (x_kpend s) [] [] (x_next s) (x_iter s + 1)
                (OPoll msec :: x_log s) (x_run s) in
  let snap := io_snapshot s in
  let defs := map l_id (x_def s) in
  match snap with
  | _ :: _ => x_run_io snap (x_run_def defs s1)
  | [] =>
      let delivered := x_kpend s ++ filter (x_watched s) (x_inwait s) in
      let s2 := mkX (x_ios s1) (x_tab s1) (x_sgs s1) (x_def s1) [] [] [] (x_next s1) (x_iter s1) (x_log s1) (x_run s1) in
      match delivered with
      | [] => x_run_def defs s1
      | _ => x_run_sigs (sort_z (dedup delivered)) (x_run_def defs s2)
      end
  end.

Definition x_set_run (s : xst) (v : bool) : xst :=
  mkX (x_ios s) (x_tab s) (x_sgs s) (x_def s) (x_kpend s) (x_ready s) (x_inwait s) (x_next s) (x_iter s) (x_log s) v.

Definition x_set_sgs (s : xst) (v : list sgw) : xst :=
  mkX (x_ios s) (x_tab s) v (x_def s) (x_kpend s) (x_ready s) (x_inwait s) (x_next s) (x_iter s) (x_log s) (x_run s).

(* tickit_tick: one iteration, whatever the callbacks did to the loop's run flag *)
Definition x_tick (sleep : bool) (s : xst) : xst := x_iteration sleep (x_set_run s true).

(* tickit_run: iterations until a callback has called tickit_stop; the harness does so itself
   in the k-th iteration.  Everything an iteration owes -- the deferred callbacks, then the IO
   snapshot or the delivered signals -- is done in full even if a callback stopped the loop.
   tickit_run watches SIGINT for its duration with a callback that stops the loop. *)
Fixpoint x_run_passes (k : nat) (s : xst) : xst :=
  match k with
  | O => s
  | S k' => if negb (x_run s) then s
            else x_run_passes k' (x_iteration true (if Nat.eqb k' 0 then x_set_run s false else s))
  end.

Definition x_destroy (s : xst) : xst :=
  let s0 := mkX (x_ios s) (x_tab s) (x_sgs s) (x_def s) (x_kpend s) (x_ready s) (x_inwait s) (x_next s) (-1) (x_log s) (x_run s) in
  let s1 := fold_left (fun s w => if xi_unbind w then xemit s (xi_id w) KIo (EV_UNBIND + EV_DESTROY) 0 else s) (x_ios s0) s0 in
  let s2 := fold_left (fun s w => if l_unbind w then xemit s (l_id w) KLater (EV_UNBIND + EV_DESTROY) 0 else s) (x_def s0) s1 in
  fold_left (fun s w => if g_unbind w then xemit s (g_id w) KSig (EV_UNBIND + EV_DESTROY) (g_sig w) else s) (x_sgs s0) s2.

Definition x_op (s : xst) (o : sop) : xst :=
  match o with
  | SAct a => x_action s a
  | STick sl => x_tick sl s
  | SReady fd rv =>
      mkX (x_ios s) (x_tab s) (x_sgs s) (x_def s) (x_kpend s) ((fd, rv) :: x_ready s) (x_inwait s)
          (x_next s) (x_iter s) (x_log s) (x_run s)
  | SArrive sg =>
      mkX (x_ios s) (x_tab s) (x_sgs s) (x_def s) (x_kpend s) (x_ready s) (x_inwait s ++ [sg])
          (x_next s) (x_iter s) (x_log s) (x_run s)
  | SRunLoop k =>
      let s1 := x_set_sgs (x_set_run s true) (remove_sgw INT_ID (x_sgs s) ++ [int_watch]) in
      let s2 := x_run_passes k s1 in
      x_set_sgs s2 (remove_sgw INT_ID (x_sgs s2))
  end.

Definition xspec_run (ops : list sop) : list obs := rev (x_log (x_destroy (fold_left x_op ops xst0))).

(* as for C17, the order in which destruction visits the remaining watches is free *)
Definition xspec_checkb (ops : list sop) (o : list obs) : bool :=
  let sp := xspec_run ops in
  list_eqb obs_eqb (filter (fun x => negb (in_destroy x)) sp) (filter (fun x => negb (in_destroy x)) o) &&
  list_eqb (fun a b => Bool.eqb (in_destroy a) (in_destroy b)) sp o &&
  bag_eqb (filter in_destroy sp) (filter in_destroy o).

End WithEnv.
