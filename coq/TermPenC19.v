(* TermPenC19.v -- composition of C10 (pen path of term.c and the xterm driver, TermPen*.v) with C19
   (the pen as a partial attribute map, PenDefs.v / PenSpec.v / PenProofs.v).

   TermPenDefs.v represents a pen ABSTRACTLY, as the partial map  attr -> option aval, and gives the
   tickit_pen_* accessors term.c and the driver call directly on that map.  C19's PenDefs.v models
   struct TickitPen CONCRETELY (value fields, validity bits, bit-field wraps) and PenSpec.lookup is the
   partial map such a pen denotes.  Here:
     - [rep q p]: the abstract pen p is the map C19's lookup assigns to the concrete pen q;
     - every accessor of TermPenDefs.v, applied to p, returns what C19's accessor returns on q;
     - every mutation term.c performs (tickit_pen_set_colour_attr with the converted index,
       tickit_pen_copy_attr) keeps [rep];
     - the loops of tickit_term_setpen / tickit_term_chpen, written over C19's concrete pens with C19's
       functions ([c_term_setpen], [c_term_chpen]), are simulated by TermPenDefs.term_setpen / term_chpen:
       cached pen and delta stay related, and a Fault on one side is a Fault on the other;
     - the driver's SGR encoder reads the delta and the final pen through accessors only, so it emits the
       same tokens for related pens;
     - C10's "logical pen" is C19's: after set-pen it is [reads] of the argument, after change-pen it is
       C19's [copy_entry ... true] (copy with overwrite) of the argument onto it. *)
From Coq Require Import ZArith List Bool Lia ZifyBool.
From Tickit Require PenDefs PenSpec PenProofs.
From Tickit Require Import Csi Gen_Palette Gen_SgrOnOff TermPenDefs TermPenSpec TermPenProofs.
Import ListNotations.
Local Open Scope Z_scope.

Module PD := Tickit.PenDefs.
Module PS := Tickit.PenSpec.
Module PP := Tickit.PenProofs.

(* ---- the two vocabularies *)
Definition crgb (c : PD.rgb) : rgb := mkRgb (PD.cr c) (PD.cg c) (PD.cb c).
Definition cv (v : PS.value) : aval :=
  match v with
  | PS.VBool b => VBool b
  | PS.VInt z => VInt z
  | PS.VCol i c => VCol i (option_map crgb c)
  end.
Definition pattr_of (a : attr) : PD.attr :=
  match a with
  | AFg => PD.FG | ABg => PD.BG | ABold => PD.BOLD | AUnder => PD.UNDER | AItalic => PD.ITALIC
  | AReverse => PD.REVERSE | AStrike => PD.STRIKE | AAltfont => PD.ALTFONT | ABlink => PD.BLINK
  | ASizepos => PD.SIZEPOS
  end.

Lemma pattr_all : PD.all_attrs = map pattr_of all_attrs.
Proof. reflexivity. Qed.
Lemma pattr_real : forall a, PP.real (pattr_of a).
Proof. intros a. destruct a; discriminate. Qed.
Lemma pattr_inj : forall a b, pattr_of a = pattr_of b -> a = b.
Proof. intros a b H. destruct a, b; try reflexivity; discriminate H. Qed.
Lemma pattr_type : forall a,
  PD.attr_type (pattr_of a) = match attr_type a with TyBool => PD.TBool | TyInt => PD.TInt | TyColour => PD.TColour end.
Proof. intros a. destruct a; reflexivity. Qed.

(* the abstract pen [p] is the partial map the concrete pen [q] denotes (at one attribute / everywhere) *)
Definition rep_at (q : PD.pen) (p : pen) (a : attr) : Prop := p a = option_map cv (PS.lookup q (pattr_of a)).
Definition rep (q : PD.pen) (p : pen) : Prop := forall a, rep_at q p a.
Definition alpha (q : PD.pen) : pen := fun a => option_map cv (PS.lookup q (pattr_of a)).
Lemma rep_alpha : forall q, rep q (alpha q).
Proof. intros q a. reflexivity. Qed.

(* ---- accessors *)
Lemma rep_has : forall q p a, rep_at q p a -> has_attr p a = PD.has_attr q (pattr_of a).
Proof.
  intros q p a H. unfold rep_at in H. unfold has_attr. rewrite H. unfold PS.lookup.
  destruct (PD.has_attr q (pattr_of a)); reflexivity.
Qed.

Ltac rep_acc H :=
  unfold rep_at in H; cbn [pattr_of] in H; cbn iota; try rewrite H; unfold PS.lookup, PS.typed_read;
  unfold PD.get_bool, PD.get_int, PD.get_colour, PD.get_rgb;
  cbn [PD.has_attr PD.attr_type PD.has_rgb];
  repeat match goal with
         | |- context [PD.v_b ?x] => destruct (PD.v_b x)
         | |- context [PD.v_i ?x] => destruct (PD.v_i x)
         | |- context [PD.v_idx ?x] => destruct (PD.v_idx x)
         | |- context [PD.v_rgb ?x] => destruct (PD.v_rgb x)
         end;
  cbn [option_map cv negb andb PD.has_attr PD.has_rgb PD.attr_type]; try reflexivity.

Lemma rep_get_bool : forall q p a, rep_at q p a -> get_bool_attr p a = PD.get_bool q (pattr_of a).
Proof.
  intros q p a H. unfold get_bool_attr. destruct a; cbn [pattr_of]; rep_acc H.
  destruct (PD.ival (PD.under q)) as [|k|k]; reflexivity.
Qed.

Lemma rep_get_int : forall q p a, rep_at q p a -> get_int_attr p a = PD.get_int q (pattr_of a).
Proof. intros q p a H. unfold get_int_attr. destruct a; cbn [pattr_of]; rep_acc H. Qed.

(* also for the other attributes: both are what tickit_pen_get_colour_attr returns there, -1 or 0 *)
Lemma rep_get_colour : forall q p a, rep_at q p a -> get_colour_attr p a = PD.get_colour q (pattr_of a).
Proof. intros q p a H. unfold get_colour_attr. destruct a; cbn [pattr_of]; rep_acc H. Qed.

Lemma rep_has_rgb : forall q p a, rep_at q p a -> has_colour_attr_rgb8 p a = PD.has_rgb q (pattr_of a).
Proof. intros q p a H. unfold has_colour_attr_rgb8. destruct a; cbn [pattr_of]; rep_acc H. Qed.

Lemma rep_get_rgb : forall q p a, rep_at q p a -> get_colour_attr_rgb8 p a = crgb (PD.get_rgb q (pattr_of a)).
Proof. intros q p a H. unfold get_colour_attr_rgb8. destruct a; cbn [pattr_of]; rep_acc H. Qed.

Lemma crgb_eqb : forall x y, rgb_eqb (crgb x) (crgb y) = PD.rgb_eqb x y.
Proof. intros x y. reflexivity. Qed.

(* tickit_pen_equiv_attr *)
Lemma rep_equiv_attr : forall qx px qy py a, rep_at qx px a -> rep_at qy py a ->
  equiv_attr px py a = PD.equiv_attr qx qy (pattr_of a).
Proof.
  intros qx px qy py a Hx Hy. unfold equiv_attr, PD.equiv_attr. rewrite pattr_type.
  destruct (attr_type a) eqn:Et.
  - rewrite (rep_get_bool qx px a Hx), (rep_get_bool qy py a Hy). reflexivity.
  - rewrite (rep_get_int qx px a Hx), (rep_get_int qy py a Hy). reflexivity.
  - rewrite (rep_get_colour qx px a Hx), (rep_get_colour qy py a Hy).
    rewrite (rep_has_rgb qx px a Hx), (rep_has_rgb qy py a Hy).
    rewrite (rep_get_rgb qx px a Hx), (rep_get_rgb qy py a Hy), crgb_eqb. reflexivity.
Qed.

(* tickit_pen_nondefault_attr / tickit_pen_is_nondefault *)
Lemma rep_nondefault : forall q p a, rep_at q p a -> nondefault_attr p a = PD.nondefault_attr q (pattr_of a).
Proof.
  intros q p a H. unfold rep_at in H. unfold nondefault_attr, PD.nondefault_attr. rewrite (rep_has q p a H), pattr_type.
  destruct (PD.has_attr q (pattr_of a)); cbn [negb]; [|reflexivity].
  destruct (attr_type a) eqn:Et.
  - apply rep_get_bool; exact H.
  - rewrite (rep_get_int q p a H). destruct (PD.get_int q (pattr_of a)) as [|k|k]; reflexivity.
  - rewrite (rep_get_colour q p a H). reflexivity.
Qed.
Lemma rep_is_nondefault : forall q p, rep q p -> is_nondefault p = PD.is_nondefault q.
Proof.
  intros q p H. unfold is_nondefault, PD.is_nondefault. rewrite pattr_all.
  induction all_attrs as [|a l IH]; [reflexivity|]. cbn [map existsb].
  rewrite (rep_nondefault q p a (H a)), IH. reflexivity.
Qed.

Lemma pen_accessors_C19 : forall q p a, rep_at q p a ->
  has_attr p a = PD.has_attr q (pattr_of a) /\
  get_bool_attr p a = PD.get_bool q (pattr_of a) /\
  get_int_attr p a = PD.get_int q (pattr_of a) /\
  get_colour_attr p a = PD.get_colour q (pattr_of a) /\
  has_colour_attr_rgb8 p a = PD.has_rgb q (pattr_of a) /\
  get_colour_attr_rgb8 p a = crgb (PD.get_rgb q (pattr_of a)) /\
  nondefault_attr p a = PD.nondefault_attr q (pattr_of a) /\
  (forall q2 p2, rep_at q2 p2 a -> equiv_attr p p2 a = PD.equiv_attr q q2 (pattr_of a)).
Proof.
  intros q p a H.
  refine (conj (rep_has q p a H) (conj (rep_get_bool q p a H) (conj (rep_get_int q p a H)
          (conj (rep_get_colour q p a H) (conj (rep_has_rgb q p a H) (conj (rep_get_rgb q p a H)
          (conj (rep_nondefault q p a H) _))))))).
  intros q2 p2 H2. apply rep_equiv_attr; assumption.
Qed.

(* ---- mutations: what term.c does to the cached pen and to the delta *)
Lemma pattr_neq : forall a b, a <> b -> pattr_of a <> pattr_of b.
Proof. intros a b H E. apply H, pattr_inj, E. Qed.

(* tickit_pen_set_colour_attr of a storable index (the converted index is one: 0..15) *)
Lemma abs_set_colour_other : forall p a i b, a <> b -> set_colour_attr p a i b = p b.
Proof. intros p a i b H. unfold set_colour_attr. destruct a; try reflexivity; apply pset_other; exact H. Qed.

Lemma rep_set_colour : forall q p a i, rep q p -> attr_type a = TyColour -> -1 <= i <= 255 ->
  rep (PD.set_colour q (pattr_of a) i) (set_colour_attr p a i).
Proof.
  intros q p a i H Ht Hi b. unfold rep_at. destruct (attr_eq_dec a b) as [<-|Hne].
  - destruct a; try discriminate Ht; cbn [pattr_of set_colour_attr]; rewrite pset_same;
      unfold PS.lookup, PS.typed_read, PD.set_colour; cbn;
      rewrite ?PP.wrap_fg_id, ?PP.wrap_bg_id by exact Hi; reflexivity.
  - rewrite abs_set_colour_other by exact Hne.
    rewrite (PP.set_colour_frame q i (pattr_of a) (pattr_of b) (pattr_neq a b Hne)). apply H.
Qed.

(* tickit_pen_copy_attr: afterwards the destination reads, at that attribute, what the source reads
   (its value, or the type's default when the source lacks the attribute) *)
Lemma c_copy_attr_reads : forall d s A, PP.wf s -> PP.real A ->
  PS.lookup (PD.copy_attr d s A) A = Some (PS.reads s A).
Proof.
  intros d s A Hwf Hr. destruct (PD.has_attr s A) eqn:Eh.
  - rewrite PP.copy_attr_at by assumption. apply PP.lookup_has. exact Eh.
  - destruct (PP.defaults s A Eh) as (_ & Hrd & Hb & Hi & Hc & Hrgb & _).
    rewrite Hrd. unfold PD.copy_attr, PS.default_of.
    destruct A; try (contradiction Hr; reflexivity); cbn [PD.attr_type]; rewrite ?Hb, ?Hi, ?Hc, ?Hrgb;
      unfold PS.lookup, PS.typed_read, PD.set_bool, PD.set_int, PD.set_colour; cbn; reflexivity.
Qed.

Lemma abs_copy_attr_other : forall d s a b, a <> b -> copy_attr d s a b = d b.
Proof.
  intros d s a b H. unfold copy_attr. destruct (attr_type a) eqn:Et.
  - unfold set_bool_attr. destruct a; try reflexivity; apply pset_other; exact H.
  - unfold set_int_attr. destruct a; try reflexivity; apply pset_other; exact H.
  - destruct (has_colour_attr_rgb8 s a).
    + unfold set_colour_attr_rgb8.
      destruct a; try discriminate Et;
        match goal with |- context [match ?x with Some _ => _ | None => _ end] => destruct x as [[?|?|? ?]|] end;
        rewrite ?pset_other by exact H; apply abs_set_colour_other; exact H.
    + apply abs_set_colour_other; exact H.
Qed.

Lemma abs_copy_attr_at : forall d s a sq, rep_at sq s a ->
  copy_attr d s a a = Some (cv (PS.typed_read sq (pattr_of a))).
Proof.
  intros d s a sq H. unfold copy_attr, PS.typed_read. rewrite pattr_type.
  destruct (attr_type a) eqn:Et.
  - rewrite (rep_get_bool sq s a H). unfold set_bool_attr. destruct a; try discriminate Et; apply pset_same.
  - rewrite (rep_get_int sq s a H). unfold set_int_attr. destruct a; try discriminate Et; apply pset_same.
  - rewrite (rep_has_rgb sq s a H), (rep_get_colour sq s a H), (rep_get_rgb sq s a H).
    destruct (PD.has_rgb sq (pattr_of a)).
    + unfold set_colour_attr_rgb8, set_colour_attr. destruct a; try discriminate Et; rewrite pset_same, pset_same; reflexivity.
    + unfold set_colour_attr. destruct a; try discriminate Et; apply pset_same.
Qed.

Lemma rep_copy_attr : forall dq dp sq sp a, rep dq dp -> rep_at sq sp a -> PP.wf sq ->
  rep (PD.copy_attr dq sq (pattr_of a)) (copy_attr dp sp a).
Proof.
  intros dq dp sq sp a Hd Hs Hwf b. unfold rep_at. destruct (attr_eq_dec a b) as [<-|Hne].
  - rewrite (abs_copy_attr_at dp sp a sq Hs), c_copy_attr_reads by (exact Hwf || apply pattr_real).
    rewrite PP.reads_typed. reflexivity.
  - rewrite abs_copy_attr_other by exact Hne.
    rewrite (PP.copy_attr_frame dq sq (pattr_of a) (pattr_of b) (pattr_neq a b Hne)). apply Hd.
Qed.

(* tickit_pen_new: nothing present, whatever malloc returned *)
Lemma rep_new : forall g, rep (PD.pen_new g) empty_pen.
Proof. intros g a. unfold rep_at. rewrite PP.new_empty. reflexivity. Qed.

(* ---- the loops of tickit_term_setpen / tickit_term_chpen over C19's concrete pens, with C19's functions
   (term.c lines: has_attr, get_colour_attr, convert_colour, has_colour_attr_rgb8, equiv_attr,
   set_colour_attr, copy_attr; delta = tickit_pen_new()) *)
Definition c_is_colour (A : PD.attr) : bool := match A with PD.FG | PD.BG => true | _ => false end.
Definition c_pen_step (colors : Z) (only_present : bool) (pen_ : PD.pen)
           (st : option (PD.pen * PD.pen)) (A : PD.attr) : option (PD.pen * PD.pen) :=
  match st with
  | None => None
  | Some (tp, delta) =>
      if only_present && negb (PD.has_attr pen_ A) then st
      else
        let idx0 := PD.get_colour pen_ A in
        let convert := c_is_colour A && (colors <=? idx0) && (0 <=? idx0) in
        if convert then
          match convert_colour idx0 colors with
          | None => None
          | Some index =>
              if PD.has_attr tp A && ((PD.get_colour tp A =? index) && negb (PD.has_rgb tp A))
              then st
              else Some (PD.set_colour tp A index, PD.set_colour delta A index)
          end
        else
          if PD.has_attr tp A && PD.equiv_attr tp pen_ A then st
          else Some (PD.copy_attr tp pen_ A, PD.copy_attr delta pen_ A)
  end.
Definition c_term_setpen (colors : Z) (garbage tp pen_ : PD.pen) : option (PD.pen * PD.pen) :=
  fold_left (c_pen_step colors false pen_) PD.all_attrs (Some (tp, PD.pen_new garbage)).
Definition c_term_chpen (colors : Z) (garbage tp pen_ : PD.pen) : option (PD.pen * PD.pen) :=
  fold_left (c_pen_step colors true pen_) PD.all_attrs (Some (tp, PD.pen_new garbage)).

(* related states: both faulted, or cached pens and deltas related (and the concrete ones well-formed) *)
Definition st_rel (c : option (PD.pen * PD.pen)) (s : option (pen * pen)) : Prop :=
  match c, s with
  | None, None => True
  | Some (tq, dq), Some (tp, dp) => rep tq tp /\ rep dq dp /\ PP.wf tq /\ PP.wf dq
  | _, _ => False
  end.

Lemma c_is_colour_abs : forall a, c_is_colour (pattr_of a) = is_colour_attr a.
Proof. intros a. destruct a; reflexivity. Qed.

Lemma step_sim : forall colors op pq pp c s a, rep pq pp -> PP.wf pq -> st_rel c s ->
  st_rel (c_pen_step colors op pq c (pattr_of a)) (pen_step colors op pp s a).
Proof.
  intros colors op pq pp c s a Hp Hwf Hst.
  destruct c as [[tq dq]|], s as [[tp dp]|]; try contradiction; [|exact I].
  destruct Hst as (Ht & Hd & Wt & Wd).
  unfold c_pen_step, pen_step.
  rewrite (rep_has pq pp a (Hp a)), (rep_get_colour pq pp a (Hp a)), c_is_colour_abs.
  destruct (op && negb (PD.has_attr pq (pattr_of a))); [exact (conj Ht (conj Hd (conj Wt Wd)))|].
  cbv zeta.
  destruct (is_colour_attr a && (colors <=? PD.get_colour pq (pattr_of a)) && (0 <=? PD.get_colour pq (pattr_of a))) eqn:Econv.
  - destruct (convert_colour (PD.get_colour pq (pattr_of a)) colors) as [index|] eqn:Ei; [|exact I].
    rewrite (rep_has tq tp a (Ht a)), (rep_get_colour tq tp a (Ht a)), (rep_has_rgb tq tp a (Ht a)).
    destruct (PD.has_attr tq (pattr_of a) && ((PD.get_colour tq (pattr_of a) =? index) && negb (PD.has_rgb tq (pattr_of a))));
      [exact (conj Ht (conj Hd (conj Wt Wd)))|].
    pose proof (convert_colour_range _ _ _ Ei) as Hr.
    assert (Hty : attr_type a = TyColour) by (destruct a; try reflexivity; discriminate Econv).
    refine (conj _ (conj _ (conj _ _))).
    + apply rep_set_colour; [exact Ht|exact Hty|lia].
    + apply rep_set_colour; [exact Hd|exact Hty|lia].
    + apply PP.wf_set_colour; exact Wt.
    + apply PP.wf_set_colour; exact Wd.
  - rewrite (rep_has tq tp a (Ht a)), (rep_equiv_attr tq tp pq pp a (Ht a) (Hp a)).
    destruct (PD.has_attr tq (pattr_of a) && PD.equiv_attr tq pq (pattr_of a));
      [exact (conj Ht (conj Hd (conj Wt Wd)))|].
    refine (conj _ (conj _ (conj _ _))).
    + apply rep_copy_attr; [exact Ht|exact (Hp a)|exact Hwf].
    + apply rep_copy_attr; [exact Hd|exact (Hp a)|exact Hwf].
    + apply PP.wf_copy_attr; exact Wt.
    + apply PP.wf_copy_attr; exact Wd.
Qed.

Lemma fold_sim : forall colors op pq pp, rep pq pp -> PP.wf pq -> forall l c s, st_rel c s ->
  st_rel (fold_left (c_pen_step colors op pq) (map pattr_of l) c) (fold_left (pen_step colors op pp) l s).
Proof.
  intros colors op pq pp Hp Hwf. induction l as [|a l IH]; intros c s Hst; [exact Hst|].
  cbn [map fold_left]. apply IH. apply step_sim; assumption.
Qed.

(* tickit_term_setpen / tickit_term_chpen on C19 pens are TermPenDefs.term_setpen / term_chpen on the maps *)
Theorem pen_is_C19 : forall colors g tq tp pq pp,
  rep tq tp -> rep pq pp -> PP.wf tq -> PP.wf pq -> PP.wf g ->
  st_rel (c_term_setpen colors g tq pq) (term_setpen colors tp pp) /\
  st_rel (c_term_chpen colors g tq pq) (term_chpen colors tp pp).
Proof.
  intros colors g tq tp pq pp Ht Hp Wt Wp Wg.
  assert (H0 : st_rel (Some (tq, PD.pen_new g)) (Some (tp, empty_pen))).
  { refine (conj Ht (conj (rep_new g) (conj Wt _))). apply PP.wf_clear. exact Wg. }
  unfold c_term_setpen, c_term_chpen, term_setpen, term_chpen. rewrite pattr_all.
  split; apply fold_sim; assumption.
Qed.

(* ---- the driver: chpen of termdriver-xterm.c reads the delta and the final pen through
   tickit_pen_has_attr / get_colour_attr / has_colour_attr_rgb8 / get_colour_attr_rgb8 / get_int_attr /
   get_bool_attr / is_nondefault only; written over C19's pens it builds the same parameters *)
Definition c_attr_params (colon rgb8 : bool) (delta : PD.pen) (a : attr) : list sparam :=
  let on := fst (onoff a) in let off := snd (onoff a) in
  let A := pattr_of a in
  match a with
  | AFg | ABg =>
      let val := PD.get_colour delta A in
      if val <? 0 then [(off, false)]
      else if rgb8 && PD.has_rgb delta A then
        let c := PD.get_rgb delta A in
        [(on + 8, true); (2, true); (PD.cr c, true); (PD.cg c, true); (PD.cb c, false)]
      else if val <? 8 then [(on + val, false)]
      else if val <? 16 then [(on + 60 + val - 8, false)]
      else [(on + 8, true); (5, true); (val, false)]
  | AUnder =>
      let val := PD.get_int delta A in
      if val =? 0 then [(off, false)]
      else if val =? 1 then [(on, false)]
      else if colon then [(on, true); (val, false)]
      else [((if val =? 2 then 21 else on), false)]
  | AAltfont =>
      let val := PD.get_int delta A in
      if (val <? 0) || (10 <=? val) then [(off, false)] else [(on + val, false)]
  | ASizepos =>
      let val := PD.get_int delta A in
      if val =? 0 then [(off, false)]
      else if val =? 2 then [(73, false)]
      else if val =? 3 then [(74, false)]
      else []
  | ABold | AItalic | AReverse | AStrike | ABlink =>
      [((if PD.get_bool delta A then on else off), false)]
  end.
Definition c_chpen_params (colon rgb8 : bool) (delta : PD.pen) : list sparam :=
  flat_map (fun a => if PD.has_attr delta (pattr_of a) then c_attr_params colon rgb8 delta a else []) all_attrs.
Definition c_xterm_chpen (capacity : Z) (colon rgb8 : bool) (delta final : PD.pen) : option (list token) :=
  let ps := c_chpen_params colon rgb8 delta in
  if capacity <? Z.of_nat (length ps) then None
  else match ps with
       | [] => Some []
       | _ :: _ =>
           if negb (PD.is_nondefault final) then Some [TCsi None [] [] 109]
           else Some [TCsi None (group_params colon ps []) [] 109]
       end.

Lemma attr_params_C19 : forall colon rgb8 dq dp a, rep_at dq dp a ->
  attr_params colon rgb8 dp a = c_attr_params colon rgb8 dq a.
Proof.
  intros colon rgb8 dq dp a H. unfold attr_params, c_attr_params.
  rewrite (rep_get_colour dq dp a H), (rep_has_rgb dq dp a H), (rep_get_rgb dq dp a H),
          (rep_get_int dq dp a H), (rep_get_bool dq dp a H).
  destruct a; reflexivity.
Qed.

Lemma chpen_params_C19 : forall colon rgb8 dq dp, rep dq dp ->
  chpen_params colon rgb8 dp = c_chpen_params colon rgb8 dq.
Proof.
  intros colon rgb8 dq dp H. unfold chpen_params, c_chpen_params.
  induction all_attrs as [|a l IH]; [reflexivity|]. cbn [flat_map].
  rewrite (rep_has dq dp a (H a)), (attr_params_C19 colon rgb8 dq dp a (H a)), IH. reflexivity.
Qed.

Theorem xterm_chpen_C19 : forall capacity colon rgb8 dq dp fq fp, rep dq dp -> rep fq fp ->
  xterm_chpen capacity colon rgb8 dp fp = c_xterm_chpen capacity colon rgb8 dq fq.
Proof.
  intros capacity colon rgb8 dq dp fq fp Hd Hf. unfold xterm_chpen, c_xterm_chpen.
  rewrite (chpen_params_C19 colon rgb8 dq dp Hd), (rep_is_nondefault fq fp Hf). reflexivity.
Qed.

(* both layers: tickit_term_setpen / chpen on an xterm, over C19's pens *)
Definition c_do_pen (is_set : bool) (capacity : Z) (colon rgb8 : bool) (colors : Z) (g tq pq : PD.pen)
  : option (PD.pen * list token) :=
  match (if is_set then c_term_setpen colors g tq pq else c_term_chpen colors g tq pq) with
  | None => None
  | Some (tq', dq) =>
      match c_xterm_chpen capacity colon rgb8 dq tq' with
      | None => None
      | Some ts => Some (tq', ts)
      end
  end.

(* the model C10 is proved for (do_setpen / do_chpen over partial maps) is this one: same Faults, same
   tokens, cached pens related afterwards *)
Theorem do_pen_C19 : forall (is_set : bool) capacity colon rgb8 colors g tq tp pq pp,
  rep tq tp -> rep pq pp -> PP.wf tq -> PP.wf pq -> PP.wf g ->
  match c_do_pen is_set capacity colon rgb8 colors g tq pq,
        (if is_set then do_setpen capacity colon rgb8 (mkTp tp colors) pp
         else do_chpen capacity colon rgb8 (mkTp tp colors) pp) with
  | None, None => True
  | Some (tq', ts), Some (s', ts') => ts = ts' /\ rep tq' (tp_pen s') /\ PP.wf tq' /\ tp_colors s' = colors
  | _, _ => False
  end.
Proof.
  intros is_set capacity colon rgb8 colors g tq tp pq pp Ht Hp Wt Wp Wg.
  destruct (pen_is_C19 colors g tq tp pq pp Ht Hp Wt Wp Wg) as [Hs Hc].
  unfold c_do_pen, do_setpen, do_chpen. cbn [tp_pen tp_colors].
  destruct is_set.
  - destruct (c_term_setpen colors g tq pq) as [[tq' dq]|], (term_setpen colors tp pp) as [[tp' dp]|];
      try contradiction; [|exact I].
    destruct Hs as (H1 & H2 & H3 & H4). rewrite (xterm_chpen_C19 capacity colon rgb8 dq dp tq' tp' H2 H1).
    destruct (c_xterm_chpen capacity colon rgb8 dq tq'); [|exact I].
    cbn [tp_pen tp_colors]. auto.
  - destruct (c_term_chpen colors g tq pq) as [[tq' dq]|], (term_chpen colors tp pp) as [[tp' dp]|];
      try contradiction; [|exact I].
    destruct Hc as (H1 & H2 & H3 & H4). rewrite (xterm_chpen_C19 capacity colon rgb8 dq dp tq' tp' H2 H1).
    destruct (c_xterm_chpen capacity colon rgb8 dq tq'); [|exact I].
    cbn [tp_pen tp_colors]. auto.
Qed.

(* ---- C10's logical pen is C19's *)
Lemma default_cv : forall a, default_val a = cv (PS.default_of (pattr_of a)).
Proof. intros a. destruct a; reflexivity. Qed.

(* after set-pen: literally C19's [reads] of the argument, attribute by attribute *)
Theorem logical_set_is_reads : forall pq pp l, rep pq pp ->
  forall a, logical_set l pp a = Some (cv (PS.reads pq (pattr_of a))).
Proof.
  intros pq pp l H a. unfold logical_set, PS.reads. rewrite (H a).
  destruct (PS.lookup pq (pattr_of a)); cbn [option_map]; [reflexivity|]. rewrite default_cv. reflexivity.
Qed.

(* after change-pen: C19's copy with overwrite of the argument onto it (C19_copy: copy_entry per attribute) *)
Theorem logical_ch_is_copy : forall lq l pq pp, rep lq l -> rep pq pp -> PP.wf pq ->
  rep (PD.copy lq pq true) (logical_ch l pp).
Proof.
  intros lq l pq pp Hl Hp Hwf a. unfold rep_at, logical_ch. rewrite PP.copy_spec by exact Hwf.
  rewrite (Hp a), (Hl a). unfold PP.copy_entry.
  destruct (PS.lookup pq (pattr_of a)), (PS.lookup lq (pattr_of a)); reflexivity.
Qed.

(* and the range C10 quantifies over is inside C19's representable values *)
Lemma in_range_representable : forall a v, aval_in_range a (cv v) -> PS.representable (pattr_of a) v = true.
Proof.
  intros a v H. unfold aval_in_range in H.
  destruct a; cbn [attr_type pattr_of] in *; destruct v as [b|z|i [c|]]; cbn [cv option_map crgb] in H;
    try contradiction; cbn [PS.representable]; try reflexivity; unfold PS.rgb_ok; unfold crgb in H; cbn [rgb_r rgb_g rgb_b] in H; lia.
Qed.

(* ---- non-vacuity: a TickitPen built with C19's setters (bold, fg 200) on zeroed memory, set on a
   16-colour terminal with colon sub-parameters through the loop over C19's pens: it is well-formed, denotes
   the map used in C10_nonvacuous, and the driver emits the same SGR (fg 200 -> 13 = 95) *)
Definition zero_pen : PD.pen :=
  PD.mkPen (PD.mkCol 0 PD.rgb_zero false false) (PD.mkCol 0 PD.rgb_zero false false)
           (PD.mkB false false) (PD.mkI 0 false) (PD.mkB false false) (PD.mkB false false)
           (PD.mkB false false) (PD.mkI 0 false) (PD.mkB false false) (PD.mkI 0 false).
Definition bold_fg200 : PD.pen := PD.set_colour (PD.set_bool (PD.pen_new zero_pen) PD.BOLD true) PD.FG 200.
Lemma c19_example :
  PP.wf zero_pen /\ PP.wf bold_fg200 /\
  rep bold_fg200 (pset (pset empty_pen ABold (Some (VBool true))) AFg (Some (VCol 200 None))) /\
  match c_do_pen true chpen_params_capacity true true 16 zero_pen (PD.pen_new zero_pen) bold_fg200 with
  | Some (tq', ts) =>
      ts = [TCsi None [[Some 95]; [Some 49]; [Some 1]; [Some 24]; [Some 23]; [Some 27]; [Some 29];
                       [Some 10]; [Some 25]; [Some 75]] [] 109] /\
      PS.lookup tq' PD.FG = Some (PS.VCol 13 None) /\ PS.lookup tq' PD.BOLD = Some (PS.VBool true)
  | None => False
  end.
Proof.
  split; [vm_compute; repeat split; reflexivity|]. split; [vm_compute; repeat split; reflexivity|].
  split; [intros a; destruct a; reflexivity|]. vm_compute. repeat split; reflexivity.
Qed.
