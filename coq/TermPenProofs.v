(* TermPenProofs.v -- C10: lemmas about the pen path (term.c delta encoder, palette
   conversion, the driver's SGR encoder) against the VT's SGR semantics. *)
From Coq Require Import ZArith List Bool Lia.
From Tickit Require Import Csi VT TermPenDefs TermPenSpec Gen_Palette Gen_SgrOnOff.
Import ListNotations.
Local Open Scope Z_scope.

(* ---- the palette table as it is in the source now *)
Lemma palette_shape :
  length xterm256 = 256%nat /\
  forallb (fun p => (0 <=? fst p) && (fst p <? 16) && (0 <=? snd p) && (snd p <? 8)) xterm256 = true.
Proof. split; vm_compute; reflexivity. Qed.
